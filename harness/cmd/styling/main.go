// Command styling runs the real message-styling decoder (styling.NewDecoder, and the bare
// split function styling.Scan under a bufio.Scanner) over enumerated inputs and over every
// way a reader may deliver them, and records what it observed as traces for validation
// against tla/TrStyling.tla (the C17 monitor of tla/Styling.tla).
//
//	styling run <trace.ndjson> <result.json>          inputs by VERIF_TIER / VERIF_SEED; traces go to
//	                                                  <trace.ndjson>.0 .. .N-1 (STYLING_SHARDS=N)
//	styling replay <case.json> <trace.ndjson> <result.json>
//
// For every input the run over a reader that delivers the whole input at once is the
// reference; it is always written as a trace.  Every other reader (each 2-way split, one
// byte per Read, iotest.OneByteReader, iotest.DataErrReader, ...) is run too and its
// observation sequence compared with the reference: a run that differs is written as a
// trace that carries the reference ("ref"), so that TLC rejects it under
// C17_ChunkIndependent; runs equal to the reference are counted, and a seeded sample of
// them is written with "ref" as well (TLC must accept those).
package main

import (
	"bufio"
	"bytes"
	"encoding/json"
	"fmt"
	"io"
	"math/rand"
	"os"
	"runtime/debug"
	"strconv"
	"strings"
	"testing/iotest"

	"mellium.im/xmpp/styling"

	"verifharness/vt"
)

// symbols of the enumerated alphabet
var symbols = [][]byte{
	{'*'}, {'_'}, {'~'}, {'`'}, {'>'}, {' '}, {'\n'}, {'a'},
	{0xC2, 0xA0}, // no-break space (unicode.IsSpace)
	{0xC2},       // invalid UTF-8: a lead octet without continuation
}

var bitNames = []struct {
	bit  styling.Style
	name string
}{
	{styling.BlockPre, "BlockPre"}, {styling.BlockQuote, "BlockQuote"},
	{styling.SpanEmph, "SpanEmph"}, {styling.SpanStrong, "SpanStrong"},
	{styling.SpanStrike, "SpanStrike"}, {styling.SpanPre, "SpanPre"},
	{styling.BlockPreStart, "BlockPreStart"}, {styling.BlockPreEnd, "BlockPreEnd"},
	{styling.BlockQuoteStart, "BlockQuoteStart"}, {styling.BlockQuoteEnd, "BlockQuoteEnd"},
	{styling.SpanEmphStart, "SpanEmphStart"}, {styling.SpanEmphEnd, "SpanEmphEnd"},
	{styling.SpanStrongStart, "SpanStrongStart"}, {styling.SpanStrongEnd, "SpanStrongEnd"},
	{styling.SpanStrikeStart, "SpanStrikeStart"}, {styling.SpanStrikeEnd, "SpanStrikeEnd"},
	{styling.SpanPreStart, "SpanPreStart"}, {styling.SpanPreEnd, "SpanPreEnd"},
}

func maskNames(m styling.Style) []string {
	out := []string{}
	for _, b := range bitNames {
		if m&b.bit != 0 {
			out = append(out, b.name)
			m &^= b.bit
		}
	}
	if m != 0 {
		out = append(out, "Unknown")
	}
	return out
}

func ints(b []byte) []int {
	out := make([]int, len(b))
	for i, c := range b {
		out[i] = int(c)
	}
	return out
}

// chunkReader delivers the given pieces, one per Read call, then io.EOF.
type chunkReader struct {
	chunks [][]byte
}

func (c *chunkReader) Read(p []byte) (int, error) {
	for len(c.chunks) > 0 && len(c.chunks[0]) == 0 {
		c.chunks = c.chunks[1:]
	}
	if len(c.chunks) == 0 {
		return 0, io.EOF
	}
	n := copy(p, c.chunks[0])
	c.chunks[0] = c.chunks[0][n:]
	return n, nil
}

func fixedChunks(in []byte, size int) io.Reader {
	var cs [][]byte
	for i := 0; i < len(in); i += size {
		j := i + size
		if j > len(in) {
			j = len(in)
		}
		cs = append(cs, in[i:j])
	}
	return &chunkReader{chunks: cs}
}

type readerKind struct {
	name string
	mk   func(in []byte) io.Reader
}

// readers returns every way the input is delivered (the first one is the reference).
func readers(in []byte) []readerKind {
	rs := []readerKind{{"whole", func(in []byte) io.Reader { return bytes.NewReader(in) }}}
	if len(in) <= 64 {
		for k := 1; k < len(in); k++ {
			k := k
			rs = append(rs, readerKind{"split@" + strconv.Itoa(k), func(in []byte) io.Reader {
				return &chunkReader{chunks: [][]byte{in[:k], in[k:]}}
			}})
		}
	}
	if len(in) <= 5000 {
		rs = append(rs,
			readerKind{"bytes", func(in []byte) io.Reader { return fixedChunks(in, 1) }},
			readerKind{"iotest.OneByteReader", func(in []byte) io.Reader { return iotest.OneByteReader(bytes.NewReader(in)) }},
			readerKind{"iotest.DataErrReader(OneByteReader)", func(in []byte) io.Reader {
				return iotest.DataErrReader(iotest.OneByteReader(bytes.NewReader(in)))
			}},
		)
	}
	rs = append(rs, readerKind{"iotest.DataErrReader", func(in []byte) io.Reader { return iotest.DataErrReader(bytes.NewReader(in)) }})
	if len(in) > 64 {
		rs = append(rs,
			readerKind{"chunks of 1000", func(in []byte) io.Reader { return fixedChunks(in, 1000) }},
			readerKind{"chunks of 4096", func(in []byte) io.Reader { return fixedChunks(in, 4096) }},
			readerKind{"iotest.HalfReader", func(in []byte) io.Reader { return iotest.HalfReader(bytes.NewReader(in)) }},
		)
	}
	return rs
}

func errName(err error) string {
	switch err {
	case nil:
		return "nil"
	case io.EOF:
		return "EOF"
	}
	return err.Error()
}

// obs is one observation: a token (Next() = true) or the end of the run.
type obs struct {
	end     bool
	data    []byte
	mask    styling.Style
	q       uint
	info    []byte
	panic   bool
	runaway bool
	err     string
}

func (o obs) ev() vt.Ev {
	if o.end {
		return vt.Ev{"ev": "end", "panic": o.panic, "runaway": o.runaway, "err": o.err}
	}
	return vt.Ev{"ev": "tok", "data": ints(o.data), "m": maskNames(o.mask), "q": int(o.q), "info": ints(o.info)}
}

func evs(os []obs) []vt.Ev {
	out := make([]vt.Ev, len(os))
	for i, o := range os {
		out[i] = o.ev()
	}
	return out
}

func clone(b []byte) []byte { return append([]byte{}, b...) }

// observe runs one decoder over r and returns the observations in program order.
func observe(api string, in []byte, r io.Reader) (out []obs) {
	limit := 2*len(in) + 16
	calls := 0
	end := obs{end: true, err: "EOF"}
	defer func() {
		if p := recover(); p != nil {
			at := ""
			for _, l := range strings.Split(string(debug.Stack()), "\n") {
				if strings.Contains(l, "/styling/styling.go") || strings.Contains(l, "bufio/scan.go") {
					at = strings.TrimSpace(l)
					break
				}
			}
			end.panic = true
			end.err = fmt.Sprintf("panic: %v at %s", p, at)
		}
		out = append(out, end)
	}()
	if api == "scan" {
		s := bufio.NewScanner(r)
		s.Split(styling.Scan())
		for s.Scan() {
			calls++
			if calls > limit {
				end.runaway = true
				return out
			}
			out = append(out, obs{data: clone(s.Bytes())})
		}
		if s.Err() != nil {
			end.err = errName(s.Err())
		}
		return out
	}
	d := styling.NewDecoder(r)
	for d.Next() {
		calls++
		if calls > limit {
			end.runaway = true
			return out
		}
		tok := d.Token()
		mask := d.Style()
		q := d.Quote()
		out = append(out, obs{data: clone(tok.Data), mask: mask, q: q, info: clone(tok.Info)})
	}
	end.err = errName(d.Err())
	return out
}

// key is an injective encoding of an observation sequence (comparison and dedupe).
func key(os []obs) string {
	var b []byte
	for _, o := range os {
		if o.end {
			b = append(b, 'E')
			if o.panic {
				b = append(b, 'P')
			}
			if o.runaway {
				b = append(b, 'R')
			}
			b = append(b, o.err...)
			continue
		}
		b = append(b, 'T')
		b = strconv.AppendInt(b, int64(len(o.data)), 10)
		b = append(b, ':')
		b = append(b, o.data...)
		b = strconv.AppendUint(b, uint64(o.mask), 16)
		b = append(b, '/')
		b = strconv.AppendUint(b, uint64(o.q), 10)
		b = append(b, '/')
		b = strconv.AppendInt(b, int64(len(o.info)), 10)
		b = append(b, ':')
		b = append(b, o.info...)
	}
	return string(b)
}

type diffCase struct {
	API    string  `json:"api"`
	Input  []int   `json:"input"`
	Text   string  `json:"text"`
	Reader string  `json:"reader"`
	Shard  int     `json:"shard"`
	T      int     `json:"t"`
	Ref    []vt.Ev `json:"ref"`
	Got    []vt.Ev `json:"got"`
}

type runner struct {
	tws        []*vt.TraceWriter // one trace file per shard (validated by TLC in parallel)
	tw         *vt.TraceWriter   // the shard of the current input
	shard      int
	rnd        *rand.Rand
	sampleRate float64
	inputs     int
	runs       int
	same       int
	sampled    int
	differ     int
	diffInputs int
	distinct   map[string]bool
	diffs      []diffCase
	samples    []interface{}
	byReader   map[string]int
}

func (r *runner) doInput(in []byte, apis []string) {
	r.shard = r.inputs % len(r.tws)
	r.tw = r.tws[r.shard]
	r.inputs++
	for _, api := range apis {
		rs := readers(in)
		ref := observe(api, in, rs[0].mk(in))
		refKey := key(ref)
		r.runs++
		refEvs := evs(ref)
		t := r.tw.Write(vt.Ev{"input": ints(in), "api": api, "ref": []vt.Ev{}}, refEvs)
		r.tw.Meta(map[string]interface{}{"api": api, "input": ints(in), "text": strconv.Quote(string(in)), "reader": rs[0].name})
		if len(r.samples) < 3 && api == "decoder" && len(ref) > 4 && len(in) < 40 {
			r.samples = append(r.samples, map[string]interface{}{"input": strconv.Quote(string(in)), "reader": "whole", "observations": refEvs})
		}
		seen := map[string]bool{refKey: true}
		any := false
		for _, rk := range rs[1:] {
			got := observe(api, in, rk.mk(in))
			r.runs++
			k := key(got)
			if k == refKey {
				r.same++
				if r.rnd.Float64() < r.sampleRate {
					r.sampled++
					r.tw.Write(vt.Ev{"input": ints(in), "api": api, "ref": refEvs}, evs(got))
					r.tw.Meta(map[string]interface{}{"api": api, "input": ints(in), "text": strconv.Quote(string(in)), "reader": rk.name, "sample": true})
				}
				continue
			}
			r.differ++
			name := rk.name
			if strings.HasPrefix(name, "split@") {
				name = "split"
			}
			r.byReader[api+"/"+name]++
			any = true
			if seen[k] {
				continue
			}
			seen[k] = true
			t = r.tw.Write(vt.Ev{"input": ints(in), "api": api, "ref": refEvs}, evs(got))
			r.tw.Meta(map[string]interface{}{"api": api, "input": ints(in), "text": strconv.Quote(string(in)), "reader": rk.name, "differs": true})
			if len(r.diffs) < 400 {
				r.diffs = append(r.diffs, diffCase{API: api, Input: ints(in), Text: strconv.Quote(string(in)), Reader: rk.name, Shard: r.shard, T: t, Ref: refEvs, Got: evs(got)})
			}
		}
		if any {
			r.diffInputs++
		}
		for k := range seen {
			r.distinct[k] = true
		}
	}
}

func enumerate(n int, f func([]byte)) {
	idx := make([]int, n)
	for {
		var b []byte
		for _, i := range idx {
			b = append(b, symbols[i]...)
		}
		f(b)
		k := n - 1
		for k >= 0 {
			idx[k]++
			if idx[k] < len(symbols) {
				break
			}
			idx[k] = 0
			k--
		}
		if k < 0 {
			return
		}
	}
}

var templates = []string{
	"```\n%s\n```\n%s", "```%s\n%s\n```", "```\n%s\n```", "```\n%s\n%s", "> %s\n%s", "> %s\n> %s\n", ">> %s\n> %s\n%s",
	"> ```\n> %s\n> ```\n%s", "> > %s\n%s\n", "*%s* %s", "_*%s*_ ~%s~", "`%s` *%s*\n", "%s\n```\n%s", ">%s\n>>%s\n",
	"*%s\n%s*", "> *%s\n%s*\n",
}
var fillers = []string{"", "a", "*a*", "a b", "`c`", ">", "```", "_b", " ", "> q"}

func longLines() [][]byte {
	var out [][]byte
	for _, n := range []int{4095, 4096, 4097, 8191, 65535, 65536, 70000} {
		line := bytes.Repeat([]byte{'a'}, n)
		out = append(out, line)
		out = append(out, append(append([]byte{}, line...), '\n', 'b'))
		out = append(out, append(append([]byte("*"), line[:n-2]...), '*'))
		out = append(out, append(append([]byte("> "), line[:n-2]...), "\nc"...))
	}
	return out
}

func main() {
	if len(os.Args) < 4 {
		fmt.Fprintln(os.Stderr, "usage: styling run <trace.ndjson> <result.json> | styling replay <case.json> <trace.ndjson> <result.json>")
		os.Exit(2)
	}
	seed, _ := strconv.ParseInt(os.Getenv("VERIF_SEED"), 10, 64)
	tier := os.Getenv("VERIF_TIER")
	r := &runner{rnd: rand.New(rand.NewSource(seed)), distinct: map[string]bool{}, byReader: map[string]int{}}
	var tracePath, resPath string
	apis := []string{"decoder", "scan"}
	if os.Args[1] == "replay" {
		tracePath, resPath = os.Args[3], os.Args[4]
	} else {
		tracePath, resPath = os.Args[2], os.Args[3]
	}
	shards, _ := strconv.Atoi(os.Getenv("STYLING_SHARDS"))
	if shards < 1 {
		shards = 1
	}
	for i := 0; i < shards; i++ {
		tw, err := vt.NewTraceWriter(tracePath + "." + strconv.Itoa(i))
		if err != nil {
			panic(err)
		}
		r.tws = append(r.tws, tw)
	}
	r.sampleRate = 0.002
	if v := os.Getenv("STYLING_SAMPLE"); v != "" {
		r.sampleRate, _ = strconv.ParseFloat(v, 64)
	}
	exhaustive, sampledLen, sampledN := 4, 0, 0
	if os.Args[1] == "replay" {
		b, err := os.ReadFile(os.Args[2])
		if err != nil {
			panic(err)
		}
		var c struct {
			Input []int  `json:"input"`
			API   string `json:"api"`
		}
		if err := json.Unmarshal(b, &c); err != nil {
			panic(err)
		}
		in := make([]byte, len(c.Input))
		for i, x := range c.Input {
			in[i] = byte(x)
		}
		r.sampleRate = 1
		r.doInput(in, []string{c.API})
	} else {
		switch tier {
		case "thorough":
			exhaustive, sampledLen, sampledN = 6, 8, 20000
		default:
			exhaustive, sampledLen, sampledN = 5, 7, 3000
		}
		if v := os.Getenv("STYLING_MAXLEN"); v != "" {
			exhaustive, _ = strconv.Atoi(v)
		}
		if v := os.Getenv("STYLING_SAMPLE_LEN"); v != "" {
			sampledLen, _ = strconv.Atoi(v)
		}
		if v := os.Getenv("STYLING_SAMPLE_N"); v != "" {
			sampledN, _ = strconv.Atoi(v)
		}
		for n := 0; n <= exhaustive; n++ {
			enumerate(n, func(b []byte) { r.doInput(b, apis) })
		}
		for i := 0; i < sampledN; i++ {
			n := exhaustive + 1 + r.rnd.Intn(sampledLen-exhaustive)
			var b []byte
			for j := 0; j < n; j++ {
				b = append(b, symbols[r.rnd.Intn(len(symbols))]...)
			}
			r.doInput(b, apis)
		}
		for _, t := range templates {
			for _, f1 := range fillers {
				for _, f2 := range fillers {
					r.doInput([]byte(fmt.Sprintf(t, f1, f2)), apis)
				}
			}
		}
		for _, l := range longLines() {
			r.doInput(l, []string{"decoder"})
		}
	}
	traces, events := 0, 0
	for _, tw := range r.tws {
		t, e := tw.Counts()
		traces, events = traces+t, events+e
		if err := tw.Close(); err != nil {
			panic(err)
		}
	}
	res := map[string]interface{}{
		"inputs": r.inputs, "runs": r.runs, "same_as_whole": r.same, "same_sampled_for_tlc": r.sampled,
		"differ_from_whole": r.differ, "inputs_with_differences": r.diffInputs, "differ_by_reader": r.byReader,
		"distinct_observation_sequences": len(r.distinct), "traces": traces, "events": events,
		"exhaustive_len": exhaustive, "sampled_len": sampledLen, "sampled_n": sampledN,
		"diffs": r.diffs, "samples": r.samples,
	}
	if r.diffs == nil {
		res["diffs"] = []diffCase{}
	}
	if r.samples == nil {
		res["samples"] = []interface{}{}
	}
	b, _ := json.Marshal(res)
	if err := os.WriteFile(resPath, b, 0o644); err != nil {
		panic(err)
	}
	vt.Summary{Traces: traces, Events: events, Evaluations: r.runs, Distinct: len(r.distinct),
		Extra: map[string]interface{}{"differ": r.differ, "inputs": r.inputs}}.Print()
}
