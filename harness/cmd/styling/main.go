// Command styling runs the real message-styling decoder (styling.NewDecoder, and the bare
// split function styling.Scan under a bufio.Scanner) over enumerated inputs and over every
// way a reader may deliver them, and records what it observed as traces for validation
// against tla/TrStyling.tla (the C17 monitor of tla/Styling.tla).
//
//	styling run <trace.ndjson> <result.json>          inputs by VERIF_TIER / VERIF_SEED; traces go to
//	                                                  <trace.ndjson>.0 .. .N-1 (STYLING_SHARDS=N)
//	styling replay <case.json> <trace.ndjson> <result.json>
//
// For every input the run over a reader that delivers the whole input at once and reports
// io.EOF in a separate empty read (bytes.Reader) is the reference; it is always written as a
// trace.  Every other DELIVERY is run too and its observation sequence compared with the
// reference: a run that differs is written as a trace that carries the reference ("ref"),
// so that TLC rejects it under C17_ChunkIndependent; runs equal to the reference are
// counted, and a seeded sample of them is written with "ref" as well (TLC must accept those).
//
// A delivery has two dimensions (deliveries()):
//   - where the input is cut: one big read, every 2-way split, one octet per Read, pieces of
//     2 and 3 octets, seeded random multi-way cuts (long lines: 1000/4096, HalfReader);
//   - how the reader signals the end: io.EOF in a separate empty read, or TOGETHER with the
//     last data (n > 0, io.EOF) - bufio.Scanner then calls the split function with
//     atEOF = true for everything still buffered - and with or without (0, nil) reads in
//     front of every piece and of the final EOF.
//
// Documents with VERY LONG LINES (2^20 - 1 octets and more: bigLines()) are recorded in the
// run-length form: the document, every token's data and info are sequences of runs
// [octet, count] ("form": "runs" on the reset line of the trace).  The encoding is lossless;
// the judgement (is this token the next piece of the document, do all pieces add up to the
// document, same tokens as the reference run) is made by TLC over the runs (Styling.tla, "the
// run-length form"); the driver writes EVERY run of such a document as a trace.
//
// Every reader is wrapped in a recorder; the reads the decoder actually performed (cumulative
// offsets, and how EOF was signalled) are part of the trace ("rd", "eof"): TrStyling checks
// that they are a legal delivery of the input (LegalDelivery of Styling.tla).
package main

import (
	"bufio"
	"bytes"
	"encoding/json"
	"fmt"
	"io"
	"math/rand"
	"os"
	"runtime/debug"
	"strconv"
	"strings"
	"sync"
	"testing/iotest"

	"mellium.im/xmpp/styling"

	"verifharness/vt"
)

// symbols of the enumerated alphabet
var symbols = [][]byte{
	{'*'}, {'_'}, {'~'}, {'`'}, {'>'}, {' '}, {'\n'}, {'a'},
	{0xC2, 0xA0}, // no-break space (unicode.IsSpace)
	{0xC2},       // invalid UTF-8: a lead octet without continuation
}

var bitNames = []struct {
	bit  styling.Style
	name string
}{
	{styling.BlockPre, "BlockPre"}, {styling.BlockQuote, "BlockQuote"},
	{styling.SpanEmph, "SpanEmph"}, {styling.SpanStrong, "SpanStrong"},
	{styling.SpanStrike, "SpanStrike"}, {styling.SpanPre, "SpanPre"},
	{styling.BlockPreStart, "BlockPreStart"}, {styling.BlockPreEnd, "BlockPreEnd"},
	{styling.BlockQuoteStart, "BlockQuoteStart"}, {styling.BlockQuoteEnd, "BlockQuoteEnd"},
	{styling.SpanEmphStart, "SpanEmphStart"}, {styling.SpanEmphEnd, "SpanEmphEnd"},
	{styling.SpanStrongStart, "SpanStrongStart"}, {styling.SpanStrongEnd, "SpanStrongEnd"},
	{styling.SpanStrikeStart, "SpanStrikeStart"}, {styling.SpanStrikeEnd, "SpanStrikeEnd"},
	{styling.SpanPreStart, "SpanPreStart"}, {styling.SpanPreEnd, "SpanPreEnd"},
}

func maskNames(m styling.Style) []string {
	out := []string{}
	for _, b := range bitNames {
		if m&b.bit != 0 {
			out = append(out, b.name)
			m &^= b.bit
		}
	}
	if m != 0 {
		out = append(out, "Unknown")
	}
	return out
}

func ints(b []byte) []int {
	out := make([]int, len(b))
	for i, c := range b {
		out[i] = int(c)
	}
	return out
}

// runs is the run-length form of b: [octet, count] pairs, adjacent runs carry different
// octets, no empty run.
func runs(b []byte) [][2]int {
	out := [][2]int{}
	for i := 0; i < len(b); {
		j := i + 1
		for j < len(b) && b[j] == b[i] {
			j++
		}
		out = append(out, [2]int{int(b[i]), j - i})
		i = j
	}
	return out
}

// expand is the inverse of runs (replay files carry long documents as runs).
func expand(rs [][2]int) []byte {
	var out []byte
	for _, r := range rs {
		out = append(out, bytes.Repeat([]byte{byte(r[0])}, r[1])...)
	}
	return out
}

// delivReader delivers the given pieces, one per Read call.  The end of the input is
// signalled either by a separate (0, io.EOF) read or together with the last data
// (n > 0, io.EOF); zeros (0, nil) reads precede every piece and a separate EOF.
type delivReader struct {
	pieces      [][]byte
	eofWithData bool
	zeros       int
	pending     int
}

func newDeliv(in []byte, cuts []int, eofWithData bool, zeros int) *delivReader {
	d := &delivReader{eofWithData: eofWithData, zeros: zeros, pending: zeros}
	prev := 0
	for _, c := range append(append([]int{}, cuts...), len(in)) {
		if c > len(in) {
			c = len(in)
		}
		if c > prev {
			d.pieces = append(d.pieces, in[prev:c])
			prev = c
		}
	}
	return d
}

func (c *delivReader) Read(p []byte) (int, error) {
	if len(p) == 0 {
		return 0, nil
	}
	if c.pending > 0 {
		c.pending--
		return 0, nil
	}
	if len(c.pieces) == 0 {
		return 0, io.EOF
	}
	n := copy(p, c.pieces[0])
	c.pieces[0] = c.pieces[0][n:]
	if len(c.pieces[0]) == 0 {
		c.pieces = c.pieces[1:]
		c.pending = c.zeros
	}
	if len(c.pieces) == 0 && c.eofWithData {
		return n, io.EOF
	}
	return n, nil
}

// recReader records what the decoder's reads returned: the cumulative number of octets
// after every Read and how the end of the input was signalled.
type recReader struct {
	r    io.Reader
	off  int
	offs []int
	eof  string
}

func (r *recReader) Read(p []byte) (int, error) {
	n, err := r.r.Read(p)
	if r.eof != "none" {
		return n, err // reads after the end are not part of the delivery
	}
	r.off += n
	r.offs = append(r.offs, r.off)
	switch {
	case err == io.EOF && n > 0:
		r.eof = "with-data"
	case err == io.EOF:
		r.eof = "separate"
	case err != nil:
		r.eof = "error"
	}
	return n, err
}

func fixedCuts(n, size int) []int {
	var cs []int
	for i := size; i < n; i += size {
		cs = append(cs, i)
	}
	return cs
}

type readerKind struct {
	name string
	mk   func(in []byte) io.Reader
}

// own builds a delivery of this package's reader; the name describes it completely
// (parseDelivery is the inverse, used by replays).
func own(kind string, cuts []int, eofWithData bool, zeros int) readerKind {
	name := kind
	if eofWithData {
		name += "/eof-with-data"
	} else {
		name += "/eof-separate"
	}
	if zeros > 0 {
		name += "/zero-reads=" + strconv.Itoa(zeros)
	}
	return readerKind{name, func(in []byte) io.Reader { return newDeliv(in, cuts, eofWithData, zeros) }}
}

func piecesName(cuts []int) string {
	ss := make([]string, len(cuts))
	for i, c := range cuts {
		ss[i] = strconv.Itoa(c)
	}
	return "cuts[" + strings.Join(ss, ",") + "]"
}

// parseDelivery rebuilds a delivery from its name ("split@3/eof-with-data/zero-reads=1").
func parseDelivery(name string, n int) (readerKind, bool) {
	parts := strings.Split(name, "/")
	if len(parts) < 2 {
		return readerKind{}, false
	}
	var cuts []int
	k := parts[0]
	switch {
	case k == "whole":
	case k == "bytes":
		cuts = fixedCuts(n, 1)
	case strings.HasPrefix(k, "split@"):
		c, err := strconv.Atoi(k[len("split@"):])
		if err != nil {
			return readerKind{}, false
		}
		cuts = []int{c}
	case strings.HasPrefix(k, "chunks of "):
		c, err := strconv.Atoi(k[len("chunks of "):])
		if err != nil || c < 1 {
			return readerKind{}, false
		}
		cuts = fixedCuts(n, c)
	case strings.HasPrefix(k, "cuts[") && strings.HasSuffix(k, "]"):
		for _, f := range strings.Split(k[len("cuts["):len(k)-1], ",") {
			if f == "" {
				continue
			}
			c, err := strconv.Atoi(f)
			if err != nil {
				return readerKind{}, false
			}
			cuts = append(cuts, c)
		}
	default:
		return readerKind{}, false
	}
	with := false
	switch parts[1] {
	case "eof-with-data":
		with = true
	case "eof-separate":
	default:
		return readerKind{}, false
	}
	zeros := 0
	if len(parts) > 2 && strings.HasPrefix(parts[2], "zero-reads=") {
		zeros, _ = strconv.Atoi(parts[2][len("zero-reads="):])
	}
	return own(k, cuts, with, zeros), true
}

// deliveries returns every way the input is delivered (the first one is the reference).
// full: also the (0, nil) variants of every split and the pieces of 2 and 3 octets (small
// inputs and the structured documents); nrand seeded multi-way cuts with a random end
// style are added for the others.
func deliveries(in []byte, full bool, nrand int, rnd *rand.Rand) []readerKind {
	n := len(in)
	rs := []readerKind{{"whole", func(in []byte) io.Reader { return bytes.NewReader(in) }}}
	rs = append(rs,
		own("whole", nil, true, 0),
		own("whole", nil, false, 2),
	)
	// iotest.DataErrReader hands out at most 1024 octets per Read: as every Read is followed by
	// a scan of everything buffered, it is left out for the very long lines (their end style
	// "EOF with the last data" comes from this package's reader)
	dataErr := n <= 1<<19
	if dataErr {
		rs = append(rs, readerKind{"iotest.DataErrReader", func(in []byte) io.Reader { return iotest.DataErrReader(bytes.NewReader(in)) }})
	}
	if n <= 64 {
		for k := 1; k < n; k++ {
			rs = append(rs, own("split@"+strconv.Itoa(k), []int{k}, false, 0), own("split@"+strconv.Itoa(k), []int{k}, true, 0))
			if full {
				rs = append(rs, own("split@"+strconv.Itoa(k), []int{k}, false, 1), own("split@"+strconv.Itoa(k), []int{k}, true, 1))
			}
		}
	}
	if n <= 5000 {
		rs = append(rs,
			own("bytes", fixedCuts(n, 1), false, 0),
			own("bytes", fixedCuts(n, 1), true, 0),
			readerKind{"iotest.OneByteReader", func(in []byte) io.Reader { return iotest.OneByteReader(bytes.NewReader(in)) }},
			readerKind{"iotest.DataErrReader(OneByteReader)", func(in []byte) io.Reader {
				return iotest.DataErrReader(iotest.OneByteReader(bytes.NewReader(in)))
			}},
		)
		if full && n > 2 {
			rs = append(rs, own("bytes", fixedCuts(n, 1), true, 1))
			for _, c := range []int{2, 3} {
				rs = append(rs, own("chunks of "+strconv.Itoa(c), fixedCuts(n, c), false, 0), own("chunks of "+strconv.Itoa(c), fixedCuts(n, c), true, 0))
			}
		}
	}
	if n > 64 {
		// the split function sees everything buffered so far after every Read: the cost of a
		// run is quadratic in length / piece size, so the pieces grow with the document
		sizes := []int{1000, 4096}
		if n > 1<<19 {
			sizes = []int{4096}
		}
		if n > 1<<21 {
			sizes = []int{65536}
		}
		for _, c := range sizes {
			rs = append(rs, own("chunks of "+strconv.Itoa(c), fixedCuts(n, c), false, 0), own("chunks of "+strconv.Itoa(c), fixedCuts(n, c), true, 0))
		}
		rs = append(rs, readerKind{"iotest.HalfReader", func(in []byte) io.Reader { return iotest.HalfReader(bytes.NewReader(in)) }})
		if dataErr {
			rs = append(rs, readerKind{"iotest.DataErrReader(HalfReader)", func(in []byte) io.Reader {
				return iotest.DataErrReader(iotest.HalfReader(bytes.NewReader(in)))
			}})
		}
	}
	if n > 2 && n <= 5000 {
		for i := 0; i < nrand; i++ {
			var cuts []int
			p := 1 + rnd.Intn(4) // a cut after every octet with probability 1/2 .. 1/5
			for k := 1; k < n; k++ {
				if rnd.Intn(p+1) == 0 {
					cuts = append(cuts, k)
				}
			}
			rs = append(rs, own(piecesName(cuts), cuts, rnd.Intn(2) == 0, rnd.Intn(3)))
		}
	}
	return rs
}

func errName(err error) string {
	switch err {
	case nil:
		return "nil"
	case io.EOF:
		return "EOF"
	}
	return err.Error()
}

// obs is one observation: a token (Next() = true) or the end of the run.
type obs struct {
	end     bool
	rle     bool     // data and info are kept as runs (documents in the run-length form)
	druns   [][2]int // run-length form of the token's data
	iruns   [][2]int // run-length form of the token's info
	data    []byte
	mask    styling.Style
	q       uint
	info    []byte
	panic   bool
	runaway bool
	err     string
}

func (o obs) ev() vt.Ev {
	if o.end {
		return vt.Ev{"ev": "end", "panic": o.panic, "runaway": o.runaway, "err": o.err}
	}
	if o.rle {
		return vt.Ev{"ev": "tok", "data": o.druns, "m": maskNames(o.mask), "q": int(o.q), "info": o.iruns}
	}
	return vt.Ev{"ev": "tok", "data": ints(o.data), "m": maskNames(o.mask), "q": int(o.q), "info": ints(o.info)}
}

func evs(os []obs) []vt.Ev {
	out := make([]vt.Ev, len(os))
	for i, o := range os {
		out[i] = o.ev()
	}
	return out
}

func clone(b []byte) []byte { return append([]byte{}, b...) }

// observe runs one decoder over r and returns the observations in program order.
// rle: the observations keep the run-length form of data and info instead of a copy.
func observe(api string, in []byte, r io.Reader, rle bool) (out []obs) {
	limit := 2*len(in) + 16
	calls := 0
	end := obs{end: true, err: "EOF"}
	defer func() {
		if p := recover(); p != nil {
			at := ""
			for _, l := range strings.Split(string(debug.Stack()), "\n") {
				if strings.Contains(l, "/styling/styling.go") || strings.Contains(l, "bufio/scan.go") {
					at = strings.TrimSpace(l)
					break
				}
			}
			end.panic = true
			end.err = fmt.Sprintf("panic: %v at %s", p, at)
		}
		out = append(out, end)
	}()
	if api == "scan" {
		s := bufio.NewScanner(r)
		s.Split(styling.Scan())
		for s.Scan() {
			calls++
			if calls > limit {
				end.runaway = true
				return out
			}
			if rle {
				out = append(out, obs{rle: true, druns: runs(s.Bytes()), iruns: [][2]int{}})
				continue
			}
			out = append(out, obs{data: clone(s.Bytes())})
		}
		if s.Err() != nil {
			end.err = errName(s.Err())
		}
		return out
	}
	d := styling.NewDecoder(r)
	for d.Next() {
		calls++
		if calls > limit {
			end.runaway = true
			return out
		}
		tok := d.Token()
		mask := d.Style()
		q := d.Quote()
		if rle {
			out = append(out, obs{rle: true, druns: runs(tok.Data), iruns: runs(tok.Info), mask: mask, q: q})
			continue
		}
		out = append(out, obs{data: clone(tok.Data), mask: mask, q: q, info: clone(tok.Info)})
	}
	end.err = errName(d.Err())
	return out
}

// key is an injective encoding of an observation sequence (comparison and dedupe).
func key(os []obs) string {
	var b []byte
	for _, o := range os {
		if o.end {
			b = append(b, 'E')
			if o.panic {
				b = append(b, 'P')
			}
			if o.runaway {
				b = append(b, 'R')
			}
			b = append(b, o.err...)
			continue
		}
		if o.rle { // the run-length form in normal form is injective as well
			b = append(b, 'R')
			for _, rs := range [][][2]int{o.druns, o.iruns} {
				b = strconv.AppendInt(b, int64(len(rs)), 10)
				for _, r := range rs {
					b = append(b, ':')
					b = strconv.AppendInt(b, int64(r[0]), 10)
					b = append(b, 'x')
					b = strconv.AppendInt(b, int64(r[1]), 10)
				}
				b = append(b, '/')
			}
			b = strconv.AppendUint(b, uint64(o.mask), 16)
			b = append(b, '/')
			b = strconv.AppendUint(b, uint64(o.q), 10)
			continue
		}
		b = append(b, 'T')
		b = strconv.AppendInt(b, int64(len(o.data)), 10)
		b = append(b, ':')
		b = append(b, o.data...)
		b = strconv.AppendUint(b, uint64(o.mask), 16)
		b = append(b, '/')
		b = strconv.AppendUint(b, uint64(o.q), 10)
		b = append(b, '/')
		b = strconv.AppendInt(b, int64(len(o.info)), 10)
		b = append(b, ':')
		b = append(b, o.info...)
	}
	return string(b)
}

type diffCase struct {
	API    string   `json:"api"`
	Input  []int    `json:"input"`
	Runs   [][2]int `json:"input_runs,omitempty"`
	Text   string   `json:"text"`
	Reader string   `json:"reader"`
	Shard  int      `json:"shard"`
	T      int      `json:"t"`
	Ref    []vt.Ev  `json:"ref"`
	Got    []vt.Ev  `json:"got"`
}

// job is one input with the APIs to run it through and the size of its delivery dimension.
type job struct {
	in    []byte
	apis  []string
	full  bool   // all (0, nil) variants and small fixed pieces
	nrand int    // seeded random multi-way cuts
	extra string // a named delivery to add (replay)
	class string
	rle   bool // recorded in the run-length form; every run is written as a trace
}

// runner processes the inputs of one shard (one goroutine, one trace file, own seeded rnd).
type runner struct {
	tw         *vt.TraceWriter // the trace file of this shard (validated by TLC in parallel with the others)
	shard      int
	rnd        *rand.Rand
	sampleRate float64
	inputs     int
	runs       int
	same       int
	sampled    int
	differ     int
	diffInputs int
	distinct   map[string]bool
	diffs      []diffCase
	samples    []interface{}
	byReader   map[string]int
	byClass    map[string]int
	eofStyles  map[string]int
	bigRuns    int
	bigSamples []interface{}
}

func kindOf(name string) string {
	if strings.HasPrefix(name, "split@") {
		name = "split" + name[strings.IndexByte(name+"/", '/'):]
	}
	if strings.HasPrefix(name, "cuts[") {
		name = "random cuts" + name[strings.IndexByte(name+"/", '/'):]
	}
	return name
}

func (r *runner) doInput(j job) {
	in := j.in
	r.inputs++
	r.byClass[j.class]++
	// how the document appears in traces, metadata and replay cases
	form := "octets"
	var doc interface{} = ints(in)
	meta := func(api, reader string) map[string]interface{} {
		return map[string]interface{}{"api": api, "input": doc, "text": strconv.Quote(string(in)), "reader": reader}
	}
	dc := diffCase{Input: []int{}}
	if j.rle {
		form = "runs"
		rs := runs(in)
		doc = rs
		desc := describeRuns(rs)
		meta = func(api, reader string) map[string]interface{} {
			return map[string]interface{}{"api": api, "input": []int{}, "input_runs": rs, "text": desc, "reader": reader}
		}
		dc.Runs, dc.Text = rs, desc
	} else {
		dc.Input, dc.Text = ints(in), strconv.Quote(string(in))
	}
	for _, api := range j.apis {
		rs := deliveries(in, j.full, j.nrand, r.rnd)
		if j.extra != "" {
			if rk, ok := parseDelivery(j.extra, len(in)); ok {
				rs = append(rs, rk)
			}
		}
		rec := &recReader{r: rs[0].mk(in), eof: "none", offs: make([]int, 0, 2)}
		ref := observe(api, in, rec, j.rle)
		refKey := key(ref)
		r.runs++
		refEvs := evs(ref)
		t := r.tw.Write(vt.Ev{"form": form, "input": doc, "api": api, "ref": []vt.Ev{}, "rd": rec.offs, "eof": rec.eof}, refEvs)
		r.tw.Meta(meta(api, rs[0].name))
		if len(r.samples) < 3 && api == "decoder" && len(ref) > 4 && len(in) < 40 {
			r.samples = append(r.samples, map[string]interface{}{"input": strconv.Quote(string(in)), "reader": "whole", "observations": refEvs})
		}
		if j.rle && len(r.bigSamples) < 2 {
			r.bigSamples = append(r.bigSamples, map[string]interface{}{"input_runs": doc, "octets": len(in), "reader": "whole", "observations": refEvs})
		}
		seen := map[string]bool{refKey: true}
		any := false
		for _, rk := range rs[1:] {
			rec := &recReader{r: rk.mk(in), eof: "none", offs: make([]int, 0, 8)}
			got := observe(api, in, rec, j.rle)
			r.runs++
			r.eofStyles[rec.eof]++
			if j.rle {
				r.bigRuns++
			}
			k := key(got)
			if k == refKey {
				r.same++
				// documents in the run-length form are few: TLC sees every run of them
				if j.rle || r.rnd.Float64() < r.sampleRate {
					r.sampled++
					r.tw.Write(vt.Ev{"form": form, "input": doc, "api": api, "ref": refEvs, "rd": rec.offs, "eof": rec.eof}, evs(got))
					m := meta(api, rk.name)
					m["sample"] = true
					r.tw.Meta(m)
				}
				continue
			}
			r.differ++
			r.byReader[api+"/"+kindOf(rk.name)]++
			any = true
			if seen[k] {
				continue
			}
			seen[k] = true
			t = r.tw.Write(vt.Ev{"form": form, "input": doc, "api": api, "ref": refEvs, "rd": rec.offs, "eof": rec.eof}, evs(got))
			m := meta(api, rk.name)
			m["differs"] = true
			r.tw.Meta(m)
			if len(r.diffs) < 100 {
				d := dc
				d.API, d.Reader, d.Shard, d.T, d.Ref, d.Got = api, rk.name, r.shard, t, refEvs, evs(got)
				r.diffs = append(r.diffs, d)
			}
		}
		if any {
			r.diffInputs++
		}
		for k := range seen {
			r.distinct[k] = true
		}
	}
}

// describeRuns renders a document in the run-length form for messages: "a"x1048577 "\n" "b".
func describeRuns(rs [][2]int) string {
	var parts []string
	for _, r := range rs {
		p := strconv.Quote(string([]byte{byte(r[0])}))
		if r[1] > 1 {
			p += "x" + strconv.Itoa(r[1])
		}
		parts = append(parts, p)
	}
	return strings.Join(parts, " ")
}

func enumerate(n int, f func([]byte)) {
	idx := make([]int, n)
	for {
		var b []byte
		for _, i := range idx {
			b = append(b, symbols[i]...)
		}
		f(b)
		k := n - 1
		for k >= 0 {
			idx[k]++
			if idx[k] < len(symbols) {
				break
			}
			idx[k] = 0
			k--
		}
		if k < 0 {
			return
		}
	}
}

var templates = []string{
	"```\n%s\n```\n%s", "```%s\n%s\n```", "```\n%s\n```", "```\n%s\n%s", "> %s\n%s", "> %s\n> %s\n", ">> %s\n> %s\n%s",
	"> ```\n> %s\n> ```\n%s", "> > %s\n%s\n", "*%s* %s", "_*%s*_ ~%s~", "`%s` *%s*\n", "%s\n```\n%s", ">%s\n>>%s\n",
	"*%s\n%s*", "> *%s\n%s*\n",
}
var fillers = []string{"", "a", "*a*", "a b", "`c`", ">", "```", "_b", " ", "> q"}

// preDocs are documents built around one preformatted block: an opening fence (with or
// without info string), inner lines that merely START like a fence (three backticks and
// more text, four backticks, backticks after a quote marker or a space) or are ordinary,
// an optional closing fence, an optional line after the block; every line of the block
// carries the same quote prefix (the line after it the same or none); with and without a
// trailing newline.  Unterminated blocks and fence-like lines at the very end of the input
// are part of the product.
var preInner = []string{"a", "", "```go", "````", "``` x", "> ```", "``", " ```"}
var preAfter = []string{"", "b", "*b*", "> q", "```go"}

func preDoc(prefix, open string, inner []string, closed bool, after, afterPrefix string, nl bool) []byte {
	lines := []string{prefix + open}
	for _, l := range inner {
		lines = append(lines, prefix+l)
	}
	if closed {
		lines = append(lines, prefix+"```")
	}
	if after != "" {
		lines = append(lines, afterPrefix+after)
	}
	d := strings.Join(lines, "\n")
	if nl {
		d += "\n"
	}
	return []byte(d)
}

func preDocs(tier string, rnd *rand.Rand) [][]byte {
	seen := map[string]bool{}
	var out [][]byte
	add := func(d []byte) {
		if !seen[string(d)] {
			seen[string(d)] = true
			out = append(out, d)
		}
	}
	var seqs1, seqs2 [][]string
	seqs1 = append(seqs1, nil)
	for _, a := range preInner {
		seqs1 = append(seqs1, []string{a})
		for _, b := range preInner {
			seqs2 = append(seqs2, []string{a, b})
		}
	}
	prefixes := []string{"", "> ", ">> "}
	if tier == "thorough" {
		prefixes = append(prefixes, ">", "> > ")
	}
	product := func(seqs [][]string, prefixes, opens, afters []string, dropPrefix bool) {
		for _, in := range seqs {
			for _, p := range prefixes {
				for _, o := range opens {
					for _, closed := range []bool{false, true} {
						for _, af := range afters {
							for _, nl := range []bool{true, false} {
								add(preDoc(p, o, in, closed, af, p, nl))
								if dropPrefix {
									add(preDoc(p, o, in, closed, af, "", nl))
								}
							}
						}
					}
				}
			}
		}
	}
	product(seqs1, prefixes, []string{"```", "```go"}, preAfter, true)
	if tier == "thorough" {
		product(seqs2, prefixes, []string{"```", "```go"}, preAfter, true)
	} else {
		product(seqs2, []string{"", "> "}, []string{"```"}, []string{"", "b", "> q"}, false)
	}
	// seeded: longer blocks, the quote prefix chosen per line (a quote that ends or deepens
	// in the middle of the block)
	nr := 400
	if tier == "thorough" {
		nr = 6000
	}
	pick := func(ss []string) string { return ss[rnd.Intn(len(ss))] }
	for i := 0; i < nr; i++ {
		p := pick(prefixes)
		linePrefix := func() string {
			if rnd.Intn(4) == 0 {
				return pick([]string{"", "> ", ">> ", ">"})
			}
			return p
		}
		lines := []string{p + pick([]string{"```", "```go"})}
		for k := rnd.Intn(4) + 1; k > 0; k-- {
			lines = append(lines, linePrefix()+pick(preInner))
		}
		if rnd.Intn(2) == 0 {
			lines = append(lines, linePrefix()+"```")
		}
		if rnd.Intn(2) == 0 {
			lines = append(lines, linePrefix()+pick(preAfter[1:]))
		}
		d := strings.Join(lines, "\n")
		if rnd.Intn(2) == 0 {
			d += "\n"
		}
		add([]byte(d))
	}
	return out
}

func longLines() [][]byte {
	var out [][]byte
	for _, n := range []int{4095, 4096, 4097, 8191, 65535, 65536, 70000} {
		line := bytes.Repeat([]byte{'a'}, n)
		out = append(out, line)
		out = append(out, append(append([]byte{}, line...), '\n', 'b'))
		out = append(out, append(append([]byte("*"), line[:n-2]...), '*'))
		out = append(out, append(append([]byte("> "), line[:n-2]...), "\nc"...))
	}
	return out
}

// bigLines are documents with one line of a length around a power of two from 2^20 up
// (what a buffer with a fixed cap, a doubling buffer or a 32-bit length would trip over), in
// the shapes of longLines: plain; followed by a short line; inside a span; inside a quote.
// They are recorded in the run-length form.
func bigLines(tier string) [][]byte {
	ns := []int{1<<20 - 1, 1 << 20, 1<<20 + 1, 1<<22 + 1}
	if tier == "thorough" {
		ns = append(ns, 1<<21-1, 1<<21+1, 1<<22-1, 1<<22, 1<<23+1, 1<<24+1)
	}
	if v := os.Getenv("STYLING_BIG"); v != "" { // comma separated lengths ("0": none)
		ns = nil
		for _, f := range strings.Split(v, ",") {
			if n, err := strconv.Atoi(f); err == nil && n > 2 {
				ns = append(ns, n)
			}
		}
	}
	var out [][]byte
	for _, n := range ns {
		line := bytes.Repeat([]byte{'a'}, n)
		out = append(out, line)
		out = append(out, append(append([]byte{}, line...), '\n', 'b'))
		out = append(out, append(append([]byte("*"), line[:n-2]...), '*'))
		out = append(out, append(append([]byte("> "), line[:n-2]...), "\nc"...))
	}
	return out
}

func main() {
	if len(os.Args) < 4 {
		fmt.Fprintln(os.Stderr, "usage: styling run <trace.ndjson> <result.json> | styling replay <case.json> <trace.ndjson> <result.json>")
		os.Exit(2)
	}
	seed, _ := strconv.ParseInt(os.Getenv("VERIF_SEED"), 10, 64)
	tier := os.Getenv("VERIF_TIER")
	rnd := rand.New(rand.NewSource(seed))
	var tracePath, resPath string
	apis := []string{"decoder", "scan"}
	if os.Args[1] == "replay" {
		tracePath, resPath = os.Args[3], os.Args[4]
	} else {
		tracePath, resPath = os.Args[2], os.Args[3]
	}
	shards, _ := strconv.Atoi(os.Getenv("STYLING_SHARDS"))
	if shards < 1 {
		shards = 1
	}
	sampleRate := 0.002
	if v := os.Getenv("STYLING_SAMPLE"); v != "" {
		sampleRate, _ = strconv.ParseFloat(v, 64)
	}
	var jobs []job
	exhaustive, sampledLen, sampledN := 4, 0, 0
	if os.Args[1] == "replay" {
		b, err := os.ReadFile(os.Args[2])
		if err != nil {
			panic(err)
		}
		var c struct {
			Input  []int    `json:"input"`
			Runs   [][2]int `json:"input_runs"`
			API    string   `json:"api"`
			Reader string   `json:"reader"`
		}
		if err := json.Unmarshal(b, &c); err != nil {
			panic(err)
		}
		in := make([]byte, len(c.Input))
		for i, x := range c.Input {
			in[i] = byte(x)
		}
		sampleRate = 1
		if len(c.Runs) > 0 {
			jobs = append(jobs, job{in: expand(c.Runs), apis: []string{c.API}, extra: c.Reader, class: "replay", rle: true})
		} else {
			jobs = append(jobs, job{in: in, apis: []string{c.API}, full: true, nrand: 4, extra: c.Reader, class: "replay"})
		}
	} else {
		switch tier {
		case "thorough":
			exhaustive, sampledLen, sampledN = 6, 8, 20000
		default:
			exhaustive, sampledLen, sampledN = 5, 7, 3000
		}
		if v := os.Getenv("STYLING_MAXLEN"); v != "" {
			exhaustive, _ = strconv.Atoi(v)
		}
		if v := os.Getenv("STYLING_SAMPLE_LEN"); v != "" {
			sampledLen, _ = strconv.Atoi(v)
		}
		if v := os.Getenv("STYLING_SAMPLE_N"); v != "" {
			sampledN, _ = strconv.Atoi(v)
		}
		for n := 0; n <= exhaustive; n++ {
			n := n
			enumerate(n, func(b []byte) {
				jobs = append(jobs, job{in: b, apis: apis, full: n <= 4, nrand: 2, class: "exhaustive"})
			})
		}
		for i := 0; i < sampledN; i++ {
			n := exhaustive + 1 + rnd.Intn(sampledLen-exhaustive)
			var b []byte
			for j := 0; j < n; j++ {
				b = append(b, symbols[rnd.Intn(len(symbols))]...)
			}
			jobs = append(jobs, job{in: b, apis: apis, nrand: 2, class: "sampled"})
		}
		for _, t := range templates {
			for _, f1 := range fillers {
				for _, f2 := range fillers {
					jobs = append(jobs, job{in: []byte(fmt.Sprintf(t, f1, f2)), apis: apis, full: true, nrand: 2, class: "templates"})
				}
			}
		}
		for _, d := range preDocs(tier, rnd) {
			jobs = append(jobs, job{in: d, apis: apis, full: true, nrand: 4, class: "pre-block documents"})
		}
		for _, l := range longLines() {
			jobs = append(jobs, job{in: l, apis: []string{"decoder"}, nrand: 1, class: "long lines"})
		}
		for _, l := range bigLines(tier) {
			jobs = append(jobs, job{in: l, apis: []string{"decoder"}, class: "very long lines (run-length form)", rle: true})
		}
	}
	// one goroutine per shard (at most 8 at a time); everything a shard does depends only
	// on VERIF_SEED and the shard number
	rs := make([]*runner, shards)
	sem := make(chan struct{}, 8)
	var wg sync.WaitGroup
	for i := 0; i < shards; i++ {
		tw, err := vt.NewTraceWriter(tracePath + "." + strconv.Itoa(i))
		if err != nil {
			panic(err)
		}
		r := &runner{tw: tw, shard: i, rnd: rand.New(rand.NewSource(seed*7919 + int64(i) + 1)), sampleRate: sampleRate,
			distinct: map[string]bool{}, byReader: map[string]int{}, byClass: map[string]int{}, eofStyles: map[string]int{}}
		rs[i] = r
		wg.Add(1)
		go func(i int) {
			defer wg.Done()
			sem <- struct{}{}
			defer func() { <-sem }()
			for k := i; k < len(jobs); k += shards {
				r.doInput(jobs[k])
			}
		}(i)
	}
	wg.Wait()
	traces, events := 0, 0
	tot := &runner{distinct: map[string]bool{}, byReader: map[string]int{}, byClass: map[string]int{}, eofStyles: map[string]int{}}
	for _, r := range rs {
		t, e := r.tw.Counts()
		traces, events = traces+t, events+e
		if err := r.tw.Close(); err != nil {
			panic(err)
		}
		tot.inputs += r.inputs
		tot.runs += r.runs
		tot.same += r.same
		tot.sampled += r.sampled
		tot.differ += r.differ
		tot.diffInputs += r.diffInputs
		tot.bigRuns += r.bigRuns
		if len(tot.bigSamples) < 2 {
			tot.bigSamples = append(tot.bigSamples, r.bigSamples...)
		}
		for k := range r.distinct {
			tot.distinct[k] = true
		}
		for k, v := range r.byReader {
			tot.byReader[k] += v
		}
		for k, v := range r.byClass {
			tot.byClass[k] += v
		}
		for k, v := range r.eofStyles {
			tot.eofStyles[k] += v
		}
		if len(tot.diffs) < 400 {
			tot.diffs = append(tot.diffs, r.diffs...)
		}
		if len(tot.samples) < 3 {
			tot.samples = append(tot.samples, r.samples...)
		}
	}
	r := tot
	res := map[string]interface{}{
		"inputs": r.inputs, "runs": r.runs, "same_as_whole": r.same, "same_sampled_for_tlc": r.sampled,
		"differ_from_whole": r.differ, "inputs_with_differences": r.diffInputs, "differ_by_reader": r.byReader,
		"distinct_observation_sequences": len(r.distinct), "traces": traces, "events": events,
		"exhaustive_len": exhaustive, "sampled_len": sampledLen, "sampled_n": sampledN,
		"inputs_by_class": r.byClass, "runs_by_eof_style": r.eofStyles,
		"diffs": r.diffs, "samples": r.samples,
		"runs_of_run_length_documents": r.bigRuns, "run_length_samples": r.bigSamples,
	}
	if r.bigSamples == nil {
		res["run_length_samples"] = []interface{}{}
	}
	if r.diffs == nil {
		res["diffs"] = []diffCase{}
	}
	if r.samples == nil {
		res["samples"] = []interface{}{}
	}
	b, _ := json.Marshal(res)
	if err := os.WriteFile(resPath, b, 0o644); err != nil {
		panic(err)
	}
	vt.Summary{Traces: traces, Events: events, Evaluations: r.runs, Distinct: len(r.distinct),
		Extra: map[string]interface{}{"differ": r.differ, "inputs": r.inputs}}.Print()
}
