// Command jidcanon runs the vectors TLC computed from tla/JID.tla (and a seeded corpus of
// Unicode strings composed from the spec's rune pool) against the exported API of
// mellium.im/xmpp/jid, compares results with the spec's expectations (split, accept class,
// canonical string) where the spec states one, evaluates the C11 laws on every address the
// package returns, and records observations of a seeded sample for validation by
// tla/TrJID.tla.
//
//	jidcanon run    <plan.json> <parse.ndjson> <new.ndjson> <with.ndjson> <eq.ndjson> <trace.ndjson>
//	jidcanon replay <plan.json> <case.json> <trace.ndjson>
//
// Environment: VERIF_SEED, JID_CORPUS (number of corpus cases), JID_TRACE_EVERY.
package main

import (
	"bufio"
	"bytes"
	"encoding/json"
	"encoding/xml"
	"fmt"
	"hash/fnv"
	"math/rand"
	"os"
	"sort"
	"strconv"
	"strings"
	"time"
	"unicode/utf8"

	"mellium.im/xmpp/jid"

	"verifharness/vt"
)

type Plan struct {
	Text [][]int `json:"text"`
	Pool []int   `json:"pool"`
	// A-label family of the law-only corpus: spellings of the ACE prefix and Punycode tails (code points)
	AcePre  [][]int `json:"acepre"`
	AceTail [][]int `json:"acetail"`
}

// Vec is one record of any of the vector files (fields by kind).
type Vec struct {
	K     string `json:"k"`
	S     []int  `json:"s,omitempty"`
	Err   string `json:"err,omitempty"`
	L     []int  `json:"l,omitempty"`
	D     []int  `json:"d,omitempty"`
	R     []int  `json:"r,omitempty"`
	Cls   string `json:"cls,omitempty"`
	Canon []int  `json:"canon,omitempty"`
	BL    []int  `json:"bl,omitempty"`
	BD    []int  `json:"bd,omitempty"`
	BR    []int  `json:"br,omitempty"`
	Role  string `json:"role,omitempty"`
	P     []int  `json:"p,omitempty"`
	S1    []int  `json:"s1,omitempty"`
	S2    []int  `json:"s2,omitempty"`
	Eq    bool   `json:"eq,omitempty"`
	// corpus cases carry concrete strings instead of symbols
	Str   *string  `json:"str,omitempty"`
	Parts []string `json:"parts,omitempty"`
	Repl  *string  `json:"repl,omitempty"`
	// programs over the value store (JIDStore.tla): base address BL/BD/BR, then operations on earlier results
	Ops []Op `json:"ops,omitempty"`
}

// Op is one operation of a store program: Op on the H-th address handed out so far (1 = the base) with part P.
type Op struct {
	Op string `json:"op"`
	H  int    `json:"h"`
	P  []int  `json:"p"`
}

var plan Plan

func conc(v []int) string {
	var b []byte
	for _, s := range v {
		for _, c := range plan.Text[s-1] {
			switch {
			case c <= -100000:
				b = append(b, bytes.Repeat([]byte{'a'}, -c-100000)...)
			case c < 0:
				b = append(b, byte(-c))
			default:
				b = utf8.AppendRune(b, rune(c))
			}
		}
	}
	return string(b)
}

// Finding is one disagreement with the specification.
type Finding struct {
	Law    string `json:"law"`
	How    string `json:"how"` // which call produced the address / which expectation failed
	Detail string `json:"detail"`
	Case   Vec    `json:"case"`
	Input  string `json:"input"`
	Trace  int    `json:"trace,omitempty"`
}

type runner struct {
	findings []Finding
	kinds    map[string]int
	evs      []vt.Ev // observations of the current subject (nil if not traced)
	tracing  bool
	cur      *Vec
	input    string
	evals    int
	accepted int
	// vectors whose acceptance the RFCs mandate, and how many of them the package rejected
	okClass, okRejected int
	rejectedValid       []string
}

func (r *runner) report(law, how, detail string) {
	k := law + " / " + how
	r.kinds[k]++
	if r.kinds[k] <= 40 {
		r.findings = append(r.findings, Finding{Law: law, How: how, Detail: detail, Case: *r.cur, Input: strconv.QuoteToASCII(r.input)})
	}
}

func cps(s string) []int {
	r := []int{}
	for _, c := range s {
		r = append(r, int(c))
	}
	return r
}

func (r *runner) ev(e vt.Ev) {
	if r.tracing {
		r.evs = append(r.evs, e)
	}
}

func parts(j jid.JID) (string, string, string) {
	return j.Localpart(), j.Domainpart(), j.Resourcepart()
}

func assemble(l, d, rs string) string {
	s := d
	if l != "" {
		s = l + "@" + s
	}
	if rs != "" {
		s = s + "/" + rs
	}
	return s
}

// refSplit is the split rule of the property (first "/", then first "@").
func refSplit(s string) (l, d, rs, e string) {
	if i := strings.IndexByte(s, '/'); i >= 0 {
		if i == len(s)-1 {
			return "", "", "", "nores"
		}
		rs = s[i+1:]
		s = s[:i]
	}
	if i := strings.IndexByte(s, '@'); i == 0 {
		return "", "", "", "nolocal"
	} else if i > 0 {
		l, d = s[:i], s[i+1:]
	} else {
		d = s
	}
	return l, d, rs, "none"
}

func splitClass(err error) string {
	if err == nil {
		return "none"
	}
	switch {
	case strings.Contains(err.Error(), "resourcepart"):
		return "nores"
	case strings.Contains(err.Error(), "localpart"):
		return "nolocal"
	}
	return "other"
}

func (r *runner) checkSplit(s string) {
	l, d, rs, err := jid.SplitString(s)
	wl, wd, wr, we := refSplit(s)
	got := splitClass(err)
	if utf8.ValidString(s) {
		r.ev(vt.Ev{"ev": "split", "in": cps(s), "err": got, "l": cps(l), "d": cps(d), "r": cps(rs)})
	}
	if (got == "none") != (we == "none") || (we == "none" && (l != wl || d != wd || rs != wr)) {
		r.report("C11_SplitRule", "SplitString", fmt.Sprintf("SplitString(%q) = (%q, %q, %q, %v), the rule gives (%q, %q, %q, %s)", s, l, d, rs, err, wl, wd, wr, we))
	}
}

func sameParts(a, b jid.JID) bool {
	al, ad, ar := parts(a)
	bl, bd, br := parts(b)
	return al == bl && ad == bd && ar == br
}

// laws evaluates every C11 law on an address the package returned without error.
func (r *runner) laws(j jid.JID, how string) {
	r.accepted++
	l, d, rs := parts(j)
	r.ev(vt.Ev{"ev": "made", "how": how, "l": cps(l), "d": cps(d), "r": cps(rs)})
	// C11_PartsValid
	switch {
	case !utf8.ValidString(l) || !utf8.ValidString(d) || !utf8.ValidString(rs):
		r.report("C11_PartsValid", how, fmt.Sprintf("invalid UTF-8 in parts (%q, %q, %q)", l, d, rs))
	case d == "":
		r.report("C11_PartsValid", how, "empty domainpart")
	case len(l) > 1023 || len(d) > 1023 || len(rs) > 1023:
		r.report("C11_PartsValid", how, fmt.Sprintf("part longer than 1023 bytes (%d, %d, %d)", len(l), len(d), len(rs)))
	case strings.ContainsAny(l, `"&'/:<>@`):
		r.report("C11_PartsValid", how, fmt.Sprintf("forbidden character in localpart %q", l))
	}
	// C11_AccessorsAgree
	str := j.String()
	r.ev(vt.Ev{"ev": "string", "out": cps(str)})
	if str != assemble(l, d, rs) {
		r.report("C11_AccessorsAgree", how, fmt.Sprintf("String() = %q but parts are (%q, %q, %q)", str, l, d, rs))
	}
	b, dom := j.Bare(), j.Domain()
	bl, bd, br := parts(b)
	dl, dd, dr := parts(dom)
	if bl != l || bd != d || br != "" || b.String() != assemble(l, d, "") {
		r.report("C11_AccessorsAgree", how, fmt.Sprintf("Bare() of %q = %q (%q, %q, %q)", str, b.String(), bl, bd, br))
	}
	if dl != "" || dd != d || dr != "" || dom.String() != d {
		r.report("C11_AccessorsAgree", how, fmt.Sprintf("Domain() of %q = %q (%q, %q, %q)", str, dom.String(), dl, dd, dr))
	}
	eq := func(with string, got, want bool) {
		r.ev(vt.Ev{"ev": "equal", "with": with, "res": got})
		if got != want {
			r.report("C11_AccessorsAgree", how, fmt.Sprintf("%q.Equal(%s) = %v, want %v", str, with, got, want))
		}
	}
	eq("self", j.Equal(j), true)
	eq("copy", j.Equal(j.Copy()), true)
	eq("bare", j.Equal(b), rs == "")
	eq("domain", j.Equal(dom), rs == "" && l == "")
	eq("baredomain", b.Equal(dom), l == "")
	// C11_Idempotent, C11_SplitRule on the string form
	for _, x := range []struct {
		name string
		v    jid.JID
	}{{"", j}, {"bare", b}, {"domain", dom}} {
		s := x.v.String()
		p, err := jid.Parse(s)
		pl, pd, pr := parts(p)
		if x.name == "" {
			r.ev(vt.Ev{"ev": "reparse", "ok": err == nil, "l": cps(pl), "d": cps(pd), "r": cps(pr)})
		} else {
			xl, xd, xr := parts(x.v)
			r.ev(vt.Ev{"ev": "derived", "how": x.name, "l": cps(xl), "d": cps(xd), "r": cps(xr), "str": cps(s),
				"rok": err == nil, "rl": cps(pl), "rd": cps(pd), "rr": cps(pr)})
		}
		h := how
		if x.name != "" {
			h = how + "." + x.name
		}
		if err != nil {
			r.report("C11_Idempotent", h, fmt.Sprintf("Parse(String()) of %q fails: %v", s, err))
		} else if !p.Equal(x.v) || !sameParts(p, x.v) {
			r.report("C11_Idempotent", h, fmt.Sprintf("Parse(%q).String() = %q (parts %q %q %q)", s, p.String(), pl, pd, pr))
		} else if !x.v.Equal(p) {
			r.report("C11_AccessorsAgree", h, "Equal is not symmetric")
		}
		if x.name == "" && err == nil {
			eq("reparse", j.Equal(p), sameParts(j, p))
		}
	}
	sl, sd, sr, serr := jid.SplitString(str)
	if serr != nil || sl != l || sd != d || sr != rs {
		r.report("C11_SplitRule", how, fmt.Sprintf("SplitString(String()) of (%q, %q, %q) = (%q, %q, %q, %v)", l, d, rs, sl, sd, sr, serr))
	}
	// C11_BuildReplaceParseAgree with the address's own parts
	rebuild := func(name string, n jid.JID, err error) {
		nl, nd, nr := parts(n)
		r.ev(vt.Ev{"ev": "rebuild", "how": name, "ok": err == nil, "l": cps(nl), "d": cps(nd), "r": cps(nr)})
		if err != nil {
			r.report("C11_BuildReplaceParseAgree", how, fmt.Sprintf("%s with own parts of %q fails: %v", name, str, err))
		} else if !n.Equal(j) || !sameParts(n, j) {
			r.report("C11_BuildReplaceParseAgree", how, fmt.Sprintf("%s with own parts of %q gives %q", name, str, n.String()))
		}
	}
	n, err := jid.New(l, d, rs)
	rebuild("new", n, err)
	n, err = j.WithLocal(l)
	rebuild("withlocal", n, err)
	n, err = j.WithDomain(d)
	rebuild("withdomain", n, err)
	n, err = j.WithResource(rs)
	rebuild("withresource", n, err)
	// C11_XMLRoundTrip
	xmlrt := func(kind string, k jid.JID, err error) {
		kl, kd, kr := parts(k)
		r.ev(vt.Ev{"ev": "xml", "kind": kind, "ok": err == nil, "l": cps(kl), "d": cps(kd), "r": cps(kr)})
		if err != nil {
			r.report("C11_XMLRoundTrip", how+"."+kind, fmt.Sprintf("%q does not decode: %v", str, err))
		} else if !k.Equal(j) || !sameParts(k, j) {
			r.report("C11_XMLRoundTrip", how+"."+kind, fmt.Sprintf("%q decodes as %q", str, k.String()))
		}
	}
	a, err := j.MarshalXMLAttr(xml.Name{Local: "to"})
	var k jid.JID
	if err == nil {
		err = k.UnmarshalXMLAttr(a)
	}
	xmlrt("attr", k, err)
	var buf bytes.Buffer
	e := xml.NewEncoder(&buf)
	err = j.MarshalXML(e, xml.StartElement{Name: xml.Name{Local: "jid"}})
	var k2 jid.JID
	if err == nil {
		err = xml.Unmarshal(buf.Bytes(), &k2)
	}
	xmlrt("elem", k2, err)
	// the attribute inside an element, as stanzas carry it
	type st struct {
		XMLName xml.Name `xml:"s"`
		To      jid.JID  `xml:"to,attr"`
	}
	bb, err := xml.Marshal(st{To: j})
	var s2 st
	if err == nil {
		err = xml.Unmarshal(bb, &s2)
	}
	xmlrt("stanza", s2.To, err)
}

// replace compares j.With<role>(p) with New of the replaced parts.
func (r *runner) replace(j jid.JID, role, p string) (jid.JID, error) {
	l, d, rs := parts(j)
	var w, n jid.JID
	var werr, nerr error
	switch role {
	case "l":
		w, werr = j.WithLocal(p)
		n, nerr = jid.New(p, d, rs)
	case "d":
		w, werr = j.WithDomain(p)
		n, nerr = jid.New(l, p, rs)
	default:
		w, werr = j.WithResource(p)
		n, nerr = jid.New(l, d, p)
	}
	wl, wd, wr := parts(w)
	nl, nd, nr := parts(n)
	if utf8.ValidString(p) {
		r.ev(vt.Ev{"ev": "replace", "role": role, "ok": werr == nil, "l": cps(okstr(werr, wl)), "d": cps(okstr(werr, wd)), "r": cps(okstr(werr, wr)),
			"nok": nerr == nil, "nl": cps(okstr(nerr, nl)), "nd": cps(okstr(nerr, nd)), "nr": cps(okstr(nerr, nr))})
	}
	how := "with" + role
	switch {
	case (werr == nil) != (nerr == nil):
		r.report("C11_BuildReplaceParseAgree", how, fmt.Sprintf("replacing %s of %q by %q: error %v, but New(...) error %v", role, j.String(), p, werr, nerr))
	case werr == nil && (!w.Equal(n) || !sameParts(w, n)):
		r.report("C11_BuildReplaceParseAgree", how, fmt.Sprintf("replacing %s of %q by %q gives %q, New(...) gives %q", role, j.String(), p, w.String(), n.String()))
	}
	return w, werr
}

func okstr(err error, s string) string {
	if err != nil {
		return ""
	}
	return s
}

// expect compares an outcome with the class and canonical string claimed by the spec.
func (r *runner) expect(how string, v *Vec, j jid.JID, err error) {
	switch v.Cls {
	case "ok":
		want := conc(v.Canon)
		r.okClass++
		if err != nil {
			// Rejecting an address the RFCs make valid is not a C11 matter (the property speaks
			// about addresses that ARE returned): counted and shown in the evidence only.
			r.okRejected++
			if len(r.rejectedValid) < 5 {
				r.rejectedValid = append(r.rejectedValid, fmt.Sprintf("%s: %s rejected (%v), RFC 7622 canonical form %s", how, strconv.QuoteToASCII(short(r.input)), err, strconv.QuoteToASCII(short(want))))
			}
		} else if j.String() != want {
			r.report("C11_Canonical(expected)", how, fmt.Sprintf("canonical form %s, the specification mandates %s", strconv.QuoteToASCII(short(j.String())), strconv.QuoteToASCII(short(want))))
		}
	case "bad":
		if err == nil {
			r.report("C11_PartsValid(expected)", how, fmt.Sprintf("accepted as %s, the property rules this input out", strconv.QuoteToASCII(short(j.String()))))
		}
	}
}

func short(s string) string {
	if len(s) > 80 {
		return s[:40] + "..." + s[len(s)-30:] + fmt.Sprintf("(%d bytes)", len(s))
	}
	return s
}

// runCase runs one vector / corpus case.
func (r *runner) runCase(v *Vec) {
	r.cur = v
	r.evals++
	defer func() {
		if p := recover(); p != nil {
			r.report("panic", v.K, fmt.Sprint(p))
			r.ev(vt.Ev{"ev": "panic", "what": fmt.Sprint(p)})
		}
	}()
	switch v.K {
	case "parse":
		s := conc(v.S)
		r.input = s
		l, d, rs, err := jid.SplitString(s)
		if got := splitClass(err); (got == "none") != (v.Err == "none") {
			r.report("C11_SplitRule", "SplitString", fmt.Sprintf("error %v, the specification says %s", err, v.Err))
		} else if err == nil && (l != conc(v.L) || d != conc(v.D) || rs != conc(v.R)) {
			r.report("C11_SplitRule", "SplitString", fmt.Sprintf("(%q, %q, %q), the specification says (%q, %q, %q)", short(l), short(d), short(rs), short(conc(v.L)), short(conc(v.D)), short(conc(v.R))))
		}
		r.checkSplit(s)
		j, err := jid.Parse(s)
		r.expect("Parse", v, j, err)
		if err == nil {
			r.laws(j, "parse")
		}
	case "new":
		l, d, rs := conc(v.L), conc(v.D), conc(v.R)
		r.input = fmt.Sprintf("New(%q, %q, %q)", short(l), short(d), short(rs))
		j, err := jid.New(l, d, rs)
		r.expect("New", v, j, err)
		r.newVsParse(l, d, rs, j, err)
		if err == nil {
			r.laws(j, "new")
		}
	case "with":
		bl, bd, br, p := conc(v.BL), conc(v.BD), conc(v.BR), conc(v.P)
		r.input = fmt.Sprintf("New(%q, %q, %q).With[%s](%q)", bl, bd, br, v.Role, short(p))
		base, err := jid.New(bl, bd, br)
		if err != nil {
			r.report("C11_Canonical(expected)", "New(base)", fmt.Sprintf("valid base rejected: %v", err))
			return
		}
		before := base.String()
		w, werr := r.replace(base, v.Role, p)
		r.expect("With["+v.Role+"]", v, w, werr)
		if base.String() != before {
			r.report("C11_AccessorsAgree", "with"+v.Role, fmt.Sprintf("receiver changed from %q to %q", before, base.String()))
		}
		if werr == nil {
			r.laws(w, "with"+v.Role)
		}
	case "prog":
		r.runProg(v)
	case "eq":
		s1, s2 := conc(v.S1), conc(v.S2)
		r.input = s1 + " ?= " + s2
		j1, e1 := jid.Parse(s1)
		j2, e2 := jid.Parse(s2)
		if e1 != nil || e2 != nil {
			r.report("C11_Canonical(expected)", "Parse", fmt.Sprintf("valid address rejected: %v %v", e1, e2))
			return
		}
		if j1.Equal(j2) != v.Eq || j2.Equal(j1) != v.Eq {
			r.report("C11_AccessorsAgree", "Equal", fmt.Sprintf("%q.Equal(%q) = %v / %v, the specification says %v", s1, s2, j1.Equal(j2), j2.Equal(j1), v.Eq))
		}
	case "corpus":
		if v.Str != nil {
			r.input = *v.Str
			r.checkSplit(*v.Str)
			j, err := jid.Parse(*v.Str)
			if err == nil {
				r.laws(j, "parse")
				if v.Repl != nil {
					for _, role := range []string{"l", "d", "r"} {
						if w, werr := r.replace(j, role, *v.Repl); werr == nil {
							r.lawsQuiet(w, "with"+role)
						}
					}
				}
			}
		} else {
			l, d, rs := v.Parts[0], v.Parts[1], v.Parts[2]
			r.input = fmt.Sprintf("New(%q, %q, %q)", l, d, rs)
			j, err := jid.New(l, d, rs)
			r.newVsParse(l, d, rs, j, err)
			if err == nil {
				r.laws(j, "new")
			}
		}
	}
}

// runProg executes a program over the value store: every operation derives a new address from one handed out
// earlier; after every operation ALL addresses handed out so far are read again (C11_Immutable: an address is a
// value, deriving another one from it or from a relative never changes it).
func (r *runner) runProg(v *Vec) {
	bl, bd, br := conc(v.BL), conc(v.BD), conc(v.BR)
	r.input = fmt.Sprintf("New(%q, %q, %q)", bl, bd, br)
	base, err := jid.New(bl, bd, br)
	if err != nil {
		r.report("C11_Canonical(expected)", "New(base)", fmt.Sprintf("valid base rejected: %v", err))
		return
	}
	type rec struct{ l, d, r, s string }
	read := func(j jid.JID) rec { l, d, rs := parts(j); return rec{l, d, rs, j.String()} }
	obs := func(hs []jid.JID) []interface{} {
		o := []interface{}{}
		for _, h := range hs {
			l, d, rs := parts(h)
			o = append(o, map[string]interface{}{"l": cps(l), "d": cps(d), "r": cps(rs)})
		}
		return o
	}
	hs := []jid.JID{base}
	was := []rec{read(base)}
	r.ev(vt.Ev{"ev": "base", "l": cps(was[0].l), "d": cps(was[0].d), "r": cps(was[0].r)})
	for k, op := range v.Ops {
		if op.H < 1 || op.H > len(hs) {
			return
		}
		x := hs[op.H-1]
		p := conc(op.P)
		r.input += fmt.Sprintf("; #%d = #%d.%s(%q)", len(hs)+1, op.H, op.Op, p)
		l, d, rs := parts(x)
		var y, n jid.JID
		var yerr, nerr error
		switch op.Op {
		case "bare":
			y = x.Bare()
			n, nerr = jid.New(l, d, "")
		case "domain":
			y = x.Domain()
			n, nerr = jid.New("", d, "")
		case "copy":
			y = x.Copy()
			n, nerr = jid.New(l, d, rs)
		case "withl":
			y, yerr = x.WithLocal(p)
			n, nerr = jid.New(p, d, rs)
		case "withd":
			y, yerr = x.WithDomain(p)
			n, nerr = jid.New(l, p, rs)
		case "withr":
			y, yerr = x.WithResource(p)
			n, nerr = jid.New(l, d, p)
		default:
			return
		}
		if yerr == nil {
			hs = append(hs, y)
			was = append(was, read(y))
		}
		yl, yd, yr := parts(y)
		nl, nd, nr := parts(n)
		r.ev(vt.Ev{"ev": "hop", "k": k + 1, "op": op.Op, "h": op.H, "p": cps(p), "ok": yerr == nil, "l": cps(yl), "d": cps(yd), "r": cps(yr),
			"nok": nerr == nil, "nl": cps(nl), "nd": cps(nd), "nr": cps(nr), "obs": obs(hs)})
		for i, h := range hs {
			if now := read(h); now != was[i] {
				r.report("C11_Immutable", "prog."+op.Op, fmt.Sprintf("address #%d was %q (%q, %q, %q) and reads %q (%q, %q, %q) after #%d.%s(%q)",
					i+1, was[i].s, was[i].l, was[i].d, was[i].r, now.s, now.l, now.d, now.r, op.H, op.Op, p))
				was[i] = now
			}
		}
		if (yerr == nil) != (nerr == nil) || (yerr == nil && (!y.Equal(n) || !sameParts(y, n))) {
			r.report("C11_BuildReplaceParseAgree", "prog."+op.Op, fmt.Sprintf("#%d.%s(%q) = %q (%v) but New of the same parts = %q (%v)", op.H, op.Op, p, y.String(), yerr, n.String(), nerr))
		}
		if yerr != nil {
			return
		}
	}
	// the laws hold for the last address handed out (the others were subjects of shorter programs)
	r.lawsQuiet(hs[len(hs)-1], "prog")
}

// lawsQuiet evaluates the laws without adding observation events (second subject of a case).
func (r *runner) lawsQuiet(j jid.JID, how string) {
	t := r.tracing
	r.tracing = false
	r.laws(j, how)
	r.tracing = t
}

// newVsParse: if the assembled string splits back into the same raw parts, Parse of it
// must agree with New.
func (r *runner) newVsParse(l, d, rs string, j jid.JID, err error) {
	s := assemble(l, d, rs)
	if wl, wd, wr, we := refSplit(s); we != "none" || wl != l || wd != d || wr != rs {
		return
	}
	p, perr := jid.Parse(s)
	switch {
	case (err == nil) != (perr == nil):
		r.report("C11_BuildReplaceParseAgree", "New/Parse", fmt.Sprintf("New error %v but Parse(%q) error %v", err, s, perr))
	case err == nil && (!p.Equal(j) || !sameParts(p, j)):
		r.report("C11_BuildReplaceParseAgree", "New/Parse", fmt.Sprintf("New gives %q but Parse(%q) gives %q", j.String(), s, p.String()))
	}
}

// corpus composes law-only cases from the spec's rune pool.
func corpus(seed int64, n int) []Vec {
	rng := rand.New(rand.NewSource(seed))
	pick := func(max int) string {
		k := rng.Intn(max + 1)
		var b []byte
		for i := 0; i < k; i++ {
			if rng.Intn(3) == 0 {
				b = append(b, byte('a'+rng.Intn(3)))
			} else {
				b = utf8.AppendRune(b, rune(plan.Pool[rng.Intn(len(plan.Pool))]))
			}
		}
		if rng.Intn(200) == 0 {
			b = append(b, [][]byte{{0xff}, {0xc0, 0x80}, {0xe3, 0x80}, {0xed, 0xa0, 0x80}}[rng.Intn(4)]...)
		}
		return string(b)
	}
	cpstr := func(v []int) string {
		var b []byte
		for _, c := range v {
			b = utf8.AppendRune(b, rune(c))
		}
		return string(b)
	}
	// a label that carries the ACE prefix in one of its spellings: a Punycode tail of the plan (as given, or with
	// the case of its letters changed) or a random one
	ace := func() string {
		if len(plan.AcePre) == 0 || len(plan.AceTail) == 0 {
			return "xn--" + pick(3)
		}
		lb := cpstr(plan.AcePre[rng.Intn(len(plan.AcePre))])
		switch rng.Intn(8) {
		case 0:
			lb += pick(3)
		case 1:
			lb += strings.ToUpper(cpstr(plan.AceTail[rng.Intn(len(plan.AceTail))]))
		default:
			lb += cpstr(plan.AceTail[rng.Intn(len(plan.AceTail))])
		}
		return lb
	}
	label := func(max int) string {
		if rng.Intn(4) == 0 {
			return ace()
		}
		return pick(max)
	}
	dom := func() string {
		switch rng.Intn(12) {
		case 0:
			return "[::1]"
		case 1:
			return "127.0.0.1"
		case 2:
			return "[2001:DB8::A]"
		case 3:
			return ace()
		}
		d := label(3)
		if d == "" {
			d = "a"
		}
		for i := rng.Intn(3); i > 0; i-- {
			d += []string{".", ".", "。", "．", "｡", ".."}[rng.Intn(6)] + label(2)
		}
		return d
	}
	res := make([]Vec, 0, n)
	for i := 0; i < n; i++ {
		l, d, rs := pick(3), dom(), pick(3)
		switch rng.Intn(4) {
		case 0:
			l = ""
		case 1:
			rs = ""
		}
		v := Vec{K: "corpus"}
		if rng.Intn(3) == 0 {
			v.Parts = []string{l, d, rs}
		} else {
			s := assemble(l, d, rs)
			v.Str = &s
			if rng.Intn(3) == 0 {
				p := pick(3)
				if rng.Intn(2) == 0 {
					p = dom()
				}
				v.Repl = &p
			}
		}
		res = append(res, v)
	}
	return res
}

func readVecs(path string) []Vec {
	f, err := os.Open(path)
	if err != nil {
		fatal(err)
	}
	defer f.Close()
	var res []Vec
	sc := bufio.NewScanner(f)
	sc.Buffer(make([]byte, 1<<20), 1<<24)
	for sc.Scan() {
		if len(bytes.TrimSpace(sc.Bytes())) == 0 {
			continue
		}
		var v Vec
		if err := json.Unmarshal(sc.Bytes(), &v); err != nil {
			fatal(err)
		}
		res = append(res, v)
	}
	// TLC's SetToSeq order is unspecified: sort by content for a reproducible numbering
	key := func(v *Vec) string { b, _ := json.Marshal(v); return string(b) }
	keys := make([]string, len(res))
	idx := make([]int, len(res))
	for i := range res {
		keys[i] = fmt.Sprintf("%06d", len(res[i].S)+len(res[i].L)+len(res[i].D)+len(res[i].R)+len(res[i].P)+len(res[i].S1)+len(res[i].S2)) + key(&res[i])
		idx[i] = i
	}
	sort.Slice(idx, func(a, b int) bool { return keys[idx[a]] < keys[idx[b]] })
	out := make([]Vec, len(res))
	for i, k := range idx {
		out[i] = res[k]
	}
	return out
}

func fatal(err error) {
	fmt.Fprintln(os.Stderr, "jidcanon:", err)
	os.Exit(2)
}

func envInt(name string, def int) int {
	if v, err := strconv.Atoi(os.Getenv(name)); err == nil {
		return v
	}
	return def
}

func traceable(v *Vec) bool {
	for _, l := range [][]int{v.S, v.L, v.D, v.R, v.P, v.BL, v.BD, v.BR} {
		for _, s := range l {
			if (s >= 20 && s <= 22) || s == 18 { // long runs and invalid UTF-8 are compared by expectation only
				return false
			}
		}
	}
	if v.Str != nil && (!utf8.ValidString(*v.Str) || len(*v.Str) > 64) {
		return false
	}
	for _, p := range v.Parts {
		if !utf8.ValidString(p) {
			return false
		}
	}
	return v.K != "eq"
}

func main() {
	if len(os.Args) < 5 {
		fmt.Fprintln(os.Stderr, "usage: jidcanon run <plan> <parse> <new> <with> <eq> <trace> | jidcanon replay <plan> <case.json> <trace>")
		os.Exit(2)
	}
	b, err := os.ReadFile(os.Args[2])
	if err != nil {
		fatal(err)
	}
	if err := json.Unmarshal(b, &plan); err != nil {
		fatal(err)
	}
	seed := int64(envInt("VERIF_SEED", 1))
	every := envInt("JID_TRACE_EVERY", 60)
	var cases []Vec
	tracePath := ""
	if os.Args[1] == "replay" {
		cb, err := os.ReadFile(os.Args[3])
		if err != nil {
			fatal(err)
		}
		var v Vec
		if err := json.Unmarshal(cb, &v); err != nil {
			fatal(err)
		}
		cases = []Vec{v}
		every = 1
		tracePath = os.Args[4]
	} else {
		for _, f := range os.Args[3:7] {
			cases = append(cases, readVecs(f)...)
		}
		if pf := os.Getenv("JID_PROGS"); pf != "" {
			cases = append(cases, readVecs(pf)...)
		}
		// longer programs over the value store than TLC enumerates, drawn at random (VERIF_SEED)
		if n := envInt("JID_PROGS_RANDOM", 0); n > 0 {
			rng := rand.New(rand.NewSource(seed*7919 + 13))
			bases := [][3][]int{{{1}, {14}, {19}}, {{1}, {14}, {}}, {{}, {14}, {19, 19}}, {{2, 11}, {1, 5, 14}, {12, 1, 1, 1}}}
			syms := []int{1, 2, 14, 19, 12, 11}
			kinds := []string{"bare", "domain", "copy", "withl", "withd", "withr", "withr", "withl"}
			for i := 0; i < n; i++ {
				bs := bases[rng.Intn(len(bases))]
				v := Vec{K: "prog", BL: bs[0], BD: bs[1], BR: bs[2]}
				for k := 1; k <= 6; k++ {
					o := Op{Op: kinds[rng.Intn(len(kinds))], H: 1 + rng.Intn(k), P: []int{}}
					if strings.HasPrefix(o.Op, "with") {
						for j := rng.Intn(4); j > 0; j-- {
							o.P = append(o.P, syms[rng.Intn(len(syms))])
						}
						if o.Op == "withd" && len(o.P) == 0 {
							o.P = []int{14}
						}
					}
					v.Ops = append(v.Ops, o)
				}
				cases = append(cases, v)
			}
		}
		cases = append(cases, corpus(seed, envInt("JID_CORPUS", 30000))...)
		tracePath = os.Args[7]
	}
	// stall watchdog: the API is purely computational; a case that does not return is reported
	progress := make(chan int, 1)
	go func() {
		last, t := -1, time.Now()
		cur := -1
		for {
			select {
			case c := <-progress:
				cur = c
			case <-time.After(time.Second):
			}
			if cur != last {
				last, t = cur, time.Now()
			} else if time.Since(t) > 30*time.Second {
				fmt.Printf("STALL case %d\n", cur)
				os.Exit(3)
			}
		}
	}()
	tw, err := vt.NewTraceWriter(tracePath)
	if err != nil {
		fatal(err)
	}
	r := &runner{kinds: map[string]int{}}
	byKind := map[string]int{}
	tracedFinding := map[string]bool{}
	for i := range cases {
		if i%512 == 0 {
			select {
			case progress <- i:
			default:
			}
		}
		v := &cases[i]
		h := fnv.New64a()
		fmt.Fprintf(h, "%d/%d", seed, i)
		r.tracing = traceable(v) && every > 0 && (h.Sum64()%uint64(every) == 0 || v.K == "prog")
		r.evs = []vt.Ev{}
		nf := len(r.findings)
		r.runCase(v)
		byKind[v.K]++
		if len(r.findings) > nf && !r.tracing && traceable(v) {
			// record the first cases of every kind of finding call by call as well
			k := r.findings[nf].Law + " / " + r.findings[nf].How
			if !tracedFinding[k] || r.kinds[k] <= 2 {
				tracedFinding[k] = true
				save := *r
				r.tracing, r.evs = true, []vt.Ev{}
				r.findings, r.kinds = nil, map[string]int{}
				r.runCase(v)
				evs := r.evs
				*r = save
				r.evs, r.tracing = evs, true
			}
		}
		if r.tracing && len(r.evs) > 0 {
			n := tw.Write(vt.Ev{}, r.evs)
			tw.Meta(map[string]interface{}{"case": v, "finding": len(r.findings) > nf})
			for k := nf; k < len(r.findings); k++ {
				r.findings[k].Trace = n
			}
		}
	}
	sum := vt.Summary{Evaluations: r.evals, Distinct: len(cases), Extra: map[string]interface{}{}}
	sum.Traces, sum.Events = tw.Counts()
	if err := tw.Close(); err != nil {
		fatal(err)
	}
	total := 0
	for _, n := range r.kinds {
		total += n
	}
	// at most three findings per kind, shortest input first
	sort.SliceStable(r.findings, func(a, b int) bool { return len(r.findings[a].Input) < len(r.findings[b].Input) })
	seen := map[string]int{}
	for _, f := range r.findings {
		k := f.Law + " / " + f.How
		if seen[k] < 3 {
			seen[k]++
			sum.Mismatches = append(sum.Mismatches, f)
		}
	}
	sum.Extra["finding_total"] = total
	sum.Extra["finding_kinds"] = r.kinds
	sum.Extra["cases_by_kind"] = byKind
	sum.Extra["addresses_returned"] = r.accepted
	sum.Extra["ok_class"] = r.okClass
	sum.Extra["ok_class_rejected"] = r.okRejected
	sum.Extra["ok_class_rejected_examples"] = r.rejectedValid
	if len(cases) > 10 {
		for _, i := range []int{len(cases) / 3, len(cases) - 3} {
			sum.Samples = append(sum.Samples, cases[i])
		}
	}
	sum.Print()
}
