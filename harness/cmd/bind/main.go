// Command bind runs the scenarios of tla/Bind.tla (property C12 part d) against the real
// xmpp.BindResource / xmpp.BindCustom stream feature inside a full xmpp.NewSession /
// xmpp.ReceiveSession (Secure|Authn preset) with a lazy scripted peer.
//
//	bind init <bind_init.ndjson>    the library requests a resource
//	bind recv <bind_recv.ndjson>    the library answers a request
//
// Every scenario carries the expectation computed by TLC from the specification.
package main

import (
	"bufio"
	"context"
	"encoding/json"
	"encoding/xml"
	"errors"
	"fmt"
	"os"
	"strings"
	"time"

	"mellium.im/xmpp"
	"mellium.im/xmpp/jid"
	"mellium.im/xmpp/stanza"

	"verifharness/vt"
)

const (
	nsStream  = "http://etherx.jabber.org/streams"
	nsBind    = "urn:ietf:params:xml:ns:xmpp-bind"
	nsStanzas = "urn:ietf:params:xml:ns:xmpp-stanzas"
)

var chars = []string{"", "a", "'", "&", "<", ">", "\""}

func str(sym []int) string {
	var b strings.Builder
	for _, c := range sym {
		if c > 0 && c < len(chars) {
			b.WriteString(chars[c])
		}
	}
	return b.String()
}

func esc(s string) string {
	var b strings.Builder
	xml.EscapeText(&b, []byte(s))
	return b.String()
}

func errText(err error) (s string) {
	defer func() {
		if recover() != nil {
			s = "<error value panics in Error()>"
		}
	}()
	if err == nil {
		return ""
	}
	return err.Error()
}

func session(init bool, location, origin jid.JID, conn *vt.Conn, state xmpp.SessionState, feat xmpp.StreamFeature) (s *xmpp.Session, err error, panicked interface{}) {
	defer func() {
		if p := recover(); p != nil {
			panicked = p
		}
	}()
	neg := xmpp.NewNegotiator(func(*xmpp.Session, *xmpp.StreamConfig) xmpp.StreamConfig {
		return xmpp.StreamConfig{Features: []xmpp.StreamFeature{feat}}
	})
	if init {
		s, err = xmpp.NewSession(context.Background(), location, origin, conn, state, neg)
	} else {
		s, err = xmpp.ReceiveSession(context.Background(), conn, state, neg)
	}
	return
}

const serverHdr = `<?xml version='1.0'?><stream:stream xmlns='jabber:client' xmlns:stream='` + nsStream + `' version='1.0' id='s1' from='example.net'>`
const clientHdr = `<?xml version='1.0'?><stream:stream xmlns='jabber:client' xmlns:stream='` + nsStream + `' version='1.0' from='me@example.net' to='example.net'>`
const bindFeature = `<stream:features><bind xmlns='` + nsBind + `'/></stream:features>`

// wireIQ is what either side writes during resource binding.
type wireIQ struct {
	XMLName xml.Name
	ID      string `xml:"id,attr"`
	Type    string `xml:"type,attr"`
	Bind    *struct {
		Resource *string `xml:"resource"`
		JID      *string `xml:"jid"`
		Inner    []byte  `xml:",innerxml"`
	} `xml:"urn:ietf:params:xml:ns:xmpp-bind bind"`
	Inner []byte `xml:",innerxml"`
}

func parseIQ(b string) (*wireIQ, error) {
	var iq wireIQ
	if err := xml.Unmarshal([]byte(b), &iq); err != nil {
		return nil, err
	}
	return &iq, nil
}

// ---------------------------------------------------------------- initiator

type InitIn struct {
	Role string `json:"role"`
	Res  []int  `json:"res"`
	Kind string `json:"kind"`
	Asg  string `json:"asg"`
}
type InitExp struct {
	Req     []int  `json:"req"`
	Outcome string `json:"outcome"`
	Addr    string `json:"addr"`
}
type InitVec struct {
	In  InitIn  `json:"in"`
	Exp InitExp `json:"exp"`
}

func assigned(label, ownRes string) string {
	switch label {
	case "own":
		if ownRes == "" {
			return "me@example.net/gen1"
		}
		return "me@example.net/" + ownRes
	case "otherres":
		return "me@example.net/other"
	case "otheraccount":
		return "you@other.example/x"
	}
	return ""
}

func runInit(v InitVec) (diffs []string, obs vt.Ev) {
	diff := func(f string, a ...interface{}) { diffs = append(diffs, fmt.Sprintf(f, a...)) }
	res := str(v.In.Res)
	own, err := jid.New("me", "example.net", res)
	if err != nil {
		return []string{"SKIP: not a valid JID"}, nil
	}
	asg := assigned(v.In.Asg, res)
	c := vt.NewConn()
	reads, mark := 0, 0
	request := ""
	c.Starve = func() {
		reads++
		switch reads {
		case 1:
			c.FeedString(serverHdr + bindFeature)
			mark = len(c.WireString())
		case 2:
			request = c.WireString()[mark:]
			id := ""
			if iq, err := parseIQ(request); err == nil {
				id = iq.ID
			}
			bind := func(inner string) string { return "<bind xmlns='" + nsBind + "'>" + inner + "</bind>" }
			jidEl := "<jid>" + esc(asg) + "</jid>"
			iq := func(attrs, inner string) string {
				return "<iq " + attrs + " id='" + esc(id) + "'>" + inner + "</iq>"
			}
			switch v.In.Kind {
			case "result":
				c.FeedString(iq("type='result'", bind(jidEl)))
			case "result_nojid":
				c.FeedString(iq("type='result'", bind("")))
			case "error":
				c.FeedString(iq("type='error'", "<error type='cancel'><conflict xmlns='"+nsStanzas+"'/></error>"))
			case "error_nochild":
				c.FeedString(iq("type='error'", ""))
			case "wrongid":
				c.FeedString("<iq type='result' id='" + esc(id) + "-x'>" + bind(jidEl) + "</iq>")
			case "get":
				c.FeedString(iq("type='get'", bind(jidEl)))
			case "set":
				c.FeedString(iq("type='set'", bind(jidEl)))
			case "notiq":
				c.FeedString("<message id='" + esc(id) + "' type='result'>" + bind(jidEl) + "</message>")
			case "wrongns":
				c.FeedString(iq("xmlns='jabber:server' type='result'", bind(jidEl)))
			case "chardata":
				c.FeedString("result " + asg + "<x xmlns='urn:vt:x'/>")
			case "badjid":
				c.FeedString(iq("type='result'", bind("<jid>@example.net/x</jid>")))
			default: // eof
				c.CloseIn()
			}
		default:
			c.CloseIn()
		}
	}
	s, err, p := session(true, jid.MustParse("example.net"), own, c, xmpp.Secure|xmpp.Authn, xmpp.BindResource())
	obs = vt.Ev{"request": request, "err": errText(err)}
	if p != nil {
		diff("the session panicked: %v", p)
		return diffs, obs
	}
	// the request
	iq, perr := parseIQ(request)
	switch {
	case perr != nil:
		diff("the bind request is not well-formed: %v (%q)", perr, request)
	case iq.Type != "set" || iq.Bind == nil || iq.ID == "":
		diff("not a bind request: %q", request)
	default:
		got := ""
		if iq.Bind.Resource != nil {
			got = *iq.Bind.Resource
		}
		obs["requested"] = got
		if got != str(v.Exp.Req) {
			diff("requested resourcepart %q, own resourcepart is %q", got, str(v.Exp.Req))
		}
	}
	// the outcome
	ready := s != nil && s.State()&xmpp.Ready != 0
	outcome := "error"
	if err == nil && ready {
		outcome = "ready"
	} else if ready {
		diff("an error was returned but the session is Ready")
	} else if err == nil {
		diff("no error was returned but the session is not Ready")
	}
	obs["outcome"] = outcome
	if s != nil {
		obs["addr"] = s.LocalAddr().String()
	}
	if v.Exp.Outcome != "any" && outcome != v.Exp.Outcome {
		diff("outcome %s (%s), want %s", outcome, errText(err), v.Exp.Outcome)
	}
	if outcome == "ready" && v.Exp.Addr != "" {
		want := assigned(v.Exp.Addr, res)
		if s.LocalAddr().String() != want {
			diff("LocalAddr() = %q after binding, the server assigned %q", s.LocalAddr(), want)
		}
	}
	return diffs, obs
}

// ---------------------------------------------------------------- receiver

type RecvIn struct {
	Role string `json:"role"`
	ID   []int  `json:"id"`
	Res  []int  `json:"res"`
	CB   string `json:"cb"`
	S2S  bool   `json:"s2s"`
}
type RecvExp struct {
	ID      []int  `json:"id"`
	CBArg   []int  `json:"cbarg"`
	Reply   string `json:"reply"`
	Cond    string `json:"cond"`
	Outcome string `json:"outcome"`
}
type RecvVec struct {
	In  RecvIn  `json:"in"`
	Exp RecvExp `json:"exp"`
}

func noRes(r []int) bool { return len(r) == 1 && r[0] == 0 }

func runRecvOnce(v RecvVec) (diffs []string, obs vt.Ev, replyJID string) {
	diff := func(f string, a ...interface{}) { diffs = append(diffs, fmt.Sprintf(f, a...)) }
	id := str(v.In.ID)
	remote := jid.MustParse("me@example.net")
	var cbJID jid.JID
	cbCalled := 0
	var cbRemote jid.JID
	var cbRes string
	cb := func(j jid.JID, res string) (jid.JID, error) {
		cbCalled++
		cbRemote, cbRes = j, res
		switch v.In.CB {
		case "requested":
			r := res
			if r == "" {
				r = "dflt"
			}
			cbJID, _ = remote.WithResource(r)
			return cbJID, nil
		case "chosen":
			cbJID, _ = remote.WithResource("chosen'&<\">")
			return cbJID, nil
		case "otheraccount":
			cbJID = jid.MustParse("you@other.example/x")
			return cbJID, nil
		case "conflict":
			return jid.JID{}, stanza.Error{Type: stanza.Cancel, Condition: stanza.Conflict}
		case "not-allowed":
			return jid.JID{}, stanza.Error{Type: stanza.Cancel, Condition: stanza.NotAllowed}
		}
		return jid.JID{}, errors.New("vt: the application's store is down")
	}
	feat := xmpp.BindCustom(cb)
	if v.In.CB == "random" {
		feat = xmpp.BindResource()
	}
	c := vt.NewConn()
	reads, mark := 0, 0
	c.Starve = func() {
		reads++
		switch reads {
		case 1:
			c.FeedString(clientHdr)
		case 2:
			mark = len(c.WireString())
			inner := ""
			if !noRes(v.In.Res) {
				inner = "<resource>" + esc(str(v.In.Res)) + "</resource>"
			}
			c.FeedString("<iq type='set' id='" + esc(id) + "'><bind xmlns='" + nsBind + "'>" + inner + "</bind></iq>")
		default:
			c.CloseIn()
		}
	}
	state := xmpp.Secure | xmpp.Authn
	if v.In.S2S {
		state |= xmpp.S2S
	}
	s, err, p := session(false, jid.JID{}, jid.JID{}, c, state, feat)
	reply := ""
	if w := c.WireString(); mark > 0 && mark <= len(w) {
		reply = w[mark:]
	}
	obs = vt.Ev{"reply": reply, "err": errText(err)}
	if p != nil {
		diff("the session panicked: %v", p)
		return diffs, obs, ""
	}
	// the callback
	if v.In.CB != "random" {
		switch {
		case cbCalled != 1:
			diff("the callback was called %d times", cbCalled)
		case cbRes != str(v.Exp.CBArg) || !cbRemote.Equal(remote):
			diff("the callback was called with (%q, %q), want (%q, %q)", cbRemote, cbRes, remote, str(v.Exp.CBArg))
		}
	}
	// the answer
	if v.Exp.Reply != "none" {
		iq, perr := parseIQ(reply)
		switch {
		case perr != nil:
			diff("the answer is not a well-formed element: %v (%q)", perr, reply)
		case iq.ID != str(v.Exp.ID):
			diff("the answer has id %q, the request had %q", iq.ID, str(v.Exp.ID))
		default:
			switch v.Exp.Reply {
			case "address", "random":
				if iq.Type != "result" || iq.Bind == nil || iq.Bind.JID == nil {
					diff("the answer assigns no address: %q", reply)
					break
				}
				replyJID = *iq.Bind.JID
				if v.Exp.Reply == "address" && replyJID != cbJID.String() {
					diff("the answer assigns %q, the callback chose %q", replyJID, cbJID)
				}
				if v.Exp.Reply == "random" {
					j, jerr := jid.Parse(replyJID)
					if jerr != nil || !j.Bare().Equal(remote) || j.Resourcepart() == "" {
						diff("the answer assigns %q, want a fresh resource on %q", replyJID, remote)
					}
				}
			case "stanzaerror":
				if !strings.Contains(string(iq.Inner), "<"+v.Exp.Cond) {
					diff("the answer does not relay the callback's condition %s: %q", v.Exp.Cond, reply)
				}
				if iq.Bind != nil && iq.Bind.JID != nil {
					diff("the answer assigns an address although the callback refused: %q", reply)
				}
			}
		}
	}
	ready := s != nil && s.State()&xmpp.Ready != 0
	outcome := "error"
	if err == nil && ready {
		outcome = "ready"
	} else if ready && v.Exp.Outcome != "any" {
		diff("an error was returned but the session is Ready")
	}
	obs["outcome"] = outcome
	if v.Exp.Outcome != "any" && outcome != v.Exp.Outcome {
		diff("outcome %s (%s), want %s", outcome, errText(err), v.Exp.Outcome)
	}
	return diffs, obs, replyJID
}

func runRecv(v RecvVec) ([]string, vt.Ev) {
	diffs, obs, j1 := runRecvOnce(v)
	if v.Exp.Reply == "random" && len(diffs) == 0 {
		_, _, j2 := runRecvOnce(v)
		if j1 == j2 {
			diffs = append(diffs, fmt.Sprintf("two sessions were assigned the same 'random' address %q", j1))
		}
	}
	return diffs, obs
}

// ---------------------------------------------------------------- main

func lines(path string, f func([]byte)) {
	fh, err := os.Open(path)
	if err != nil {
		panic(err)
	}
	defer fh.Close()
	sc := bufio.NewScanner(fh)
	sc.Buffer(make([]byte, 1<<20), 1<<24)
	for sc.Scan() {
		if len(strings.TrimSpace(sc.Text())) > 0 {
			f(sc.Bytes())
		}
	}
}

func main() {
	if len(os.Args) < 3 {
		fmt.Fprintln(os.Stderr, "usage: bind init|recv <scenarios.ndjson>")
		os.Exit(2)
	}
	go func() {
		time.Sleep(10 * time.Minute)
		fmt.Println("STALL: bind driver still running after 10 minutes")
		os.Exit(3)
	}()
	sum := vt.Summary{Extra: map[string]interface{}{}}
	outcomes := map[string]int{}
	distinct := map[string]bool{}
	skipped := 0
	lines(os.Args[2], func(b []byte) {
		var diffs []string
		var obs vt.Ev
		var vec interface{}
		switch os.Args[1] {
		case "init":
			var v InitVec
			if err := json.Unmarshal(b, &v); err != nil {
				panic(err)
			}
			diffs, obs = runInit(v)
			if len(diffs) > 0 && !strings.HasPrefix(diffs[0], "SKIP") {
				if d2, _ := runInit(v); len(d2) == 0 {
					diffs = append(diffs, "NOT CONFIRMED by a second run")
				}
			}
			vec = v
		case "recv":
			var v RecvVec
			if err := json.Unmarshal(b, &v); err != nil {
				panic(err)
			}
			diffs, obs = runRecv(v)
			vec = v
		default:
			os.Exit(2)
		}
		if len(diffs) == 1 && strings.HasPrefix(diffs[0], "SKIP") {
			skipped++
			return
		}
		sum.Evaluations++
		if o, ok := obs["outcome"].(string); ok {
			outcomes[o]++
		}
		k, _ := json.Marshal(obs)
		distinct[string(k)] = true
		if len(diffs) > 0 {
			sum.Mismatches = append(sum.Mismatches, vt.Ev{"vector": vec, "diffs": diffs, "observed": obs})
		} else if len(sum.Samples) < 2 && sum.Evaluations%97 == 5 {
			sum.Samples = append(sum.Samples, vt.Ev{"vector": vec, "observed": obs})
		}
	})
	sum.Extra["outcomes"] = outcomes
	sum.Extra["skipped_invalid_jid"] = skipped
	sum.Distinct = len(distinct)
	sum.Traces = sum.Evaluations
	sum.Print()
}
