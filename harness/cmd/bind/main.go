// Command bind runs the scenarios of tla/Bind.tla (property C12 part d) against the real
// xmpp.BindResource / xmpp.BindCustom stream feature inside a full xmpp.NewSession /
// xmpp.ReceiveSession (Secure|Authn preset) with a lazy scripted peer.
//
//	bind init <bind_init.ndjson>    the library requests a resource
//	bind recv <bind_recv.ndjson>    the library answers a request
//	bind shared <bind_shared.ndjson>  several receiving sessions (successive and overlapping,
//	                                several accounts) are negotiated with ONE feature list value
//
// Every scenario carries the expectation computed by TLC from the specification.
package main

import (
	"bufio"
	"context"
	"encoding/json"
	"encoding/xml"
	"errors"
	"fmt"
	"os"
	"strings"
	"sync"
	"time"

	"mellium.im/xmpp"
	"mellium.im/xmpp/jid"
	"mellium.im/xmpp/stanza"

	"verifharness/vt"
)

const (
	nsStream  = "http://etherx.jabber.org/streams"
	nsBind    = "urn:ietf:params:xml:ns:xmpp-bind"
	nsStanzas = "urn:ietf:params:xml:ns:xmpp-stanzas"
)

var chars = []string{"", "a", "'", "&", "<", ">", "\""}

func str(sym []int) string {
	var b strings.Builder
	for _, c := range sym {
		if c > 0 && c < len(chars) {
			b.WriteString(chars[c])
		}
	}
	return b.String()
}

func esc(s string) string {
	var b strings.Builder
	xml.EscapeText(&b, []byte(s))
	return b.String()
}

func errText(err error) (s string) {
	defer func() {
		if recover() != nil {
			s = "<error value panics in Error()>"
		}
	}()
	if err == nil {
		return ""
	}
	return err.Error()
}

func session(init bool, location, origin jid.JID, conn *vt.Conn, state xmpp.SessionState, feat xmpp.StreamFeature) (s *xmpp.Session, err error, panicked interface{}) {
	defer func() {
		if p := recover(); p != nil {
			panicked = p
		}
	}()
	neg := xmpp.NewNegotiator(func(*xmpp.Session, *xmpp.StreamConfig) xmpp.StreamConfig {
		return xmpp.StreamConfig{Features: []xmpp.StreamFeature{feat}}
	})
	if init {
		s, err = xmpp.NewSession(context.Background(), location, origin, conn, state, neg)
	} else {
		s, err = xmpp.ReceiveSession(context.Background(), conn, state, neg)
	}
	return
}

const serverHdr = `<?xml version='1.0'?><stream:stream xmlns='jabber:client' xmlns:stream='` + nsStream + `' version='1.0' id='s1' from='example.net'>`
const clientHdr = `<?xml version='1.0'?><stream:stream xmlns='jabber:client' xmlns:stream='` + nsStream + `' version='1.0' from='me@example.net' to='example.net'>`
const bindFeature = `<stream:features><bind xmlns='` + nsBind + `'/></stream:features>`

// wireIQ is what either side writes during resource binding.
type wireIQ struct {
	XMLName xml.Name
	ID      string `xml:"id,attr"`
	Type    string `xml:"type,attr"`
	Bind    *struct {
		Resource *string `xml:"resource"`
		JID      *string `xml:"jid"`
		Inner    []byte  `xml:",innerxml"`
	} `xml:"urn:ietf:params:xml:ns:xmpp-bind bind"`
	Inner []byte `xml:",innerxml"`
}

func parseIQ(b string) (*wireIQ, error) {
	var iq wireIQ
	if err := xml.Unmarshal([]byte(b), &iq); err != nil {
		return nil, err
	}
	return &iq, nil
}

// ---------------------------------------------------------------- initiator

type InitIn struct {
	Role string `json:"role"`
	Res  []int  `json:"res"`
	Kind string `json:"kind"`
	Asg  string `json:"asg"`
}
type InitExp struct {
	Req     []int  `json:"req"`
	Outcome string `json:"outcome"`
	Addr    string `json:"addr"`
}
type InitVec struct {
	In  InitIn  `json:"in"`
	Exp InitExp `json:"exp"`
}

func assigned(label, ownRes string) string {
	switch label {
	case "own":
		if ownRes == "" {
			return "me@example.net/gen1"
		}
		return "me@example.net/" + ownRes
	case "otherres":
		return "me@example.net/other"
	case "otheraccount":
		return "you@other.example/x"
	}
	return ""
}

func runInit(v InitVec) (diffs []string, obs vt.Ev) {
	diff := func(f string, a ...interface{}) { diffs = append(diffs, fmt.Sprintf(f, a...)) }
	res := str(v.In.Res)
	own, err := jid.New("me", "example.net", res)
	if err != nil {
		return []string{"SKIP: not a valid JID"}, nil
	}
	asg := assigned(v.In.Asg, res)
	c := vt.NewConn()
	reads, mark := 0, 0
	request := ""
	c.Starve = func() {
		reads++
		switch reads {
		case 1:
			c.FeedString(serverHdr + bindFeature)
			mark = len(c.WireString())
		case 2:
			request = c.WireString()[mark:]
			id := ""
			if iq, err := parseIQ(request); err == nil {
				id = iq.ID
			}
			bind := func(inner string) string { return "<bind xmlns='" + nsBind + "'>" + inner + "</bind>" }
			jidEl := "<jid>" + esc(asg) + "</jid>"
			iq := func(attrs, inner string) string {
				return "<iq " + attrs + " id='" + esc(id) + "'>" + inner + "</iq>"
			}
			switch v.In.Kind {
			case "result":
				c.FeedString(iq("type='result'", bind(jidEl)))
			case "result_nojid":
				c.FeedString(iq("type='result'", bind("")))
			case "error":
				c.FeedString(iq("type='error'", "<error type='cancel'><conflict xmlns='"+nsStanzas+"'/></error>"))
			case "error_nochild":
				c.FeedString(iq("type='error'", ""))
			case "wrongid":
				c.FeedString("<iq type='result' id='" + esc(id) + "-x'>" + bind(jidEl) + "</iq>")
			case "get":
				c.FeedString(iq("type='get'", bind(jidEl)))
			case "set":
				c.FeedString(iq("type='set'", bind(jidEl)))
			case "notiq":
				c.FeedString("<message id='" + esc(id) + "' type='result'>" + bind(jidEl) + "</message>")
			case "wrongns":
				c.FeedString(iq("xmlns='jabber:server' type='result'", bind(jidEl)))
			case "chardata":
				c.FeedString("result " + asg + "<x xmlns='urn:vt:x'/>")
			case "badjid":
				c.FeedString(iq("type='result'", bind("<jid>@example.net/x</jid>")))
			default: // eof
				c.CloseIn()
			}
		default:
			c.CloseIn()
		}
	}
	s, err, p := session(true, jid.MustParse("example.net"), own, c, xmpp.Secure|xmpp.Authn, xmpp.BindResource())
	obs = vt.Ev{"request": request, "err": errText(err)}
	if p != nil {
		diff("the session panicked: %v", p)
		return diffs, obs
	}
	// the request
	iq, perr := parseIQ(request)
	switch {
	case perr != nil:
		diff("the bind request is not well-formed: %v (%q)", perr, request)
	case iq.Type != "set" || iq.Bind == nil || iq.ID == "":
		diff("not a bind request: %q", request)
	default:
		got := ""
		if iq.Bind.Resource != nil {
			got = *iq.Bind.Resource
		}
		obs["requested"] = got
		if got != str(v.Exp.Req) {
			diff("requested resourcepart %q, own resourcepart is %q", got, str(v.Exp.Req))
		}
	}
	// the outcome
	ready := s != nil && s.State()&xmpp.Ready != 0
	outcome := "error"
	if err == nil && ready {
		outcome = "ready"
	} else if ready {
		diff("an error was returned but the session is Ready")
	} else if err == nil {
		diff("no error was returned but the session is not Ready")
	}
	obs["outcome"] = outcome
	if s != nil {
		obs["addr"] = s.LocalAddr().String()
	}
	if v.Exp.Outcome != "any" && outcome != v.Exp.Outcome {
		diff("outcome %s (%s), want %s", outcome, errText(err), v.Exp.Outcome)
	}
	if outcome == "ready" && v.Exp.Addr != "" {
		want := assigned(v.Exp.Addr, res)
		if s.LocalAddr().String() != want {
			diff("LocalAddr() = %q after binding, the server assigned %q", s.LocalAddr(), want)
		}
	}
	return diffs, obs
}

// ---------------------------------------------------------------- receiver

type RecvIn struct {
	Role string `json:"role"`
	ID   []int  `json:"id"`
	Res  []int  `json:"res"`
	CB   string `json:"cb"`
	S2S  bool   `json:"s2s"`
}
type RecvExp struct {
	ID      []int  `json:"id"`
	CBArg   []int  `json:"cbarg"`
	Reply   string `json:"reply"`
	Cond    string `json:"cond"`
	Outcome string `json:"outcome"`
}
type RecvVec struct {
	In  RecvIn  `json:"in"`
	Exp RecvExp `json:"exp"`
}

func noRes(r []int) bool { return len(r) == 1 && r[0] == 0 }

// cbCall is one invocation of the application's callback.
type cbCall struct {
	remote jid.JID
	res    string
	ret    jid.JID
}

// makeCB returns the application's callback of the given kind. remote() is the address of
// the peer whose bind is being answered (known to the driver), rec receives every call.
func makeCB(kind string, remote func() jid.JID, rec func(cbCall)) func(jid.JID, string) (jid.JID, error) {
	return func(j jid.JID, res string) (jid.JID, error) {
		var ret jid.JID
		var err error
		switch kind {
		case "requested":
			r := res
			if r == "" {
				r = "dflt"
			}
			ret, _ = remote().WithResource(r)
		case "chosen":
			ret, _ = remote().WithResource("chosen'&<\">")
		case "otheraccount":
			ret = jid.MustParse("you@other.example/x")
		case "conflict":
			err = stanza.Error{Type: stanza.Cancel, Condition: stanza.Conflict}
		case "not-allowed":
			err = stanza.Error{Type: stanza.Cancel, Condition: stanza.NotAllowed}
		default:
			err = errors.New("vt: the application's store is down")
		}
		rec(cbCall{remote: j, res: res, ret: ret})
		return ret, err
	}
}

// feature builds a feature value of the given kind ("random" = BindResource(), "nil" =
// BindCustom(nil), anything else = BindCustom(callback of that kind)).
func feature(kind string, remote func() jid.JID, rec func(cbCall)) xmpp.StreamFeature {
	switch kind {
	case "random":
		return xmpp.BindResource()
	case "nil":
		return xmpp.BindCustom(nil)
	}
	return xmpp.BindCustom(makeCB(kind, remote, rec))
}

func bindRequest(id string, res []int) string {
	inner := ""
	if !noRes(res) {
		inner = "<resource>" + esc(str(res)) + "</resource>"
	}
	return "<iq type='set' id='" + esc(id) + "'><bind xmlns='" + nsBind + "'>" + inner + "</bind></iq>"
}

// recvRun is what one receiving session did.
type recvRun struct {
	remote   jid.JID
	reply    string
	s        *xmpp.Session
	err      error
	panicked interface{}
	calls    []cbCall
}

// judgeRecv compares one receiving session with the expectation of Bind.tla (ExpRecv).
func judgeRecv(cb string, exp RecvExp, o *recvRun) (diffs []string, obs vt.Ev, replyJID string) {
	diff := func(f string, a ...interface{}) { diffs = append(diffs, fmt.Sprintf(f, a...)) }
	remote := o.remote
	obs = vt.Ev{"reply": o.reply, "err": errText(o.err)}
	if o.panicked != nil {
		diff("the session panicked: %v", o.panicked)
		return diffs, obs, ""
	}
	// the callback
	var cbJID jid.JID
	if cb != "random" {
		switch {
		case len(o.calls) != 1:
			diff("the callback was called %d times", len(o.calls))
		case o.calls[0].res != str(exp.CBArg) || !o.calls[0].remote.Equal(remote):
			diff("the callback was called with (%q, %q), want (%q, %q)", o.calls[0].remote, o.calls[0].res, remote, str(exp.CBArg))
		}
		if len(o.calls) > 0 {
			cbJID = o.calls[len(o.calls)-1].ret
		}
	}
	// the answer
	if exp.Reply != "none" {
		iq, perr := parseIQ(o.reply)
		switch {
		case perr != nil:
			diff("the answer is not a well-formed element: %v (%q)", perr, o.reply)
		case iq.ID != str(exp.ID):
			diff("the answer has id %q, the request had %q", iq.ID, str(exp.ID))
		default:
			switch exp.Reply {
			case "address", "random":
				if iq.Type != "result" || iq.Bind == nil || iq.Bind.JID == nil {
					diff("the answer assigns no address: %q", o.reply)
					break
				}
				replyJID = *iq.Bind.JID
				if exp.Reply == "address" && replyJID != cbJID.String() {
					diff("the answer assigns %q, the callback chose %q", replyJID, cbJID)
				}
				if exp.Reply == "random" {
					j, jerr := jid.Parse(replyJID)
					if jerr != nil || !j.Bare().Equal(remote) || j.Resourcepart() == "" {
						diff("the answer assigns %q, want a fresh resource on %q", replyJID, remote)
					}
				}
			case "stanzaerror":
				if !strings.Contains(string(iq.Inner), "<"+exp.Cond) {
					diff("the answer does not relay the callback's condition %s: %q", exp.Cond, o.reply)
				}
				if iq.Bind != nil && iq.Bind.JID != nil {
					diff("the answer assigns an address although the callback refused: %q", o.reply)
				}
			}
		}
	}
	ready := o.s != nil && o.s.State()&xmpp.Ready != 0
	outcome := "error"
	if o.err == nil && ready {
		outcome = "ready"
	} else if ready && exp.Outcome != "any" {
		diff("an error was returned but the session is Ready")
	}
	obs["outcome"] = outcome
	if exp.Outcome != "any" && outcome != exp.Outcome {
		diff("outcome %s (%s), want %s", outcome, errText(o.err), exp.Outcome)
	}
	return diffs, obs, replyJID
}

func runRecvOnce(v RecvVec) (diffs []string, obs vt.Ev, replyJID string) {
	id := str(v.In.ID)
	o := &recvRun{remote: jid.MustParse("me@example.net")}
	feat := feature(v.In.CB, func() jid.JID { return o.remote }, func(c cbCall) { o.calls = append(o.calls, c) })
	c := vt.NewConn()
	reads, mark := 0, 0
	c.Starve = func() {
		reads++
		switch reads {
		case 1:
			c.FeedString(clientHdr)
		case 2:
			mark = len(c.WireString())
			c.FeedString(bindRequest(id, v.In.Res))
		default:
			c.CloseIn()
		}
	}
	state := xmpp.Secure | xmpp.Authn
	if v.In.S2S {
		state |= xmpp.S2S
	}
	o.s, o.err, o.panicked = session(false, jid.JID{}, jid.JID{}, c, state, feat)
	if w := c.WireString(); mark > 0 && mark <= len(w) {
		o.reply = w[mark:]
	}
	return judgeRecv(v.In.CB, v.Exp, o)
}

func runRecv(v RecvVec) ([]string, vt.Ev) {
	diffs, obs, j1 := runRecvOnce(v)
	if v.Exp.Reply == "random" && len(diffs) == 0 {
		_, _, j2 := runRecvOnce(v)
		if j1 == j2 {
			diffs = append(diffs, fmt.Sprintf("two sessions were assigned the same 'random' address %q", j1))
		}
	}
	return diffs, obs
}

// ---------------------------------------------------------------- shared feature values

// SharedIn is a scenario of Bind.tla's last section: feature values (kinds), sessions
// (feature value, account, request) and a schedule (k-th occurrence of s: 1 = the session
// opens and waits for the request, 2 = the request arrives and is answered).
type SharedIn struct {
	Role  string   `json:"role"`
	Feats []string `json:"feats"`
	Sess  []struct {
		F    int   `json:"f"`
		Acct int   `json:"acct"`
		ID   []int `json:"id"`
		Res  []int `json:"res"`
	} `json:"sess"`
	Sched []int `json:"sched"`
	// Mode: "negotiator" = the sessions of a feature value share one xmpp.Negotiator (and its
	// feature list); "list" = one Negotiator per session, all returning the same feature list
	// value. Chosen by the driver (alternating) when empty.
	Mode string `json:"mode,omitempty"`
}
type SharedExp struct {
	Per   []RecvExp `json:"per"`
	Fresh []bool    `json:"fresh"`
}
type SharedVec struct {
	In  SharedIn  `json:"in"`
	Exp SharedExp `json:"exp"`
}

var accounts = []string{"", "me@example.net", "you@example.net"}

type shSess struct {
	recvRun
	conn    *vt.Conn
	reads   int
	mark    int
	sig     chan string   // session -> driver: "parked" | "done"
	resume  chan struct{} // driver -> session
	started bool
	parked  bool
}

func stall(what string) {
	fmt.Println("STALL: " + what)
	os.Exit(3)
}

func (x *shSess) wait(what string) string {
	select {
	case m := <-x.sig:
		return m
	case <-time.After(30 * time.Second):
		stall(what)
	}
	return ""
}

// runShared negotiates all sessions of the scenario with the SAME feature list values. Every
// session runs in its own goroutine, but only one of them runs at a time: a session parks
// when it asks for its bind request and goes on when the schedule says so.
func runShared(v SharedVec) (diffs []string, obs vt.Ev) {
	diff := func(f string, a ...interface{}) { diffs = append(diffs, fmt.Sprintf(f, a...)) }
	n := len(v.In.Sess)
	sess := make([]*shSess, n)
	var mu sync.Mutex
	cur := -1 // the session whose step is running
	// the feature list values, built once
	lists := make([][]xmpp.StreamFeature, len(v.In.Feats))
	negs := make([]xmpp.Negotiator, len(v.In.Feats))
	var stray []string
	for f, kind := range v.In.Feats {
		f, kind := f, kind
		feat := feature(kind, func() jid.JID {
			mu.Lock()
			defer mu.Unlock()
			if cur >= 0 {
				return sess[cur].remote
			}
			return jid.JID{}
		}, func(c cbCall) {
			mu.Lock()
			defer mu.Unlock()
			if cur < 0 || v.In.Sess[cur].F-1 != f {
				stray = append(stray, fmt.Sprintf("the callback of feature value %d was called with (%q, %q) outside a bind of one of its sessions", f+1, c.remote, c.res))
				return
			}
			sess[cur].calls = append(sess[cur].calls, c)
		})
		list := []xmpp.StreamFeature{feat}
		lists[f] = list
		negs[f] = xmpp.NewNegotiator(func(*xmpp.Session, *xmpp.StreamConfig) xmpp.StreamConfig {
			return xmpp.StreamConfig{Features: list}
		})
	}
	for i := range sess {
		in := v.In.Sess[i]
		x := &shSess{conn: vt.NewConn(), sig: make(chan string, 1), resume: make(chan struct{})}
		x.remote = jid.MustParse(accounts[in.Acct])
		x.conn.Starve = func() {
			x.reads++
			switch x.reads {
			case 1:
				x.conn.FeedString(strings.Replace(clientHdr, "me@example.net", accounts[in.Acct], 1))
			case 2:
				x.sig <- "parked"
				<-x.resume
				x.mark = len(x.conn.WireString())
				x.conn.FeedString(bindRequest(str(in.ID), in.Res))
			default:
				x.conn.CloseIn()
			}
		}
		sess[i] = x
	}
	step := func(i int) {
		x := sess[i]
		mu.Lock()
		cur = i
		mu.Unlock()
		switch {
		case !x.started:
			x.started = true
			go func() {
				f := v.In.Sess[i].F - 1
				neg := negs[f]
				if v.In.Mode == "list" {
					list := lists[f]
					neg = xmpp.NewNegotiator(func(*xmpp.Session, *xmpp.StreamConfig) xmpp.StreamConfig {
						return xmpp.StreamConfig{Features: list}
					})
				}
				func() {
					defer func() { x.panicked = recover() }()
					x.s, x.err = xmpp.ReceiveSession(context.Background(), x.conn, xmpp.Secure|xmpp.Authn, neg)
				}()
				x.sig <- "done"
			}()
			x.parked = x.wait("a session neither asked for its bind request nor returned") == "parked"
		case x.parked:
			x.parked = false
			x.resume <- struct{}{}
			if x.wait("a session did not return after its bind request") != "done" {
				stall("a session asked for a second bind request")
			}
		}
		mu.Lock()
		cur = -1
		mu.Unlock()
	}
	for _, s := range v.In.Sched {
		step(s - 1)
	}
	for i, x := range sess { // (a schedule that does not let every session finish)
		if x.parked {
			step(i)
		}
	}
	// every session on its own
	per := make([]vt.Ev, n)
	assigned := make([]string, n)
	for i, x := range sess {
		if w := x.conn.WireString(); x.mark > 0 && x.mark <= len(w) {
			x.reply = w[x.mark:]
		}
		d, o, j := judgeRecv(CbOfKind(v.In.Feats[v.In.Sess[i].F-1]), v.Exp.Per[i], &x.recvRun)
		for _, t := range d {
			diff("session %d (%s, feature value %d): %s", i+1, x.remote, v.In.Sess[i].F, t)
		}
		o["assigned"] = j
		per[i], assigned[i] = o, j
	}
	for _, t := range stray {
		diff("%s", t)
	}
	// freshness across sessions, accounts and feature values (C12_BindFresh)
	for i := 0; i < n; i++ {
		for k := i + 1; k < n; k++ {
			if !v.Exp.Fresh[i] || !v.Exp.Fresh[k] || assigned[i] == "" || assigned[k] == "" {
				continue
			}
			ji, e1 := jid.Parse(assigned[i])
			jk, e2 := jid.Parse(assigned[k])
			if e1 != nil || e2 != nil {
				continue
			}
			if ji.Resourcepart() == jk.Resourcepart() {
				same := "different feature values"
				if v.In.Sess[i].F == v.In.Sess[k].F {
					same = "the same feature value"
				}
				diff("sessions %d and %d (%s) were assigned the same 'random' resourcepart: %q and %q - the resource is not fresh", i+1, k+1, same, assigned[i], assigned[k])
			}
		}
	}
	outcome := ""
	for _, o := range per {
		outcome += fmt.Sprint(o["outcome"]) + " "
	}
	return diffs, vt.Ev{"sessions": per, "outcome": strings.TrimSpace(outcome)}
}

// CbOfKind: BindCustom(nil) behaves like BindResource() (CbOf in Bind.tla).
func CbOfKind(kind string) string {
	if kind == "nil" {
		return "random"
	}
	return kind
}

// ---------------------------------------------------------------- main

func lines(path string, f func([]byte)) {
	fh, err := os.Open(path)
	if err != nil {
		panic(err)
	}
	defer fh.Close()
	sc := bufio.NewScanner(fh)
	sc.Buffer(make([]byte, 1<<20), 1<<24)
	for sc.Scan() {
		if len(strings.TrimSpace(sc.Text())) > 0 {
			f(sc.Bytes())
		}
	}
}

func main() {
	if len(os.Args) < 3 {
		fmt.Fprintln(os.Stderr, "usage: bind init|recv|shared <scenarios.ndjson>")
		os.Exit(2)
	}
	go func() {
		time.Sleep(10 * time.Minute)
		fmt.Println("STALL: bind driver still running after 10 minutes")
		os.Exit(3)
	}()
	sum := vt.Summary{Extra: map[string]interface{}{}}
	outcomes := map[string]int{}
	distinct := map[string]bool{}
	skipped, lineNo, sessions := 0, 0, 0
	byMode := map[string]int{}
	lines(os.Args[2], func(b []byte) {
		var diffs []string
		var obs vt.Ev
		var vec interface{}
		switch os.Args[1] {
		case "init":
			var v InitVec
			if err := json.Unmarshal(b, &v); err != nil {
				panic(err)
			}
			diffs, obs = runInit(v)
			if len(diffs) > 0 && !strings.HasPrefix(diffs[0], "SKIP") {
				if d2, _ := runInit(v); len(d2) == 0 {
					diffs = append(diffs, "NOT CONFIRMED by a second run")
				}
			}
			vec = v
		case "recv":
			var v RecvVec
			if err := json.Unmarshal(b, &v); err != nil {
				panic(err)
			}
			diffs, obs = runRecv(v)
			vec = v
		case "shared":
			var v SharedVec
			if err := json.Unmarshal(b, &v); err != nil {
				panic(err)
			}
			if v.In.Mode == "" {
				v.In.Mode = []string{"negotiator", "list"}[lineNo%2]
			}
			lineNo++
			diffs, obs = runShared(v)
			byMode[v.In.Mode]++
			sessions += len(v.In.Sess)
			vec = v
		default:
			os.Exit(2)
		}
		if len(diffs) == 1 && strings.HasPrefix(diffs[0], "SKIP") {
			skipped++
			return
		}
		sum.Evaluations++
		if o, ok := obs["outcome"].(string); ok {
			outcomes[o]++
		}
		k, _ := json.Marshal(obs)
		distinct[string(k)] = true
		if len(diffs) > 0 {
			sum.Mismatches = append(sum.Mismatches, vt.Ev{"vector": vec, "diffs": diffs, "observed": obs})
		} else if len(sum.Samples) < 2 && sum.Evaluations%97 == 5 {
			sum.Samples = append(sum.Samples, vt.Ev{"vector": vec, "observed": obs})
		}
	})
	sum.Extra["outcomes"] = outcomes
	sum.Extra["skipped_invalid_jid"] = skipped
	if os.Args[1] == "shared" {
		sum.Extra["sessions"] = sessions
		sum.Extra["by_mode"] = byMode
	}
	sum.Distinct = len(distinct)
	sum.Traces = sum.Evaluations
	sum.Print()
}
