package main

import (
	"bufio"
	"crypto/ecdsa"
	"crypto/elliptic"
	"crypto/rand"
	"crypto/tls"
	"crypto/x509"
	"crypto/x509/pkix"
	"encoding/pem"
	"errors"
	"fmt"
	"io"
	"log"
	"math/big"
	"net"
	"net/http"
	"os"
	"strings"
	"sync"
	"time"

	"golang.org/x/net/websocket"
)

// Names of the fake world. Every host name resolves to the one loopback address this
// process owns (127.a.b.c derived from the process id, so that parallel drivers do not
// meet); a candidate is identified by its port.
const (
	jidDomain    = "example.net"
	idnDomainU   = "bücher.example" // U-label form, as jid.JID stores it
	idnDomainA   = "xn--bcher-kva.example"
	serverName   = "connect.example.org" // the `server` argument of DialServer
	customName   = "custom.example"      // ServerName of the caller's own tls.Config
	customALPN   = "custom-proto"
	targetSuffix = ".hosts.example" // SRV targets t<id>.hosts.example
	wsSuffix     = ".web.example"   // WebSocket hosts w<id>.web.example
)

// pki is the throw-away certification authority of one driver process. The library's
// default tls.Config carries no RootCAs, so the authority reaches it as the "system" pool
// through SSL_CERT_FILE (set before anything touches crypto/x509's system roots).
type pki struct {
	pool      *x509.CertPool
	good, bad tls.Certificate
	caFile    string
}

func newPKI(dir string) (*pki, error) {
	caKey, err := ecdsa.GenerateKey(elliptic.P256(), rand.Reader)
	if err != nil {
		return nil, err
	}
	now := time.Now()
	caT := &x509.Certificate{
		SerialNumber: big.NewInt(1), Subject: pkix.Name{CommonName: "verif dial CA"},
		NotBefore: now.Add(-time.Hour), NotAfter: now.Add(48 * time.Hour),
		IsCA: true, BasicConstraintsValid: true, KeyUsage: x509.KeyUsageCertSign | x509.KeyUsageDigitalSignature,
	}
	caDER, err := x509.CreateCertificate(rand.Reader, caT, caT, &caKey.PublicKey, caKey)
	if err != nil {
		return nil, err
	}
	ca, _ := x509.ParseCertificate(caDER)
	leaf := func(serial int64, names ...string) (tls.Certificate, error) {
		k, err := ecdsa.GenerateKey(elliptic.P256(), rand.Reader)
		if err != nil {
			return tls.Certificate{}, err
		}
		t := &x509.Certificate{
			SerialNumber: big.NewInt(serial), Subject: pkix.Name{CommonName: names[0]}, DNSNames: names,
			NotBefore: now.Add(-time.Hour), NotAfter: now.Add(48 * time.Hour),
			KeyUsage: x509.KeyUsageDigitalSignature, ExtKeyUsage: []x509.ExtKeyUsage{x509.ExtKeyUsageServerAuth},
		}
		der, err := x509.CreateCertificate(rand.Reader, t, ca, &k.PublicKey, caKey)
		if err != nil {
			return tls.Certificate{}, err
		}
		return tls.Certificate{Certificate: [][]byte{der}, PrivateKey: k}, nil
	}
	p := &pki{pool: x509.NewCertPool()}
	p.pool.AddCert(ca)
	// the good certificate names the XMPP domains (never an SRV target or the DialServer
	// host): a handshake that verifies proves which name the client expected
	if p.good, err = leaf(2, jidDomain, idnDomainA, customName, "*"+wsSuffix); err != nil {
		return nil, err
	}
	if p.bad, err = leaf(3, "wrong.example"); err != nil {
		return nil, err
	}
	p.caFile = dir + "/dial-ca.pem"
	if err := os.WriteFile(p.caFile, pem.EncodeToMemory(&pem.Block{Type: "CERTIFICATE", Bytes: caDER}), 0o600); err != nil {
		return nil, err
	}
	os.Setenv("SSL_CERT_FILE", p.caFile)
	os.Setenv("SSL_CERT_DIR", dir+"/no-such-dir")
	return p, nil
}

// world is the environment of one scenario: listeners, what they saw, the event log.
type world struct {
	ip      string
	pki     *pki
	log     func(ev map[string]interface{})
	mu      sync.Mutex
	lns     []net.Listener
	srvs    []*http.Server
	conns   []net.Conn
	wg      sync.WaitGroup
	retCh   chan struct{} // closed when the call under test has returned
	onHello func(c int)   // cancellation trigger; may block until retCh
	// what the fake world calls things, for classifying what the servers see
	classSNI  func(string) string
	classALPN func([]string) string
}

func (w *world) track(c net.Conn) {
	w.mu.Lock()
	w.conns = append(w.conns, c)
	w.mu.Unlock()
}

func (w *world) listen(port int) (net.Listener, error) {
	ln, err := net.Listen("tcp4", fmt.Sprintf("%s:%d", w.ip, port))
	if err != nil {
		return nil, err
	}
	w.mu.Lock()
	w.lns = append(w.lns, ln)
	w.mu.Unlock()
	return ln, nil
}

func (w *world) tlsConfig(cand int, kind string) *tls.Config {
	return &tls.Config{
		MinVersion: tls.VersionTLS12,
		GetConfigForClient: func(chi *tls.ClientHelloInfo) (*tls.Config, error) {
			w.log(map[string]interface{}{"ev": "hello", "c": cand, "sni": w.classSNI(chi.ServerName), "alpn": w.classALPN(chi.SupportedProtos)})
			if w.onHello != nil {
				w.onHello(cand)
			}
			cfg := &tls.Config{MinVersion: tls.VersionTLS12}
			switch kind {
			case "tls":
				cfg.NextProtos = []string{"xmpp-client", "xmpp-server", customALPN}
				cfg.Certificates = []tls.Certificate{w.pki.good}
			case "ws", "nows":
				cfg.Certificates = []tls.Certificate{w.pki.good}
			case "tlsbad":
				cfg.Certificates = []tls.Certificate{w.pki.bad}
			default: // a server that does not speak TLS on this port
				return nil, errors.New("no TLS here")
			}
			return cfg, nil
		},
	}
}

// peekConn lets the server look at the first octet before deciding what it is talking to.
type peekConn struct {
	net.Conn
	r *bufio.Reader
}

func (p *peekConn) Read(b []byte) (int, error) { return p.r.Read(b) }

// serveXMPP starts the endpoint of an SRV / fallback candidate. kind: plain (accepts the
// TCP connection, answers the probe in the clear, fails a TLS handshake), tls (direct TLS
// with a certificate for the XMPP domain), tlsbad (direct TLS, certificate for another
// name). "refuse" and "nohost" have no listener.
func (w *world) serveXMPP(cand, port int, kind string) error {
	ln, err := w.listen(port)
	if err != nil {
		return err
	}
	w.wg.Add(1)
	go func() {
		defer w.wg.Done()
		for {
			c, err := ln.Accept()
			if err != nil {
				return
			}
			w.track(c)
			w.wg.Add(1)
			go func() {
				defer w.wg.Done()
				defer c.Close()
				pc := &peekConn{Conn: c, r: bufio.NewReader(c)}
				first, err := pc.r.Peek(1)
				if err != nil {
					return // closed without a word
				}
				var rw net.Conn = pc
				mode := "plain"
				if first[0] == 0x16 {
					tc := tls.Server(pc, w.tlsConfig(cand, kind))
					if tc.Handshake() != nil {
						return
					}
					rw, mode = tc, "tls"
				} else if kind != "plain" {
					return
				}
				line, err := bufio.NewReader(rw).ReadString('\n')
				if err != nil || strings.TrimSpace(line) != "PING" {
					return
				}
				fmt.Fprintf(rw, "CAND %d %s\n", cand, mode)
				buf := make([]byte, 64)
				for {
					if _, err := rw.Read(buf); err != nil {
						return
					}
				}
			}()
		}
	}()
	return nil
}

// serveWS starts a WebSocket endpoint. kind: ws (works), nows (HTTP answers, refuses the
// upgrade), tlsbad (certificate for another name); secure = wss.
func (w *world) serveWS(cand, port int, kind string, secure bool) error {
	ln, err := w.listen(port)
	if err != nil {
		return err
	}
	ws := websocket.Server{
		Handshake: func(cfg *websocket.Config, r *http.Request) error {
			ok := len(cfg.Protocol) == 1 && cfg.Protocol[0] == "xmpp"
			w.log(map[string]interface{}{"ev": "wsreq", "c": cand, "proto": ok})
			if kind == "nows" {
				return errors.New("no websocket here")
			}
			return nil
		},
		Handler: func(c *websocket.Conn) {
			var msg string
			if websocket.Message.Receive(c, &msg) != nil || msg != "PING" {
				return
			}
			mode := "plain"
			if secure {
				mode = "tls"
			}
			websocket.Message.Send(c, fmt.Sprintf("CAND %d %s", cand, mode))
			for websocket.Message.Receive(c, &msg) == nil {
			}
		},
	}
	srv := &http.Server{Handler: ws, ErrorLog: log.New(io.Discard, "", 0), ConnState: func(c net.Conn, st http.ConnState) {
		if st == http.StateNew {
			w.track(c)
		}
	}}
	w.mu.Lock()
	w.srvs = append(w.srvs, srv)
	w.mu.Unlock()
	w.wg.Add(1)
	go func() {
		defer w.wg.Done()
		if secure {
			srv.TLSConfig = w.tlsConfig(cand, kind)
			srv.TLSNextProto = map[string]func(*http.Server, *tls.Conn, http.Handler){} // no HTTP/2
			srv.ServeTLS(ln, "", "")
		} else {
			srv.Serve(ln)
		}
	}()
	return nil
}

// shutdown closes everything the scenario opened on the server side.
func (w *world) shutdown() {
	w.mu.Lock()
	lns, srvs, conns := w.lns, w.srvs, w.conns
	w.lns, w.srvs, w.conns = nil, nil, nil
	w.mu.Unlock()
	for _, s := range srvs {
		s.Close()
	}
	for _, l := range lns {
		l.Close()
	}
	for _, c := range conns {
		c.Close()
	}
	done := make(chan struct{})
	go func() { w.wg.Wait(); close(done) }()
	select {
	case <-done:
	case <-time.After(20 * time.Second):
	}
}
