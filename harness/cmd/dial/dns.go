package main

import (
	"context"
	"encoding/binary"
	"io"
	"net"
	"strings"
	"sync"

	"golang.org/x/net/dns/dnsmessage"
)

// fakeDNS is an in-process DNS server. The library reaches it through a
// net.Resolver{PreferGo: true, Dial: fakeDNS.Dial}: every "connection" of the resolver is
// one end of a net.Pipe whose other end is served here, speaking the DNS wire protocol in
// its stream framing (two length octets before each message; the Go resolver frames this
// way whenever the connection it was handed is not a net.PacketConn).
//
// The zone is replaced per scenario (answer); onQuery sees every question before it is
// answered (logging, cancellation triggers).
type fakeDNS struct {
	mu      sync.Mutex
	answer  func(q dnsmessage.Question) (dnsmessage.RCode, []dnsmessage.Resource)
	onQuery func(name string, t dnsmessage.Type)
	queries int
}

func (f *fakeDNS) resolver() *net.Resolver {
	return &net.Resolver{PreferGo: true, Dial: f.Dial}
}

// Dial is the net.Resolver hook.
func (f *fakeDNS) Dial(ctx context.Context, network, address string) (net.Conn, error) {
	c1, c2 := net.Pipe()
	go f.serve(c2)
	return c1, nil
}

func (f *fakeDNS) count() int {
	f.mu.Lock()
	defer f.mu.Unlock()
	return f.queries
}

func (f *fakeDNS) set(answer func(q dnsmessage.Question) (dnsmessage.RCode, []dnsmessage.Resource), onQuery func(string, dnsmessage.Type)) {
	f.mu.Lock()
	f.answer, f.onQuery = answer, onQuery
	f.mu.Unlock()
}

func (f *fakeDNS) serve(c net.Conn) {
	defer c.Close()
	for {
		var lb [2]byte
		if _, err := io.ReadFull(c, lb[:]); err != nil {
			return
		}
		buf := make([]byte, binary.BigEndian.Uint16(lb[:]))
		if _, err := io.ReadFull(c, buf); err != nil {
			return
		}
		var p dnsmessage.Parser
		h, err := p.Start(buf)
		if err != nil {
			return
		}
		qs, err := p.AllQuestions()
		if err != nil || len(qs) != 1 {
			return
		}
		q := qs[0]
		f.mu.Lock()
		answer, onQuery := f.answer, f.onQuery
		f.queries++
		f.mu.Unlock()
		if onQuery != nil {
			onQuery(strings.ToLower(q.Name.String()), q.Type)
		}
		rcode, res := dnsmessage.RCodeNameError, []dnsmessage.Resource(nil)
		if answer != nil {
			rcode, res = answer(q)
		}
		b := dnsmessage.NewBuilder(make([]byte, 2, 514), dnsmessage.Header{
			ID: h.ID, Response: true, Authoritative: true, RecursionDesired: h.RecursionDesired,
			RecursionAvailable: true, RCode: rcode,
		})
		b.EnableCompression()
		if b.StartQuestions() != nil || b.Question(q) != nil || b.StartAnswers() != nil {
			return
		}
		for _, r := range res {
			switch body := r.Body.(type) {
			case *dnsmessage.SRVResource:
				err = b.SRVResource(r.Header, *body)
			case *dnsmessage.AResource:
				err = b.AResource(r.Header, *body)
			}
			if err != nil {
				return
			}
		}
		out, err := b.Finish()
		if err != nil {
			return
		}
		binary.BigEndian.PutUint16(out[:2], uint16(len(out)-2))
		if _, err := c.Write(out); err != nil {
			return
		}
	}
}

func mustName(s string) dnsmessage.Name {
	if !strings.HasSuffix(s, ".") {
		s += "."
	}
	return dnsmessage.MustNewName(s)
}

func srvRR(q dnsmessage.Question, target string, port, prio, weight uint16) dnsmessage.Resource {
	return dnsmessage.Resource{
		Header: dnsmessage.ResourceHeader{Name: q.Name, Type: dnsmessage.TypeSRV, Class: dnsmessage.ClassINET, TTL: 60},
		Body:   &dnsmessage.SRVResource{Priority: prio, Weight: weight, Port: port, Target: mustName(target)},
	}
}

func aRR(q dnsmessage.Question, ip net.IP) dnsmessage.Resource {
	var a [4]byte
	copy(a[:], ip.To4())
	return dnsmessage.Resource{
		Header: dnsmessage.ResourceHeader{Name: q.Name, Type: dnsmessage.TypeA, Class: dnsmessage.ClassINET, TTL: 60},
		Body:   &dnsmessage.AResource{A: a},
	}
}
