// Command dial runs the library's endpoint discovery and connection establishment -
// dial.Dialer.Dial / DialServer and websocket.Dialer.Dial - against an in-process fake
// world and records one trace per scenario for validation against tla/Dial.tla
// (TrDial.tla).  (dial.Client / dial.Server look SRV records up with a nil *net.Resolver,
// which cannot be redirected in-process; they are one-line wrappers of Dialer.Dial.)
//
//   - DNS: a net.Resolver{PreferGo: true, Dial: ...} whose connections end in a fake server
//     speaking the DNS wire protocol (dns.go): SRV answers per service (records, ".",
//     NXDOMAIN, NODATA, SERVFAIL), A records mapping every name to this process's own
//     loopback address 127.a.b.c;
//   - endpoints: loopback TCP listeners on that address, one port per candidate (servers.go):
//     plain, direct TLS with a certificate for the XMPP domain, direct TLS with a wrong
//     certificate, WebSocket (ws / wss); a closed port stands for "connection refused";
//   - host-meta: an http.RoundTripper answering from memory;
//   - the net.Dialer's Control hook reports every socket the library creates and keeps its
//     RawConn, so that after the call every socket can be asked whether it is still open.
//
// Usage: dial run <scenarios.ndjson> <trace.ndjson>      env: DIAL_SHARD=i/n
package main

import (
	"bufio"
	"context"
	"crypto/tls"
	"encoding/json"
	"errors"
	"fmt"
	"io"
	"net"
	"net/http"
	"os"
	"strconv"
	"strings"
	"sync"
	"sync/atomic"
	"syscall"
	"time"

	"golang.org/x/net/dns/dnsmessage"
	xws "golang.org/x/net/websocket"

	"mellium.im/xmpp/dial"
	"mellium.im/xmpp/jid"
	"mellium.im/xmpp/websocket"

	"verifharness/vt"
)

type Rec struct {
	Prio   int    `json:"prio"`
	Weight int    `json:"weight"`
	Kind   string `json:"kind"`
}

type Answer struct {
	T    string `json:"t"` // nf nodata dot err recs
	Recs []Rec  `json:"recs"`
}

type Link struct {
	Rel    string `json:"rel"`    // ws bosh other
	Scheme string `json:"scheme"` // wss ws https bad
	Kind   string `json:"kind"`   // ws nows tlsbad refuse nohost
}

type Scenario struct {
	Via      string `json:"via"`   // srv | ws
	Entry    string `json:"entry"` // dial dialserver
	S2S      bool   `json:"s2s"`
	NoTLS    bool   `json:"notls"`
	NoLookup bool   `json:"nolookup"`
	TLSCfg   string `json:"tlscfg"` // default custom
	IDN      bool   `json:"idn"`
	DNS      struct {
		Xmpps Answer `json:"xmpps"`
		Xmpp  Answer `json:"xmpp"`
	} `json:"dns"`
	FB struct {
		Xmpps string `json:"xmpps"`
		Xmpp  string `json:"xmpp"`
	} `json:"fb"`
	Cancel struct {
		At string `json:"at"` // none srv host hello
		C  int    `json:"c"`
	} `json:"cancel"`
	Insecure bool   `json:"insecure"`
	Doc      string `json:"doc"` // ok empty illformed missing neterr
	Links    []Link `json:"links"`
}

func (sc *Scenario) normalize() {
	if sc.DNS.Xmpps.Recs == nil {
		sc.DNS.Xmpps.Recs = []Rec{}
	}
	if sc.DNS.Xmpp.Recs == nil {
		sc.DNS.Xmpp.Recs = []Rec{}
	}
	if sc.Links == nil {
		sc.Links = []Link{}
	}
}

// driver-wide state
var (
	ownIP   string
	thePKI  *pki
	queries int64
	stuckMu sync.Mutex
)

const (
	portBase = 7000
	watchdog = 40 * time.Second
)

func candOfPort(p int) int {
	switch p {
	case 5223, 5270:
		return 10
	case 5222, 5269:
		return 20
	}
	if p > portBase+10 && p < portBase+40 && p%10 != 0 {
		return p - portBase
	}
	return 0
}

// sockets the library created through the configured net.Dialer
type sock struct {
	cand int
	rc   syscall.RawConn
}

func (s sock) open() bool {
	return s.rc.Control(func(fd uintptr) {}) == nil
}

type run struct {
	sc     *Scenario
	w      *world
	log    *vt.Log
	mu     sync.Mutex
	socks  []sock
	seen   map[string]bool
	cancel context.CancelFunc
	fired  bool
	host   string // the name SRV records are looked up for / the fallback host (ASCII form)
	domA   string // the JID's domainpart, A-label form
}

func (r *run) ev(e map[string]interface{}) { r.log.Add(vt.Ev(e)) }

func (r *run) fire() {
	r.mu.Lock()
	f := r.fired
	r.fired = true
	r.mu.Unlock()
	if !f {
		r.ev(map[string]interface{}{"ev": "cancel"})
		r.cancel()
	}
}

func (r *run) control(network, address string, rc syscall.RawConn) error {
	host, ps, _ := net.SplitHostPort(address)
	p, _ := strconv.Atoi(ps)
	c := candOfPort(p)
	if host != ownIP {
		c = 0
	}
	r.mu.Lock()
	r.socks = append(r.socks, sock{c, rc})
	r.mu.Unlock()
	r.ev(map[string]interface{}{"ev": "connect", "c": c, "port": p})
	return nil
}

func kindOf(sc *Scenario, c int) string {
	switch {
	case c == 10:
		return sc.FB.Xmpps
	case c == 20:
		return sc.FB.Xmpp
	case c > 10 && c < 20 && c-10 <= len(sc.DNS.Xmpps.Recs):
		return sc.DNS.Xmpps.Recs[c-11].Kind
	case c > 20 && c < 30 && c-20 <= len(sc.DNS.Xmpp.Recs):
		return sc.DNS.Xmpp.Recs[c-21].Kind
	case c > 30 && c-30 <= len(sc.Links):
		return sc.Links[c-31].Kind
	}
	return "refuse"
}

func targetOf(c int) string {
	if c > 30 {
		return fmt.Sprintf("w%d%s", c, wsSuffix)
	}
	return fmt.Sprintf("t%d%s", c, targetSuffix)
}

var services = map[string][2]string{
	"_xmpps-client": {"xmpps", "client"}, "_xmpp-client": {"xmpp", "client"},
	"_xmpps-server": {"xmpps", "server"}, "_xmpp-server": {"xmpp", "server"},
}

func (r *run) domClass(d string) string {
	d = strings.TrimSuffix(d, ".")
	switch d {
	case r.domA:
		return "jid"
	case serverName:
		return "server"
	}
	return "other"
}

// onQuery sees every DNS question: logs SRV lookups (first occurrence: the resolver repeats
// a question after SERVFAIL) and A lookups of the names of this world, fires cancellation.
func (r *run) onQuery(name string, t dnsmessage.Type) {
	sc := r.sc
	switch t {
	case dnsmessage.TypeSRV:
		r.mu.Lock()
		dup := r.seen[name]
		r.seen[name] = true
		r.mu.Unlock()
		if dup {
			return
		}
		parts := strings.SplitN(name, ".", 3)
		svc, role, dom := "other", "other", "other"
		if len(parts) == 3 && parts[1] == "_tcp" {
			if s, ok := services[parts[0]]; ok {
				svc, role = s[0], s[1]
			}
			dom = r.domClass(parts[2])
		}
		if dom == "other" {
			return // not a name of this world (eg. a search-list variant the resolver tries after NXDOMAIN)
		}
		r.ev(map[string]interface{}{"ev": "lookup", "svc": svc, "role": role, "dom": dom})
		if sc.Cancel.At == "srv" {
			r.fire()
		}
	case dnsmessage.TypeA:
		n := strings.TrimSuffix(name, ".")
		h := -2
		switch {
		case n == r.host:
			h = 0
		case n == r.domA || n == serverName:
			h = -1 // a name of this world that is not the host to connect to
		case strings.HasSuffix(n, targetSuffix) || strings.HasSuffix(n, wsSuffix):
			h = -1
			if id, err := strconv.Atoi(strings.SplitN(n, ".", 2)[0][1:]); err == nil {
				h = id
			}
		}
		if h == -2 {
			return
		}
		// once the context is cancelled the resolver finishes (or starts) address lookups in the
		// background: their order means nothing any more
		r.mu.Lock()
		fired := r.fired
		r.mu.Unlock()
		if fired {
			return
		}
		r.ev(map[string]interface{}{"ev": "resolve", "h": h})
		if sc.Cancel.At == "host" && sc.Cancel.C == h {
			r.fire()
		}
	}
}

func (r *run) answer(q dnsmessage.Question) (dnsmessage.RCode, []dnsmessage.Resource) {
	sc := r.sc
	name := strings.ToLower(q.Name.String())
	n := strings.TrimSuffix(name, ".")
	ip := net.ParseIP(ownIP)
	known := func() (bool, bool) { // (name of this world, has an address)
		switch {
		case n == r.domA || n == serverName:
			return true, true
		case strings.HasSuffix(n, targetSuffix) || strings.HasSuffix(n, wsSuffix):
			id, err := strconv.Atoi(strings.SplitN(n, ".", 2)[0][1:])
			if err != nil {
				return false, false
			}
			return true, kindOf(sc, id) != "nohost"
		}
		return false, false
	}
	switch q.Type {
	case dnsmessage.TypeSRV:
		parts := strings.SplitN(n, ".", 3)
		if len(parts) != 3 || parts[1] != "_tcp" || parts[2] != r.host {
			return dnsmessage.RCodeNameError, nil
		}
		s, ok := services[parts[0]]
		if !ok {
			return dnsmessage.RCodeNameError, nil
		}
		a, base := sc.DNS.Xmpp, 20
		if s[0] == "xmpps" {
			a, base = sc.DNS.Xmpps, 10
		}
		switch a.T {
		case "nodata":
			return dnsmessage.RCodeSuccess, nil
		case "dot":
			return dnsmessage.RCodeSuccess, []dnsmessage.Resource{srvRR(q, ".", 0, 0, 0)}
		case "err":
			return dnsmessage.RCodeServerFailure, nil
		case "recs":
			var res []dnsmessage.Resource
			for i, rec := range a.Recs {
				id := base + i + 1
				res = append(res, srvRR(q, targetOf(id), uint16(portBase+id), uint16(rec.Prio), uint16(rec.Weight)))
			}
			return dnsmessage.RCodeSuccess, res
		}
		return dnsmessage.RCodeNameError, nil
	case dnsmessage.TypeA:
		if k, addr := known(); k && addr {
			return dnsmessage.RCodeSuccess, []dnsmessage.Resource{aRR(q, ip)}
		}
		return dnsmessage.RCodeNameError, nil
	default:
		if k, addr := known(); k && addr {
			return dnsmessage.RCodeSuccess, nil // NODATA: no IPv6 here
		}
		return dnsmessage.RCodeNameError, nil
	}
}

func errClass(err error) string {
	switch {
	case err == nil:
		return "none"
	case errors.Is(err, context.Canceled) || errors.Is(err, context.DeadlineExceeded):
		return "ctx"
	}
	return "other"
}

// probe talks over the connection the library returned: which endpoint is it, and did the
// endpoint see TLS? It proves that the connection is usable and identifies the candidate.
func probe(conn net.Conn, ws bool) (cand int, mode string) {
	conn.SetDeadline(time.Now().Add(20 * time.Second))
	var line string
	if ws {
		if _, err := conn.Write([]byte("PING")); err != nil {
			return 0, "none"
		}
		buf := make([]byte, 64)
		n, err := conn.Read(buf)
		if err != nil {
			return 0, "none"
		}
		line = string(buf[:n])
	} else {
		if _, err := io.WriteString(conn, "PING\n"); err != nil {
			return 0, "none"
		}
		l, err := bufio.NewReader(conn).ReadString('\n')
		if err != nil {
			return 0, "none"
		}
		line = l
	}
	f := strings.Fields(line)
	if len(f) != 3 || f[0] != "CAND" {
		return 0, "none"
	}
	cand, _ = strconv.Atoi(f[1])
	return cand, f[2]
}

func (r *run) customTLS() *tls.Config {
	return &tls.Config{ServerName: customName, NextProtos: []string{customALPN}, RootCAs: thePKI.pool, MinVersion: tls.VersionTLS12}
}

// leakWaits bounds the time the driver spends waiting for asynchronous closes.
var leakWaits int32

// leaks: candidates whose socket is still open after the call returned, the returned
// connection's own socket (one of candidate `ret`) excepted. A socket found open is given a
// moment (asynchronous close) before it counts - the first few times.
func (r *run) leaks(ret int) []int {
	deadline := time.Now().Add(2 * time.Second)
	if atomic.LoadInt32(&leakWaits) >= 5 {
		deadline = time.Now().Add(100 * time.Millisecond)
	}
	first := true
	for {
		r.mu.Lock()
		socks := append([]sock(nil), r.socks...)
		r.mu.Unlock()
		out := []int{}
		skipped := ret == 0
		for _, s := range socks {
			if !s.open() {
				continue
			}
			if !skipped && s.cand == ret {
				skipped = true
				continue
			}
			out = append(out, s.cand)
		}
		if len(out) == 0 || time.Now().After(deadline) {
			return out
		}
		if first {
			atomic.AddInt32(&leakWaits, 1)
			first = false
		}
		time.Sleep(20 * time.Millisecond)
	}
}

func runScenario(sc *Scenario) (evs []vt.Ev) {
	sc.normalize()
	r := &run{sc: sc, log: &vt.Log{StopAfter: "end"}, seen: map[string]bool{}}
	r.domA = jidDomain
	domU := jidDomain
	if sc.IDN {
		r.domA, domU = idnDomainA, idnDomainU
	}
	r.host = r.domA
	if sc.Entry == "dialserver" {
		r.host = serverName
	}
	w := &world{ip: ownIP, pki: thePKI, log: r.ev, retCh: make(chan struct{})}
	r.w = w
	w.classSNI = func(s string) string {
		switch {
		case s == "":
			return "none"
		case s == r.domA:
			return "jid"
		case s == domU:
			return "ulabel"
		case s == serverName:
			return "server"
		case s == customName:
			return "custom"
		case strings.HasSuffix(s, targetSuffix):
			return "target"
		case strings.HasSuffix(s, wsSuffix):
			return "host"
		}
		return "other"
	}
	w.classALPN = func(p []string) string {
		switch {
		case len(p) == 0:
			return "none"
		case len(p) == 1 && (p[0] == "xmpp-client" || p[0] == "xmpp-server"):
			return p[0]
		case len(p) == 1 && p[0] == customALPN:
			return "custom"
		}
		return "other"
	}
	if sc.Cancel.At == "hello" {
		w.onHello = func(c int) {
			if c == sc.Cancel.C {
				r.fire()
				select {
				case <-w.retCh:
				case <-time.After(watchdog):
				}
			}
		}
	}
	ctx, cancel := context.WithCancel(context.Background())
	r.cancel = cancel
	defer cancel()
	// a DNS server (and resolver) of its own for every scenario: the Go resolver finishes address
	// lookups of a cancelled call in the background; they must not reach a later scenario
	dns := &fakeDNS{answer: r.answer, onQuery: r.onQuery}
	defer func() { dns.set(nil, nil); atomic.AddInt64(&queries, int64(dns.count())) }()
	defer w.shutdown()

	fail := func(what string, err error) []vt.Ev {
		return []vt.Ev{{"ev": "harness", "what": what, "err": fmt.Sprint(err)}}
	}
	// endpoints
	start := func(c, port int, kind string) error {
		switch kind {
		case "plain", "tls", "tlsbad":
			return w.serveXMPP(c, port, kind)
		}
		return nil
	}
	if sc.Via == "srv" {
		for i, rec := range sc.DNS.Xmpps.Recs {
			if err := start(11+i, portBase+11+i, rec.Kind); err != nil {
				return fail("listen", err)
			}
		}
		for i, rec := range sc.DNS.Xmpp.Recs {
			if err := start(21+i, portBase+21+i, rec.Kind); err != nil {
				return fail("listen", err)
			}
		}
		// fallback endpoints on the default ports of the connection type; for s2s the direct
		// TLS fallback port is not fixed by any document: 5270 (the library's table) and 5223
		// are served alike
		fbs, fbp := []int{5223}, []int{5222}
		if sc.S2S {
			fbs, fbp = []int{5270, 5223}, []int{5269}
		}
		for _, p := range fbs {
			if err := start(10, p, sc.FB.Xmpps); err != nil {
				return fail("listen", err)
			}
		}
		for _, p := range fbp {
			if err := start(20, p, sc.FB.Xmpp); err != nil {
				return fail("listen", err)
			}
		}
	} else {
		for i, l := range sc.Links {
			if l.Rel == "ws" && (l.Scheme == "ws" || l.Scheme == "wss") && (l.Kind == "ws" || l.Kind == "nows" || l.Kind == "tlsbad") {
				if err := w.serveWS(31+i, portBase+31+i, l.Kind, l.Scheme == "wss"); err != nil {
					return fail("listen", err)
				}
			}
		}
	}

	j, err := jid.Parse("user@" + domU)
	if err != nil {
		return fail("jid", err)
	}
	nd := net.Dialer{Resolver: dns.resolver(), Control: r.control}
	var conn net.Conn
	var callErr error
	var panicked interface{}
	done := make(chan struct{})
	go func() {
		defer close(done)
		defer func() {
			if p := recover(); p != nil {
				panicked = p
			}
		}()
		if sc.Via == "ws" {
			d := websocket.Dialer{Origin: "http://localhost/", InsecureNoTLS: sc.Insecure, Dialer: &nd,
				Client: &http.Client{Transport: &hostMeta{r: r}}}
			if sc.TLSCfg == "custom" {
				d.TLSConfig = r.customTLS()
			}
			conn, callErr = d.Dial(ctx, j)
			return
		}
		d := dial.Dialer{Dialer: nd, NoLookup: sc.NoLookup, S2S: sc.S2S, NoTLS: sc.NoTLS}
		if sc.TLSCfg == "custom" {
			d.TLSConfig = r.customTLS()
		}
		switch sc.Entry {
		case "dialserver":
			conn, callErr = d.DialServer(ctx, "tcp", j, serverName)
		default:
			conn, callErr = d.Dial(ctx, "tcp", j)
		}
	}()
	select {
	case <-done:
	case <-time.After(watchdog):
		r.ev(map[string]interface{}{"ev": "stuck"})
		r.ev(map[string]interface{}{"ev": "end"})
		cancel()
		close(w.retCh)
		return r.log.Events()
	}
	close(w.retCh)
	if panicked != nil {
		r.ev(map[string]interface{}{"ev": "panic", "msg": fmt.Sprint(panicked)})
		r.ev(map[string]interface{}{"ev": "end"})
		return r.log.Events()
	}
	// a nil connection inside a non-nil interface counts as nil
	nilconn := conn == nil
	if c, ok := conn.(*xws.Conn); ok && c == nil {
		nilconn = true
	}
	retc, mode := 0, "none"
	contls := false
	if !nilconn {
		switch c := conn.(type) {
		case *tls.Conn:
			contls = true
		case *xws.Conn:
			contls = c.Config().Location.Scheme == "wss"
		}
		func() {
			defer func() { recover() }()
			retc, mode = probe(conn, sc.Via == "ws")
		}()
	}
	if os.Getenv("DIAL_DEBUG") != "" {
		fmt.Fprintf(os.Stderr, "DEBUG result conn=%T err=%v\n", conn, callErr)
	}
	r.ev(map[string]interface{}{"ev": "ret", "ok": callErr == nil, "nilconn": nilconn, "c": retc, "mode": mode, "contls": contls,
		"err": errClass(callErr), "leaks": r.leaks(retc)})
	if !nilconn {
		conn.Close()
	}
	r.ev(map[string]interface{}{"ev": "end"})
	return r.log.Events()
}

// hostMeta answers the Web Host Metadata request from memory.
type hostMeta struct{ r *run }

func (h *hostMeta) RoundTrip(req *http.Request) (*http.Response, error) {
	sc := h.r.sc
	ok := req.Method == "GET" && req.URL.Scheme == "https" && req.URL.Host == h.r.domA && req.URL.Path == "/.well-known/host-meta"
	h.r.ev(map[string]interface{}{"ev": "fetch", "ok": ok})
	if !ok {
		return nil, errors.New("no such server")
	}
	resp := func(code int, ct, body string) (*http.Response, error) {
		return &http.Response{StatusCode: code, Status: fmt.Sprintf("%d %s", code, http.StatusText(code)), Proto: "HTTP/1.1", ProtoMajor: 1, ProtoMinor: 1,
			Header: http.Header{"Content-Type": {ct}}, Body: io.NopCloser(strings.NewReader(body)), ContentLength: int64(len(body)), Request: req}, nil
	}
	switch sc.Doc {
	case "neterr":
		return nil, errors.New("connection refused")
	case "missing":
		return resp(404, "text/plain; charset=utf-8", "404 page not found\n")
	case "illformed":
		return resp(200, "application/xrd+xml", "<?xml version='1.0' encoding='utf-8'?>\n<XRD xmlns='http://docs.oasis-open.org/ns/xri/xrd-1.0'>\n<Link rel='urn:xmpp:alt-connections:websocket' href='wss://w31.web.example:7031/ws'>\n</XRD>\n")
	}
	var b strings.Builder
	b.WriteString("<?xml version='1.0' encoding='utf-8'?>\n<XRD xmlns='http://docs.oasis-open.org/ns/xri/xrd-1.0'>\n")
	if sc.Doc != "empty" {
		for i, l := range sc.Links {
			rel := map[string]string{"ws": "urn:xmpp:alt-connections:websocket", "bosh": "urn:xmpp:alt-connections:xbosh"}[l.Rel]
			if rel == "" {
				rel = "lrdd"
			}
			id := 31 + i
			href := fmt.Sprintf("%s://%s:%d/ws", l.Scheme, targetOf(id), portBase+id)
			if l.Scheme == "bad" {
				href = "://not a url"
			}
			fmt.Fprintf(&b, "  <Link rel='%s' href='%s'/>\n", rel, href)
		}
	}
	b.WriteString("</XRD>\n")
	return resp(200, "application/xrd+xml", b.String())
}

// preflight: nothing else may answer on this process's address (a wildcard listener of
// another process would turn "refused" into "accepted").
func preflight() error {
	for _, p := range []int{5222, 5223, 5269, 5270, portBase + 11, portBase + 12, portBase + 13, portBase + 21, portBase + 22, portBase + 23,
		portBase + 31, portBase + 32, portBase + 33, portBase + 34, portBase + 35} {
		c, err := net.DialTimeout("tcp4", fmt.Sprintf("%s:%d", ownIP, p), 5*time.Second)
		if err == nil {
			c.Close()
			return fmt.Errorf("port %d on %s is answered by somebody else", p, ownIP)
		}
	}
	return nil
}

func main() {
	if len(os.Args) < 4 || os.Args[1] != "run" {
		fmt.Fprintln(os.Stderr, "usage: dial run <scenarios.ndjson> <trace.ndjson>")
		os.Exit(2)
	}
	pid := os.Getpid()
	ownIP = fmt.Sprintf("127.%d.%d.%d", 1+(pid/254/256)%126, (pid/254)%256, pid%254+1)
	dir, err := os.MkdirTemp("", "dial-pki-")
	if err != nil {
		fmt.Println("HARNESS", err)
		os.Exit(3)
	}
	defer os.RemoveAll(dir)
	if thePKI, err = newPKI(dir); err != nil {
		fmt.Println("HARNESS pki:", err)
		os.Exit(3)
	}
	if err := preflight(); err != nil {
		fmt.Println("HARNESS preflight:", err)
		os.RemoveAll(dir)
		os.Exit(3)
	}
	shard, nshards := 0, 1
	if s := os.Getenv("DIAL_SHARD"); s != "" {
		fmt.Sscanf(s, "%d/%d", &shard, &nshards)
	}
	f, err := os.Open(os.Args[2])
	if err != nil {
		fmt.Println("HARNESS", err)
		os.Exit(3)
	}
	tw, err := vt.NewTraceWriter(os.Args[3])
	if err != nil {
		fmt.Println("HARNESS", err)
		os.Exit(3)
	}
	s := bufio.NewScanner(f)
	s.Buffer(make([]byte, 1<<20), 1<<24)
	sum := vt.Summary{Extra: map[string]interface{}{}}
	stuck, harness := 0, 0
	for i := 0; s.Scan(); i++ {
		if i%nshards != shard || len(strings.TrimSpace(s.Text())) == 0 {
			continue
		}
		var sc Scenario
		if err := json.Unmarshal(s.Bytes(), &sc); err != nil {
			fmt.Println("HARNESS bad scenario:", err)
			os.Exit(3)
		}
		sc.normalize()
		evs := runScenario(&sc)
		for _, e := range evs {
			switch e["ev"] {
			case "stuck":
				stuck++
			case "harness":
				harness++
				fmt.Println("HARNESS", e["what"], e["err"])
			}
		}
		var reset vt.Ev
		b, _ := json.Marshal(sc)
		json.Unmarshal(b, &reset)
		tw.Write(reset, evs)
		tw.Meta(map[string]interface{}{"scenario": sc, "index": i})
		sum.Evaluations++
		if len(sum.Samples) < 2 {
			sum.Samples = append(sum.Samples, map[string]interface{}{"scenario": sc, "events": evs})
		}
	}
	tw.Close()
	os.RemoveAll(dir)
	sum.Traces, sum.Events = tw.Counts()
	sum.Extra["stuck"] = stuck
	sum.Extra["harness"] = harness
	sum.Extra["dns_queries"] = atomic.LoadInt64(&queries)
	sum.Print()
	if harness > 0 {
		os.Exit(3)
	}
}
