// Command receipts drives the real receipts.Handler on one really served session against a
// scripted peer and records one trace per schedule for validation against tla/TrReceipts.tla
// (delivery-receipts part of C06).
//
// A scenario is an ordered script of environment steps: calls of SendMessageElement (one per
// message id), cancellations, receipts sent by the peer (for an id of a call or an unknown
// one), and closing the output stream (later sends fail); "nounh" selects the handler's default
// configuration (no Unhandled callback).  Mode "seq" takes every step at
// quiescence; mode "explore" interleaves the goroutines at the yield points of package
// receipts (after the handler's table lookup, before the caller's select) and at call starts,
// depth-first with a pre-emption bound; script steps keep their order.
//
//	receipts run <scenarios.ndjson> <trace.ndjson>    env: RCPT_MAXPRE, RCPT_MAXRUNS, RCPT_SHARD=i/n
package main

import (
	"bufio"
	"context"
	"encoding/json"
	"encoding/xml"
	"errors"
	"fmt"
	"io"
	"os"
	"regexp"
	"runtime"
	"sort"
	"strconv"
	"strings"
	"sync"
	"sync/atomic"
	"time"

	"mellium.im/xmlstream"
	"mellium.im/xmpp"
	"mellium.im/xmpp/jid"
	"mellium.im/xmpp/mux"
	"mellium.im/xmpp/receipts"
	"mellium.im/xmpp/stanza"
	"mellium.im/xmpp/stream"

	"verifharness/vt"
)

// Step is one environment step.
type Step struct {
	Op string `json:"op"` // call cancel peer closeout
	ID string `json:"id"`
}

type Scenario struct {
	Steps []Step `json:"steps"`
	Mode  string `json:"mode"` // seq | explore
	// NoUnh: the handler is the default &receipts.Handler{} (no Unhandled callback)
	NoUnh   bool  `json:"nounh,omitempty"`
	Choices []int `json:"choices,omitempty"`
	Fixed   bool  `json:"fixed,omitempty"`
}

const hdrIn = `<stream:stream from="example.net" to="me@example.net" id="123" version="1.0" xmlns="jabber:client" xmlns:stream="http://etherx.jabber.org/streams">`

func nopNeg(ns string) xmpp.Negotiator {
	return func(ctx context.Context, in, out *stream.Info, s *xmpp.Session, data interface{}) (xmpp.SessionState, io.ReadWriter, interface{}, error) {
		rc := s.TokenReader()
		defer rc.Close()
		for {
			tok, err := rc.Token()
			if err != nil {
				return 0, nil, nil, err
			}
			if st, ok := tok.(xml.StartElement); ok {
				if err := in.FromStartElement(st); err != nil {
					return 0, nil, nil, err
				}
				break
			}
		}
		out.XMLNS = ns
		return xmpp.Ready, nil, nil, nil
	}
}

type result struct {
	evs  []vt.Ev
	res  vt.RunResult
	note string
}

var reqRe = regexp.MustCompile(`<message[^>]*\sid=["'](m\d+)["']`)

func runSchedule(sc Scenario, choices []int) result {
	lg := &vt.Log{}
	conn := vt.NewConn()
	conn.FeedString(hdrIn)
	sess, err := xmpp.NewSession(context.Background(), jid.MustParse("example.net"), jid.MustParse("me@example.net"), conn, 0, nopNeg(stanza.NSClient))
	if err != nil {
		panic(err)
	}
	sched := vt.NewSched()
	explore := sc.Mode == "explore"
	spawn := sched.Go
	if !explore {
		sched.Enabled = false
		spawn = func(name string, f func()) { go f() }
	}
	// the configuration of the handler: with the optional Unhandled callback, or the default
	// zero value without it
	h := &receipts.Handler{Unhandled: func(id string) { lg.Add(vt.Ev{"ev": "unhandled", "id": id}) }}
	if sc.NoUnh {
		h = &receipts.Handler{}
	}
	m := mux.New(stanza.NSClient, receipts.Handle(h))
	if explore {
		setRcptHook(func(point, id string) {
			if !sched.Mine() {
				return
			}
			sched.Gate(point)
		})
		defer setRcptHook(nil)
		// the window between "the message is on the wire" and whatever the sender does next
		conn.GateWritten = func() {
			if sched.Mine() {
				sched.Gate("conn.written")
			}
		}
	}
	var wire []byte
	seen := map[string]bool{}
	conn.React = func(p []byte) {
		wire = append(wire, p...)
		for _, mm := range reqRe.FindAllSubmatch(wire, -1) {
			c := string(mm[1])
			if !seen[c] {
				seen[c] = true
				lg.Add(vt.Ev{"ev": "wire", "i": c})
			}
		}
	}
	sentIDs := map[string]string{} // stanza id of the peer's message -> receipt id
	var served atomic.Bool
	handler := xmpp.HandlerFunc(func(t xmlstream.TokenReadEncoder, start *xml.StartElement) (err error) {
		sid := ""
		for _, a := range start.Attr {
			if a.Name.Local == "id" {
				sid = a.Value
			}
		}
		defer func() {
			if p := recover(); p != nil {
				lg.Add(vt.Ev{"ev": "panic", "who": "handler", "text": fmt.Sprint(p)})
				err = nil
				return
			}
			lg.Add(vt.Ev{"ev": "handled", "id": sentIDs[sid]})
		}()
		return m.HandleXMPP(t, start)
	})
	spawn("s", func() {
		err := sess.Serve(handler)
		e := vt.Ev{"ev": "serve_ret", "err": ""}
		if err != nil {
			e["err"] = err.Error()
		}
		lg.Add(e)
		served.Store(true)
	})
	ctxs := map[string]context.Context{}
	cancels := map[string]context.CancelFunc{}
	var mu sync.Mutex // guards done (written by the call goroutines)
	done := map[string]bool{}
	isDone := func(c string) bool {
		mu.Lock()
		defer mu.Unlock()
		return done[c]
	}
	cancd := map[string]bool{}
	next, nsent := 0, 0
	ending := false
	peerJID := jid.MustParse("peer@example.net/x")
	doEnv := func() {
		st := sc.Steps[next]
		next++
		switch st.Op {
		case "call":
			id := st.ID
			ctx, cancel := context.WithCancel(context.Background())
			ctxs[id], cancels[id] = ctx, cancel
			lg.Add(vt.Ev{"ev": "call", "i": id})
			spawn(id, func() {
				var err error
				func() {
					defer func() {
						if p := recover(); p != nil {
							err = fmt.Errorf("panic: %v", p)
						}
					}()
					err = h.SendMessageElement(ctx, sess, nil, stanza.Message{ID: id, To: peerJID, Type: stanza.ChatMessage})
				}()
				e := vt.Ev{"ev": "ret", "i": id, "o": "ok"}
				switch {
				case err == nil:
				case strings.HasPrefix(err.Error(), "panic: "):
					e["o"], e["text"] = "panic", err.Error()
				case errors.Is(err, context.Canceled):
					e["o"] = "ctx"
				case errors.Is(err, xmpp.ErrOutputStreamClosed):
					e["o"] = "senderr"
				default:
					e["o"], e["text"] = "other", err.Error()
				}
				mu.Lock()
				done[id] = true
				mu.Unlock()
				lg.Add(e)
			})
		case "cancel":
			if cancels[st.ID] == nil {
				return
			}
			cancd[st.ID] = true
			lg.Add(vt.Ev{"ev": "cancel", "i": st.ID})
			cancels[st.ID]()
		case "peer":
			nsent++
			sid := "s" + strconv.Itoa(nsent)
			sentIDs[sid] = st.ID
			lg.Add(vt.Ev{"ev": "peer", "id": st.ID})
			conn.FeedString(fmt.Sprintf("<message from='peer@example.net/x' to='me@example.net' id='%s' type='chat'><received xmlns='urn:xmpp:receipts' id='%s'/></message>", sid, st.ID))
		case "closeout":
			lg.Add(vt.Ev{"ev": "closeout"})
			sess.Close()
		}
	}

	var res vt.RunResult
	note := ""
	last := ""
	stage := 0
	progress, quietAt := 0, -1
	for step := 0; ; step++ {
		var opts []vt.Option
		if explore {
			opts = sched.Options()
		} else {
			quiesce()
		}
		var list []vt.Option
		for _, o := range opts {
			if o.Name == last {
				list = append([]vt.Option{o}, list...)
			} else {
				list = append(list, o)
			}
		}
		if len(list) == 0 && progress != quietAt {
			lg.Add(vt.Ev{"ev": "quiet"})
			quietAt = progress
		}
		envOK := next < len(sc.Steps) && !ending
		hasEnv := envOK && (explore || len(list) == 0)
		n := len(list)
		if hasEnv {
			n++
		}
		if n == 0 {
			stage++
			progress++
			ending = true
			switch stage {
			case 1:
				var cs []string
				for c := range cancels {
					if !isDone(c) && !cancd[c] {
						cs = append(cs, c)
					}
				}
				sort.Strings(cs)
				for _, c := range cs {
					cancd[c] = true
					lg.Add(vt.Ev{"ev": "cancel", "i": c})
					cancels[c]()
				}
				step--
				continue
			case 2:
				conn.CloseIn()
				step--
				continue
			}
			if !served.Load() {
				note = "stuck"
			}
			for c := range cancels {
				if !isDone(c) {
					note = "stuck"
				}
			}
			break
		}
		pre := make([]bool, n)
		if len(list) > 0 && list[0].Name == last {
			for i := 1; i < n; i++ {
				pre[i] = true
			}
		}
		res.NOpts = append(res.NOpts, n)
		res.Preempt = append(res.Preempt, pre)
		ch := 0
		if step < len(choices) {
			ch = choices[step]
		}
		if ch >= n {
			ch = 0
		}
		progress++
		if ch < len(list) {
			last = list[ch].Name
			sched.Take(list[ch])
		} else {
			last = "env"
			doEnv()
		}
		if step > 800 {
			note = "runaway"
			break
		}
	}
	if note == "stuck" {
		var bl []string
		if !served.Load() {
			bl = append(bl, "serve loop")
		}
		for c := range cancels {
			if !isDone(c) {
				bl = append(bl, "call "+c)
			}
		}
		sort.Strings(bl)
		lg.Add(vt.Ev{"ev": "stuck", "blocked": strings.Join(bl, ", ") + " (after every context was cancelled and the peer ended its stream)"})
	}
	lg.Add(vt.Ev{"ev": "end"})
	sched.Stop()
	for _, c := range cancels {
		c()
	}
	conn.CloseIn()
	sess.Close()
	conn.Close()
	return result{evs: lg.Events(), res: res, note: note}
}

var stRe = regexp.MustCompile(`(?m)^goroutine (\d+) \[([^\],]+)`)
var stackBuf = make([]byte, 1<<20)

func blockedStatus(st string) bool {
	switch st {
	case "chan receive", "chan send", "select", "select (no cases)", "chan receive (nil chan)",
		"chan send (nil chan)", "sync.Mutex.Lock", "sync.RWMutex.RLock", "sync.RWMutex.Lock",
		"semacquire", "sync.Cond.Wait", "sync.WaitGroup.Wait", "IO wait", "finalizer wait",
		"GC worker (idle)", "GC sweep wait", "GC scavenge wait", "force gc (idle)", "debug call",
		"trace reader (blocked)", "cleanup wait":
		return true
	}
	return false
}

// quiesce waits until every goroutine of the process other than the caller is blocked on a
// Go primitive (or gone), unchanged over three consecutive looks.  No library code under
// test uses timers, so once everybody else is blocked only the caller can make them move.
func quiesce() {
	self := ""
	stable := 0
	prev := ""
	deadline := time.Now().Add(5 * time.Second)
	for {
		n := runtime.Stack(stackBuf, true)
		quiet := true
		var sig []string
		for i, x := range stRe.FindAllSubmatch(stackBuf[:n], -1) {
			if i == 0 && self == "" {
				self = string(x[1]) // the calling goroutine is listed first
			}
			if string(x[1]) == self {
				continue
			}
			if !blockedStatus(string(x[2])) {
				quiet = false
			}
			sig = append(sig, string(x[1])+string(x[2]))
		}
		sort.Strings(sig)
		cur := strings.Join(sig, ",")
		if quiet && cur == prev {
			stable++
			if stable >= 3 {
				return
			}
		} else {
			stable = 0
		}
		prev = cur
		if time.Now().After(deadline) {
			return
		}
		for k := 0; k < 20; k++ {
			runtime.Gosched()
		}
	}
}

func main() {
	if len(os.Args) < 4 || os.Args[1] != "run" {
		fmt.Fprintln(os.Stderr, "usage: receipts run <scenarios.ndjson> <trace.ndjson>")
		os.Exit(2)
	}
	f, err := os.Open(os.Args[2])
	if err != nil {
		panic(err)
	}
	var scs []Scenario
	rd := bufio.NewScanner(f)
	rd.Buffer(make([]byte, 1<<20), 1<<24)
	for rd.Scan() {
		var s Scenario
		if err := json.Unmarshal(rd.Bytes(), &s); err != nil {
			panic(err)
		}
		scs = append(scs, s)
	}
	f.Close()
	maxPre := 1
	if v := os.Getenv("RCPT_MAXPRE"); v != "" {
		maxPre, _ = strconv.Atoi(v)
	}
	maxRuns, _ := strconv.Atoi(os.Getenv("RCPT_MAXRUNS"))
	shard, nshard := 0, 1
	if s := os.Getenv("RCPT_SHARD"); s != "" {
		fmt.Sscanf(s, "%d/%d", &shard, &nshard)
	}
	tw, err := vt.NewTraceWriter(os.Args[3])
	if err != nil {
		panic(err)
	}
	runs, stuck := 0, 0
	distinct := map[string]bool{}
	var samples []interface{}
	for si, sc := range scs {
		if si%nshard != shard {
			continue
		}
		var last result
		one := func(choices []int) bool {
			runs++
			if last.note == "stuck" {
				stuck++
			}
			key, _ := json.Marshal(last.evs)
			k := strconv.Itoa(si) + string(key)
			if distinct[k] {
				return true
			}
			distinct[k] = true
			if choices == nil {
				choices = []int{}
			}
			t := tw.Write(vt.Ev{"unh": !sc.NoUnh}, last.evs)
			tw.Meta(vt.Ev{"scenario": sc, "choices": choices, "note": last.note})
			if len(samples) < 2 && len(last.evs) > 6 {
				samples = append(samples, vt.Ev{"t": t, "scenario": sc, "choices": choices, "events": last.evs})
			}
			return true
		}
		if sc.Mode == "explore" && sc.Fixed {
			last = runSchedule(sc, sc.Choices)
			one(sc.Choices)
		} else if sc.Mode == "explore" {
			vt.Explore(func(choices []int) vt.RunResult {
				last = runSchedule(sc, choices)
				return last.res
			}, maxPre, maxRuns, one)
		} else {
			last = runSchedule(sc, nil)
			one(nil)
		}
	}
	if err := tw.Close(); err != nil {
		panic(err)
	}
	tr, ev := tw.Counts()
	vt.Summary{Traces: tr, Events: ev, Evaluations: runs, Distinct: len(distinct), Samples: samples,
		Extra: map[string]interface{}{"stuck": stuck, "hooks": hooksOn}}.Print()
}
