//go:build rcpthooks

package main

import "mellium.im/xmpp/receipts"

// hooksOn: the tree under test carries the yield points of proposed-hooks/receipts.diff.
const hooksOn = true

func setRcptHook(f func(point, id string)) { receipts.VerifHook = f }
