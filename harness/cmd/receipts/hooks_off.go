//go:build !rcpthooks

package main

// hooksOn is false when the tree under test has no yield points in package receipts: the
// window between the handler's table lookup and its channel send is then not forced.
const hooksOn = false

func setRcptHook(f func(point, id string)) {}
