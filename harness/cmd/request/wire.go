package main

import (
	"encoding/xml"
	"io"
	"strings"

	"verifharness/vt"
)

// ---------------------------------------------------------------------------------- wire tap
//
// Everything the library writes is looked at as a sequence of complete top-level elements of
// the output stream (never per transport write: a refactoring that flushes more often must
// not change what the tap sees).

type node struct {
	Name xml.Name
	Attr map[string]string
	Kids []*node
	Text string
}

func (n *node) kid(local string) *node {
	for _, k := range n.Kids {
		if k.Name.Local == local {
			return k
		}
	}
	return nil
}

func (n *node) kidNames() []string {
	r := []string{}
	for _, k := range n.Kids {
		r = append(r, k.Name.Local)
	}
	return r
}

const streamNS = "http://etherx.jabber.org/streams"
const fakeRoot = `<stream:stream xmlns="jabber:client" xmlns:stream="` + streamNS + `">`

// parseTop returns the complete top-level elements at the start of buf, the number of bytes they
// take, and whether the closing stream tag follows them.
func parseTop(buf []byte) (els []*node, used int, closed bool, bad string) {
	d := xml.NewDecoder(io.MultiReader(strings.NewReader(fakeRoot), strings.NewReader(string(buf))))
	var stack []*node
	rootSeen := false
	for {
		tok, err := d.Token()
		if err != nil {
			if err != io.EOF && !strings.Contains(err.Error(), "unexpected EOF") {
				bad = err.Error()
			}
			return
		}
		switch t := tok.(type) {
		case xml.StartElement:
			if !rootSeen {
				rootSeen = true
				continue
			}
			n := &node{Name: t.Name, Attr: map[string]string{}}
			for _, a := range t.Attr {
				if a.Name.Space == "xmlns" || a.Name.Local == "xmlns" {
					continue
				}
				n.Attr[a.Name.Local] = a.Value
			}
			if len(stack) > 0 {
				p := stack[len(stack)-1]
				p.Kids = append(p.Kids, n)
			}
			stack = append(stack, n)
		case xml.EndElement:
			if len(stack) == 0 {
				closed = true
				return
			}
			n := stack[len(stack)-1]
			stack = stack[:len(stack)-1]
			if len(stack) == 0 {
				els = append(els, n)
				used = int(d.InputOffset()) - len(fakeRoot)
			}
		case xml.CharData:
			if len(stack) > 0 {
				stack[len(stack)-1].Text += string(t)
			} else if strings.TrimSpace(string(t)) == "" {
				used = int(d.InputOffset()) - len(fakeRoot)
			}
		}
	}
}

// formSummary is the symbolic form of a data form on the wire: "x", its type, then "field", var, values... per field.
func formSummary(x *node) []string {
	r := []string{"x", x.Attr["type"]}
	for _, f := range x.Kids {
		if f.Name.Local != "field" {
			r = append(r, "?"+f.Name.Local)
			continue
		}
		r = append(r, "field", f.Attr["var"])
		for _, v := range f.Kids {
			if v.Name.Local == "value" {
				r = append(r, v.Text)
			}
		}
	}
	return r
}

func firstForm(n *node) []string {
	for _, k := range n.Kids {
		if k.Name.Local == "x" && k.Name.Space == "jabber:x:data" {
			return formSummary(k)
		}
	}
	return []string{}
}

// reqArgs is what the payload of a request DENOTES, per namespace: the arguments the helper was
// given must be found in it (R1).  Unknown content shows up as "?name" entries.
func reqArgs(pl *node) []string {
	a := []string{}
	switch pl.Name.Space {
	case "urn:xmpp:ping", "jabber:iq:version", "urn:xmpp:time", "urn:xmpp:carbons:2":
		a = pl.kidNames()
	case "http://jabber.org/protocol/disco#info":
		a = append([]string{pl.Attr["node"]}, pl.kidNames()...)
	case "urn:xmpp:http:upload:0":
		a = []string{pl.Attr["filename"], pl.Attr["size"], pl.Attr["content-type"]}
	case "urn:xmpp:bob":
		a = []string{pl.Attr["cid"]}
	case "jabber:iq:roster":
		for _, it := range pl.Kids {
			a = append(a, it.Name.Local, it.Attr["jid"], it.Attr["name"], it.Attr["subscription"], "groups")
			for _, g := range it.Kids {
				if g.Name.Local == "group" {
					a = append(a, g.Text)
				} else {
					a = append(a, "?"+g.Name.Local)
				}
			}
		}
	case "urn:xmpp:blocking":
		for _, it := range pl.Kids {
			a = append(a, it.Name.Local, it.Attr["jid"])
			if rep := it.kid("report"); rep != nil {
				a = append(a, "report", rep.Attr["reason"], "ids")
				for _, k := range rep.Kids {
					if k.Name.Local == "stanza-id" {
						a = append(a, k.Attr["id"], k.Attr["by"])
					}
				}
				txt := ""
				if t := rep.kid("text"); t != nil {
					txt = t.Text
				}
				a = append(a, "text", txt)
			}
		}
	case "http://jabber.org/protocol/pubsub":
		for _, op := range pl.Kids {
			switch op.Name.Local {
			case "publish":
				a = append(a, "publish", op.Attr["node"])
				for _, it := range op.Kids {
					a = append(a, it.Name.Local, it.Attr["id"])
					for _, p := range it.Kids {
						a = append(a, p.Name.Local, p.Name.Space)
						if p.Name.Local == "conference" {
							nick, pw := "", ""
							if k := p.kid("nick"); k != nil {
								nick = k.Text
							}
							if k := p.kid("password"); k != nil {
								pw = k.Text
							}
							a = append(a, p.Attr["name"], xsBool(p.Attr["autojoin"]), nick, pw)
						} else {
							a = append(a, p.Text)
						}
					}
				}
			case "retract":
				a = append(a, "retract", op.Attr["node"], xsBool(op.Attr["notify"]))
				for _, it := range op.Kids {
					a = append(a, it.Name.Local, it.Attr["id"])
				}
			case "create":
				a = append(a, "create", op.Attr["node"])
			case "configure":
				a = append(a, "configure")
				a = append(a, firstForm(op)...)
			default:
				a = append(a, "?"+op.Name.Local)
			}
		}
	case "http://jabber.org/protocol/pubsub#owner":
		for _, op := range pl.Kids {
			switch op.Name.Local {
			case "configure":
				a = append(a, "configure", op.Attr["node"])
				a = append(a, firstForm(op)...)
			case "default":
				a = append(a, "default")
				a = append(a, op.kidNames()...)
			default:
				a = append(a, "?"+op.Name.Local)
			}
		}
	case "http://jabber.org/protocol/muc#owner":
		a = firstForm(pl)
		for _, k := range pl.Kids {
			if k.Name.Local != "x" {
				a = append(a, "?"+k.Name.Local)
			}
		}
	default:
		a = append(a, "?")
	}
	return a
}

// describe turns a top-level element the library wrote into a trace event: "req" for an IQ
// request (get / set), "wire" for anything else.
func describe(n *node) vt.Ev {
	typ := n.Attr["type"]
	if n.Name.Local == "iq" && n.Name.Space == "jabber:client" && (typ == "get" || typ == "set") {
		e := vt.Ev{"ev": "req", "typ": typ, "to": n.Attr["to"], "id": n.Attr["id"], "pl": "", "ns": "", "a": []string{}, "npl": len(n.Kids)}
		if len(n.Kids) > 0 {
			pl := n.Kids[0]
			e["pl"], e["ns"], e["a"] = pl.Name.Local, pl.Name.Space, reqArgs(pl)
		}
		return e
	}
	return vt.Ev{"ev": "wire", "st": n.Name.Local, "typ": typ, "id": n.Attr["id"]}
}

// xsBool normalises an xs:boolean attribute (absent = false).
func xsBool(v string) string {
	switch v {
	case "1", "true":
		return "true"
	case "", "0", "false":
		return "false"
	}
	return "?" + v
}
