// Command request drives the one-shot request/response helpers of mellium.im/xmpp (family "request",
// check XREQ; specification tla/Request.tla): ping.Send, version.Get, xtime.Get, disco.GetInfo,
// upload.GetSlot, carbons.Enable / Disable, roster.Set / Delete, blocklist.Add / Remove / Report,
// bookmarks.Publish / Delete, pubsub.Publish / CreateNode / GetConfig / GetDefaultConfig / SetConfig /
// Delete, muc.GetConfig / SetConfig, bin.Get and their ...IQ variants.
//
// One REAL served session per scenario (xmpp.NewSession with a trivial negotiator over vt.Conn, Serve
// running with a handler that records every element it is handed).  The scripted peer is lazy
// (vt.Conn.Starve): whenever the serve loop finds its input empty - everything fed before has been
// dealt with completely - the driver looks at what the library wrote (at top-level-element
// granularity), settles the item fed last (handled by the handler / taken by the call / lost) and
// feeds the next item of the script.  So the run is sequential and the log is in program order:
//
//	call                 the helper was called (in its own goroutine)
//	req ...              the IQ request seen on the wire, in symbolic form
//	wire ...             any other element the library wrote
//	peer k ...           item k of the script was delivered (stanza name, type, id)
//	handled ...          the session's handler was given an element
//	cancel k             the caller's context was cancelled
//	ret ...              the call returned: error class (+ condition, type), symbolic value
//	dropped k            an item reached neither the call nor the handler
//	eos, serve_ret, end; stuck (a watchdog fired - never a verdict by itself)
//
// usage: request run <scenarios.ndjson> <trace.ndjson>     (env REQ_SHARD=i/n, REQ_DUMP=1)
package main

import (
	"bufio"
	"context"
	"encoding/json"
	"encoding/xml"
	"errors"
	"fmt"
	"io"
	"os"
	"strconv"
	"strings"
	"sync"
	"time"

	"mellium.im/xmlstream"
	"mellium.im/xmpp"
	"mellium.im/xmpp/jid"
	"mellium.im/xmpp/stanza"
	"mellium.im/xmpp/stream"

	"verifharness/vt"
)

// watchdog for one blocking step that is otherwise immediate (never a verdict by itself: a run that hits it
// logs "stuck", and the check reports that only if it reproduces in a second run)
var stepWait = 10 * time.Second
var stalls = 0
var shrunk = 400 * time.Millisecond

type Arg struct {
	To    string   `json:"to"`
	Node  string   `json:"node"`
	Item  string   `json:"item"`
	Jids  []string `json:"jids"`
	S     []string `json:"s"`
	Form  string   `json:"form"`
	IqID  string   `json:"iqid"`
	IqTyp string   `json:"iqtyp"`
	Flag  bool     `json:"flag"`
}

type PItem struct {
	It    string `json:"it"`    // reply | wrongid | wrongkind | wrongfrom | extra | cancel
	Shape string `json:"shape"` // reply shape ("" for extra / cancel / wrongkind)
}

type Scenario struct {
	Kind   string  `json:"kind"`
	IQ     bool    `json:"iq"`
	Arg    Arg     `json:"arg"`
	Script []PItem `json:"script"`
	N      int     `json:"n"`
}

func nopNeg(ns string) xmpp.Negotiator {
	return func(ctx context.Context, in, out *stream.Info, s *xmpp.Session, data interface{}) (xmpp.SessionState, io.ReadWriter, interface{}, error) {
		rc := s.TokenReader()
		defer rc.Close()
		for {
			tok, err := rc.Token()
			if err != nil {
				return 0, nil, nil, err
			}
			if st, ok := tok.(xml.StartElement); ok {
				if err := in.FromStartElement(st); err != nil {
					return 0, nil, nil, err
				}
				break
			}
		}
		out.XMLNS = ns
		return xmpp.Ready, nil, nil, nil
	}
}

type run struct {
	sc   *Scenario
	conn *vt.Conn
	s    *xmpp.Session

	mu       sync.Mutex
	evs      []vt.Ev
	progress time.Time
	stuck    bool
	nHandled int

	wireOff int
	started bool
	reqSeen bool
	reqID   string

	next          int // script items fed so far
	pending       int // 1-based index of the item fed last and not settled yet
	handledAtFeed int
	returned      bool
	eos           bool

	callDone chan vt.Ev
	cancel   context.CancelFunc
	wrote    chan struct{}
}

func (r *run) log(e vt.Ev) {
	r.mu.Lock()
	r.evs = append(r.evs, e)
	r.progress = time.Now()
	r.mu.Unlock()
}

func (r *run) isStuck() bool {
	r.mu.Lock()
	defer r.mu.Unlock()
	return r.stuck
}

func (r *run) handled() int {
	r.mu.Lock()
	defer r.mu.Unlock()
	return r.nHandled
}

// scan logs every complete top-level element the library wrote since the last scan.
func (r *run) scan() {
	w := r.conn.WireString()
	if r.wireOff >= len(w) {
		return
	}
	els, used, closed, bad := parseTop([]byte(w[r.wireOff:]))
	r.wireOff += used
	for _, n := range els {
		e := describe(n)
		if e["ev"] == "req" {
			if r.reqSeen {
				e["ev"] = "wire" // a second request is something else on the wire
				e["st"] = "iq"
			} else {
				r.reqSeen = true
				r.reqID, _ = e["id"].(string)
			}
		}
		r.log(e)
	}
	if bad != "" {
		r.log(vt.Ev{"ev": "wire", "st": "?garbage", "typ": "", "id": bad})
		r.wireOff = len(w)
	}
	if closed {
		r.wireOff = len(w)
	}
}

// awaitReturn blocks until the helper has returned and logs its result.
func (r *run) awaitReturn() {
	select {
	case e := <-r.callDone:
		r.scan()
		r.log(e)
	case <-time.After(stepWait):
		r.cancel()
		wait := stepWait
		noteStall()
		select {
		case e := <-r.callDone:
			r.scan()
			e["err"] = "stuck"
			r.log(e)
		case <-time.After(wait):
			r.log(vt.Ev{"ev": "stuck", "who": "helper"})
			r.mu.Lock()
			r.stuck = true
			r.mu.Unlock()
		}
	}
	r.returned = true
}

// noteStall counts the watchdogs that fired; once stalls are a fact of this run the watchdog gets short.
func noteStall() {
	stalls++
	if stalls >= 3 {
		stepWait = shrunk
	}
}

// start calls the helper and waits until its request is on the wire (or it has returned without one).
func (r *run) start() {
	r.started = true
	ctx, cancel := context.WithCancel(context.Background())
	r.cancel = cancel
	r.callDone = make(chan vt.Ev, 1)
	r.log(vt.Ev{"ev": "call"})
	done := r.callDone
	go func() { done <- r.helper(ctx) }()
	deadline := time.After(stepWait)
	for !r.reqSeen {
		select {
		case e := <-r.callDone:
			r.scan()
			r.log(e)
			r.returned = true
			return
		case <-r.wrote:
			r.scan()
		case <-deadline:
			r.awaitReturn()
			return
		}
	}
}

// starve runs in the goroutine that finds the session's input empty: the serve loop between two elements.
func (r *run) starve() {
	if r.isStuck() {
		return
	}
	r.scan()
	if !r.started {
		r.start()
	}
	if r.pending > 0 {
		k := r.pending
		r.pending = 0
		if r.handled() == r.handledAtFeed {
			// the handler has not seen item k and the serve loop is reading again: the call took it (and has
			// closed it) - or nobody did
			if !r.returned {
				r.awaitReturn()
			} else {
				r.log(vt.Ev{"ev": "dropped", "k": k})
			}
		}
	}
	for r.next < len(r.sc.Script) && !r.isStuck() {
		it := r.sc.Script[r.next]
		r.next++
		if it.It == "cancel" {
			r.log(vt.Ev{"ev": "cancel", "k": r.next})
			r.cancel()
			if !r.returned {
				r.awaitReturn()
			}
			continue
		}
		x, st, typ, id := renderItem(r.sc, it, r.next, r.reqID)
		r.log(vt.Ev{"ev": "peer", "k": r.next, "st": st, "typ": typ, "id": id})
		r.pending, r.handledAtFeed = r.next, r.handled()
		r.conn.FeedString(x)
		return
	}
	if !r.returned && !r.isStuck() {
		// nothing more will come: the caller gives up (what a real caller can always do)
		r.log(vt.Ev{"ev": "cancel", "k": len(r.sc.Script) + 1})
		r.cancel()
		r.awaitReturn()
	}
	if !r.eos {
		r.eos = true
		r.log(vt.Ev{"ev": "eos"})
		r.conn.FeedString("</stream:stream>")
		r.conn.CloseIn()
	}
}

func (r *run) exec() []vt.Ev {
	r.conn = vt.NewConn()
	r.conn.FeedString(fmt.Sprintf(`<stream:stream from="%s" to="%s" id="s1" version="1.0" xmlns="jabber:client" xmlns:stream="%s">`, server, ownFull, streamNS))
	s, err := xmpp.NewSession(context.Background(), jid.MustParse(server), jid.MustParse(ownFull), r.conn, 0, nopNeg(stanza.NSClient))
	if err != nil {
		panic(err)
	}
	r.s = s
	r.wireOff = len(r.conn.WireString())
	r.wrote = make(chan struct{}, 64)
	r.progress = time.Now()
	r.conn.React = func(p []byte) {
		select {
		case r.wrote <- struct{}{}:
		default:
		}
	}
	r.conn.Starve = r.starve
	h := xmpp.HandlerFunc(func(t xmlstream.TokenReadEncoder, start *xml.StartElement) error {
		e := vt.Ev{"ev": "handled", "st": start.Name.Local, "typ": "", "id": ""}
		for _, a := range start.Attr {
			switch a.Name.Local {
			case "type":
				e["typ"] = a.Value
			case "id":
				e["id"] = a.Value
			}
		}
		r.mu.Lock()
		r.nHandled++
		r.mu.Unlock()
		r.log(e)
		return nil
	})
	done := make(chan vt.Ev, 1)
	go func() {
		e := vt.Ev{"ev": "serve_ret", "err": "none", "msg": ""}
		defer func() {
			if p := recover(); p != nil {
				e["err"], e["msg"] = "panic", fmt.Sprint(p)
			}
			done <- e
		}()
		err := s.Serve(h)
		if err != nil {
			e["err"], e["msg"] = "other", err.Error()
			var se stream.Error
			if errors.As(err, &se) {
				e["err"] = "stream"
			}
		}
	}()
	tick := time.NewTicker(200 * time.Millisecond)
	defer tick.Stop()
loop:
	for {
		select {
		case e := <-done:
			r.conn.Starve = nil
			if r.started && !r.returned {
				// Serve ended while the call was still out
				r.cancel()
				select {
				case ce := <-r.callDone:
					r.log(ce)
				case <-time.After(stepWait):
					r.log(vt.Ev{"ev": "stuck", "who": "helper"})
				}
			}
			r.scan()
			r.log(e)
			break loop
		case <-tick.C:
			r.mu.Lock()
			idle := time.Since(r.progress)
			r.mu.Unlock()
			if idle < 5*stepWait/2 {
				continue
			}
			// nothing has happened for a long time: the serve loop never came back for input
			r.mu.Lock()
			r.stuck = true
			r.mu.Unlock()
			if r.callDone != nil {
				select {
				case ce := <-r.callDone:
					r.log(ce) // the call itself has returned
				default:
				}
			}
			r.log(vt.Ev{"ev": "stuck", "who": "serve"})
			r.conn.CloseIn()
			r.conn.Close()
			noteStall()
			break loop
		}
	}
	if r.cancel != nil {
		r.cancel()
	}
	r.log(vt.Ev{"ev": "end"})
	r.mu.Lock()
	defer r.mu.Unlock()
	return r.evs
}

func main() {
	if len(os.Args) < 4 || os.Args[1] != "run" {
		fmt.Fprintln(os.Stderr, "usage: request run <scenarios.ndjson> <trace.ndjson>")
		os.Exit(2)
	}
	if v := os.Getenv("REQ_STEPWAIT_MS"); v != "" {
		ms, _ := strconv.Atoi(v)
		stepWait = time.Duration(ms) * time.Millisecond
	}
	if v := os.Getenv("REQ_SHRUNK_MS"); v != "" {
		ms, _ := strconv.Atoi(v)
		shrunk = time.Duration(ms) * time.Millisecond
	}
	dump := os.Getenv("REQ_DUMP") != ""
	shard, shards := 0, 1
	if v := os.Getenv("REQ_SHARD"); v != "" {
		p := strings.Split(v, "/")
		shard, _ = strconv.Atoi(p[0])
		shards, _ = strconv.Atoi(p[1])
	}
	f, err := os.Open(os.Args[2])
	if err != nil {
		panic(err)
	}
	tw, err := vt.NewTraceWriter(os.Args[3])
	if err != nil {
		panic(err)
	}
	sc := bufio.NewScanner(f)
	sc.Buffer(make([]byte, 1<<20), 1<<24)
	var sum vt.Summary
	n := -1
	for sc.Scan() {
		if len(strings.TrimSpace(sc.Text())) == 0 {
			continue
		}
		n++
		if n%shards != shard {
			continue
		}
		var s Scenario
		if err := json.Unmarshal(sc.Bytes(), &s); err != nil {
			panic(err)
		}
		s.N = n
		fmt.Printf("SCENARIO %d\n", n)
		r := &run{sc: &s}
		evs := r.exec()
		var raw map[string]interface{}
		json.Unmarshal(sc.Bytes(), &raw)
		delete(raw, "n")
		tw.Write(vt.Ev{"kind": raw["kind"], "iq": raw["iq"], "arg": raw["arg"], "script": raw["script"]}, evs)
		tw.Meta(map[string]interface{}{"scenario": raw, "n": n})
		sum.Evaluations++
		if dump {
			fmt.Printf("  %s\n  WIRE %s\n", sc.Text(), r.conn.WireString())
			for _, e := range evs {
				b, _ := json.Marshal(e)
				fmt.Printf("    %s\n", b)
			}
		}
		if len(sum.Samples) < 2 && len(evs) > 4 {
			sum.Samples = append(sum.Samples, map[string]interface{}{"scenario": raw, "events": evs})
		}
	}
	sum.Traces, sum.Events = tw.Counts()
	if err := tw.Close(); err != nil {
		panic(err)
	}
	sum.Print()
}
