package main

import (
	"context"
	"encoding/xml"
	"errors"
	"fmt"
	"sort"
	"strconv"
	"strings"
	"time"

	"mellium.im/xmlstream"
	"mellium.im/xmpp"
	"mellium.im/xmpp/bin"
	"mellium.im/xmpp/blocklist"
	"mellium.im/xmpp/bookmarks"
	"mellium.im/xmpp/carbons"
	"mellium.im/xmpp/disco"
	"mellium.im/xmpp/form"
	"mellium.im/xmpp/jid"
	"mellium.im/xmpp/muc"
	"mellium.im/xmpp/ping"
	"mellium.im/xmpp/pubsub"
	"mellium.im/xmpp/roster"
	"mellium.im/xmpp/stanza"
	"mellium.im/xmpp/upload"
	"mellium.im/xmpp/version"
	"mellium.im/xmpp/xtime"

	"verifharness/vt"
)

// ---------------------------------------------------------------------------------- the call under test

// HasIQ lists the helper kinds that have an ...IQ variant taking the caller's stanza.
var HasIQ = map[string]bool{
	"version": true, "info": true, "slot": true, "cenable": true, "cdisable": true, "rosterset": true, "rosterdel": true,
	"blockadd": true, "blockremove": true, "blockreport": true, "bmpublish": true, "bmdelete": true, "pspublish": true, "pscreate": true,
	"psgetcfg": true, "psgetdefault": true, "pssetcfg": true, "psdelete": true, "mucgetcfg": true, "mucsetcfg": true,
}

func errClass(err error) (class, cond, etyp string) {
	if err == nil {
		return "none", "", ""
	}
	var se stanza.Error
	if errors.As(err, &se) {
		return "stanza", string(se.Condition), string(se.Type)
	}
	if errors.Is(err, context.Canceled) || errors.Is(err, context.DeadlineExceeded) {
		return "ctx", "", ""
	}
	return "other", "", ""
}

func mustJID(s string) jid.JID {
	if s == "" {
		return jid.JID{}
	}
	return jid.MustParse(s)
}

// formArg builds the *form.Data argument of class c: "nil" = no form, "f1" = the form a GetConfig call would
// have returned (render.go formOK) with one value changed, as the documentation of SetConfig describes.
func formArg(c string) *form.Data {
	if c != "f1" {
		return nil
	}
	d := &form.Data{}
	if err := xml.NewDecoder(strings.NewReader(formOK)).Decode(d); err != nil {
		panic("driver: " + err.Error())
	}
	if _, err := d.Set("title", "New"); err != nil {
		panic("driver: " + err.Error())
	}
	return d
}

func formVal(d *form.Data) []string {
	v := []string{}
	if d == nil {
		return v
	}
	if d.Title() != "" {
		v = append(v, "title", d.Title())
	}
	if d.Instructions() != "" {
		v = append(v, "instr", d.Instructions())
	}
	d.ForFields(func(f form.FieldData) {
		v = append(v, "field", string(f.Type), f.Var, f.Label)
		v = append(v, f.Raw...)
	})
	return v
}

func sOr(s []string, i int) string {
	if i < len(s) {
		return s[i]
	}
	return ""
}

// helper runs the one call of the scenario and classifies its outcome: error class (+ condition and type of a
// stanza error) and the symbolic form of the value it returned (the zero value of every result type is <<>>).
func (r *run) helper(ctx context.Context) (res vt.Ev) {
	res = vt.Ev{"ev": "ret", "err": "none", "cond": "", "etyp": "", "val": []string{}, "msg": ""}
	defer func() {
		if p := recover(); p != nil {
			res["err"], res["msg"], res["val"] = "panic", fmt.Sprint(p), []string{}
		}
	}()
	sc, a, s := r.sc, r.sc.Arg, r.s
	to := mustJID(a.To)
	iq := stanza.IQ{ID: a.IqID, To: to, Type: stanza.IQType(a.IqTyp)}
	var jids []jid.JID
	for _, j := range a.Jids {
		jids = append(jids, jid.MustParse(j))
	}
	val := []string{}
	var err error
	switch sc.Kind {
	case "ping":
		err = ping.Send(ctx, s, to)
	case "version":
		var q version.Query
		if sc.IQ {
			q, err = version.GetIQ(ctx, iq, s)
		} else {
			q, err = version.Get(ctx, s, to)
		}
		if q.Name != "" || q.Version != "" || q.OS != "" {
			val = []string{q.Name, q.Version, q.OS}
		}
	case "time":
		var t time.Time
		t, err = xtime.Get(ctx, s, to)
		if !t.IsZero() {
			val = []string{t.Format("Z07:00"), t.UTC().Format(time.RFC3339Nano)}
		}
	case "info":
		var inf disco.Info
		if sc.IQ {
			inf, err = disco.GetInfoIQ(ctx, a.Node, iq, s)
		} else {
			inf, err = disco.GetInfo(ctx, a.Node, to, s)
		}
		if inf.Node != "" || len(inf.Identity) > 0 || len(inf.Features) > 0 || len(inf.Form) > 0 {
			val = []string{"node", inf.Node}
			for _, i := range inf.Identity {
				val = append(val, "identity", i.Category, i.Type, i.Name)
			}
			for _, f := range inf.Features {
				val = append(val, "feature", f.Var)
			}
			for n := range inf.Form {
				val = append(val, "x")
				inf.Form[n].ForFields(func(f form.FieldData) {
					val = append(val, "field", f.Var)
					val = append(val, f.Raw...)
				})
			}
		}
	case "slot":
		var sl upload.Slot
		size, _ := strconv.Atoi(sOr(a.S, 1))
		f := upload.File{Name: sOr(a.S, 0), Size: size, Type: sOr(a.S, 2)}
		if sc.IQ {
			sl, err = upload.GetSlotIQ(ctx, f, iq, s)
		} else {
			sl, err = upload.GetSlot(ctx, f, to, s)
		}
		if sl.PutURL != nil || sl.GetURL != nil || len(sl.Header) > 0 {
			p, g := "", ""
			if sl.PutURL != nil {
				p = sl.PutURL.String()
			}
			if sl.GetURL != nil {
				g = sl.GetURL.String()
			}
			names := []string{}
			for n := range sl.Header {
				names = append(names, n)
			}
			sort.Strings(names)
			val = []string{"put", p, "get", g}
			for _, n := range names {
				for _, v := range sl.Header[n] {
					val = append(val, "header", n, v)
				}
			}
		}
	case "cenable":
		if sc.IQ {
			err = carbons.EnableIQ(ctx, s, iq)
		} else {
			err = carbons.Enable(ctx, s)
		}
	case "cdisable":
		if sc.IQ {
			err = carbons.DisableIQ(ctx, s, iq)
		} else {
			err = carbons.Disable(ctx, s)
		}
	case "rosterset":
		it := roster.Item{JID: jids[0], Name: sOr(a.S, 0), Subscription: sOr(a.S, 1)}
		if len(a.S) > 2 {
			it.Group = a.S[2:]
		}
		if sc.IQ {
			riq := roster.IQ{IQ: iq}
			riq.Query.Item = []roster.Item{it}
			err = roster.SetIQ(ctx, riq, s)
		} else {
			err = roster.Set(ctx, s, it)
		}
	case "rosterdel":
		if sc.IQ {
			riq := roster.IQ{IQ: iq}
			for _, j := range jids {
				riq.Query.Item = append(riq.Query.Item, roster.Item{JID: j, Subscription: "both"})
			}
			err = roster.DeleteIQ(ctx, riq, s)
		} else {
			err = roster.Delete(ctx, s, jids[0])
		}
	case "blockadd":
		if sc.IQ {
			err = blocklist.AddIQ(ctx, iq, s, jids...)
		} else {
			err = blocklist.Add(ctx, s, jids...)
		}
	case "blockremove":
		if sc.IQ {
			err = blocklist.RemoveIQ(ctx, iq, s, jids...)
		} else {
			err = blocklist.Remove(ctx, s, jids...)
		}
	case "blockreport":
		var items []blocklist.Item
		for _, j := range jids {
			it := blocklist.Item{JID: j, Reason: blocklist.ReportReason(sOr(a.S, 0)), Text: sOr(a.S, 1)}
			if a.Flag {
				it.StanzaIDs = []stanza.ID{{ID: "s1", By: jid.MustParse("room@muc.example.org")}}
			}
			items = append(items, it)
		}
		if sc.IQ {
			err = blocklist.ReportIQ(ctx, iq, s, items...)
		} else {
			err = blocklist.Report(ctx, s, items...)
		}
	case "bmpublish":
		ch := bookmarks.Channel{JID: jids[0], Autojoin: a.Flag, Name: sOr(a.S, 0), Nick: sOr(a.S, 1), Password: sOr(a.S, 2)}
		if sc.IQ {
			err = bookmarks.PublishIQ(ctx, s, iq, ch)
		} else {
			err = bookmarks.Publish(ctx, s, ch)
		}
	case "bmdelete":
		if sc.IQ {
			err = bookmarks.DeleteIQ(ctx, s, iq, jids[0])
		} else {
			err = bookmarks.Delete(ctx, s, jids[0])
		}
	case "pspublish":
		item := xmlstream.Wrap(xmlstream.Token(xml.CharData(sOr(a.S, 0))), xml.StartElement{Name: xml.Name{Space: "urn:x:entry", Local: "entry"}})
		var id string
		if sc.IQ {
			id, err = pubsub.PublishIQ(ctx, s, iq, a.Node, a.Item, item)
		} else {
			id, err = pubsub.Publish(ctx, s, a.Node, a.Item, item)
		}
		if id != "" {
			val = []string{id}
		}
	case "pscreate":
		if sc.IQ {
			err = pubsub.CreateNodeIQ(ctx, s, iq, a.Node, formArg(a.Form))
		} else {
			err = pubsub.CreateNode(ctx, s, a.Node, formArg(a.Form))
		}
	case "psgetcfg":
		var d *form.Data
		if sc.IQ {
			d, err = pubsub.GetConfigIQ(ctx, s, iq, a.Node)
		} else {
			d, err = pubsub.GetConfig(ctx, s, a.Node)
		}
		val = formVal(d)
	case "psgetdefault":
		var d *form.Data
		if sc.IQ {
			d, err = pubsub.GetDefaultConfigIQ(ctx, s, iq)
		} else {
			d, err = pubsub.GetDefaultConfig(ctx, s)
		}
		val = formVal(d)
	case "pssetcfg":
		if sc.IQ {
			err = pubsub.SetConfigIQ(ctx, s, iq, a.Node, formArg(a.Form))
		} else {
			err = pubsub.SetConfig(ctx, s, a.Node, formArg(a.Form))
		}
	case "psdelete":
		if sc.IQ {
			err = pubsub.DeleteIQ(ctx, s, iq, a.Node, a.Item, a.Flag)
		} else {
			err = pubsub.Delete(ctx, s, a.Node, a.Item, a.Flag)
		}
	case "mucgetcfg":
		var d *form.Data
		if sc.IQ {
			d, err = muc.GetConfigIQ(ctx, iq, s)
		} else {
			d, err = muc.GetConfig(ctx, to, s)
		}
		val = formVal(d)
	case "mucsetcfg":
		if sc.IQ {
			err = muc.SetConfigIQ(ctx, iq, formArg(a.Form), s)
		} else {
			err = muc.SetConfig(ctx, to, formArg(a.Form), s)
		}
	case "bob":
		var d *bin.Data
		d, err = bin.Get(ctx, s, to, a.Item)
		if d != nil && (d.CID != "" || d.Type != "" || len(d.Data) > 0 || d.MaxAge != 0) {
			val = []string{d.CID, d.Type, string(d.Data), strconv.Itoa(int(d.MaxAge / time.Second))}
		}
	default:
		panic("driver: unknown helper kind " + sc.Kind)
	}
	res["err"], res["cond"], res["etyp"] = errClass(err)
	if err != nil {
		res["msg"] = err.Error()
		val = []string{} // the value that comes with an error means nothing
	}
	res["val"] = val
	return res
}

var _ = xmpp.Ready
