package main

import (
	"encoding/xml"
	"strings"
)

// ---------------------------------------------------------------------------------- the peer's side
//
// The scenario names a reply SHAPE; this file renders it as XML for the helper kind.  The symbolic
// value each well-formed payload denotes is stated in tla/Request.tla (ValueOf); the two must agree.

const (
	ownFull = "me@example.net/res"
	ownBare = "me@example.net"
	server  = "example.net"
	mallory = "mallory@evil.example/x"

	nsVersion = "jabber:iq:version"
	nsTime    = "urn:xmpp:time"
	nsInfo    = "http://jabber.org/protocol/disco#info"
	nsUpload  = "urn:xmpp:http:upload:0"
	nsPubsub  = "http://jabber.org/protocol/pubsub"
	nsOwner   = "http://jabber.org/protocol/pubsub#owner"
	nsMucOwn  = "http://jabber.org/protocol/muc#owner"
	nsBob     = "urn:xmpp:bob"
	nsStanzas = "urn:ietf:params:xml:ns:xmpp-stanzas"
	nsForeign = "urn:x:foreign"
)

func esc(s string) string {
	var b strings.Builder
	xml.EscapeText(&b, []byte(s))
	return b.String()
}

func attr(name, v string) string {
	if v == "" {
		return ""
	}
	return " " + name + `="` + esc(v) + `"`
}

// the request element of a helper kind (echoed by error replies that include the request's payload)
var reqElem = map[string][2]string{
	"ping": {"ping", "urn:xmpp:ping"}, "version": {"query", nsVersion}, "time": {"time", nsTime}, "info": {"query", nsInfo},
	"slot": {"request", nsUpload}, "cenable": {"enable", "urn:xmpp:carbons:2"}, "cdisable": {"disable", "urn:xmpp:carbons:2"},
	"rosterset": {"query", "jabber:iq:roster"}, "rosterdel": {"query", "jabber:iq:roster"},
	"blockadd": {"block", "urn:xmpp:blocking"}, "blockremove": {"unblock", "urn:xmpp:blocking"}, "blockreport": {"block", "urn:xmpp:blocking"},
	"bmpublish": {"pubsub", nsPubsub}, "bmdelete": {"pubsub", nsPubsub}, "pspublish": {"pubsub", nsPubsub}, "pscreate": {"pubsub", nsPubsub},
	"psdelete": {"pubsub", nsPubsub}, "psgetcfg": {"pubsub", nsOwner}, "psgetdefault": {"pubsub", nsOwner}, "pssetcfg": {"pubsub", nsOwner},
	"mucgetcfg": {"query", nsMucOwn}, "mucsetcfg": {"query", nsMucOwn}, "bob": {"data", nsBob},
}

const (
	formOK = `<x xmlns="jabber:x:data" type="form"><title>cfg</title><field var="FORM_TYPE" type="hidden"><value>urn:x:ft</value></field>` +
		`<field var="title" type="text-single" label="Title"><value>T</value></field></x>`
	formRich = `<x xmlns="jabber:x:data" type="form"><title>cfg</title><instructions>fill in</instructions>` +
		`<field var="FORM_TYPE" type="hidden"><value>urn:x:ft</value></field>` +
		`<field var="title" type="text-single" label="Title"><value>T</value></field>` +
		`<field var="access" type="list-single"><value>open</value><option label="Open"><value>open</value></option><option><value>closed</value></option></field>` +
		`<field var="lines" type="text-multi"><value>a</value><value>b</value></field>` +
		`<field var="plain"><value>p</value></field></x>`
	knownCid = "sha1+8f35fef110ffc5df08d579a50083ff9308fb6242@bob.xmpp.org"
)

func el(local, ns, attrs, inner string) string {
	return "<" + local + ` xmlns="` + ns + `"` + attrs + ">" + inner + "</" + local + ">"
}

// good is the well-formed result payload of a value helper: "ok" the plain one of the XEP, "rich" one with
// the optional parts.
func good(kind, shape string, a Arg) string {
	rich := shape == "rich"
	switch kind {
	case "version":
		if rich {
			return el("query", nsVersion, "", `<name>srv</name><version>1.2</version>`) // <os/> is optional (XEP-0092)
		}
		return el("query", nsVersion, "", `<name>srv</name><version>1.2</version><os>plan9</os>`)
	case "time":
		if rich {
			return el("time", nsTime, "", `<tzo>Z</tzo><utc>2021-03-04T05:06:07.123Z</utc>`)
		}
		return el("time", nsTime, "", `<tzo>-05:00</tzo><utc>2021-03-04T05:06:07Z</utc>`)
	case "info":
		in := `<identity category="server" type="im" name="srv"/><feature var="f1"/><feature var="f2"/>`
		if rich {
			in = `<identity category="server" type="im" name="srv"/><identity category="pubsub" type="pep"/><feature var="f1"/><feature var="f2"/><feature var="urn:x:f3"/>` +
				`<x xmlns="jabber:x:data" type="result"><field var="FORM_TYPE" type="hidden"><value>urn:x:ft</value></field><field var="os"><value>plan9</value></field></x>`
		}
		return el("query", nsInfo, attr("node", a.Node), in)
	case "slot":
		if rich {
			// XEP-0363: only Authorization, Cookie and Expires may be used; other header names MUST be ignored
			return el("slot", nsUpload, "", `<put url="https://up.example.net/p/1?x=1&amp;y=2"><header name="Authorization">Basic abc</header><header name="X-Evil">1</header>`+
				`<header name="Cookie">c=1</header><header name="Expires">soon</header></put><get url="https://dl.example.net/g/1"/>`)
		}
		return el("slot", nsUpload, "", `<put url="https://up.example.net/p/1"><header name="Authorization">Basic abc</header></put><get url="https://dl.example.net/g/1"/>`)
	case "pspublish":
		return el("pubsub", nsPubsub, "", `<publish`+attr("node", a.Node)+`><item id="srv-1"/></publish>`)
	case "psgetcfg":
		f := formOK
		if rich {
			f = formRich
		}
		return el("pubsub", nsOwner, "", `<configure`+attr("node", a.Node)+`>`+f+`</configure>`)
	case "psgetdefault":
		f := formOK
		if rich {
			f = formRich
		}
		return el("pubsub", nsOwner, "", `<default>`+f+`</default>`)
	case "mucgetcfg":
		f := formOK
		if rich {
			f = formRich
		}
		return el("query", nsMucOwn, "", f)
	case "bob":
		if rich {
			return el("data", nsBob, attr("cid", a.Item)+` type="image/png"`, "aGVsbG8gd29ybGQ=")
		}
		return el("data", nsBob, attr("cid", a.Item)+` type="text/plain" max-age="86400"`, "aGk=")
	case "bmpublish", "bmdelete", "psdelete", "pscreate":
		// XEP-0060: the success result MAY carry the pubsub element ("rich"); "ok" is the empty result
		if !rich {
			return ""
		}
		switch kind {
		case "bmpublish":
			return el("pubsub", nsPubsub, "", `<publish node="urn:xmpp:bookmarks:1"><item`+attr("id", a.Item)+`/></publish>`)
		case "pscreate":
			return el("pubsub", nsPubsub, "", `<create`+attr("node", a.Node)+`/>`)
		}
		return el("pubsub", nsPubsub, "", "")
	}
	return ""
}

// wrongNS is the payload of "ok" moved to a namespace that is not the protocol's.
func wrongNS(kind string, a Arg) string {
	p := good(kind, "ok", a)
	e := reqElem[kind]
	if kind == "slot" {
		e = [2]string{"slot", nsUpload}
	}
	return strings.Replace(p, `xmlns="`+e[1]+`"`, `xmlns="`+nsForeign+`"`, 1)
}

// partial: the right element whose content is incomplete or partly invalid.
func partial(kind string, a Arg) string {
	switch kind {
	case "version":
		return el("query", nsVersion, "", `<name>srv</name>`) // <version/> is REQUIRED
	case "time":
		return el("time", nsTime, "", `<tzo>-05:00</tzo><utc>yesterday</utc>`)
	case "info":
		return el("query", nsInfo, attr("node", a.Node), `<identity name="x"/><feature var="f1"/>`) // category and type are REQUIRED
	case "slot":
		return el("slot", nsUpload, "", `<get url="https://dl.example.net/g/1"/>`) // no <put/>
	case "pspublish":
		return el("pubsub", nsPubsub, "", `<publish`+attr("node", a.Node)+`/>`)
	case "psgetcfg":
		return el("pubsub", nsOwner, "", `<configure`+attr("node", a.Node)+`/>`)
	case "psgetdefault":
		return el("pubsub", nsOwner, "", `<default/>`)
	case "mucgetcfg":
		return el("query", nsMucOwn, "", "")
	case "bob":
		return el("data", nsBob, attr("cid", a.Item)+` type="text/plain"`, "!!no base64!!")
	}
	return ""
}

// twice: two payloads where one is expected, with different content (first = "ok", second = "rich"); for the
// pubsub configuration requests the element that was NOT asked for comes first.
func twice(kind string, a Arg) string {
	switch kind {
	case "psgetcfg":
		return el("pubsub", nsOwner, "", `<default>`+formRich+`</default><configure`+attr("node", a.Node)+`>`+formOK+`</configure>`)
	case "psgetdefault":
		return el("pubsub", nsOwner, "", `<configure node="other">`+formRich+`</configure><default>`+formOK+`</default>`)
	case "mucgetcfg":
		return el("query", nsMucOwn, "", formOK+formRich)
	}
	return good(kind, "ok", a) + good(kind, "rich", a)
}

func errorEl(typ, cond, extra string) string {
	c := ""
	if cond != "" {
		c = `<` + cond + ` xmlns="` + nsStanzas + `"/>`
	}
	return `<error` + attr("type", typ) + `>` + c + extra + `</error>`
}

// replyBody returns the stanza type and the children of the reply of the given shape.
func replyBody(kind, shape string, a Arg) (typ, body string) {
	switch shape {
	case "ok", "rich":
		return "result", good(kind, shape, a)
	case "empty":
		return "result", ""
	case "foreign":
		return "result", `<x xmlns="` + nsForeign + `" a="1"><y>t</y></x>`
	case "text":
		return "result", "some text" + good(kind, "ok", a)
	case "wrongns":
		return "result", wrongNS(kind, a)
	case "partial":
		return "result", partial(kind, a)
	case "twice":
		return "result", twice(kind, a)
	case "e-su":
		return "error", errorEl("cancel", "service-unavailable", "")
	case "e-forbidden":
		return "error", errorEl("auth", "forbidden", "")
	case "e-inf":
		return "error", errorEl("cancel", "item-not-found", `<text xmlns="`+nsStanzas+`" xml:lang="en">no such thing</text>`)
	case "e-echo":
		e := reqElem[kind]
		return "error", el(e[0], e[1], "", "") + errorEl("modify", "bad-request", "")
	case "e-nocond":
		return "error", errorEl("cancel", "", "")
	case "e-bare":
		return "error", ""
	}
	panic("driver: unknown reply shape " + shape)
}

// renderItem is the stanza the peer sends for script item it; id is the id of the helper's request.
func renderItem(sc *Scenario, it PItem, k int, reqID string) (xmlText string, st, typ, id string) {
	from := sc.Arg.To
	switch it.It {
	case "reply", "wrongid", "wrongfrom":
		id = reqID
		if it.It == "wrongid" {
			id = "x-" + reqID
		}
		if it.It == "wrongfrom" {
			from = mallory
		}
		t, body := replyBody(sc.Kind, it.Shape, sc.Arg)
		return `<iq` + attr("type", t) + attr("id", id) + attr("from", from) + attr("to", ownFull) + `>` + body + `</iq>`, "iq", t, id
	case "wrongkind":
		// another stanza kind that happens to carry the request's id (RFC 6120 8.1.3: ids are per kind of stanza)
		return `<message type="error"` + attr("id", reqID) + attr("from", from) + attr("to", ownFull) + `>` + errorEl("cancel", "service-unavailable", "") + `</message>`,
			"message", "error", reqID
	case "extra":
		id = "extra-" + string(rune('0'+k))
		return `<message type="chat"` + attr("id", id) + ` from="juliet@example.com/balcony"` + attr("to", ownFull) + `><body>hi</body></message>`, "message", "chat", id
	}
	panic("driver: unknown script item " + it.It)
}
