package main

// C07: replay the vectors of tla/EmitServeLoop.tla (Which = "c07") into real served sessions.

import (
	"encoding/json"
	"encoding/xml"
	"errors"
	"fmt"
	"io"
	"strings"

	"mellium.im/xmlstream"
	"mellium.im/xmpp"
	"mellium.im/xmpp/mux"
	"mellium.im/xmpp/stanza"
	"mellium.im/xmpp/stream"
)

type rEl struct {
	Kind    string `json:"kind"`
	Type    string `json:"type"`
	ID      string `json:"id"`
	From    string `json:"from"` // none | own | ownfull | peer | domain
	To      string `json:"to"`   // none | full | bare
	NS      string `json:"ns"`   // own | other (the other stanza namespace)
	Payload string `json:"payload"`
}

type rProg struct {
	Read string `json:"read"`
	W    string `json:"w"`
	Ret  string `json:"ret"` // ok | err | stanzaerr (the handler returns a stanza.Error value) | eof | weof | ueof | wstanzaerr | streamerr | wstreamerr
	Mut  string `json:"mut"` // what the handler does to the start element it was handed: none | type | name | id | from | clear
}

type rW struct {
	El   string `json:"el"`
	NS   string `json:"ns"`
	Type string `json:"type"`
	ID   string `json:"id"`
	To   string `json:"to"`
	Nest bool   `json:"nest"`
}

type rVec struct {
	E        rEl                 `json:"e"`
	P        rProg               `json:"p"`
	Mode     string              `json:"mode"`
	Sess     sessRec             `json:"sess"`
	Local    string              `json:"local"` // the specification's address rule for the session: A | H | B
	Was      string              `json:"was"`
	ENS      string              `json:"ens"`        // the element's namespace: client | server
	Decl     bool                `json:"decl"`       // the element names its namespace itself
	HdrDiff  bool                `json:"hdrdiffers"` // the stream header declares another namespace than the element's
	End      string              `json:"end"`        // how the peer ends the stream: tag | eof
	Writes   []rW                `json:"writes"`
	Sentinel []rW                `json:"sentinel"`
	Acc      [][]json.RawMessage `json:"acc"`
}

var errHandler = errors.New("verif: handler failure")

// handlerCond is the condition of the stanza error a handler program returns with ret = stanzaerr.
const handlerCond = "not-acceptable"

// mutate is the "mut" part of a handler program: handlers get the start element by pointer and may recycle it.
func mutate(start *xml.StartElement, how string, a *addrs) {
	if start == nil {
		return
	}
	set := func(name, val string) {
		for i := range start.Attr {
			if start.Attr[i].Name.Local == name {
				start.Attr[i].Value = val
				return
			}
		}
		start.Attr = append(start.Attr, xml.Attr{Name: xml.Name{Local: name}, Value: val})
	}
	switch how {
	case "type":
		set("type", "result")
	case "name":
		start.Name.Local = "message"
	case "id":
		set("id", "mutated-id")
	case "from":
		cur := ""
		for _, at := range start.Attr {
			if at.Name.Local == "from" {
				cur = at.Value
			}
		}
		if cur == a.Domain {
			set("from", a.Peer)
		} else {
			set("from", a.Domain)
		}
	case "clear":
		start.Attr = nil
	}
}

func (a *addrs) of(sym string) string {
	switch sym {
	case "own", "bare":
		return a.Own
	case "ownfull", "full":
		return a.OwnFull
	case "peer":
		return a.Peer
	case "domain":
		return a.Domain
	case "none":
		return ""
	}
	panic("unknown address symbol " + sym)
}

var kind7Local = map[string]string{"iq": "iq", "msg": "message", "pres": "presence", "other": "other"}

const (
	nsPayload  = "urn:verif:p"
	nsSentinel = "urn:verif:s"
	nsOther    = "urn:verif:o"
	nsForeign  = "urn:verif:f"
)

func payloadName(e rEl, ns string) xml.Name {
	switch e.Payload {
	case "none":
		return xml.Name{}
	case "iqchild":
		return xml.Name{Space: ns, Local: "iq"}
	}
	return xml.Name{Space: nsPayload, Local: "q"}
}

// render7 writes the element under test as the peer of the session sends it: ens is its
// namespace, decl whether it names it itself (otherwise it inherits the stream header's).
func render7(e rEl, ens string, decl bool, a *addrs) string {
	var b strings.Builder
	local := kind7Local[e.Kind]
	b.WriteString("<" + local)
	if e.Kind == "other" {
		fmt.Fprintf(&b, ` xmlns="%s"`, nsOther)
	} else if decl {
		fmt.Fprintf(&b, ` xmlns="%s"`, ens)
	}
	if e.Type != "" {
		fmt.Fprintf(&b, ` type="%s"`, e.Type)
	}
	if e.ID != "none" {
		fmt.Fprintf(&b, ` id="%s"`, xmlEsc(e.ID))
	}
	if e.From != "none" {
		fmt.Fprintf(&b, ` from="%s"`, a.of(e.From))
	}
	if e.To != "none" {
		fmt.Fprintf(&b, ` to="%s"`, a.of(e.To))
	}
	b.WriteString(">")
	switch e.Payload {
	case "child":
		fmt.Fprintf(&b, `<q xmlns="%s"><z>t</z></q>`, nsPayload)
	case "childtext":
		fmt.Fprintf(&b, `<q xmlns="%s"/>tail`, nsPayload)
	case "iqchild":
		id := e.ID
		if id == "none" {
			id = ""
		}
		fmt.Fprintf(&b, `<iq id="%s" type="result"/>`, xmlEsc(id))
	}
	b.WriteString("</" + local + ">")
	return b.String()
}

// sentinelXML is the request that follows the element under test.
func sentinelXML(a *addrs) string {
	decl := ""
	if a.WS {
		decl = ` xmlns="` + a.NS + `"`
	}
	return `<iq` + decl + ` type="get" id="zz" from="` + a.Peer + `" to="` + a.OwnFull + `"><s xmlns="` + nsSentinel + `"/></iq>`
}

// execRead follows the read part of a handler program.
func execRead(t xml.TokenReader, how string) {
	switch how {
	case "none":
	case "one":
		t.Token()
	default:
		for i := 0; i < 1000; i++ {
			tok, err := t.Token()
			if err != nil || tok == nil {
				break
			}
		}
		if how == "over" {
			t.Token()
			t.Token()
		}
	}
}

// execWrites writes the program's elements token by token. explicitNS selects whether
// elements of the stream's own namespace name it explicitly or leave the space empty
// (both occur in real handlers).
// elemVal is a Go value whose XML encoding is one of the program's elements: the handler can
// hand it to Encode / EncodeElement instead of writing its tokens one by one.
type elemVal struct {
	start xml.StartElement
	inner []xml.Token
}

func (v elemVal) MarshalXML(e *xml.Encoder, _ xml.StartElement) error {
	if err := e.EncodeToken(v.start); err != nil {
		return err
	}
	for _, t := range v.inner {
		if err := e.EncodeToken(t); err != nil {
			return err
		}
	}
	return e.EncodeToken(v.start.End())
}

func execWrites(t xmlstream.TokenWriter, ws []rW, a *addrs, explicitNS bool, via string) error {
	ns := a.NS
	for _, w := range ws {
		name := xml.Name{Local: w.El}
		switch {
		case w.NS == "foreign":
			name.Space = nsForeign
		case explicitNS:
			name.Space = ns
		}
		start := xml.StartElement{Name: name}
		if w.Type != "" {
			start.Attr = append(start.Attr, xml.Attr{Name: xml.Name{Local: "type"}, Value: w.Type})
		}
		if w.ID != "none" {
			start.Attr = append(start.Attr, xml.Attr{Name: xml.Name{Local: "id"}, Value: w.ID})
		}
		if to := a.of(w.To); to != "" {
			start.Attr = append(start.Attr, xml.Attr{Name: xml.Name{Local: "to"}, Value: to})
		}
		if enc, ok := t.(xmlstream.Encoder); ok && via != "token" && via != "" {
			// the same element, handed over as a value (Encode) or as a value plus start element
			val := elemVal{start: start}
			if w.Nest {
				in := xml.StartElement{Name: xml.Name{Space: name.Space, Local: "iq"}, Attr: []xml.Attr{
					{Name: xml.Name{Local: "id"}, Value: w.ID}, {Name: xml.Name{Local: "type"}, Value: "result"}}}
				val.inner = []xml.Token{in, in.End()}
			}
			var err error
			if via == "encode" {
				err = enc.Encode(val)
			} else {
				val.start = xml.StartElement{Name: xml.Name{Space: "urn:vt:own", Local: "ownstart"}}
				err = enc.EncodeElement(val, start)
			}
			if err != nil {
				return err
			}
			continue
		}
		if err := t.EncodeToken(start); err != nil {
			return err
		}
		if w.Nest {
			in := xml.StartElement{Name: xml.Name{Space: name.Space, Local: "iq"}, Attr: []xml.Attr{
				{Name: xml.Name{Local: "id"}, Value: w.ID}, {Name: xml.Name{Local: "type"}, Value: "result"}}}
			if err := t.EncodeToken(in); err != nil {
				return err
			}
			if err := t.EncodeToken(in.End()); err != nil {
				return err
			}
		}
		if err := t.EncodeToken(start.End()); err != nil {
			return err
		}
	}
	return nil
}

type run7 struct {
	v       rVec
	ns      string
	a       *addrs // set when the session exists
	via     string // how the handler writes: "token" (EncodeToken), "encode", "encodeel"
	invoked []string
}

func (r *run7) program(t xmlstream.TokenReadEncoder, sentinel bool, start *xml.StartElement) error {
	if sentinel {
		r.invoked = append(r.invoked, "sentinel")
		execRead(t, "all")
		return execWrites(t, r.v.Sentinel, r.a, false, "token")
	}
	r.invoked = append(r.invoked, "test")
	execRead(t, r.v.P.Read)
	explicit := r.v.P.Read == "one" || r.v.P.Read == "over"
	if err := execWrites(t, r.v.Writes, r.a, explicit, r.via); err != nil {
		return fmt.Errorf("driver: write failed: %w", err)
	}
	mutate(start, r.v.P.Mut, r.a)
	switch r.v.P.Ret {
	case "err":
		return errHandler
	case "stanzaerr":
		return stanza.Error{Type: stanza.Modify, Condition: stanza.Condition(handlerCond)}
	case "eof": // "I reached the end of my element"
		return io.EOF
	case "weof": // what a handler makes of the io.EOF of decoding an empty payload when it adds context
		return fmt.Errorf("verif: decoding the payload: %w", io.EOF)
	case "ueof":
		return io.ErrUnexpectedEOF
	case "wstanzaerr":
		return fmt.Errorf("verif: handler: %w", stanza.Error{Type: stanza.Modify, Condition: stanza.Condition(handlerCond)})
	case "streamerr":
		return stream.PolicyViolation
	case "wstreamerr":
		return fmt.Errorf("verif: handler: %w", stream.PolicyViolation)
	case "ok":
		return nil
	}
	panic("driver: unknown return kind " + r.v.P.Ret)
}

func isSentinelStart(start *xml.StartElement) bool {
	for _, a := range start.Attr {
		if a.Name.Local == "id" && a.Value == "zz" {
			return true
		}
	}
	return false
}

func (r *run7) handler() xmpp.Handler {
	plain := xmpp.HandlerFunc(func(t xmlstream.TokenReadEncoder, start *xml.StartElement) error {
		return r.program(t, isSentinelStart(start), start)
	})
	switch r.v.Mode {
	case "plain":
		return plain
	case "muxunreg":
		return mux.New(r.ns)
	}
	e := r.v.E
	opts := []mux.Option{
		mux.IQFunc(stanza.GetIQ, xml.Name{Space: nsSentinel, Local: "s"}, func(iq stanza.IQ, t xmlstream.TokenReadEncoder, start *xml.StartElement) error {
			return r.program(t, true, nil)
		}),
	}
	switch e.Kind {
	case "iq":
		opts = append(opts, mux.IQFunc(stanza.IQType(e.Type), payloadName(e, stanzaNSOf(r.v.ENS)), func(iq stanza.IQ, t xmlstream.TokenReadEncoder, start *xml.StartElement) error {
			return r.program(t, false, start)
		}))
	case "msg":
		opts = append(opts, mux.MessageFunc(stanza.MessageType(e.Type), xml.Name{}, func(m stanza.Message, t xmlstream.TokenReadEncoder) error {
			return r.program(t, false, nil)
		}))
	case "pres":
		opts = append(opts, mux.PresenceFunc(stanza.PresenceType(e.Type), xml.Name{}, func(p stanza.Presence, t xmlstream.TokenReadEncoder) error {
			return r.program(t, false, nil)
		}))
	case "other":
		opts = append(opts, mux.Handle(xml.Name{Space: nsOther, Local: "other"}, plain))
	}
	return mux.New(r.ns, opts...)
}

// expectOut turns one acceptable output of the specification into abstract elements.
func expectOut(alt []json.RawMessage, a *addrs) ([]topOut, error) {
	outs := []topOut{}
	for _, raw := range alt {
		var parts []json.RawMessage
		if err := json.Unmarshal(raw, &parts); err != nil {
			return nil, err
		}
		var tag string
		json.Unmarshal(parts[0], &tag)
		switch tag {
		case "h":
			var w rW
			if err := json.Unmarshal(parts[1], &w); err != nil {
				return nil, err
			}
			o := topOut{Local: w.El, NS: w.NS, Type: w.Type, To: a.of(w.To), Nest: w.Nest}
			if w.ID != "none" {
				o.ID, o.HasID = w.ID, true
			}
			outs = append(outs, o)
		case "su":
			var id, to string
			json.Unmarshal(parts[1], &id)
			json.Unmarshal(parts[2], &to)
			if id == "none" {
				id = ""
			}
			outs = append(outs, topOut{Local: "iq", NS: "def", Type: "error", ID: id, To: a.of(to), SU: true, Cond: "service-unavailable"})
		case "se":
			// the stanza error the handler returned, sent by the session as the request's error reply
			var id, to string
			json.Unmarshal(parts[1], &id)
			json.Unmarshal(parts[2], &to)
			if id == "none" {
				id = ""
			}
			outs = append(outs, topOut{Local: "iq", NS: "def", Type: "error", ID: id, To: a.of(to), SU: true, Cond: handlerCond})
		case "serr":
			outs = append(outs, topOut{Local: "error", NS: "stream"})
		default:
			return nil, fmt.Errorf("unknown out tag %q", tag)
		}
	}
	return outs, nil
}

func outsMatch(exp, obs []topOut) bool {
	if len(exp) != len(obs) {
		return false
	}
	for i := range exp {
		e, o := exp[i], obs[i]
		if e.NS == "stream" {
			if o.NS != "stream" || o.Local != "error" {
				return false
			}
			continue
		}
		if e.SU {
			// the default reply carries the request's id; to a request without id the
			// session gives whatever id it likes (it completes missing ids, C05)
			if e.Cond == handlerCond {
				if !(o.Cond == handlerCond && o.Local == "iq" && o.NS == "def" && o.Type == "error" && (o.ID == e.ID || e.ID == "") && o.To == e.To) {
					return false
				}
				continue
			}
			if !(o.SU && o.Local == "iq" && o.NS == "def" && o.Type == "error" && (o.ID == e.ID || e.ID == "") && o.To == e.To) {
				return false
			}
			continue
		}
		o.Cond = ""
		if e.ID == "" {
			// the session completes stanzas that carry no (or an empty) id with a fresh one (C05)
			o.ID, o.HasID = "", e.HasID
		}
		if o != e {
			return false
		}
	}
	return true
}

func stripStreamErrors(outs []topOut) ([]topOut, int) {
	res := []topOut{}
	n := 0
	for _, o := range outs {
		if o.NS == "stream" && o.Local == "error" {
			n++
			continue
		}
		res = append(res, o)
	}
	return res, n
}

func replyMain(args []string) {
	if len(args) < 2 {
		die("usage: serve reply <out.ndjson> <vectors.ndjson>...")
	}
	out := newOut(args[0])
	defer out.close()
	var evals, mism, stalls, setups, nontrivial, serrOnWire, terminated int
	classes := map[string]int{}
	samples := []interface{}{}
	for _, path := range args[1:] {
		eachLine(path, func(line []byte) {
			var v rVec
			if err := json.Unmarshal(line, &v); err != nil {
				die("vector: %v: %s", err, line)
			}
			ns := v.Sess.ns()
			vias := []string{"token"}
			foreign := false
			for _, w := range v.Writes {
				foreign = foreign || w.NS == "foreign"
			}
			// a handler may also hand its reply over as a value (Encode / EncodeElement): same
			// expectation. (Elements in a foreign namespace named like a stanza are excluded on that
			// path: the session re-qualifies them - open known finding of C05.)
			if len(v.Writes) > 0 && !foreign {
				vias = append(vias, "encode", "encodeel")
			}
			for _, via := range vias {
				evals++
				r := &run7{v: v, ns: ns, via: via}
				render := func(a *addrs) []string {
					r.a = a
					in := render7(v.E, stanzaNSOf(v.ENS), v.Decl, a) + sentinelXML(a)
					if v.End == "tag" {
						in += "</stream:stream>"
					}
					return []string{in}
				}
				var h xmpp.Handler
				regPanic := ""
				func() {
					defer func() {
						if x := recover(); x != nil {
							regPanic = fmt.Sprint(x)
						}
					}()
					h = r.handler()
				}()
				if regPanic != "" {
					die("driver: handler construction panicked: %s (%s)", regPanic, line)
				}
				res := serveSession(v.Sess, v.Local, v.Was, render, h)
				input := res.Input
				if res.Setup != "" {
					setups++
					out.put(map[string]interface{}{"kind": "setup", "vector": v, "via": via, "why": res.Setup})
					continue
				}
				if res.Stalled {
					stalls++
					out.put(map[string]interface{}{"kind": "stall", "vector": v, "via": via, "input": input})
					continue
				}
				obs, closed, perr := parseOut(res.Wire, ns)
				// "Terminated with a stream error" is observed as: Serve returned an error and
				// handled nothing more. (On this tree the <stream:error/> element itself stays in
				// the encoder's buffer and only the closing tag reaches the wire - the repository's
				// own serve tests expect exactly that output - so its presence is counted, not required.)
				obs, onWire := stripStreamErrors(obs)
				serrOnWire += onWire
				if res.Err != nil {
					terminated++
					obs = append(obs, topOut{Local: "error", NS: "stream"})
				}
				ok := res.Panic == "" && perr == nil
				if ok {
					ok = false
					for _, alt := range v.Acc {
						exp, err := expectOut(alt, res.Addrs)
						if err != nil {
							die("vector acc: %v", err)
						}
						if outsMatch(exp, obs) {
							ok = true
							break
						}
					}
				}
				cls := fmt.Sprintf("%s/%s/%s/%s/%d outs/err=%v", v.Sess.Kind, v.E.Kind, v.E.Type, v.Mode, len(obs), res.Err != nil)
				classes[cls]++
				if len(obs) > 0 {
					nontrivial++
				}
				if !ok {
					mism++
					m := map[string]interface{}{"kind": "reply", "vector": v, "via": via, "input": input, "wire": res.Wire, "observed": obs,
						"closed": closed, "serve_error": errString(res.Err), "panic": res.Panic, "invoked": r.invoked, "unread": res.Unread}
					if perr != nil {
						m["unparsable"] = perr.Error()
					}
					out.put(m)
				} else if len(samples) < 3 && len(obs) >= 2 && evals%89 == 0 {
					samples = append(samples, map[string]interface{}{"vector": v, "input": input, "wire": res.Wire, "serve_error": errString(res.Err)})
				}
			}
		})
	}
	summary(map[string]interface{}{"evaluations": evals, "mismatches": mism, "stalls": stalls, "setup_failures": setups, "nontrivial": nontrivial,
		"distinct_classes": len(classes), "classes": classNames(classes), "samples": samples,
		"terminated_with_error": terminated, "stream_error_elements_on_wire": serrOnWire})
	_ = io.EOF
}
