package main

// Shared by the C07 and C08 drivers: a served session over the controlled transport.

import (
	"context"
	"encoding/xml"
	"fmt"
	"io"
	"strings"
	"time"

	"mellium.im/xmpp"
	"mellium.im/xmpp/jid"
	"mellium.im/xmpp/stanza"
	"mellium.im/xmpp/stream"

	"verifharness/vt"
)

const (
	ownFull  = "test@example.net/res"
	ownBare  = "test@example.net"
	peerAddr = "juliet@example.com/b"
	streamNS = "http://etherx.jabber.org/streams"
)

func stanzaNSOf(sym string) string {
	if sym == "server" {
		return stanza.NSServer
	}
	return stanza.NSClient
}

// nopNeg is a Negotiator that reads the peer's stream header and declares the session ready.
func nopNeg(ns string) xmpp.Negotiator {
	return func(ctx context.Context, in, out *stream.Info, s *xmpp.Session, data interface{}) (xmpp.SessionState, io.ReadWriter, interface{}, error) {
		rc := s.TokenReader()
		defer rc.Close()
		for {
			tok, err := rc.Token()
			if err != nil {
				return 0, nil, nil, err
			}
			if st, ok := tok.(xml.StartElement); ok {
				if err := in.FromStartElement(st); err != nil {
					return 0, nil, nil, err
				}
				break
			}
		}
		out.XMLNS = ns
		return xmpp.Ready, nil, nil, nil
	}
}

func streamHeader(ns string) string {
	return fmt.Sprintf(`<stream:stream from="example.net" to="%s" id="s1" version="1.0" xmlns="%s" xmlns:stream="%s">`, ownBare, ns, streamNS)
}

type served struct {
	Wire    string
	Err     error
	Panic   string
	Stalled bool
	Unread  int // input bytes never consumed
}

// serveInput runs one real session over input (everything after the stream header; the
// transport reports EOF after it) with handler h and returns what was written.
func serveInput(ns, input string, h xmpp.Handler) served {
	conn := vt.NewConn()
	conn.FeedString(streamHeader(ns) + input)
	conn.CloseIn()
	var res served
	s, err := xmpp.NewSession(context.Background(), jid.MustParse("example.net"), jid.MustParse(ownFull), conn, 0, nopNeg(ns))
	if err != nil {
		res.Err = fmt.Errorf("driver: session setup failed: %w", err)
		res.Panic = res.Err.Error()
		return res
	}
	done := make(chan struct{})
	go func() {
		defer close(done)
		defer func() {
			if x := recover(); x != nil {
				res.Panic = fmt.Sprint(x)
			}
		}()
		res.Err = s.Serve(h)
	}()
	select {
	case <-done:
	case <-time.After(10 * time.Second):
		res.Stalled = true
		conn.Close()
		return res
	}
	res.Wire = conn.WireString()
	res.Unread = len(streamHeader(ns)+input) - conn.Consumed()
	return res
}

// topOut is the abstract form of one top-level element the library wrote.
type topOut struct {
	Local string `json:"local"`
	NS    string `json:"ns"` // "def" (the stream's stanza namespace) | "stream" | "foreign"
	Type  string `json:"type"`
	ID    string `json:"id"`
	HasID bool   `json:"hasid"`
	To    string `json:"to"`
	Nest  bool   `json:"nest"` // has a child named iq
	SU    bool   `json:"su"`   // carries a service-unavailable stanza error
	Cond  string `json:"cond,omitempty"`
}

// parseOut parses everything the session wrote (no stream header is written by the
// harness negotiator) into abstract top-level elements; closed reports a closing stream tag.
func parseOut(wire, ns string) (outs []topOut, closed bool, err error) {
	outs = []topOut{}
	d := xml.NewDecoder(strings.NewReader(streamHeader(ns) + wire))
	depth := 0
	var cur *topOut
	for {
		tok, e := d.Token()
		if e == io.EOF {
			return outs, closed, nil
		}
		if e != nil {
			// an unclosed synthetic header is expected when no closing tag was written
			if closed || strings.Contains(e.Error(), "unexpected EOF") {
				return outs, closed, nil
			}
			return outs, closed, e
		}
		switch t := tok.(type) {
		case xml.StartElement:
			depth++
			switch depth {
			case 2:
				o := topOut{Local: t.Name.Local, NS: "foreign"}
				switch t.Name.Space {
				case ns:
					o.NS = "def"
				case streamNS:
					o.NS = "stream"
				}
				for _, a := range t.Attr {
					switch a.Name.Local {
					case "type":
						o.Type = a.Value
					case "id":
						o.ID, o.HasID = a.Value, true
					case "to":
						o.To = a.Value
					}
				}
				outs = append(outs, o)
				cur = &outs[len(outs)-1]
			case 3:
				if t.Name.Local == "iq" {
					cur.Nest = true
				}
				if cur.NS == "stream" {
					cur.Cond = t.Name.Local
				}
			case 4:
				if t.Name.Space == "urn:ietf:params:xml:ns:xmpp-stanzas" {
					cur.Cond = t.Name.Local
					if t.Name.Local == "service-unavailable" {
						cur.SU = true
					}
				}
			}
		case xml.EndElement:
			depth--
			if depth == 0 {
				closed = true
			}
		}
	}
}

func errString(e error) string {
	if e == nil {
		return ""
	}
	return e.Error()
}

func xmlEsc(s string) string {
	var b strings.Builder
	xml.EscapeText(&b, []byte(s))
	return b.String()
}
