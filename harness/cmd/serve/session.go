package main

// Shared by the C07 and C08 drivers: a served session over the controlled transport.

import (
	"context"
	"encoding/xml"
	"fmt"
	"io"
	"regexp"
	"strings"
	"sync"
	"time"

	"mellium.im/xmlstream"
	"mellium.im/xmpp"
	"mellium.im/xmpp/jid"
	"mellium.im/xmpp/stanza"
	"mellium.im/xmpp/stream"
	"mellium.im/xmpp/websocket"

	"verifharness/vt"
)

const (
	streamNS  = "http://etherx.jabber.org/streams"
	framingNS = "urn:ietf:params:xml:ns:xmpp-framing"
	bindNS    = "urn:ietf:params:xml:ns:xmpp-bind"
	peerAddr  = "juliet@example.com/b"
)

func stanzaNSOf(sym string) string {
	if sym == "server" {
		return stanza.NSServer
	}
	return stanza.NSClient
}

// sessRec is a session of tla/ServeLoop.tla (operator Sess): how it is made and where its own
// address comes from.
type sessRec struct {
	Kind string `json:"kind"` // c2s | s2s | rc2s | rs2s | ws
	Neg  string `json:"neg"`  // custom | lib
	Hdr  string `json:"hdr"`  // same | other | none: the "to" of the peer's stream header
	Bind bool   `json:"bind"` // negotiation ends by binding address B
}

func (r sessRec) String() string {
	return fmt.Sprintf("%s/%s/hdr=%s/bind=%v", r.Kind, r.Neg, r.Hdr, r.Bind)
}

func (r sessRec) received() bool { return r.Kind == "rc2s" || r.Kind == "rs2s" }
func (r sessRec) ns() string {
	if r.Kind == "s2s" || r.Kind == "rs2s" {
		return stanza.NSServer
	}
	return stanza.NSClient
}

// symAddr maps the address symbols of the specification (A given to the constructor, H named
// by the peer's header, B bound, X never the session's) to concrete addresses: accounts on
// sessions whose local side is a client, domains where it is a server.
func (r sessRec) symAddr(sym string) string {
	if r.Kind == "c2s" || r.Kind == "ws" {
		return map[string]string{"A": "test@example.net/res", "H": "alias@example.net/h", "B": "bound@example.net/dev", "X": "never@example.net/x"}[sym]
	}
	return map[string]string{"A": "example.net", "H": "vhost.example.net", "B": "bound.example.net", "X": "never.example.net"}[sym]
}

// remote is the address of the peer of the stream.
func (r sessRec) remote() string {
	switch r.Kind {
	case "c2s", "ws":
		return "example.net"
	case "rc2s":
		return "user@example.net"
	}
	return "example.com"
}

func bareOf(a string) string {
	if i := strings.IndexByte(a, '/'); i >= 0 {
		return a[:i]
	}
	return a
}

func fullOf(a string) string {
	if strings.IndexByte(a, '/') >= 0 {
		return a
	}
	return a + "/res"
}

// addrs are the concrete addresses of one running session. Own is computed from the session
// itself (LocalAddr().Bare()) after negotiation, not from the way it was made.
type addrs struct {
	Own     string // the session's own bare address
	OwnFull string // a full address of the same account / domain
	Was     string // bare form of an address that is not the session's (any more)
	Peer    string // another entity
	Domain  string // a server that is not the session's own address
	NS      string // the stream's stanza namespace
	OtherNS string
	WS      bool // WebSocket framing: every element names its namespace
}

// customNeg is a Negotiator of the application: it reads the peer's stream header into the
// session (as the library's own negotiators do), optionally binds another address, and
// declares the session ready.
func customNeg(ns string, bind string) xmpp.Negotiator {
	return func(ctx context.Context, in, out *stream.Info, s *xmpp.Session, data interface{}) (xmpp.SessionState, io.ReadWriter, interface{}, error) {
		rc := s.TokenReader()
		defer rc.Close()
		for {
			tok, err := rc.Token()
			if err != nil {
				return 0, nil, nil, err
			}
			if st, ok := tok.(xml.StartElement); ok {
				if err := in.FromStartElement(st); err != nil {
					return 0, nil, nil, err
				}
				break
			}
		}
		out.XMLNS = ns
		if bind != "" {
			s.UpdateAddr(jid.MustParse(bind))
		}
		return xmpp.Ready, nil, nil, nil
	}
}

func tcpHeader(ns, from, to string) string {
	toAttr := ""
	if to != "" {
		toAttr = fmt.Sprintf(` to="%s"`, to)
	}
	return fmt.Sprintf(`<stream:stream from="%s"%s id="s1" version="1.0" xmlns="%s" xmlns:stream="%s">`, from, toAttr, ns, streamNS)
}

var bindIDRe = regexp.MustCompile(`<iq[^>]*\sid="([^"]*)"`)

// openSession feeds the peer's part of the negotiation of r into conn and makes the session.
func openSession(r sessRec, local, was string, conn *vt.Conn) (*xmpp.Session, *addrs, error) {
	ctx, cancel := context.WithTimeout(context.Background(), 10*time.Second)
	defer cancel()
	ns := r.ns()
	a := r.symAddr("A")
	to := ""
	switch r.Hdr {
	case "same":
		to = bareOf(a)
		if r.Neg == "lib" {
			to = a // the library's negotiator insists on the exact address
		}
	case "other":
		to = r.symAddr("H")
	}
	libCfg := func(features ...xmpp.StreamFeature) xmpp.Negotiator {
		return xmpp.NewNegotiator(func(*xmpp.Session, *xmpp.StreamConfig) xmpp.StreamConfig {
			return xmpp.StreamConfig{Features: features}
		})
	}
	var s *xmpp.Session
	var err error
	bound := ""
	if r.Bind {
		bound = r.symAddr("B")
	}
	var state xmpp.SessionState
	if ns == stanza.NSServer {
		state |= xmpp.S2S
	}
	switch {
	case r.Kind == "ws":
		conn.FeedString(fmt.Sprintf(`<open xmlns="%s" from="%s" to="%s" id="s1" version="1.0"/><stream:features xmlns:stream="%s"/>`,
			framingNS, r.remote(), to, streamNS))
		s, err = websocket.NewSession(ctx, jid.MustParse(a), conn)
	case r.Neg == "custom" && !r.received():
		conn.FeedString(tcpHeader(ns, r.remote(), to))
		s, err = xmpp.NewSession(ctx, jid.MustParse(r.remote()), jid.MustParse(a), conn, state, customNeg(ns, bound))
	case r.Neg == "custom":
		conn.FeedString(tcpHeader(ns, r.remote(), to))
		s, err = xmpp.ReceiveSession(ctx, conn, state, customNeg(ns, bound))
	case r.Kind == "rc2s": // the library's negotiator, the client binds a resource
		conn.FeedString(tcpHeader(ns, r.remote(), to) + `<iq type="set" id="b1"><bind xmlns="` + bindNS + `"/></iq>`)
		s, err = xmpp.ReceiveSession(ctx, conn, xmpp.Secure|xmpp.Authn, libCfg(xmpp.BindResource()))
	case r.Bind: // the library's negotiator, the server assigns address B
		conn.FeedString(tcpHeader(ns, r.remote(), to) + `<stream:features><bind xmlns="` + bindNS + `"/></stream:features>`)
		conn.React = func([]byte) {
			w := conn.WireString()
			if i := strings.Index(w, bindNS); i >= 0 && strings.Contains(w[i:], "</iq>") {
				if m := bindIDRe.FindStringSubmatch(w); m != nil {
					conn.React = nil
					conn.FeedString(fmt.Sprintf(`<iq type="result" id="%s"><bind xmlns="%s"><jid>%s</jid></bind></iq>`, m[1], bindNS, bound))
				}
			}
		}
		s, err = xmpp.NewSession(ctx, jid.MustParse(r.remote()), jid.MustParse(a), conn, state|xmpp.Secure|xmpp.Authn, libCfg(xmpp.BindResource()))
		conn.React = nil
	default:
		conn.FeedString(tcpHeader(ns, r.remote(), to) + `<stream:features/>`)
		s, err = xmpp.NewSession(ctx, jid.MustParse(r.remote()), jid.MustParse(a), conn, state, libCfg())
	}
	if err != nil {
		return nil, nil, fmt.Errorf("negotiation of %v failed: %w", r, err)
	}
	// the binding of the specification's address rule (operator Local) to this session
	own := s.LocalAddr().Bare().String()
	if want := bareOf(r.symAddr(local)); own != want {
		return nil, nil, fmt.Errorf("session %v: LocalAddr().Bare() is %q, the specification's rule gives %s = %q", r, own, local, want)
	}
	ad := &addrs{Own: own, OwnFull: fullOf(s.LocalAddr().String()), Was: bareOf(r.symAddr(was)), Peer: peerAddr, Domain: "example.org",
		NS: ns, OtherNS: stanza.NSServer, WS: r.Kind == "ws"}
	if ns == stanza.NSServer {
		ad.OtherNS = stanza.NSClient
	}
	return s, ad, nil
}

// Markers at the start of an input chunk (see serveSession): the local side calls Close() before the chunk is
// fed / the application issues a request with the given id and waits for its response before the chunk is fed.
const (
	markClose = "\x00CLOSE\x00"
	markReq   = "\x00REQ:"
)

// waiterObs is what a requester that waited for a response observed.
type waiterObs struct {
	ID  string     `json:"id"`
	Err string     `json:"err"` // error of the blocking request call itself ("" = it was handed a response)
	Ev  [][]string `json:"ev"`  // what it read from the response
}

type served struct {
	Waiters []waiterObs
	Wire    string
	Err     error
	Panic   string
	Stalled bool
	Setup   string // the session could not be made as described (not a verdict)
	Unread  int    // input bytes never consumed
	Addrs   *addrs
	Input   string // what the peer sent after negotiation
}

// serveSession makes the session r, then runs Serve with handler h over the chunks that
// render returns (everything after negotiation; the transport reports EOF after the last
// one). Between two chunks - when Serve has consumed everything before - the local side
// calls Close().
func serveSession(r sessRec, local, was string, render func(a *addrs) []string, h xmpp.Handler) served {
	return serveSessionW(r, local, was, render, h, 0)
}

// serveSessionW: wn is the number of read attempts a requester makes on the response it is handed.
func serveSessionW(r sessRec, local, was string, render func(a *addrs) []string, h xmpp.Handler, wn int) served {
	conn := vt.NewConn()
	var res served
	s, ad, err := openSession(r, local, was, conn)
	if err != nil {
		res.Setup = err.Error()
		conn.Close()
		return res
	}
	res.Addrs = ad
	pre := len(conn.WireString())
	preIn := conn.Consumed()
	chunks := render(ad)
	next := 0
	var wmu sync.Mutex
	var wwg sync.WaitGroup
	var cancels []context.CancelFunc
	// request: the application sends a get request with this id and blocks for the response (as SendIQ / UnmarshalIQ /
	// IterIQ callers do); returns when the request is on the wire, i.e. registered as pending
	request := func(id string) {
		ctx, cancel := context.WithCancel(context.Background())
		cancels = append(cancels, cancel)
		wwg.Add(1)
		gone := make(chan struct{})
		go func() {
			defer wwg.Done()
			defer close(gone)
			o := waiterObs{ID: id, Ev: [][]string{}}
			defer func() {
				if x := recover(); x != nil {
					o.Err = "panic: " + fmt.Sprint(x)
				}
				wmu.Lock()
				res.Waiters = append(res.Waiters, o)
				wmu.Unlock()
			}()
			resp, err := s.SendIQ(ctx, stanza.IQ{ID: id, Type: stanza.GetIQ}.Wrap(xmlstream.Wrap(nil, xml.StartElement{Name: xml.Name{Space: "urn:verif:q", Local: "q"}})))
			if err != nil {
				o.Err = err.Error()
				return
			}
			depth := -1 // the response's own start element comes first
			for i := 0; i < wn; i++ {
				tok, err := resp.Token()
				if tok != nil {
					if depth < 0 {
						o.Ev = append(o.Ev, []string{"S"})
						depth = 0
					} else {
						o.Ev = append(o.Ev, tokSym8(tok, &depth))
					}
				}
				if err != nil {
					if err == io.EOF {
						o.Ev = append(o.Ev, []string{"eof"})
					} else {
						o.Ev = append(o.Ev, []string{"err"})
					}
					break
				}
			}
			resp.Close()
		}()
		deadline := time.Now().Add(10 * time.Second)
		for !strings.Contains(conn.WireString()[pre:], `id="`+id+`"`) && time.Now().Before(deadline) {
			select {
			case <-gone: // the call returned without waiting (it could not send)
				return
			default:
			}
			time.Sleep(20 * time.Microsecond)
		}
	}
	plain := make([]string, len(chunks))
	for i, c := range chunks {
		for strings.HasPrefix(c, "\x00") {
			c = c[strings.Index(c[1:], "\x00")+2:]
		}
		plain[i] = c
	}
	res.Input = strings.Join(plain, "")
	feed := func() {
		// feed chunks until something is there to read; what the local side does before a chunk is in its markers
		for conn.InputEmpty() {
			if next == len(chunks) {
				conn.CloseIn()
				return
			}
			c := chunks[next]
			for strings.HasPrefix(c, "\x00") {
				end := strings.Index(c[1:], "\x00") + 2
				switch m := c[:end]; {
				case m == markClose:
					s.Close()
				case strings.HasPrefix(m, markReq):
					request(m[len(markReq) : len(m)-1])
				}
				c = c[end:]
			}
			conn.FeedString(c)
			next++
		}
	}
	feed()
	conn.Starve = feed
	done := make(chan struct{})
	go func() {
		defer close(done)
		defer func() {
			if x := recover(); x != nil {
				res.Panic = fmt.Sprint(x)
			}
		}()
		res.Err = s.Serve(h)
	}()
	select {
	case <-done:
	case <-time.After(10 * time.Second):
		res.Stalled = true
		conn.Close()
		for _, c := range cancels {
			c()
		}
		return res
	}
	// requesters still waiting (Serve ended before their response came) give up
	for _, c := range cancels {
		c()
	}
	wdone := make(chan struct{})
	go func() { wwg.Wait(); close(wdone) }()
	select {
	case <-wdone:
	case <-time.After(10 * time.Second):
		res.Stalled = true
		return res
	}
	res.Wire = conn.WireString()[pre:]
	res.Unread = len(res.Input) - (conn.Consumed() - preIn)
	return res
}

// topOut is the abstract form of one top-level element the library wrote.
type topOut struct {
	Local string `json:"local"`
	NS    string `json:"ns"` // "def" (the stream's stanza namespace) | "stream" | "foreign"
	Type  string `json:"type"`
	ID    string `json:"id"`
	HasID bool   `json:"hasid"`
	To    string `json:"to"`
	Nest  bool   `json:"nest"` // has a child named iq
	SU    bool   `json:"su"`   // carries a service-unavailable stanza error
	Cond  string `json:"cond,omitempty"`
}

// parseOut parses everything the session wrote (no stream header is written by the
// harness negotiator) into abstract top-level elements; closed reports a closing stream tag.
func parseOut(wire, ns string) (outs []topOut, closed bool, err error) {
	outs = []topOut{}
	d := xml.NewDecoder(strings.NewReader(tcpHeader(ns, "example.net", "") + wire))
	depth := 0
	var cur *topOut
	for {
		tok, e := d.Token()
		if e == io.EOF {
			return outs, closed, nil
		}
		if e != nil {
			// an unclosed synthetic header is expected when no closing tag was written
			if closed || strings.Contains(e.Error(), "unexpected EOF") {
				return outs, closed, nil
			}
			return outs, closed, e
		}
		switch t := tok.(type) {
		case xml.StartElement:
			depth++
			switch depth {
			case 2:
				if t.Name.Space == framingNS && t.Name.Local == "close" {
					closed = true // the closing element of the WebSocket framing
					continue
				}
				o := topOut{Local: t.Name.Local, NS: "foreign"}
				switch t.Name.Space {
				case ns:
					o.NS = "def"
				case streamNS:
					o.NS = "stream"
				}
				for _, a := range t.Attr {
					switch a.Name.Local {
					case "type":
						o.Type = a.Value
					case "id":
						o.ID, o.HasID = a.Value, true
					case "to":
						o.To = a.Value
					}
				}
				outs = append(outs, o)
				cur = &outs[len(outs)-1]
			case 3:
				if t.Name.Local == "iq" {
					cur.Nest = true
				}
				if cur.NS == "stream" {
					cur.Cond = t.Name.Local
				}
			case 4:
				if t.Name.Space == "urn:ietf:params:xml:ns:xmpp-stanzas" {
					cur.Cond = t.Name.Local
					if t.Name.Local == "service-unavailable" {
						cur.SU = true
					}
				}
			}
		case xml.EndElement:
			depth--
			if depth == 0 {
				closed = true
			}
		}
	}
}

func errString(e error) string {
	if e == nil {
		return ""
	}
	return e.Error()
}

func xmlEsc(s string) string {
	var b strings.Builder
	xml.EscapeText(&b, []byte(s))
	return b.String()
}
