package main

import "os"

func readFile(p string) ([]byte, error) { return os.ReadFile(p) }
