package main

// C14: replay the vectors of tla/EmitMux.tla into the real mux.ServeMux.

import (
	"bytes"
	"encoding/json"
	"encoding/xml"
	"fmt"
	"io"
	"reflect"
	"strings"
	"time"

	"mellium.im/xmlstream"
	"mellium.im/xmpp"
	"mellium.im/xmpp/mux"
	"mellium.im/xmpp/stanza"
)

type mPat struct {
	Kind string `json:"kind"`
	Type string `json:"type"`
	Sp   string `json:"sp"`
	Lo   string `json:"lo"`
}

type mName struct {
	Sp string `json:"sp"`
	Lo string `json:"lo"`
}

type mEl struct {
	Kind string  `json:"kind"`
	Sp   string  `json:"sp"`
	Lo   string  `json:"lo"`
	Type string  `json:"type"`
	ID   string  `json:"id"`
	From string  `json:"from"`
	Kids []mName `json:"kids"`
}

type mInv struct {
	H    int        `json:"h"`
	Hid  string     `json:"hid,omitempty"`
	Seen [][]string `json:"seen"`
	EOF  bool       `json:"eof"`
	Err  string     `json:"err,omitempty"` // observed only: a read error other than io.EOF
}

type mWire struct {
	Name string `json:"name"`
	Type string `json:"type"`
	ID   string `json:"id"`
	To   string `json:"to"`
	Cond string `json:"cond"`
}

type mAlt struct {
	Inv   []mInv  `json:"inv"`
	Wire  []mWire `json:"wire"`
	Wire2 []mWire `json:"wire2,omitempty"` // nested routing: what the multiplexer wrote for the inner stanza
}

// mNest: the handler of invocation number At of the vector's stanza routes stanza El through the SAME
// multiplexer (own reader, own encoder), before ("pre") or after ("post") it reads what it was handed.
type mNest struct {
	At    int    `json:"at"`
	When  string `json:"when"`
	El    mEl    `json:"el"`
	Progs []int  `json:"progs"`
}

type mVec struct {
	KT    int    `json:"kt"`
	Mask  int    `json:"mask"`
	Oth   int    `json:"oth"`
	Extra []int  `json:"extra"` // further patterns of the universe by index
	El    mEl    `json:"el"`
	Progs []int  `json:"progs"`
	Nest  *mNest `json:"nest,omitempty"`
	Ctor  string `json:"ctor,omitempty"` // replay of a recorded case: the construction to use
	Alts  []mAlt `json:"alts"`
}

type mReg struct {
	KT      int     `json:"kt"`
	NI      int     `json:"ni"`
	Pre     int     `json:"pre"`
	Form    string  `json:"form"`
	El      mEl     `json:"el"`
	Refused bool    `json:"refused"`
	Inv     []mInv  `json:"inv"`
	Wire    []mWire `json:"wire"`
}

type mUniverse struct {
	Pats   []mPat   `json:"pats"`
	Others [][]int  `json:"others"`
	Ctors  []string `json:"ctors"` // ways of making the multiplexer
}

// construct makes the multiplexer of a vector in one of the ways the package supports: "new" mux.New(ns,
// options...), "zero" the options applied to the zero value (the pattern tables are allocated lazily for that),
// "late" the options applied to the result of mux.New(ns), "afteruse" half of them given to New, an element
// routed, then the rest applied. What is looked up afterwards must not depend on it.
func construct(ctor, ns string, opts []mux.Option) *mux.ServeMux {
	switch ctor {
	case "zero":
		m := &mux.ServeMux{}
		for _, o := range opts {
			o(m)
		}
		return m
	case "late":
		m := mux.New(ns)
		for _, o := range opts {
			o(m)
		}
		return m
	case "afteruse":
		h := len(opts) / 2
		m := mux.New(ns, opts[:h]...)
		// first use: an element nothing is registered for (and a stanza: the routers have run once)
		for _, probe := range []string{`<probe xmlns="urn:verif:probe"/>`, `<presence xmlns="` + ns + `" type="probe"><probe xmlns="urn:verif:probe"/></presence>`} {
			d := xml.NewDecoder(strings.NewReader(probe))
			tok, _ := d.Token()
			start := tok.(xml.StartElement)
			var sink bytes.Buffer
			_ = m.HandleXMPP(struct {
				xml.TokenReader
				xmlstream.Encoder
			}{TokenReader: d, Encoder: recEncoder{xml.NewEncoder(&sink)}}, &start)
		}
		for _, o := range opts[h:] {
			o(m)
		}
		return m
	}
	return mux.New(ns, opts...)
}

// symbol <-> namespace URI. "NS" is the stanza namespace of the multiplexer.
func nsURI(sym, stanzaNS string) string {
	switch sym {
	case "":
		return ""
	case "NS":
		return stanzaNS
	}
	return "urn:verif:" + strings.ToLower(sym)
}

func nsSym(uri, stanzaNS string) string {
	switch {
	case uri == "":
		return ""
	case uri == stanzaNS:
		return "NS"
	case strings.HasPrefix(uri, "urn:verif:"):
		return strings.ToUpper(uri[len("urn:verif:"):])
	}
	return "?" + uri
}

const (
	addrFrom = "juliet@example.com/balcony"
	addrTo   = "romeo@example.net"
)

var kindLocal = map[string]string{"iq": "iq", "msg": "message", "pres": "presence"}

// texty: children carry character data of their own ("c-<local>"), which no handler is told
// about by the specification: it is skipped when the handler's view is compared, but checked
var texty bool

// formatted: the peer sends formatted XML - white space before every child of an iq and before its end tag
// (the multiplexer skips it: an iq "with white space only" is an empty iq, the payload is the first ELEMENT)
var formatted bool

func renderEl(e mEl, stanzaNS string) string {
	var b strings.Builder
	if e.Kind == "top" {
		fmt.Fprintf(&b, `<%s xmlns="%s"/>`, e.Lo, nsURI(e.Sp, stanzaNS))
		return b.String()
	}
	local := kindLocal[e.Kind]
	fmt.Fprintf(&b, `<%s xmlns="%s"`, local, stanzaNS)
	if e.Type != "" {
		fmt.Fprintf(&b, ` type="%s"`, e.Type)
	}
	if e.ID != "" {
		fmt.Fprintf(&b, ` id="%s"`, e.ID)
	}
	if e.From != "" {
		fmt.Fprintf(&b, ` from="%s"`, addrFrom)
	}
	fmt.Fprintf(&b, ` to="%s">`, addrTo)
	for _, k := range e.Kids {
		if formatted && e.Kind == "iq" {
			b.WriteString("\n  ")
		}
		if k.Sp == "#" {
			b.WriteString("hello")
			continue
		}
		if texty {
			fmt.Fprintf(&b, `<%s xmlns="%s">c-%s</%s>`, k.Lo, nsURI(k.Sp, stanzaNS), k.Lo, k.Lo)
			continue
		}
		fmt.Fprintf(&b, `<%s xmlns="%s"/>`, k.Lo, nsURI(k.Sp, stanzaNS))
	}
	if formatted && e.Kind == "iq" {
		b.WriteString("\n")
	}
	fmt.Fprintf(&b, `</%s>`, local)
	return b.String()
}

// muxRun is the state of one vector run: the invocation log the recording handlers fill.
type muxRun struct {
	ns    string
	progs []int
	depth int
	log   []mInv

	// nested routing (see mNest)
	m        *mux.ServeMux
	nest     *mNest
	inInner  bool // the inner stanza is being routed
	n1, n2   int  // invocations so far for the outer / the inner stanza
	entered  bool
	wire2    []mWire
	innerErr string
	goStyle  bool // the inner stanza is routed by ANOTHER goroutine while the outer handler waits for it
	stalled  bool
}

// begin counts an invocation for the stanza being routed and returns its number (1-based) and the number
// of tokens its handler tries to read.
func (r *muxRun) begin() (n, k int) {
	if r.inInner {
		r.n2++
		if r.nest != nil && r.n2 <= len(r.nest.Progs) {
			k = r.nest.Progs[r.n2-1]
		}
		return r.n2, k
	}
	r.n1++
	if r.n1 <= len(r.progs) {
		k = r.progs[r.n1-1]
	}
	return r.n1, k
}

// reenter routes the inner stanza through the multiplexer that is just running the calling handler.
func (r *muxRun) reenter() {
	r.entered, r.inInner = true, true
	route := func() {
		w, e, p := r.dispatch(r.m, r.nest.El)
		r.wire2 = w
		if p != "" {
			e += " panic: " + p
		}
		r.innerErr = e
	}
	if r.goStyle {
		done := make(chan struct{})
		go func() { defer close(done); route() }()
		select {
		case <-done:
		case <-time.After(30 * time.Second):
			// (a multiplexer that serialises its callers would block here for ever: reported as a stall, not judged)
			r.stalled = true
		}
	} else {
		route()
	}
	r.inInner = false
}

// tokSym projects a token onto the spec's token alphabet; depth tracks the nesting so
// that the stanza's own start and end elements map to S and E.
func tokSym(tok xml.Token, depth *int, ns string) []string {
	switch t := tok.(type) {
	case xml.StartElement:
		*depth++
		if *depth == 1 {
			// the stanza's own start element: its identity is the id attribute
			id := ""
			for _, a := range t.Attr {
				if a.Name.Local == "id" && a.Name.Space == "" {
					id = a.Value
				}
			}
			return []string{"S", "", id}
		}
		return []string{"s", nsSym(t.Name.Space, ns), t.Name.Local}
	case xml.EndElement:
		*depth--
		if *depth == 0 {
			return []string{"E", "", ""}
		}
		return []string{"e", nsSym(t.Name.Space, ns), t.Name.Local}
	case xml.CharData:
		if string(t) != "hello" {
			// the text the handler is shown is not the text of the stanza
			return []string{"t", "corrupt:" + string(t), ""}
		}
		return []string{"t", "", ""}
	}
	return []string{fmt.Sprintf("?%T", tok), "", ""}
}

// readProg makes a message/presence handler read k tokens and records what it got.
func (r *muxRun) readProg(h int, hid string, t xml.TokenReader) {
	n, k := r.begin()
	here := r.nest != nil && !r.inInner && !r.entered && n == r.nest.At
	if here && r.nest.When == "pre" {
		r.reenter()
	}
	defer func() {
		if here && r.nest.When == "post" {
			r.reenter()
		}
	}()
	inv := mInv{H: h, Hid: hid, Seen: [][]string{}}
	depth := 0
	last := ""
	for i := 0; i < k; i++ {
		tok, err := t.Token()
		if cd, ok := tok.(xml.CharData); ok && depth >= 2 && err == nil {
			// text inside a child (texty rendering): not a token of the specification's alphabet
			if string(cd) != "c-"+last {
				inv.Seen = append(inv.Seen, []string{"t", "corrupt:" + string(cd), last})
			}
			i--
			continue
		}
		if st, ok := tok.(xml.StartElement); ok {
			last = st.Name.Local
		}
		if tok != nil {
			inv.Seen = append(inv.Seen, tokSym(tok, &depth, r.ns))
		}
		if err == io.EOF {
			if tok == nil {
				inv.EOF = true
			}
			// a token delivered together with io.EOF: the next read must report the end
			if tok != nil && i+1 < k {
				continue
			}
			break
		}
		if err != nil {
			inv.Err = err.Error()
			break
		}
		if tok == nil {
			inv.Err = "nil token and nil error"
			break
		}
	}
	r.log = append(r.log, inv)
}

func (r *muxRun) option(idx int, p mPat, hid string) mux.Option {
	name := xml.Name{Space: nsURI(p.Sp, r.ns), Local: p.Lo}
	switch p.Kind {
	case "top":
		return mux.Handle(name, xmpp.HandlerFunc(func(t xmlstream.TokenReadEncoder, start *xml.StartElement) error {
			r.begin()
			r.log = append(r.log, mInv{H: idx, Hid: hid, Seen: [][]string{}})
			return nil
		}))
	case "iq":
		return mux.IQ(stanza.IQType(p.Type), name, mux.IQHandlerFunc(func(iq stanza.IQ, t xmlstream.TokenReadEncoder, start *xml.StartElement) error {
			r.begin()
			r.log = append(r.log, mInv{H: idx, Hid: hid, Seen: [][]string{}})
			return nil
		}))
	case "msg":
		return mux.Message(stanza.MessageType(p.Type), name, mux.MessageHandlerFunc(func(m stanza.Message, t xmlstream.TokenReadEncoder) error {
			r.readProg(idx, hid, t)
			return nil
		}))
	case "pres":
		return mux.Presence(stanza.PresenceType(p.Type), name, mux.PresenceHandlerFunc(func(m stanza.Presence, t xmlstream.TokenReadEncoder) error {
			r.readProg(idx, hid, t)
			return nil
		}))
	}
	panic("unknown pattern kind " + p.Kind)
}

// nilOption registers pattern p with a nil handler: as a nil interface value
// (form "nil") or as a nil func converted by the *Func helpers (form "nilfunc").
func nilOption(p mPat, ns, form string) mux.Option {
	name := xml.Name{Space: nsURI(p.Sp, ns), Local: p.Lo}
	fn := form == "nilfunc"
	switch p.Kind {
	case "top":
		if fn {
			return mux.HandleFunc(name, nil)
		}
		return mux.Handle(name, nil)
	case "iq":
		if fn {
			return mux.IQFunc(stanza.IQType(p.Type), name, nil)
		}
		return mux.IQ(stanza.IQType(p.Type), name, nil)
	case "msg":
		if fn {
			return mux.MessageFunc(stanza.MessageType(p.Type), name, nil)
		}
		return mux.Message(stanza.MessageType(p.Type), name, nil)
	case "pres":
		if fn {
			return mux.PresenceFunc(stanza.PresenceType(p.Type), name, nil)
		}
		return mux.Presence(stanza.PresenceType(p.Type), name, nil)
	}
	panic("unknown pattern kind " + p.Kind)
}

type recEncoder struct {
	*xml.Encoder
}

// parseWire projects what the multiplexer wrote onto the spec's abstract elements.
func parseWire(b []byte, ns string) ([]mWire, error) {
	out := []mWire{}
	d := xml.NewDecoder(bytes.NewReader(b))
	depth := 0
	var cur *mWire
	for {
		tok, err := d.Token()
		if err == io.EOF {
			break
		}
		if err != nil {
			return out, err
		}
		switch t := tok.(type) {
		case xml.StartElement:
			depth++
			if depth == 1 {
				out = append(out, mWire{Name: t.Name.Local})
				cur = &out[len(out)-1]
				if t.Name.Space != ns {
					cur.Name = "{" + t.Name.Space + "}" + t.Name.Local
				}
				for _, a := range t.Attr {
					switch a.Name.Local {
					case "type":
						cur.Type = a.Value
					case "id":
						cur.ID = a.Value
					case "to":
						cur.To = a.Value
					}
				}
			}
			if depth == 3 && t.Name.Space == "urn:ietf:params:xml:ns:xmpp-stanzas" {
				cur.Cond = t.Name.Local
			}
		case xml.EndElement:
			depth--
		}
	}
	return out, nil
}

// dispatch sends one element through the multiplexer; panics of library code are caught.
func (r *muxRun) dispatch(m *mux.ServeMux, e mEl) (wire []mWire, retErr string, panicked string) {
	text := renderEl(e, r.ns)
	d := xml.NewDecoder(strings.NewReader(text))
	tok, err := d.Token()
	if err != nil {
		die("driver: cannot parse own rendering %q: %v", text, err)
	}
	start := tok.(xml.StartElement)
	var rd xml.TokenReader = d
	if sliceEOF {
		// an xml.TokenReader that is not a decoder: the tokens of the stanza from a slice, the last
		// one handed out together with io.EOF (which the interface allows)
		var toks []xml.Token
		for {
			t2, e2 := d.Token()
			if t2 != nil {
				toks = append(toks, xml.CopyToken(t2))
			}
			if e2 != nil {
				break
			}
		}
		rd = &sliceReader{toks: toks}
	}
	var buf bytes.Buffer
	enc := xml.NewEncoder(&buf)
	func() {
		defer func() {
			if x := recover(); x != nil {
				panicked = fmt.Sprint(x)
			}
		}()
		err := m.HandleXMPP(struct {
			xml.TokenReader
			xmlstream.Encoder
		}{TokenReader: rd, Encoder: recEncoder{enc}}, &start)
		if err != nil {
			retErr = err.Error()
		}
	}()
	enc.Flush()
	wire, perr := parseWire(buf.Bytes(), r.ns)
	if perr != nil {
		retErr += " | unparsable output: " + perr.Error() + ": " + buf.String()
	}
	return wire, retErr, panicked
}

// sliceEOF selects the reader style of dispatch
var sliceEOF bool

type sliceReader struct {
	toks []xml.Token
	i    int
}

func (r *sliceReader) Token() (xml.Token, error) {
	if r.i >= len(r.toks) {
		return nil, io.EOF
	}
	t := r.toks[r.i]
	r.i++
	if r.i == len(r.toks) {
		return t, io.EOF
	}
	return t, nil
}

func wireExpected(w []mWire) []mWire {
	// the symbolic "f" of the spec is the rendered from address
	out := make([]mWire, len(w))
	for i, x := range w {
		if x.To == "f" {
			x.To = addrFrom
		}
		out[i] = x
	}
	return out
}

func invEqual(a, b []mInv, withHid bool) bool {
	if len(a) != len(b) {
		return false
	}
	for i := range a {
		if a[i].H != b[i].H || a[i].EOF != b[i].EOF || a[i].Err != b[i].Err {
			return false
		}
		if withHid && a[i].Hid != b[i].Hid {
			return false
		}
		if len(a[i].Seen) != len(b[i].Seen) {
			return false
		}
		for j := range a[i].Seen {
			if !reflect.DeepEqual(a[i].Seen[j], b[i].Seen[j]) {
				return false
			}
		}
	}
	return true
}

func wireEqual(a, b []mWire) bool {
	if len(a) != len(b) {
		return false
	}
	for i := range a {
		if a[i] != b[i] {
			return false
		}
	}
	return true
}

func muxMain(args []string) {
	if len(args) < 4 {
		die("usage: serve mux <universe.json> <reg.ndjson|-> <out.ndjson> <vectors.ndjson>...")
	}
	var u mUniverse
	ub, err := readFile(args[0])
	if err != nil {
		die("%v", err)
	}
	if err := json.Unmarshal(ub, &u); err != nil {
		die("universe: %v", err)
	}
	out := newOut(args[2])
	defer out.close()
	nss := []string{stanza.NSClient, stanza.NSServer}
	// how the stanza reaches the multiplexer: straight from an xml.Decoder (whose character data is only
	// valid until the next read), from a token slice with the last token delivered together with io.EOF,
	// and with character data inside the children
	styles := []string{"decoder", "slice-eof", "texty", "formatted"}
	var evals, mism, nontrivial, regs, nested, enteredN, stalls int
	samples := []interface{}{}
	distinct := map[string]bool{}

	goStyle := false
	ctor := "new"
	if len(u.Ctors) == 0 {
		u.Ctors = []string{"new"}
	}
	ctorUsed := map[string]int{}
	nline := 0
	runVec := func(v mVec, ns string) (obs mAlt, retErr, panicked, regPanic string) {
		r := &muxRun{ns: ns, progs: v.Progs, nest: v.Nest, goStyle: goStyle}
		// table = own(kt, mask) + others(kt)
		idx := []int{}
		for i := 0; i < 9; i++ {
			if v.Mask&(1<<uint(i)) != 0 {
				idx = append(idx, (v.KT-1)*9+i+1)
			}
		}
		if v.Oth == 1 {
			idx = append(idx, u.Others[v.KT-1]...)
		}
		idx = append(idx, v.Extra...)
		opts := make([]mux.Option, 0, len(idx))
		for _, i := range idx {
			opts = append(opts, r.option(i, u.Pats[i-1], ""))
		}
		var m *mux.ServeMux
		func() {
			defer func() {
				if x := recover(); x != nil {
					regPanic = fmt.Sprint(x)
				}
			}()
			m = construct(ctor, ns, opts)
		}()
		if regPanic != "" {
			return
		}
		r.m = m
		wire, re, pa := r.dispatch(m, v.El)
		if r.log == nil {
			r.log = []mInv{}
		}
		if r.innerErr != "" {
			re += " | routing the inner stanza: " + r.innerErr
		}
		if r.stalled {
			re += " | STALL: the nested routing did not return within 30s"
			stalls++
		}
		if r.entered {
			enteredN++
			if r.wire2 == nil {
				r.wire2 = []mWire{}
			}
		}
		return mAlt{Inv: r.log, Wire: wire, Wire2: r.wire2}, re, pa, ""
	}

	for _, path := range args[3:] {
		eachLine(path, func(line []byte) {
			var v mVec
			if err := json.Unmarshal(line, &v); err != nil {
				die("vector: %v: %s", err, line)
			}
			nline++
			nev := 0
			for _, ns := range nss {
				for _, style := range append(styles, "decoder+goroutine") {
					goStyle = strings.HasSuffix(style, "+goroutine")
					if goStyle && v.Nest == nil {
						continue
					}
					base := strings.TrimSuffix(style, "+goroutine")
					sliceEOF, texty, formatted = base == "slice-eof", base == "texty", base == "formatted"
					if formatted && v.El.Kind != "iq" {
						continue
					}
					evals++
					if v.Nest != nil {
						nested++
					}
					// the construction rotates against namespace and reader style: every vector meets every construction
					// (6 to 8 evaluations per vector), every (construction, namespace, style) triple recurs every 4 vectors
					ctor = u.Ctors[(nline+nev)%len(u.Ctors)]
					if v.Ctor != "" {
						ctor = v.Ctor
					}
					nev++
					ctorUsed[ctor]++
					obs, retErr, panicked, regPanic := runVec(v, ns)
					ok := regPanic == "" && panicked == "" && retErr == ""
					if ok {
						ok = false
						for _, a := range v.Alts {
							if invEqual(a.Inv, obs.Inv, false) && wireEqual(wireExpected(a.Wire), obs.Wire) && wireEqual(wireExpected(a.Wire2), obs.Wire2) {
								ok = true
								break
							}
						}
					}
					if ok && evals%4 == 0 {
						// determinism: a second run must give the same observation
						obs2, _, _, _ := runVec(v, ns)
						if !invEqual(obs.Inv, obs2.Inv, false) || !wireEqual(obs.Wire, obs2.Wire) || !wireEqual(obs.Wire2, obs2.Wire2) {
							ok = false
							retErr = "non-deterministic: second run differs"
						}
					}
					if len(obs.Inv) > 0 || len(obs.Wire) > 0 {
						nontrivial++
					}
					key := fmt.Sprintf("%d/%v/%v", v.KT, obs.Inv, obs.Wire)
					if len(distinct) < 200000 {
						distinct[key] = true
					}
					if !ok {
						mism++
						inner := ""
						if v.Nest != nil {
							inner = renderEl(v.Nest.El, ns)
						}
						v := v
						v.Ctor = ctor
						out.put(map[string]interface{}{"kind": "vector", "ns": ns, "style": style, "ctor": ctor, "vector": v, "xml": renderEl(v.El, ns), "inner_xml": inner,
							"observed": obs, "error": retErr, "panic": panicked, "register_panic": regPanic})
					} else if len(samples) < 3 && len(obs.Inv) >= 2 && evals%97 == 0 {
						samples = append(samples, map[string]interface{}{"vector": v, "style": style, "xml": renderEl(v.El, ns), "observed": obs})
					}
				}
				sliceEOF, texty, formatted, goStyle = false, false, false, false
			}
		})
	}

	if args[1] != "-" {
		eachLine(args[1], func(line []byte) {
			var v mReg
			if err := json.Unmarshal(line, &v); err != nil {
				die("reg vector: %v: %s", err, line)
			}
			for _, ns := range nss {
				regs++
				r := &muxRun{ns: ns, progs: []int{0}}
				pidx := (v.KT-1)*9 + v.NI
				p := u.Pats[pidx-1]
				var m *mux.ServeMux
				setup := ""
				func() {
					defer func() {
						if x := recover(); x != nil {
							setup = fmt.Sprint(x)
						}
					}()
					// (made by New, or the zero value with the option applied to it, alternating)
					first := []mux.Option{}
					if v.Pre == 1 {
						first = append(first, r.option(pidx, p, "h1"))
					}
					if (regs+regs/4)%2 == 0 {
						m = construct("zero", ns, first)
					} else {
						m = construct("new", ns, first)
					}
				}()
				if setup != "" {
					mism++
					out.put(map[string]interface{}{"kind": "reg", "ns": ns, "vector": v, "error": "first registration panicked: " + setup})
					continue
				}
				refused := false
				func() {
					defer func() {
						if x := recover(); x != nil {
							refused = true
						}
					}()
					if v.Form == "h2" {
						r.option(pidx, p, "h2")(m)
					} else {
						nilOption(p, ns, v.Form)(m)
					}
				}()
				wire, retErr, panicked := r.dispatch(m, v.El)
				if r.log == nil {
					r.log = []mInv{}
				}
				exp := make([]mInv, len(v.Inv))
				for i, x := range v.Inv {
					x.Seen = [][]string{}
					exp[i] = x
				}
				obs := make([]mInv, len(r.log))
				for i, x := range r.log {
					x.Seen = [][]string{}
					x.EOF = false
					obs[i] = x
				}
				if refused != v.Refused || panicked != "" || retErr != "" || !invEqual(exp, obs, true) || !wireEqual(wireExpected(v.Wire), wire) {
					mism++
					out.put(map[string]interface{}{"kind": "reg", "ns": ns, "vector": v, "refused": refused, "xml": renderEl(v.El, ns),
						"observed": mAlt{Inv: r.log, Wire: wire}, "error": retErr, "panic": panicked})
				}
			}
		})
	}
	summary(map[string]interface{}{"evaluations": evals, "registration_cases": regs, "mismatches": mism,
		"nested_evaluations": nested, "nested_entered": enteredN, "stalls": stalls, "constructions": ctorUsed,
		"nontrivial": nontrivial, "distinct_observations": len(distinct), "samples": samples})
}
