// Command serve is the conformance driver of the sequential serve family:
//
//	serve mux   <universe.json> <reg.ndjson|-> <out.ndjson> <vectors.ndjson>...   (C14)
//	serve reply <out.ndjson> <vectors.ndjson>...                                  (C07)
//	serve read  <out.ndjson> <vectors.ndjson>...                                  (C08)
//
// Every sub-command replays TLC-generated vectors (input + expectation computed by the
// specification) into the real library, writes one line per mismatch to out.ndjson and
// prints "SUMMARY {json}" as its last line. Exit status is 0 even when there are
// mismatches (the check decides); a non-zero status means the driver itself failed.
package main

import (
	"bufio"
	"encoding/json"
	"fmt"
	"os"
)

func die(f string, a ...interface{}) {
	fmt.Fprintf(os.Stderr, f+"\n", a...)
	os.Exit(3)
}

// eachLine calls f with every non-empty line of the ndjson file.
func eachLine(path string, f func(line []byte)) {
	lineNo = 0
	fh, err := os.Open(path)
	if err != nil {
		die("open %s: %v", path, err)
	}
	defer fh.Close()
	sc := bufio.NewScanner(fh)
	sc.Buffer(make([]byte, 1<<20), 1<<26)
	for sc.Scan() {
		b := sc.Bytes()
		if len(b) == 0 {
			continue
		}
		lineNo++
		f(b)
	}
	if err := sc.Err(); err != nil {
		die("read %s: %v", path, err)
	}
}

// lineNo is the 1-based number of the vector (non-empty line) being replayed within its file.
var lineNo int

type outFile struct {
	f *os.File
	w *bufio.Writer
	n int
}

func newOut(path string) *outFile {
	f, err := os.Create(path)
	if err != nil {
		die("create %s: %v", path, err)
	}
	return &outFile{f: f, w: bufio.NewWriterSize(f, 1<<20)}
}

func (o *outFile) put(v map[string]interface{}) {
	v["line"] = lineNo
	b, err := json.Marshal(v)
	if err != nil {
		die("marshal: %v", err)
	}
	o.w.Write(b)
	o.w.WriteByte('\n')
	o.n++
}

func (o *outFile) close() {
	o.w.Flush()
	o.f.Close()
}

func classNames(m map[string]int) []string {
	names := make([]string, 0, len(m))
	for k := range m {
		names = append(names, k)
	}
	return names
}

func summary(v interface{}) {
	b, _ := json.Marshal(v)
	fmt.Printf("SUMMARY %s\n", b)
}

func main() {
	if len(os.Args) < 2 {
		die("usage: serve mux|reply|read ...")
	}
	switch os.Args[1] {
	case "mux":
		muxMain(os.Args[2:])
	case "reply":
		replyMain(os.Args[2:])
	case "read":
		readMain(os.Args[2:])
	default:
		die("unknown sub-command %q", os.Args[1])
	}
}
