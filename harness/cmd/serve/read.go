package main

// C08: replay the vectors of tla/EmitServeLoop.tla (Which = "c08") into real served sessions.

import (
	"encoding/json"
	"encoding/xml"
	"errors"
	"fmt"
	"io"
	"reflect"
	"strings"

	"mellium.im/xmlstream"
	"mellium.im/xmpp"
	"mellium.im/xmpp/stream"
)

type qItem struct {
	K    string     `json:"k"`
	Kind string     `json:"kind,omitempty"`
	From string     `json:"from,omitempty"`
	Body [][]string `json:"body,omitempty"`
	Cond string     `json:"cond,omitempty"`
}

type qProg struct {
	N    int    `json:"n"`
	Mode string `json:"mode"`
}

type qInv struct {
	Kind string     `json:"kind"`
	From string     `json:"from"`
	Ev   [][]string `json:"ev"`
	Free int        `json:"free"`
	Win  [][]string `json:"win,omitempty"`
}

type qVec struct {
	Sess  sessRec `json:"sess"`
	Local string  `json:"local"` // the specification's address rule for the session: A | H | B
	Was   string  `json:"was"`   // an address that is not the session's: A | H | X
	Items []qItem `json:"items"`
	// Styles, when set (replay of a recorded case), are the rendering styles to run
	Styles []int      `json:"styles,omitempty"`
	Progs  []qProg    `json:"progs"`
	WN     int        `json:"wn"`    // read attempts of a requester that is handed the response it waits for
	Resps  int        `json:"resps"` // responses handed to requesters before the session ends
	Inv    []qInv     `json:"inv"`
	Out    [][]string `json:"out"`
}

const nsStreams = "urn:ietf:params:xml:ns:xmpp-streams"

func renderStop(kind string) string {
	switch kind {
	case "comment":
		return "<!-- verif -->"
	case "pi":
		return "<?verif pi?>"
	case "directive":
		return "<!DOCTYPE verif>"
	case "serr":
		return `<stream:error><host-unknown xmlns="` + nsStreams + `"/></stream:error>`
	case "restart":
		return `<stream:stream version="1.0"/>`
	case "otherstream":
		return `<stream:features/>`
	}
	panic("unknown construct " + kind)
}

// stanzaLocal is the stanza name used by rendering style st (the property speaks of stanzas of
// every kind; attribute order is the peer's choice)
func stanzaLocal(st int) string {
	return [...]string{"message", "message", "presence", "iq"}[st%4]
}

// render8 writes the items as the peer sends them; a local Close() ("lclose") splits the
// input into chunks.
func render8(items []qItem, st int, a *addrs) []string {
	reqs := ""
	out := render8b(items, st, a, &reqs)
	out[0] = reqs + out[0]
	return out
}

func render8b(items []qItem, st int, a *addrs, preqs *string) []string {
	chunks := []string{}
	reqs := ""
	defer func() { *preqs = reqs }()
	var b strings.Builder
	for idx, it := range items {
		switch it.K {
		case "el":
			local := stanzaLocal(st)
			if it.Kind == "resp" {
				// the response to a request of the application that is pending since the session began (see serveSession)
				reqs += markReq + fmt.Sprintf("rq%d", idx+1) + "\x00"
				local = "iq"
			}
			from := ""
			switch it.From {
			case "own":
				from = fmt.Sprintf(` from="%s"`, a.Own)
			case "ownfull":
				from = fmt.Sprintf(` from="%s"`, a.OwnFull)
			case "was":
				from = fmt.Sprintf(` from="%s"`, a.Was)
			case "peer":
				from = fmt.Sprintf(` from="%s"`, a.Peer)
			case "none":
			default:
				panic("unknown from " + it.From)
			}
			if it.Kind == "resp" {
				fmt.Fprintf(&b, `<iq type="result" id="rq%d"%s to="%s">`, idx+1, from, a.OwnFull)
			} else if it.Kind == "foreign" {
				local = "x"
				fmt.Fprintf(&b, `<x xmlns="%s"%s to="%s">`, nsOther, from, a.OwnFull)
			} else {
				switch st % 4 {
				case 0: // from right after the type
					fmt.Fprintf(&b, `<message type="chat"%s to="%s">`, from, a.OwnFull)
				case 1: // from last, after id and type
					fmt.Fprintf(&b, `<message id="m1" type="chat" to="%s"%s>`, a.OwnFull, from)
				case 2:
					fmt.Fprintf(&b, `<presence type="unavailable" id="p1" xml:lang="en"%s>`, from)
				case 3: // a response nobody waits for
					fmt.Fprintf(&b, `<iq to="%s" id="zq" type="result"%s>`, a.OwnFull, from)
				}
			}
			for _, t := range it.Body {
				switch t[0] {
				case "s":
					b.WriteString("<" + t[1] + ">")
				case "e":
					b.WriteString("</" + t[1] + ">")
				case "t":
					b.WriteString("text")
				case "w":
					b.WriteString(" \n\t")
				case "c":
					b.WriteString(renderStop(t[1]))
				case "bad":
					b.WriteString("</zz>")
				}
			}
			b.WriteString("</" + local + ">")
		case "ws":
			b.WriteString(" \t\r\n ")
		case "utext": // Unicode spaces that are not XML white space (XML 1.0 production S is #x20 | #x9 | #xD | #xA only)
			b.WriteString("\u00a0\u2003\u2028\u3000\u0085")
		case "mtext":
			b.WriteString(" \n\u00a0\t \u2003\n")
		case "lclose":
			chunks = append(chunks, b.String())
			b.Reset()
			b.WriteString(markClose)
		case "text":
			b.WriteString("junk")
		case "comment", "pi", "directive", "otherstream":
			b.WriteString(renderStop(it.K))
		case "restart":
			b.WriteString(`<stream:stream to="example.net" version="1.0" xmlns="` + a.NS + `" xmlns:stream="` + streamNS + `">`)
		case "serr":
			b.WriteString(`<stream:error><` + it.Cond + ` xmlns="` + nsStreams + `"/></stream:error>`)
		case "close":
			b.WriteString("</stream:stream>")
		case "eof":
			return append(chunks, b.String()) // the transport ends here
		case "badtop":
			b.WriteString("</zz>")
		default:
			panic("unknown item " + it.K)
		}
	}
	return append(chunks, b.String())
}

type obsInv struct {
	Kind string     `json:"kind"`
	From string     `json:"from"` // "none" (no attribute) or the value ("" when empty)
	Ev   [][]string `json:"ev"`
}

func tokSym8(tok xml.Token, depth *int) []string {
	switch t := tok.(type) {
	case xml.StartElement:
		*depth++
		return []string{"s", t.Name.Local}
	case xml.EndElement:
		if *depth == 0 {
			*depth--
			return []string{"E"}
		}
		*depth--
		return []string{"e", t.Name.Local}
	case xml.CharData:
		if strings.TrimLeft(string(t), " \t\r\n") == "" {
			return []string{"w"}
		}
		return []string{"t"}
	case xml.Comment:
		return []string{"c", "comment"}
	case xml.ProcInst:
		return []string{"c", "pi"}
	case xml.Directive:
		return []string{"c", "directive"}
	}
	return []string{fmt.Sprintf("?%T", tok)}
}

func isSubseq(a, b [][]string) bool {
	j := 0
	for _, x := range a {
		for j < len(b) && !reflect.DeepEqual(x, b[j]) {
			j++
		}
		if j == len(b) {
			return false
		}
		j++
	}
	return true
}

// checkInv compares one observed invocation with the specification's expectation.
var wantStanza = "message"

func checkInv(exp qInv, obs obsInv, a *addrs) string {
	wantKind := map[string]string{"stanza": wantStanza, "foreign": "x"}[exp.Kind]
	if obs.Kind != wantKind {
		return fmt.Sprintf("handler invoked for <%s>, expected <%s>", obs.Kind, wantKind)
	}
	switch exp.From {
	case "any":
	case "none":
		if obs.From != "none" {
			return "from attribute presented as " + obs.From + ", expected none"
		}
	case "empty":
		if obs.From != "" && obs.From != "none" {
			return "from equal to the session's own bare address (LocalAddr().Bare() = " + a.Own + ") presented as " + obs.From + ", expected empty"
		}
	case "peer", "ownfull", "was":
		want := map[string]string{"peer": a.Peer, "ownfull": a.OwnFull, "was": a.Was}[exp.From]
		if obs.From != want {
			return "from " + want + " (not the session's own bare address " + a.Own + ") presented as " + obs.From
		}
	default:
		return "driver: unknown expected from " + exp.From
	}
	if len(obs.Ev) != len(exp.Ev)+exp.Free {
		return fmt.Sprintf("handler observed %d events, expected %d", len(obs.Ev), len(exp.Ev)+exp.Free)
	}
	for i := range exp.Ev {
		if !reflect.DeepEqual(exp.Ev[i], obs.Ev[i]) {
			return fmt.Sprintf("event %d: handler observed %v, expected %v", i+1, obs.Ev[i], exp.Ev[i])
		}
	}
	// the undetermined tail: still nothing outside the element, no stream-level token
	toks := [][]string{}
	for _, e := range obs.Ev {
		switch e[0] {
		case "err", "eof":
		case "c":
			return fmt.Sprintf("a stream-level token reached the handler: %v", e)
		default:
			toks = append(toks, e)
		}
	}
	win := [][]string{}
	for _, t := range exp.Win {
		if t[0] == "c" || t[0] == "bad" {
			continue
		}
		win = append(win, t)
	}
	if !isSubseq(toks, win) {
		return fmt.Sprintf("handler obtained tokens %v that are not (in order) within its element %v", toks, win)
	}
	return ""
}

func outcomeClass(err error) []string {
	if err == nil {
		return []string{"nil"}
	}
	var se stream.Error
	if errors.As(err, &se) {
		return []string{"serr", se.Err}
	}
	return []string{"err"}
}

func readMain(args []string) {
	if len(args) < 2 {
		die("usage: serve read <out.ndjson> <vectors.ndjson>...")
	}
	out := newOut(args[0])
	defer out.close()
	var evals, mism, stalls, setups, nontrivial, invocations, nvec int
	kinds := map[string]int{}
	classes := map[string]int{}
	samples := []interface{}{}
	for _, path := range args[1:] {
		eachLine(path, func(line []byte) {
			var v qVec
			if err := json.Unmarshal(line, &v); err != nil {
				die("vector: %v: %s", err, line)
			}
			nvec++
			kinds[v.Sess.String()]++
			// two of the four rendering styles per vector (stanza kind, attribute order), alternating
			styles := []int{(nvec + nvec/4) % 4, (nvec + 2 + nvec/4) % 4}
			if len(v.Styles) > 0 {
				styles = v.Styles
			}
			for ri, style := range styles {
				wantStanza = stanzaLocal(style)
				evals++
				render := func(a *addrs) []string { return render8(v.Items, style, a) }
				log := []obsInv{}
				h := xmpp.HandlerFunc(func(t xmlstream.TokenReadEncoder, start *xml.StartElement) error {
					p := v.Progs[len(log)%len(v.Progs)]
					o := obsInv{Kind: start.Name.Local, From: "none", Ev: [][]string{}}
					for _, a := range start.Attr {
						if a.Name.Local == "from" {
							o.From = a.Value
						}
					}
					depth := 0
					for i := 0; i < p.N; i++ {
						tok, err := t.Token()
						switch {
						case tok != nil:
							o.Ev = append(o.Ev, tokSym8(tok, &depth))
							if err != nil && err != io.EOF {
								o.Ev = append(o.Ev, []string{"err+token"})
							}
						case err == io.EOF:
							o.Ev = append(o.Ev, []string{"eof"})
						case err != nil:
							o.Ev = append(o.Ev, []string{"err"})
						default:
							o.Ev = append(o.Ev, []string{"nil,nil"})
						}
						if tok == nil && err != nil && err != io.EOF && (p.Mode == "stop" || p.Mode == "stopeof") {
							break
						}
					}
					log = append(log, o)
					if p.Mode == "stopeof" {
						return io.EOF // "I am at the end of what I read" - says nothing about the stream
					}
					return nil
				})
				res := serveSessionW(v.Sess, v.Local, v.Was, render, h, v.WN)
				input := res.Input
				if res.Setup != "" {
					setups++
					out.put(map[string]interface{}{"kind": "setup", "vector": v, "r": ri, "why": res.Setup})
					continue
				}
				if res.Stalled {
					stalls++
					out.put(map[string]interface{}{"kind": "stall", "vector": v, "input": input, "r": ri})
					continue
				}
				why := ""
				if res.Panic != "" {
					why = "panic: " + res.Panic
				}
				if why == "" && len(log) != len(v.Inv) {
					why = fmt.Sprintf("%d handler invocations, expected %d", len(log), len(v.Inv))
				}
				if why == "" {
					for i := range v.Inv {
						if w := checkInv(v.Inv[i], log[i], res.Addrs); w != "" {
							why = fmt.Sprintf("invocation %d: %s", i+1, w)
							break
						}
					}
				}
				// responses to pending requests go to the requester (never to the handler: the invocation count above), one each,
				// and no stream-level token reaches a requester either
				if why == "" {
					handed := 0
					for _, w := range res.Waiters {
						if w.Err == "" {
							handed++
						} else if strings.HasPrefix(w.Err, "panic") {
							why = "requester " + w.ID + ": " + w.Err
						}
						for _, e := range w.Ev {
							if e[0] == "c" {
								why = fmt.Sprintf("a stream-level token reached the requester waiting for %s: %v", w.ID, e)
							}
						}
					}
					if why == "" && handed != v.Resps {
						why = fmt.Sprintf("%d responses were handed to waiting requesters, expected %d (requesters: %v)", handed, v.Resps, res.Waiters)
					}
				}
				oc := outcomeClass(res.Err)
				if why == "" {
					ok := false
					for _, a := range v.Out {
						switch {
						case a[0] == "nil":
							ok = ok || oc[0] == "nil"
						case a[0] == "err":
							// any error; a stream error value the session made up itself (to send it to
							// the peer) is an "other error" too
							ok = ok || oc[0] != "nil"
						case a[0] == "serr":
							ok = ok || (oc[0] == "serr" && (a[1] == "nested" || a[1] == oc[1]))
						}
					}
					if !ok {
						why = fmt.Sprintf("Serve returned %v (%q), acceptable: %v", oc, errString(res.Err), v.Out)
					}
				}
				invocations += len(log)
				if len(log) > 0 {
					nontrivial++
				}
				classes[fmt.Sprintf("%s/%d/%v", v.Sess.Kind, len(log), oc)]++
				if why != "" {
					mism++
					v := v
					v.Styles = []int{style}
					out.put(map[string]interface{}{"kind": "read", "r": ri, "sess": v.Sess.String(), "own": res.Addrs.Own, "vector": v, "input": input, "why": why,
						"observed": log, "requesters": res.Waiters, "outcome": oc, "serve_error": errString(res.Err), "wire": res.Wire})
				} else if len(samples) < 3 && len(log) >= 2 && evals%211 == 0 {
					samples = append(samples, map[string]interface{}{"input": input, "progs": v.Progs, "observed": log, "outcome": oc})
				}
			}
		})
	}
	summary(map[string]interface{}{"evaluations": evals, "mismatches": mism, "stalls": stalls, "setup_failures": setups, "sessions": len(kinds), "nontrivial": nontrivial,
		"handler_invocations": invocations, "distinct_classes": len(classes), "classes": classNames(classes), "samples": samples})
}
