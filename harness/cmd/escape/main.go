// Command escape replays the vectors TLC computed from tla/Escape.tla on the real
// jid.Escape / jid.Unescape through every interface (String, Bytes, Span+Transform,
// transform.NewReader, transform.NewWriter and a streaming Transform loop with every
// split of the input and small destination capacities), compares the final output with
// the expectation computed by the specification, and records call-level traces of a
// seeded sample (and of every mismatching case) for validation against tla/TrEscape.tla.
//
//	escape run    <plan.json> <vectors.ndjson> <sweeps.ndjson> <trace.ndjson>
//	escape replay <plan.json> <case.json> <trace.ndjson>
//
// Environment: VERIF_SEED, ESC_TRACE_EVERY (one case in N is traced, default 2000),
// ESC_SWEEP_TRACE_EVERY (default 4000), ESC_WORKERS (default 4), ESC_SWEEP_STEP.
// Library panics are recovered and reported as mismatches; a stalled call ends the run
// with exit status 3 (undecided).
package main

import (
	"bufio"
	"bytes"
	"encoding/json"
	"fmt"
	"hash/fnv"
	"io"
	"os"
	"sort"
	"strconv"
	"sync"
	"sync/atomic"
	"time"

	"golang.org/x/text/transform"
	"mellium.im/xmpp/jid"

	"verifharness/vt"
)

// Vec is one record of vectors.ndjson / sweeps.ndjson (symbol indices).
type Vec struct {
	In    []int `json:"in"`
	Esc   []int `json:"esc"`
	Unesc []int `json:"unesc"`
}

// Plan is plan.json written by EmitEscape.tla.
type Plan struct {
	Bytes     []int `json:"bytes"`
	Other     int   `json:"other"`
	Caps      []int `json:"caps"`
	MaxChunks int   `json:"maxchunks"`
	SweepMax  int   `json:"sweepmax"`
	Fillers   []Vec `json:"fillers"`
	// Bounds are the buffer sizes of golang.org/x/text/transform that a kernel is swept across as well (the 4096
	// byte source and destination buffers of transform.Reader / transform.Writer).
	Bounds []int `json:"bounds"`
}

// Case is one concrete run: input = filler^pre . in . filler^post.
type Case struct {
	Dir       string `json:"dir"` // "esc" | "unesc"
	In        []int  `json:"in"`
	Exp       []int  `json:"exp"`
	Filler    []int  `json:"filler"`
	FillerExp []int  `json:"fillerexp"`
	Pre       int    `json:"pre"`
	Post      int    `json:"post"`
	Iface     string `json:"iface"` // string | bytes | span | reader | writer | stream | append
	Cap       int    `json:"cap"`
	Cuts      []int  `json:"cuts"` // byte offsets where the input is cut into chunks
}

var (
	plan    Plan
	symByte [256]int // byte -> symbol (0 = outside the alphabet)
)

func conc(v []int) []byte {
	b := make([]byte, len(v))
	for i, x := range v {
		b[i] = byte(plan.Bytes[x-1])
	}
	return b
}

func syms(b []byte) []int {
	r := make([]int, len(b))
	for i, c := range b {
		if s := symByte[c]; s != 0 {
			r[i] = s
		} else {
			r[i] = plan.Other
		}
	}
	return r
}

func rep(v []int, n int) []int {
	r := make([]int, 0, len(v)*n)
	for i := 0; i < n; i++ {
		r = append(r, v...)
	}
	return r
}

func (c *Case) inputSyms() []int {
	r := rep(c.Filler, c.Pre)
	r = append(r, c.In...)
	return append(r, rep(c.Filler, c.Post)...)
}

func (c *Case) wantSyms() []int {
	r := rep(c.FillerExp, c.Pre)
	r = append(r, c.Exp...)
	return append(r, rep(c.FillerExp, c.Post)...)
}

func tr(dir string) jid.Transformer {
	if dir == "esc" {
		return jid.Escape
	}
	return jid.Unescape
}

// recorder wraps the real transformer and logs every call as a trace event.
type recorder struct {
	t     jid.Transformer
	input []byte
	pos   int
	evs   []vt.Ev
}

func errName(err error) string {
	switch err {
	case nil:
		return "nil"
	case transform.ErrShortDst:
		return "dst"
	case transform.ErrShortSrc:
		return "src"
	case transform.ErrEndOfSpan:
		return "eos"
	}
	return "other:" + err.Error()
}

func (r *recorder) Reset() { r.t.Reset() }

func (r *recorder) checkSrc(src []byte) bool {
	if r.pos < 0 || r.pos+len(src) > len(r.input) || !bytes.Equal(src, r.input[r.pos:r.pos+len(src)]) {
		r.evs = append(r.evs, vt.Ev{"ev": "badsrc", "pos": r.pos, "k": len(src)})
		return false
	}
	return true
}

func (r *recorder) Transform(dst, src []byte, atEOF bool) (nDst, nSrc int, err error) {
	r.checkSrc(src)
	defer func() {
		if p := recover(); p != nil {
			r.evs = append(r.evs, vt.Ev{"ev": "panic", "cap": len(dst), "k": len(src), "eof": atEOF, "what": fmt.Sprint(p)})
			panic(p)
		}
	}()
	nDst, nSrc, err = r.t.Transform(dst, src, atEOF)
	w := []int{}
	if nDst >= 0 && nDst <= len(dst) {
		w = syms(dst[:nDst])
	}
	r.evs = append(r.evs, vt.Ev{"ev": "xform", "cap": len(dst), "k": len(src), "eof": atEOF,
		"nd": nDst, "ns": nSrc, "err": errName(err), "w": w})
	r.pos += nSrc
	return
}

func (r *recorder) Span(src []byte, atEOF bool) (n int, err error) {
	r.checkSrc(src)
	defer func() {
		if p := recover(); p != nil {
			r.evs = append(r.evs, vt.Ev{"ev": "panic", "k": len(src), "eof": atEOF, "what": fmt.Sprint(p)})
			panic(p)
		}
	}()
	n, err = r.t.Span(src, atEOF)
	r.evs = append(r.evs, vt.Ev{"ev": "span", "k": len(src), "eof": atEOF, "ns": n, "err": errName(err)})
	r.pos += n
	return
}

// chunks cuts b at the given offsets.
func chunks(b []byte, cuts []int) [][]byte {
	var res [][]byte
	prev := 0
	for _, c := range cuts {
		if c < prev {
			c = prev
		}
		if c > len(b) {
			c = len(b)
		}
		res = append(res, b[prev:c])
		prev = c
	}
	return append(res, b[prev:])
}

const bigCap = 8

// stream is a caller of Transform that follows the transform.Transformer contract: it
// hands over the unconsumed bytes plus the next chunk, offers cap bytes of destination
// (bigCap once after an ErrShortDst without progress), and sets atEOF on the last chunk.
func stream(t transform.Transformer, src []byte, cp int, cuts []int) (out []byte, note string) {
	chs := chunks(src, cuts)
	var pend []byte
	budget := 8*len(src) + 64
	for ci, ch := range chs {
		eof := ci == len(chs)-1
		buf := append(append([]byte{}, pend...), ch...)
		pend = nil
		useCap := cp
		for {
			if budget--; budget < 0 {
				return out, "no termination: call budget exhausted"
			}
			dst := make([]byte, useCap)
			nd, ns, err := t.Transform(dst, buf, eof)
			if nd < 0 || nd > len(dst) || ns < 0 || ns > len(buf) {
				return out, fmt.Sprintf("counts out of range: nDst=%d cap=%d nSrc=%d len(src)=%d", nd, len(dst), ns, len(buf))
			}
			out = append(out, dst[:nd]...)
			buf = buf[ns:]
			wasCap := useCap
			useCap = cp
			switch err {
			case nil:
				if len(buf) != 0 {
					return out, "nil error with nSrc < len(src)"
				}
			case transform.ErrShortDst:
				if nd == 0 && ns == 0 {
					if wasCap >= bigCap {
						return out, "ErrShortDst without progress although dst has room for any unit"
					}
					useCap = bigCap
				}
				continue
			case transform.ErrShortSrc:
				if eof {
					return out, "ErrShortSrc at EOF"
				}
				pend = buf
			default:
				return out, "error: " + err.Error()
			}
			break
		}
	}
	if len(pend) != 0 {
		return out, "input left over"
	}
	return out, ""
}

// chunkReader hands out one chunk per Read, then io.EOF.
type chunkReader struct {
	chs [][]byte
}

func (c *chunkReader) Read(p []byte) (int, error) {
	for len(c.chs) > 0 && len(c.chs[0]) == 0 {
		c.chs = c.chs[1:]
	}
	if len(c.chs) == 0 {
		return 0, io.EOF
	}
	n := copy(p, c.chs[0])
	c.chs[0] = c.chs[0][n:]
	return n, nil
}

type spanner interface {
	transform.SpanningTransformer
}

// runIface runs one interface of the real transformer (or of the recorder around it).
func runIface(c *Case, src []byte, rec *recorder) (out []byte, note string) {
	defer func() {
		if p := recover(); p != nil {
			note = fmt.Sprint("panic: ", p)
		}
	}()
	real := tr(c.Dir)
	var t spanner = real
	if rec != nil {
		t = rec
	}
	switch c.Iface {
	case "string":
		if rec == nil {
			return []byte(real.String(string(src))), ""
		}
		s, _, err := transform.String(t, string(src))
		if err != nil {
			note = "transform.String: " + err.Error()
		}
		return []byte(s), note
	case "bytes":
		in := append([]byte{}, src...)
		if rec == nil {
			return real.Bytes(in), ""
		}
		b, _, err := transform.Bytes(t, in)
		if err != nil {
			note = "transform.Bytes: " + err.Error()
		}
		return b, note
	case "span":
		// Span over the whole input (atEOF) or, with a cut, over the first chunk only (not
		// atEOF); the caller keeps src[:n] and transforms the rest.
		part, eof := src, true
		if len(c.Cuts) > 0 {
			part, eof = chunks(src, c.Cuts[:1])[0], false
		}
		n, err := t.Span(part, eof)
		if n < 0 || n > len(part) {
			return nil, fmt.Sprintf("Span: n=%d out of range", n)
		}
		if err == nil && n != len(part) {
			return nil, "Span: nil error with n < len(src)"
		}
		if err == transform.ErrShortSrc && eof {
			return nil, "Span: ErrShortSrc at EOF"
		}
		if err != nil && err != transform.ErrEndOfSpan && err != transform.ErrShortSrc {
			return nil, "Span: " + err.Error()
		}
		rest, note := stream(t, src[n:], c.Cap, nil)
		return append(append([]byte{}, src[:n]...), rest...), note
	case "reader":
		r := transform.NewReader(&chunkReader{chs: chunks(src, c.Cuts)}, t)
		p := make([]byte, max(c.Cap, 1))
		for i := 0; ; i++ {
			if i > 8*len(src)+64 {
				return out, "reader: no termination"
			}
			n, err := r.Read(p)
			out = append(out, p[:n]...)
			if err == io.EOF {
				return out, ""
			}
			if err != nil {
				return out, "reader: " + err.Error()
			}
		}
	case "writer":
		var buf bytes.Buffer
		w := transform.NewWriter(&buf, t)
		for _, ch := range chunks(src, c.Cuts) {
			n, err := w.Write(ch)
			if err != nil {
				return buf.Bytes(), "writer: Write: " + err.Error()
			}
			if n != len(ch) {
				return buf.Bytes(), "writer: short write"
			}
		}
		if err := w.Close(); err != nil {
			return buf.Bytes(), "writer: Close: " + err.Error()
		}
		return buf.Bytes(), ""
	case "stream":
		return stream(t, src, c.Cap, c.Cuts)
	case "append":
		// transform.Append into a slice with c.Cap bytes of spare capacity (it grows the slice when that runs out)
		keep := []byte("kept:")
		dst := make([]byte, len(keep), len(keep)+c.Cap)
		copy(dst, keep)
		res, n, err := transform.Append(t, dst, src)
		if err != nil {
			note = "transform.Append: " + err.Error()
		} else if n != len(src) {
			note = fmt.Sprintf("transform.Append: consumed %d of %d bytes without error", n, len(src))
		}
		if !bytes.HasPrefix(res, keep) {
			return res, "transform.Append: the bytes already in dst were changed"
		}
		return res[len(keep):], note
	}
	return nil, "unknown interface " + c.Iface
}

// Mismatch is one disagreement between the real code and the specification.
type Mismatch struct {
	Case  Case   `json:"case"`
	Input string `json:"input"`
	Got   string `json:"got"`
	Want  string `json:"want"`
	Note  string `json:"note"`
	Kind  string `json:"kind"`
	Trace int    `json:"trace,omitempty"`
}

type tracedCase struct {
	c       Case
	evs     []vt.Ev
	mm      bool
	sampled bool
	kind    string
}

func kindName(m *Mismatch) string {
	if m == nil {
		return ""
	}
	return m.Kind
}

// stall detection: each worker publishes the case it is running.
type slot struct {
	busy  atomic.Int64 // unix nano when the current case started, 0 if idle
	cur   atomic.Pointer[Case]
	count atomic.Int64
}

var slots []*slot

func watchdog(limit time.Duration) {
	for {
		time.Sleep(time.Second)
		now := time.Now().UnixNano()
		for _, s := range slots {
			if b := s.busy.Load(); b != 0 && time.Duration(now-b) > limit {
				c := s.cur.Load()
				j, _ := json.Marshal(c)
				fmt.Printf("STALL %s\n", j)
				os.Exit(3)
			}
		}
	}
}

func kindOf(c *Case, note string, got, want []byte) string {
	k := note
	if len(k) > 6 && k[:6] == "panic:" {
		k = "panic"
	}
	if k == "" {
		switch {
		case len(got) < len(want) && bytes.HasPrefix(want, got):
			k = "output truncated"
		case len(got) < len(want):
			k = "output shorter and different"
		case len(got) > len(want):
			k = "output longer"
		default:
			k = "output differs"
		}
	}
	return c.Dir + "/" + c.Iface + ": " + k
}

// evaluate runs a case directly and, if wanted (or on mismatch when traceMM), again through
// the recorder. Returns the mismatch (nil if none) and the recorded events (nil if not traced).
func evaluate(c *Case, sl *slot, wantTrace, traceMM bool) (*Mismatch, []vt.Ev) {
	src := conc(c.inputSyms())
	want := conc(c.wantSyms())
	if sl != nil {
		sl.cur.Store(c)
		sl.busy.Store(time.Now().UnixNano())
		defer func() { sl.busy.Store(0); sl.count.Add(1) }()
	}
	got, note := runIface(c, src, nil)
	var mm *Mismatch
	if note != "" || !bytes.Equal(got, want) {
		// run once more to confirm determinism
		got2, note2 := runIface(c, src, nil)
		if note2 != note || !bytes.Equal(got2, got) {
			note = "NON-DETERMINISTIC: " + note + " / " + note2
		}
		mm = &Mismatch{Case: *c, Input: strconv.Quote(string(src)), Got: strconv.Quote(string(got)),
			Want: strconv.Quote(string(want)), Note: note, Kind: kindOf(c, note, got, want)}
	}
	var evs []vt.Ev
	if wantTrace || (mm != nil && traceMM) {
		rec := &recorder{t: tr(c.Dir), input: src}
		rgot, rnote := runIface(c, src, rec)
		evs = rec.evs
		if evs == nil {
			evs = []vt.Ev{}
		}
		if len(rnote) > 6 && rnote[:6] == "panic:" {
			// the panic event is already in the trace
		} else {
			evs = append(evs, vt.Ev{"ev": "end", "out": syms(rgot), "note": rnote})
		}
		if mm == nil && (rnote != note || !bytes.Equal(rgot, got)) {
			mm = &Mismatch{Case: *c, Input: strconv.Quote(string(src)), Got: strconv.Quote(string(rgot)),
				Want: strconv.Quote(string(got)), Note: "recorded run differs from direct run: " + rnote,
				Kind: c.Dir + "/" + c.Iface + ": recorded run differs from direct run"}
		}
	}
	return mm, evs
}

// cutSets: no cut, and every split into <= maxchunks chunks (empty chunks included).
func cutSets(n, maxchunks int) [][]int {
	res := [][]int{{}}
	if maxchunks >= 2 {
		for i := 0; i <= n; i++ {
			res = append(res, []int{i})
		}
	}
	if maxchunks >= 3 {
		for i := 0; i <= n; i++ {
			for j := i; j <= n; j++ {
				res = append(res, []int{i, j})
			}
		}
	}
	return res
}

// casesOf enumerates the runs of one vector.
func casesOf(v *Vec, emit func(Case)) {
	for _, dir := range []string{"esc", "unesc"} {
		exp := v.Esc
		if dir == "unesc" {
			exp = v.Unesc
		}
		base := Case{Dir: dir, In: v.In, Exp: exp, Filler: []int{}, FillerExp: []int{}, Cuts: []int{}}
		n := len(conc(v.In))
		mk := func(iface string, cp int, cuts []int) {
			c := base
			c.Iface, c.Cap, c.Cuts = iface, cp, cuts
			emit(c)
		}
		mk("string", 0, []int{})
		mk("bytes", 0, []int{})
		mk("span", bigCap, []int{})
		mk("span", 1, []int{})
		cs := cutSets(n, plan.MaxChunks)
		for i := 0; i <= n; i++ {
			mk("span", bigCap, []int{i})
		}
		for _, cuts := range cs {
			mk("writer", 0, cuts)
			mk("reader", bigCap, cuts)
		}
		mk("reader", 1, []int{})
		for _, cp := range plan.Caps {
			mk("append", cp, []int{})
			for _, cuts := range cs {
				mk("stream", cp, cuts)
			}
		}
	}
}

// boundaryPres: the numbers of filler units in front of a kernel for which the kernel's input offset or the offset
// of its output lies within a few bytes of the buffer size b.
func boundaryPres(lenIn, lenOut, b int) []int {
	seen := map[int]bool{}
	var res []int
	for _, l := range []int{lenIn, lenOut} {
		if l == 0 {
			continue
		}
		for off := b - 6; off <= b+3; off++ {
			if pre := off / l; off%l == 0 && !seen[pre] {
				seen[pre] = true
				res = append(res, pre)
			}
		}
	}
	sort.Ints(res)
	return res
}

// sweepCases places kernel k after pre filler units, for the interfaces whose buffers the
// position matters to: at every offset 0..SweepMax units (step), and where the kernel's input or
// output offset crosses one of the buffer sizes of plan.Bounds.  In each position the destination
// sizes that end exactly in front of the kernel's output (and 1, 2 bytes further) are offered too.
func sweepCases(k *Vec, step int, emit func(Case)) {
	for _, f := range plan.Fillers {
		for _, dir := range []string{"esc", "unesc"} {
			exp, fexp := k.Esc, f.Esc
			if dir == "unesc" {
				exp, fexp = k.Unesc, f.Unesc
			}
			at1 := func(pre, post int, far bool) {
				base := Case{Dir: dir, In: k.In, Exp: exp, Filler: f.In, FillerExp: fexp, Pre: pre, Post: post, Cuts: []int{}}
				mk := func(iface string, cp int, cuts []int) {
					c := base
					c.Iface, c.Cap, c.Cuts = iface, cp, cuts
					emit(c)
				}
				mk("string", 0, []int{})
				mk("bytes", 0, []int{})
				mk("writer", 0, []int{})
				mk("reader", 64, []int{})
				at := pre * len(f.In)
				mk("writer", 0, []int{at + 1})
				mk("reader", 64, []int{at + 1})
				if far {
					mk("reader", 8192, []int{})
				}
				if post == 0 || far {
					if !far {
						mk("stream", 3, []int{})
					}
					mk("stream", bigCap, []int{at})
					// the destination ends exactly in front of the kernel's output, or 1 / 2 bytes into it
					out := pre * len(fexp)
					for d := 0; d <= 2; d++ {
						mk("append", out+d, []int{})
						if out+d > 0 {
							mk("stream", out+d, []int{})
						}
					}
				}
			}
			for pre := 0; pre <= plan.SweepMax; pre += step {
				for _, post := range []int{0, 1, 3} {
					at1(pre, post, false)
				}
			}
			for _, b := range plan.Bounds {
				for _, pre := range boundaryPres(len(f.In), len(fexp), b) {
					if pre <= plan.SweepMax {
						continue
					}
					for _, post := range []int{0, 1, 3} {
						at1(pre, post, true)
					}
				}
			}
		}
	}
}

func hashPick(seed int64, a, b int, every int) bool {
	if every <= 0 {
		return false
	}
	h := fnv.New64a()
	fmt.Fprintf(h, "%d/%d/%d", seed, a, b)
	return h.Sum64()%uint64(every) == 0
}

func envInt(name string, def int) int {
	if v, err := strconv.Atoi(os.Getenv(name)); err == nil {
		return v
	}
	return def
}

func readVecs(path string) []Vec {
	f, err := os.Open(path)
	if err != nil {
		fatal(err)
	}
	defer f.Close()
	var res []Vec
	sc := bufio.NewScanner(f)
	sc.Buffer(make([]byte, 1<<20), 1<<24)
	for sc.Scan() {
		if len(bytes.TrimSpace(sc.Bytes())) == 0 {
			continue
		}
		var v Vec
		if err := json.Unmarshal(sc.Bytes(), &v); err != nil {
			fatal(err)
		}
		res = append(res, v)
	}
	// TLC's SetToSeq order is not specified: sort for a reproducible numbering
	sort.SliceStable(res, func(i, j int) bool { return lessInts(res[i].In, res[j].In) })
	return res
}

func lessInts(a, b []int) bool {
	if len(a) != len(b) {
		return len(a) < len(b)
	}
	for i := range a {
		if a[i] != b[i] {
			return a[i] < b[i]
		}
	}
	return false
}

func fatal(err error) {
	fmt.Fprintln(os.Stderr, "escape:", err)
	os.Exit(2)
}

func loadPlan(path string) {
	b, err := os.ReadFile(path)
	if err != nil {
		fatal(err)
	}
	if err := json.Unmarshal(b, &plan); err != nil {
		fatal(err)
	}
	for i, c := range plan.Bytes {
		symByte[byte(c)] = i + 1
	}
	sort.Ints(plan.Caps)
}

type result struct {
	mms    []*Mismatch // at most two per kind (and every traced one)
	kinds  map[string]int
	nmm    int
	traces []tracedCase
	evals  int
}

func main() {
	if len(os.Args) < 5 {
		fmt.Fprintln(os.Stderr, "usage: escape run <plan> <vectors> <sweeps> <trace> | escape replay <plan> <case.json> <trace>")
		os.Exit(2)
	}
	loadPlan(os.Args[2])
	if os.Args[1] == "replay" {
		replay(os.Args[3], os.Args[4])
		return
	}
	seed := int64(envInt("VERIF_SEED", 1))
	every := envInt("ESC_TRACE_EVERY", 2000)
	sweepEvery := envInt("ESC_SWEEP_TRACE_EVERY", 4000)
	workers := envInt("ESC_WORKERS", 4)
	step := envInt("ESC_SWEEP_STEP", 1)
	maxMMTraces := envInt("ESC_MM_TRACES", 60)
	vecs := readVecs(os.Args[3])
	kernels := readVecs(os.Args[4])

	// work items: vectors first, then kernels
	type item struct {
		idx   int
		v     *Vec
		sweep bool
	}
	items := make(chan item, 256)
	results := make([]result, len(vecs)+len(kernels))
	var wg sync.WaitGroup
	for w := 0; w < workers; w++ {
		sl := &slot{}
		slots = append(slots, sl)
		wg.Add(1)
		go func() {
			defer wg.Done()
			for it := range items {
				r := &results[it.idx]
				r.kinds = map[string]int{}
				ord := 0
				// per kind and vector keep only the first mismatch in full; count the rest
				fn := func(c Case) {
					ord++
					ev := every
					long := it.sweep && (c.Iface == "stream" || c.Pre > plan.SweepMax)
					if it.sweep {
						ev = sweepEvery
						if long {
							ev = 0 // hundreds of calls per trace / inputs of 4 KB and more: compared by output only
						}
					}
					wantTrace := hashPick(seed, it.idx, ord, ev)
					cc := c
					mm, evs := evaluate(&cc, sl, wantTrace, false)
					r.evals++
					if mm != nil {
						r.nmm++
						r.kinds[mm.Kind]++
						first := r.kinds[mm.Kind] == 1
						if first && evs == nil && maxMMTraces > 0 && !long {
							// the first mismatch of each kind per vector is recorded call by call
							_, evs = evaluate(&cc, sl, true, false)
						}
						if r.kinds[mm.Kind] <= 2 || evs != nil {
							r.mms = append(r.mms, mm)
						}
					}
					if evs != nil {
						r.traces = append(r.traces, tracedCase{c: cc, evs: evs, mm: mm != nil, sampled: wantTrace,
							kind: kindName(mm)})
					}
				}
				if it.sweep {
					sweepCases(it.v, step, fn)
				} else {
					casesOf(it.v, fn)
				}
			}
		}()
	}
	go watchdog(30 * time.Second)
	for i := range vecs {
		items <- item{idx: i, v: &vecs[i]}
	}
	for i := range kernels {
		items <- item{idx: len(vecs) + i, v: &kernels[i], sweep: true}
	}
	close(items)
	wg.Wait()

	tw, err := vt.NewTraceWriter(os.Args[5])
	if err != nil {
		fatal(err)
	}
	sum := vt.Summary{Extra: map[string]interface{}{}}
	kinds := map[string]int{}
	mmWritten := map[string]int{}
	byKind := map[string][]*Mismatch{}
	total := 0
	sweepEvals := 0
	for i := range results {
		r := &results[i]
		sum.Evaluations += r.evals
		if i >= len(vecs) {
			sweepEvals += r.evals
		}
		for _, t := range r.traces {
			if !t.sampled {
				// mismatch traces beyond the sample: two per kind (in vector order)
				if mmWritten[t.kind] >= 2 || len(mmWritten) > maxMMTraces {
					continue
				}
				mmWritten[t.kind]++
			}
			n := tw.Write(vt.Ev{"dir": t.c.Dir, "input": t.c.inputSyms()}, t.evs)
			tw.Meta(map[string]interface{}{"case": t.c, "mm": t.mm})
			if t.mm {
				for _, m := range r.mms {
					if sameCase(&m.Case, &t.c) {
						m.Trace = n
					}
				}
			}
		}
		total += r.nmm
		for k, n := range r.kinds {
			kinds[k] += n
		}
		for _, m := range r.mms {
			l := byKind[m.Kind]
			if len(l) < 3 || (m.Trace != 0 && len(l) < 6) {
				byKind[m.Kind] = append(l, m)
			}
		}
	}
	var ks []string
	for k := range byKind {
		ks = append(ks, k)
	}
	sort.Strings(ks)
	for _, k := range ks {
		for _, m := range byKind[k] {
			sum.Mismatches = append(sum.Mismatches, m)
		}
	}
	sum.Traces, sum.Events = tw.Counts()
	if err := tw.Close(); err != nil {
		fatal(err)
	}
	sum.Distinct = len(vecs) + len(kernels)
	sum.Extra["vectors"] = len(vecs)
	sum.Extra["kernels"] = len(kernels)
	sum.Extra["sweep_evaluations"] = sweepEvals
	sum.Extra["mismatch_total"] = total
	sum.Extra["mismatch_kinds"] = kinds
	if len(vecs) > 40 {
		v := vecs[len(vecs)/2]
		sum.Samples = append(sum.Samples, map[string]interface{}{"in": strconv.Quote(string(conc(v.In))),
			"esc": strconv.Quote(string(conc(v.Esc))), "unesc": strconv.Quote(string(conc(v.Unesc)))})
	}
	sum.Print()
}

func sameCase(a, b *Case) bool {
	ja, _ := json.Marshal(a)
	jb, _ := json.Marshal(b)
	return bytes.Equal(ja, jb)
}

func replay(casePath, tracePath string) {
	b, err := os.ReadFile(casePath)
	if err != nil {
		fatal(err)
	}
	var c Case
	if err := json.Unmarshal(b, &c); err != nil {
		fatal(err)
	}
	sl := &slot{}
	slots = append(slots, sl)
	go watchdog(30 * time.Second)
	mm, evs := evaluate(&c, sl, true, true)
	tw, err := vt.NewTraceWriter(tracePath)
	if err != nil {
		fatal(err)
	}
	n := tw.Write(vt.Ev{"dir": c.Dir, "input": c.inputSyms()}, evs)
	tw.Meta(map[string]interface{}{"case": c, "mm": mm != nil})
	sum := vt.Summary{Evaluations: 1, Distinct: 1, Extra: map[string]interface{}{"mismatch_total": 0}}
	if mm != nil {
		mm.Trace = n
		sum.Mismatches = append(sum.Mismatches, mm)
		sum.Extra["mismatch_total"] = 1
		sum.Extra["mismatch_kinds"] = map[string]int{mm.Kind: 1}
	}
	sum.Traces, sum.Events = tw.Counts()
	tw.Close()
	sum.Print()
}
