//go:build muchooks

package main

import "mellium.im/xmpp/muc"

// hooksOn: the tree under test carries the yield points of proposed-hooks/muc.diff.
const hooksOn = true

func setMucHook(f func(point, id string)) { muc.VerifHook = f }
