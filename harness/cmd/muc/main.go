// Command muc drives the real muc.Client / muc.Channel on one really served session against
// a scripted MUC service and records one trace per schedule for validation against
// tla/TrMUC.tla (C18, and the MUC part of C06).
//
// A scenario is an ordered script of environment steps: client calls (join / rejoin / leave
// on a room), cancellations, and stanzas the room sends.  In mode "seq" every step is taken
// at quiescence (protocol level: the service decides when to send relative to the requests it
// has or has not yet seen).  In mode "explore" the steps keep their order but may be taken
// while library goroutines are parked at gates (transport reads/writes and the yield points
// of package muc), and the goroutines are interleaved depth-first with a pre-emption bound.
//
//	muc run <scenarios.ndjson> <trace.ndjson>    env: MUC_MAXPRE, MUC_MAXRUNS, MUC_SHARD=i/n
package main

import (
	"bufio"
	"context"
	"encoding/json"
	"encoding/xml"
	"errors"
	"fmt"
	"io"
	"os"
	"regexp"
	"runtime"
	"sort"
	"strconv"
	"strings"
	"sync"
	"sync/atomic"
	"time"

	"mellium.im/xmlstream"
	"mellium.im/xmpp"
	"mellium.im/xmpp/jid"
	"mellium.im/xmpp/muc"
	"mellium.im/xmpp/mux"
	"mellium.im/xmpp/stanza"
	"mellium.im/xmpp/stream"

	"verifharness/vt"
)

// Stanza is one stanza of the room script.
type Stanza struct {
	Ty   string `json:"ty"`   // av un er inv oth
	Room string `json:"room"` // r1 r2 rx (never joined); "-" for oth
	Nick string `json:"nick"` // me ot; "-" when not applicable
	Call string `json:"call"` // er: the request it answers; else "-"
	N    int    `json:"n"`    // inv: number of <invite/> in the muc#user payload
	// inv: the child elements of the message in document order: "b" a body, "u" the muc#user
	// payload (N invitations, a status code when N = 0), "c" a jabber:x:conference element
	// (a direct invitation, also added by rooms for legacy clients), "t" a thread element.
	// Empty for the other stanza types.
	Lay []string `json:"lay"`
	Pw  bool     `json:"pw"` // inv: the invitation carries the room's password
	// er: what stands inside the error presence (see erBody); "-" for the other stanza types.
	Shape string `json:"shape"`
	// av / un: the content of the muc#user payload: the status codes in document order (absent in a
	// script: the plain ones, see defCodes) and the variant of the item element (see presX).
	Codes []int  `json:"codes"`
	Item  string `json:"item"`
}

// defCodes: the status codes of the plain payload: the occupant's own presence says so (110); the
// presence of the other nick claims to be the user's own under a nick the room modified (110, 210).
func defCodes(s *Stanza) []int {
	switch {
	case s.Ty == "av" && s.Nick == "ot":
		return []int{110, 210}
	case s.Ty == "av" || s.Ty == "un":
		return []int{110}
	}
	return []int{}
}

// presX renders the muc#user payload of an (un)available presence: its status codes and the item variant.
func presX(s *Stanza) string {
	role := "participant"
	if s.Ty == "un" {
		role = "none"
	}
	st := ""
	for _, c := range s.Codes {
		st += fmt.Sprintf("<status code='%d'/>", c)
	}
	item := ""
	switch s.Item {
	case "-", "", "sfirst":
		item = fmt.Sprintf("<item affiliation='member' role='%s'/>", role)
	case "noitem":
	case "nick": // the item names a (new) nickname
		item = fmt.Sprintf("<item affiliation='member' role='%s' nick='nn'/>", role)
	case "jid": // a room that is not anonymous: the real address of the occupant, this session's
		item = fmt.Sprintf("<item affiliation='member' role='%s' jid='me@example.net/res'/>", role)
	case "jidoth": // ... another resource of the same account (a nickname shared by several sessions)
		item = fmt.Sprintf("<item affiliation='member' role='%s' jid='me@example.net/other'/>", role)
	case "actor": // who did it and why
		item = fmt.Sprintf("<item affiliation='none' role='%s'><actor nick='boss'/><reason>because</reason></item>", role)
	case "outcast":
		item = "<item affiliation='outcast' role='none'><actor jid='boss@example.net'/><reason>spam</reason></item>"
	case "rolekept": // the role is repeated also on an unavailable presence
		item = "<item affiliation='member' role='participant'/>"
	case "visitor":
		item = "<item affiliation='none' role='visitor'/>"
	case "owner":
		item = "<item affiliation='owner' role='moderator'/>"
	case "destroy": // the room is being destroyed
		item = "<item affiliation='none' role='none'/><destroy jid='elsewhere@" + service + "'><reason>closed</reason></destroy>"
	default:
		panic("item variant " + s.Item)
	}
	if s.Item == "sfirst" {
		return "<x xmlns='http://jabber.org/protocol/muc#user'>" + st + item + "</x>"
	}
	return "<x xmlns='http://jabber.org/protocol/muc#user'>" + item + st + "</x>"
}

// erShapes lists the shapes of an error reply: the first five are well-formed (the reply carries
// one decodable stanza error), the others are malformed (the call must still return - with some
// error - and the reply must be released).
var erShapes = []string{"wf", "nox", "ux", "pre", "post", "bare", "noerr", "wrongns", "empty", "badby", "unktype", "text"}

// erBody returns the children of an error presence of the given shape; cond is the condition the
// room uses for that request.
func erBody(shape, cond string) string {
	const mucX = `<x xmlns='http://jabber.org/protocol/muc'/>`
	const ns = `urn:ietf:params:xml:ns:xmpp-stanzas`
	good := fmt.Sprintf("<error type='cancel'><%s xmlns='%s'/></error>", cond, ns)
	switch shape {
	case "wf", "", "-": // the request's payload echoed, then the error
		return mucX + good
	case "nox": // the error alone
		return good
	case "ux": // a muc#user payload before the error
		return `<x xmlns='http://jabber.org/protocol/muc#user'><item affiliation='none' role='none'/></x>` + good
	case "pre": // character data and foreign elements before the error
		return "\n  " + mucX + "<show>away</show>some text<c xmlns='http://jabber.org/protocol/caps' hash='sha-1' node='n' ver='v'/>\n  " + good
	case "post": // further children after the error
		return good + mucX + "<status>no</status>trailing text"
	case "bare": // no children at all
		return ""
	case "noerr": // children, but no error
		return mucX + "<status>no</status>"
	case "wrongns": // an <error/> that is not the stream's stanza error element
		return mucX + fmt.Sprintf("<error xmlns='urn:example:not-a-stanza-error' type='cancel'><%s xmlns='urn:example:not-a-stanza-error'/></error>", cond)
	case "empty": // no type, no condition
		return mucX + "<error/>"
	case "badby": // an attribute the decoder rejects
		return mucX + fmt.Sprintf("<error type='cancel' by='@@'><%s xmlns='%s'/></error>", cond, ns)
	case "unktype": // a type outside the five defined ones
		return mucX + fmt.Sprintf("<error type='bogus'><%s xmlns='%s'/></error>", cond, ns)
	case "text": // a text, and no condition
		return mucX + fmt.Sprintf("<error type='cancel'><text xmlns='%s'>not today</text></error>", ns)
	}
	panic("error shape " + shape)
}

const invPassword = "s3cret"

// Step is one environment step.
type Step struct {
	Op   string  `json:"op"`   // join rejoin renick leave subject invite cancel send rest
	Room string  `json:"room"` // calls
	Call string  `json:"call"` // cancel: the call to cancel
	St   *Stanza `json:"st,omitempty"`
	// send: 0 = the peer delivers the stanza in one piece; otherwise only its first piece is
	// delivered now and the remainder by the next "rest" step (or before the next send / at the
	// end of the script): 1 = the piece ends with the stanza's start tag, 2 = in the middle of the
	// stanza, 3 = just before the stanza's end tag.
	Cut int `json:"cut,omitempty"`
}

type Scenario struct {
	Steps []Step `json:"steps"`
	Mode  string `json:"mode"` // seq | explore
	// Choices, when present, fixes the schedule of an explore scenario (replay).
	Choices []int `json:"choices,omitempty"`
	Fixed   bool  `json:"fixed,omitempty"`
	// MaxRuns, when present, replaces the cap on the number of schedules (MUC_MAXRUNS) for this scenario.
	MaxRuns int `json:"maxruns,omitempty"`
}

const hdrIn = `<stream:stream from="example.net" to="me@example.net" id="123" version="1.0" xmlns="jabber:client" xmlns:stream="http://etherx.jabber.org/streams">`

const service = "muc.example.net"

var conds = map[string]string{"c1": "conflict", "c2": "forbidden", "c3": "not-allowed", "c4": "item-not-found", "c5": "not-acceptable", "c6": "gone"}

func nopNeg(ns string) xmpp.Negotiator {
	return func(ctx context.Context, in, out *stream.Info, s *xmpp.Session, data interface{}) (xmpp.SessionState, io.ReadWriter, interface{}, error) {
		rc := s.TokenReader()
		defer rc.Close()
		for {
			tok, err := rc.Token()
			if err != nil {
				return 0, nil, nil, err
			}
			if st, ok := tok.(xml.StartElement); ok {
				if err := in.FromStartElement(st); err != nil {
					return 0, nil, nil, err
				}
				break
			}
		}
		out.XMLNS = ns
		return xmpp.Ready, nil, nil, nil
	}
}

// presShapes: muc#user payloads of an (un)available presence that the library cannot decode - only ever sent for
// rooms that were never joined, whose presences are ignored whatever they contain
var presShapes = map[string]bool{"badaff": true, "badrole": true, "badstatus": true}

func presBody(shape, role string) string {
	aff, code := "member", "110"
	switch shape {
	case "badaff":
		aff = "emperor"
	case "badrole":
		role = "ghost"
	case "badstatus":
		code = "one-ten"
	}
	return fmt.Sprintf(`<x xmlns='http://jabber.org/protocol/muc#user'><item affiliation='%s' role='%s'/><status code='%s'/></x>`, aff, role, code)
}

func stanzaBytes(s *Stanza, seq int) string {
	from := s.Room + "@" + service
	if s.Nick != "-" && s.Nick != "" {
		from += "/" + s.Nick
	}
	if (s.Ty == "av" || s.Ty == "un") && presShapes[s.Shape] {
		typ, role := "", "participant"
		if s.Ty == "un" {
			typ, role = " type='unavailable'", "none"
		}
		return fmt.Sprintf("<presence from='%s' to='me@example.net' id='s%d'%s>%s</presence>", from, seq, typ, presBody(s.Shape, role))
	}
	switch s.Ty {
	case "av":
		return fmt.Sprintf("<presence from='%s' to='me@example.net' id='s%d'>%s</presence>", from, seq, presX(s))
	case "un":
		return fmt.Sprintf("<presence from='%s' to='me@example.net' id='s%d' type='unavailable'>%s</presence>", from, seq, presX(s))
	case "er":
		body := erBody(s.Shape, conds[s.Call])
		if body == "" {
			return fmt.Sprintf("<presence from='%s' to='me@example.net' id='%s' type='error'/>", from, s.Call)
		}
		return fmt.Sprintf("<presence from='%s' to='me@example.net' id='%s' type='error'>%s</presence>", from, s.Call, body)
	case "inv":
		b := ""
		mediated := false
		for _, k := range s.Lay {
			switch k {
			case "b":
				b += "<body>you have been invited</body>"
			case "t":
				b += "<thread>th1</thread>"
			case "u":
				mediated = true
				b += "<x xmlns='http://jabber.org/protocol/muc#user'>"
				if s.N == 0 {
					b += "<status code='104'/>"
				}
				for i := 0; i < s.N; i++ {
					b += fmt.Sprintf("<invite from='ot%d@example.net/x'><reason>come %d</reason></invite>", i, i)
				}
				if s.Pw {
					b += "<password>" + invPassword + "</password>"
				}
				b += "</x>"
			case "c":
				pw := ""
				if s.Pw {
					pw = " password='" + invPassword + "'"
				}
				b += fmt.Sprintf("<x xmlns='jabber:x:conference' jid='%s@%s'%s reason='come 9'/>", s.Room, service, pw)
			default:
				panic("layout element " + k)
			}
		}
		if !mediated {
			// a direct invitation: not from the room itself but from one of its occupants
			from += "/ot"
		}
		return fmt.Sprintf("<message from='%s' to='me@example.net' id='s%d' type='normal'>%s</message>", from, seq, b)
	case "oth":
		if s.N == 1 {
			return fmt.Sprintf("<presence from='friend@example.net/x' to='me@example.net' id='s%d'><show>away</show></presence>", seq)
		}
		return fmt.Sprintf("<message from='friend@example.net/x' to='me@example.net' id='s%d' type='chat'><body>hi</body></message>", seq)
	}
	panic("stanza type " + s.Ty)
}

// inviteEv projects an invitation handed to one of the application's callbacks (kind med:
// Client.HandleInvite, dir: the function registered with muc.HandleInvite) back to the script
// vocabulary: which payload it claims to be decoded from, which <invite/> (the index in its
// reason), whether the password arrived, and - direct invitations - the room.
func inviteEv(kind string, inv muc.Invitation) vt.Ev {
	e := vt.Ev{"ev": "invite_cb", "kind": kind, "ns": "other", "k": -1, "pw": "bad", "room": "-"}
	switch {
	case inv.XMLName == (xml.Name{}):
		e["ns"] = "none" // no name: marshals as a mediated invitation (the documented default)
	case inv.XMLName.Space == muc.NSUser && inv.XMLName.Local == "x":
		e["ns"] = "user"
	case inv.XMLName.Space == muc.NSConf && inv.XMLName.Local == "x":
		e["ns"] = "conf"
	}
	var k int
	if n, err := fmt.Sscanf(inv.Reason, "come %d", &k); err == nil && n == 1 && inv.Reason == fmt.Sprintf("come %d", k) {
		e["k"] = k
	}
	switch inv.Password {
	case "":
		e["pw"] = "none"
	case invPassword:
		e["pw"] = "ok"
	}
	if kind == "dir" {
		e["room"] = "?"
		if inv.JID.Domainpart() == service && inv.JID.Resourcepart() == "" {
			e["room"] = inv.JID.Localpart()
		}
	}
	return e
}

// classify projects the start element a handler saw back to the script vocabulary.
func classify(start *xml.StartElement) vt.Ev {
	from, typ, id := "", "", ""
	for _, a := range start.Attr {
		switch a.Name.Local {
		case "from":
			from = a.Value
		case "type":
			typ = a.Value
		case "id":
			id = a.Value
		}
	}
	e := vt.Ev{"ev": "handled", "ty": "oth", "room": "-", "nick": "-", "call": "-", "via": "handler"}
	j, err := jid.Parse(from)
	inService := err == nil && j.Domainpart() == service
	if inService {
		e["room"] = j.Localpart()
		if j.Resourcepart() != "" {
			e["nick"] = j.Resourcepart()
		}
	}
	switch {
	case start.Name.Local == "presence" && typ == "error":
		e["ty"], e["call"] = "er", id
	case start.Name.Local == "presence" && inService && typ == "":
		e["ty"] = "av"
	case start.Name.Local == "presence" && inService && typ == "unavailable":
		e["ty"] = "un"
	case start.Name.Local == "message" && inService:
		e["ty"] = "inv"
	}
	return e
}

type result struct {
	evs  []vt.Ev
	res  vt.RunResult
	note string
}

var reqRe = regexp.MustCompile(`<presence[^>]*\sid=["'](c\d+)["']`)

type runner struct {
	mu       sync.Mutex // guards chans, pending, done (written by the call goroutines)
	sc       Scenario
	lg       *vt.Log
	conn     *vt.Conn
	sess     *xmpp.Session
	sched    *vt.Sched
	client   *muc.Client
	chans    map[string]*muc.Channel
	pending  map[string]string // room -> pending call
	kinds    map[string]string // call -> join rejoin leave subject invite
	callNo   int
	ctxs     map[string]context.Context
	cancels  map[string]context.CancelFunc
	done     map[string]bool
	cancd    map[string]bool
	next     int
	nsent    int
	inH      atomic.Bool
	served   atomic.Bool
	progress int // number of decisions taken
	quietAt  int
	ending   bool // the end phase has begun: no more script steps
	spawn    func(name string, f func())
	rest     string // undelivered remainder of the stanza the peer is in the middle of sending
	nlogged  int // number of events when the last observation was taken
	lastObs  map[string]string
}

func (r *runner) isDone(c string) bool {
	r.mu.Lock()
	defer r.mu.Unlock()
	return r.done[c]
}

// chanJID is the occupant address the channel named r joins as: "r1b" names a second channel in
// room r1 under the nickname me2, every other name the room of that name under the nickname me.
func chanJID(r string) jid.JID {
	if r == "r1b" {
		return jid.MustParse("r1@" + service + "/me2")
	}
	return jid.MustParse(r + "@" + service + "/me")
}

func isAux(op string) bool { return op == "subject" || op == "invite" }

// otherNick is the nickname a "renick" call on the channel named r asks for: the one it did not join as.
func otherNick(r string) string {
	if chanJID(r).Resourcepart() == "me" {
		return "me2"
	}
	return "me"
}

func (r *runner) startCall(st Step) {
	r.callNo++
	c := "c" + strconv.Itoa(r.callNo)
	ctx, cancel := context.WithCancel(context.Background())
	r.ctxs[c], r.cancels[c] = ctx, cancel
	r.kinds[c] = st.Op
	r.mu.Lock()
	if !isAux(st.Op) {
		r.pending[st.Room] = c
	}
	ch := r.chans[st.Room]
	r.mu.Unlock()
	r.lg.Add(vt.Ev{"ev": "call", "c": c, "kind": st.Op, "r": st.Room})
	room := st.Room
	r.spawn(c, func() {
		var err error
		func() {
			defer func() {
				if p := recover(); p != nil {
					err = fmt.Errorf("panic: %v", p)
				}
			}()
			switch st.Op {
			case "join":
				var nch *muc.Channel
				nch, err = r.client.JoinPresence(ctx, stanza.Presence{ID: c, To: chanJID(room)}, r.sess)
				if nch != nil {
					r.mu.Lock()
					r.chans[room] = nch
					r.mu.Unlock()
				}
			case "rejoin":
				err = ch.JoinPresence(ctx, stanza.Presence{ID: c})
			case "renick": // join again, asking for the other nickname
				err = ch.JoinPresence(ctx, stanza.Presence{ID: c}, muc.Nick(otherNick(room)))
			case "leave":
				err = ch.LeavePresence(ctx, "", stanza.Presence{ID: c})
			case "subject": // fire and forget: one groupchat message
				err = ch.SubjectMessage(ctx, "topic of "+c, stanza.Message{ID: c})
			case "invite": // fire and forget: one mediated invitation
				err = ch.Invite(ctx, "come "+c, jid.MustParse("friend@example.net"))
			}
		}()
		e := vt.Ev{"ev": "ret", "c": c, "o": "ok", "cond": "-"}
		var se stanza.Error
		switch {
		case err == nil:
		case strings.HasPrefix(err.Error(), "panic: "):
			e["o"], e["text"] = "panic", err.Error()
		case errors.Is(err, context.Canceled):
			e["o"] = "ctx"
		case errors.As(err, &se):
			e["o"], e["cond"] = "err", string(se.Condition)
		default:
			e["o"], e["text"] = "other", err.Error()
		}
		r.mu.Lock()
		r.done[c] = true
		if r.pending[room] == c && !isAux(st.Op) {
			delete(r.pending, room)
		}
		r.mu.Unlock()
		r.lg.Add(e)
	})
}

// envEnabled reports whether the next script step can be taken now; blocked reports that
// it can never be taken unless a pending call returns (the script is then cut short).
func (r *runner) envEnabled() (ok bool, waits bool) {
	if r.ending {
		return false, false
	}
	if r.implicitRest() {
		return true, false
	}
	if r.next >= len(r.sc.Steps) {
		return false, false
	}
	st := r.sc.Steps[r.next]
	r.mu.Lock()
	defer r.mu.Unlock()
	switch st.Op {
	case "join", "rejoin", "leave", "renick":
		if _, p := r.pending[st.Room]; p {
			return false, true
		}
		if st.Op != "join" && r.chans[st.Room] == nil {
			return false, true
		}
	case "subject", "invite":
		// on a channel the application holds; never while a join is pending on it (Join writes the
		// channel's address: the type is not safe for that)
		if r.chans[st.Room] == nil {
			return false, true
		}
		if c, p := r.pending[st.Room]; p && r.kinds[c] != "leave" {
			return false, true
		}
	}
	return true, false
}

// implicitRest: a stanza is partly delivered and the script has no "rest" step before its next
// send (or its end): a peer's byte stream is sequential, the remainder comes first.
func (r *runner) implicitRest() bool {
	if r.rest == "" {
		return false
	}
	return r.next >= len(r.sc.Steps) || r.sc.Steps[r.next].Op == "send"
}

func (r *runner) feedRest() {
	rest := r.rest
	r.rest = ""
	r.lg.Add(vt.Ev{"ev": "rest"})
	r.conn.FeedString(rest)
}

// cutAt returns the length of the first piece of stanza b for a cut of the given kind.
func cutAt(b string, kind int) int {
	first := strings.IndexByte(b, '>') + 1
	last := strings.LastIndex(b, "</")
	switch kind {
	case 1:
		return first
	case 2:
		return len(b) / 2
	case 3:
		if last > first {
			return last
		}
	}
	return len(b)
}

func (r *runner) doEnv() {
	if r.implicitRest() {
		r.feedRest()
		return
	}
	st := r.sc.Steps[r.next]
	r.next++
	switch st.Op {
	case "rest":
		if r.rest != "" {
			r.feedRest()
		}
	case "join", "rejoin", "leave", "renick", "subject", "invite":
		r.startCall(st)
	case "cancel":
		if r.cancels[st.Call] == nil {
			return
		}
		r.cancd[st.Call] = true
		r.lg.Add(vt.Ev{"ev": "cancel", "c": st.Call})
		r.cancels[st.Call]()
	case "send":
		r.nsent++
		b := stanzaBytes(st.St, r.nsent)
		n := len(b)
		if st.Cut != 0 {
			n = cutAt(b, st.Cut)
		}
		// the event marks the moment the room begins to send: what a call does from here on
		// may be caused by this stanza; "part" until the remainder has been delivered
		r.lg.Add(vt.Ev{"ev": "send", "st": st.St, "part": n < len(b)})
		r.rest = b[n:]
		r.conn.FeedString(b[:n])
	}
}

// sample records Channel.Joined()/Me() of every room the application holds a channel for.
// It runs in the scheduler goroutine at quiescence; never while the serve goroutine is
// inside a handler (package muc holds its lock there).
func (r *runner) sample() {
	if r.inH.Load() {
		return
	}
	n := len(r.lg.Events())
	fresh := n != r.nlogged
	r.mu.Lock()
	chans := map[string]*muc.Channel{}
	for k, v := range r.chans {
		chans[k] = v
	}
	r.mu.Unlock()
	rooms := make([]string, 0, len(chans))
	for k := range chans {
		rooms = append(rooms, k)
	}
	sort.Strings(rooms)
	for _, room := range rooms {
		ch := chans[room]
		// Joined() takes the package's lock: never let the scheduler goroutine block on it
		jc := make(chan bool, 1)
		go func() { jc <- ch.Joined() }()
		var j bool
		select {
		case j = <-jc:
		case <-time.After(2 * time.Second):
			r.lg.Add(vt.Ev{"ev": "note", "text": "Joined() did not return: sample skipped"})
			continue
		}
		me := ch.Me().Resourcepart()
		addr := ch.Addr().Localpart()
		key := fmt.Sprint(j, me, addr)
		if !fresh && r.lastObs[room] == key {
			continue
		}
		r.lastObs[room] = key
		r.lg.Add(vt.Ev{"ev": "obs", "r": room, "j": j, "me": me, "addr": addr})
	}
	r.nlogged = len(r.lg.Events())
}

func runSchedule(sc Scenario, choices []int) result {
	r := &runner{sc: sc, lg: &vt.Log{}, chans: map[string]*muc.Channel{}, pending: map[string]string{},
		ctxs: map[string]context.Context{}, cancels: map[string]context.CancelFunc{}, done: map[string]bool{},
		cancd: map[string]bool{}, lastObs: map[string]string{}, kinds: map[string]string{}, quietAt: -1}
	lg := r.lg
	r.conn = vt.NewConn()
	r.conn.FeedString(hdrIn)
	sess, err := xmpp.NewSession(context.Background(), jid.MustParse("example.net"), jid.MustParse("me@example.net"), r.conn, 0, nopNeg(stanza.NSClient))
	if err != nil {
		panic(err)
	}
	r.sess = sess
	r.sched = vt.NewSched()
	r.sched.AutoRegister = true
	sched := r.sched
	r.client = &muc.Client{
		HandleInvite: func(inv muc.Invitation) {
			lg.Add(inviteEv("med", inv))
		},
		HandleUserPresence: func(p stanza.Presence, it muc.Item) {
			lg.Add(vt.Ev{"ev": "userpres", "room": p.From.Localpart(), "nick": p.From.Resourcepart()})
		},
	}
	m := mux.New(stanza.NSClient, muc.HandleClient(r.client), muc.HandleInvite(func(inv muc.Invitation) {
		lg.Add(inviteEv("dir", inv))
	}))
	explore := sc.Mode == "explore"
	xmpp.VerifHook = func(point, id string) {
		if point != "serve.resume" || (explore && !sched.Mine()) {
			return
		}
		// a response handed to a waiting requester has been consumed and closed
		lg.Add(vt.Ev{"ev": "handled", "ty": "er", "room": "-", "nick": "-", "call": id, "via": "resume"})
	}
	defer func() { xmpp.VerifHook = nil }()
	r.spawn = sched.Go
	if !explore {
		sched.Enabled = false
		r.spawn = func(name string, f func()) { go f() }
	}
	if explore {
		// gates: the start of every call and the yield points of package muc (before the
		// rendezvous selects).  Transport reads and writes are not gated: what the room sends
		// and when is an environment step anyway.  In mode "seq" every step runs to
		// quiescence, so the goroutines need not park anywhere.
		setMucHook(func(point, id string) {
			if !sched.Mine() {
				return
			}
			sched.Gate(point)
		})
		defer setMucHook(nil)
		if os.Getenv("MUC_CONNGATES") != "" {
			r.conn.Gate = func(point string) { sched.Gate(point) }
		}
	}
	var wire []byte
	seen := map[string]bool{}
	r.conn.React = func(p []byte) {
		wire = append(wire, p...)
		for _, mm := range reqRe.FindAllSubmatch(wire, -1) {
			c := string(mm[1])
			if !seen[c] {
				seen[c] = true
				lg.Add(vt.Ev{"ev": "wire", "c": c})
			}
		}
	}
	h := xmpp.HandlerFunc(func(t xmlstream.TokenReadEncoder, start *xml.StartElement) (err error) {
		e := classify(start)
		r.inH.Store(true)
		defer func() {
			if p := recover(); p != nil {
				lg.Add(vt.Ev{"ev": "panic", "who": "handler", "text": fmt.Sprint(p)})
				err = nil
			}
			r.inH.Store(false)
			lg.Add(e)
		}()
		return m.HandleXMPP(t, start)
	})
	r.spawn("s", func() {
		err := sess.Serve(h)
		e := vt.Ev{"ev": "serve_ret", "err": ""}
		if err != nil {
			e["err"] = err.Error()
		}
		lg.Add(e)
		r.served.Store(true)
	})

	var res vt.RunResult
	note := ""
	last := ""
	stage := 0
	for step := 0; ; step++ {
		var opts []vt.Option
		if explore {
			opts = sched.Options()
		} else {
			quiesce()
		}
		r.sample()
		var list []vt.Option
		for _, o := range opts {
			if o.Name == last {
				list = append([]vt.Option{o}, list...)
			} else {
				list = append(list, o)
			}
		}
		if len(list) == 0 && r.progress != r.quietAt {
			// nothing can move without the environment
			lg.Add(vt.Ev{"ev": "quiet"})
			r.quietAt = r.progress
			r.nlogged = len(lg.Events())
		}
		envOK, waits := r.envEnabled()
		hasEnv := envOK && (explore || len(list) == 0)
		n := len(list)
		if hasEnv {
			n++
		}
		if n == 0 {
			// quiescent and the script is finished (or its next call can never start)
			_ = waits
			if r.rest != "" {
				// the peer does not stop in the middle of a stanza: its remainder arrives
				r.feedRest()
				r.progress++
				step--
				continue
			}
			stage++
			r.progress++
			r.ending = true
			switch stage {
			case 1:
				// callers still waiting are legitimate only while their context is live: cancel them
				k := 0
				for c := range r.cancels {
					if !r.isDone(c) && !r.cancd[c] {
						k++
					}
				}
				if k > 0 {
					var cs []string
					for c := range r.cancels {
						if !r.isDone(c) && !r.cancd[c] {
							cs = append(cs, c)
						}
					}
					sort.Strings(cs)
					for _, c := range cs {
						r.cancd[c] = true
						lg.Add(vt.Ev{"ev": "cancel", "c": c})
						r.cancels[c]()
					}
				}
				step--
				continue
			case 2:
				r.conn.CloseIn()
				step--
				continue
			}
			if !r.served.Load() {
				note = "stuck"
			}
			for c := range r.cancels {
				if !r.isDone(c) {
					note = "stuck"
				}
			}
			break
		}
		pre := make([]bool, n)
		if len(list) > 0 && list[0].Name == last {
			for i := 1; i < n; i++ {
				pre[i] = true
			}
		}
		res.NOpts = append(res.NOpts, n)
		res.Preempt = append(res.Preempt, pre)
		ch := 0
		if step < len(choices) {
			ch = choices[step]
		}
		if ch >= n {
			ch = 0
		}
		r.progress++
		if ch < len(list) {
			last = list[ch].Name
			sched.Take(list[ch])
		} else {
			last = "env"
			r.doEnv()
		}
		if step > 800 {
			note = "runaway"
			break
		}
	}
	if note == "stuck" {
		var bl []string
		if !r.served.Load() {
			bl = append(bl, "serve loop")
		}
		for c := range r.cancels {
			if !r.isDone(c) {
				bl = append(bl, "call "+c)
			}
		}
		sort.Strings(bl)
		lg.Add(vt.Ev{"ev": "stuck", "blocked": strings.Join(bl, ", ") + " (after every context was cancelled and the peer ended its stream)"})
	}
	if r.next < len(sc.Steps) {
		note += fmt.Sprintf(" cut@%d", r.next)
	}
	lg.Add(vt.Ev{"ev": "end"})
	sched.Stop()
	for _, c := range r.cancels {
		c()
	}
	r.conn.CloseIn()
	sess.Close()
	r.conn.Close()
	return result{evs: lg.Events(), res: res, note: strings.TrimSpace(note)}
}

var stRe = regexp.MustCompile(`(?m)^goroutine (\d+) \[([^\],]+)`)
var stackBuf = make([]byte, 1<<20)

func blockedStatus(st string) bool {
	switch st {
	case "chan receive", "chan send", "select", "select (no cases)", "chan receive (nil chan)",
		"chan send (nil chan)", "sync.Mutex.Lock", "sync.RWMutex.RLock", "sync.RWMutex.Lock",
		"semacquire", "sync.Cond.Wait", "sync.WaitGroup.Wait", "IO wait", "finalizer wait",
		"GC worker (idle)", "GC sweep wait", "GC scavenge wait", "force gc (idle)", "debug call",
		"trace reader (blocked)", "cleanup wait":
		return true
	}
	return false
}

// quiesce waits until every goroutine of the process other than the caller is blocked on a
// Go primitive (or gone), unchanged over three consecutive looks.  No library code under
// test uses timers, so once everybody else is blocked only the caller can make them move.
func quiesce() {
	self := ""
	stable := 0
	prev := ""
	deadline := time.Now().Add(5 * time.Second)
	for {
		n := runtime.Stack(stackBuf, true)
		quiet := true
		var sig []string
		for i, x := range stRe.FindAllSubmatch(stackBuf[:n], -1) {
			if i == 0 && self == "" {
				self = string(x[1]) // the calling goroutine is listed first
			}
			if string(x[1]) == self {
				continue
			}
			if !blockedStatus(string(x[2])) {
				quiet = false
			}
			sig = append(sig, string(x[1])+string(x[2]))
		}
		sort.Strings(sig)
		cur := strings.Join(sig, ",")
		if quiet && cur == prev {
			stable++
			if stable >= 3 {
				return
			}
		} else {
			stable = 0
		}
		prev = cur
		if time.Now().After(deadline) {
			return
		}
		for k := 0; k < 20; k++ {
			runtime.Gosched()
		}
	}
}

func main() {
	if len(os.Args) < 4 || os.Args[1] != "run" {
		fmt.Fprintln(os.Stderr, "usage: muc run <scenarios.ndjson> <trace.ndjson>")
		os.Exit(2)
	}
	f, err := os.Open(os.Args[2])
	if err != nil {
		panic(err)
	}
	var scs []Scenario
	rd := bufio.NewScanner(f)
	rd.Buffer(make([]byte, 1<<20), 1<<24)
	for rd.Scan() {
		var s Scenario
		if err := json.Unmarshal(rd.Bytes(), &s); err != nil {
			panic(err)
		}
		for i := range s.Steps {
			// never a JSON null in a trace; an invitation without layout is the plain one
			if st := s.Steps[i].St; st != nil && st.Lay == nil {
				st.Lay = []string{}
				if st.Ty == "inv" {
					st.Lay = []string{"u"}
				}
			}
			// every presence carries its payload content: the plain one when the script names none
			if st := s.Steps[i].St; st != nil {
				if st.Codes == nil {
					st.Codes = defCodes(st)
				}
				if st.Item == "" {
					st.Item = "-"
				}
			}
			// every stanza carries a shape: the plain well-formed one for an error reply without
			if st := s.Steps[i].St; st != nil && (st.Ty == "av" || st.Ty == "un") && presShapes[st.Shape] {
				continue // a presence whose muc#user payload cannot be decoded
			}
			if st := s.Steps[i].St; st != nil && (st.Shape == "" || st.Ty != "er") {
				st.Shape = "-"
				if st.Ty == "er" {
					st.Shape = "wf"
				}
			}
			if st := s.Steps[i].St; st != nil && st.Ty == "er" {
				known := false
				for _, k := range erShapes {
					known = known || k == st.Shape
				}
				if !known {
					panic("unknown shape of an error reply: " + st.Shape)
				}
			}
		}
		scs = append(scs, s)
	}
	f.Close()
	maxPre := 1
	if v := os.Getenv("MUC_MAXPRE"); v != "" {
		maxPre, _ = strconv.Atoi(v)
	}
	maxRuns, _ := strconv.Atoi(os.Getenv("MUC_MAXRUNS"))
	shard, nshard := 0, 1
	if s := os.Getenv("MUC_SHARD"); s != "" {
		fmt.Sscanf(s, "%d/%d", &shard, &nshard)
	}
	tw, err := vt.NewTraceWriter(os.Args[3])
	if err != nil {
		panic(err)
	}
	runs, stuck, cut := 0, 0, 0
	distinct := map[string]bool{}
	var samples []interface{}
	for si, sc := range scs {
		if si%nshard != shard {
			continue
		}
		var last result
		one := func(choices []int) bool {
			runs++
			if strings.HasPrefix(last.note, "stuck") {
				stuck++
			}
			if strings.Contains(last.note, "cut@") {
				cut++
			}
			key, _ := json.Marshal(last.evs)
			k := strconv.Itoa(si) + string(key)
			if distinct[k] {
				return true
			}
			distinct[k] = true
			if choices == nil {
				choices = []int{}
			}
			t := tw.Write(vt.Ev{}, last.evs)
			tw.Meta(vt.Ev{"scenario": sc, "choices": choices, "note": last.note})
			if len(samples) < 2 && len(last.evs) > 8 {
				samples = append(samples, vt.Ev{"t": t, "scenario": sc, "choices": choices, "events": last.evs})
			}
			return true
		}
		if sc.Mode == "explore" && sc.Fixed {
			last = runSchedule(sc, sc.Choices)
			one(sc.Choices)
		} else if sc.Mode == "explore" {
			mr := maxRuns
			if sc.MaxRuns > 0 && mr > 0 && sc.MaxRuns > mr {
				mr = sc.MaxRuns
			}
			vt.Explore(func(choices []int) vt.RunResult {
				last = runSchedule(sc, choices)
				return last.res
			}, maxPre, mr, one)
		} else {
			last = runSchedule(sc, nil)
			one(nil)
		}
	}
	if err := tw.Close(); err != nil {
		panic(err)
	}
	tr, ev := tw.Counts()
	vt.Summary{Traces: tr, Events: ev, Evaluations: runs, Distinct: len(distinct), Samples: samples,
		Extra: map[string]interface{}{"stuck": stuck, "cut": cut, "hooks": hooksOn}}.Print()
}
