//go:build !muchooks

package main

// hooksOn is false when the tree under test has no yield points in package muc: the narrow
// windows are then not forced (the protocol-level scenarios still run).
const hooksOn = false

func setMucHook(f func(point, id string)) {}
