// Command caps runs the real entity-capabilities hash (disco.Info.Hash / AppendHash) on
// the vectors TLC emitted from tla/Caps.tla (EmitCaps) and compares the observed pre-hash
// string with the specification's Ver.
//
//	caps run <caps_vectors.ndjson> <result.json>
//
// One input line per base info value: its class ("strict": XEP-0115 5.1 defines the
// string, "free": only permutation invariance / no panic / Hash = AppendHash(nil), "ill":
// only no panic / Hash = AppendHash(nil)), the octets of Ver computed by the spec and every
// presentation (order of identities, features, forms, fields, values) of the value.
//
// For every presentation the info value is built twice - from the public constructors and
// by decoding the XML a peer would send - and handed to AppendHash(nil, h) and Hash(h)
// with a recording hash.Hash (Sum returns the bytes written), so the real pre-hash string
// is observed exactly; then every supported hash function is applied on both sides.  A
// fresh value is built for every call because AppendHash sorts its argument in place.
package main

import (
	"bufio"
	"bytes"
	"crypto/sha1"
	_ "crypto/sha256"
	_ "crypto/sha512"
	"encoding/base64"
	"encoding/json"
	"encoding/xml"
	"fmt"
	"hash"
	"os"
	"runtime"
	"runtime/debug"
	"strings"
	"sync"
	"sync/atomic"

	_ "golang.org/x/crypto/blake2b"
	_ "golang.org/x/crypto/sha3"

	"mellium.im/xmpp/crypto"
	"mellium.im/xmpp/disco"
	"mellium.im/xmpp/disco/info"
	"mellium.im/xmpp/form"

	"verifharness/vt"
)

// Str is a string of the specification: a sequence of octets.
type Str []int

func (s Str) String() string {
	b := make([]byte, len(s))
	for i, c := range s {
		b[i] = byte(c)
	}
	return string(b)
}

type Ident struct {
	Cat  Str `json:"cat"`
	Type Str `json:"type"`
	Lang Str `json:"lang"`
	Name Str `json:"name"`
}

type Field struct {
	Var  Str   `json:"var"`
	Vals []Str `json:"vals"`
}

type Form struct {
	Fields []Field `json:"fields"`
}

type Info struct {
	IDs   []Ident `json:"ids"`
	Feats []Str   `json:"feats"`
	Forms []Form  `json:"forms"`
}

type Vector struct {
	Base  Info   `json:"base"`
	Class string `json:"class"`
	Ver   Str    `json:"ver"`
	Pres  []Info `json:"pres"`
}

// recorder is a hash.Hash whose "digest" is everything written to it.
type recorder struct{ buf []byte }

func (r *recorder) Write(p []byte) (int, error) { r.buf = append(r.buf, p...); return len(p), nil }
func (r *recorder) Sum(b []byte) []byte         { return append(b, r.buf...) }
func (r *recorder) Reset()                      { r.buf = r.buf[:0] }
func (r *recorder) Size() int                   { return len(r.buf) }
func (r *recorder) BlockSize() int              { return 1 }

var _ hash.Hash = (*recorder)(nil)

// constructed builds the value through the public constructors.
func constructed(in Info) (disco.Info, error) {
	var out disco.Info
	for _, id := range in.IDs {
		out.Identity = append(out.Identity, info.Identity{
			Category: id.Cat.String(), Type: id.Type.String(), Lang: id.Lang.String(), Name: id.Name.String(),
		})
	}
	for _, f := range in.Feats {
		out.Features = append(out.Features, info.Feature{Var: f.String()})
	}
	for _, fm := range in.Forms {
		fields := []form.Field{form.Result}
		for _, fd := range fm.Fields {
			var opts []form.Option
			for _, v := range fd.Vals {
				opts = append(opts, form.Value(v.String()))
			}
			switch {
			case fd.Var.String() == "FORM_TYPE":
				fields = append(fields, form.Hidden("FORM_TYPE", opts...))
			case len(fd.Vals) > 1:
				fields = append(fields, form.ListMulti(fd.Var.String(), opts...))
			default:
				fields = append(fields, form.Text(fd.Var.String(), opts...))
			}
		}
		out.Form = append(out.Form, *form.New(fields...))
	}
	return out, nil
}

func esc(s string) string {
	var b bytes.Buffer
	xml.EscapeText(&b, []byte(s))
	return b.String()
}

// wire is the disco#info reply a peer would send for the value, in the given order.
func wire(in Info) string {
	var b strings.Builder
	b.WriteString(`<query xmlns='http://jabber.org/protocol/disco#info'>`)
	for _, id := range in.IDs {
		fmt.Fprintf(&b, `<identity category='%s' type='%s'`, esc(id.Cat.String()), esc(id.Type.String()))
		if len(id.Lang) > 0 {
			fmt.Fprintf(&b, ` xml:lang='%s'`, esc(id.Lang.String()))
		}
		if len(id.Name) > 0 {
			fmt.Fprintf(&b, ` name='%s'`, esc(id.Name.String()))
		}
		b.WriteString(`/>`)
	}
	for _, f := range in.Feats {
		fmt.Fprintf(&b, `<feature var='%s'/>`, esc(f.String()))
	}
	for _, fm := range in.Forms {
		if len(fm.Fields) == 0 {
			b.WriteString(`<x xmlns='jabber:x:data' type='result'/>`)
			continue
		}
		b.WriteString(`<x xmlns='jabber:x:data' type='result'>`)
		for _, fd := range fm.Fields {
			fmt.Fprintf(&b, `<field var='%s'`, esc(fd.Var.String()))
			if fd.Var.String() == "FORM_TYPE" {
				b.WriteString(` type='hidden'`)
			}
			if len(fd.Vals) == 0 {
				b.WriteString(`/>`)
				continue
			}
			b.WriteString(`>`)
			for _, v := range fd.Vals {
				fmt.Fprintf(&b, `<value>%s</value>`, esc(v.String()))
			}
			b.WriteString(`</field>`)
		}
		b.WriteString(`</x>`)
	}
	b.WriteString(`</query>`)
	return b.String()
}

// decoded builds the value by unmarshalling the peer's reply.  The input of the property is then
// the REPLY: whatever the decoder makes of it, the verification string of the decoded value has to
// be the 5.1 construction over what the reply holds (a decoder that drops or alters a value changes
// the string and is reported through the comparison with Ver, not excused here).
func decoded(in Info) (disco.Info, error) {
	var out disco.Info
	if err := xml.Unmarshal([]byte(wire(in)), &out); err != nil {
		return out, fmt.Errorf("unmarshal: %v", err)
	}
	return out, nil
}

var variants = []struct {
	name  string
	build func(Info) (disco.Info, error)
}{{"constructed", constructed}, {"decoded", decoded}}

type outcome struct {
	out   string // return value (base64 text)
	panic string
}

// call runs one library call on a fresh value, catching a panic of library code.
func call(build func(Info) (disco.Info, error), in Info, h hash.Hash, appendForm bool) (o outcome, err error) {
	v, err := build(in)
	if err != nil {
		return o, err
	}
	defer func() {
		if r := recover(); r != nil {
			st := string(debug.Stack())
			at := ""
			for _, l := range strings.Split(st, "\n") {
				if strings.Contains(l, "/disco/") || strings.Contains(l, "/form/") {
					at = strings.TrimSpace(l)
					break
				}
			}
			o.panic = fmt.Sprintf("%v at %s", r, at)
		}
	}()
	if appendForm {
		o.out = string(v.AppendHash(nil, h))
	} else {
		o.out = v.Hash(h)
	}
	return o, nil
}

type Mismatch struct {
	Kind     string `json:"kind"`
	Class    string `json:"class"`
	Variant  string `json:"variant"`
	Call     string `json:"call"`
	HashName string `json:"hash"`
	Base     Info   `json:"base"`
	Pres     Info   `json:"pres"`
	Ref      *Info  `json:"ref,omitempty"` // the presentation that gave Want (kind "perm")
	Want     string `json:"want"`
	Got      string `json:"got"`
	Panic    string `json:"panic,omitempty"`
	Ver      Str    `json:"ver"`
	XML      string `json:"xml"`
}

var hashes = []crypto.Hash{crypto.SHA1, crypto.SHA224, crypto.SHA256, crypto.SHA384, crypto.SHA512,
	crypto.SHA3_256, crypto.SHA3_512, crypto.BLAKE2b_256, crypto.BLAKE2b_512}

// vecResult is what judging one vector (one base value with all its presentations) yields.
type vecResult struct {
	evals, calls, strict, free, ill int
	mism                            []Mismatch
	distinct                        map[string]bool
	driverErr                       []string
	samples                         []interface{}
	counts                          map[string]int // exact number of mismatches per kind
}

func judge(vec Vector, avail []crypto.Hash) (res vecResult) {
	res.distinct = map[string]bool{}
	res.counts = map[string]int{}
	perKind := map[string]int{}
	add := func(m Mismatch) {
		// examples are bounded per vector as well (the merge bounds them again over the whole run)
		res.counts[m.Kind]++
		k := m.Kind + "/" + m.Class + "/" + m.Variant
		if perKind[k] < 5 {
			perKind[k]++
			res.mism = append(res.mism, m)
		}
	}
	want := vec.Ver.String()
	ref := ""         // first observed pre-hash string of this base (classes strict, free)
	var refPres *Info // and the presentation that gave it
	haveRef := false
	for pi := range vec.Pres {
		p := vec.Pres[pi]
		res.evals++
		switch vec.Class {
		case "strict":
			res.strict++
		case "free":
			res.free++
		default:
			res.ill++
		}
		for _, va := range variants {
			mk := func(kind, callName, hn, w, g, pn string) Mismatch {
				return Mismatch{Kind: kind, Class: vec.Class, Variant: va.name, Call: callName, HashName: hn,
					Base: vec.Base, Pres: p, Want: w, Got: g, Panic: pn, Ver: vec.Ver, XML: wire(p)}
			}
			// 1. the pre-hash string, through both entry points
			oa, err := call(va.build, p, &recorder{}, true)
			if err != nil {
				res.driverErr = append(res.driverErr, va.name+": "+err.Error()+": "+wire(p))
				continue
			}
			oh, _ := call(va.build, p, &recorder{}, false)
			res.calls += 2
			if oa.panic != "" || oh.panic != "" {
				pn, cn := oa.panic, "AppendHash"
				if pn == "" {
					pn, cn = oh.panic, "Hash"
				}
				add(mk("panic", cn, "recorder", "", "", pn))
				continue
			}
			if oa.out != oh.out {
				add(mk("hash-vs-append", "Hash", "recorder", oa.out, oh.out, ""))
			}
			raw, err := base64.StdEncoding.DecodeString(oa.out)
			if err != nil {
				add(mk("not-base64", "AppendHash", "recorder", "", oa.out, ""))
				continue
			}
			got := string(raw)
			res.distinct[got] = true
			switch vec.Class {
			case "strict":
				if got != want {
					add(mk("ver", "AppendHash", "recorder", want, got, ""))
				}
			}
			if vec.Class != "ill" {
				if !haveRef {
					ref, haveRef = got, true
					q := p
					refPres = &q
				} else if got != ref {
					m := mk("perm", "AppendHash", "recorder", ref, got, "")
					m.Ref = refPres
					add(m)
				}
			}
			// 2. every supported hash function, Hash against AppendHash(nil) and against H(Ver)
			for _, h := range avail {
				a, _ := call(va.build, p, h.New(), true)
				b, _ := call(va.build, p, h.New(), false)
				res.calls += 2
				if a.panic != "" || b.panic != "" {
					add(mk("panic", "Hash", h.String(), "", "", a.panic+b.panic))
					continue
				}
				if a.out != b.out {
					add(mk("hash-vs-append", "Hash", h.String(), a.out, b.out, ""))
				}
				hh := h.New()
				if vec.Class == "strict" {
					hh.Write([]byte(want))
				} else {
					hh.Write(raw) // consistency of the digest with the observed pre-hash string
				}
				w := base64.StdEncoding.EncodeToString(hh.Sum(nil))
				if a.out != w {
					add(mk("digest", "AppendHash", h.String(), w, a.out, ""))
				}
			}
			if len(res.samples) < 1 && vec.Class == "strict" && len(p.Forms) > 0 && len(p.IDs) > 1 && pi == len(vec.Pres)-1 {
				res.samples = append(res.samples, map[string]interface{}{
					"xml": wire(p), "variant": va.name, "spec_ver": want, "observed_prehash": got, "class": vec.Class,
					"presentations_of_this_value": len(vec.Pres)})
			}
		}
	}
	return res
}

func main() {
	if len(os.Args) < 4 || os.Args[1] != "run" {
		fmt.Fprintln(os.Stderr, "usage: caps run <caps_vectors.ndjson> <result.json>")
		os.Exit(2)
	}
	f, err := os.Open(os.Args[2])
	if err != nil {
		panic(err)
	}
	defer f.Close()
	var avail []crypto.Hash
	var names []string
	for _, h := range hashes {
		if h.Available() {
			avail = append(avail, h)
			names = append(names, h.String())
		}
	}
	_ = sha1.New

	counts := map[string]int{}
	var mism []Mismatch
	perKind := map[string]int{}
	add := func(m Mismatch) {
		// keep a bounded number of examples per kind and class
		k := m.Kind + "/" + m.Class + "/" + m.Variant
		if perKind[k] < 5 {
			perKind[k]++
			mism = append(mism, m)
		}
	}
	var samples []interface{}
	distinct := map[string]bool{}
	bases, evals, calls, strictN, freeN, illN := 0, 0, 0, 0, 0, 0
	var driverErr []string

	// The vectors are independent of one another: they are judged by a pool of workers and the
	// results are merged in the order of the file, so the outcome does not depend on scheduling.
	rd := bufio.NewReaderSize(f, 1<<20)
	dec := json.NewDecoder(rd)
	var vecs []Vector
	for dec.More() {
		var vec Vector
		if err := dec.Decode(&vec); err != nil {
			panic(err)
		}
		vecs = append(vecs, vec)
	}
	results := make([]vecResult, len(vecs))
	var wg sync.WaitGroup
	next := int64(-1)
	nw := runtime.NumCPU()
	if nw > 16 {
		nw = 16
	}
	for w := 0; w < nw; w++ {
		wg.Add(1)
		go func() {
			defer wg.Done()
			for {
				i := int(atomic.AddInt64(&next, 1))
				if i >= len(vecs) {
					return
				}
				results[i] = judge(vecs[i], avail)
			}
		}()
	}
	wg.Wait()
	for i := range results {
		r := &results[i]
		bases++
		evals += r.evals
		calls += r.calls
		strictN += r.strict
		freeN += r.free
		illN += r.ill
		for _, m := range r.mism {
			add(m)
		}
		for k, n := range r.counts {
			counts[k] += n
		}
		for k := range r.distinct {
			distinct[k] = true
		}
		driverErr = append(driverErr, r.driverErr...)
		for _, sm := range r.samples {
			if len(samples) < 3 {
				samples = append(samples, sm)
			}
		}
	}
	res := map[string]interface{}{
		"bases": bases, "evaluations": evals, "library_calls": calls, "strict": strictN, "free": freeN, "ill": illN,
		"distinct_prehash_strings": len(distinct), "hash_functions": names,
		"mismatch_counts": counts, "mismatches": mism, "driver_errors": driverErr, "samples": samples,
	}
	if mism == nil {
		res["mismatches"] = []Mismatch{}
	}
	if samples == nil {
		res["samples"] = []interface{}{}
	}
	if driverErr == nil {
		res["driver_errors"] = []string{}
	}
	b, _ := json.Marshal(res)
	if err := os.WriteFile(os.Args[3], b, 0o644); err != nil {
		panic(err)
	}
	vt.Summary{Traces: evals, Evaluations: calls, Distinct: len(distinct), Samples: samples,
		Extra: map[string]interface{}{"mismatch_counts": counts, "bases": bases}}.Print()
}
