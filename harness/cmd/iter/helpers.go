package main

import (
	"context"
	"encoding/xml"
	"errors"
	"fmt"
	"io"
	"strings"

	"mellium.im/xmlstream"
	"mellium.im/xmpp"
	"mellium.im/xmpp/blocklist"
	"mellium.im/xmpp/bookmarks"
	"mellium.im/xmpp/commands"
	"mellium.im/xmpp/disco"
	"mellium.im/xmpp/disco/items"
	"mellium.im/xmpp/history"
	"mellium.im/xmpp/jid"
	"mellium.im/xmpp/paging"
	"mellium.im/xmpp/pubsub"
	"mellium.im/xmpp/roster"
	"mellium.im/xmpp/stanza"
)

const (
	nsQ      = "urn:vt:q"
	nsRSM    = "http://jabber.org/protocol/rsm"
	nsCmd    = "http://jabber.org/protocol/commands"
	nsMAM    = "urn:xmpp:mam:2"
	pageMax  = 5
	setCount = 7
)

var peerJID = jid.MustParse("example.net")

// iterator is what the consumer program drives, whatever the helper.
type iterator interface {
	Next() bool
	ItemID() string // identity "i<k>-<j>" of the item the last successful Next delivered
	Err() error
	Close() error
}

// failed stands for "no iterator was returned, only an error" (Session.IterIQ).
type failed struct{ err error }

func (f failed) Next() bool     { return false }
func (f failed) ItemID() string { return "" }
func (f failed) Err() error     { return f.err }
func (f failed) Close() error   { return nil }

func attrOf(start *xml.StartElement, name string) string {
	if start == nil {
		return ""
	}
	for _, a := range start.Attr {
		if a.Name.Local == name {
			return a.Value
		}
	}
	return ""
}

type rawIter struct{ *xmlstream.Iter }

func (r rawIter) ItemID() string { s, _ := r.Current(); return attrOf(s, "id") }

type pagingIter struct{ *paging.Iter }

func (r pagingIter) ItemID() string { s, _ := r.Current(); return attrOf(s, "id") }

type rosterIter struct{ *roster.Iter }

func (r rosterIter) ItemID() string { return r.Item().JID.Localpart() }

type blockIter struct{ *blocklist.Iter }

func (r blockIter) ItemID() string { return r.JID().Localpart() }

type pubsubIter struct{ *pubsub.Iter }

func (r pubsubIter) ItemID() string { id, _ := r.Item(); return id }

type bookmarkIter struct{ *bookmarks.Iter }

func (r bookmarkIter) ItemID() string { return r.Bookmark().JID.Localpart() }

type discoIter struct{ *disco.ItemIter }

func (r discoIter) ItemID() string { return strings.SplitN(r.Item().JID.Domainpart(), ".", 2)[0] }

type cmdIter struct{ commands.Iter }

func (r cmdIter) ItemID() string { return strings.SplitN(r.Command().JID.Domainpart(), ".", 2)[0] }

type histIter struct {
	*history.Iter
	id   string
	read bool
}

func (r *histIter) Next() bool {
	r.id, r.read = "", false
	return r.Iter.Next()
}

// ItemID reads (once per item) exactly the two tokens the handler read itself before it handed the
// message over (the message and the result start elements); anything further would read from the
// serve loop's reader while the serve loop goes on.
func (r *histIter) ItemID() string {
	if r.read {
		return r.id
	}
	r.read = true
	c := r.Current()
	if c == nil {
		return ""
	}
	if _, err := c.Token(); err != nil {
		return ""
	}
	tok, err := c.Token()
	if err != nil {
		return ""
	}
	if st, ok := tok.(xml.StartElement); ok {
		r.id = attrOf(&st, "id")
	}
	return r.id
}

// fetcher starts (the next page of) an iteration; cursor is what the previous page's iterator
// reported ("" for the first page).
type fetcher struct {
	sess   *xmpp.Session
	helper string
	hist   *history.Handler
	prev   iterator
	npage  int
}

func (f *fetcher) fetch(ctx context.Context) (it iterator) {
	f.npage++
	switch f.helper {
	case "iteriq":
		i, _, err := f.sess.IterIQ(ctx, stanza.IQ{Type: stanza.GetIQ, To: peerJID}.Wrap(
			xmlstream.Wrap(nil, xml.StartElement{Name: xml.Name{Space: nsQ, Local: "q"}})))
		if err != nil {
			return failed{err}
		}
		return rawIter{i}
	case "iteriqel":
		i, _, err := f.sess.IterIQElement(ctx, xmlstream.Wrap(nil, xml.StartElement{Name: xml.Name{Space: nsQ, Local: "q"}}),
			stanza.IQ{Type: stanza.GetIQ, To: peerJID})
		if err != nil {
			return failed{err}
		}
		return rawIter{i}
	case "paging":
		var set xml.TokenReader = (&paging.RequestNext{Max: pageMax}).TokenReader()
		if p, ok := f.prev.(pagingIter); ok && p.NextPage() != nil {
			set = p.NextPage().TokenReader()
		}
		i, _, err := f.sess.IterIQ(ctx, stanza.IQ{Type: stanza.GetIQ, To: peerJID}.Wrap(
			xmlstream.Wrap(set, xml.StartElement{Name: xml.Name{Space: nsQ, Local: "q"}})))
		if err != nil {
			return failed{err}
		}
		return pagingIter{paging.WrapIter(i, pageMax)}
	case "roster":
		return rosterIter{roster.Fetch(ctx, f.sess)}
	case "blocklist":
		return blockIter{blocklist.Fetch(ctx, f.sess)}
	case "pubsub":
		return pubsubIter{pubsub.Fetch(ctx, f.sess, pubsub.Query{Node: "n"})}
	case "bookmarks":
		return bookmarkIter{bookmarks.Fetch(ctx, f.sess)}
	case "disco":
		return discoIter{disco.FetchItems(ctx, items.Item{JID: peerJID, Node: "root"}, f.sess)}
	case "commands":
		return cmdIter{commands.Fetch(ctx, peerJID, f.sess)}
	case "history":
		q := history.Query{ID: fmt.Sprintf("q%d", f.npage), Limit: pageMax}
		if p, ok := f.prev.(*histIter); ok {
			q.PageID = p.Result().Set.Last
		}
		return &histIter{Iter: f.hist.Fetch(ctx, q, peerJID, f.sess)}
	}
	panic("helper " + f.helper)
}

// nextCursor is the cursor of the next page as the finished iterator reports it ("" = none).
func nextCursor(it iterator) string {
	switch x := it.(type) {
	case pagingIter:
		if np := x.NextPage(); np != nil {
			return np.After
		}
	case *histIter:
		if res := x.Result(); !res.Complete {
			return res.Set.Last
		}
	}
	return ""
}

// ---------------------------------------------------------------- responder side

func itemID(k, j int) string { return fmt.Sprintf("i%d-%d", k, j) }

func parseItemID(s string) (k, j int) {
	if _, err := fmt.Sscanf(s, "i%d-%d", &k, &j); err != nil {
		return 0, 0
	}
	return k, j
}

func cursorNum(s string) int {
	var k int
	switch {
	case s == "":
		return 0
	case strings.HasPrefix(s, "L"):
		if _, err := fmt.Sscanf(s, "L%d", &k); err == nil {
			return k
		}
	case strings.HasPrefix(s, "F"):
		if _, err := fmt.Sscanf(s, "F%d", &k); err == nil {
			return -k
		}
	}
	return 99
}

func rsmSet(k int, p Page) string {
	var b strings.Builder
	b.WriteString("<set xmlns='" + nsRSM + "'>")
	if p.N >= 1 {
		fmt.Fprintf(&b, "<first index='%d'>F%d</first>", 3*k, k)
	}
	if p.More {
		fmt.Fprintf(&b, "<last>L%d</last>", k)
	}
	fmt.Fprintf(&b, "<count>%d</count></set>", setCount)
	return b.String()
}

func pagedHelper(h string) bool {
	return h == "paging" || h == "disco" || h == "commands" || h == "history"
}

func oneItem(helper string, k, j int, bad bool) string {
	id := itemID(k, j)
	switch helper {
	case "iteriq", "iteriqel", "paging":
		return fmt.Sprintf("<item id='%s'/>", id)
	case "roster", "blocklist":
		if bad {
			return "<item jid='@@'/>"
		}
		return fmt.Sprintf("<item jid='%s@example.net'/>", id)
	case "pubsub":
		return fmt.Sprintf("<item id='%s'><x xmlns='urn:vt:x'/></item>", id)
	case "bookmarks":
		if bad {
			id = "@@"
		} else {
			id += "@example.net"
		}
		return fmt.Sprintf("<item id='%s'><conference xmlns='urn:xmpp:bookmarks:1' name='x' autojoin='true'/></item>", id)
	case "disco", "commands":
		if bad {
			return "<item jid='@@'/>"
		}
		return fmt.Sprintf("<item jid='%s.example.net' node='nd' name='x'/>", id)
	}
	panic("helper " + helper)
}

func payloadOpen(helper string) (open, close string) {
	switch helper {
	case "iteriq", "iteriqel", "paging":
		return "<q xmlns='" + nsQ + "'>", "</q>"
	case "roster":
		return "<query xmlns='jabber:iq:roster' ver='v1'>", "</query>"
	case "blocklist":
		return "<blocklist xmlns='urn:xmpp:blocking'>", "</blocklist>"
	case "pubsub":
		return "<pubsub xmlns='http://jabber.org/protocol/pubsub'><items node='n'>", "</items></pubsub>"
	case "bookmarks":
		return "<pubsub xmlns='http://jabber.org/protocol/pubsub'><items node='urn:xmpp:bookmarks:1'>", "</items></pubsub>"
	case "disco", "commands":
		return "<query xmlns='http://jabber.org/protocol/disco#items'>", "</query>"
	}
	panic("helper " + helper)
}

const errorPayload = "<error type='cancel'><item-not-found xmlns='urn:ietf:params:xml:ns:xmpp-stanzas'/></error>"

// renderPage returns the bytes the responder sends for page k and whether it ends the stream
// afterwards.
func renderPage(helper, variant string, k int, p Page, wireID, queryID string) (string, bool) {
	iq := func(typ, body string) string {
		return fmt.Sprintf("<iq type='%s' id='%s' from='example.net'>%s</iq>", typ, wireID, body)
	}
	if helper == "history" {
		var b strings.Builder
		for j := 1; j <= p.N; j++ {
			fmt.Fprintf(&b, "<message type='normal' from='example.net' id='m%d-%d'><result xmlns='%s' queryid='%s' id='%s'>"+
				"<forwarded xmlns='urn:xmpp:forward:0'><message xmlns='jabber:client' from='a@example.net'><body>x</body></message></forwarded>"+
				"</result></message>", k, j, nsMAM, queryID, itemID(k, j))
		}
		switch p.Kind {
		case "ok":
			complete := "true"
			if p.More {
				complete = "false"
			}
			b.WriteString(iq("result", fmt.Sprintf("<fin xmlns='%s' complete='%s'>%s</fin>", nsMAM, complete, rsmSet(k, p))))
		case "error":
			b.WriteString(iq("error", errorPayload))
		case "bad":
			b.WriteString(iq("result", fmt.Sprintf("<fin xmlns='%s'><set xmlns='%s'><first index='x'>F</first></set></fin>", nsMAM, nsRSM)))
		case "eos":
			return b.String(), true
		}
		return b.String(), false
	}
	switch p.Kind {
	case "error":
		return iq("error", errorPayload), false
	case "silence":
		return "", false
	case "eos":
		return "", true
	}
	open, close := payloadOpen(helper)
	var b strings.Builder
	b.WriteString(open)
	for j := 1; j <= p.N; j++ {
		b.WriteString(oneItem(helper, k, j, false))
	}
	switch p.Kind {
	case "ok":
		if variant == "empty" && p.N == 0 && !p.More {
			return iq("result", ""), false // a result without any payload
		}
		if pagedHelper(helper) {
			b.WriteString(rsmSet(k, p))
		}
		b.WriteString(close)
		return iq("result", b.String()), false
	case "bad":
		if helper == "paging" {
			b.WriteString("<set xmlns='" + nsRSM + "'><first index='x'>F</first></set>")
		} else {
			b.WriteString(oneItem(helper, k, p.N+1, true))
		}
		b.WriteString(oneItem(helper, k, p.N+2, false))
		b.WriteString(close)
		return iq("result", b.String()), false
	case "broken":
		full := iq("result", b.String())
		full = full[:len(full)-len("</iq>")]
		if variant == "cut" {
			return full, true // the stream ends inside the response
		}
		return full + "</wrong>", false // ill-formed: mismatched end tag
	}
	panic("kind " + p.Kind)
}

func renderCommand(variant string, r Reply, wireID string) (string, bool) {
	iq := func(typ, body string) string {
		return fmt.Sprintf("<iq type='%s' id='%s' from='example.net'>%s</iq>", typ, wireID, body)
	}
	cmd := func(ns string) string {
		var b strings.Builder
		b.WriteString("<command xmlns='" + ns + "'")
		if r.Node != "" {
			b.WriteString(" node='" + r.Node + "'")
		}
		if r.SID != "" {
			b.WriteString(" sessionid='" + r.SID + "'")
		}
		if r.Status != "" {
			b.WriteString(" status='" + r.Status + "'")
		}
		b.WriteString("><actions execute='next'><prev/><next/></actions><x xmlns='jabber:x:data' type='form'><field var='a'/></x></command>")
		return b.String()
	}
	switch r.Shape {
	case "cmd":
		return iq("result", cmd(nsCmd)), false
	case "error":
		return iq("error", errorPayload), false
	case "empty":
		return fmt.Sprintf("<iq type='result' id='%s' from='example.net'/>", wireID), false
	case "text":
		return iq("result", "hello"), false
	case "other":
		if variant == "wrongns" {
			return iq("result", cmd("urn:vt:other")), false
		}
		return iq("result", "<query xmlns='"+nsQ+"'/>"), false
	case "broken": // the stream breaks before the command element is complete
		head := fmt.Sprintf("<iq type='result' id='%s' from='example.net'>", wireID)
		if variant == "cut" {
			return head + "<command xmlns='" + nsCmd + "' node='n1", true
		}
		return head + "</wrong>", false
	case "silence":
		return "", false
	case "eos":
		return "", true
	}
	panic("shape " + r.Shape)
}

func errClass(err error, cbErr error) string {
	var se stanza.Error
	switch {
	case err == nil:
		return "none"
	case cbErr != nil && errors.Is(err, cbErr):
		return "cb"
	case errors.As(err, &se):
		return "stanza"
	case errors.Is(err, context.Canceled), errors.Is(err, context.DeadlineExceeded):
		return "ctx"
	}
	return "other"
}

var _ = io.EOF
