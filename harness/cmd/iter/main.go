// Command iter drives the library's stateful request helpers - response iterators
// (Session.IterIQ, paging.Iter, roster / blocklist / pubsub / bookmarks / disco / commands
// Fetch, history.Handler.Fetch) and ad-hoc command sessions (commands.Execute / ForEach) -
// on one really served session against a scripted responder, under the single-runner
// scheduler, and records one trace per run for validation against tla/Iter.tla and
// tla/Commands.tla.
//
//	iter run <scenarios.ndjson> <trace-iter.ndjson> <trace-commands.ndjson>
//	env: ITER_MAXPRE, ITER_MAXRUNS (schedules per explored scenario), ITER_SHARD=i/n
package main

import (
	"bufio"
	"context"
	"encoding/json"
	"encoding/xml"
	"errors"
	"fmt"
	"io"
	"os"
	"regexp"
	"runtime"
	"strconv"
	"strings"
	"sync"

	"mellium.im/xmlstream"
	"mellium.im/xmpp"
	"mellium.im/xmpp/commands"
	"mellium.im/xmpp/history"
	"mellium.im/xmpp/jid"
	"mellium.im/xmpp/mux"
	"mellium.im/xmpp/stanza"
	"mellium.im/xmpp/stream"

	"verifharness/vt"
)

type Page struct {
	Kind string `json:"kind"`
	N    int    `json:"n"`
	More bool   `json:"more"`
}

type Reply struct {
	Shape  string `json:"shape"`
	Status string `json:"status"`
	SID    string `json:"sid"`
	Node   string `json:"node"`
}

type Plan struct {
	Act   string `json:"act"`
	CbErr bool   `json:"cberr"`
}

type Scenario struct {
	Part    string   `json:"part"`   // iter | commands
	Helper  string   `json:"helper"` // iter part
	Mode    string   `json:"mode"`   // auto manual push | chain foreach
	Script  []Page   `json:"script"`
	Prog    []string `json:"prog"`
	Replies []Reply  `json:"replies"` // commands part
	Plan    []Plan   `json:"plan"`
	Variant string   `json:"variant"` // rendering of broken / empty / other replies
	// Cancel: 0 = the context is only cancelled when everybody is blocked; k > 0 = cancelling becomes
	// possible as soon as request k is on the wire (races with the reply)
	Cancel  int  `json:"cancel"`
	Explore  bool   `json:"explore"`
	ProgName string `json:"progname"`
}

const hdrIn = `<stream:stream from="example.net" to="me@example.net" id="123" version="1.0" xmlns="jabber:client" xmlns:stream="http://etherx.jabber.org/streams">`

func nopNeg(ns string) xmpp.Negotiator {
	return func(ctx context.Context, in, out *stream.Info, s *xmpp.Session, data interface{}) (xmpp.SessionState, io.ReadWriter, interface{}, error) {
		rc := s.TokenReader()
		defer rc.Close()
		for {
			tok, err := rc.Token()
			if err != nil {
				return 0, nil, nil, err
			}
			if st, ok := tok.(xml.StartElement); ok {
				if err := in.FromStartElement(st); err != nil {
					return 0, nil, nil, err
				}
				break
			}
		}
		out.XMLNS = ns
		return xmpp.Ready, nil, nil, nil
	}
}

func curGoid() int {
	var b [64]byte
	n := runtime.Stack(b[:], false)
	f := strings.Fields(string(b[:n]))
	id, _ := strconv.Atoi(f[1])
	return id
}

// leftover holds the goroutines that existed when the previous run ended: whatever they still do
// does not belong to the current run.
var leftover = map[int]bool{}

var gidRe = regexp.MustCompile(`(?m)^goroutine (\d+) \[`)

func allGoroutines() map[int]bool {
	buf := make([]byte, 1<<20)
	n := runtime.Stack(buf, true)
	for n >= len(buf) {
		buf = make([]byte, 2*len(buf))
		n = runtime.Stack(buf, true)
	}
	m := map[int]bool{}
	me := curGoid()
	for _, x := range gidRe.FindAllSubmatch(buf[:n], -1) {
		id, _ := strconv.Atoi(string(x[1]))
		if id != me {
			m[id] = true
		}
	}
	return m
}

var (
	iqRe     = regexp.MustCompile(`(?s)<iq\b[^>]*?(?:/>|>.*?</iq>)`)
	idRe     = regexp.MustCompile(`^<iq\b[^>]*?\bid="([^"]*)"`)
	afterRe  = regexp.MustCompile(`<after[^>]*>([^<]*)</after>`)
	beforeRe = regexp.MustCompile(`<before[^>]*?(?:/>|>([^<]*)</before>)`)
	qidRe    = regexp.MustCompile(`\bqueryid="([^"]*)"`)
	cmdRe    = regexp.MustCompile(`<command\b[^>]*>`)
)

func attrIn(tag, name string) string {
	m := regexp.MustCompile(`\b` + name + `="([^"]*)"`).FindStringSubmatch(tag)
	if m == nil {
		return ""
	}
	return m[1]
}

type request struct {
	id, qid string
}

type result struct {
	evs  []vt.Ev
	res  vt.RunResult
	note string
}

var errCb = errors.New("callback refuses")

func runSchedule(sc Scenario, choices []int) result {
	lg := &vt.Log{}
	conn := vt.NewConn()
	conn.FeedString(hdrIn)
	sess, err := xmpp.NewSession(context.Background(), jid.MustParse("example.net"), jid.MustParse("me@example.net"), conn, 0, nopNeg(stanza.NSClient))
	if err != nil {
		panic(err)
	}
	sched := vt.NewSched()
	sched.AutoRegister = true
	xmpp.VerifHook = func(point, id string) {
		if leftover[curGoid()] {
			return // a goroutine left over from an earlier run (a run that ended stuck leaves some behind)
		}
		if strings.HasPrefix(point, "serve.") || strings.HasPrefix(point, "resp.") {
			lg.Add(vt.Ev{"ev": "hook", "point": point})
		}
		sched.Gate(point)
	}
	defer func() { xmpp.VerifHook = nil }()

	// the scripted responder: sees the requests on the wire, answers through environment actions
	var mu sync.Mutex
	var wire []byte
	var seen []request
	idOf := map[string]int{}
	conn.React = func(p []byte) {
		mu.Lock()
		defer mu.Unlock()
		wire = append(wire, p...)
		for {
			loc := iqRe.FindIndex(wire)
			if loc == nil {
				return
			}
			s := string(wire[loc[0]:loc[1]])
			wire = wire[loc[1]:]
			m := idRe.FindStringSubmatch(s)
			if m == nil {
				continue
			}
			rq := request{id: m[1]}
			if q := qidRe.FindStringSubmatch(s); q != nil {
				rq.qid = q[1]
			}
			seen = append(seen, rq)
			idOf[rq.id] = len(seen)
			if sc.Part == "commands" {
				tag := cmdRe.FindString(s)
				act := attrIn(tag, "action")
				if act == "" {
					act = "none"
				}
				lg.Add(vt.Ev{"ev": "req", "sid": attrIn(tag, "sessionid"), "node": attrIn(tag, "node"), "action": act})
				continue
			}
			cursor, dir := "", "none"
			a, b := afterRe.FindStringSubmatch(s), beforeRe.FindStringSubmatch(s)
			switch {
			case a != nil && b != nil:
				cursor, dir = a[1], "both"
			case a != nil:
				cursor, dir = a[1], "after"
			case b != nil:
				cursor, dir = b[1], "before"
			}
			lg.Add(vt.Ev{"ev": "req", "cursor": cursorNum(cursor), "dir": dir})
		}
	}
	conn.Gate = func(point string) { sched.Gate(point) }
	nseen := func() int { mu.Lock(); defer mu.Unlock(); return len(seen) }
	kOf := func(id string) int { mu.Lock(); defer mu.Unlock(); return idOf[id] }

	ctx, cancel := context.WithCancel(context.Background())
	cancelled, inClosed, served := false, false, false
	doCancel := func() {
		cancelled = true
		lg.Add(vt.Ev{"ev": "cancel"})
		cancel()
	}

	// handlers: tracked history queries; everything else is logged as "reached the fallback"
	hist := history.NewHandler(mux.MessageHandlerFunc(func(m stanza.Message, r xmlstream.TokenReadEncoder) error {
		k, j := 0, 0
		if tok, err := r.Token(); err == nil {
			if st, ok := tok.(xml.StartElement); ok {
				k, j = parseItemID(attrOf(&st, "id"))
			}
		}
		lg.Add(vt.Ev{"ev": "handler", "t": "item", "k": k, "j": j})
		return nil
	}))
	m := mux.New(stanza.NSClient, history.Handle(hist))
	top := xmpp.HandlerFunc(func(t xmlstream.TokenReadEncoder, start *xml.StartElement) error {
		if start.Name.Local == "iq" {
			lg.Add(vt.Ev{"ev": "handler", "t": "reply", "k": kOf(attrOf(start, "id")), "j": 0})
			return nil
		}
		return m.HandleXMPP(t, start)
	})

	call := func(op string) { lg.Add(vt.Ev{"ev": "call", "op": op}) }
	consumer := func() {
		defer func() {
			if p := recover(); p != nil {
				lg.Add(vt.Ev{"ev": "panic", "msg": fmt.Sprint(p)})
			}
		}()
		if sc.Part == "commands" {
			runCommands(ctx, sc, sess, lg, call)
			return
		}
		f := &fetcher{sess: sess, helper: sc.Helper, hist: hist}
		var it iterator
		next := func() bool {
			call("next")
			ok := it.Next()
			e := vt.Ev{"ev": "ret", "op": "next", "ok": ok, "k": 0, "j": 0}
			if ok {
				e["k"], e["j"] = parseItemID(it.ItemID())
			}
			lg.Add(e)
			return ok
		}
		exhausted := false
		for _, op := range sc.Prog {
			if it == nil && op != "fetch" {
				continue
			}
			switch op {
			case "fetch":
				if it != nil && (sc.Mode == "auto" || !exhausted || nextCursor(it) == "") {
					continue // nothing says there is another page to ask for
				}
				call("fetch")
				f.prev = it
				it = f.fetch(ctx)
				exhausted = false
				cls := "none"
				if sc.Mode != "push" {
					cls = errClass(it.Err(), nil)
				}
				lg.Add(vt.Ev{"ev": "ret", "op": "fetch", "err": cls})
			case "next":
				next()
			case "drain":
				for n := 0; n < 50 && next(); n++ {
				}
			case "item":
				call("item")
				k, j := parseItemID(it.ItemID())
				lg.Add(vt.Ev{"ev": "ret", "op": "item", "k": k, "j": j})
			case "err":
				call("err")
				lg.Add(vt.Ev{"ev": "ret", "op": "err", "err": errClass(it.Err(), nil)})
			case "close":
				call("close")
				lg.Add(vt.Ev{"ev": "ret", "op": "close", "err": errClass(it.Close(), nil)})
			case "more": // what does the finished iterator say about a next page?
				if sc.Mode == "auto" {
					continue
				}
				exhausted = it.Err() == nil
				lg.Add(vt.Ev{"ev": "nextc", "next": cursorNum(nextCursor(it)), "usable": exhausted})
			case "page":
				p, ok := it.(pagingIter)
				if !ok || p.CurrentPage() == nil || p.Err() != nil {
					continue
				}
				set := p.CurrentPage()
				e := vt.Ev{"ev": "pageinfo", "first": cursorNum(set.First.ID), "last": cursorNum(set.Last), "index": -1, "count": -1,
					"prev": 0, "next": 0, "max": 0}
				if set.First.Index != nil {
					e["index"] = int(*set.First.Index)
				}
				if set.Count != nil {
					e["count"] = int(*set.Count)
				}
				if pp := p.PreviousPage(); pp != nil {
					e["prev"] = cursorNum(pp.Before)
				}
				if np := p.NextPage(); np != nil {
					e["next"], e["max"] = cursorNum(np.After), int(np.Max)
				}
				lg.Add(e)
			default:
				panic("op " + op)
			}
		}
	}
	sched.Go("c", consumer)
	sched.Go("s", func() {
		defer func() {
			if p := recover(); p != nil {
				lg.Add(vt.Ev{"ev": "panic", "msg": fmt.Sprint(p)})
			}
		}()
		sess.Serve(top)
		served = true
		lg.Add(vt.Ev{"ev": "serve_ret"})
	})

	answered := 0
	sched.Env(&vt.EnvAction{Name: "reply",
		Enabled: func() bool { return nseen() > answered && !inClosed },
		Do: func() {
			answered++
			k := answered
			mu.Lock()
			rq := seen[k-1]
			mu.Unlock()
			lg.Add(vt.Ev{"ev": "peer", "k": k})
			var bytes string
			var eos bool
			if sc.Part == "commands" {
				if k <= len(sc.Replies) {
					bytes, eos = renderCommand(sc.Variant, sc.Replies[k-1], rq.id)
				}
			} else if k <= len(sc.Script) {
				bytes, eos = renderPage(sc.Helper, sc.Variant, k, sc.Script[k-1], rq.id, rq.qid)
			}
			if bytes != "" {
				conn.FeedString(bytes)
			}
			if eos {
				inClosed = true
				conn.CloseIn()
			}
		}})
	if sc.Cancel > 0 {
		sched.Env(&vt.EnvAction{Name: "cancel", Once: true,
			Enabled: func() bool { return nseen() >= sc.Cancel && !cancelled },
			Do:      doCancel})
	}
	// goroutines the library started itself register with the scheduler on their first gate but never
	// sign off: one that has vanished from the goroutine dump has finished
	reallyBlocked := func() map[string]string {
		m := map[string]string{}
		for n, st := range sched.Blocked() {
			if st != "" {
				m[n] = st
			}
		}
		return m
	}
	res, note := sched.Drive(choices, 3000, func() bool {
		// everybody is blocked.  What a real peer / caller may legitimately do next: a caller whose
		// request gets no answer gives up (context); at the very end the peer ends its stream.
		// But: bytes of the peer lying unread while the serve loop is alive and everybody is blocked is
		// a stall of the library, not a silent peer - nobody may "help" it by cancelling.
		if !served && !inClosed && !conn.InputEmpty() {
			return false
		}
		if !cancelled && len(reallyBlocked()) > 1 {
			doCancel()
			return true
		}
		if !inClosed {
			inClosed = true
			lg.Add(vt.Ev{"ev": "eos"})
			conn.CloseIn()
			return true
		}
		if !cancelled {
			doCancel()
			return true
		}
		return false
	})
	if note == "stuck" && len(reallyBlocked()) == 0 {
		note = ""
	}
	if note != "" {
		lg.Add(vt.Ev{"ev": note, "blocked": fmt.Sprint(reallyBlocked())})
	}
	lg.Add(vt.Ev{"ev": "end"})
	sched.Stop()
	cancel()
	conn.CloseIn()
	xmpp.VerifHook = nil
	leftover = allGoroutines()
	return result{evs: lg.Events(), res: res, note: note}
}

func runCommands(ctx context.Context, sc Scenario, sess *xmpp.Session, lg *vt.Log, call func(string)) {
	first := commands.Command{JID: peerJID, Node: "n0"}
	follow := func(r commands.Response, act string) commands.Command {
		switch act {
		case "next":
			return r.Next()
		case "prev":
			return r.Prev()
		case "complete":
			return r.Complete()
		case "cancel":
			return r.Cancel()
		}
		panic("act " + act)
	}
	planAt := func(k int) Plan {
		if k >= 1 && k <= len(sc.Plan) {
			return sc.Plan[k-1]
		}
		return Plan{Act: "next"}
	}
	if sc.Mode == "foreach" {
		k := 0
		call("foreach")
		err := first.ForEach(ctx, nil, sess, func(r commands.Response, payload xml.TokenReader) (commands.Command, xml.TokenReader, error) {
			k++
			lg.Add(vt.Ev{"ev": "cb", "k": k, "status": r.Status, "sid": r.SID, "node": r.Node})
			if payload != nil {
				payload.Token() // look at the payload as a callback would
			}
			p := planAt(k)
			if p.CbErr {
				return commands.Command{}, nil, errCb
			}
			return follow(r, p.Act), nil, nil
		})
		lg.Add(vt.Ev{"ev": "ret", "op": "foreach", "err": errClass(err, errCb)})
		return
	}
	cmd := first
	for k := 1; k <= len(sc.Plan)+1; k++ {
		call("exec")
		r, payload, err := cmd.Execute(ctx, nil, sess)
		lg.Add(vt.Ev{"ev": "ret", "op": "exec", "ok": err == nil, "status": r.Status, "sid": r.SID, "node": r.Node, "err": errClass(err, nil)})
		if err != nil {
			break
		}
		if k%2 == 1 {
			payload.Token()
		}
		call("closep")
		payload.Close()
		lg.Add(vt.Ev{"ev": "ret", "op": "closep"})
		if k == 1 { // closing twice is harmless
			call("closep")
			payload.Close()
			lg.Add(vt.Ev{"ev": "ret", "op": "closep"})
		}
		cmd = follow(r, planAt(k).Act)
	}
}

func main() {
	if len(os.Args) < 5 || os.Args[1] != "run" {
		fmt.Fprintln(os.Stderr, "usage: iter run <scenarios.ndjson> <trace-iter.ndjson> <trace-commands.ndjson>")
		os.Exit(2)
	}
	f, err := os.Open(os.Args[2])
	if err != nil {
		panic(err)
	}
	var scs []Scenario
	rd := bufio.NewScanner(f)
	rd.Buffer(make([]byte, 1<<20), 1<<24)
	for rd.Scan() {
		var s Scenario
		if err := json.Unmarshal(rd.Bytes(), &s); err != nil {
			panic(err)
		}
		scs = append(scs, s)
	}
	f.Close()
	maxPre := 1
	if v := os.Getenv("ITER_MAXPRE"); v != "" {
		maxPre, _ = strconv.Atoi(v)
	}
	maxRuns, _ := strconv.Atoi(os.Getenv("ITER_MAXRUNS"))
	shard, nshard := 0, 1
	if s := os.Getenv("ITER_SHARD"); s != "" {
		fmt.Sscanf(s, "%d/%d", &shard, &nshard)
	}
	tws := map[string]*vt.TraceWriter{}
	for i, part := range []string{"iter", "commands"} {
		tw, err := vt.NewTraceWriter(os.Args[3+i])
		if err != nil {
			panic(err)
		}
		tws[part] = tw
	}
	runs, stuck := 0, 0
	var samples []interface{}
	for si, sc := range scs {
		if si%nshard != shard {
			continue
		}
		fmt.Println("SCENARIO", si)
		distinct := map[string]bool{}
		var last result
		mr := 1
		if sc.Explore {
			mr = maxRuns
		}
		vt.Explore(func(choices []int) vt.RunResult {
			last = runSchedule(sc, choices)
			return last.res
		}, maxPre, mr, func(choices []int) bool {
			runs++
			if last.note != "" {
				stuck++
			}
			key, _ := json.Marshal(last.evs)
			if distinct[string(key)] {
				return true
			}
			distinct[string(key)] = true
			tw := tws[sc.Part]
			var reset vt.Ev
			if sc.Part == "commands" {
				replies, plan := []interface{}{}, []interface{}{}
				for _, r := range sc.Replies {
					replies = append(replies, r)
				}
				for _, p := range sc.Plan {
					plan = append(plan, p)
				}
				reset = vt.Ev{"mode": sc.Mode, "script": replies, "plan": plan}
			} else {
				script := []interface{}{}
				for _, p := range sc.Script {
					script = append(script, p)
				}
				reset = vt.Ev{"mode": sc.Mode, "script": script}
			}
			t := tw.Write(reset, last.evs)
			tw.Meta(vt.Ev{"scenario": sc, "choices": append([]int{}, choices...), "note": last.note})
			if len(samples) < 2 {
				samples = append(samples, vt.Ev{"t": t, "scenario": sc, "events": len(last.evs)})
			}
			return true
		})
	}
	ti, ei := tws["iter"].Counts()
	tc, ec := tws["commands"].Counts()
	for _, tw := range tws {
		if err := tw.Close(); err != nil {
			panic(err)
		}
	}
	vt.Summary{Traces: ti + tc, Events: ei + ec, Evaluations: runs, Distinct: ti + tc, Samples: samples,
		Extra: map[string]interface{}{"stuck": stuck, "iter_traces": ti, "commands_traces": tc}}.Print()
}
