// Command lifecycle drives WHOLE sessions of the real library, one trace per session side,
// for validation against tla/XMPP.tla (trace spec tla/TrXMPP.tla).
//
// Two real sessions (xmpp.NewSession / xmpp.ReceiveSession, default negotiator, real features
// SASL PLAIN + resource binding on a pre-secured stream) are joined by vt.Pipe. After the
// negotiation both sides Serve with a recording handler in front of a mux with the ping
// handler, and the applications perform the scenario's operations: sequentially (seeded
// sequences, quiescence between steps) or as goroutines under the single-runner scheduler
// (vt.Sched, hooks of package xmpp). Each side's trace holds the events of all phases:
// negotiate steps (wrapped features), the return of NewSession/ReceiveSession with state bits
// and addresses, handler invocations, transmit calls and returns, request outcomes, close
// calls, Serve's return, the final state bits and addresses, a read and a write attempted
// after the end.
//
//	lifecycle run <scenarios.ndjson> <trace.ndjson>   env: LIFE_MAXPRE, LIFE_MAXRUNS, LIFE_SHARD=i/n
package main

import (
	"bufio"
	"context"
	"encoding/json"
	"encoding/xml"
	"errors"
	"fmt"
	"io"
	"os"
	"regexp"
	"runtime"
	"sort"
	"strconv"
	"strings"
	"sync"
	"time"

	"mellium.im/sasl"
	"mellium.im/xmlstream"
	"mellium.im/xmpp"
	"mellium.im/xmpp/jid"
	"mellium.im/xmpp/mux"
	"mellium.im/xmpp/ping"
	"mellium.im/xmpp/stanza"
	"mellium.im/xmpp/stream"

	"verifharness/vt"
)

const (
	user     = "me"
	password = "secret"
	domain   = "example.net"
)

// Step is one operation of the sequential mode; Proc one goroutine of the scheduled mode.
type Step struct {
	Side string `json:"side"` // c | s
	K    string `json:"k"`
}

type Proc struct {
	Side  string   `json:"side"`
	Name  string   `json:"name"`
	Calls []string `json:"calls"`
}

type Scenario struct {
	// Neg: ok | badpass | binderr | cancel-<side>-<n> | cut-<side>-<n>
	Neg     string   `json:"neg"`
	Steps   []Step   `json:"steps"`
	Procs   []Proc   `json:"procs"`
	NoServe []string `json:"noserve"` // sides whose application never calls Serve
}

// concrete call kind -> call kind of the specification
func abstractKind(k string) string {
	switch k {
	case "send", "sendel", "encode", "encodeel", "tw", "herr":
		return "tx"
	case "ping", "unmarshal", "iqunk":
		return "req"
	}
	return k // close updaddr deadline
}

// ---------------------------------------------------------------- goroutine registry

var (
	regMu sync.Mutex
	reg   = map[int]string{}
)

func goid() int {
	var b [64]byte
	n := runtime.Stack(b[:], false)
	f := strings.Fields(string(b[:n]))
	id, _ := strconv.Atoi(f[1])
	return id
}

func register(name string) {
	regMu.Lock()
	reg[goid()] = name
	regMu.Unlock()
}

func who() string {
	id := goid()
	regMu.Lock()
	defer regMu.Unlock()
	return reg[id]
}

func resetRegistry() {
	regMu.Lock()
	reg = map[int]string{}
	regMu.Unlock()
}

// ---------------------------------------------------------------- quiescence (sequential mode)

var stRe = regexp.MustCompile(`(?m)^goroutine (\d+) \[([^\],]+)`)
var stackBuf = make([]byte, 1<<20)

func blockedStatus(st string) bool {
	switch st {
	case "chan receive", "chan send", "select", "select (no cases)", "chan receive (nil chan)",
		"chan send (nil chan)", "sync.Mutex.Lock", "sync.RWMutex.RLock", "sync.RWMutex.Lock",
		"semacquire", "sync.Cond.Wait", "sync.WaitGroup.Wait", "IO wait", "finalizer wait",
		"GC worker (idle)", "GC sweep wait", "GC scavenge wait", "force gc (idle)", "debug call",
		"trace reader (blocked)", "cleanup wait", "sleep":
		return true
	}
	return false
}

// quiesce waits until every goroutine other than the caller is blocked, unchanged over three polls.
func quiesce() {
	self := goid()
	stable := 0
	prev := ""
	deadline := time.Now().Add(5 * time.Second)
	for {
		n := runtime.Stack(stackBuf, true)
		for n >= len(stackBuf) {
			stackBuf = make([]byte, 2*len(stackBuf))
			n = runtime.Stack(stackBuf, true)
		}
		quiet := true
		var sig []string
		for _, x := range stRe.FindAllSubmatch(stackBuf[:n], -1) {
			id, _ := strconv.Atoi(string(x[1]))
			if id == self {
				continue
			}
			if !blockedStatus(string(x[2])) {
				quiet = false
			}
			sig = append(sig, string(x[1])+string(x[2]))
		}
		sort.Strings(sig)
		cur := strings.Join(sig, ",")
		if quiet && cur == prev {
			stable++
			if stable >= 3 {
				return
			}
		} else {
			stable = 0
		}
		prev = cur
		if time.Now().After(deadline) {
			return
		}
		runtime.Gosched()
	}
}

// ---------------------------------------------------------------- one side of the pipe

type side struct {
	name string // c | s
	role string // init | recv
	conn *vt.Conn
	peer *side
	sess *xmpp.Session
	nerr error
	lg   *vt.Log

	mu        sync.Mutex
	live      bool // the negotiation call has returned: transport writes are the application's
	rx        vt.Scanner
	rxDepth   int
	rxItem    vt.Ev
	ctxs      map[string]context.Context
	cancels   map[string]context.CancelFunc
	reqDone   map[string]bool
	cancelled map[string]bool
	reqs      []string
	autoclose []string
	serving   bool
	serveDone chan struct{}
	nmark     int
	handled   int
}

func newSide(name, role string, conn *vt.Conn) *side {
	return &side{name: name, role: role, conn: conn, lg: &vt.Log{}, ctxs: map[string]context.Context{},
		cancels: map[string]context.CancelFunc{}, reqDone: map[string]bool{}, cancelled: map[string]bool{},
		serveDone: make(chan struct{})}
}

func (x *side) isLive() bool {
	x.mu.Lock()
	defer x.mu.Unlock()
	return x.live
}

// proc name of the calling goroutine on this side ("?" when it is not one of ours)
func (x *side) proc() string {
	w := who()
	if strings.HasPrefix(w, x.name+".") {
		return w[len(x.name)+1:]
	}
	return "?" + w
}

// name of the requester of this side that uses the stanza id, or "zz"
func (x *side) reqName(id string) string {
	x.mu.Lock()
	defer x.mu.Unlock()
	return x.reqNameLocked(id)
}

func (x *side) reqNameLocked(id string) string {
	if strings.HasPrefix(id, x.name+".") {
		n := id[len(x.name)+1:]
		for _, r := range x.reqs {
			if r == n {
				return n
			}
		}
	}
	return "zz"
}

func bitsOf(st xmpp.SessionState) []string {
	b := []string{}
	for _, x := range []struct {
		m xmpp.SessionState
		n string
	}{{xmpp.Secure, "Secure"}, {xmpp.Authn, "Authn"}, {xmpp.Ready, "Ready"}, {xmpp.OutputStreamClosed, "OutClosed"}, {xmpp.InputStreamClosed, "InClosed"}} {
		if st&x.m != 0 {
			b = append(b, x.n)
		}
	}
	return b
}

func (x *side) addrEv(ev string) vt.Ev {
	s := x.sess
	return vt.Ev{"ev": ev, "local": s.LocalAddr().String(), "remote": s.RemoteAddr().String(),
		"into": s.In().To.String(), "infrom": s.In().From.String(), "outto": s.Out().To.String(), "outfrom": s.Out().From.String(),
		"bits": bitsOf(s.State())}
}

func errClass(err error) string {
	switch {
	case err == nil:
		return "nil"
	case errors.Is(err, xmpp.ErrOutputStreamClosed):
		return "closed"
	case errors.Is(err, xmpp.ErrInputStreamClosed):
		return "inclosed"
	}
	var se stream.Error
	if errors.As(err, &se) {
		return "streamerr"
	}
	return "other"
}

func classifyWrite(p []byte) string {
	s := string(p)
	switch {
	case s == "</stream:stream>":
		return "close"
	case strings.HasPrefix(s, "<stream:error") && !strings.Contains(s, "</stream:stream>"):
		return "err"
	case strings.Contains(s, "</stream:stream>") || strings.Contains(s, "<stream:error"):
		return "mixed"
	}
	return "elem"
}

// the peer wrote p: log the complete top-level items it contains into this side's trace (before
// the bytes become readable)
func (x *side) incoming(p []byte) {
	for _, t := range x.rx.Feed(p) {
		switch t.Kind {
		case "start", "empty":
			if x.rxDepth == 0 {
				item := "stanza"
				id := t.Attr["id"]
				typ := t.Attr["type"]
				switch {
				case t.Name == "stream:error":
					item = "streamerr"
				case vt.Local(t.Name) == "iq" && (typ == "get" || typ == "set"):
					item = "get"
				case vt.Local(t.Name) == "iq" && (typ == "result" || typ == "error"):
					item = "resp"
				case strings.HasPrefix(id, "herr"):
					item = "herr"
				}
				e := vt.Ev{"ev": "peer", "item": item, "id": "zz"}
				if item == "resp" {
					e["id"] = x.reqNameLocked(id)
				}
				x.rxItem = e
			}
			if t.Kind == "start" {
				x.rxDepth++
			} else if x.rxDepth == 0 && x.rxItem != nil {
				x.lg.Add(x.rxItem)
				x.rxItem = nil
			}
		case "end":
			if x.rxDepth == 0 {
				x.lg.Add(vt.Ev{"ev": "peer", "item": "close", "id": "zz"})
				x.rx.SetDepth(0)
				continue
			}
			x.rxDepth--
			if x.rxDepth == 0 && x.rxItem != nil {
				x.lg.Add(x.rxItem)
				x.rxItem = nil
			}
		}
	}
}

// raw bytes from a misbehaving / vanishing peer, injected into this side's input
func (x *side) inject(item string) {
	switch item {
	case "serr":
		x.mu.Lock()
		x.incoming([]byte("<stream:error><policy-violation xmlns='urn:ietf:params:xml:ns:xmpp-streams'/></stream:error>"))
		x.mu.Unlock()
		x.conn.FeedString("<stream:error><policy-violation xmlns='urn:ietf:params:xml:ns:xmpp-streams'/></stream:error>")
	case "eof":
		x.lg.Add(vt.Ev{"ev": "peer", "item": "eof", "id": "zz"})
		x.conn.CloseIn()
	case "pclose":
		x.mu.Lock()
		x.incoming([]byte("</stream:stream>"))
		x.mu.Unlock()
		x.conn.FeedString("</stream:stream>")
	case "pmsg":
		b := []byte("<message id='raw1' type='chat'><body>x</body></message>")
		x.mu.Lock()
		x.incoming(b)
		x.mu.Unlock()
		x.conn.Feed(b)
	}
}

func (x *side) handler() xmpp.Handler {
	m := mux.New(stanza.NSClient, ping.Handle())
	return xmpp.HandlerFunc(func(t xmlstream.TokenReadEncoder, start *xml.StartElement) error {
		id, typ := "", ""
		for _, a := range start.Attr {
			switch a.Name.Local {
			case "id":
				id = a.Value
			case "type":
				typ = a.Value
			}
		}
		item := "stanza"
		switch {
		case start.Name.Local == "iq" && (typ == "get" || typ == "set"):
			item = "get"
		case start.Name.Local == "iq" && (typ == "result" || typ == "error"):
			item = "resp"
		case strings.HasPrefix(id, "herr"):
			item = "herr"
		}
		e := vt.Ev{"ev": "handler", "item": item, "id": "zz", "bits": bitsOf(x.sess.State())}
		if item == "resp" {
			e["id"] = x.reqName(id)
		}
		x.lg.Add(e)
		x.mu.Lock()
		x.handled++
		x.mu.Unlock()
		if item == "herr" {
			return errors.New("vt: handler failed")
		}
		return m.HandleXMPP(t, start)
	})
}

type msgBody struct {
	XMLName xml.Name `xml:"message"`
	ID      string   `xml:"id,attr"`
	Type    string   `xml:"type,attr"`
	Body    string   `xml:"body"`
}

type unkPayload struct {
	XMLName xml.Name `xml:"urn:vt:unknown q"`
}

// doCall performs one application call on the session and logs call / ret.
func (x *side) doCall(p, kind string) {
	ak := abstractKind(kind)
	x.mu.Lock()
	x.nmark++
	mark := fmt.Sprintf("%s.%s.%d", x.name, p, x.nmark)
	x.mu.Unlock()
	sess := x.sess
	ctx := context.Background()
	body := func() xml.TokenReader {
		return xmlstream.Wrap(xmlstream.Token(xml.CharData(mark)), xml.StartElement{Name: xml.Name{Local: "body"}})
	}
	mstart := xml.StartElement{Name: xml.Name{Local: "message"}, Attr: []xml.Attr{{Name: xml.Name{Local: "id"}, Value: mark}, {Name: xml.Name{Local: "type"}, Value: "chat"}}}
	x.lg.Add(vt.Ev{"ev": "call", "p": p, "k": ak, "kind": kind})
	e := vt.Ev{"ev": "ret", "p": p, "k": ak}
	var err error
	func() {
		defer func() {
			if r := recover(); r != nil {
				err = fmt.Errorf("panic: %v", r)
				e["panic"] = true
			}
		}()
		switch kind {
		case "send":
			err = sess.Send(ctx, stanza.Message{ID: mark, Type: stanza.ChatMessage}.Wrap(body()))
		case "herr":
			err = sess.Send(ctx, stanza.Message{ID: "herr." + mark, Type: stanza.ChatMessage}.Wrap(body()))
		case "sendel":
			err = sess.SendElement(ctx, body(), mstart)
		case "encode":
			err = sess.Encode(ctx, msgBody{ID: mark, Type: "chat", Body: mark})
		case "encodeel":
			err = sess.EncodeElement(ctx, msgBody{ID: mark, Type: "chat", Body: mark}, mstart)
		case "tw":
			w := sess.TokenWriter()
			var first error
			note := func(er error) {
				if er != nil && first == nil {
					first = er
				}
			}
			note(w.EncodeToken(mstart))
			if first == nil {
				_, er := xmlstream.Copy(w, body())
				note(er)
			}
			if first == nil {
				note(w.EncodeToken(mstart.End()))
			}
			er := w.Close()
			if first == nil {
				note(er)
			}
			err = first
		case "close":
			err = sess.Close()
		case "deadline":
			err = sess.SetCloseDeadline(time.Now().Add(25 * time.Millisecond))
		case "updaddr":
			ok := sess.UpdateAddr(jid.MustParse("evil@example.org/x"))
			e["ok"] = ok
			e["local"] = sess.LocalAddr().String()
			e["outfrom"] = sess.Out().From.String()
		case "ping", "unmarshal", "iqunk":
			x.doRequest(p, kind, e)
		default:
			panic("unknown call kind " + kind)
		}
	}()
	if ak == "req" && e["panic"] == nil {
		return // logged by doRequest
	}
	if kind != "updaddr" {
		e["class"] = errClass(err)
	}
	if err != nil {
		e["err"] = err.Error()
	}
	x.lg.Add(e)
}

func (x *side) doRequest(p, kind string, e vt.Ev) {
	sess := x.sess
	x.mu.Lock()
	ctx := x.ctxs[p]
	x.mu.Unlock()
	id := x.name + "." + p
	var resp xmlstream.TokenReadCloser
	var err error
	switch kind {
	case "ping":
		resp, err = sess.SendIQ(ctx, ping.IQ{IQ: stanza.IQ{ID: id, Type: stanza.GetIQ}}.TokenReader())
	case "iqunk":
		resp, err = sess.EncodeIQElement(ctx, unkPayload{}, stanza.IQ{ID: id, Type: stanza.GetIQ})
	case "unmarshal":
		err = sess.UnmarshalIQ(ctx, ping.IQ{IQ: stanza.IQ{ID: id, Type: stanza.GetIQ}}.TokenReader(), nil)
	}
	x.mu.Lock()
	x.reqDone[p] = true
	x.mu.Unlock()
	var sterr stanza.Error
	switch {
	case err == nil && resp != nil:
		tok, terr := resp.Token()
		e["outcome"] = "reply"
		e["rid"] = ""
		if st, ok := tok.(xml.StartElement); ok && terr == nil {
			for _, a := range st.Attr {
				if a.Name.Local == "id" {
					e["rid"] = x.reqName(a.Value)
				}
			}
		}
		x.lg.Add(e)
		x.lg.Add(vt.Ev{"ev": "closeresp", "i": p})
		resp.Close()
		return
	case err == nil:
		e["outcome"] = "reply"
		e["rid"] = p
	case errors.Is(err, context.Canceled):
		e["outcome"] = "ctxerr"
	case kind == "unmarshal" && errors.As(err, &sterr):
		e["outcome"] = "reply"
		e["rid"] = p
	default:
		e["outcome"] = "senderr"
		e["class"] = errClass(err)
		e["err"] = err.Error()
	}
	x.lg.Add(e)
}

// serveProc: Serve, then a read and a write attempted after the end
func (x *side) serveProc() {
	defer close(x.serveDone)
	x.lg.Add(vt.Ev{"ev": "call", "p": "s", "k": "serve", "kind": "serve"})
	var err error
	func() {
		defer func() {
			if r := recover(); r != nil {
				err = fmt.Errorf("panic: %v", r)
			}
		}()
		err = x.sess.Serve(x.handler())
	}()
	st := x.sess.State()
	e := vt.Ev{"ev": "serve_ret", "p": "s", "class": errClass(err), "bits": bitsOf(st)}
	if err != nil {
		e["err"] = err.Error()
	}
	x.lg.Add(e)
	if st&xmpp.InputStreamClosed == 0 || st&xmpp.OutputStreamClosed == 0 {
		return // the trace is rejected at serve_ret; a read could block for ever
	}
	x.lg.Add(vt.Ev{"ev": "call", "p": "s", "k": "rx", "kind": "rx"})
	r := x.sess.TokenReader()
	_, err = r.Token()
	r.Close()
	x.lg.Add(vt.Ev{"ev": "ret", "p": "s", "k": "rx", "class": errClass(err)})
	// every transmit entry point, after the end
	for _, k := range []string{"send", "sendel", "encode", "encodeel", "tw"} {
		x.doCall("s", k)
	}
}

// ---------------------------------------------------------------- negotiation

func wrap(f xmpp.StreamFeature, name string, lg *vt.Log) xmpp.StreamFeature {
	inner := f.Negotiate
	f.Negotiate = func(ctx context.Context, s *xmpp.Session, data interface{}) (xmpp.SessionState, io.ReadWriter, error) {
		lg.Add(vt.Ev{"ev": "negotiate", "f": name, "bits": bitsOf(s.State())})
		m, rw, err := inner(ctx, s, data)
		e := vt.Ev{"ev": "negret", "f": name, "ok": err == nil, "mask": bitsOf(m), "local": s.LocalAddr().String(), "remote": s.RemoteAddr().String()}
		if err != nil {
			e["err"] = err.Error()
		}
		lg.Add(e)
		return m, rw, err
	}
	return f
}

func negotiator(fs []xmpp.StreamFeature) xmpp.Negotiator {
	return xmpp.NewNegotiator(func(*xmpp.Session, *xmpp.StreamConfig) xmpp.StreamConfig { return xmpp.StreamConfig{Features: fs} })
}

func negotiate(sc Scenario, c, s *side) {
	pw := password
	if sc.Neg == "badpass" {
		pw = "wrong"
	}
	perm := func(n *sasl.Negotiator) bool {
		u, p, _ := n.Credentials()
		ok := string(u) == user && string(p) == password
		if !ok {
			s.lg.Add(vt.Ev{"ev": "refuse", "f": "sasl"})
		}
		return ok
	}
	binder := func(j jid.JID, res string) (jid.JID, error) {
		if sc.Neg == "binderr" {
			s.lg.Add(vt.Ev{"ev": "refuse", "f": "bind"})
			return jid.JID{}, stanza.Error{Type: stanza.Cancel, Condition: stanza.Conflict}
		}
		return j.WithResource("r1")
	}
	cctx, ccancel := context.WithCancel(context.Background())
	sctx, scancel := context.WithCancel(context.Background())
	defer ccancel()
	defer scancel()
	var fside *side
	fat := 0
	fkind := ""
	if f := strings.Split(sc.Neg, "-"); len(f) == 3 {
		fkind = f[0]
		fside = c
		if f[1] == "s" {
			fside = s
		}
		fat, _ = strconv.Atoi(f[2])
	}
	if fkind == "cut" {
		fside.conn.CutIn = fat
		if fat == 0 {
			fside.conn.CutIn = -1
		}
		fside.conn.OnEvent = func(kind, arg string, n int) {
			if kind == "fault" {
				fside.lg.Add(vt.Ev{"ev": "fault", "kind": arg})
			}
		}
	}
	if fkind == "cancel" {
		var gmu sync.Mutex
		gates := 0
		fside.conn.Gate = func(point string) {
			gmu.Lock()
			gates++
			g := gates
			gmu.Unlock()
			if g == fat {
				fside.lg.Add(vt.Ev{"ev": "fault", "kind": "cancel"})
				if fside == c {
					ccancel()
				} else {
					scancel()
				}
			}
		}
	}
	origin := jid.MustParse(user + "@" + domain)
	cdone, sdone := make(chan struct{}), make(chan struct{})
	go func() {
		defer close(cdone)
		defer func() {
			if p := recover(); p != nil {
				c.nerr = fmt.Errorf("panic: %v", p)
			}
		}()
		fs := []xmpp.StreamFeature{wrap(xmpp.SASL("", pw, sasl.Plain), "sasl", c.lg), wrap(xmpp.BindResource(), "bind", c.lg)}
		c.sess, c.nerr = xmpp.NewSession(cctx, jid.MustParse(domain), origin, c.conn, xmpp.Secure, negotiator(fs))
	}()
	go func() {
		defer close(sdone)
		defer func() {
			if p := recover(); p != nil {
				s.nerr = fmt.Errorf("panic: %v", p)
			}
		}()
		fs := []xmpp.StreamFeature{wrap(xmpp.SASLServer(perm, sasl.Plain), "sasl", s.lg), wrap(xmpp.BindCustom(binder), "bind", s.lg)}
		s.sess, s.nerr = xmpp.ReceiveSession(sctx, s.conn, xmpp.Secure, negotiator(fs))
	}()
	// a side whose own negotiation failed stops talking: the other side's input ends
	hung := false
	for cdone != nil || sdone != nil {
		select {
		case <-cdone:
			cdone = nil
			if c.nerr != nil && !hung && sdone != nil {
				quiesce() // the other side may fail by itself (it was told so)
				select {
				case <-sdone:
				default:
					hung = true
					s.lg.Add(vt.Ev{"ev": "fault", "kind": "hangup"})
					s.conn.CloseIn()
				}
			}
		case <-sdone:
			sdone = nil
			if s.nerr != nil && !hung && cdone != nil {
				quiesce()
				select {
				case <-cdone:
				default:
					hung = true
					c.lg.Add(vt.Ev{"ev": "fault", "kind": "hangup"})
					c.conn.CloseIn()
				}
			}
		case <-time.After(10 * time.Second):
			// a stalled handshake is C04's business: end it
			c.conn.Close()
			s.conn.Close()
		}
	}
	c.conn.Gate, s.conn.Gate = nil, nil
	c.conn.OnEvent, s.conn.OnEvent = nil, nil
	for _, x := range []*side{c, s} {
		e := x.addrEv("return")
		e["ok"] = x.nerr == nil
		if x.nerr != nil {
			e["err"] = x.nerr.Error()
		}
		x.lg.Add(e)
		x.mu.Lock()
		x.live = true
		x.mu.Unlock()
	}
}

// ---------------------------------------------------------------- one run

type result struct {
	c, s *side
	res  vt.RunResult
	note string
}

func setup(sc Scenario) (*side, *side) {
	resetRegistry()
	a, b := vt.Pipe()
	c, s := newSide("c", "init", a), newSide("s", "recv", b)
	c.peer, s.peer = s, c
	for _, x := range []*side{c, s} {
		x := x
		fwd := x.conn.React
		x.conn.React = func(p []byte) {
			if x.isLive() {
				x.lg.Add(vt.Ev{"ev": "write", "p": x.proc(), "what": classifyWrite(p)})
				x.peer.mu.Lock()
				x.peer.incoming(p)
				x.peer.mu.Unlock()
			}
			fwd(p)
		}
	}
	return c, s
}

func hasSide(l []string, n string) bool {
	for _, x := range l {
		if x == n {
			return true
		}
	}
	return false
}

func (x *side) addReq(p, kind string) {
	x.mu.Lock()
	defer x.mu.Unlock()
	x.reqs = append(x.reqs, p)
	if kind == "unmarshal" {
		x.autoclose = append(x.autoclose, p)
	}
	x.ctxs[p], x.cancels[p] = context.WithCancel(context.Background())
}

// cancel the contexts of requesters that are still waiting; returns how many
func (x *side) cancelWaiting() int {
	x.mu.Lock()
	var l []string
	for _, r := range x.reqs {
		if !x.reqDone[r] && !x.cancelled[r] {
			x.cancelled[r] = true
			l = append(l, r)
		}
	}
	x.mu.Unlock()
	for _, r := range l {
		x.lg.Add(vt.Ev{"ev": "cancel", "i": r})
		x.cancels[r]()
	}
	return len(l)
}

// watchdog for calls that should return at once: generous, the machine may be loaded; an expired
// watchdog is reported as "stuck" with "watchdog": true (undecided, not a verdict)
const watchdog = 20 * time.Second

func waitDone(ch chan struct{}, d time.Duration) bool {
	select {
	case <-ch:
		return true
	case <-time.After(d):
		return false
	}
}

// probes of a session whose negotiation failed: a transmit call, UpdateAddr, Serve
func (x *side) probeFailed() {
	if x.sess == nil {
		return
	}
	done := make(chan struct{})
	go func() {
		defer close(done)
		register(x.name + ".m")
		x.doCall("m", "updaddr")
		x.doCall("m", "send")
	}()
	if !waitDone(done, watchdog) {
		x.lg.Add(vt.Ev{"ev": "stuck", "watchdog": true, "blocked": "probe of a failed session"})
		return
	}
	x.inject("pmsg")
	x.inject("pclose")
	x.serving = true
	go func() {
		register(x.name + ".s")
		x.serveProc()
	}()
	if !waitDone(x.serveDone, watchdog) {
		x.inject("eof")
		if !waitDone(x.serveDone, watchdog) {
			x.lg.Add(vt.Ev{"ev": "stuck", "watchdog": true, "blocked": "Serve of a failed session"})
		}
	}
}

func runSequential(sc Scenario) result {
	c, s := setup(sc)
	sides := map[string]*side{"c": c, "s": s}
	xmpp.VerifHook = func(point, id string) {
		w := who()
		if len(w) < 3 {
			return
		}
		x := sides[w[:1]]
		if x == nil || !x.isLive() {
			return
		}
		if strings.HasPrefix(point, "serve.") || strings.HasPrefix(point, "resp.") {
			id = x.reqName(id)
		}
		x.lg.Add(vt.Ev{"ev": "hook", "p": w[2:], "point": point, "id": id})
	}
	defer func() { xmpp.VerifHook = nil }()
	negotiate(sc, c, s)
	note := ""
	if c.nerr != nil || s.nerr != nil {
		for _, x := range []*side{c, s} {
			if x.nerr != nil {
				x.probeFailed()
			}
		}
		// the side that did establish (if any) is served until its peer's silence ends it
		for _, x := range []*side{c, s} {
			if x.nerr == nil {
				x.serving = true
				go func(x *side) {
					register(x.name + ".s")
					x.serveProc()
				}(x)
				quiesce()
				select {
				case <-x.serveDone:
				default:
					x.inject("eof")
					if !waitDone(x.serveDone, watchdog) {
						x.lg.Add(vt.Ev{"ev": "stuck", "watchdog": true, "blocked": "Serve after the peer went away"})
						note = "stuck"
					}
				}
			}
		}
		finish(c, s)
		return result{c: c, s: s, note: note}
	}
	for _, x := range []*side{c, s} {
		if !hasSide(sc.NoServe, x.name) {
			x.serving = true
			go func(x *side) {
				register(x.name + ".s")
				x.serveProc()
			}(x)
		}
	}
	quiesce()
	nreq := map[string]int{}
	for _, st := range sc.Steps {
		x := sides[st.Side]
		switch st.K {
		case "serr", "eof", "pclose":
			x.inject(st.K)
		default:
			p := "m"
			wait := true
			if abstractKind(st.K) == "req" {
				nreq[st.Side]++
				p = fmt.Sprintf("i%d", nreq[st.Side])
				x.addReq(p, st.K)
				wait = false
			}
			done := make(chan struct{})
			go func() {
				defer close(done)
				register(x.name + "." + p)
				x.doCall(p, st.K)
			}()
			if wait && !waitDone(done, watchdog) {
				x.lg.Add(vt.Ev{"ev": "stuck", "watchdog": true, "blocked": "call " + st.K})
				note = "stuck"
			}
		}
		quiesce()
	}
	// the end: requesters still waiting for a reply that will never come are legitimate - cancel
	// exactly those; then every application that has not done so closes its session
	for _, x := range []*side{c, s} {
		if x.cancelWaiting() > 0 {
			quiesce()
		}
	}
	for _, x := range []*side{c, s} {
		if x.sess.State()&xmpp.OutputStreamClosed == 0 {
			done := make(chan struct{})
			go func() {
				defer close(done)
				register(x.name + ".m")
				x.doCall("m", "close")
			}()
			waitDone(done, watchdog)
			quiesce()
		}
	}
	for _, x := range []*side{c, s} {
		if !x.serving {
			continue
		}
		if !waitDone(x.serveDone, 500*time.Millisecond) {
			x.inject("eof") // the peer never answered the closing tag: its transport goes away
			if !waitDone(x.serveDone, watchdog) {
				x.lg.Add(vt.Ev{"ev": "stuck", "watchdog": true, "blocked": "Serve did not return"})
				note = "stuck"
			}
		}
	}
	for _, x := range []*side{c, s} {
		if x.cancelWaiting() > 0 {
			quiesce()
		}
	}
	quiesce()
	finish(c, s)
	return result{c: c, s: s, note: note}
}

func finish(c, s *side) {
	for _, x := range []*side{c, s} {
		if x.sess != nil {
			x.lg.Add(x.addrEv("final"))
		}
		x.lg.Add(vt.Ev{"ev": "end"})
	}
	c.conn.Close()
	s.conn.Close()
	for _, x := range []*side{c, s} {
		for _, f := range x.cancels {
			f()
		}
	}
}

func runScheduled(sc Scenario, choices []int) result {
	c, s := setup(sc)
	sides := map[string]*side{"c": c, "s": s}
	negotiate(sc, c, s)
	if c.nerr != nil || s.nerr != nil {
		panic("scheduled scenarios need an established session")
	}
	sched := vt.NewSched()
	xmpp.VerifHook = func(point, id string) {
		if !sched.Mine() {
			return
		}
		w := who()
		if len(w) < 3 {
			return
		}
		x := sides[w[:1]]
		if x == nil {
			return
		}
		if strings.HasPrefix(point, "serve.") || strings.HasPrefix(point, "resp.") {
			id = x.reqName(id)
		}
		x.lg.Add(vt.Ev{"ev": "hook", "p": w[2:], "point": point, "id": id})
		sched.Gate(point)
	}
	defer func() { xmpp.VerifHook = nil }()
	c.conn.Gate = func(point string) { sched.Gate(point) }
	s.conn.Gate = func(point string) { sched.Gate(point) }
	for _, p := range sc.Procs {
		p := p
		x := sides[p.Side]
		for _, k := range p.Calls {
			if abstractKind(k) == "req" {
				x.addReq(p.Name, k)
			}
		}
		sched.Go(p.Side+"."+p.Name, func() {
			register(p.Side + "." + p.Name)
			for _, k := range p.Calls {
				x.doCall(p.Name, k)
			}
		})
	}
	for _, x := range []*side{c, s} {
		x := x
		if !hasSide(sc.NoServe, x.name) {
			x.serving = true
			sched.Go(x.name+".s", func() {
				register(x.name + ".s")
				x.serveProc()
			})
		}
	}
	stage := 0
	res, note := sched.Drive(choices, 1500, func() bool {
		stage++
		switch stage {
		case 1:
			return c.cancelWaiting()+s.cancelWaiting() > 0
		case 2:
			// nobody closes: the transports go away
			n := 0
			for _, x := range []*side{c, s} {
				select {
				case <-x.serveDone:
				default:
					if x.serving {
						x.inject("eof")
						n++
					}
				}
			}
			return n > 0
		case 3:
			return c.cancelWaiting()+s.cancelWaiting() > 0
		}
		return false
	})
	if note == "stuck" {
		b := fmt.Sprint(sched.Blocked())
		c.lg.Add(vt.Ev{"ev": "stuck", "blocked": b})
		s.lg.Add(vt.Ev{"ev": "stuck", "blocked": b})
	}
	sched.Stop()
	finish(c, s)
	return result{c: c, s: s, res: res, note: note}
}

// ---------------------------------------------------------------- traces

func resetOf(x *side, evs []vt.Ev, mode string) vt.Ev {
	progs := map[string][]string{}
	order := []string{}
	for _, e := range evs {
		if e["ev"] == "call" {
			p := e["p"].(string)
			if _, ok := progs[p]; !ok {
				order = append(order, p)
			}
			progs[p] = append(progs[p], e["k"].(string))
		}
	}
	pl := []interface{}{}
	for _, p := range order {
		pl = append(pl, vt.Ev{"p": p, "calls": progs[p]})
	}
	reqs := append([]string{}, x.reqs...)
	auto := append([]string{}, x.autoclose...)
	local0, remote0 := "none", "none"
	if x.role == "init" {
		local0, remote0 = user+"@"+domain, domain
	}
	return vt.Ev{"role": x.role, "progs": pl, "reqs": reqs, "autoclose": auto, "mode": mode, "initbits": []string{"Secure"},
		"local0": local0, "remote0": remote0}
}

func main() {
	if len(os.Args) < 4 || os.Args[1] != "run" {
		fmt.Fprintln(os.Stderr, "usage: lifecycle run <scenarios.ndjson> <trace.ndjson>")
		os.Exit(2)
	}
	f, err := os.Open(os.Args[2])
	if err != nil {
		panic(err)
	}
	var scs []Scenario
	rd := bufio.NewScanner(f)
	rd.Buffer(make([]byte, 1<<20), 1<<24)
	for rd.Scan() {
		var s Scenario
		if err := json.Unmarshal(rd.Bytes(), &s); err != nil {
			panic(err)
		}
		scs = append(scs, s)
	}
	f.Close()
	maxPre := 1
	if v := os.Getenv("LIFE_MAXPRE"); v != "" {
		maxPre, _ = strconv.Atoi(v)
	}
	maxRuns, _ := strconv.Atoi(os.Getenv("LIFE_MAXRUNS"))
	shard, nshard := 0, 1
	if s := os.Getenv("LIFE_SHARD"); s != "" {
		fmt.Sscanf(s, "%d/%d", &shard, &nshard)
	}
	tw, err := vt.NewTraceWriter(os.Args[3])
	if err != nil {
		panic(err)
	}
	runs, stuck := 0, 0
	distinct := map[string]bool{}
	var samples []interface{}
	emit := func(sc Scenario, r result, choices []int, mode string) {
		runs++
		if r.note == "stuck" {
			stuck++
		}
		for _, x := range []*side{r.c, r.s} {
			evs := x.lg.Events()
			key, _ := json.Marshal(evs)
			k := x.name + string(key)
			if distinct[k] {
				continue
			}
			distinct[k] = true
			t := tw.Write(resetOf(x, evs, mode), evs)
			if choices == nil {
				choices = []int{}
			}
			tw.Meta(vt.Ev{"scenario": sc, "side": x.name, "choices": choices, "note": r.note})
			if len(samples) < 2 && len(evs) > 20 {
				samples = append(samples, vt.Ev{"t": t, "scenario": sc, "side": x.name, "events": len(evs)})
			}
		}
	}
	for si, sc := range scs {
		if si%nshard != shard {
			continue
		}
		if len(sc.Procs) == 0 {
			emit(sc, runSequential(sc), nil, "seq")
			continue
		}
		var last result
		vt.Explore(func(choices []int) vt.RunResult {
			last = runScheduled(sc, choices)
			return last.res
		}, maxPre, maxRuns, func(choices []int) bool {
			emit(sc, last, choices, "sched")
			return true
		})
	}
	if err := tw.Close(); err != nil {
		panic(err)
	}
	tr, ev := tw.Counts()
	vt.Summary{Traces: tr, Events: ev, Evaluations: runs, Distinct: len(distinct), Samples: samples,
		Extra: map[string]interface{}{"stuck": stuck}}.Print()
}
