// Command push drives REAL served sessions of mellium.im/xmpp whose multiplexer carries the
// library's handlers for unsolicited ("pushed") stanzas and its small request/response
// services (family "push", check XPUSH; specification tla/Push.tla):
//
//	roster.Handle (roster pushes), carbons.Handle, blocklist.Handle, ping.Handle,
//	version.Handle, xtime.Handle, disco.Handle (+ bookmarks.Handler and an own handler as
//	feature / identity / item sources), and the client-side helpers ping.Send, version.Get,
//	xtime.Get, disco.GetInfo, carbons.Enable/Disable, roster.Set/Delete, blocklist.Add/Remove.
//
// One session per scenario (xmpp.NewSession with a trivial negotiator over vt.Conn, Serve
// running).  The scripted peer is lazy (vt.Conn.Starve): whenever the serve loop finds its
// input empty - i.e. everything fed before has been handled completely - the driver scans
// what the library wrote meanwhile (replies), and feeds the next element of the script.  So
// the whole run is sequential and the log is in program order:
//
//	in k        stanza k of the script was delivered
//	cb ...      an application callback ran (with the fields it was given)
//	reply ...   a stanza the library wrote (type, id, to, condition, payload summary)
//	call/req/ret  a client-side helper was called, its request as seen on the wire, its result
//	serve_ret   Serve returned (error class), end
//
// usage: push run <scenarios.ndjson> <trace.ndjson>     (env PUSH_SHARD=i/n)
package main

import (
	"bufio"
	"context"
	"encoding/json"
	"encoding/xml"
	"errors"
	"fmt"
	"io"
	"os"
	"strconv"
	"strings"
	"sync"
	"time"

	"mellium.im/xmlstream"
	"mellium.im/xmpp"
	"mellium.im/xmpp/bin"
	"mellium.im/xmpp/blocklist"
	"mellium.im/xmpp/bookmarks"
	"mellium.im/xmpp/carbons"
	"mellium.im/xmpp/disco"
	"mellium.im/xmpp/disco/info"
	"mellium.im/xmpp/disco/items"
	"mellium.im/xmpp/jid"
	"mellium.im/xmpp/mux"
	"mellium.im/xmpp/ping"
	"mellium.im/xmpp/roster"
	"mellium.im/xmpp/stanza"
	"mellium.im/xmpp/stream"
	"mellium.im/xmpp/version"
	"mellium.im/xmpp/xtime"

	"verifharness/vt"
)

const (
	ownFull  = "me@example.net/res"
	server   = "example.net"
	streamNS = "http://etherx.jabber.org/streams"
	nsExtra  = "urn:x:extra"
)

// watchdog for one blocking step that is otherwise immediate (never part of a verdict by itself:
// a run that hits it logs "stuck", which the check reports only if it reproduces)
var stepWait = 20 * time.Second

// ---------------------------------------------------------------------------------- scenario

type Cfg struct {
	Roster  string `json:"roster"`  // ok | serr | oerr | off : what the Push callback returns / not registered
	Carbons bool   `json:"carbons"` // carbons.Handle registered
	Block   string `json:"block"`   // all | nil | off : blocklist.Handle with all callbacks / none / not registered
	List    int    `json:"list"`    // number of JIDs the List callback reports
	Resp    bool   `json:"resp"`    // ping, version, time, disco responders registered
	TimeFn  bool   `json:"timefn"`  // xtime.Handler.TimeFunc set
	Extra   bool   `json:"extra"`   // own handler + mux.Feature / mux.Ident sources registered
}

type Item struct {
	JID    string   `json:"jid"`
	Name   string   `json:"name"`
	Sub    string   `json:"sub"`
	Groups []string `json:"groups"`
	Rep    string   `json:"rep"` // block / unblock items: shape of the abuse report inside the item ("" = none)
}

type Inner struct {
	ID   string `json:"id"`
	From string `json:"from"`
	To   string `json:"to"`
	Typ  string `json:"typ"`
	Body string `json:"body"`
}

type Stanza struct {
	St    string `json:"st"`   // iq | message | call
	Typ   string `json:"typ"`  // iq / message type
	Snd   string `json:"snd"`  // sender class
	From  string `json:"from"` // the from attribute that class stands for ("" = none)
	Kind  string `json:"kind"`
	Shape string `json:"shape"`
	ID    string `json:"id"`
	Ver   string `json:"ver"`
	Items []Item `json:"items"`
	Dir   string `json:"dir"`
	Inner Inner  `json:"inner"`
	Node  string `json:"node"`
	To    string `json:"to"`
}

type Scenario struct {
	Cfg    Cfg      `json:"cfg"`
	Script []Stanza `json:"script"`
	N      int      `json:"n"`
}

func esc(s string) string {
	var b strings.Builder
	xml.EscapeText(&b, []byte(s))
	return b.String()
}

func attr(name, v string) string {
	if v == "" {
		return ""
	}
	return " " + name + `="` + esc(v) + `"`
}

func rosterItem(it Item) string {
	s := "<item" + attr("jid", it.JID) + attr("name", it.Name) + attr("subscription", it.Sub) + ">"
	for _, g := range it.Groups {
		s += "<group>" + esc(g) + "</group>"
	}
	return s + "</item>"
}

func innerMsg(in Inner) string {
	return `<message xmlns="jabber:client"` + attr("id", in.ID) + attr("from", in.From) + attr("to", in.To) + attr("type", in.Typ) + `><body>` + esc(in.Body) + `</body></message>`
}

func carbonEl(dir, shape string, in Inner) string {
	switch shape {
	case "empty":
		return `<` + dir + ` xmlns="urn:xmpp:carbons:2"/>`
	case "nofwdmsg":
		return `<` + dir + ` xmlns="urn:xmpp:carbons:2"><forwarded xmlns="urn:xmpp:forward:0"/></` + dir + `>`
	case "delay":
		return `<` + dir + ` xmlns="urn:xmpp:carbons:2"><forwarded xmlns="urn:xmpp:forward:0"><delay xmlns="urn:xmpp:delay" stamp="2020-01-01T00:00:00Z"/>` + innerMsg(in) + `</forwarded></` + dir + `>`
	}
	return `<` + dir + ` xmlns="urn:xmpp:carbons:2"><forwarded xmlns="urn:xmpp:forward:0">` + innerMsg(in) + `</forwarded></` + dir + `>`
}

const (
	knownCid = "sha1+8f35fef110ffc5df08d579a50083ff9308fb6242@bob.xmpp.org"
	sidOK    = `<stanza-id xmlns="urn:xmpp:sid:0" id="s1" by="room@muc.example.org"/>`
)

// report renders the abuse report (XEP-0377) of the given shape: all of them well-formed XML, only "ok" is
// what the XEP shows.
func report(shape string) string {
	open := `<report xmlns="urn:xmpp:reporting:1" reason="urn:xmpp:reporting:abuse">`
	switch shape {
	case "":
		return ""
	case "ok":
		return open + sidOK + `<text>bad words</text></report>`
	case "badby":
		return open + `<stanza-id xmlns="urn:xmpp:sid:0" id="s1" by="@@"/><text>bad words</text></report>`
	case "badby2":
		return open + sidOK + `<stanza-id xmlns="urn:xmpp:sid:0" id="s2" by="a@@b"/></report>`
	case "sidns":
		return open + `<stanza-id id="s1" by="room@muc.example.org"/></report>`
	case "tworeports":
		return open + sidOK + `</report>` + open + `<text>again</text></report>`
	case "twotext":
		return open + `<text>bad words</text><text xml:lang="de">böse Worte</text></report>`
	case "textkid":
		return open + `<text>bad <b>words</b></text></report>`
	case "foreign":
		return `some text<x xmlns="urn:x:unknown" reason="urn:xmpp:reporting:abuse"><stanza-id by="@@"/></x>`
	case "noreason":
		return `<report xmlns="urn:xmpp:reporting:1">` + sidOK + `</report>`
	}
	panic("driver: unknown report shape " + shape)
}

// shaped wraps the content of a payload element according to the request shape: open / close are the payload's
// tags, own is content named like the RESPONSE of that service with values that do not parse.
func shaped(shape, open, close, inner, own string) string {
	switch shape {
	case "kids":
		return open + inner + `<junk xmlns="urn:x:junk" a="1"><deep/>t</junk>` + close
	case "text":
		return open + "some text" + inner + close
	case "own":
		return open + own + inner + close
	case "twice":
		return open + inner + close + open + inner + close
	}
	return open + inner + close
}

// render writes the stanza the peer sends for a script element.
func render(st Stanza) string {
	head := attr("id", st.ID) + attr("type", st.Typ) + attr("from", st.From) + attr("to", ownFull)
	if st.St == "message" {
		body := ""
		other := map[string]string{"sent": "received", "received": "sent"}
		switch st.Kind {
		case "plain":
			body = "<body>plain</body>"
		case "carbon":
			switch st.Shape {
			case "bodyfirst":
				body = "<body>outer</body>" + carbonEl(st.Dir, "ok", st.Inner)
			case "bodylast":
				body = carbonEl(st.Dir, "ok", st.Inner) + "<body>outer</body>"
			case "two":
				body = carbonEl(st.Dir, "ok", st.Inner) + carbonEl(other[st.Dir], "ok", st.Inner)
			default:
				body = carbonEl(st.Dir, st.Shape, st.Inner)
			}
		}
		return "<message" + head + ">" + body + "</message>"
	}
	pl := ""
	switch st.Kind {
	case "roster":
		inner := ""
		if st.Shape == "unknown" {
			inner += `<foo xmlns="urn:x:unknown"/>`
		}
		for _, it := range st.Items {
			if st.Shape == "grpkid" {
				inner += "<item" + attr("jid", it.JID) + attr("name", it.Name) + attr("subscription", it.Sub) + "><group><b>Friends</b></group><group/></item>"
				continue
			}
			inner += rosterItem(it)
		}
		pl = shaped(st.Shape, `<query xmlns="jabber:iq:roster"`+attr("ver", st.Ver)+">", "</query>", inner,
			`<item jid="a@@b" subscription="sometimes" ask="maybe"><group><group/></group></item>`)
	case "block", "unblock":
		inner := ""
		for _, it := range st.Items {
			inner += "<item" + attr("jid", it.JID) + ">" + report(it.Rep) + "</item>"
		}
		pl = shaped(st.Shape, "<"+st.Kind+` xmlns="urn:xmpp:blocking">`, "</"+st.Kind+">", inner, "")
	case "blocklist":
		pl = shaped(st.Shape, `<blocklist xmlns="urn:xmpp:blocking">`, `</blocklist>`, "", `<item jid="a@@b"/><item><item/></item>`)
	case "ping":
		pl = shaped(st.Shape, `<ping xmlns="urn:xmpp:ping">`, `</ping>`, "", `<ping xmlns="urn:xmpp:ping"><pong/></ping>`)
	case "version":
		pl = shaped(st.Shape, `<query xmlns="jabber:iq:version">`, `</query>`, "", `<name>peer</name><name>again</name><version><v>9</v></version><os xmlns="urn:x:junk"/>`)
	case "time":
		pl = shaped(st.Shape, `<time xmlns="urn:xmpp:time">`, `</time>`, "", `<tzo>late</tzo><utc>yesterday</utc><utc/>`)
	case "info":
		pl = shaped(st.Shape, `<query xmlns="http://jabber.org/protocol/disco#info"`+attr("node", st.Node)+">", `</query>`, "",
			`<identity category="x"/><feature/><feature var="f"><feature var="g"/></feature><x xmlns="jabber:x:data" type="bogus"><field type="nosuch"/></x>`)
	case "items":
		pl = shaped(st.Shape, `<query xmlns="http://jabber.org/protocol/disco#items"`+attr("node", st.Node)+">", `</query>`, "",
			`<item jid="a@@b"/><item/><set xmlns="http://jabber.org/protocol/rsm"><max>many</max></set>`)
	case "extra":
		pl = shaped(st.Shape, `<x xmlns="`+nsExtra+`">`, `</x>`, "", `<x xmlns="`+nsExtra+`"/>`)
	case "bob":
		open := `<data xmlns="urn:xmpp:bob"` + attr("cid", st.Node)
		switch st.Shape {
		case "badage":
			pl = open + ` max-age="soon"/>`
		case "badb64":
			pl = open + ` type="text/plain">!!no base64!!</data>`
		default:
			pl = shaped(st.Shape, open+">", `</data>`, "", `<data xmlns="urn:xmpp:bob" max-age="soon">????</data>`)
		}
	case "foreign":
		pl = `<y xmlns="urn:x:nobody"/>`
	case "empty":
		pl = ""
	}
	return "<iq" + head + ">" + pl + "</iq>"
}

// renderReply is the responder's answer to a helper's request with the given id.
func renderReply(st Stanza, id string) string {
	head := attr("id", id) + attr("from", st.To) + attr("to", ownFull)
	errEl := func(typ, cond string) string {
		return `<iq type="error"` + head + `><error type="` + typ + `"><` + cond + ` xmlns="urn:ietf:params:xml:ns:xmpp-stanzas"/></error></iq>`
	}
	switch st.Shape {
	case "err-su":
		return errEl("cancel", "service-unavailable")
	case "err-forbidden":
		return errEl("auth", "forbidden")
	case "err-inf":
		return errEl("cancel", "item-not-found")
	case "empty":
		return `<iq type="result"` + head + `/>`
	}
	pl := ""
	switch st.Kind {
	case "version":
		pl = `<query xmlns="jabber:iq:version"><name>srv</name><version>1.2</version><os>plan9</os></query>`
	case "time":
		pl = `<time xmlns="urn:xmpp:time"><tzo>-05:00</tzo><utc>2021-03-04T05:06:07Z</utc></time>`
	case "info":
		pl = `<query xmlns="http://jabber.org/protocol/disco#info"` + attr("node", st.Node) + `><identity category="server" type="im" name="srv"/><feature var="f1"/><feature var="f2"/></query>`
	}
	return `<iq type="result"` + head + `>` + pl + `</iq>`
}

// ---------------------------------------------------------------------------------- session

func nopNeg(ns string) xmpp.Negotiator {
	return func(ctx context.Context, in, out *stream.Info, s *xmpp.Session, data interface{}) (xmpp.SessionState, io.ReadWriter, interface{}, error) {
		rc := s.TokenReader()
		defer rc.Close()
		for {
			tok, err := rc.Token()
			if err != nil {
				return 0, nil, nil, err
			}
			if st, ok := tok.(xml.StartElement); ok {
				if err := in.FromStartElement(st); err != nil {
					return 0, nil, nil, err
				}
				break
			}
		}
		out.XMLNS = ns
		return xmpp.Ready, nil, nil, nil
	}
}

// extraH is an application handler that is also a source of features, identities and items.
type extraH struct{}

func (extraH) HandleIQ(iq stanza.IQ, t xmlstream.TokenReadEncoder, start *xml.StartElement) error {
	_, err := xmlstream.Copy(t, iq.Result(xmlstream.Wrap(nil, xml.StartElement{Name: xml.Name{Space: nsExtra, Local: "x"}})))
	return err
}

func (extraH) ForFeatures(node string, f func(info.Feature) error) error {
	if node == "n1" {
		return f(info.Feature{Var: "urn:x:n1"})
	}
	if node != "" {
		return nil
	}
	if err := f(info.Feature{Var: nsExtra}); err != nil {
		return err
	}
	return f(info.Feature{Var: ping.NS}) // a duplicate of what ping.Handler reports
}

func (extraH) ForIdentities(node string, f func(info.Identity) error) error {
	if node != "" {
		return nil
	}
	return f(info.Identity{Category: "client", Type: "bot", Name: "vt"})
}

func (extraH) ForItems(node string, f func(items.Item) error) error {
	if node != "" {
		return nil
	}
	return f(items.Item{JID: jid.MustParse(server), Node: "n1", Name: "sub"})
}

type staticSrc struct{}

func (staticSrc) ForFeatures(node string, f func(info.Feature) error) error {
	if node != "" {
		return nil
	}
	return f(info.Feature{Var: "urn:x:static"})
}

func (staticSrc) ForIdentities(node string, f func(info.Identity) error) error {
	if node != "" {
		return nil
	}
	return f(info.Identity{Category: "account", Type: "registered"})
}

var listJIDs = []string{"spam@example.org", "bad.example.com"}

// fixed instant the time responder reports (zone +02:00)
var fixedTime = time.Date(2020, 1, 2, 5, 4, 5, 0, time.FixedZone("", 2*3600))

type run struct {
	sc   Scenario
	conn *vt.Conn
	s    *xmpp.Session

	mu  sync.Mutex
	evs []vt.Ev

	wireOff int // bytes of the wire already scanned
	next    int // next script element
	closed  bool

	// helper call in flight
	callK    int
	callDone chan vt.Ev
	cancel   context.CancelFunc
	wrote    chan struct{}
	stuck    bool
	answered bool
	cancels  []context.CancelFunc
	callSt   Stanza
	eos      bool
}

func (r *run) log(e vt.Ev) {
	r.mu.Lock()
	r.evs = append(r.evs, e)
	r.mu.Unlock()
}

func strs(s []string) []string {
	if s == nil {
		return []string{}
	}
	return s
}

func (r *run) mux() *mux.ServeMux {
	c := r.sc.Cfg
	var opts []mux.Option
	if c.Roster != "off" {
		opts = append(opts, roster.Handle(roster.Handler{Push: func(ver string, it roster.Item) error {
			r.log(vt.Ev{"ev": "cb", "cb": "roster", "ver": ver, "jid": it.JID.String(), "name": it.Name, "sub": it.Subscription, "groups": strs(it.Group)})
			switch c.Roster {
			case "serr":
				return stanza.Error{Type: stanza.Auth, Condition: stanza.Forbidden}
			case "oerr":
				return errors.New("application failure")
			}
			return nil
		}}))
	}
	if c.Carbons {
		opts = append(opts, carbons.Handle(carbons.Handler{F: func(m stanza.Message, sent bool, inner xml.TokenReader) error {
			e := vt.Ev{"ev": "cb", "cb": "carbon", "sent": sent, "id": "", "from": "", "to": "", "typ": "", "body": "", "msgs": 0}
			depth, msgs, inBody := 0, 0, false
			for inner != nil {
				tok, err := inner.Token()
				if tok != nil {
					switch t := tok.(type) {
					case xml.StartElement:
						if depth == 0 && t.Name.Local == "message" {
							msgs++
							if msgs == 1 {
								for _, a := range t.Attr {
									switch a.Name.Local {
									case "id":
										e["id"] = a.Value
									case "from":
										e["from"] = a.Value
									case "to":
										e["to"] = a.Value
									case "type":
										e["typ"] = a.Value
									}
								}
							}
						}
						inBody = depth == 1 && msgs == 1 && t.Name.Local == "body"
						depth++
					case xml.EndElement:
						depth--
						inBody = false
					case xml.CharData:
						if inBody {
							e["body"] = e["body"].(string) + string(t)
						}
					}
				}
				if err != nil {
					break
				}
			}
			e["msgs"] = msgs
			r.log(e)
			return nil
		}}))
	}
	if c.Block != "off" {
		h := blocklist.Handler{}
		if c.Block == "all" {
			h.Block = func(it blocklist.Item) {
				r.log(vt.Ev{"ev": "cb", "cb": "block", "jid": it.JID.String(), "rep": reportSummary(it)})
			}
			h.Unblock = func(j jid.JID) { r.log(vt.Ev{"ev": "cb", "cb": "unblock", "jid": j.String(), "rep": ""}) }
			h.UnblockAll = func() { r.log(vt.Ev{"ev": "cb", "cb": "unblockall", "jid": "", "rep": ""}) }
			h.List = func(ch chan<- jid.JID) {
				for i := 0; i < c.List && i < len(listJIDs); i++ {
					ch <- jid.MustParse(listJIDs[i])
				}
			}
		}
		opts = append(opts, blocklist.Handle(h))
	}
	if c.Resp {
		th := xtime.Handler{}
		if c.TimeFn {
			th.TimeFunc = func() time.Time { return fixedTime }
		}
		opts = append(opts, ping.Handle(), version.Handle(version.Query{Name: "vt", Version: "0.9", OS: "tla"}), xtime.Handle(th), disco.Handle(),
			mux.Feature(bookmarks.Handler{}),
			bin.Handle(bin.Handler{Get: func(cid string) (*bin.Data, error) {
				if cid == knownCid {
					return &bin.Data{CID: cid, Type: "text/plain", Data: []byte("hi")}, nil
				}
				return nil, stanza.Error{Type: stanza.Cancel, Condition: stanza.ItemNotFound}
			}}))
	}
	if c.Extra {
		opts = append(opts, mux.IQ(stanza.GetIQ, xml.Name{Space: nsExtra, Local: "x"}, extraH{}), mux.Feature(staticSrc{}), mux.Ident(staticSrc{}))
	}
	return mux.New(stanza.NSClient, opts...)
}

// reportSummary is what the Block callback was told about the abuse report: reason|id@by,...|text ("" without report).
func reportSummary(it blocklist.Item) string {
	if it.Reason == "" && len(it.StanzaIDs) == 0 && it.Text == "" {
		return ""
	}
	ids := []string{}
	for _, id := range it.StanzaIDs {
		ids = append(ids, id.ID+"@"+id.By.String())
	}
	return string(it.Reason) + "|" + strings.Join(ids, ",") + "|" + it.Text
}

// ---------------------------------------------------------------------------------- wire

type node struct {
	Name xml.Name
	Attr map[string]string
	Kids []*node
	Text string
}

func (n *node) kid(local string) *node {
	for _, k := range n.Kids {
		if k.Name.Local == local {
			return k
		}
	}
	return nil
}

const fakeRoot = `<stream:stream xmlns="jabber:client" xmlns:stream="` + streamNS + `">`

// parseTop returns the complete top-level elements at the start of buf, the number of bytes they
// take, and whether the closing stream tag follows them.
func parseTop(buf []byte) (els []*node, used int, closed bool, bad string) {
	d := xml.NewDecoder(io.MultiReader(strings.NewReader(fakeRoot), strings.NewReader(string(buf))))
	var stack []*node
	rootSeen := false
	for {
		tok, err := d.Token()
		if err != nil {
			if err != io.EOF && !strings.Contains(err.Error(), "unexpected EOF") {
				bad = err.Error()
			}
			return
		}
		switch t := tok.(type) {
		case xml.StartElement:
			if !rootSeen {
				rootSeen = true
				continue
			}
			n := &node{Name: t.Name, Attr: map[string]string{}}
			for _, a := range t.Attr {
				if a.Name.Space == "xmlns" || a.Name.Local == "xmlns" {
					continue
				}
				n.Attr[a.Name.Local] = a.Value
			}
			if len(stack) > 0 {
				p := stack[len(stack)-1]
				p.Kids = append(p.Kids, n)
			}
			stack = append(stack, n)
		case xml.EndElement:
			if len(stack) == 0 {
				closed = true
				return
			}
			n := stack[len(stack)-1]
			stack = stack[:len(stack)-1]
			if len(stack) == 0 {
				els = append(els, n)
				used = int(d.InputOffset()) - len(fakeRoot)
			}
		case xml.CharData:
			if len(stack) > 0 {
				stack[len(stack)-1].Text += string(t)
			} else if strings.TrimSpace(string(t)) == "" {
				used = int(d.InputOffset()) - len(fakeRoot)
			}
		}
	}
}

// describe turns a stanza the library wrote into a trace event (kind "reply" for responses and
// anything unexpected, "req" for an IQ request of a helper).
func describe(n *node) vt.Ev {
	e := vt.Ev{"ev": "reply", "st": n.Name.Local, "typ": n.Attr["type"], "id": n.Attr["id"], "to": n.Attr["to"], "cond": "", "pl": "", "ns": "", "node": "",
		"a": []string{}, "b": []string{}}
	if n.Name.Local != "iq" {
		return e
	}
	if t := n.Attr["type"]; t == "get" || t == "set" {
		e["ev"] = "req"
	}
	var pl *node
	for _, k := range n.Kids {
		if k.Name.Local == "error" && k.Name.Space == "jabber:client" {
			if len(k.Kids) > 0 {
				e["cond"] = k.Kids[0].Name.Local
			} else {
				e["cond"] = "?"
			}
			continue
		}
		if pl == nil {
			pl = k
		}
	}
	if e["typ"] == "error" {
		pl = nil // what an error reply echoes is of no interest
	}
	if pl == nil {
		return e
	}
	e["pl"], e["ns"], e["node"] = pl.Name.Local, pl.Name.Space, pl.Attr["node"]
	a, b := []string{}, []string{}
	txt := func(l string) string {
		if k := pl.kid(l); k != nil {
			return k.Text
		}
		return ""
	}
	switch pl.Name.Space {
	case version.NS:
		a = []string{txt("name"), txt("version"), txt("os")}
	case xtime.NS:
		a = []string{txt("tzo"), txt("utc")}
	case bin.NS:
		a = []string{pl.Attr["cid"], pl.Attr["type"], pl.Text}
	case disco.NSInfo:
		for _, k := range pl.Kids {
			switch k.Name.Local {
			case "feature":
				a = append(a, k.Attr["var"])
			case "identity":
				b = append(b, k.Attr["category"]+"/"+k.Attr["type"]+"/"+k.Attr["name"])
			default:
				b = append(b, "?"+k.Name.Local)
			}
		}
	case disco.NSItems:
		for _, k := range pl.Kids {
			a = append(a, k.Attr["jid"]+"#"+k.Attr["node"]+"#"+k.Attr["name"])
		}
	case blocklist.NS, roster.NS:
		for _, k := range pl.Kids {
			a = append(a, k.Attr["jid"])
			if pl.Name.Space == roster.NS {
				b = append(b, k.Attr["subscription"])
			}
		}
		if pl.Name.Space == roster.NS {
			e["node"] = pl.Attr["ver"]
		}
	}
	e["a"], e["b"] = a, b
	return e
}

// scan logs every complete stanza the library wrote since the last scan; returns the request events.
func (r *run) scan() (reqs []vt.Ev) {
	w := r.conn.WireString()
	if r.wireOff >= len(w) {
		return nil
	}
	els, used, closed, bad := parseTop([]byte(w[r.wireOff:]))
	r.wireOff += used
	for _, n := range els {
		e := describe(n)
		if n.Name.Space == streamNS {
			e = vt.Ev{"ev": "streamerr", "cond": ""}
			if len(n.Kids) > 0 {
				e["cond"] = n.Kids[0].Name.Local
			}
		}
		if e["ev"] == "req" {
			reqs = append(reqs, e)
		}
		r.log(e)
	}
	if bad != "" {
		r.log(vt.Ev{"ev": "garbage", "msg": bad})
		r.wireOff = len(w)
	}
	if closed {
		r.closed = true
		r.wireOff = len(w)
	}
	return reqs
}

// ---------------------------------------------------------------------------------- helpers

func errClass(err error) (string, string) {
	if err == nil {
		return "none", ""
	}
	var se stanza.Error
	if errors.As(err, &se) {
		return "stanza", string(se.Condition)
	}
	if errors.Is(err, context.Canceled) || errors.Is(err, context.DeadlineExceeded) {
		return "ctx", ""
	}
	return "other", ""
}

func (r *run) helper(ctx context.Context, st Stanza) (res vt.Ev) {
	res = vt.Ev{"ev": "ret", "err": "none", "cond": "", "a": []string{}, "b": []string{}, "node": ""}
	defer func() {
		if p := recover(); p != nil {
			res["err"], res["cond"] = "panic", fmt.Sprint(p)
		}
	}()
	var to jid.JID
	if st.To != "" {
		to = jid.MustParse(st.To)
	}
	var err error
	switch st.Kind {
	case "ping":
		err = ping.Send(ctx, r.s, to)
	case "version":
		var q version.Query
		q, err = version.Get(ctx, r.s, to)
		res["a"] = []string{q.Name, q.Version, q.OS}
	case "time":
		var t time.Time
		t, err = xtime.Get(ctx, r.s, to)
		if err == nil {
			res["a"] = []string{t.Format("Z07:00"), t.UTC().Format(time.RFC3339)}
		}
	case "info":
		var inf disco.Info
		inf, err = disco.GetInfo(ctx, st.Node, to, r.s)
		a, b := []string{}, []string{}
		for _, f := range inf.Features {
			a = append(a, f.Var)
		}
		for _, i := range inf.Identity {
			b = append(b, i.Category+"/"+i.Type+"/"+i.Name)
		}
		res["a"], res["b"], res["node"] = a, b, inf.Node
	case "enable":
		err = carbons.Enable(ctx, r.s)
	case "disable":
		err = carbons.Disable(ctx, r.s)
	case "rosterset":
		it := st.Items[0]
		err = roster.Set(ctx, r.s, roster.Item{JID: jid.MustParse(it.JID), Name: it.Name, Subscription: it.Sub, Group: it.Groups})
	case "rosterdel":
		err = roster.Delete(ctx, r.s, jid.MustParse(st.Items[0].JID))
	case "blockadd", "blockremove":
		var js []jid.JID
		for _, it := range st.Items {
			js = append(js, jid.MustParse(it.JID))
		}
		if st.Kind == "blockadd" {
			err = blocklist.Add(ctx, r.s, js...)
		} else {
			err = blocklist.Remove(ctx, r.s, js...)
		}
	default:
		err = errors.New("driver: unknown helper " + st.Kind)
	}
	res["err"], res["cond"] = errClass(err)
	return res
}

// ---------------------------------------------------------------------------------- the lazy peer

// starve runs in the serve goroutine whenever the session's input is empty.
func (r *run) starve() {
	r.mu.Lock()
	stuck := r.stuck
	r.mu.Unlock()
	if stuck {
		return
	}
	reqs := r.scan()
	if r.callDone != nil {
		// a helper is in flight
		if !r.answered {
			r.answerCall(reqs)
			return
		}
		select {
		case e := <-r.callDone:
			r.scan()
			r.log(e)
		case <-time.After(stepWait):
			r.cancel()
			e := <-r.callDone
			r.scan()
			e["err"] = "stuck"
			r.log(e)
		}
		// the helper's context is cancelled only after the run: the goroutine that the library's send
		// starts to watch the context may otherwise still put a past write deadline on the connection
		// while a LATER request is written (a race outside this family's subject)
		r.callDone = nil
	}
	for r.next < len(r.sc.Script) {
		st := r.sc.Script[r.next]
		r.next++
		if st.St == "call" {
			ctx, cancel := context.WithCancel(context.Background())
			r.cancel = cancel
			r.cancels = append(r.cancels, cancel)
			r.callDone = make(chan vt.Ev, 1)
			r.answered = false
			r.callSt = st
			r.log(vt.Ev{"ev": "call", "k": r.next})
			r.wrote = make(chan struct{}, 64)
			done := r.callDone
			go func() { done <- r.helper(ctx, st) }()
			r.answerCall(nil)
			return
		}
		r.log(vt.Ev{"ev": "in", "k": r.next})
		r.conn.FeedString(render(st))
		return
	}
	if !r.eos {
		r.eos = true
		r.log(vt.Ev{"ev": "eos"})
		r.conn.FeedString("</stream:stream>")
		r.conn.CloseIn()
	}
}

// answerCall waits until the helper's request is on the wire (or the helper gave up) and answers it.
func (r *run) answerCall(reqs []vt.Ev) {
	deadline := time.After(stepWait)
	for len(reqs) == 0 {
		select {
		case e := <-r.callDone:
			// the helper returned without a request on the wire
			r.scan()
			r.log(e)
			r.callDone = nil
			r.starve()
			return
		case <-r.wrote:
			reqs = r.scan()
		case <-deadline:
			r.cancel()
			e := <-r.callDone
			e["err"] = "stuck"
			r.log(e)
			r.callDone = nil
			r.starve()
			return
		}
	}
	r.answered = true
	id, _ := reqs[0]["id"].(string)
	r.log(vt.Ev{"ev": "answer", "k": r.next})
	r.conn.FeedString(renderReply(r.callSt, id))
}

func (r *run) exec() []vt.Ev {
	r.conn = vt.NewConn()
	r.conn.FeedString(fmt.Sprintf(`<stream:stream from="%s" to="%s" id="s1" version="1.0" xmlns="jabber:client" xmlns:stream="%s">`, server, ownFull, streamNS))
	s, err := xmpp.NewSession(context.Background(), jid.MustParse(server), jid.MustParse(ownFull), r.conn, 0, nopNeg(stanza.NSClient))
	if err != nil {
		panic(err)
	}
	r.s = s
	r.wireOff = len(r.conn.WireString())
	m := r.mux()
	r.conn.React = func(p []byte) {
		if w := r.wrote; w != nil {
			select {
			case w <- struct{}{}:
			default:
			}
		}
	}
	r.conn.Starve = r.starve
	done := make(chan vt.Ev, 1)
	go func() {
		e := vt.Ev{"ev": "serve_ret", "err": "none", "msg": ""}
		defer func() {
			if p := recover(); p != nil {
				e["err"], e["msg"] = "panic", fmt.Sprint(p)
			}
			done <- e
		}()
		err := s.Serve(m)
		if err != nil {
			e["err"], e["msg"] = "other", err.Error()
			var se stream.Error
			if errors.As(err, &se) {
				e["err"] = "stream"
			}
		}
	}()
	select {
	case e := <-done:
		if r.callDone != nil { // Serve ended while a helper was in flight
			r.cancel()
			select {
			case ce := <-r.callDone:
				r.log(ce)
			case <-time.After(stepWait):
				r.log(vt.Ev{"ev": "stuck", "who": "helper"})
			}
		}
		r.conn.Starve = nil
		r.scan()
		r.log(e)
	case <-time.After(3 * stepWait):
		r.mu.Lock()
		r.stuck = true
		r.mu.Unlock()
		r.log(vt.Ev{"ev": "stuck", "who": "serve"})
		r.conn.CloseIn()
		r.conn.Close()
	}
	for _, c := range r.cancels {
		c()
	}
	r.log(vt.Ev{"ev": "end"})
	r.mu.Lock()
	defer r.mu.Unlock()
	return r.evs
}

func main() {
	if len(os.Args) < 4 || os.Args[1] != "run" {
		fmt.Fprintln(os.Stderr, "usage: push run <scenarios.ndjson> <trace.ndjson>")
		os.Exit(2)
	}
	shard, shards := 0, 1
	if v := os.Getenv("PUSH_SHARD"); v != "" {
		p := strings.Split(v, "/")
		shard, _ = strconv.Atoi(p[0])
		shards, _ = strconv.Atoi(p[1])
	}
	f, err := os.Open(os.Args[2])
	if err != nil {
		panic(err)
	}
	tw, err := vt.NewTraceWriter(os.Args[3])
	if err != nil {
		panic(err)
	}
	sc := bufio.NewScanner(f)
	sc.Buffer(make([]byte, 1<<20), 1<<24)
	var sum vt.Summary
	n := -1
	for sc.Scan() {
		if len(strings.TrimSpace(sc.Text())) == 0 {
			continue
		}
		n++
		if n%shards != shard {
			continue
		}
		var s Scenario
		if err := json.Unmarshal(sc.Bytes(), &s); err != nil {
			panic(err)
		}
		s.N = n
		fmt.Printf("SCENARIO %d\n", n)
		r := &run{sc: s}
		evs := r.exec()
		var raw map[string]interface{}
		json.Unmarshal(sc.Bytes(), &raw)
		tw.Write(vt.Ev{"cfg": raw["cfg"], "script": raw["script"]}, evs)
		tw.Meta(map[string]interface{}{"scenario": raw, "n": n})
		sum.Evaluations++
		if len(sum.Samples) < 2 && len(evs) > 4 {
			sum.Samples = append(sum.Samples, map[string]interface{}{"scenario": raw, "events": evs})
		}
	}
	sum.Traces, sum.Events = tw.Counts()
	if err := tw.Close(); err != nil {
		panic(err)
	}
	sum.Print()
}
