// Command neg drives the real stream negotiation (xmpp.NewSession / ReceiveSession with
// the default Negotiator) through scenarios of instrumented stream features against a
// lazy scripted peer, and records one trace per scenario for Trace validation against
// tla/Negotiation.tla.
//
//	neg run <pool.json> <scenarios.ndjson|-> <trace.ndjson>
//
// With "-" scenarios are generated from VERIF_SEED (count from NEG_N).
package main

import (
	"bufio"
	"context"
	"encoding/json"
	"encoding/xml"
	"errors"
	"fmt"
	"io"
	"math/rand"
	"os"
	"sort"
	"strconv"
	"strings"
	"time"

	"mellium.im/xmlstream"
	"mellium.im/xmpp"
	"mellium.im/xmpp/jid"
	"mellium.im/xmpp/websocket"

	"verifharness/vt"
)

// Kind mirrors the records of tla/NegPool.tla (read from the JSON TLC emits).
type Kind struct {
	ID   string   `json:"id"`
	Nec  []string `json:"nec"`
	Pro  []string `json:"pro"`
	Mask []string `json:"mask"`
	Neg  bool     `json:"neg"`
	Rst  bool     `json:"rst"`
	Lreq bool     `json:"lreq"`
}

type Hdr struct {
	OK   bool   `json:"ok"`
	From string `json:"from"` // "A" | "B" | "none"
	To   string `json:"to"`
}

type Entry struct {
	F   string `json:"f"`
	Req bool   `json:"req"`
	// Alias: the advertised element carries the feature's NAMESPACE but another local name - it is not
	// the feature (a feature is named by namespace and local name), so for the specification it is an
	// unknown entry
	Alias bool `json:"alias,omitempty"`
}

type Sel struct {
	F  string `json:"f"`
	IQ bool   `json:"iq"`
}

type Scenario struct {
	Role      string    `json:"role"`
	S2S       bool      `json:"s2s"`
	Cfg       []string  `json:"cfg"`
	Bits      []string  `json:"bits"`
	Hdrs      []Hdr     `json:"hdrs"`
	Lists     [][]Entry `json:"lists"`
	Sels      []Sel     `json:"sels"`
	Fail      []string  `json:"fail"`
	FailRead  int       `json:"failread"`
	FailWrite int       `json:"failwrite"`
	CancelAt  int       `json:"cancelat"` // cancel the context at the k-th transport operation (0 = never)
	Tee       int       `json:"tee"`      // 0 off, 1 in, 2 out, 3 both
	Silent    bool      `json:"silent"`   // after the cancellation the peer sends nothing more (and does not close)
	WS        bool      `json:"ws"`       // WebSocket framing (RFC 7395): <open/> instead of <stream:stream>
	Prior     bool      `json:"prior"`    // the Negotiator value has negotiated another session before (see priorMode)
	// A stream feature has three callbacks and each is a negotiation step that may report an error: List (the
	// receiver advertises), Parse (the initiator reads the advertisement), Negotiate.  Fail names the features whose
	// Negotiate fails, FailList / FailParse those whose List / Parse does; FailEarly: the failing callback reports
	// its error before it has read or written anything (otherwise after its I/O).
	FailList  []string `json:"faillist"`
	FailParse []string `json:"failparse"`
	FailEarly bool     `json:"failearly"`
}

var pool = map[string]Kind{}

// stallAfter is how long a cancelled call may stay blocked before it counts as a stall.
// The library's reaction to a cancellation is immediate (a goroutine wakes and sets a
// deadline in the past), so this is three orders of magnitude of slack.
var stallAfter = 10 * time.Second

// once a few stalls have been seen (each is reported anyway) the remaining scenarios use a short
// watchdog, so that a tree that really stalls does not make the run take forever
var stallsSeen int

const nsTLS = "urn:ietf:params:xml:ns:xmpp-tls"

func nameOf(id string) xml.Name {
	if id == "tls" {
		return xml.Name{Space: nsTLS, Local: "starttls"}
	}
	return xml.Name{Space: "urn:vt:" + id, Local: id}
}

func idOfSpace(space string) string {
	if space == nsTLS {
		return "tls"
	}
	return strings.TrimPrefix(space, "urn:vt:")
}

func stateOf(bits []string) xmpp.SessionState {
	var s xmpp.SessionState
	for _, b := range bits {
		switch b {
		case "Secure":
			s |= xmpp.Secure
		case "Authn":
			s |= xmpp.Authn
		case "Ready":
			s |= xmpp.Ready
		}
	}
	return s
}

func bitsOf(s xmpp.SessionState) []string {
	b := []string{}
	if s&xmpp.Secure != 0 {
		b = append(b, "Secure")
	}
	if s&xmpp.Authn != 0 {
		b = append(b, "Authn")
	}
	if s&xmpp.Ready != 0 {
		b = append(b, "Ready")
	}
	return b
}

func has(l []string, x string) bool {
	for _, y := range l {
		if x == y {
			return true
		}
	}
	return false
}

// run state shared by the features and the peer
type run struct {
	sc   Scenario
	lg   *vt.Log
	conn *vt.Conn
	scan vt.Scanner

	// peer
	lastOut   string // last thing the session wrote: "", "hdr", "features", "neg", "negrst"
	hdrIdx    int
	listIdx   int
	selIdx    int
	gotHdr    bool // receiver: initial header sent
	ops       int
	cancel    context.CancelFunc
	cancelled bool
	negCalls  int
}

func (r *run) mkFeature(k Kind) xmpp.StreamFeature {
	name := nameOf(k.ID)
	f := xmpp.StreamFeature{
		Name:       name,
		Necessary:  stateOf(k.Nec),
		Prohibited: stateOf(k.Pro),
		List: func(ctx context.Context, e xmlstream.TokenWriter, start xml.StartElement) (bool, error) {
			step := func(ok bool) { r.lg.Add(vt.Ev{"ev": "list", "f": k.ID, "ok": ok}) }
			fail := has(r.sc.FailList, k.ID)
			if fail && r.sc.FailEarly {
				step(false)
				return k.Lreq, errors.New("vt: scripted List failure of " + k.ID)
			}
			if k.Lreq {
				start.Attr = append(start.Attr, xml.Attr{Name: xml.Name{Local: "req"}, Value: "1"})
			}
			if err := e.EncodeToken(start); err != nil {
				step(false)
				return k.Lreq, err
			}
			if err := e.EncodeToken(start.End()); err != nil {
				step(false)
				return k.Lreq, err
			}
			if fail {
				step(false)
				return k.Lreq, errors.New("vt: scripted List failure of " + k.ID)
			}
			step(true)
			return k.Lreq, nil
		},
		Parse: func(ctx context.Context, d *xml.Decoder, start *xml.StartElement) (bool, interface{}, error) {
			step := func(ok bool) { r.lg.Add(vt.Ev{"ev": "parse", "f": k.ID, "ok": ok}) }
			fail := has(r.sc.FailParse, k.ID)
			if fail && r.sc.FailEarly {
				step(false)
				return false, nil, errors.New("vt: scripted Parse failure of " + k.ID)
			}
			req := false
			for _, a := range start.Attr {
				if a.Name.Local == "req" && a.Value == "1" {
					req = true
				}
			}
			if err := d.Skip(); err != nil {
				step(false)
				return req, nil, err
			}
			if fail {
				step(false)
				return req, nil, errors.New("vt: scripted Parse failure of " + k.ID)
			}
			step(true)
			return req, nil, nil
		},
	}
	if k.Neg {
		f.Negotiate = func(ctx context.Context, s *xmpp.Session, data interface{}) (xmpp.SessionState, io.ReadWriter, error) {
			r.lg.Add(vt.Ev{"ev": "negotiate", "f": k.ID, "bits": bitsOf(s.State())})
			if r.negCalls++; r.negCalls > 64 {
				// a runaway negotiation loop: stop it (the trace is rejected anyway, at the
				// second negotiation of the same feature)
				r.lg.Add(vt.Ev{"ev": "negret", "f": k.ID, "ok": false})
				return 0, nil, errors.New("vt: runaway negotiation loop")
			}
			ret := func(ok bool) { r.lg.Add(vt.Ev{"ev": "negret", "f": k.ID, "ok": ok}) }
			if has(r.sc.Fail, k.ID) && r.sc.FailEarly {
				// the step fails before it has read the selection / written anything
				ret(false)
				return 0, nil, errors.New("vt: scripted early negotiation failure of " + k.ID)
			}
			if s.State()&xmpp.Received != 0 {
				// consume the selection element the session pushed back for us
				rd := s.TokenReader()
				depth := 0
				for {
					tok, err := rd.Token()
					if err != nil {
						rd.Close()
						ret(false)
						return 0, nil, err
					}
					switch tok.(type) {
					case xml.StartElement:
						depth++
					case xml.EndElement:
						depth--
					}
					if depth == 0 {
						break
					}
				}
				rd.Close()
			}
			rst := "0"
			if k.Rst {
				rst = "1"
			}
			if _, err := fmt.Fprintf(s.Conn(), `<neg xmlns='urn:vt' f='%s' rst='%s'/>`, k.ID, rst); err != nil {
				ret(false)
				return 0, nil, err
			}
			if has(r.sc.Fail, k.ID) {
				ret(false)
				return 0, nil, errors.New("vt: scripted negotiation failure of " + k.ID)
			}
			ret(true)
			if k.Rst {
				return stateOf(k.Mask), s.Conn(), nil
			}
			return stateOf(k.Mask), nil, nil
		}
	}
	return f
}

func addrOf(role, which, v string) string {
	// initiator: established location example.net (peer's from), origin me@example.net (peer's to)
	// receiver: client says from=me@example.net to=example.net
	a := map[string]string{"from": "example.net", "to": "me@example.net"}
	b := map[string]string{"from": "other.example", "to": "you@example.net"}
	if role == "recv" {
		a = map[string]string{"from": "me@example.net", "to": "example.net"}
		b = map[string]string{"from": "you@example.net", "to": "other.example"}
	}
	switch v {
	case "A":
		return a[which]
	case "B":
		return b[which]
	}
	return ""
}

func (r *run) hdrBytes(h Hdr) string {
	ns := "jabber:client"
	if r.sc.S2S {
		ns = "jabber:server"
	}
	if r.sc.WS {
		s := `<open xmlns='urn:ietf:params:xml:ns:xmpp-framing'`
		if h.OK {
			s += ` version='1.0'`
		} else {
			s += ` version='0.9'`
		}
		if r.sc.Role == "init" {
			s += ` id='s1'`
		}
		if f := addrOf(r.sc.Role, "from", h.From); f != "" {
			s += ` from='` + f + `'`
		}
		if t := addrOf(r.sc.Role, "to", h.To); t != "" {
			s += ` to='` + t + `'`
		}
		return s + `/>`
	}
	s := `<?xml version="1.0"?><stream:stream xmlns='` + ns + `' xmlns:stream='http://etherx.jabber.org/streams'`
	if h.OK {
		s += ` version='1.0'`
	} else {
		s += ` version='0.9'`
	}
	if r.sc.Role == "init" {
		s += ` id='s1'`
	}
	if f := addrOf(r.sc.Role, "from", h.From); f != "" {
		s += ` from='` + f + `'`
	}
	if t := addrOf(r.sc.Role, "to", h.To); t != "" {
		s += ` to='` + t + `'`
	}
	return s + `>`
}

func (r *run) peerItem(item vt.Ev, bytes string) {
	r.lg.Add(vt.Ev{"ev": "peer", "item": item})
	if bytes != "" {
		r.conn.FeedString(bytes)
	}
}

func (r *run) sendHdr() bool {
	if r.hdrIdx >= len(r.sc.Hdrs) {
		return false
	}
	h := r.sc.Hdrs[r.hdrIdx]
	r.hdrIdx++
	r.peerItem(vt.Ev{"k": "hdr", "ok": h.OK, "from": h.From, "to": h.To}, r.hdrBytes(h))
	return true
}

func (r *run) sendList() bool {
	if r.listIdx >= len(r.sc.Lists) {
		return false
	}
	l := r.sc.Lists[r.listIdx]
	r.listIdx++
	s := "<stream:features>"
	if r.sc.WS {
		s = "<features xmlns='http://etherx.jabber.org/streams'>"
	}
	items := []interface{}{}
	for _, e := range l {
		n := nameOf(e.F)
		req := ""
		if e.Req {
			req = " req='1'"
		}
		if e.Alias {
			s += fmt.Sprintf("<x%s xmlns='%s'%s/>", n.Local, n.Space, req)
			items = append(items, vt.Ev{"f": "unk", "req": e.Req})
			continue
		}
		s += fmt.Sprintf("<%s xmlns='%s'%s/>", n.Local, n.Space, req)
		items = append(items, vt.Ev{"f": e.F, "req": e.Req})
	}
	if r.sc.WS {
		s += "</features>"
	} else {
		s += "</stream:features>"
	}
	r.peerItem(vt.Ev{"k": "features", "list": items}, s)
	return true
}

func (r *run) sendSel() bool {
	if r.selIdx >= len(r.sc.Sels) {
		return false
	}
	x := r.sc.Sels[r.selIdx]
	r.selIdx++
	n := nameOf(x.F)
	s := fmt.Sprintf("<%s xmlns='%s'/>", n.Local, n.Space)
	if x.IQ {
		ns := "jabber:client"
		if r.sc.S2S {
			ns = "jabber:server"
		}
		s = fmt.Sprintf("<iq xmlns='%s' type='set' id='sel%d'>%s</iq>", ns, r.selIdx, s)
	}
	r.peerItem(vt.Ev{"k": "select", "f": x.F, "iq": x.IQ}, s)
	return true
}

// starve is called when the session reads and nothing is buffered: the lazy peer
// produces the next item the protocol position calls for, or ends its stream.
func (r *run) starve() {
	if r.sc.Silent && r.cancelled {
		return // the peer has gone silent: the read blocks until a deadline fires
	}
	ok := false
	if r.sc.Role == "init" {
		switch r.lastOut {
		case "hdr":
			ok = r.sendHdr()
			if ok {
				r.lastOut = "hdrsent"
			}
		case "hdrsent", "neg":
			ok = r.sendList()
			if ok {
				r.lastOut = "listsent"
			}
		}
	} else {
		switch {
		case !r.gotHdr || r.lastOut == "negrst":
			ok = r.sendHdr()
			r.gotHdr = true
			r.lastOut = "hdrsent"
		case r.lastOut == "features" || r.lastOut == "neg" || r.lastOut == "hdr":
			// ("hdr": the session has answered the header and waits for input although it never finished an
			// advertisement - the peer goes by what it has seen of the list so far and selects)
			ok = r.sendSel()
			if ok {
				r.lastOut = "selsent"
			}
		}
	}
	if !ok {
		r.lg.Add(vt.Ev{"ev": "peer", "item": vt.Ev{"k": "eof"}})
		r.conn.CloseIn()
	}
}

type featCollector struct {
	in   bool
	list []interface{}
}

// priorMode: the Negotiator value of the scenario has negotiated ANOTHER session before (with a configuration
// function that extends the previous configuration, as documented, by what the session at hand needs): nothing of
// that session - its features, its tee - may show in the session under test.
var priorMode bool

func runScenario(sc Scenario) []vt.Ev {
	r := &run{sc: sc, lg: &vt.Log{StopAfter: "return"}, conn: vt.NewConn()}
	var fc featCollector
	r.conn.React = func(p []byte) {
		for _, t := range r.scan.Feed(p) {
			switch {
			case (t.Kind == "start" || t.Kind == "empty") && (t.Name == "stream:stream" || (t.Name == "open" && r.sc.WS && !fc.in)):
				r.scan.SetDepth(0)
				r.lg.Add(vt.Ev{"ev": "hdr_out"})
				r.lastOut = "hdr"
			case (t.Name == "stream:features" || (r.sc.WS && t.Name == "features")) && t.Kind == "start":
				fc = featCollector{in: true, list: []interface{}{}}
			case (t.Name == "stream:features" || (r.sc.WS && t.Name == "features")) && (t.Kind == "end" || t.Kind == "empty"):
				if t.Kind == "empty" {
					fc.list = []interface{}{}
				}
				r.lg.Add(vt.Ev{"ev": "features_out", "list": fc.list})
				fc.in = false
				r.lastOut = "features"
			case fc.in && (t.Kind == "start" || t.Kind == "empty"):
				fc.list = append(fc.list, vt.Ev{"f": idOfSpace(t.Attr["xmlns"]), "req": t.Attr["req"] == "1"})
			case t.Name == "neg" && (t.Kind == "start" || t.Kind == "empty"):
				if t.Attr["rst"] == "1" {
					r.lastOut = "negrst"
				} else {
					r.lastOut = "neg"
				}
			}
		}
	}
	r.conn.Starve = r.starve
	r.conn.FailRead = sc.FailRead
	r.conn.FailWrite = sc.FailWrite
	r.conn.OnEvent = func(kind, arg string, n int) {
		if kind == "fault" {
			r.lg.Add(vt.Ev{"ev": "fault", "kind": arg, "n": n})
		}
	}
	ctx, cancel := context.WithCancel(context.Background())
	defer cancel()
	if sc.CancelAt > 0 {
		r.conn.Gate = func(point string) {
			r.ops++
			if r.ops == sc.CancelAt && !r.cancelled {
				r.cancelled = true
				r.lg.Add(vt.Ev{"ev": "cancel", "at": point, "n": r.ops})
				cancel()
			}
		}
	}
	var feats []xmpp.StreamFeature
	for _, id := range sc.Cfg {
		feats = append(feats, r.mkFeature(pool[id]))
	}
	var teeIn, teeOut io.Writer
	if sc.Tee&1 != 0 {
		teeIn = io.Discard
	}
	if sc.Tee&2 != 0 {
		teeOut = io.Discard
	}
	cfgf := func(*xmpp.Session, *xmpp.StreamConfig) xmpp.StreamConfig {
		return xmpp.StreamConfig{Features: feats, TeeIn: teeIn, TeeOut: teeOut}
	}
	inPrior := false
	if priorMode {
		decoy := xmpp.StreamFeature{
			Name: nameOf("decoy"),
			List: func(ctx context.Context, e xmlstream.TokenWriter, start xml.StartElement) (bool, error) {
				if err := e.EncodeToken(start); err != nil {
					return false, err
				}
				return false, e.EncodeToken(start.End())
			},
			Parse: func(ctx context.Context, d *xml.Decoder, start *xml.StartElement) (bool, interface{}, error) {
				return false, nil, d.Skip()
			},
			Negotiate: func(ctx context.Context, s *xmpp.Session, data interface{}) (xmpp.SessionState, io.ReadWriter, error) {
				return 0, nil, nil
			},
		}
		// "The previous config is passed in at each step so that it can be re-used or modified": keep what the
		// previous configuration holds and add what this session needs
		cfgf = func(s *xmpp.Session, prev *xmpp.StreamConfig) xmpp.StreamConfig {
			cfg := xmpp.StreamConfig{TeeIn: teeIn, TeeOut: teeOut}
			if prev != nil {
				cfg.Features = append(cfg.Features, prev.Features...)
			}
			if s == nil {
				return cfg
			}
			want := feats
			if inPrior {
				want = []xmpp.StreamFeature{decoy}
			}
			for _, f := range want {
				have := false
				for _, g := range cfg.Features {
					have = have || g.Name == f.Name
				}
				if !have {
					cfg.Features = append(cfg.Features, f)
				}
			}
			return cfg
		}
	}
	neg := xmpp.NewNegotiator(cfgf)
	if sc.WS {
		neg = websocket.Negotiator(cfgf)
	}
	if priorMode {
		// the earlier session of this Negotiator value: the peer sends its header and goes away
		pc := vt.NewConn()
		pc.FeedString(r.hdrBytes(Hdr{OK: true, From: "none", To: "none"}))
		pc.CloseIn()
		inPrior = true
		func() {
			defer func() { _ = recover() }()
			pst := stateOf(sc.Bits)
			if sc.S2S {
				pst |= xmpp.S2S
			}
			if sc.Role == "init" {
				_, _ = xmpp.NewSession(context.Background(), jid.MustParse("example.net"), jid.MustParse("me@example.net"), pc, pst, neg)
			} else {
				_, _ = xmpp.ReceiveSession(context.Background(), pc, pst, neg)
			}
		}()
		inPrior = false
	}
	state := stateOf(sc.Bits)
	if sc.S2S {
		state |= xmpp.S2S
	}
	var s *xmpp.Session
	var err error
	panicked := interface{}(nil)
	call := func() {
		defer func() { panicked = recover() }()
		if sc.Role == "init" {
			s, err = xmpp.NewSession(ctx, jid.MustParse("example.net"), jid.MustParse("me@example.net"), r.conn, state, neg)
		} else {
			s, err = xmpp.ReceiveSession(ctx, r.conn, state, neg)
		}
	}
	if sc.Silent && sc.CancelAt > 0 {
		// The only scenarios that can block: run under a watchdog. A call still blocked
		// in a transport read long after its context was cancelled has outlived it.
		done := make(chan struct{})
		go func() { defer close(done); call() }()
		select {
		case <-done:
		case <-time.After(stallAfter):
			r.lg.Add(vt.Ev{"ev": "stall"})
			if stallsSeen++; stallsSeen >= 3 {
				stallAfter = 1500 * time.Millisecond
			}
			r.conn.CloseIn()
			<-done
		}
	} else {
		call()
	}
	ev := vt.Ev{"ev": "return", "ok": err == nil && panicked == nil, "bits": []string{}}
	if s != nil {
		ev["bits"] = bitsOf(s.State())
	}
	if err != nil {
		ev["err"] = err.Error()
	}
	if panicked != nil {
		ev["panic"] = fmt.Sprint(panicked)
	}
	r.lg.Add(ev)
	r.conn.Close()
	return r.lg.Events()
}

// ---------------------------------------------------------------- generation

func genScenario(rnd *rand.Rand, ids []string, faults bool) Scenario {
	var sc Scenario
	sc.Role = []string{"init", "recv"}[rnd.Intn(2)]
	sc.S2S = rnd.Intn(5) == 0
	perm := rnd.Perm(len(ids))
	n := 1 + rnd.Intn(3)
	if rnd.Intn(10) == 0 {
		n = 4
	}
	for _, j := range perm[:n] {
		sc.Cfg = append(sc.Cfg, ids[j])
	}
	// STARTTLS has a rule of its own on the initiating side (the forced attempt on the first list of a session):
	// a third of the initiator scenarios that would not hold it get it in place of their first kind
	if sc.Role == "init" && !has(sc.Cfg, "tls") && has(ids, "tls") && rnd.Intn(3) == 0 {
		sc.Cfg[0] = "tls"
	}
	sort.Strings(sc.Cfg)
	sc.Bits = [][]string{{}, {"Secure"}, {"Secure", "Authn"}}[rnd.Intn(3)]
	addr := func() string {
		switch x := rnd.Intn(12); {
		case x == 0:
			return "B"
		case x == 1:
			return "none"
		}
		return "A"
	}
	for i := 0; i < 5; i++ {
		sc.Hdrs = append(sc.Hdrs, Hdr{OK: rnd.Intn(25) != 0, From: addr(), To: addr()})
	}
	uni := append(append([]string{}, sc.Cfg...), "unk")
	mkEntry := func(f string) Entry {
		// every feature is advertised as mandatory or as voluntary, also one whose step reports Ready
		e := Entry{F: f, Req: rnd.Intn(2) == 0}
		if f != "unk" && rnd.Intn(8) == 0 {
			e.Alias = true // a look-alike: same namespace, other local name
		}
		return e
	}
	for i := 0; i < 4; i++ {
		var l []Entry
		switch rnd.Intn(4) {
		case 0: // ordered subset
			for _, f := range uni {
				if rnd.Intn(2) == 0 {
					l = append(l, mkEntry(f))
				}
			}
		default: // arbitrary sequence, repetitions allowed
			for j, m := 0, rnd.Intn(4); j < m; j++ {
				l = append(l, mkEntry(uni[rnd.Intn(len(uni))]))
			}
		}
		sc.Lists = append(sc.Lists, l)
	}
	for j, m := 0, rnd.Intn(6); j < m; j++ {
		sc.Sels = append(sc.Sels, Sel{F: uni[rnd.Intn(len(uni))], IQ: rnd.Intn(4) == 0})
	}
	for _, f := range sc.Cfg {
		if rnd.Intn(8) == 0 {
			sc.Fail = append(sc.Fail, f)
		}
	}
	if sc.Fail == nil {
		sc.Fail = []string{}
	}
	if faults {
		switch rnd.Intn(8) {
		case 0:
			sc.FailRead = 1 + rnd.Intn(6)
		case 1:
			sc.FailWrite = 1 + rnd.Intn(8)
		case 2:
			sc.CancelAt = 1 + rnd.Intn(10)
			sc.Silent = rnd.Intn(3) == 0
		}
	}
	if rnd.Intn(4) == 0 {
		sc.Tee = 1 + rnd.Intn(3)
	}
	sc.WS = rnd.Intn(4) == 0
	// failing List / Parse steps, and failing callbacks that fail before their I/O (drawn last: the other
	// dimensions of a given seed stay what they were)
	if rnd.Intn(4) == 0 {
		for _, f := range sc.Cfg {
			switch rnd.Intn(4) {
			case 0:
				sc.FailList = append(sc.FailList, f)
			case 1:
				sc.FailParse = append(sc.FailParse, f)
			}
		}
	}
	sc.FailEarly = rnd.Intn(2) == 0
	if sc.FailList == nil {
		sc.FailList = []string{}
	}
	if sc.FailParse == nil {
		sc.FailParse = []string{}
	}
	return sc
}

func main() {
	if len(os.Args) < 5 || os.Args[1] != "run" {
		fmt.Fprintln(os.Stderr, "usage: neg run <pool.json> <scenarios.ndjson|-> <trace.ndjson>")
		os.Exit(2)
	}
	pb, err := os.ReadFile(os.Args[2])
	if err != nil {
		panic(err)
	}
	var kinds []Kind
	if err := json.Unmarshal(pb, &kinds); err != nil {
		panic(err)
	}
	var ids []string
	for _, k := range kinds {
		pool[k.ID] = k
		ids = append(ids, k.ID)
	}
	sort.Strings(ids)
	var scs []Scenario
	if os.Args[3] == "-" {
		seed, _ := strconv.ParseInt(os.Getenv("VERIF_SEED"), 10, 64)
		n, _ := strconv.Atoi(os.Getenv("NEG_N"))
		if n == 0 {
			n = 2000
		}
		rnd := rand.New(rand.NewSource(seed))
		for i := 0; i < n; i++ {
			scs = append(scs, genScenario(rnd, ids, os.Getenv("NEG_FAULTS") != "0"))
		}
	} else {
		f, err := os.Open(os.Args[3])
		if err != nil {
			panic(err)
		}
		sc := bufio.NewScanner(f)
		sc.Buffer(make([]byte, 1<<20), 1<<24)
		for sc.Scan() {
			var s Scenario
			if err := json.Unmarshal(sc.Bytes(), &s); err != nil {
				panic(err)
			}
			if s.Fail == nil {
				s.Fail = []string{}
			}
			scs = append(scs, s)
		}
		f.Close()
	}
	tw, err := vt.NewTraceWriter(os.Args[4])
	if err != nil {
		panic(err)
	}
	reps, _ := strconv.Atoi(os.Getenv("NEG_REPS"))
	if reps == 0 {
		reps = 1
	}
	distinct := map[string]bool{}
	var samples []interface{}
	runs := 0
	for si, sc := range scs {
		for rep := 0; rep < reps; rep++ {
			// every other repetition (a single repetition: every third scenario): the Negotiator value has served
			// another session before
			priorMode = sc.Prior || ((rep%2 == 1 || (reps == 1 && si%3 == 2)) && os.Getenv("NEG_NOPRIOR") == "")
			sc := sc
			sc.Prior = priorMode
			evs := runScenario(sc)
			priorMode = false
			runs++
			key, _ := json.Marshal(evs)
			if distinct[string(key)] {
				continue
			}
			distinct[string(key)] = true
			bits := sc.Bits
			if bits == nil {
				bits = []string{}
			}
			estab := vt.Ev{"from": "none", "to": "none"}
			if sc.Role == "init" {
				estab = vt.Ev{"from": "A", "to": "A"}
			}
			t := tw.Write(vt.Ev{"role": sc.Role, "s2s": sc.S2S, "cfg": sc.Cfg, "bits": bits, "estab": estab}, evs)
			tw.Meta(sc)
			if len(samples) < 3 {
				samples = append(samples, vt.Ev{"t": t, "scenario": sc, "events": evs})
			}
		}
	}
	if err := tw.Close(); err != nil {
		panic(err)
	}
	tr, ev := tw.Counts()
	vt.Summary{Traces: tr, Events: ev, Evaluations: runs, Distinct: len(distinct), Samples: samples}.Print()
}
