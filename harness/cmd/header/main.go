// Command header runs the vectors of tla/Header.tla (property C12 parts a and b) against
// the real stream negotiation.
//
//	header emit   <emit_vectors.ndjson>     the header a negotiating session writes
//	header accept <accept_vectors.ndjson>   headers presented to a negotiating session
//	header accept-seq <accept_seq.ndjson>   sequences of headers presented to ONE session across stream restarts
//
// Every vector carries the expectation computed by TLC from the specification; the
// driver compares and prints the mismatches in its summary.
package main

import (
	"bufio"
	"context"
	"encoding/json"
	"encoding/xml"
	"errors"
	"fmt"
	"io"
	"os"
	"regexp"
	"strings"
	"time"

	"mellium.im/xmlstream"
	"mellium.im/xmpp"
	"mellium.im/xmpp/jid"
	"mellium.im/xmpp/stream"
	"mellium.im/xmpp/websocket"

	"verifharness/vt"
)

const (
	nsStream  = "http://etherx.jabber.org/streams"
	nsFraming = "urn:ietf:params:xml:ns:xmpp-framing"
	nsErr     = "urn:ietf:params:xml:ns:xmpp-streams"
)

// characters of the specification's alphabet
var chars = []string{"", "a", "'", "&", "<", ">", "\""}

func str(sym []int) string {
	var b strings.Builder
	for _, c := range sym {
		b.WriteString(chars[c])
	}
	return b.String()
}

func esc(s string) string {
	var b strings.Builder
	xml.EscapeText(&b, []byte(s))
	return b.String()
}

// Addr is an address of the specification.
type Addr struct {
	L string `json:"l"`
	D string `json:"d"`
	R []int  `json:"r"`
}

func (a Addr) JID() (jid.JID, error) {
	if a.D == "" {
		return jid.JID{}, nil
	}
	return jid.New(a.L, a.D, str(a.R))
}

func negotiator(framing, lang string) xmpp.Negotiator {
	return negotiatorOf(framing, func(*xmpp.Session, *xmpp.StreamConfig) xmpp.StreamConfig {
		return xmpp.StreamConfig{Lang: lang}
	})
}

func negotiatorOf(framing string, cfg func(*xmpp.Session, *xmpp.StreamConfig) xmpp.StreamConfig) xmpp.Negotiator {
	if framing == "ws" {
		return websocket.Negotiator(cfg)
	}
	return xmpp.NewNegotiator(cfg)
}

// session runs one constructor against a scripted connection and never lets a panic out.
func session(init bool, location, origin jid.JID, conn *vt.Conn, state xmpp.SessionState, neg xmpp.Negotiator) (s *xmpp.Session, err error, panicked interface{}) {
	defer func() {
		if p := recover(); p != nil {
			panicked = p
		}
	}()
	if init {
		s, err = xmpp.NewSession(context.Background(), location, origin, conn, state, neg)
	} else {
		s, err = xmpp.ReceiveSession(context.Background(), conn, state, neg)
	}
	return
}

func errText(err error) (s string) {
	defer func() {
		if recover() != nil {
			s = "<error value panics in Error()>"
		}
	}()
	if err == nil {
		return ""
	}
	return err.Error()
}

// firstTag returns the bytes up to the end of the first element tag.
func firstTag(wire string) (string, bool) {
	var sc vt.Scanner
	n := 0
	for i := 0; i < len(wire); i++ {
		for _, t := range sc.Feed([]byte{wire[i]}) {
			if t.Kind == "start" || t.Kind == "empty" {
				return wire[:i+1], true
			}
		}
		n = i
	}
	_ = n
	return wire, false
}

func wroteFeatures(wire string) bool {
	var sc vt.Scanner
	for _, t := range sc.Feed([]byte(wire)) {
		if (t.Kind == "start" || t.Kind == "empty") && (t.Name == "stream:features" || t.Name == "features") {
			return true
		}
	}
	return false
}

// ---------------------------------------------------------------- part (a)

type EmitIn struct {
	Role    string `json:"role"`
	S2S     bool   `json:"s2s"`
	Framing string `json:"framing"`
	To      Addr   `json:"to"`
	From    Addr   `json:"from"`
	Lang    []int  `json:"lang"`
}

type EmitExp struct {
	To      Addr   `json:"to"`
	From    Addr   `json:"from"`
	Lang    []int  `json:"lang"`
	Version string `json:"version"`
	XMLNS   string `json:"xmlns"`
	Name    string `json:"name"`
	ID      string `json:"id"`
}

type EmitVec struct {
	In  EmitIn  `json:"in"`
	Exp EmitExp `json:"exp"`
}

func openTag(framing, ns, to, from, id string) string {
	var s string
	if framing == "ws" {
		s = "<open xmlns='" + nsFraming + "' version='1.0'"
	} else {
		s = "<?xml version='1.0'?><stream:stream xmlns='" + ns + "' xmlns:stream='" + nsStream + "' version='1.0'"
	}
	if id != "" {
		s += " id='" + esc(id) + "'"
	}
	if to != "" {
		s += " to='" + esc(to) + "'"
	}
	if from != "" {
		s += " from='" + esc(from) + "'"
	}
	if framing == "ws" {
		return s + "/>"
	}
	return s + ">"
}

const emptyFeatures = "<stream:features xmlns:stream='" + nsStream + "'/>"

// runEmit returns the list of differences between what the specification expects and what
// was observed (empty = conforms), and the header bytes.
func runEmit(v EmitVec) (diffs []string, hdr string) {
	return runEmitWith(v, negotiator(v.In.Framing, str(v.In.Lang)), false)
}

// runEmitWith: the emitting session is negotiated by neg. complete: an initiating session is
// answered (header, empty features) so that its negotiation runs to the end.
func runEmitWith(v EmitVec, neg xmpp.Negotiator, complete bool) (diffs []string, hdr string) {
	in := v.In
	to, err1 := in.To.JID()
	from, err2 := in.From.JID()
	if err1 != nil || err2 != nil {
		return []string{"SKIP: the address of the vector is not a valid JID"}, ""
	}
	state := xmpp.Secure
	ns := "jabber:client"
	if in.S2S {
		state |= xmpp.S2S
		ns = "jabber:server"
	}
	diff := func(f string, a ...interface{}) { diffs = append(diffs, fmt.Sprintf(f, a...)) }

	// 1. the session under test writes its header
	c1 := vt.NewConn()
	reads := 0
	var chunks []string
	c1.React = func(p []byte) { chunks = append(chunks, string(p)) }
	c1.Starve = func() {
		reads++
		if in.Role == "recv" && reads == 1 {
			// a correct initiator announces itself: the response swaps the addresses
			c1.FeedString(openTag(in.Framing, ns, from.String(), to.String(), ""))
			return
		}
		if in.Role == "init" && reads == 1 && complete {
			c1.FeedString(openTag(in.Framing, ns, from.String(), to.String(), "vt-1") + emptyFeatures)
			return
		}
		c1.CloseIn()
	}
	var s1 *xmpp.Session
	var p interface{}
	if in.Role == "init" {
		s1, _, p = session(true, to, from, c1, state, neg)
	} else {
		s1, _, p = session(false, jid.JID{}, jid.JID{}, c1, state, neg)
	}
	if p != nil {
		diff("the emitting session panicked: %v", p)
		return diffs, ""
	}
	// internal/stream.Send flushes the header in one write; if an implementation does not,
	// cut the wire after the first tag instead
	var ok bool
	if len(chunks) > 0 && strings.HasSuffix(chunks[0], ">") && strings.Contains(chunks[0], "<stream:stream") || len(chunks) > 0 && strings.HasPrefix(chunks[0], "<open ") && strings.HasSuffix(chunks[0], "/>") {
		hdr, ok = chunks[0], true
	} else {
		hdr, ok = firstTag(c1.WireString())
	}
	if !ok {
		diff("no stream header was written (wire %q)", c1.WireString())
		return diffs, hdr
	}
	if s1 != nil {
		local, remote := from, to // initiator: LocalAddr is the origin, RemoteAddr the location
		if !s1.LocalAddr().Equal(local) {
			diff("emitting session LocalAddr() = %q, want %q", s1.LocalAddr(), local)
		}
		if !s1.RemoteAddr().Equal(remote) {
			diff("emitting session RemoteAddr() = %q, want %q", s1.RemoteAddr(), remote)
		}
		// (Out().To/From of a receiving session stay empty in the pinned code although the
		// header carries both; the property does not speak about Out(), so only the
		// initiator's preset values are compared)
		if o := s1.Out(); in.Role == "init" && (!o.To.Equal(to) || !o.From.Equal(from)) {
			diff("emitting session Out() to/from = %q/%q, want %q/%q", o.To, o.From, to, from)
		}
	}

	// 2. an XML parser must accept it and recover the fields
	d := xml.NewDecoder(strings.NewReader(hdr))
	var start xml.StartElement
	for {
		tok, err := d.Token()
		if err != nil {
			diff("the header is not well-formed XML: %v", err)
			return diffs, hdr
		}
		if se, ok := tok.(xml.StartElement); ok {
			start = se
			break
		}
	}
	got := map[string]string{}
	for _, a := range start.Attr {
		key := a.Name.Local
		if a.Name.Space != "" {
			key = a.Name.Space + " " + a.Name.Local
		}
		if _, dup := got[key]; dup {
			diff("attribute %s occurs twice", key)
		}
		got[key] = a.Value
	}
	exp := v.Exp
	wantTo, _ := exp.To.JID()
	wantFrom, _ := exp.From.JID()
	wantSpace := nsStream
	if exp.Name == "open" {
		wantSpace = nsFraming
	}
	if start.Name.Local != exp.Name || start.Name.Space != wantSpace {
		diff("element %v, want {%s %s}", start.Name, wantSpace, exp.Name)
	}
	cmp := func(what, g, w string) {
		if g != w {
			diff("parsed %s = %q, want %q", what, g, w)
		}
	}
	cmp("to", got["to"], wantTo.String())
	cmp("from", got["from"], wantFrom.String())
	cmp("version", got["version"], exp.Version)
	cmp("xml:lang", got["http://www.w3.org/XML/1998/namespace lang"], str(exp.Lang))
	cmp("xmlns", got["xmlns"], exp.XMLNS)
	if (exp.ID == "set") != (got["id"] != "") {
		diff("parsed id = %q, want %s", got["id"], exp.ID)
	}
	if s1 != nil && s1.Out().ID != got["id"] {
		diff("Out().ID = %q but the header says %q", s1.Out().ID, got["id"])
	}

	// 3. a second real session of the opposite role must accept it and recover the fields
	c2 := vt.NewConn()
	r2 := 0
	var s2 *xmpp.Session
	var err error
	if in.Role == "init" {
		c2.Starve = func() {
			r2++
			if r2 == 1 {
				c2.FeedString(hdr)
				return
			}
			c2.CloseIn()
		}
		// (a receiving session with the S2S bit refuses every header that names its sender,
		// see Norm in Header.tla; the c2s receiver accepts both content namespaces)
		s2, _, p = session(false, jid.JID{}, jid.JID{}, c2, xmpp.Secure, negotiator(in.Framing, ""))
		if p == nil && !wroteFeatures(c2.WireString()) {
			diff("a receiving library session does not accept the header")
		}
	} else {
		c2.Starve = func() {
			r2++
			if r2 == 1 {
				c2.FeedString(hdr + emptyFeatures)
				return
			}
			c2.CloseIn()
		}
		// the initiator that the emitting session answered: location = header's from
		s2, err, p = session(true, from, to, c2, state, negotiator(in.Framing, ""))
		if p == nil && err != nil {
			diff("an initiating library session does not accept the header: %s", errText(err))
		}
	}
	if p != nil {
		diff("the parsing session panicked: %v", p)
		return diffs, hdr
	}
	if s2 != nil && len(diffs) == 0 {
		i := s2.In()
		if !i.To.Equal(wantTo) || !i.From.Equal(wantFrom) {
			diff("peer session In() to/from = %q/%q, want %q/%q", i.To, i.From, wantTo, wantFrom)
		}
		if !s2.LocalAddr().Equal(wantTo) || !s2.RemoteAddr().Equal(wantFrom) {
			diff("peer session LocalAddr()/RemoteAddr() = %q/%q, want %q/%q", s2.LocalAddr(), s2.RemoteAddr(), wantTo, wantFrom)
		}
		cmp("peer In().Lang", i.Lang, str(exp.Lang))
		cmp("peer In().Version", i.Version.String(), exp.Version)
		cmp("peer In().XMLNS", i.XMLNS, exp.XMLNS)
		cmp("peer In().ID", i.ID, got["id"])
		if i.Name.Local != exp.Name || i.Name.Space != wantSpace {
			diff("peer In().Name = %v, want {%s %s}", i.Name, wantSpace, exp.Name)
		}
	}
	return diffs, hdr
}

// ---------------------------------------------------------------- part (a), one Negotiator for several sessions

type SharedEmitVec struct {
	In struct {
		Mode string   `json:"mode"`
		Sess []EmitIn `json:"sess"`
	} `json:"in"`
	Exp []EmitExp `json:"exp"`
}

var idRe = regexp.MustCompile(` id=['"]([^'"]*)['"]`)

// runEmitShared negotiates the sessions of the scenario, one after the other, through ONE
// Negotiator value. Mode "const": the configuration function always returns the same
// language; "persession": it returns the scenario's language when the Negotiator is built
// (no session yet) and a language of its own for every session it is asked about.
func runEmitShared(v SharedEmitVec) (diffs []string, hdrs []string, ids []string) {
	if len(v.In.Sess) == 0 {
		return []string{"SKIP: empty scenario"}, nil, nil
	}
	first := v.In.Sess[0]
	lang := str(first.Lang)
	cur := 0
	neg := negotiatorOf(first.Framing, func(s *xmpp.Session, _ *xmpp.StreamConfig) xmpp.StreamConfig {
		if s == nil || v.In.Mode != "persession" {
			return xmpp.StreamConfig{Lang: lang}
		}
		return xmpp.StreamConfig{Lang: fmt.Sprintf("x-session%d", cur+1)}
	})
	for i, in := range v.In.Sess {
		cur = i
		d, hdr := runEmitWith(EmitVec{In: in, Exp: v.Exp[i]}, neg, true)
		if len(d) == 1 && strings.HasPrefix(d[0], "SKIP") {
			return d, nil, nil
		}
		for _, t := range d {
			diffs = append(diffs, fmt.Sprintf("session %d of %d negotiated through one Negotiator (%s configuration): %s", i+1, len(v.In.Sess), v.In.Mode, t))
		}
		hdrs = append(hdrs, hdr)
		if m := idRe.FindStringSubmatch(hdr); m != nil {
			ids = append(ids, m[1])
		}
	}
	return diffs, hdrs, ids
}

// ---------------------------------------------------------------- part (b)

// VerIn is the version attribute of the specification: the parts between the separators,
// every part a string over 0..9 = digits, 10 '+', 11 '-', 12 ' ', 13 a letter.
type VerIn struct {
	Present bool    `json:"present"`
	Parts   [][]int `json:"parts"`
}

const verSyms = "0123456789+- a"

func (v VerIn) String() string {
	var parts []string
	for _, p := range v.Parts {
		var b strings.Builder
		for _, c := range p {
			b.WriteByte(verSyms[c])
		}
		parts = append(parts, b.String())
	}
	return strings.Join(parts, ".")
}

type HdrIn struct {
	Role    string `json:"role"`
	Framing string `json:"framing"`
	Name    string `json:"name"`
	XMLNS   string `json:"xmlns"`
	Version VerIn  `json:"version"`
	ID      string `json:"id"`
	To      string `json:"to"`
	From    string `json:"from"`
	Lang    string `json:"lang"`
	Pre     string `json:"pre"`
	Cond    string `json:"cond"`
	// look-alikes of the attributes (same local name, not the attribute): "none",
	// "foreign_before", "foreign_after" (x:id='..' in another namespace), "nsdecl" (xmlns:id='..')
	Look map[string]string `json:"look"`
}

type HdrVec struct {
	In  HdrIn  `json:"in"`
	Exp string `json:"exp"`
	// what an accepting session must have recovered, per attribute: "real" = the value of the
	// real attribute, "notlook" = anything but the value of its look-alike
	Info map[string]string `json:"info"`
}

const nsLook = "urn:vt:look"

// the values look-alikes carry (never those of the real attributes)
var lookValue = map[string]string{"id": "x9", "version": "1.0", "from": "admin@example.net", "to": "other.example.org", "lang": "de"}

// realValue is the value of the real attribute where the header carries it. Valid addresses
// are the ones the session expects (initiator: the peer is example.net and addresses
// me@example.net), so that only the header checks decide.
func realValue(h HdrIn, a string) string { return valueK(h, a, 1) }

// the languages of the first, second, third header of a session
var langs = []string{"en", "fr", "es"}

// valueK is the value of the real attribute in the k-th header of a session (k = 1, 2, ..):
// every header has an id and a language of its own; "valid" addresses are the ones the
// session expects, "other" ones are valid addresses of somebody else.
func valueK(h HdrIn, a string, k int) string {
	other := h.To == "other" && a == "to" || h.From == "other" && a == "from"
	switch a {
	case "id":
		return fmt.Sprintf("s%d", k)
	case "lang":
		return langs[(k-1)%len(langs)]
	case "version":
		return h.Version.String()
	case "xmlns":
		switch {
		case h.Name == "open":
			return nsFraming
		case h.XMLNS == "client":
			return "jabber:client"
		case h.XMLNS == "server":
			return "jabber:server"
		case h.XMLNS == "other":
			return "urn:vt:other"
		}
		return ""
	case "to":
		if h.Role == "recv" {
			if other {
				return "other.example"
			}
			return "example.net"
		}
		if other {
			return "you@example.net"
		}
		return "me@example.net"
	case "from":
		if h.Role == "recv" {
			if other {
				return "you@example.net"
			}
			return "me@example.net"
		}
		if other {
			return "other.example"
		}
		return "example.net"
	}
	return ""
}

func hdrBytes(h HdrIn) string { return hdrBytesK(h, 1) }

// hdrBytesK renders the k-th header of a session.
func hdrBytesK(h HdrIn, k int) string {
	var s string
	switch h.Pre {
	case "decl":
		s = "<?xml version='1.0'?>"
	case "space":
		s = " \n\t"
	}
	if h.Name == "error" {
		return s + "<stream:error xmlns:stream='" + nsStream + "'><" + h.Cond + " xmlns='" + nsErr + "'/></stream:error>"
	}
	switch h.Name {
	case "stream":
		s += "<stream:stream xmlns:stream='" + nsStream + "'"
	case "open":
		s += "<open xmlns='" + nsFraming + "'"
	case "othername":
		s += "<stream:streams xmlns:stream='" + nsStream + "'"
	case "otherns":
		s += "<stream:stream xmlns:stream='urn:vt:wrong'"
	}
	if h.Name != "open" {
		switch h.XMLNS {
		case "client":
			s += " xmlns='jabber:client'"
		case "server":
			s += " xmlns='jabber:server'"
		case "other":
			s += " xmlns='urn:vt:other'"
		}
	}
	for _, l := range h.Look {
		if strings.HasPrefix(l, "foreign") {
			s += " xmlns:x='" + nsLook + "'"
			break
		}
	}
	// one attribute of the header's vocabulary with its look-alike around it
	attr := func(a, real string) {
		name := a
		if a == "lang" {
			name = "xml:lang"
		}
		switch h.Look[a] {
		case "foreign_before":
			s += " x:" + a + "='" + lookValue[a] + "'"
		case "nsdecl":
			s += " xmlns:" + a + "='" + lookValue[a] + "'"
		}
		if real != "\x00" {
			s += " " + name + "='" + real + "'"
		}
		if h.Look[a] == "foreign_after" {
			s += " x:" + a + "='" + lookValue[a] + "'"
		}
	}
	const none = "\x00"
	if h.Version.Present {
		attr("version", h.Version.String())
	} else {
		attr("version", none)
	}
	switch h.ID {
	case "empty":
		attr("id", "")
	case "set":
		attr("id", valueK(h, "id", k))
	default:
		attr("id", none)
	}
	switch h.To {
	case "valid", "other":
		attr("to", valueK(h, "to", k))
	case "invalid":
		attr("to", "@example.net")
	default:
		attr("to", none)
	}
	switch h.From {
	case "valid", "other":
		attr("from", valueK(h, "from", k))
	case "invalid":
		attr("from", "@example.net")
	default:
		attr("from", none)
	}
	if h.Lang == "set" {
		attr("lang", valueK(h, "lang", k))
	} else {
		attr("lang", none)
	}
	if h.Name == "open" {
		return s + "/>"
	}
	return s + ">"
}

// runAccept returns the observed verdict: "accept", "reject", "streamerror:<cond>", and - for
// an accepted header - the differences between what the session recovered and what the
// specification says it recovers.
func runAccept(v HdrVec) (verdict string, detail string, infoDiffs []string) {
	h := v.In
	c := vt.NewConn()
	reads := 0
	bytes := hdrBytes(h)
	c.Starve = func() {
		reads++
		if reads == 1 {
			if h.Role == "init" {
				c.FeedString(bytes + emptyFeatures)
			} else {
				c.FeedString(bytes)
			}
			return
		}
		c.CloseIn()
	}
	state := xmpp.Secure
	if h.XMLNS == "server" {
		state |= xmpp.S2S
	}
	var err error
	var p interface{}
	var s *xmpp.Session
	if h.Role == "init" {
		s, err, p = session(true, jid.MustParse("example.net"), jid.MustParse("me@example.net"), c, state, negotiator(h.Framing, ""))
	} else {
		s, err, p = session(false, jid.JID{}, jid.JID{}, c, state, negotiator(h.Framing, ""))
	}
	if p != nil {
		return "panic", fmt.Sprint(p), nil
	}
	var se stream.Error
	if err != nil && errors.As(err, &se) && h.Name == "error" {
		return "streamerror:" + se.Err, errText(err), nil
	}
	verdict = "reject"
	if h.Role == "init" && err == nil || h.Role == "recv" && wroteFeatures(c.WireString()) {
		verdict = "accept"
	}
	if verdict == "accept" && s != nil && v.Info != nil {
		in := s.In()
		got := map[string]string{"id": in.ID, "version": in.Version.String(), "from": in.From.String(), "to": in.To.String(), "lang": in.Lang}
		reply, _ := firstTag(c.WireString())
		for _, a := range []string{"id", "version", "from", "to", "lang"} {
			switch v.Info[a] {
			case "real":
				want := realValue(h, a)
				if a == "version" {
					want = "1.0" // (an accepted header declares the integers 1 and 0, however they are spelled)
				}
				if got[a] != want {
					infoDiffs = append(infoDiffs, fmt.Sprintf("In() %s = %q, the header says %q", a, got[a], realValue(h, a)))
				}
			case "notlook":
				if h.Look[a] == "" || h.Look[a] == "none" {
					continue
				}
				lv := lookValue[a]
				if got[a] == lv {
					infoDiffs = append(infoDiffs, fmt.Sprintf("In() %s = %q: the value of the look-alike %s, the header has no %s", a, got[a], lookText(a, h.Look[a]), a))
				}
				if a == "from" || a == "to" {
					if s.RemoteAddr().String() == lv || s.LocalAddr().String() == lv {
						infoDiffs = append(infoDiffs, fmt.Sprintf("RemoteAddr()/LocalAddr() = %q/%q: the value of the look-alike %s", s.RemoteAddr(), s.LocalAddr(), lookText(a, h.Look[a])))
					}
					if h.Role == "recv" && strings.Contains(reply, "'"+lv+"'") {
						infoDiffs = append(infoDiffs, fmt.Sprintf("the answering header %s carries the value of the look-alike %s", reply, lookText(a, h.Look[a])))
					}
				}
			}
		}
	}
	return verdict, errText(err), infoDiffs
}

func lookText(a, l string) string {
	if l == "nsdecl" {
		return "xmlns:" + a + "='" + lookValue[a] + "'"
	}
	return "x:" + a + "='" + lookValue[a] + "'"
}

func acceptOK(v HdrVec, verdict string) bool {
	switch v.Exp {
	case "reject":
		return verdict == "reject"
	case "streamerror":
		return verdict == "streamerror:"+v.In.Cond
	case "error":
		return verdict == "reject" || verdict == "streamerror:"+v.In.Cond
	case "any":
		return verdict == "accept" || verdict == "reject"
	}
	return false
}

// ---------------------------------------------------------------- part (b'), sequences of headers across restarts

// SeqVec: the headers the peer sends, one per stream of ONE session; between two of them the
// session negotiates a feature whose Negotiate returns the connection as the new
// io.ReadWriter (a stream restart, as after STARTTLS or SASL).
type SeqVec struct {
	In struct {
		Hs []HdrIn `json:"hs"`
	} `json:"in"`
	// expectation per header, given that the headers before it were accepted
	Exp []string `json:"exp"`
	// what a session that accepted the LAST header reports, per attribute: "real", "notlook",
	// "own" (nothing of an earlier header, nothing of a look-alike)
	Info map[string]string `json:"info"`
}

const (
	nsRst = "urn:vt:rst"
	nsFin = "urn:vt:fin"
)

const rstFeatures = "<stream:features xmlns:stream='" + nsStream + "'><rst xmlns='" + nsRst + "'/></stream:features>"

// scriptedFeature is an instrumented stream feature: listed and parsed as an empty element,
// negotiated by one element written to the connection; restart: required, and Negotiate
// returns the connection (the stream restarts).
func scriptedFeature(space, local string, restart bool, calls *int) xmpp.StreamFeature {
	return xmpp.StreamFeature{
		Name: xml.Name{Space: space, Local: local},
		List: func(ctx context.Context, e xmlstream.TokenWriter, start xml.StartElement) (bool, error) {
			if err := e.EncodeToken(start); err != nil {
				return restart, err
			}
			return restart, e.EncodeToken(start.End())
		},
		Parse: func(ctx context.Context, d *xml.Decoder, start *xml.StartElement) (bool, interface{}, error) {
			return restart, nil, d.Skip()
		},
		Negotiate: func(ctx context.Context, s *xmpp.Session, data interface{}) (xmpp.SessionState, io.ReadWriter, error) {
			if s.State()&xmpp.Received != 0 {
				// consume the selection element the session pushed back for us
				rd := s.TokenReader()
				depth := 0
				for {
					tok, err := rd.Token()
					if err != nil {
						rd.Close()
						return 0, nil, err
					}
					switch tok.(type) {
					case xml.StartElement:
						depth++
					case xml.EndElement:
						depth--
					}
					if depth == 0 {
						break
					}
				}
				rd.Close()
			}
			if _, err := fmt.Fprintf(s.Conn(), "<proceed xmlns='%s'/>", space); err != nil {
				return 0, nil, err
			}
			*calls++
			if restart {
				return 0, s.Conn(), nil
			}
			return 0, nil, nil
		},
	}
}

func countFeatures(wire string) int {
	var sc vt.Scanner
	n := 0
	for _, t := range sc.Feed([]byte(wire)) {
		if (t.Kind == "start" || t.Kind == "empty") && (t.Name == "stream:features" || t.Name == "features") {
			n++
		}
	}
	return n
}

func seqBytes(v SeqVec) []string {
	var b []string
	for j, h := range v.In.Hs {
		b = append(b, hdrBytesK(h, j+1))
	}
	return b
}

// runAcceptSeq negotiates one session whose peer sends the headers of the vector, one per
// stream. It returns the verdict on the LAST header ("accept", "reject", "streamerror:<cond>",
// "panic"; "prefix" when an earlier header was not accepted, so that the last one was never
// presented) and, for an accepted one, the differences between what the session reports
// and what the specification says it reports.
func runAcceptSeq(v SeqVec) (verdict string, detail string, infoDiffs []string) {
	hs := v.In.Hs
	n := len(hs)
	if n == 0 {
		return "prefix", "empty sequence", nil
	}
	role, framing := hs[0].Role, hs[0].Framing
	last := hs[n-1]
	hb := seqBytes(v)
	var chunks []string
	for j := range hs {
		switch {
		case role == "init" && j < n-1:
			chunks = append(chunks, hb[j]+rstFeatures)
		case role == "init":
			chunks = append(chunks, hb[j]+emptyFeatures)
		case j < n-1:
			chunks = append(chunks, hb[j], "<rst xmlns='"+nsRst+"'/>")
		default:
			chunks = append(chunks, hb[j], "<fin xmlns='"+nsFin+"'/>")
		}
	}
	c := vt.NewConn()
	reads := 0
	c.Starve = func() {
		if reads < len(chunks) {
			c.FeedString(chunks[reads])
			reads++
			return
		}
		c.CloseIn()
	}
	restarts, fins := 0, 0
	rst := scriptedFeature(nsRst, "rst", true, &restarts)
	fin := scriptedFeature(nsFin, "fin", false, &fins)
	neg := negotiatorOf(framing, func(*xmpp.Session, *xmpp.StreamConfig) xmpp.StreamConfig {
		if role == "init" || restarts < n-1 {
			return xmpp.StreamConfig{Features: []xmpp.StreamFeature{rst}}
		}
		return xmpp.StreamConfig{Features: []xmpp.StreamFeature{fin}}
	})
	state := xmpp.Secure
	if hs[0].XMLNS == "server" {
		state |= xmpp.S2S
	}
	var err error
	var p interface{}
	var s *xmpp.Session
	if role == "init" {
		s, err, p = session(true, jid.MustParse("example.net"), jid.MustParse("me@example.net"), c, state, neg)
	} else {
		s, err, p = session(false, jid.JID{}, jid.JID{}, c, state, neg)
	}
	if p != nil {
		return "panic", fmt.Sprint(p), nil
	}
	if restarts < n-1 {
		return "prefix", fmt.Sprintf("header %d of %d was not accepted: %s", restarts+1, n, errText(err)), nil
	}
	if restarts > n-1 {
		return "reject", fmt.Sprintf("the stream was restarted %d times, the script has %d restarts", restarts, n-1), nil
	}
	var se stream.Error
	if err != nil && errors.As(err, &se) && last.Name == "error" {
		return "streamerror:" + se.Err, errText(err), nil
	}
	wire := c.WireString()
	verdict = "reject"
	if role == "init" && err == nil || role == "recv" && countFeatures(wire) >= n {
		verdict = "accept"
	}
	if verdict != "accept" || s == nil || v.Info == nil {
		return verdict, errText(err), nil
	}
	in := s.In()
	got := map[string]string{"id": in.ID, "version": in.Version.String(), "from": in.From.String(), "to": in.To.String(), "lang": in.Lang, "xmlns": in.XMLNS}
	for _, a := range []string{"id", "version", "xmlns", "from", "to", "lang"} {
		name := a
		if a == "lang" {
			name = "xml:lang"
		}
		switch v.Info[a] {
		case "real":
			want := valueK(last, a, n)
			if a == "version" {
				want = "1.0" // (an accepted header declares the integers 1 and 0, however they are spelled)
			}
			if got[a] != want {
				infoDiffs = append(infoDiffs, fmt.Sprintf("after header %d In() %s = %q, that header says %q", n, a, got[a], valueK(last, a, n)))
			}
		case "own":
			// nothing an earlier header said
			for j := 0; j < n-1; j++ {
				if l := last.Look[a]; l != "" && l != "none" && got[a] == lookValue[a] {
					break // (reported below as the look-alike's value)
				}
				if old := valueK(hs[j], a, j+1); carries(hs[j], a) && got[a] == old {
					infoDiffs = append(infoDiffs, fmt.Sprintf("after header %d, which has no %s, In() %s = %q: the value of header %d, sent before the restart", n, name, a, got[a], j+1))
					break
				}
			}
			fallthrough
		case "notlook":
			if last.Look[a] == "" || last.Look[a] == "none" {
				continue
			}
			lv := lookValue[a]
			if got[a] == lv {
				infoDiffs = append(infoDiffs, fmt.Sprintf("after header %d In() %s = %q: the value of the look-alike %s, the header has no %s", n, a, got[a], lookText(a, last.Look[a]), name))
			}
			if a == "from" || a == "to" {
				if s.RemoteAddr().String() == lv || s.LocalAddr().String() == lv {
					infoDiffs = append(infoDiffs, fmt.Sprintf("RemoteAddr()/LocalAddr() = %q/%q: the value of the look-alike %s", s.RemoteAddr(), s.LocalAddr(), lookText(a, last.Look[a])))
				}
				if role == "recv" && strings.Contains(wire, "'"+lv+"'") {
					infoDiffs = append(infoDiffs, fmt.Sprintf("an answering header carries the value of the look-alike %s", lookText(a, last.Look[a])))
				}
			}
		}
	}
	return verdict, errText(err), infoDiffs
}

// carries: the header has the attribute with a value a session can report.
func carries(h HdrIn, a string) bool {
	switch a {
	case "id":
		return h.ID == "set"
	case "version":
		return h.Version.Present
	case "lang":
		return h.Lang == "set"
	case "xmlns":
		return h.Name == "open" || h.XMLNS != "absent"
	case "to":
		return h.To == "valid" || h.To == "other"
	case "from":
		return h.From == "valid" || h.From == "other"
	}
	return false
}

// seqOK: the verdict on the last header lies within the expectation.
func seqOK(v SeqVec, verdict string) bool {
	last := v.In.Hs[len(v.In.Hs)-1]
	switch v.Exp[len(v.Exp)-1] {
	case "reject":
		return verdict == "reject"
	case "streamerror":
		return verdict == "streamerror:"+last.Cond
	case "error":
		return verdict == "reject" || verdict == "streamerror:"+last.Cond
	case "any":
		return verdict == "accept" || verdict == "reject"
	}
	return false
}

// ---------------------------------------------------------------- main

func lines(path string, f func([]byte)) {
	fh, err := os.Open(path)
	if err != nil {
		panic(err)
	}
	defer fh.Close()
	sc := bufio.NewScanner(fh)
	sc.Buffer(make([]byte, 1<<20), 1<<24)
	for sc.Scan() {
		if len(strings.TrimSpace(sc.Text())) > 0 {
			f(sc.Bytes())
		}
	}
}

func main() {
	if len(os.Args) < 3 {
		fmt.Fprintln(os.Stderr, "usage: header emit|emit-shared|accept|accept-seq <vectors.ndjson>")
		os.Exit(2)
	}
	go func() {
		time.Sleep(10 * time.Minute)
		fmt.Println("STALL: header driver still running after 10 minutes")
		os.Exit(3)
	}()
	sum := vt.Summary{Extra: map[string]interface{}{}}
	distinct := map[string]bool{}
	switch os.Args[1] {
	case "emit":
		skipped, special := 0, 0
		lines(os.Args[2], func(b []byte) {
			var v EmitVec
			if err := json.Unmarshal(b, &v); err != nil {
				panic(err)
			}
			diffs, hdr := runEmit(v)
			if len(diffs) == 1 && strings.HasPrefix(diffs[0], "SKIP") {
				skipped++
				return
			}
			sum.Evaluations++
			distinct[hdr] = true
			if strings.ContainsAny(str(v.In.To.R)+str(v.In.From.R)+str(v.In.Lang), "'&<>\"") {
				special++
			}
			if len(diffs) > 0 {
				// deterministic? run once more before reporting
				d2, _ := runEmit(v)
				sum.Mismatches = append(sum.Mismatches, vt.Ev{"vector": v, "header": hdr, "diffs": diffs, "confirmed": len(d2) > 0})
			} else if len(sum.Samples) < 2 && special%97 == 1 {
				sum.Samples = append(sum.Samples, vt.Ev{"vector": v.In, "header": hdr})
			}
		})
		sum.Extra["skipped_invalid_jid"] = skipped
		sum.Extra["with_special_characters"] = special
	case "emit-shared":
		sessions, sameID := 0, 0
		lines(os.Args[2], func(b []byte) {
			var v SharedEmitVec
			if err := json.Unmarshal(b, &v); err != nil {
				panic(err)
			}
			diffs, hdrs, ids := runEmitShared(v)
			if len(diffs) == 1 && strings.HasPrefix(diffs[0], "SKIP") {
				return
			}
			sum.Evaluations++
			sessions += len(hdrs)
			distinct[strings.Join(hdrs, "|")] = true
			// (observation only: the property does not ask for distinct stream ids)
			seen := map[string]bool{}
			for _, id := range ids {
				if seen[id] {
					sameID++
				}
				seen[id] = true
			}
			if len(diffs) > 0 {
				d2, _, _ := runEmitShared(v)
				sum.Mismatches = append(sum.Mismatches, vt.Ev{"vector": v, "headers": hdrs, "diffs": diffs, "confirmed": len(d2) > 0})
			} else if len(sum.Samples) < 1 && sum.Evaluations%53 == 7 {
				sum.Samples = append(sum.Samples, vt.Ev{"vector": v.In, "headers": hdrs})
			}
		})
		sum.Extra["sessions"] = sessions
		sum.Extra["stream_ids_repeated_within_a_scenario"] = sameID
	case "accept":
		counts := map[string]int{}
		infoChecked := 0
		lines(os.Args[2], func(b []byte) {
			var v HdrVec
			if err := json.Unmarshal(b, &v); err != nil {
				panic(err)
			}
			verdict, detail, infoDiffs := runAccept(v)
			sum.Evaluations++
			distinct[hdrBytes(v.In)+v.In.Role+v.In.Framing] = true
			counts[v.Exp+"->"+strings.SplitN(verdict, ":", 2)[0]]++
			if verdict == "accept" {
				infoChecked++
			}
			if !acceptOK(v, verdict) || len(infoDiffs) > 0 {
				v2, _, i2 := runAccept(v)
				sum.Mismatches = append(sum.Mismatches, vt.Ev{"vector": v, "bytes": hdrBytes(v.In), "observed": verdict, "detail": detail,
					"info": append([]string{}, infoDiffs...), "confirmed": v2 == verdict && len(i2) == len(infoDiffs)})
			} else if len(sum.Samples) < 2 && verdict == "accept" && sum.Evaluations%211 == 0 {
				sum.Samples = append(sum.Samples, vt.Ev{"vector": v, "bytes": hdrBytes(v.In), "observed": verdict})
			}
		})
		sum.Extra["verdicts"] = counts
		sum.Extra["accepted_headers_whose_recovered_values_were_compared"] = infoChecked
	case "accept-seq":
		counts := map[string]int{}
		byLen := map[string]int{}
		infoChecked, prefix := 0, 0
		lines(os.Args[2], func(b []byte) {
			var v SeqVec
			if err := json.Unmarshal(b, &v); err != nil {
				panic(err)
			}
			if len(v.In.Hs) == 0 || len(v.Exp) != len(v.In.Hs) {
				panic("malformed sequence vector")
			}
			verdict, detail, infoDiffs := runAcceptSeq(v)
			sum.Evaluations++
			hb := seqBytes(v)
			distinct[strings.Join(hb, "|")+v.In.Hs[0].Role+v.In.Hs[0].Framing] = true
			byLen[fmt.Sprintf("%d headers", len(hb))]++
			counts[v.Exp[len(v.Exp)-1]+"->"+strings.SplitN(verdict, ":", 2)[0]]++
			if verdict == "prefix" {
				// (an earlier header of the sequence was refused: the property allows that; nothing to judge)
				prefix++
				if len(sum.Samples) < 3 {
					sum.Samples = append(sum.Samples, vt.Ev{"vector": v, "headers": hb, "observed": verdict, "detail": detail})
				}
				return
			}
			if verdict == "accept" {
				infoChecked++
			}
			if !seqOK(v, verdict) || len(infoDiffs) > 0 {
				v2, _, i2 := runAcceptSeq(v)
				sum.Mismatches = append(sum.Mismatches, vt.Ev{"vector": v, "headers": hb, "bytes": strings.Join(hb, " ...restart... "), "observed": verdict, "detail": detail,
					"info": append([]string{}, infoDiffs...), "confirmed": v2 == verdict && len(i2) == len(infoDiffs)})
			} else if len(sum.Samples) < 2 && verdict == "accept" && sum.Evaluations%211 == 0 {
				sum.Samples = append(sum.Samples, vt.Ev{"vector": v, "headers": hb, "observed": verdict})
			}
		})
		sum.Extra["verdicts"] = counts
		sum.Extra["sequences_by_length"] = byLen
		sum.Extra["last_header_never_presented_because_an_earlier_one_was_refused"] = prefix
		sum.Extra["accepted_last_headers_whose_recovered_values_were_compared"] = infoChecked
	default:
		os.Exit(2)
	}
	sum.Distinct = len(distinct)
	sum.Traces = sum.Evaluations
	sum.Print()
}
