package main

import (
	"bytes"
	"encoding/xml"
	"reflect"
	"sort"
	"strconv"
	"strings"

	"mellium.im/xmpp/stanza"
)

// "Unmarshalling arbitrary XML into any of these types returns a value or an error" - into ANY
// value of the type: the receiver of a decoder need not be fresh (a receive loop that decodes
// one element after the other into the same variable).  A scenario of tla/Codec.tla
// (ReuseValues) names a type and two values a, b; the driver decodes the type's own encoding
// of a and then that of b into ONE variable and records, per decoding mode (bytes:
// xml.Unmarshal, tokens: xml.NewTokenDecoder), four views:
//
//	zero    the projection of an untouched receiver
//	fresh1  a decoded into a fresh receiver
//	fresh2  b decoded into a fresh receiver
//	reused  a, then b decoded into the same receiver
//	kept    a decoded into a receiver, the receiver COPIED by assignment (kept := *receiver), b decoded
//	        into the receiver, the receiver and the copy encoded: the copy as it is after all that
//
// A view is {outcome: "value", leaves: {path: [..]}} or {outcome: "error"}; a panic is recorded
// as the view's failure.  The specification (ReuseOK) relates the views leaf by leaf.
//
// value: [ty, a, b]

func init() {
	adapters["reuse"] = runReuse
	adapters["reuse.core"] = runReuse
	for _, kind := range []string{"iq", "message", "presence"} {
		kind := kind
		stds[kind] = Std{
			Build: func(v Rec) interface{} { return buildStanza(kind, v).val },
			New: func() interface{} {
				switch kind {
				case "iq":
					return &stanza.IQ{}
				case "message":
					return &stanza.Message{}
				}
				return &stanza.Presence{}
			},
			Proj: func(p interface{}) Rec {
				switch x := p.(type) {
				case *stanza.IQ:
					return projIQ(*x)
				case *stanza.Message:
					return projMessage(*x)
				}
				return projPresence(*p.(*stanza.Presence))
			},
		}
	}
}

// hasRefs: the type holds a pointer or a map (through fields, exported or not, and slice elements):
// something that a copy made by assignment shares with the original by the language's definition.
func hasRefs(t reflect.Type, depth int) bool {
	if depth > 8 {
		return false
	}
	switch t.Kind() {
	case reflect.Ptr, reflect.Map:
		return true
	case reflect.Struct:
		for i := 0; i < t.NumField(); i++ {
			if hasRefs(t.Field(i).Type, depth+1) {
				return true
			}
		}
	case reflect.Slice, reflect.Array:
		return hasRefs(t.Elem(), depth+1)
	}
	return false
}

// copyOf returns a pointer to a copy made by assignment (*c = *ptr) of the value ptr points to.
func copyOf(ptr interface{}) interface{} {
	c := reflect.New(reflect.TypeOf(ptr).Elem())
	c.Elem().Set(reflect.ValueOf(ptr).Elem())
	return c.Interface()
}

// flatten maps every leaf of a projection to a list: scalars become a list of one, lists stay
// (their elements are compared as a whole), nested records are flattened to dotted paths.
func flatten(prefix string, r Rec, out Rec) {
	keys := make([]string, 0, len(r))
	for k := range r {
		keys = append(keys, k)
	}
	sort.Strings(keys)
	for _, k := range keys {
		switch x := r[k].(type) {
		case Rec:
			flatten(prefix+k+".", x, out)
		case []interface{}:
			if x == nil {
				x = []interface{}{}
			}
			out[prefix+k] = x
		case nil:
			out[prefix+k] = []interface{}{}
		default:
			out[prefix+k] = []interface{}{x}
		}
	}
}

// lineLeaves: leaves that are a REPEATED child presented as one text, one child per line (the
// instructions of a data form, XEP-0004 3.1 / form.Instructions; SplitLines of tla/Codec.tla):
// like every other repeated child they are compared as the list of their lines.
var lineLeaves = map[string][]string{"form": {"instr"}}

func leavesOf(ty string, s Std, ptr interface{}) Rec {
	out := Rec{}
	flatten("", s.Proj(ptr), out)
	for _, k := range lineLeaves[ty] {
		if l, ok := out[k].([]interface{}); ok && len(l) == 1 {
			if name, ok := l[0].(string); ok {
				text := name // a string outside the symbol table is projected as "?<quoted>": keep it whole
				if t, known := sym.str[name]; known {
					text = t
					lines := []interface{}{}
					for _, ln := range strings.Split(text, "\n") {
						lines = append(lines, SN(ln))
					}
					out[k] = lines
				} else if u, err := strconv.Unquote(strings.TrimPrefix(name, "?")); err == nil {
					lines := []interface{}{}
					for _, ln := range strings.Split(u, "\n") {
						lines = append(lines, SN(ln))
					}
					out[k] = lines
				}
			}
		}
	}
	return out
}

func runReuse(v Rec, o *Obs) {
	ty := str(v["ty"])
	s, ok := stds[ty]
	if !ok || s.Proj == nil {
		panic("driver: no decoder / projection registered for " + ty)
	}
	// the documents: the type's own encoding of a and of b (a value that writes no element,
	// or cannot be encoded, gives an empty document: decoding it is an error, which is fine)
	doc := func(x Rec) (b []byte, toks []xml.Token) {
		guard(func() error {
			var err error
			b, err = xml.Marshal(s.Build(x))
			if err != nil {
				b = nil
				return err
			}
			toks, err = readTokens(xml.NewDecoder(bytes.NewReader(b)))
			toks = stripNS(toks)
			return err
		})
		return b, toks
	}
	ba, ta := doc(rec(v["a"]))
	bb, tb := doc(rec(v["b"]))
	o.keep("a", ba)
	o.keep("b", bb)
	decoders := map[string][2]func(ptr interface{}) error{
		"bytes": {func(ptr interface{}) error { return xml.Unmarshal(ba, ptr) }, func(ptr interface{}) error { return xml.Unmarshal(bb, ptr) }},
		"tokens": {func(ptr interface{}) error { return xml.NewTokenDecoder(replay(ta)).Decode(ptr) },
			func(ptr interface{}) error { return xml.NewTokenDecoder(replay(tb)).Decode(ptr) }},
	}
	for _, mode := range []string{"bytes", "tokens"} {
		dec := decoders[mode]
		view := func(name string, steps ...func(ptr interface{}) error) {
			o.dec(mode+"/"+name, mode+"/"+name, func() (Rec, error) {
				ptr := s.New()
				failed := false
				for _, st := range steps {
					if err := st(ptr); err != nil {
						failed = true // the next document is still decoded into the receiver as it is now
					}
				}
				if failed {
					return Rec{"outcome": "error"}, nil
				}
				return Rec{"outcome": "value", "leaves": leavesOf(ty, s, ptr)}, nil
			})
		}
		view("zero")
		view("fresh1", dec[0])
		view("fresh2", dec[1])
		view("reused", dec[0], dec[1])
		o.dec(mode+"/kept", mode+"/kept", func() (Rec, error) {
			ptr := s.New()
			if err := dec[0](ptr); err != nil {
				return Rec{"outcome": "error"}, nil
			}
			kept := copyOf(ptr)
			_ = dec[1](ptr) // whatever comes of it
			guard(func() error { _, err := xml.Marshal(ptr); return err })
			guard(func() error { _, err := xml.Marshal(kept); return err })
			return Rec{"outcome": "value", "leaves": leavesOf(ty, s, kept), "refs": hasRefs(reflect.TypeOf(kept).Elem(), 0)}, nil
		})
	}
}
