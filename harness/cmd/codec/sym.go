package main

import (
	"encoding/json"
	"fmt"
	"hash/fnv"
	"os"
	"sort"
	"strconv"
	"strings"
	"time"

	"mellium.im/xmpp/jid"
)

// The abstract values of tla/Stanza.tla and tla/Codec.tla name their leaves symbolically
// ("S_xml", "J_full", "T_frac" ...).  The concrete value behind every symbol is defined
// in the specification (Stanza.tla, operator Symbols) and emitted by TLC as symbols.json;
// the driver has no table of its own.
//
//	str : name -> sequence of code points
//	jid : name -> sequence of code points (the string form of the address; empty = zero JID)
//	time: name -> <<unix seconds, nanoseconds, zone offset in seconds>>  ("T_zero" = time.Time{})
//	int : name -> decimal string (sequence of code points)
//	long: name -> a long text that is not written out: a run (code point c, n times) or the texts
//	      named by `lines` joined by the code point `sep`; expanded here, deterministically
//	xtime: name -> <<year, day of the year, second of the day, nanoseconds, zone offset in seconds>>,
//	      an extreme time in its own zone (Unix seconds do not fit the specification's integers)
//	maxtime: names of the largest time with a defined Unix time
type longSym struct {
	Kind  string   `json:"kind"`
	C     int      `json:"c"`
	N     int      `json:"n"`
	Lines []string `json:"lines"`
	Sep   int      `json:"sep"`
}

type symbols struct {
	Str  map[string][]int `json:"str"`
	Jid  map[string][]int `json:"jid"`
	Time map[string][]int `json:"time"`
	Int  map[string][]int `json:"int"`
	// bytes: name -> sequence of byte values
	Bytes   map[string][]int   `json:"bytes"`
	Long    map[string]longSym `json:"long"`
	XTime   map[string][]int   `json:"xtime"`
	MaxTime []string           `json:"maxtime"`

	str   map[string]string
	rstr  map[string]string
	jids  map[string]jid.JID
	rjid  map[string]string
	times map[string]time.Time
	ints  map[string]string
	rint  map[string]string
}

var sym symbols

func cps(l []int) string {
	r := make([]rune, len(l))
	for i, c := range l {
		r[i] = rune(c)
	}
	return string(r)
}

func loadSymbols(path string) error {
	b, err := os.ReadFile(path)
	if err != nil {
		return err
	}
	if err := json.Unmarshal(b, &sym); err != nil {
		return err
	}
	sym.str, sym.rstr = map[string]string{}, map[string]string{}
	for n, l := range sym.Str {
		s := cps(l)
		if o, dup := sym.rstr[s]; dup {
			return fmt.Errorf("symbols %s and %s denote the same string", o, n)
		}
		sym.str[n], sym.rstr[s] = s, n
	}
	// long texts: runs first, then the texts made of lines (their lines are runs or short texts)
	var longNames []string
	for n := range sym.Long {
		longNames = append(longNames, n)
	}
	sort.Strings(longNames)
	for pass := 0; pass < 2; pass++ {
		for _, n := range longNames {
			l := sym.Long[n]
			var s string
			switch {
			case pass == 0 && l.Kind == "run":
				s = strings.Repeat(string(rune(l.C)), l.N)
			case pass == 1 && l.Kind == "lines":
				parts := make([]string, len(l.Lines))
				for i, ln := range l.Lines {
					p, ok := sym.str[ln]
					if !ok {
						return fmt.Errorf("long text %s: unknown line symbol %s", n, ln)
					}
					parts[i] = p
				}
				s = strings.Join(parts, string(rune(l.Sep)))
			case l.Kind != "run" && l.Kind != "lines":
				return fmt.Errorf("long text %s: unknown kind %q", n, l.Kind)
			default:
				continue
			}
			if o, dup := sym.rstr[s]; dup {
				return fmt.Errorf("symbols %s and %s denote the same string", o, n)
			}
			if _, dup := sym.str[n]; dup {
				return fmt.Errorf("symbol %s is defined twice", n)
			}
			sym.str[n], sym.rstr[s] = s, n
		}
	}
	sym.jids, sym.rjid = map[string]jid.JID{}, map[string]string{}
	for n, l := range sym.Jid {
		s := cps(l)
		var j jid.JID
		if s != "" {
			j, err = jid.Parse(s)
			if err != nil {
				return fmt.Errorf("symbol %s: %v", n, err)
			}
			if j.String() != s {
				return fmt.Errorf("symbol %s: %q is not in canonical form (%q)", n, s, j.String())
			}
		}
		sym.jids[n], sym.rjid[s] = j, n
	}
	sym.times = map[string]time.Time{}
	for n, l := range sym.Time {
		if len(l) != 3 {
			return fmt.Errorf("time symbol %s: want <<sec, nsec, offset>>", n)
		}
		if n == "T_zero" {
			sym.times[n] = time.Time{}
			continue
		}
		loc := time.UTC
		if l[2] != 0 {
			loc = time.FixedZone("", l[2])
		}
		sym.times[n] = time.Unix(int64(l[0]), int64(l[1])).In(loc)
	}
	for n, l := range sym.XTime {
		if len(l) != 5 {
			return fmt.Errorf("extreme time symbol %s: want <<year, day of year, second of day, nsec, offset>>", n)
		}
		loc := time.UTC
		if l[4] != 0 {
			loc = time.FixedZone("", l[4])
		}
		sym.times[n] = time.Date(l[0], 1, l[1], 0, 0, l[2], l[3], loc)
		sym.Time[n] = []int{0, 0, l[4]}
	}
	for _, n := range sym.MaxTime {
		sym.times[n] = time.Unix(1<<63-62135596801, 999999999).UTC()
		sym.Time[n] = []int{0, 0, 0}
	}
	// two names for one (instant, zone offset) would make the projection ambiguous
	for a, ta := range sym.times {
		for b, tb := range sym.times {
			if a < b && ta.Equal(tb) && sym.Time[a][2] == sym.Time[b][2] && a != "T_zero" && b != "T_zero" {
				return fmt.Errorf("time symbols %s and %s denote the same instant and offset", a, b)
			}
		}
		if a != "T_zero" && ta.IsZero() {
			return fmt.Errorf("time symbol %s is time.Time{}", a)
		}
	}
	sym.ints, sym.rint = map[string]string{}, map[string]string{}
	for n, l := range sym.Int {
		sym.ints[n], sym.rint[cps(l)] = cps(l), n
	}
	return nil
}

// S returns the concrete string of a string symbol.
func S(name interface{}) string {
	n, _ := name.(string)
	s, ok := sym.str[n]
	if !ok {
		panic(fmt.Sprintf("driver: unknown string symbol %v", name))
	}
	return s
}

// SN projects a concrete string to its symbol; a string outside the table is shown
// as "?<quoted>" (ASCII only), which equals no symbol of the specification.
func SN(s string) string {
	if n, ok := sym.rstr[s]; ok {
		return n
	}
	return "?" + quoteShort(s)
}

// quoteShort quotes a string that is not in the symbol table; a long one is shown by its length,
// its two ends and a hash of the whole (equal strings have equal names, observations stay small).
func quoteShort(s string) string {
	if len(s) <= 160 {
		return strconv.QuoteToASCII(s)
	}
	h := fnv.New64a()
	h.Write([]byte(s))
	return fmt.Sprintf("long(%d bytes, %d lines, fnv %x) %s ... %s", len(s), strings.Count(s, "\n")+1, h.Sum64(),
		strconv.QuoteToASCII(s[:40]), strconv.QuoteToASCII(s[len(s)-40:]))
}

// J returns the address of a JID symbol.
func J(name interface{}) jid.JID {
	n, _ := name.(string)
	j, ok := sym.jids[n]
	if !ok {
		panic(fmt.Sprintf("driver: unknown jid symbol %v", name))
	}
	return j
}

// JN projects an address to its symbol.
func JN(j jid.JID) string {
	s := j.String()
	if n, ok := sym.rjid[s]; ok {
		return n
	}
	return "?" + strconv.QuoteToASCII(s)
}

// T returns the time of a time symbol.
func T(name interface{}) time.Time {
	n, _ := name.(string)
	t, ok := sym.times[n]
	if !ok {
		panic(fmt.Sprintf("driver: unknown time symbol %v", name))
	}
	return t
}

// TN projects a time to the symbol of the same INSTANT (the zone is not part of the
// abstract value: XEP-0082 recommends UTC on the wire and decoders may return any zone):
// the symbol of that instant in UTC if there is one (InstOf of tla/Stanza.tla), otherwise
// the only symbol of that instant.  time.Time{} projects to T_zero.
func TN(t time.Time) string {
	if t.IsZero() {
		return "T_zero"
	}
	var same []string
	for n, u := range sym.times {
		if n != "T_zero" && u.Equal(t) {
			if sym.Time[n][2] == 0 {
				return n
			}
			same = append(same, n)
		}
	}
	if len(same) == 1 {
		return same[0]
	}
	if len(same) > 1 {
		return "?Tambiguous" + t.UTC().Format(time.RFC3339Nano)
	}
	return "?T" + t.UTC().Format(time.RFC3339Nano)
}

// TZ projects the zone offset of a time, for the few types whose contract includes it.
func TZ(t time.Time) int {
	_, off := t.Zone()
	return off
}

// I returns the decimal string of an integer symbol.
func I(name interface{}) string {
	n, _ := name.(string)
	s, ok := sym.ints[n]
	if !ok {
		panic(fmt.Sprintf("driver: unknown int symbol %v", name))
	}
	return s
}

// IU returns an integer symbol as uint64.
func IU(name interface{}) uint64 {
	u, err := strconv.ParseUint(I(name), 10, 64)
	if err != nil {
		panic(fmt.Sprintf("driver: int symbol %v: %v", name, err))
	}
	return u
}

// II returns an integer symbol as int64.
func II(name interface{}) int64 {
	u, err := strconv.ParseInt(I(name), 10, 64)
	if err != nil {
		panic(fmt.Sprintf("driver: int symbol %v: %v", name, err))
	}
	return u
}

// IN projects a decimal string to its integer symbol.
func IN(s string) string {
	if n, ok := sym.rint[s]; ok {
		return n
	}
	return "?I" + strconv.QuoteToASCII(s)
}

// Rec is an abstract record (JSON object).
type Rec = map[string]interface{}

func list(x interface{}) []interface{} {
	l, _ := x.([]interface{})
	return l
}

func rec(x interface{}) Rec {
	r, _ := x.(map[string]interface{})
	return r
}

func str(x interface{}) string {
	s, _ := x.(string)
	return s
}

func boolean(x interface{}) bool {
	b, _ := x.(bool)
	return b
}
