package main

import (
	"bytes"
	"encoding/xml"
	"fmt"
	"net/http"
	"net/url"
	"sort"
	"strconv"
	"time"

	"mellium.im/xmpp/bin"
	"mellium.im/xmpp/blocklist"
	"mellium.im/xmpp/bookmarks"
	"mellium.im/xmpp/carbons"
	"mellium.im/xmpp/commands"
	"mellium.im/xmpp/crypto"
	"mellium.im/xmpp/delay"
	"mellium.im/xmpp/disco"
	"mellium.im/xmpp/disco/info"
	"mellium.im/xmpp/disco/items"
	"mellium.im/xmpp/file"
	"mellium.im/xmpp/form"
	"mellium.im/xmpp/forward"
	"mellium.im/xmpp/history"
	"mellium.im/xmpp/jid"
	"mellium.im/xmpp/muc"
	"mellium.im/xmpp/oob"
	"mellium.im/xmpp/paging"
	"mellium.im/xmpp/receipts"
	"mellium.im/xmpp/roster"
	"mellium.im/xmpp/stanza"
	"mellium.im/xmpp/styling"
	"mellium.im/xmpp/upload"
	"mellium.im/xmpp/version"
	"mellium.im/xmpp/xtime"

	_ "crypto/sha1"
	_ "crypto/sha256"
	_ "crypto/sha512"
)

// C19: one adapter per extension payload type: constructor from the abstract record of
// tla/Codec.tla (typed table) and projection back.  std() registers the usual trio.

// stds: constructor and decode target of every type that has a decoder (used by the shape grammar)
var stds = map[string]Std{}

func std(ty string, build func(v Rec) interface{}, mk func() interface{}, proj func(p interface{}) Rec) {
	stds[ty] = Std{Build: build, New: mk, Proj: proj}
	adapters[ty] = stdRun(stds[ty])
}

// encOnly registers a type that can only be encoded.
func encOnly(ty string, build func(v Rec) interface{}) {
	adapters[ty] = stdRun(Std{Build: build, NoUnmarshal: true})
}

func strs(x interface{}) []string {
	var out []string
	for _, s := range list(x) {
		out = append(out, S(s))
	}
	return out
}

func strNames(l []string) []interface{} {
	out := []interface{}{}
	for _, s := range l {
		out = append(out, SN(s))
	}
	return out
}

// optional integers: <<>> or <<N_x>>
func optU(x interface{}) *uint64 {
	l := list(x)
	if len(l) == 0 {
		return nil
	}
	u := IU(l[0])
	return &u
}

func optUN(p *uint64) []interface{} {
	if p == nil {
		return []interface{}{}
	}
	return []interface{}{IN(strconv.FormatUint(*p, 10))}
}

func un(u uint64) string { return IN(strconv.FormatUint(u, 10)) }

var hashes = map[string]crypto.Hash{
	"H_zero": 0, "H_sha1": crypto.SHA1, "H_sha256": crypto.SHA256, "H_sha512": crypto.SHA512,
	"H_sha3_256": crypto.SHA3_256, "H_blake2b_512": crypto.BLAKE2b_512,
}

func H(x interface{}) crypto.Hash {
	h, ok := hashes[str(x)]
	if !ok {
		panic(fmt.Sprintf("driver: unknown hash symbol %v", x))
	}
	return h
}

func HN(h crypto.Hash) string {
	for n, x := range hashes {
		if x == h {
			return n
		}
	}
	return "?H" + strconv.Itoa(int(h))
}

// B / BN: byte string symbols (symbols.json "bytes")
func B(x interface{}) []byte {
	l, ok := sym.Bytes[str(x)]
	if !ok {
		panic(fmt.Sprintf("driver: unknown bytes symbol %v", x))
	}
	if len(l) == 0 {
		return nil
	}
	b := make([]byte, len(l))
	for i, c := range l {
		b[i] = byte(c)
	}
	return b
}

func BN(b []byte) string {
	for n, l := range sym.Bytes {
		if len(l) == len(b) {
			same := true
			for i := range l {
				if byte(l[i]) != b[i] {
					same = false
					break
				}
			}
			if same {
				return n
			}
		}
	}
	return "?B" + fmt.Sprintf("%x", b)
}

func delayOf(v Rec) delay.Delay {
	return delay.Delay{From: J(v["from"]), Time: T(v["time"]), Reason: S(v["reason"])}
}

func projDelay(d delay.Delay) Rec {
	return Rec{"from": JN(d.From), "time": TN(d.Time), "reason": SN(d.Reason)}
}

func identOf(x interface{}) info.Identity {
	r := rec(x)
	return info.Identity{Category: S(r["cat"]), Type: S(r["type"]), Name: S(r["name"]), Lang: S(r["lang"])}
}

func projIdent(i info.Identity) Rec {
	return Rec{"cat": SN(i.Category), "type": SN(i.Type), "name": SN(i.Name), "lang": SN(i.Lang)}
}

func rosterItemOf(x interface{}) roster.Item {
	r := rec(x)
	return roster.Item{JID: J(r["jid"]), Name: S(r["name"]), Subscription: S(r["sub"]), Group: strs(r["groups"])}
}

func projRosterItem(i roster.Item) Rec {
	return Rec{"jid": JN(i.JID), "name": SN(i.Name), "sub": SN(i.Subscription), "groups": strNames(i.Group)}
}

func pagingSetOf(r Rec) paging.Set {
	var s paging.Set
	s.First.ID = S(r["first"])
	s.First.Index = optU(r["index"])
	s.Last = S(r["last"])
	s.Count = optU(r["count"])
	return s
}

func projPagingSet(s paging.Set) Rec {
	return Rec{"first": SN(s.First.ID), "index": optUN(s.First.Index), "last": SN(s.Last), "count": optUN(s.Count)}
}

func keyOf(x interface{}) crypto.Key {
	r := rec(x)
	return crypto.Key{Trusted: boolean(r["trusted"]), KeyID: B(r["id"])}
}

func projKey(k crypto.Key) Rec { return Rec{"trusted": k.Trusted, "id": BN(k.KeyID)} }

func ownedOf(x interface{}) crypto.OwnedKeys {
	r := rec(x)
	o := crypto.OwnedKeys{Owner: J(r["owner"])}
	for _, k := range list(r["keys"]) {
		o.Keys = append(o.Keys, keyOf(k))
	}
	return o
}

func projOwned(o crypto.OwnedKeys) Rec {
	ks := []interface{}{}
	for _, k := range o.Keys {
		ks = append(ks, projKey(k))
	}
	return Rec{"owner": JN(o.Owner), "keys": ks}
}

func urlOf(x interface{}) *url.URL {
	s := S(x)
	if s == "" {
		return nil
	}
	u, err := url.Parse(s)
	if err != nil {
		panic("driver: url symbol does not parse: " + err.Error())
	}
	return u
}

func urlName(u *url.URL) string {
	if u == nil {
		return SN("")
	}
	return SN(u.String())
}

func smallIQ(r Rec) stanza.IQ {
	return stanza.IQ{XMLName: xml.Name{Space: "jabber:client", Local: "iq"}, ID: S(r["id"]), To: J(r["to"]), Type: stanza.IQType(str(r["type"]))}
}

func projSmallIQ(iq stanza.IQ) Rec {
	return Rec{"id": SN(iq.ID), "to": JN(iq.To), "type": string(iq.Type)}
}

func init() {
	// ---------------------------------------------------------------- disco
	std("disco.infoquery",
		func(v Rec) interface{} { return disco.InfoQuery{Node: S(v["node"])} },
		func() interface{} { return &disco.InfoQuery{} },
		func(p interface{}) Rec { return Rec{"node": SN(p.(*disco.InfoQuery).Node)} })
	std("disco.itemsquery",
		func(v Rec) interface{} { return disco.ItemsQuery{Node: S(v["node"])} },
		func() interface{} { return &disco.ItemsQuery{} },
		func(p interface{}) Rec { return Rec{"node": SN(p.(*disco.ItemsQuery).Node)} })
	std("disco.identity",
		func(v Rec) interface{} { return identOf(v) },
		func() interface{} { return &info.Identity{} },
		func(p interface{}) Rec { return projIdent(*p.(*info.Identity)) })
	std("disco.feature",
		func(v Rec) interface{} { return info.Feature{Var: S(v["var"])} },
		func() interface{} { return &info.Feature{} },
		func(p interface{}) Rec { return Rec{"var": SN(p.(*info.Feature).Var)} })
	std("disco.item",
		func(v Rec) interface{} { return items.Item{JID: J(v["jid"]), Name: S(v["name"]), Node: S(v["node"])} },
		func() interface{} { return &items.Item{} },
		func(p interface{}) Rec {
			i := p.(*items.Item)
			return Rec{"jid": JN(i.JID), "name": SN(i.Name), "node": SN(i.Node)}
		})
	std("disco.caps",
		func(v Rec) interface{} { return disco.Caps{Hash: H(v["hash"]), Node: S(v["node"]), Ver: S(v["ver"])} },
		func() interface{} { return &disco.Caps{} },
		func(p interface{}) Rec {
			c := p.(*disco.Caps)
			return Rec{"hash": HN(c.Hash), "node": SN(c.Node), "ver": SN(c.Ver)}
		})
	std("disco.info",
		func(v Rec) interface{} {
			i := disco.Info{InfoQuery: disco.InfoQuery{Node: S(v["node"])}}
			for _, x := range list(v["ids"]) {
				i.Identity = append(i.Identity, identOf(x))
			}
			for _, x := range list(v["feats"]) {
				i.Features = append(i.Features, info.Feature{Var: S(x)})
			}
			for _, x := range list(v["forms"]) {
				i.Form = append(i.Form, *buildForm(rec(x)))
			}
			return i
		},
		func() interface{} { return &disco.Info{} },
		func(p interface{}) Rec {
			i := p.(*disco.Info)
			ids, feats, forms := []interface{}{}, []interface{}{}, []interface{}{}
			for _, x := range i.Identity {
				ids = append(ids, projIdent(x))
			}
			for _, x := range i.Features {
				feats = append(feats, SN(x.Var))
			}
			for k := range i.Form {
				forms = append(forms, projForm(&i.Form[k]))
			}
			return Rec{"node": SN(i.Node), "ids": ids, "feats": feats, "forms": forms}
		})

	// ---------------------------------------------------------------- paging
	std("paging.requestcount",
		func(v Rec) interface{} { return &paging.RequestCount{} },
		func() interface{} { return &paging.RequestCount{} },
		func(p interface{}) Rec { return Rec{"none": true} })
	std("paging.requestnext",
		func(v Rec) interface{} { return &paging.RequestNext{Max: IU(v["max"]), After: S(v["after"])} },
		func() interface{} { return &paging.RequestNext{} },
		func(p interface{}) Rec {
			r := p.(*paging.RequestNext)
			return Rec{"max": un(r.Max), "after": SN(r.After)}
		})
	std("paging.requestprev",
		func(v Rec) interface{} { return &paging.RequestPrev{Max: IU(v["max"]), Before: S(v["before"])} },
		func() interface{} { return &paging.RequestPrev{} },
		func(p interface{}) Rec {
			r := p.(*paging.RequestPrev)
			return Rec{"max": un(r.Max), "before": SN(r.Before)}
		})
	std("paging.requestindex",
		func(v Rec) interface{} { return &paging.RequestIndex{Max: IU(v["max"]), Index: IU(v["index"])} },
		func() interface{} { return &paging.RequestIndex{} },
		func(p interface{}) Rec {
			r := p.(*paging.RequestIndex)
			return Rec{"max": un(r.Max), "index": un(r.Index)}
		})
	std("paging.set",
		func(v Rec) interface{} { s := pagingSetOf(v); return &s },
		func() interface{} { return &paging.Set{} },
		func(p interface{}) Rec { return projPagingSet(*p.(*paging.Set)) })

	// ---------------------------------------------------------------- delay, time
	std("delay",
		func(v Rec) interface{} { return delayOf(v) },
		func() interface{} { return &delay.Delay{} },
		func(p interface{}) Rec { return projDelay(*p.(*delay.Delay)) })
	std("stanza.delay",
		func(v Rec) interface{} {
			return stanza.Delay{From: J(v["from"]), Stamp: T(v["time"]), Reason: S(v["reason"])}
		},
		func() interface{} { return &stanza.Delay{} },
		func(p interface{}) Rec {
			d := p.(*stanza.Delay)
			return Rec{"from": JN(d.From), "time": TN(d.Stamp), "reason": SN(d.Reason)}
		})
	std("xtime",
		func(v Rec) interface{} { return xtime.Time{Time: T(v["time"])} },
		func() interface{} { return &xtime.Time{} },
		func(p interface{}) Rec {
			t := p.(*xtime.Time)
			return Rec{"time": TN(t.Time), "off": TZ(t.Time)}
		})

	// ---------------------------------------------------------------- forward, carbons
	stds["forward"] = Std{
		Build: func(v Rec) interface{} { return forward.Forwarded{Delay: delayOf(v)} },
		New:   func() interface{} { return &forward.Forwarded{} },
		Proj:  func(p interface{}) Rec { return projDelay(p.(*forward.Forwarded).Delay) },
	}
	adapters["forward"] = func(v Rec, o *Obs) {
		stdRun(stds["forward"])(v, o)
		// Wrap / Unwrap keep the payload and the delay
		f := forward.Forwarded{Delay: delayOf(v)}
		if toks := o.encTokens("wrap", func() xml.TokenReader { return f.Wrap(payloadReader(str(v["pl"]))) }); toks != nil {
			unwrap := func(p string, r func() xml.TokenReader) {
				o.dec(p, "unwrap", func() (Rec, error) {
					var d delay.Delay
					in, err := forward.Unwrap(&d, r())
					if err != nil {
						return nil, err
					}
					rest, err := readTokens(in)
					if err != nil {
						return nil, err
					}
					out := projDelay(d)
					out["pl"] = payloadName(rest)
					return out, nil
				})
			}
			unwrap("wrap/unwrap", func() xml.TokenReader { return replay(toks) })
			if b := o.encBytes("wrapbytes", func() ([]byte, error) { return tokensToBytes(toks) }); b != nil {
				unwrap("wrapbytes/unwrap", func() xml.TokenReader { return xml.NewDecoder(bytes.NewReader(b)) })
			}
		}
	}
	// forward.Wrap(message, body, received, stanza): the package level constructor.  The result is a
	// message with a body and a <forwarded/> child; decoded view: the body, the delay read by
	// forward.Unwrap from the <forwarded/> child, the forwarded payload.
	adapters["forward.wrap"] = func(v Rec, o *Obs) {
		msg := stanza.Message{To: J("J_fullx"), Type: stanza.ChatMessage}
		toks := o.encTokens("wrap", func() xml.TokenReader {
			return forward.Wrap(msg, S(v["body"]), T(v["time"]), payloadReader(str(v["pl"])))
		})
		if toks == nil {
			return
		}
		unwrap := func(p string, r func() xml.TokenReader) {
			o.dec(p, "norm", func() (Rec, error) {
				all, err := readTokens(r())
				if err != nil {
					return nil, err
				}
				in, err := inner(all) // the children of <message/>
				if err != nil {
					return nil, err
				}
				kids := children(append(append([]xml.Token{xml.StartElement{Name: xml.Name{Local: "m"}}}, in...), xml.EndElement{Name: xml.Name{Local: "m"}}))
				if len(kids) != 2 {
					return nil, fmt.Errorf("message has %d children, want body and forwarded", len(kids))
				}
				seg := func(k [2]int) []xml.Token { return in[k[0]-1 : k[1]-1] }
				body := seg(kids[0])
				if s, ok := body[0].(xml.StartElement); !ok || s.Name.Local != "body" {
					return nil, fmt.Errorf("first child of the message is %v", body[0])
				}
				text := ""
				for _, t := range body[1 : len(body)-1] {
					c, ok := t.(xml.CharData)
					if !ok {
						return nil, fmt.Errorf("body holds a %T", t)
					}
					text += string(c)
				}
				var d delay.Delay
				rest, err := forward.Unwrap(&d, replay(seg(kids[1])))
				if err != nil {
					return nil, err
				}
				pl, err := readTokens(rest)
				if err != nil {
					return nil, err
				}
				if !d.From.Equal(jid.JID{}) || d.Reason != "" {
					return nil, fmt.Errorf("forward.Wrap wrote a delay with from %q reason %q", d.From, d.Reason)
				}
				return Rec{"body": SN(text), "time": TN(d.Time), "pl": payloadName(pl)}, nil
			})
		}
		unwrap("wrap/unwrap", func() xml.TokenReader { return replay(toks) })
		if b := o.encBytes("wrapbytes", func() ([]byte, error) { return tokensToBytes(toks) }); b != nil {
			unwrap("wrapbytes/unwrap", func() xml.TokenReader { return xml.NewDecoder(bytes.NewReader(b)) })
		}
	}
	adapters["carbons"] = func(v Rec, o *Obs) {
		d := delayOf(v)
		wrap := carbons.WrapSent
		if str(v["kind"]) == "received" {
			wrap = carbons.WrapReceived
		}
		if toks := o.encTokens("wrap", func() xml.TokenReader { return wrap(d, payloadReader(str(v["pl"]))) }); toks != nil {
			unwrap := func(p string, r func() xml.TokenReader) {
				o.dec(p, "norm", func() (Rec, error) {
					var d delay.Delay
					in, start, err := carbons.Unwrap(&d, r())
					if err != nil {
						return nil, err
					}
					rest, err := readTokens(in)
					if err != nil {
						return nil, err
					}
					out := projDelay(d)
					out["pl"] = payloadName(rest)
					out["kind"] = start.Name.Local
					return out, nil
				})
			}
			unwrap("wrap/unwrap", func() xml.TokenReader { return replay(toks) })
			if b := o.encBytes("wrapbytes", func() ([]byte, error) { return tokensToBytes(toks) }); b != nil {
				unwrap("wrapbytes/unwrap", func() xml.TokenReader { return xml.NewDecoder(bytes.NewReader(b)) })
			}
		}
	}

	// ---------------------------------------------------------------- receipts, styling hint
	stds["receipts.requested"] = Std{
		Build: func(v Rec) interface{} { return receipts.Requested(true) },
		New:   func() interface{} { r := receipts.Requested(false); return &r },
		Proj:  func(p interface{}) Rec { return Rec{"req": bool(*p.(*receipts.Requested))} },
	}
	adapters["receipts.requested"] = func(v Rec, o *Obs) {
		stdRun(Std{
			Build:       func(v Rec) interface{} { return receipts.Requested(boolean(v["req"])) },
			New:         func() interface{} { r := receipts.Requested(false); return &r },
			Proj:        func(p interface{}) Rec { return Rec{"req": bool(*p.(*receipts.Requested))} },
			NoUnmarshal: !boolean(v["req"]), // false writes no element: nothing to decode
		})(v, o)
	}
	std("styling.unstyled",
		func(v Rec) interface{} { return styling.Unstyled{Value: boolean(v["value"])} },
		func() interface{} { return &styling.Unstyled{} },
		func(p interface{}) Rec { return Rec{"value": p.(*styling.Unstyled).Value} })

	// ---------------------------------------------------------------- roster
	std("roster.item",
		func(v Rec) interface{} { return rosterItemOf(v) },
		func() interface{} { return &roster.Item{} },
		func(p interface{}) Rec { return projRosterItem(*p.(*roster.Item)) })
	std("roster.iq",
		func(v Rec) interface{} {
			iq := roster.IQ{IQ: smallIQ(rec(v["iq"]))}
			iq.Query.Ver = S(v["ver"])
			for _, x := range list(v["items"]) {
				iq.Query.Item = append(iq.Query.Item, rosterItemOf(x))
			}
			return iq
		},
		func() interface{} { return &roster.IQ{} },
		func(p interface{}) Rec {
			iq := p.(*roster.IQ)
			its := []interface{}{}
			for _, x := range iq.Query.Item {
				its = append(its, projRosterItem(x))
			}
			return Rec{"iq": projSmallIQ(iq.IQ), "ver": SN(iq.Query.Ver), "items": its}
		})

	// ---------------------------------------------------------------- blocklist
	std("blocklist.item",
		func(v Rec) interface{} {
			i := &blocklist.Item{JID: J(v["jid"]), Reason: blocklist.ReportReason(S(v["reason"])), Text: S(v["text"])}
			for _, x := range list(v["ids"]) {
				i.StanzaIDs = append(i.StanzaIDs, stanza.ID{ID: S(rec(x)["id"]), By: J(rec(x)["by"])})
			}
			return i
		},
		func() interface{} { return &blocklist.Item{} },
		func(p interface{}) Rec {
			i := p.(*blocklist.Item)
			ids := []interface{}{}
			for _, x := range i.StanzaIDs {
				ids = append(ids, Rec{"id": SN(x.ID), "by": JN(x.By)})
			}
			return Rec{"jid": JN(i.JID), "reason": SN(string(i.Reason)), "text": SN(i.Text), "ids": ids}
		})

	// ---------------------------------------------------------------- bookmarks
	std("bookmarks.channel",
		func(v Rec) interface{} {
			c := bookmarks.Channel{Autojoin: boolean(v["autojoin"]), Name: S(v["name"]), Nick: S(v["nick"]), Password: S(v["password"])}
			if toks := payloadTokens(str(v["ext"])); toks != nil {
				b, err := tokensToBytes(toks)
				if err != nil {
					panic("driver: " + err.Error())
				}
				c.Extensions = b
			}
			return c
		},
		func() interface{} { return &bookmarks.Channel{} },
		func(p interface{}) Rec {
			c := p.(*bookmarks.Channel)
			ext := "P_none"
			if len(bytes.TrimSpace(c.Extensions)) > 0 {
				toks, err := readTokens(xml.NewDecoder(bytes.NewReader(c.Extensions)))
				if err != nil {
					ext = "?" + strconv.QuoteToASCII(string(c.Extensions))
				} else {
					ext = payloadName(toks)
				}
			}
			return Rec{"autojoin": c.Autojoin, "name": SN(c.Name), "nick": SN(c.Nick), "password": SN(c.Password), "ext": ext}
		})

	// ---------------------------------------------------------------- muc
	mucItem := func(v Rec) muc.Item {
		return muc.Item{JID: J(v["jid"]), Affiliation: muc.Affiliation(int(IU(v["aff"]))), Nick: S(v["nick"]),
			Role: muc.Role(int(IU(v["role"]))), Reason: S(v["reason"])}
	}
	projMucItem := func(p interface{}) Rec {
		i := p.(*muc.Item)
		return Rec{"jid": JN(i.JID), "aff": un(uint64(i.Affiliation)), "nick": SN(i.Nick), "role": un(uint64(i.Role)), "reason": SN(i.Reason)}
	}
	// muc.Item has struct tags only; it is marshalled both as a value and through a pointer
	stds["muc.item"] = Std{
		Build: func(v Rec) interface{} { i := mucItem(v); return &i },
		New:   func() interface{} { return &muc.Item{} },
		Proj:  projMucItem,
	}
	adapters["muc.item"] = func(v Rec, o *Obs) {
		for _, mode := range []string{"marshal", "marshalptr"} {
			mode := mode
			b := o.encBytes(mode, func() ([]byte, error) {
				i := mucItem(v)
				if mode == "marshalptr" {
					return xml.Marshal(&i)
				}
				return xml.Marshal(i)
			})
			if b != nil {
				o.dec(mode+"/unmarshal", "norm", func() (Rec, error) {
					var i muc.Item
					if err := xml.Unmarshal(b, &i); err != nil {
						return nil, err
					}
					return projMucItem(&i), nil
				})
			}
		}
	}
	std("muc.invitation",
		func(v Rec) interface{} {
			name := xml.Name{Space: muc.NSUser, Local: "x"}
			if str(v["kind"]) == "direct" {
				name = xml.Name{Space: muc.NSConf, Local: "x"}
			}
			return muc.Invitation{XMLName: name, Continue: boolean(v["continue"]), JID: J(v["jid"]), Password: S(v["password"]),
				Reason: S(v["reason"]), Thread: S(v["thread"])}
		},
		func() interface{} { return &muc.Invitation{} },
		func(p interface{}) Rec {
			i := p.(*muc.Invitation)
			kind := "?" + qname(i.XMLName)
			switch i.XMLName {
			case xml.Name{Space: muc.NSUser, Local: "x"}:
				kind = "mediated"
			case xml.Name{Space: muc.NSConf, Local: "x"}:
				kind = "direct"
			}
			return Rec{"kind": kind, "continue": i.Continue, "jid": JN(i.JID), "password": SN(i.Password), "reason": SN(i.Reason), "thread": SN(i.Thread)}
		})

	// ---------------------------------------------------------------- oob, version
	std("oob.data",
		func(v Rec) interface{} { return oob.Data{URL: S(v["url"]), Desc: S(v["desc"])} },
		func() interface{} { return &oob.Data{} },
		func(p interface{}) Rec { d := p.(*oob.Data); return Rec{"url": SN(d.URL), "desc": SN(d.Desc)} })
	std("oob.query",
		func(v Rec) interface{} { return oob.Query{URL: S(v["url"]), Desc: S(v["desc"])} },
		func() interface{} { return &oob.Query{} },
		func(p interface{}) Rec { d := p.(*oob.Query); return Rec{"url": SN(d.URL), "desc": SN(d.Desc)} })
	std("oob.iq",
		func(v Rec) interface{} {
			return oob.IQ{IQ: smallIQ(rec(v["iq"])), Query: oob.Query{URL: S(v["url"]), Desc: S(v["desc"])}}
		},
		func() interface{} { return &oob.IQ{} },
		func(p interface{}) Rec {
			d := p.(*oob.IQ)
			return Rec{"iq": projSmallIQ(d.IQ), "url": SN(d.Query.URL), "desc": SN(d.Query.Desc)}
		})
	std("version.query",
		func(v Rec) interface{} { return version.Query{Name: S(v["name"]), Version: S(v["version"]), OS: S(v["os"])} },
		func() interface{} { return &version.Query{} },
		func(p interface{}) Rec {
			q := p.(*version.Query)
			return Rec{"name": SN(q.Name), "version": SN(q.Version), "os": SN(q.OS)}
		})

	// ---------------------------------------------------------------- upload
	std("upload.file",
		func(v Rec) interface{} { return upload.File{Name: S(v["name"]), Size: int(II(v["size"])), Type: S(v["type"])} },
		func() interface{} { return &upload.File{} },
		func(p interface{}) Rec {
			f := p.(*upload.File)
			return Rec{"name": SN(f.Name), "size": IN(strconv.Itoa(f.Size)), "type": SN(f.Type)}
		})
	std("upload.slot",
		func(v Rec) interface{} {
			s := upload.Slot{PutURL: urlOf(v["put"]), GetURL: urlOf(v["get"])}
			for _, h := range list(v["headers"]) {
				if s.Header == nil {
					s.Header = http.Header{}
				}
				s.Header.Add(S(rec(h)["name"]), S(rec(h)["value"]))
			}
			return s
		},
		func() interface{} { return &upload.Slot{} },
		func(p interface{}) Rec {
			s := p.(*upload.Slot)
			hs := []interface{}{}
			names := []string{}
			for n := range s.Header {
				names = append(names, n)
			}
			sort.Strings(names)
			for _, n := range names {
				for _, val := range s.Header[n] {
					hs = append(hs, Rec{"name": SN(n), "value": SN(val)})
				}
			}
			return Rec{"put": urlName(s.PutURL), "get": urlName(s.GetURL), "headers": hs}
		})

	// ---------------------------------------------------------------- bits of binary, file metadata
	std("bin.data",
		func(v Rec) interface{} {
			return &bin.Data{CID: S(v["cid"]), MaxAge: time.Duration(II(v["maxage"])) * time.Second, NoCache: boolean(v["nocache"]),
				Type: S(v["type"]), Data: B(v["data"])}
		},
		func() interface{} { return &bin.Data{} },
		func(p interface{}) Rec {
			d := p.(*bin.Data)
			age := "?D" + d.MaxAge.String()
			if d.MaxAge%time.Second == 0 {
				age = IN(strconv.FormatInt(int64(d.MaxAge/time.Second), 10))
			}
			return Rec{"cid": SN(d.CID), "maxage": age, "nocache": d.NoCache, "type": SN(d.Type), "data": BN(d.Data)}
		})
	std("file.meta",
		func(v Rec) interface{} {
			return &file.Meta{MediaType: S(v["mediatype"]), Name: S(v["name"]), Date: T(v["date"]), Size: IU(v["size"]),
				Hash:  crypto.HashOutput{Hash: H(v["hash"]), Out: B(v["out"])},
				Width: IU(v["width"]), Height: IU(v["height"]), Length: IU(v["length"])}
		},
		func() interface{} { return &file.Meta{} },
		func(p interface{}) Rec {
			m := p.(*file.Meta)
			return Rec{"mediatype": SN(m.MediaType), "name": SN(m.Name), "date": TN(m.Date), "size": un(m.Size),
				"hash": HN(m.Hash.Hash), "out": BN(m.Hash.Out), "width": un(m.Width), "height": un(m.Height), "length": un(m.Length)}
		})

	// ---------------------------------------------------------------- crypto
	std("crypto.hash",
		func(v Rec) interface{} { return H(v["hash"]) },
		func() interface{} { h := crypto.Hash(0); return &h },
		func(p interface{}) Rec { return Rec{"hash": HN(*p.(*crypto.Hash))} })
	std("crypto.hashoutput",
		func(v Rec) interface{} { return crypto.HashOutput{Hash: H(v["hash"]), Out: B(v["out"])} },
		func() interface{} { return &crypto.HashOutput{} },
		func(p interface{}) Rec {
			h := p.(*crypto.HashOutput)
			return Rec{"hash": HN(h.Hash), "out": BN(h.Out)}
		})
	std("crypto.key",
		func(v Rec) interface{} { return keyOf(v) },
		func() interface{} { return &crypto.Key{} },
		func(p interface{}) Rec { return projKey(*p.(*crypto.Key)) })
	std("crypto.ownedkeys",
		func(v Rec) interface{} { return ownedOf(v) },
		func() interface{} { return &crypto.OwnedKeys{} },
		func(p interface{}) Rec { return projOwned(*p.(*crypto.OwnedKeys)) })
	std("crypto.trustmessage",
		func(v Rec) interface{} {
			tm := crypto.TrustMessage{Usage: S(v["usage"]), Encryption: S(v["enc"])}
			for _, k := range list(v["keys"]) {
				tm.Keys = append(tm.Keys, ownedOf(k))
			}
			return tm
		},
		func() interface{} { return &crypto.TrustMessage{} },
		func(p interface{}) Rec {
			tm := p.(*crypto.TrustMessage)
			ks := []interface{}{}
			for _, k := range tm.Keys {
				ks = append(ks, projOwned(k))
			}
			return Rec{"usage": SN(tm.Usage), "enc": SN(tm.Encryption), "keys": ks}
		})

	// ---------------------------------------------------------------- history
	std("history.query",
		func(v Rec) interface{} {
			return &history.Query{ID: S(v["id"]), With: J(v["with"]), Start: T(v["start"]), End: T(v["end"]),
				BeforeID: S(v["beforeid"]), AfterID: S(v["afterid"]), IDs: strs(v["ids"]), Limit: IU(v["limit"]),
				Last: boolean(v["last"]), PageID: S(v["pageid"]), Reverse: boolean(v["reverse"])}
		},
		func() interface{} { return &history.Query{} },
		func(p interface{}) Rec {
			q := p.(*history.Query)
			return Rec{"id": SN(q.ID), "with": JN(q.With), "start": TN(q.Start), "end": TN(q.End), "beforeid": SN(q.BeforeID),
				"afterid": SN(q.AfterID), "ids": strNames(q.IDs), "limit": un(q.Limit), "last": q.Last, "pageid": SN(q.PageID),
				"reverse": q.Reverse}
		})
	std("history.result",
		func(v Rec) interface{} {
			return &history.Result{Complete: boolean(v["complete"]), Unstable: boolean(v["unstable"]), Set: pagingSetOf(rec(v["set"]))}
		},
		func() interface{} { return &history.Result{} },
		func(p interface{}) Rec {
			r := p.(*history.Result)
			return Rec{"complete": r.Complete, "unstable": r.Unstable, "set": projPagingSet(r.Set)}
		})

	// ---------------------------------------------------------------- commands
	std("commands.command",
		func(v Rec) interface{} {
			return commands.Command{JID: J(v["jid"]), Action: S(v["action"]), Name: S(v["name"]), Node: S(v["node"]), SID: S(v["sid"])}
		},
		func() interface{} { return &commands.Command{} },
		func(p interface{}) Rec {
			c := p.(*commands.Command)
			return Rec{"jid": JN(c.JID), "action": SN(c.Action), "name": SN(c.Name), "node": SN(c.Node), "sid": SN(c.SID)}
		})
	std("commands.actions",
		func(v Rec) interface{} { return commands.Actions(uint8(IU(v["bits"]))) },
		func() interface{} { a := commands.Actions(0); return &a },
		func(p interface{}) Rec { return Rec{"bits": un(uint64(*p.(*commands.Actions)))} })
	encOnly("commands.response", func(v Rec) interface{} {
		return commands.Response{IQ: smallIQ(rec(v["iq"])), Node: S(v["node"]), SID: S(v["sid"]), Status: S(v["status"])}
	})
}

// ---------------------------------------------------------------- data forms (as a codec value)

// buildForm builds a form through the public constructors from
// [kind: "form"|"result"|"cancel", title, instr, fields: Seq([ft, var, label, desc, req, vals, opts])].
func buildForm(v Rec) *form.Data {
	if str(v["kind"]) == "cancel" {
		return form.Cancel(S(v["title"]), S(v["instr"]))
	}
	var fs []form.Field
	if str(v["kind"]) == "result" {
		fs = append(fs, form.Result)
	}
	if S(v["title"]) != "" {
		fs = append(fs, form.Title(S(v["title"])))
	}
	if S(v["instr"]) != "" {
		fs = append(fs, form.Instructions(S(v["instr"])))
	}
	for _, x := range list(v["fields"]) {
		fs = append(fs, fieldOf(rec(x)))
	}
	return form.New(fs...)
}

func fieldOf(f Rec) form.Field {
	var opts []form.Option
	if S(f["label"]) != "" {
		opts = append(opts, form.Label(S(f["label"])))
	}
	if S(f["desc"]) != "" {
		opts = append(opts, form.Desc(S(f["desc"])))
	}
	if boolean(f["req"]) {
		opts = append(opts, form.Required)
	}
	for _, x := range list(f["vals"]) {
		opts = append(opts, form.Value(S(x)))
	}
	for _, x := range list(f["opts"]) {
		opts = append(opts, form.ListItem(S(rec(x)["label"]), S(rec(x)["value"])))
	}
	id := S(f["var"])
	switch str(f["ft"]) {
	case "boolean":
		return form.Boolean(id, opts...)
	case "fixed":
		return form.Fixed(opts...)
	case "hidden":
		return form.Hidden(id, opts...)
	case "jid-multi":
		return form.JIDMulti(id, opts...)
	case "jid-single":
		return form.JID(id, opts...)
	case "list-multi":
		return form.ListMulti(id, opts...)
	case "list-single":
		return form.List(id, opts...)
	case "text-multi":
		return form.TextMulti(id, opts...)
	case "text-private":
		return form.TextPrivate(id, opts...)
	case "text-single":
		return form.Text(id, opts...)
	}
	panic("driver: unknown field type " + str(f["ft"]))
}

// projForm projects a form through its public accessors; the form's type is not exported
// and is read from the start element of its own encoding.
func projForm(d *form.Data) Rec {
	kind := "?"
	if toks, err := readTokens(d.TokenReader()); err == nil && len(toks) > 0 {
		if s, ok := toks[0].(xml.StartElement); ok {
			for _, a := range s.Attr {
				if a.Name.Local == "type" {
					kind = a.Value
				}
			}
		}
	}
	fields := []interface{}{}
	d.ForFields(func(f form.FieldData) {
		opts := []interface{}{}
		// options of unnamed fields cannot be looked up (only fixed fields have no name)
		if o, ok := d.GetOptions(f.Var); ok && f.Var != "" {
			for _, x := range o {
				opts = append(opts, Rec{"label": SN(x.Label), "value": SN(x.Value)})
			}
		}
		fields = append(fields, Rec{"ft": string(f.Type), "var": SN(f.Var), "label": SN(f.Label), "desc": SN(f.Desc),
			"req": f.Required, "vals": strNames(f.Raw), "opts": opts})
	})
	return Rec{"kind": kind, "title": SN(d.Title()), "instr": SN(d.Instructions()), "fields": fields}
}

func init() {
	std("form",
		func(v Rec) interface{} { return buildForm(v) },
		func() interface{} { return &form.Data{} },
		func(p interface{}) Rec { return projForm(p.(*form.Data)) })
}
