// Command codec is the driver of the codec family (C13, C19).
//
//	codec run <symbols.json> <vectors.ndjson> <obs.ndjson> <tls.ndjson>
//
// For every abstract value emitted by TLC (tla/EmitCodec.tla) it builds the Go value,
// runs every encoder of the type (xml.Marshal, TokenReader, WriteXML, Wrap ...), turns
// every encoding into an abstract token list, decodes every encoding with every decoder
// (xml.Unmarshal, token decoder, NewIQ, UnmarshalError ...), projects the results back to
// abstract records and writes ONE observation line per value.  Distinct abstract token
// lists are written once to tls.ndjson and referenced by number.  The driver decides
// nothing: tla/TrCodec.tla evaluates the laws (WellFormed, PathsAgree, RoundTrip, helper
// expectations) on these lines.  Panics of library code are caught and recorded.
package main

import (
	"encoding/json"
	"fmt"
	"os"
	"sort"
	"time"
)

func fail(f string, a ...interface{}) {
	fmt.Fprintf(os.Stderr, f+"\n", a...)
	os.Exit(2)
}

func main() {
	if len(os.Args) < 2 {
		fail("usage: codec run|form|shapes ...")
	}
	switch os.Args[1] {
	case "run":
		if len(os.Args) != 6 {
			fail("usage: codec run <symbols.json> <vectors.ndjson> <obs.ndjson> <tls.ndjson>")
		}
		cmdRun(os.Args[2], os.Args[3], os.Args[4], os.Args[5])
	default:
		if f, ok := subcommands[os.Args[1]]; ok {
			f(os.Args[2:])
			return
		}
		fail("unknown command %s", os.Args[1])
	}
}

var subcommands = map[string]func(args []string){}

func cmdRun(symf, vecf, obsf, tlf string) {
	if err := loadSymbols(symf); err != nil {
		fail("symbols: %v", err)
	}
	out, err := newLineWriter(obsf)
	if err != nil {
		fail("%v", err)
	}
	perType := map[string]int{}
	samples := []interface{}{}
	sampled := map[string]int{}
	panics := 0
	unknown := map[string]int{}
	err = readVectors(vecf, func(line int, ty string, v Rec, raw Rec) error {
		ad, ok := adapters[ty]
		if !ok {
			unknown[ty]++
			return nil
		}
		o := &Obs{Ev: "obs", Ty: ty, V: v, Enc: []EncObs{}, Dec: []DecObs{}}
		// watchdog: a decoder or token reader of the library that does not return
		done := make(chan struct{})
		go func() { defer close(done); ad(v, o) }()
		select {
		case <-done:
		case <-time.After(120 * time.Second): // generous: the machine may be heavily loaded; a stall is "undecided", never a verdict
			vb, _ := json.Marshal(v)
			fail("STALL: no result after 120s for %s %s", ty, vb)
		}
		if os.Getenv("CODEC_RAW") == "1" {
			o.Raw = map[string]string{}
			for p, b := range o.bytes {
				o.Raw[p] = string(b)
			}
		}
		out.put(o)
		perType[ty]++
		for _, e := range o.Enc {
			if len(e.Err) > 5 && e.Err[:5] == "panic" {
				panics++
			}
		}
		for _, d := range o.Dec {
			if len(d.Err) > 5 && d.Err[:5] == "panic" {
				panics++
			}
		}
		// a few samples per type, taken deep in the set (more fields non-trivial)
		if sampled[ty] < 1 && line%97 == 42 {
			sampled[ty]++
			enc := map[string]string{}
			for p, b := range o.bytes {
				enc[p] = string(b)
				if len(b) > 600 {
					enc[p] = string(b[:600]) + fmt.Sprintf(" ... (%d bytes)", len(b))
				}
			}
			samples = append(samples, Rec{"ty": ty, "v": v, "encodings": enc, "decoded": o.Dec})
		}
		return nil
	})
	if err != nil {
		fail("%v", err)
	}
	out.close()
	tw, err := newLineWriter(tlf)
	if err != nil {
		fail("%v", err)
	}
	for i, l := range tls.lists {
		tw.put(Rec{"ev": "tl", "id": i + 1, "toks": l})
	}
	tw.close()
	types := []string{}
	for t := range perType {
		types = append(types, t)
	}
	sort.Strings(types)
	if len(samples) > 3 {
		samples = samples[:3]
	}
	b, _ := json.Marshal(Rec{"values": out.n, "token_lists": len(tls.lists), "per_type": perType, "types": types,
		"panics": panics, "unknown_types": unknown, "samples": samples})
	fmt.Printf("SUMMARY %s\n", b)
}
