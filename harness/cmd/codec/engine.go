package main

import (
	"bufio"
	"bytes"
	"encoding/json"
	"encoding/xml"
	"fmt"
	"io"
	"os"
	"runtime/debug"
	"strings"

	"mellium.im/xmlstream"
)

// ---------------------------------------------------------------- abstract tokens

// Tok is an abstract token: k = "s" start (n name, a attribute names), "e" end (n),
// "t" character data, "o" comment / processing instruction / directive,
// "bad" = the tokenizer could not go on (syntax error in the bytes, nil token ...).
type Tok struct {
	K string   `json:"k"`
	N string   `json:"n"`
	A []string `json:"a"`
}

func qname(n xml.Name) string {
	if n.Space == "" {
		return n.Local
	}
	return n.Space + " " + n.Local
}

func absTok(t xml.Token) Tok {
	switch x := t.(type) {
	case xml.StartElement:
		a := make([]string, 0, len(x.Attr))
		for _, at := range x.Attr {
			a = append(a, qname(at.Name))
		}
		return Tok{K: "s", N: qname(x.Name), A: a}
	case xml.EndElement:
		return Tok{K: "e", N: qname(x.Name), A: []string{}}
	case xml.CharData:
		return Tok{K: "t", A: []string{}}
	case xml.Comment, xml.ProcInst, xml.Directive:
		return Tok{K: "o", A: []string{}}
	}
	return Tok{K: "bad", N: fmt.Sprintf("%T", t), A: []string{}}
}

// rawTokens tokenizes bytes WITHOUT checking that tags match and without resolving
// prefixes (names are the qualified names as written), so that the balance of the
// stream is decided by the specification's automaton and not by this tokenizer.
// Empty character data tokens are dropped (the tokenizer never produces them).
func rawTokens(b []byte) []Tok {
	d := xml.NewDecoder(bytes.NewReader(b))
	out := []Tok{}
	for len(out) < maxTokens {
		t, err := d.RawToken()
		if err == io.EOF {
			return out
		}
		if err != nil {
			return append(out, Tok{K: "bad", N: "syntax", A: []string{}})
		}
		if x, ok := t.(xml.StartElement); ok {
			// raw names: Space is the prefix
			a := make([]string, 0, len(x.Attr))
			for _, at := range x.Attr {
				a = append(a, rawName(at.Name))
			}
			out = append(out, Tok{K: "s", N: rawName(x.Name), A: a})
			continue
		}
		if x, ok := t.(xml.EndElement); ok {
			out = append(out, Tok{K: "e", N: rawName(x.Name), A: []string{}})
			continue
		}
		out = append(out, absTok(t))
	}
	return append(out, Tok{K: "bad", N: "runaway", A: []string{}})
}

func rawName(n xml.Name) string {
	if n.Space == "" {
		return n.Local
	}
	return n.Space + ":" + n.Local
}

// strictParse reports whether encoding/xml's strict decoder reads b to the end.
func strictParse(b []byte) bool {
	d := xml.NewDecoder(bytes.NewReader(b))
	for i := 0; i < maxTokens; i++ {
		_, err := d.Token()
		if err == io.EOF {
			return true
		}
		if err != nil {
			return false
		}
	}
	return false
}

const maxTokens = 20000

// readTokens drains a token reader (copying the tokens), with a runaway guard.
func readTokens(r xml.TokenReader) (toks []xml.Token, err error) {
	if r == nil {
		return nil, nil
	}
	for len(toks) < maxTokens {
		t, e := r.Token()
		if t != nil {
			toks = append(toks, xml.CopyToken(t))
		}
		if e == io.EOF {
			return toks, nil
		}
		if e != nil {
			return toks, e
		}
		if t == nil {
			return toks, fmt.Errorf("token reader returned nil, nil")
		}
	}
	return toks, fmt.Errorf("token reader did not end after %d tokens", maxTokens)
}

func absToks(toks []xml.Token) []Tok {
	out := make([]Tok, 0, len(toks))
	for _, t := range toks {
		if c, ok := t.(xml.CharData); ok && len(c) == 0 {
			continue // an empty character data token writes nothing
		}
		out = append(out, absTok(t))
	}
	return out
}

// sliceReader replays tokens.
type sliceReader struct {
	toks []xml.Token
	i    int
}

func (s *sliceReader) Token() (xml.Token, error) {
	if s.i >= len(s.toks) {
		return nil, io.EOF
	}
	t := s.toks[s.i]
	s.i++
	return xml.CopyToken(t), nil
}

func replay(toks []xml.Token) xml.TokenReader { return &sliceReader{toks: toks} }

// ---------------------------------------------------------------- observations

// EncObs is one encoding of the value: by which path, the id of its abstract token list
// in the table of distinct lists, whether encoding/xml's strict parser accepts the bytes
// (true for token paths), and the error / panic text ("" = none).
type EncObs struct {
	P      string `json:"p"`
	TL     int    `json:"tl"`
	Strict bool   `json:"strict"`
	Err    string `json:"err"`
	// F classifies Err for the specification: "" none, "error" the call returned an error, "panic"
	F string `json:"f"`
}

// failKind classifies the text returned by guard.
func failKind(msg string) string {
	switch {
	case msg == "":
		return ""
	case strings.HasPrefix(msg, "panic"):
		return "panic"
	}
	return "error"
}

// DecObs is one decoded view: path "encoder/decoder", the name of the specification's
// expectation it has to equal ("norm", "result", "errreply", ...), the projection.
type DecObs struct {
	P   string `json:"p"`
	Exp string `json:"exp"`
	Val Rec    `json:"val"`
	Err string `json:"err"`
	F   string `json:"f"` // as EncObs.F
}

// Obs is everything observed for one abstract value.
type Obs struct {
	Ev  string   `json:"ev"`
	Ty  string   `json:"ty"`
	V   Rec      `json:"v"`
	Enc []EncObs `json:"enc"`
	Dec []DecObs `json:"dec"`

	// Raw: the encodings as text; written only with CODEC_RAW=1 (replay files, samples)
	Raw map[string]string `json:"raw,omitempty"`

	bytes map[string][]byte // encodings kept for samples / replay files
}

type tlTable struct {
	ids   map[string]int
	lists [][]Tok
}

var tls = tlTable{ids: map[string]int{}}

func (t *tlTable) id(l []Tok) int {
	b, _ := json.Marshal(l)
	k := string(b)
	if id, ok := t.ids[k]; ok {
		return id
	}
	t.lists = append(t.lists, l)
	t.ids[k] = len(t.lists)
	return len(t.lists)
}

// guard runs f; a panic of library code is caught and returned as text.
func guard(f func() error) (msg string) {
	defer func() {
		if r := recover(); r != nil {
			st := string(debug.Stack())
			if strings.Contains(fmt.Sprint(r), "driver:") {
				panic(r) // a bug of the driver itself must not be blamed on the library
			}
			msg = fmt.Sprintf("panic: %v @ %s", r, panicSite(st))
		}
	}()
	if err := f(); err != nil {
		return "error: " + err.Error()
	}
	return ""
}

func panicSite(stack string) string {
	lines := strings.Split(stack, "\n")
	for i, l := range lines {
		if strings.HasPrefix(l, "panic(") {
			for j := i + 2; j < len(lines)-1; j += 2 {
				if strings.Contains(lines[j], "mellium.im/xmpp") {
					return strings.TrimSpace(lines[j]) + " " + strings.TrimSpace(lines[j+1])
				}
			}
		}
	}
	return "?"
}

func (o *Obs) keep(p string, b []byte) {
	if o.bytes == nil {
		o.bytes = map[string][]byte{}
	}
	o.bytes[p] = b
}

// encBytes records an encoding that produces bytes.
func (o *Obs) encBytes(p string, f func() ([]byte, error)) []byte {
	var b []byte
	msg := guard(func() error {
		var err error
		b, err = f()
		return err
	})
	o.Enc = append(o.Enc, EncObs{P: p, TL: tls.id(rawTokens(b)), Strict: msg == "" && strictParse(b), Err: msg, F: failKind(msg)})
	o.keep(p, b)
	if msg != "" {
		return nil
	}
	return b
}

// encTokens records an encoding that produces tokens.
func (o *Obs) encTokens(p string, f func() xml.TokenReader) []xml.Token {
	var toks []xml.Token
	msg := guard(func() error {
		var err error
		toks, err = readTokens(f())
		return err
	})
	o.Enc = append(o.Enc, EncObs{P: p, TL: tls.id(absToks(toks)), Strict: msg == "", Err: msg, F: failKind(msg)})
	if msg != "" {
		return nil
	}
	if toks == nil {
		toks = []xml.Token{} // an encoding of zero tokens is not a failure
	}
	return toks
}

// encWriter records an encoding written to an xml.Encoder (the WriteXML path).
func (o *Obs) encWriter(p string, f func(e *xml.Encoder) error) []byte {
	return o.encBytes(p, func() ([]byte, error) {
		var buf bytes.Buffer
		e := xml.NewEncoder(&buf)
		if err := f(e); err != nil {
			return buf.Bytes(), err
		}
		if err := e.Flush(); err != nil {
			return buf.Bytes(), err
		}
		return buf.Bytes(), nil
	})
}

// dec records one decoded view.
func (o *Obs) dec(p, exp string, f func() (Rec, error)) {
	var r Rec
	msg := guard(func() error {
		var err error
		r, err = f()
		return err
	})
	if r == nil {
		r = Rec{}
	}
	o.Dec = append(o.Dec, DecObs{P: p, Exp: exp, Val: r, Err: msg, F: failKind(msg)})
}

// tokensToBytes writes tokens through encoding/xml's encoder (what a session does).
func tokensToBytes(toks []xml.Token) ([]byte, error) {
	var buf bytes.Buffer
	e := xml.NewEncoder(&buf)
	for _, t := range toks {
		if err := e.EncodeToken(t); err != nil {
			return buf.Bytes(), err
		}
	}
	err := e.Flush()
	return buf.Bytes(), err
}

// Std describes a payload type with the usual trio: Build makes the Go value from the
// abstract record, New returns a pointer to decode into, Proj projects a decoded pointer.
type Std struct {
	Build func(v Rec) interface{}
	New   func() interface{}
	Proj  func(p interface{}) Rec
	// NoUnmarshal: the type has no decoder (one direction only): only the encoding
	// laws apply. NoMarshal: only the decoder exists (handled by the adapter itself).
	NoUnmarshal bool
}

// stdRun applies every encoder the value has and decodes every encoding:
//
//	marshal      xml.Marshal(v)                    -> bytes
//	tokenreader  v.TokenReader()                   -> tokens   (xmlstream.Marshaler)
//	writexml     v.WriteXML(xml.Encoder)           -> bytes    (xmlstream.WriterTo)
//	trbytes      tokens of v.TokenReader() written by an xml.Encoder -> bytes
func stdRun(s Std) func(v Rec, o *Obs) {
	return func(v Rec, o *Obs) {
		// the value is built afresh for every path (some values hold one-shot readers)
		var val interface{}
		if msg := guard(func() error { val = s.Build(v); return nil }); msg != "" {
			o.Enc = append(o.Enc, EncObs{P: "build", TL: tls.id([]Tok{}), Err: msg, F: failKind(msg)})
			return
		}
		decB := func(p string, b []byte) {
			if b == nil || s.NoUnmarshal {
				return
			}
			o.dec(p+"/unmarshal", "norm", func() (Rec, error) {
				ptr := s.New()
				if err := xml.Unmarshal(b, ptr); err != nil {
					return nil, err
				}
				return s.Proj(ptr), nil
			})
		}
		decB("marshal", o.encBytes("marshal", func() ([]byte, error) { return xml.Marshal(val) }))
		val = s.Build(v)
		if m, ok := val.(xmlstream.Marshaler); ok {
			toks := o.encTokens("tokenreader", func() xml.TokenReader { return m.TokenReader() })
			if toks != nil && !s.NoUnmarshal {
				o.dec("tokenreader/decode", "norm", func() (Rec, error) {
					ptr := s.New()
					if err := xml.NewTokenDecoder(replay(toks)).Decode(ptr); err != nil {
						return nil, err
					}
					return s.Proj(ptr), nil
				})
			}
			if toks != nil {
				decB("trbytes", o.encBytes("trbytes", func() ([]byte, error) { return tokensToBytes(toks) }))
			}
		}
		val = s.Build(v)
		if w, ok := val.(xmlstream.WriterTo); ok {
			decB("writexml", o.encWriter("writexml", func(e *xml.Encoder) error { _, err := w.WriteXML(e); return err }))
		}
	}
}

// ---------------------------------------------------------------- files

type adapter func(v Rec, o *Obs)

var adapters = map[string]adapter{}

func readVectors(path string, each func(line int, ty string, v Rec, raw Rec) error) error {
	f, err := os.Open(path)
	if err != nil {
		return err
	}
	defer f.Close()
	sc := bufio.NewScanner(f)
	sc.Buffer(make([]byte, 1<<20), 1<<26)
	n := 0
	for sc.Scan() {
		if len(bytes.TrimSpace(sc.Bytes())) == 0 {
			continue
		}
		n++
		var r Rec
		if err := json.Unmarshal(sc.Bytes(), &r); err != nil {
			return fmt.Errorf("%s:%d: %v", path, n, err)
		}
		if err := each(n, str(r["ty"]), rec(r["v"]), r); err != nil {
			return err
		}
	}
	return sc.Err()
}

type lineWriter struct {
	f *os.File
	w *bufio.Writer
	n int
}

func newLineWriter(path string) (*lineWriter, error) {
	f, err := os.Create(path)
	if err != nil {
		return nil, err
	}
	return &lineWriter{f: f, w: bufio.NewWriterSize(f, 1<<20)}, nil
}

func (l *lineWriter) put(v interface{}) {
	b, err := json.Marshal(v)
	if err != nil {
		panic(err)
	}
	l.w.Write(b)
	l.w.WriteByte('\n')
	l.n++
}

func (l *lineWriter) close() {
	l.w.Flush()
	l.f.Close()
}
