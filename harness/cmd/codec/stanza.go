package main

import (
	"bytes"
	"encoding/xml"
	"fmt"
	"sort"

	"mellium.im/xmlstream"
	"mellium.im/xmpp/stanza"
	"mellium.im/xmpp/stream"
)

// C13: adapters for stanza.IQ / Message / Presence / stanza.Error / stream.Error and the
// wrapping helpers. Abstract records as in tla/Stanza.tla.

func init() {
	adapters["iq"] = func(v Rec, o *Obs) { runStanza("iq", v, o) }
	adapters["message"] = func(v Rec, o *Obs) { runStanza("message", v, o) }
	adapters["presence"] = func(v Rec, o *Obs) { runStanza("presence", v, o) }
	adapters["iq.help"] = func(v Rec, o *Obs) { runHelpers("iq", v, o) }
	adapters["message.help"] = func(v Rec, o *Obs) { runHelpers("message", v, o) }
	adapters["presence.help"] = func(v Rec, o *Obs) { runHelpers("presence", v, o) }
	adapters["stanzaerror"] = runStanzaError
	adapters["streamerror"] = runStreamError
}

// stanzaOps gives uniform access to the three stanza kinds.
type stanzaOps struct {
	val     interface{}
	start   func() xml.StartElement
	wrap    func(xml.TokenReader) xml.TokenReader
	result  func(xml.TokenReader) xml.TokenReader // nil except for IQ
	errorOf func(stanza.Error) xml.TokenReader
}

func buildStanza(kind string, v Rec) stanzaOps {
	name := xml.Name{Space: str(v["ns"]), Local: kind}
	switch kind {
	case "iq":
		x := stanza.IQ{XMLName: name, ID: S(v["id"]), To: J(v["to"]), From: J(v["from"]), Lang: S(v["lang"]), Type: stanza.IQType(str(v["type"]))}
		return stanzaOps{val: x, start: x.StartElement, wrap: x.Wrap, result: x.Result, errorOf: x.Error}
	case "message":
		x := stanza.Message{XMLName: name, ID: S(v["id"]), To: J(v["to"]), From: J(v["from"]), Lang: S(v["lang"]), Type: stanza.MessageType(str(v["type"]))}
		return stanzaOps{val: x, start: x.StartElement, wrap: x.Wrap, errorOf: x.Error}
	case "presence":
		x := stanza.Presence{XMLName: name, ID: S(v["id"]), To: J(v["to"]), From: J(v["from"]), Lang: S(v["lang"]), Type: stanza.PresenceType(str(v["type"]))}
		return stanzaOps{val: x, start: x.StartElement, wrap: x.Wrap, errorOf: x.Error}
	}
	panic("driver: unknown stanza kind " + kind)
}

func projIQ(x stanza.IQ) Rec {
	return Rec{"ns": x.XMLName.Space, "local": x.XMLName.Local, "id": SN(x.ID), "to": JN(x.To), "from": JN(x.From), "lang": SN(x.Lang), "type": string(x.Type)}
}
func projMessage(x stanza.Message) Rec {
	return Rec{"ns": x.XMLName.Space, "local": x.XMLName.Local, "id": SN(x.ID), "to": JN(x.To), "from": JN(x.From), "lang": SN(x.Lang), "type": string(x.Type)}
}
func projPresence(x stanza.Presence) Rec {
	return Rec{"ns": x.XMLName.Space, "local": x.XMLName.Local, "id": SN(x.ID), "to": JN(x.To), "from": JN(x.From), "lang": SN(x.Lang), "type": string(x.Type)}
}

// unmarshalStanza decodes with encoding/xml into the struct.
func unmarshalStanza(kind string, d *xml.Decoder) (Rec, error) {
	switch kind {
	case "iq":
		var x stanza.IQ
		err := d.Decode(&x)
		return projIQ(x), err
	case "message":
		var x stanza.Message
		err := d.Decode(&x)
		return projMessage(x), err
	default:
		var x stanza.Presence
		err := d.Decode(&x)
		return projPresence(x), err
	}
}

// newStanza parses a start element with the exported NewIQ / NewMessage / NewPresence.
func newStanza(kind string, start xml.StartElement) (Rec, error) {
	switch kind {
	case "iq":
		x, err := stanza.NewIQ(start)
		return projIQ(x), err
	case "message":
		x, err := stanza.NewMessage(start)
		return projMessage(x), err
	default:
		x, err := stanza.NewPresence(start)
		return projPresence(x), err
	}
}

// streamDecoder decodes bytes as a session would: inside a stream whose default namespace
// is the stanza's own (xml.Marshal of a stanza struct writes no xmlns of its own - the
// struct tag `xml:"iq"` takes precedence over XMLName.Space - and relies on the stream's).
func streamDecoder(b []byte, ns string) *xml.Decoder {
	d := xml.NewDecoder(bytes.NewReader(b))
	d.DefaultSpace = ns
	return d
}

func firstStart(b []byte, ns string) (xml.StartElement, error) {
	d := streamDecoder(b, ns)
	for {
		t, err := d.Token()
		if err != nil {
			return xml.StartElement{}, err
		}
		if s, ok := t.(xml.StartElement); ok {
			return s.Copy(), nil
		}
	}
}

func startOf(toks []xml.Token) (xml.StartElement, error) {
	if len(toks) == 0 {
		return xml.StartElement{}, fmt.Errorf("no tokens")
	}
	s, ok := toks[0].(xml.StartElement)
	if !ok {
		return xml.StartElement{}, fmt.Errorf("first token is %T", toks[0])
	}
	return s, nil
}

func runStanza(kind string, v Rec, o *Obs) {
	var ops stanzaOps
	if msg := guard(func() error { ops = buildStanza(kind, v); return nil }); msg != "" {
		o.Enc = append(o.Enc, EncObs{P: "build", TL: tls.id([]Tok{}), Err: msg, F: failKind(msg)})
		return
	}
	// path 1: the standard marshaller
	if b := o.encBytes("marshal", func() ([]byte, error) { return xml.Marshal(ops.val) }); b != nil {
		o.dec("marshal/unmarshal", "norm", func() (Rec, error) { return unmarshalStanza(kind, streamDecoder(b, str(v["ns"]))) })
		o.dec("marshal/new", "norm", func() (Rec, error) {
			s, err := firstStart(b, str(v["ns"]))
			if err != nil {
				return nil, err
			}
			return newStanza(kind, s)
		})
	}
	// path 2: StartElement / Wrap as tokens
	if toks := o.encTokens("wrap", func() xml.TokenReader { return ops.wrap(nil) }); toks != nil {
		o.dec("wrap/decode", "norm", func() (Rec, error) { return unmarshalStanza(kind, xml.NewTokenDecoder(replay(toks))) })
		o.dec("wrap/new", "norm", func() (Rec, error) {
			s, err := startOf(toks)
			if err != nil {
				return nil, err
			}
			return newStanza(kind, s)
		})
		// path 3: the same tokens as an xml.Encoder writes them (the wire form)
		if b := o.encBytes("wrapbytes", func() ([]byte, error) { return tokensToBytes(toks) }); b != nil {
			o.dec("wrapbytes/unmarshal", "norm", func() (Rec, error) { return unmarshalStanza(kind, streamDecoder(b, str(v["ns"]))) })
			o.dec("wrapbytes/new", "norm", func() (Rec, error) {
				s, err := firstStart(b, str(v["ns"]))
				if err != nil {
					return nil, err
				}
				return newStanza(kind, s)
			})
		}
	}
	// start-element conversion is the inverse of start-element parsing
	o.dec("start/new", "norm", func() (Rec, error) { return newStanza(kind, ops.start()) })
}

// ---------------------------------------------------------------- payloads of the helpers

const nsVT = "urn:vt:payload"

// payloadTokens returns the tokens of a payload symbol (fresh each call).
func payloadTokens(symb string) []xml.Token {
	x := xml.Name{Space: nsVT, Local: "x"}
	y := xml.Name{Space: nsVT + ":y", Local: "y"}
	switch symb {
	case "P_none":
		return nil
	case "P_elem":
		return []xml.Token{xml.StartElement{Name: x, Attr: []xml.Attr{}}, xml.EndElement{Name: x}}
	case "P_text":
		return []xml.Token{
			xml.StartElement{Name: x, Attr: []xml.Attr{{Name: xml.Name{Local: "a"}, Value: S("S_xml")}}},
			xml.CharData(S("S_xml") + S("S_uni")),
			xml.EndElement{Name: x}}
	case "P_nested":
		return []xml.Token{
			xml.StartElement{Name: x, Attr: []xml.Attr{}},
			xml.StartElement{Name: y, Attr: []xml.Attr{{Name: xml.Name{Space: "http://www.w3.org/XML/1998/namespace", Local: "lang"}, Value: "en"}}},
			xml.CharData(S("S_ml")),
			xml.EndElement{Name: y},
			xml.StartElement{Name: x, Attr: []xml.Attr{}}, xml.EndElement{Name: x},
			xml.EndElement{Name: x}}
	case "P_errdeep":
		item := xml.Name{Space: nsVT, Local: "item"}
		own := xml.Name{Space: nsVT, Local: "error"}
		se := xml.Name{Space: stanza.NSClient, Local: "error"}
		cond := xml.Name{Space: "urn:ietf:params:xml:ns:xmpp-stanzas", Local: "bad-request"}
		return []xml.Token{
			xml.StartElement{Name: x, Attr: []xml.Attr{}},
			xml.StartElement{Name: item, Attr: []xml.Attr{}},
			xml.StartElement{Name: own, Attr: []xml.Attr{}}, xml.CharData("7"), xml.EndElement{Name: own},
			xml.StartElement{Name: se, Attr: []xml.Attr{{Name: xml.Name{Local: "type"}, Value: "modify"}}},
			xml.StartElement{Name: cond, Attr: []xml.Attr{}}, xml.EndElement{Name: cond},
			xml.EndElement{Name: se},
			xml.EndElement{Name: item},
			xml.EndElement{Name: x}}
	}
	panic("driver: unknown payload symbol " + symb)
}

var payloadSyms = []string{"P_none", "P_elem", "P_text", "P_nested", "P_errdeep"}

// canonTokens renders tokens canonically (names, sorted attributes with values, text).
func canonTokens(toks []xml.Token) string {
	var b bytes.Buffer
	for _, t := range toks {
		switch x := t.(type) {
		case xml.StartElement:
			at := []string{}
			for _, a := range x.Attr {
				if a.Name.Local == "xmlns" || a.Name.Space == "xmlns" {
					continue
				}
				at = append(at, fmt.Sprintf("%q=%q", qname(a.Name), a.Value))
			}
			sort.Strings(at)
			fmt.Fprintf(&b, "<%q %v>", qname(x.Name), at)
		case xml.EndElement:
			fmt.Fprintf(&b, "</%q>", qname(x.Name))
		case xml.CharData:
			if len(x) > 0 {
				fmt.Fprintf(&b, "T%q", string(x))
			}
		default:
			fmt.Fprintf(&b, "O%T", t)
		}
	}
	return b.String()
}

// payloadName projects tokens to the payload symbol with the same canonical form.
func payloadName(toks []xml.Token) string {
	c := canonTokens(toks)
	for _, n := range payloadSyms {
		if canonTokens(payloadTokens(n)) == c {
			return n
		}
	}
	return "?" + fmt.Sprintf("%+q", c)
}

// inner returns the tokens between the first start element and its end element.
func inner(toks []xml.Token) ([]xml.Token, error) {
	if len(toks) < 2 {
		return nil, fmt.Errorf("fewer than two tokens")
	}
	if _, ok := toks[0].(xml.StartElement); !ok {
		return nil, fmt.Errorf("first token %T", toks[0])
	}
	if _, ok := toks[len(toks)-1].(xml.EndElement); !ok {
		return nil, fmt.Errorf("last token %T", toks[len(toks)-1])
	}
	return toks[1 : len(toks)-1], nil
}

// appTokens returns the tokens of an application-specific condition [space, local] of an error whose
// own namespace is own (tla/Stanza.tla): nil for NoApp, the payload P_text for the ordinary name
// urn:vt:payload x; any other name is an element with an attribute, character data and a nested
// <text/> child in the error's OWN namespace (fresh each call).
func appTokens(app Rec, own string) []xml.Token {
	space, local := str(app["space"]), str(app["local"])
	switch {
	case local == "":
		return nil
	case space == nsVT && local == "x":
		return payloadTokens("P_text")
	}
	n := xml.Name{Space: space, Local: local}
	t := xml.Name{Space: own, Local: "text"}
	return []xml.Token{
		xml.StartElement{Name: n, Attr: []xml.Attr{{Name: xml.Name{Local: "a"}, Value: S("S_xml")}}},
		xml.CharData(S("S_xml") + S("S_uni")),
		xml.StartElement{Name: t, Attr: []xml.Attr{{Name: xml.Name{Space: "http://www.w3.org/XML/1998/namespace", Local: "lang"}, Value: "en"}}},
		xml.CharData(S("S_a")),
		xml.EndElement{Name: t},
		xml.EndElement{Name: n}}
}

func appReader(app Rec, own string) xml.TokenReader {
	t := appTokens(app, own)
	if t == nil {
		return nil
	}
	return replay(t)
}

func payloadReader(symb string) xml.TokenReader {
	t := payloadTokens(symb)
	if t == nil {
		return nil
	}
	return replay(t)
}

// runHelpers: value = [st: stanza record, pl: payload symbol, er: stanza error record].
func runHelpers(kind string, v Rec, o *Obs) {
	st, pl, er := rec(v["st"]), str(v["pl"]), rec(v["er"])
	ops := buildStanza(kind, st)
	serr := buildStanzaError(er)
	view := func(p, expStart string, toks []xml.Token) {
		o.dec(p+"/new", expStart, func() (Rec, error) {
			s, err := startOf(toks)
			if err != nil {
				return nil, err
			}
			return newStanza(kind, s)
		})
	}
	// Wrap keeps kind and payload
	if toks := o.encTokens("wrap", func() xml.TokenReader { return ops.wrap(payloadReader(pl)) }); toks != nil {
		view("wrap", "st", toks)
		o.dec("wrap/inner", "payload", func() (Rec, error) {
			in, err := inner(toks)
			if err != nil {
				return nil, err
			}
			return Rec{"pl": payloadName(in)}, nil
		})
		if b := o.encBytes("wrapbytes", func() ([]byte, error) { return tokensToBytes(toks) }); b != nil {
			o.dec("wrapbytes/inner", "payload", func() (Rec, error) {
				all, err := readTokens(xml.NewDecoder(bytes.NewReader(b)))
				if err != nil {
					return nil, err
				}
				in, err := inner(all)
				if err != nil {
					return nil, err
				}
				return Rec{"pl": payloadName(in)}, nil
			})
		}
	}
	// Result swaps the addresses and sets the type (IQ only)
	if ops.result != nil {
		if toks := o.encTokens("result", func() xml.TokenReader { return ops.result(payloadReader(pl)) }); toks != nil {
			view("result", "result", toks)
			o.dec("result/inner", "payload", func() (Rec, error) {
				in, err := inner(toks)
				if err != nil {
					return nil, err
				}
				return Rec{"pl": payloadName(in)}, nil
			})
		}
	}
	// Error swaps the addresses, sets the type and carries the error
	if toks := o.encTokens("error", func() xml.TokenReader { return ops.errorOf(serr) }); toks != nil {
		view("error", "errreply", toks)
		o.dec("error/unmarshalerror", "err", func() (Rec, error) {
			in, err := inner(toks)
			if err != nil {
				return nil, err
			}
			e, err := stanza.UnmarshalError(replay(in))
			return projStanzaError(e), err
		})
		if kind == "iq" {
			o.dec("error/unmarshaliqerror", "iqerr", func() (Rec, error) {
				s, err := startOf(toks)
				if err != nil {
					return nil, err
				}
				iq, err := stanza.UnmarshalIQError(replay(toks[1:]), s)
				se, ok := err.(stanza.Error)
				if !ok {
					// a non-error IQ returns (iq, nil); anything else is a failure
					if str(st["type"]) == "" {
						return nil, fmt.Errorf("no stanza error: %v", err)
					}
					return nil, fmt.Errorf("UnmarshalIQError did not return a stanza.Error: %v", err)
				}
				return Rec{"st": projIQ(iq), "er": projStanzaError(se)}, nil
			})
		}
		// the same error stanza with the request's payload echoed in front of the <error/> (RFC 6120 8.3.1), as
		// <stanza>.Wrap(MultiReader(payload, error)) builds it: the helpers find the stanza's OWN error child
		if echo := o.encTokens("errorecho", func() xml.TokenReader {
			all := append([]xml.Token{toks[0]}, payloadTokens(pl)...)
			return replay(append(all, toks[1:]...))
		}); echo != nil {
			o.dec("errorecho/unmarshalerror", "err", func() (Rec, error) {
				in, err := inner(echo)
				if err != nil {
					return nil, err
				}
				e, err := stanza.UnmarshalError(replay(in))
				return projStanzaError(e), err
			})
			o.dec("errorecho/inner", "payload", func() (Rec, error) {
				in, err := inner(echo)
				if err != nil {
					return nil, err
				}
				n := len(payloadTokens(pl))
				if n > len(in) {
					return nil, fmt.Errorf("echoed payload shorter than given")
				}
				return Rec{"pl": payloadName(in[:n])}, nil
			})
			if kind == "iq" {
				o.dec("errorecho/unmarshaliqerror", "iqerr", func() (Rec, error) {
					s, err := startOf(echo)
					if err != nil {
						return nil, err
					}
					iq, err := stanza.UnmarshalIQError(replay(echo[1:]), s)
					se, ok := err.(stanza.Error)
					if !ok {
						return nil, fmt.Errorf("UnmarshalIQError did not return a stanza.Error: %v", err)
					}
					return Rec{"st": projIQ(iq), "er": projStanzaError(se)}, nil
				})
			}
		}
		if b := o.encBytes("errorbytes", func() ([]byte, error) { return tokensToBytes(toks) }); b != nil {
			o.dec("errorbytes/unmarshalerror", "err", func() (Rec, error) {
				d := xml.NewDecoder(bytes.NewReader(b))
				if _, err := d.Token(); err != nil {
					return nil, err
				}
				e, err := stanza.UnmarshalError(xmlstream.Inner(d))
				return projStanzaError(e), err
			})
		}
	}
}

// ---------------------------------------------------------------- stanza.Error

func buildStanzaError(v Rec) stanza.Error {
	e := stanza.Error{By: J(v["by"]), Type: stanza.ErrorType(str(v["type"])), Condition: stanza.Condition(str(v["cond"]))}
	for _, p := range list(v["texts"]) {
		if e.Text == nil {
			e.Text = map[string]string{}
		}
		e.Text[S(rec(p)["lang"])] = S(rec(p)["text"])
	}
	return e
}

func projStanzaError(e stanza.Error) Rec {
	texts := []interface{}{}
	langs := []string{}
	for l := range e.Text {
		langs = append(langs, l)
	}
	sort.Strings(langs)
	for _, l := range langs {
		texts = append(texts, Rec{"lang": SN(l), "text": SN(e.Text[l])})
	}
	return Rec{"by": JN(e.By), "type": string(e.Type), "cond": string(e.Condition), "texts": texts}
}

func runStanzaError(v Rec, o *Obs) {
	s := Std{
		Build: func(v Rec) interface{} { return buildStanzaError(v) },
		New:   func() interface{} { return &stanza.Error{} },
		Proj:  func(p interface{}) Rec { return projStanzaError(*p.(*stanza.Error)) },
	}
	stdRun(s)(v, o)
	// with the application-specific condition element of the value (Wrap)
	e := buildStanzaError(v)
	if toks := o.encTokens("wrapapp", func() xml.TokenReader { return e.Wrap(appReader(rec(v["app"]), stanza.NSError)) }); toks != nil {
		o.dec("wrapapp/decode", "norm", func() (Rec, error) {
			var x stanza.Error
			err := xml.NewTokenDecoder(replay(toks)).Decode(&x)
			return projStanzaError(x), err
		})
		o.dec("wrapapp/unmarshalerror", "norm", func() (Rec, error) {
			x, err := stanza.UnmarshalError(replay(toks))
			return projStanzaError(x), err
		})
		if b := o.encBytes("wrapappbytes", func() ([]byte, error) { return tokensToBytes(toks) }); b != nil {
			o.dec("wrapappbytes/unmarshal", "norm", func() (Rec, error) {
				var x stanza.Error
				err := xml.Unmarshal(b, &x)
				return projStanzaError(x), err
			})
		}
	}
}

// ---------------------------------------------------------------- stream.Error

func buildStreamError(v Rec) stream.Error {
	e := stream.Error{Err: str(v["err"]), Content: S(v["content"])}
	for _, p := range list(v["texts"]) {
		e.Text = append(e.Text, struct {
			Lang  string
			Value string
		}{Lang: S(rec(p)["lang"]), Value: S(rec(p)["text"])})
	}
	if r := appReader(rec(v["app"]), stream.NSError); r != nil {
		// the payload reader is consumed by one encoding: build a fresh value per path
		e = e.ApplicationError(r)
	}
	return e
}

func projStreamError(e stream.Error) Rec {
	texts := []interface{}{}
	for _, t := range e.Text {
		texts = append(texts, Rec{"lang": SN(t.Lang), "text": SN(t.Value)})
	}
	return Rec{"err": e.Err, "content": SN(e.Content), "texts": texts}
}

func runStreamError(v Rec, o *Obs) {
	stdRun(Std{
		Build: func(v Rec) interface{} { return buildStreamError(v) },
		New:   func() interface{} { return &stream.Error{} },
		Proj:  func(p interface{}) Rec { return projStreamError(*p.(*stream.Error)) },
	})(v, o)
}
