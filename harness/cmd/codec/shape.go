package main

import (
	"bytes"
	"encoding/xml"
	"fmt"

	"mellium.im/xmpp/stanza"
	"mellium.im/xmpp/stream"
)

// "Unmarshalling arbitrary XML returns a value or an error": the payload-shape grammar of
// tla/Codec.tla (Shapes) applied to the encoding of a value of each type.  The shaped
// document is offered to the type's decoder as tokens (xml.NewTokenDecoder, what a session
// does) and as bytes (xml.Unmarshal); only a panic (or a decoder that does not return) is a
// failure - an error is an acceptable outcome.
//
// value: [ty, v, shape, k]

func init() {
	adapters["shape"] = runShape
	stds["stanzaerror"] = Std{
		Build: func(v Rec) interface{} { return buildStanzaError(v) },
		New:   func() interface{} { return &stanza.Error{} },
		Proj:  func(p interface{}) Rec { return projStanzaError(*p.(*stanza.Error)) },
	}
	stds["streamerror"] = Std{
		Build: func(v Rec) interface{} { return buildStreamError(v) },
		New:   func() interface{} { return &stream.Error{} },
		Proj:  func(p interface{}) Rec { return projStreamError(*p.(*stream.Error)) },
	}
}

const nsShape = "urn:vt:shape"

func unexpectedChild() []xml.Token {
	u := xml.Name{Space: nsShape, Local: "unexpected"}
	d := xml.Name{Space: nsShape, Local: "deep"}
	return []xml.Token{xml.StartElement{Name: u, Attr: []xml.Attr{{Name: xml.Name{Local: "a"}, Value: "1"}}},
		xml.StartElement{Name: d}, xml.CharData("x"), xml.EndElement{Name: d}, xml.EndElement{Name: u}}
}

// children returns the [start, end) index ranges of the child elements of the root.
func children(toks []xml.Token) [][2]int {
	var out [][2]int
	depth, start := 0, -1
	for i, t := range toks {
		switch t.(type) {
		case xml.StartElement:
			if depth == 1 {
				start = i
			}
			depth++
		case xml.EndElement:
			depth--
			if depth == 1 && start >= 0 {
				out = append(out, [2]int{start, i + 1})
				start = -1
			}
		}
	}
	return out
}

func cloneToks(toks []xml.Token) []xml.Token {
	out := make([]xml.Token, len(toks))
	for i, t := range toks {
		out[i] = xml.CopyToken(t)
		if s, ok := out[i].(xml.StartElement); ok {
			s.Attr = append([]xml.Attr(nil), s.Attr...)
			out[i] = s
		}
	}
	return out
}

// stripNS removes the xmlns attributes the decoder reports (they would be written twice).
func stripNS(toks []xml.Token) []xml.Token {
	for i, t := range toks {
		if s, ok := t.(xml.StartElement); ok {
			var a []xml.Attr
			for _, at := range s.Attr {
				if at.Name.Local == "xmlns" && at.Name.Space == "" || at.Name.Space == "xmlns" {
					continue
				}
				a = append(a, at)
			}
			s.Attr = a
			toks[i] = s
		}
	}
	return toks
}

func splice(toks []xml.Token, at int, ins []xml.Token) []xml.Token {
	out := append([]xml.Token{}, toks[:at]...)
	out = append(out, ins...)
	return append(out, toks[at:]...)
}

// shapeTokens applies one production of the grammar; ok = false if it does not apply
// (e.g. no attribute to damage): the document is then offered unchanged.
func shapeTokens(toks []xml.Token, shape string, k int) []xml.Token {
	toks = cloneToks(toks)
	if len(toks) < 2 {
		return toks
	}
	root := toks[0].(xml.StartElement)
	end := toks[len(toks)-1]
	kids := children(toks)
	setAttr := func(val string) []xml.Token {
		n := 0
		for _, t := range toks {
			if s, ok := t.(xml.StartElement); ok {
				n += len(s.Attr)
			}
		}
		if n == 0 {
			return toks
		}
		idx := k % n
		for i, t := range toks {
			if s, ok := t.(xml.StartElement); ok {
				if idx < len(s.Attr) {
					s.Attr[idx].Value = val
					toks[i] = s
					return toks
				}
				idx -= len(s.Attr)
			}
		}
		return toks
	}
	setText := func(val string) []xml.Token {
		var idxs []int
		for i, t := range toks {
			if _, ok := t.(xml.CharData); ok {
				idxs = append(idxs, i)
			}
		}
		if len(idxs) == 0 {
			// no text anywhere: put text into the k-th child (or the root)
			if len(kids) > 0 {
				c := kids[k%len(kids)]
				return splice(toks, c[0]+1, []xml.Token{xml.CharData(val)})
			}
			return splice(toks, 1, []xml.Token{xml.CharData(val)})
		}
		toks[idxs[k%len(idxs)]] = xml.CharData(val)
		return toks
	}
	switch shape {
	case "same":
		return toks
	case "absent":
		o := xml.Name{Space: "urn:vt:other", Local: "other"}
		return []xml.Token{xml.StartElement{Name: o}, xml.EndElement{Name: o}}
	case "empty":
		return []xml.Token{root, end}
	case "bare":
		root.Attr = nil
		return []xml.Token{root, end}
	case "noattrs":
		root.Attr = nil
		toks[0] = root
		return toks
	case "text":
		return []xml.Token{root, xml.CharData("text"), end}
	case "attr-empty":
		return setAttr("")
	case "attr-nonnumeric":
		return setAttr("x y")
	case "attr-overflow":
		return setAttr("99999999999999999999999999")
	case "attr-negative":
		return setAttr("-1")
	case "text-empty":
		return setText("")
	case "text-nonnumeric":
		return setText("x=y!")
	case "text-overflow":
		return setText("99999999999999999999999999")
	case "child-unexpected":
		switch {
		case k == 1:
			return splice(toks, len(toks)-1, unexpectedChild())
		case k == 2 && len(kids) > 0:
			return splice(toks, kids[0][0]+1, unexpectedChild())
		}
		return splice(toks, 1, unexpectedChild())
	case "nested-copy":
		return splice(toks, 1, cloneToks(toks))
	case "wrong-ns":
		root.Name.Space = "urn:vt:wrong"
		toks[0] = root
		toks[len(toks)-1] = xml.EndElement{Name: root.Name}
		return toks
	case "child-wrong-ns":
		for i := 1; i < len(toks)-1; i++ {
			switch t := toks[i].(type) {
			case xml.StartElement:
				t.Name.Space = "urn:vt:wrong"
				toks[i] = t
			case xml.EndElement:
				t.Name.Space = "urn:vt:wrong"
				toks[i] = t
			}
		}
		return toks
	case "child-dropped":
		if len(kids) == 0 {
			return toks
		}
		c := kids[k%len(kids)]
		return append(append([]xml.Token{}, toks[:c[0]]...), toks[c[1]:]...)
	case "child-emptied":
		if len(kids) == 0 {
			return toks
		}
		c := kids[k%len(kids)]
		return append(append(append([]xml.Token{}, toks[:c[0]+1]...), toks[c[1]-1]), toks[c[1]:]...)
	case "child-doubled":
		if len(kids) == 0 {
			return toks
		}
		c := kids[k%len(kids)]
		return splice(toks, c[1], cloneToks(toks[c[0]:c[1]]))
	case "text-first":
		return splice(toks, 1, []xml.Token{xml.CharData("\n  ")})
	case "comment-first":
		return splice(toks, 1, []xml.Token{xml.Comment(" c ")})
	}
	panic("driver: unknown shape " + shape)
}

func runShape(v Rec, o *Obs) {
	ty, shape := str(v["ty"]), str(v["shape"])
	k := 0
	if f, ok := v["k"].(float64); ok {
		k = int(f)
	}
	s, ok := stds[ty]
	if !ok {
		panic("driver: no decoder registered for " + ty)
	}
	// the well-formed starting point: the type's own encoding of the value
	var base []xml.Token
	if msg := guard(func() error {
		b, err := xml.Marshal(s.Build(rec(v["v"])))
		if err != nil {
			return err
		}
		base, err = readTokens(xml.NewDecoder(bytes.NewReader(b)))
		return err
	}); msg != "" || len(base) < 2 {
		// values that cannot be encoded are the business of the codec laws, not of this grammar
		base = []xml.Token{xml.StartElement{Name: xml.Name{Local: "x"}}, xml.EndElement{Name: xml.Name{Local: "x"}}}
	}
	doc := shapeTokens(stripNS(base), shape, k)
	outcome := func(err error) (Rec, error) {
		if err != nil {
			return Rec{"outcome": "error"}, nil
		}
		return Rec{"outcome": "value"}, nil
	}
	o.dec("tokens/decode", "outcome-tokens", func() (Rec, error) {
		return outcome(xml.NewTokenDecoder(replay(doc)).Decode(s.New()))
	})
	o.dec("bytes/unmarshal", "outcome-bytes", func() (Rec, error) {
		b, err := tokensToBytes(doc)
		if err != nil {
			return nil, fmt.Errorf("driver: shaped document cannot be written: %v", err)
		}
		o.keep("document", b)
		return outcome(xml.Unmarshal(b, s.New()))
	})
}
