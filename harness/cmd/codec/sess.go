package main

import (
	"context"
	"encoding/xml"
	"fmt"
	"io"
	"runtime"
	"sync"

	"mellium.im/xmpp"
	"mellium.im/xmpp/jid"
	"mellium.im/xmpp/stanza"
	"mellium.im/xmpp/stream"

	"verifharness/vt"
)

// C13, "encode.pair": stanzas handed to a session as PLAIN Go values (structs with xml tags and
// no TokenReader / WriteXML of their own) take the token-reader path of internal/marshal:
// Session.Encode, EncodeElement, EncodeIQ, EncodeMessage, EncodePresence and the ...Element
// variants.  What arrives on the wire must decode to what the standard marshaller's output of
// the same value decodes to - also when two such readers are alive at the same time.  The only
// code of the caller that runs inside a transmit call is the transport: the inner call (on a
// second session) is made from inside the first transport write of the outer call.  With a body
// longer than the encoder's buffer that write happens while the outer value's reader is only
// partly consumed.  Everything runs in one goroutine; the phase is pinned to one P so that
// whatever the library caches per P (sync.Pool) is handed out again deterministically.
//
// value: [outer: call, inner: call], call = [ep, kind, type, id, body]   (tla/Stanza.tla)

func init() {
	adapters["encode.pair"] = runEncodePair
}

// plain values: the stanza with a body child, and the body alone (payload of the Element variants)
type iqBody struct {
	stanza.IQ
	Body string `xml:"body"`
}
type messageBody struct {
	stanza.Message
	Body string `xml:"body"`
}
type presenceBody struct {
	stanza.Presence
	Body string `xml:"body"`
}
type bodyEl struct {
	XMLName xml.Name `xml:"body"`
	Text    string   `xml:",chardata"`
}

const sessNS = stanza.NSClient

// call is one transmit call of a scenario, with everything the entry points need.
type call struct {
	ep, kind string
	whole    interface{}      // the stanza with its body as one plain value
	payload  interface{}      // the body as a plain value
	start    xml.StartElement // the stanza's start element
	iq       stanza.IQ
	msg      stanza.Message
	pres     stanza.Presence
}

func buildCall(c Rec) call {
	kind := str(c["kind"])
	st := Rec{"ns": sessNS, "id": c["id"], "to": "J_fullx", "from": "J_zero", "lang": "S_empty", "type": c["type"]}
	ops := buildStanza(kind, st)
	out := call{ep: str(c["ep"]), kind: kind, payload: bodyEl{Text: S(c["body"])}, start: ops.start()}
	switch x := ops.val.(type) {
	case stanza.IQ:
		out.iq, out.whole = x, iqBody{IQ: x, Body: S(c["body"])}
	case stanza.Message:
		out.msg, out.whole = x, messageBody{Message: x, Body: S(c["body"])}
	case stanza.Presence:
		out.pres, out.whole = x, presenceBody{Presence: x, Body: S(c["body"])}
	}
	return out
}

// transmit makes the call on s.
func (c call) transmit(s *xmpp.Session) error {
	ctx := context.Background()
	var err error
	var resp io.Closer
	switch c.ep {
	case "Encode":
		err = s.Encode(ctx, c.whole)
	case "EncodeElement":
		err = s.EncodeElement(ctx, c.whole, c.start)
	case "EncodeIQ":
		resp, err = closer(s.EncodeIQ(ctx, c.whole))
	case "EncodeIQElement":
		resp, err = closer(s.EncodeIQElement(ctx, c.payload, c.iq))
	case "EncodeMessage":
		resp, err = closer(s.EncodeMessage(ctx, c.whole))
	case "EncodeMessageElement":
		resp, err = closer(s.EncodeMessageElement(ctx, c.payload, c.msg))
	case "EncodePresence":
		resp, err = closer(s.EncodePresence(ctx, c.whole))
	case "EncodePresenceElement":
		resp, err = closer(s.EncodePresenceElement(ctx, c.payload, c.pres))
	default:
		panic("driver: unknown entry point " + c.ep)
	}
	if resp != nil {
		resp.Close()
	}
	return err
}

func closer(r io.Closer, err error) (io.Closer, error) {
	if err != nil || r == nil {
		return nil, err
	}
	return r, err
}

// nopNegotiator reads the peer's stream header and declares the session ready.
func nopNegotiator(ns string) xmpp.Negotiator {
	return func(ctx context.Context, in, out *stream.Info, s *xmpp.Session, data interface{}) (xmpp.SessionState, io.ReadWriter, interface{}, error) {
		rc := s.TokenReader()
		defer rc.Close()
		for {
			tok, err := rc.Token()
			if err != nil {
				return 0, nil, nil, err
			}
			if st, ok := tok.(xml.StartElement); ok {
				if err := in.FromStartElement(st); err != nil {
					return 0, nil, nil, err
				}
				break
			}
		}
		out.XMLNS = ns
		return xmpp.Ready, nil, nil, nil
	}
}

func newPlainSession() (*xmpp.Session, *vt.Conn, error) {
	conn := vt.NewConn()
	conn.FeedString(fmt.Sprintf(`<stream:stream from="example.net" to="me@example.net" id="s1" version="1.0" xmlns="%s" xmlns:stream="http://etherx.jabber.org/streams">`, sessNS))
	s, err := xmpp.NewSession(context.Background(), jid.MustParse("example.net"), jid.MustParse("me@example.net/r"), conn, 0, nopNegotiator(sessNS))
	return s, conn, err
}

var pinMu sync.Mutex

// decodeSent decodes the one element a session wrote, inside a stream of the session's namespace:
// the stanza as the library's own type, its body child, and nothing after the element.
func decodeSent(kind string, b []byte) (Rec, error) {
	st, err := unmarshalStanza(kind, streamDecoder(b, sessNS))
	if err != nil {
		return nil, err
	}
	var x struct {
		Body string `xml:"body"`
	}
	d := streamDecoder(b, sessNS)
	if err := d.Decode(&x); err != nil {
		return nil, err
	}
	out := Rec{"st": st, "body": SN(x.Body)}
	// exactly one element: nothing but white space may follow
	for {
		t, err := d.Token()
		if err == io.EOF {
			return out, nil
		}
		if err != nil {
			return nil, fmt.Errorf("after the element: %v", err)
		}
		if c, ok := t.(xml.CharData); ok && len(bytesTrim(c)) == 0 {
			continue
		}
		return nil, fmt.Errorf("more than one element on the wire: %T after the first", t)
	}
}

func bytesTrim(b []byte) []byte {
	for len(b) > 0 && (b[0] == ' ' || b[0] == '\n' || b[0] == '\t' || b[0] == '\r') {
		b = b[1:]
	}
	return b
}

func runEncodePair(v Rec, o *Obs) {
	pinMu.Lock()
	defer pinMu.Unlock()
	defer runtime.GOMAXPROCS(runtime.GOMAXPROCS(1))

	outer, inner := buildCall(rec(v["outer"])), buildCall(rec(v["inner"]))
	// the standard marshaller's output of the two values
	for _, side := range []struct {
		n string
		c call
	}{{"outer", outer}, {"inner", inner}} {
		side := side
		if b := o.encBytes(side.n+"/marshal", func() ([]byte, error) { return xml.Marshal(side.c.whole) }); b != nil {
			o.dec(side.n+"/marshal/unmarshal", side.n, func() (Rec, error) { return decodeSent(side.c.kind, b) })
		}
	}
	// two sessions; the inner call is made from inside the first transport write of the outer one
	var wireA, wireB []byte
	var errA, errB, setup error
	msg := guard(func() error {
		sa, ca, err := newPlainSession()
		if err != nil {
			setup = err
			return nil
		}
		sb, cb, err := newPlainSession()
		if err != nil {
			setup = err
			return nil
		}
		na, nb := len(ca.WireString()), len(cb.WireString())
		pending := true
		ca.Gate = func(point string) {
			if point == "conn.write" && pending {
				pending = false
				if m := guard(func() error { return inner.transmit(sb) }); m != "" {
					errB = fmt.Errorf("%s", m)
				}
			}
		}
		errA = outer.transmit(sa)
		ca.Gate = nil
		if pending {
			errB = fmt.Errorf("driver: the outer call wrote nothing to its transport")
		}
		wireA, wireB = []byte(ca.WireString()[na:]), []byte(cb.WireString()[nb:])
		return nil
	})
	if setup != nil {
		panic("driver: session setup failed: " + setup.Error())
	}
	record := func(n string, c call, wire []byte, err error, panicked string) {
		b := o.encBytes(n+"/session", func() ([]byte, error) {
			if panicked != "" {
				panic(panicked)
			}
			return wire, err
		})
		if b != nil {
			o.dec(n+"/session/unmarshal", n, func() (Rec, error) { return decodeSent(c.kind, b) })
		}
	}
	record("outer", outer, wireA, errA, msg)
	record("inner", inner, wireB, errB, "")
}
