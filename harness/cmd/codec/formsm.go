package main

import (
	"encoding/json"
	"encoding/xml"
	"fmt"
	"math/rand"
	"os"
	"sort"
	"strconv"

	"mellium.im/xmpp/form"
	"mellium.im/xmpp/jid"

	"verifharness/vt"
)

// codec form <symbols.json> <formcfg.json> <scenarios.ndjson|-> <trace.ndjson>
//
// Drives the life cycle of a data form (tla/Form.tla) on the real form package: a form
// built with the field constructors of one configuration, then a sequence of
// Set / Get / Raw / Submit / TokenReader / Unmarshal(ty) operations.  Unmarshal(ty) decodes
// a document - the form's own encoding with the type attribute the specification gives
// for ty (form, result, submit, cancel, none, not one of the four) - and every later
// operation applies to the decoded form.  One trace per scenario, one event per operation
// with what the call returned; tla/TrForm.tla decides.
// With "-" the scenarios are: every single operation; every Set followed by the
// observations, on the constructed form and on the form decoded from a document of every
// type; every pair (decode a document of type ty, operation); plus FORM_N random
// sequences of length FORM_LEN per configuration (seed VERIF_SEED).

type fieldCfg struct {
	Ft  string   `json:"ft"`
	Var string   `json:"var"`
	Req bool     `json:"req"`
	Def []string `json:"def"`
}

type typedVal struct {
	K string   `json:"k"`
	V []string `json:"v"`
}

type formOp struct {
	Op  string    `json:"op"` // set get raw submit tokenreader unmarshal
	Var string    `json:"var,omitempty"`
	TV  *typedVal `json:"tv,omitempty"`
	Ty  string    `json:"ty,omitempty"` // unmarshal: the type of the document (a key of formCfgFile.Types)
	// unmarshal: how the document reaches the decoder - "" from a token stream (what a
	// session hands to a handler), "bytes" through xml.Unmarshal
	Via string `json:"via,omitempty"`
}

type formScenario struct {
	Cfg []fieldCfg `json:"cfg"`
	Ops []formOp   `json:"ops"`
}

type formCfgFile struct {
	Configs [][]fieldCfg `json:"configs"`
	Vars    []string     `json:"vars"`
	Values  []typedVal   `json:"values"`
	// document type name -> the value of the type attribute (no element: no attribute)
	Types map[string][]string `json:"types"`
}

// docTypes is formCfgFile.Types of the run (the specification's DocTypeAttr).
var docTypes map[string][]string

// withType returns the tokens with the type attribute of the root element replaced.
func withType(toks []xml.Token, ty string) ([]xml.Token, error) {
	val, known := docTypes[ty]
	if !known {
		panic("driver: unknown document type " + ty)
	}
	if len(toks) == 0 {
		return nil, fmt.Errorf("empty encoding")
	}
	s, ok := toks[0].(xml.StartElement)
	if !ok {
		return nil, fmt.Errorf("first token is %T", toks[0])
	}
	root := xml.StartElement{Name: s.Name}
	for _, a := range s.Attr {
		if a.Name.Local != "type" {
			root.Attr = append(root.Attr, a)
		}
	}
	if len(val) > 0 {
		root.Attr = append(root.Attr, xml.Attr{Name: xml.Name{Local: "type"}, Value: val[0]})
	}
	out := append([]xml.Token{root}, toks[1:]...)
	return out, nil
}

// rootType is the type attribute of the root element of an encoding (none: empty list).
func rootType(toks []xml.Token) []string {
	out := []string{}
	if len(toks) > 0 {
		if s, ok := toks[0].(xml.StartElement); ok {
			for _, a := range s.Attr {
				if a.Name.Local == "type" {
					out = append(out, a.Value)
				}
			}
		}
	}
	return out
}

func init() { subcommands["form"] = cmdForm }

func newFormOf(cfg []fieldCfg) *form.Data {
	var fs []form.Field
	for _, f := range cfg {
		r := Rec{"ft": f.Ft, "var": "S_empty", "label": "S_empty", "desc": "S_empty", "req": f.Req, "opts": []interface{}{}}
		vals := []interface{}{}
		for _, d := range f.Def {
			vals = append(vals, d)
		}
		r["vals"] = vals
		fs = append(fs, fieldOfNamed(r, f.Var))
	}
	return form.New(fs...)
}

// fieldOfNamed is fieldOf with a literal variable name (the names of Form.tla are plain identifiers).
func fieldOfNamed(r Rec, name string) form.Field {
	var opts []form.Option
	if boolean(r["req"]) {
		opts = append(opts, form.Required)
	}
	for _, x := range list(r["vals"]) {
		opts = append(opts, form.Value(S(x)))
	}
	switch str(r["ft"]) {
	case "boolean":
		return form.Boolean(name, opts...)
	case "fixed":
		return form.Fixed(opts...)
	case "hidden":
		return form.Hidden(name, opts...)
	case "jid-multi":
		return form.JIDMulti(name, opts...)
	case "jid-single":
		return form.JID(name, opts...)
	case "list-multi":
		return form.ListMulti(name, opts...)
	case "list-single":
		return form.List(name, opts...)
	case "text-multi":
		return form.TextMulti(name, opts...)
	case "text-private":
		return form.TextPrivate(name, opts...)
	case "text-single":
		return form.Text(name, opts...)
	}
	panic("driver: unknown field type " + str(r["ft"]))
}

func goValue(tv typedVal) interface{} {
	switch tv.K {
	case "bool":
		return tv.V[0] == "S_true"
	case "string":
		return S(tv.V[0])
	case "jid":
		return J(tv.V[0])
	case "jids":
		out := []jid.JID{}
		for _, x := range tv.V {
			out = append(out, J(x))
		}
		return out
	case "strings":
		out := []string{}
		for _, x := range tv.V {
			out = append(out, S(x))
		}
		return out
	case "int":
		return 7
	}
	panic("driver: unknown typed value kind " + tv.K)
}

func projValue(v interface{}) Rec {
	switch x := v.(type) {
	case bool:
		if x {
			return Rec{"k": "bool", "v": []string{"S_true"}}
		}
		return Rec{"k": "bool", "v": []string{"S_false"}}
	case string:
		return Rec{"k": "string", "v": []string{SN(x)}}
	case jid.JID:
		return Rec{"k": "jid", "v": []string{JN(x)}}
	case []jid.JID:
		out := []string{}
		for _, j := range x {
			out = append(out, JN(j))
		}
		return Rec{"k": "jids", "v": out}
	case []string:
		out := []string{}
		for _, s := range x {
			out = append(out, SN(s))
		}
		return Rec{"k": "strings", "v": out}
	case int:
		return Rec{"k": "int", "v": []string{IN(strconv.Itoa(x))}}
	case nil:
		return Rec{"k": "nil", "v": []string{}}
	}
	return Rec{"k": fmt.Sprintf("?%T", v), "v": []string{}}
}

func projFields(d *form.Data) []interface{} {
	out := []interface{}{}
	d.ForFields(func(f form.FieldData) {
		def := []string{}
		for _, s := range f.Raw {
			def = append(def, SN(s))
		}
		out = append(out, Rec{"ft": string(f.Type), "var": f.Var, "req": f.Required, "def": def, "vals": def})
	})
	return out
}

func runFormScenario(sc formScenario) []vt.Ev {
	var evs []vt.Ev
	d := newFormOf(sc.Cfg)
	for _, op := range sc.Ops {
		op := op
		e := vt.Ev{"ev": op.Op, "panic": ""}
		msg := guard(func() error {
			switch op.Op {
			case "set":
				e["var"], e["tv"] = op.Var, op.TV
				ok, err := d.Set(op.Var, goValue(*op.TV))
				e["ok"], e["err"] = ok, err != nil
			case "get":
				e["var"] = op.Var
				v, ok := d.Get(op.Var)
				e["ok"] = ok
				e["tv"] = Rec{"k": "unset", "v": []string{}}
				if ok {
					e["tv"] = projValue(v)
				}
			case "raw":
				e["var"] = op.Var
				v, ok := d.Raw(op.Var)
				e["ok"] = ok
				out := []string{}
				for _, s := range v {
					out = append(out, SN(s))
				}
				e["v"] = out
			case "submit":
				e["toks"], e["fields"], e["type"] = []Tok{}, []interface{}{}, []string{}
				r, ok := d.Submit()
				e["ok"] = ok
				toks, err := readTokens(r)
				if err != nil {
					return err
				}
				e["toks"] = absToks(toks)
				e["type"] = rootType(toks)
				var sub form.Data
				if err := xml.NewTokenDecoder(replay(toks)).Decode(&sub); err != nil {
					return err
				}
				e["fields"] = projFields(&sub)
			case "tokenreader":
				e["toks"], e["type"] = []Tok{}, []string{}
				toks, err := readTokens(d.TokenReader())
				if err != nil {
					return err
				}
				e["toks"] = absToks(toks)
				e["type"] = rootType(toks)
			case "unmarshal":
				ty := op.Ty
				if ty == "" {
					ty = "form"
				}
				e["ty"], e["err"], e["fields"] = ty, "", []interface{}{}
				toks, err := readTokens(d.TokenReader())
				if err != nil {
					return err
				}
				if toks, err = withType(toks, ty); err != nil {
					return err
				}
				nd := &form.Data{}
				if op.Via == "bytes" {
					var b []byte
					if b, err = tokensToBytes(toks); err != nil {
						return err
					}
					err = xml.Unmarshal(b, nd)
				} else {
					err = xml.NewTokenDecoder(replay(toks)).Decode(nd)
				}
				if err != nil {
					e["err"] = err.Error()
					return nil
				}
				d = nd
				e["fields"] = projFields(d)
			default:
				panic("driver: unknown form operation " + op.Op)
			}
			return nil
		})
		e["panic"] = msg
		evs = append(evs, e)
		if msg != "" {
			break // the form may be in any state after a panic
		}
	}
	return evs
}

func cmdForm(args []string) {
	if len(args) != 4 {
		fail("usage: codec form <symbols.json> <formcfg.json> <scenarios.ndjson|-> <trace.ndjson>")
	}
	if err := loadSymbols(args[0]); err != nil {
		fail("symbols: %v", err)
	}
	var cf formCfgFile
	b, err := os.ReadFile(args[1])
	if err != nil {
		fail("%v", err)
	}
	if err := json.Unmarshal(b, &cf); err != nil {
		fail("formcfg: %v", err)
	}
	docTypes = cf.Types
	if len(docTypes) == 0 {
		fail("formcfg: no document types")
	}
	var scs []formScenario
	if args[2] != "-" {
		err := readVectors(args[2], func(_ int, _ string, _ Rec, raw Rec) error {
			bb, _ := json.Marshal(raw)
			var sc formScenario
			if err := json.Unmarshal(bb, &sc); err != nil {
				return err
			}
			scs = append(scs, sc)
			return nil
		})
		if err != nil {
			fail("%v", err)
		}
	} else {
		scs = genFormScenarios(cf)
	}
	tw, err := vt.NewTraceWriter(args[3])
	if err != nil {
		fail("%v", err)
	}
	panics := 0
	distinct := map[string]bool{}
	var samples []interface{}
	for i, sc := range scs {
		evs := runFormScenario(sc)
		for _, e := range evs {
			if e["panic"] != "" {
				panics++
			}
		}
		tw.Write(vt.Ev{"cfg": sc.Cfg, "panic": ""}, evs)
		tw.Meta(sc)
		k, _ := json.Marshal(evs)
		distinct[string(k)] = true
		if i%997 == 500 && len(samples) < 2 {
			samples = append(samples, Rec{"scenario": sc, "events": evs})
		}
	}
	tw.Close()
	tr, ev := tw.Counts()
	vt.Summary{Traces: tr, Events: ev, Evaluations: len(scs), Distinct: len(distinct), Samples: samples,
		Extra: map[string]interface{}{"panics": panics}}.Print()
}

// isLongValue: the value holds a long text of the specification (symbols.json "long").
func isLongValue(tv *typedVal) bool {
	if tv == nil {
		return false
	}
	for _, x := range tv.V {
		if _, ok := sym.Long[x]; ok {
			return true
		}
	}
	return false
}

func genFormScenarios(cf formCfgFile) []formScenario {
	seed, _ := strconv.ParseInt(os.Getenv("VERIF_SEED"), 10, 64)
	rng := rand.New(rand.NewSource(seed))
	n, _ := strconv.Atoi(os.Getenv("FORM_N"))
	if n == 0 {
		n = 300
	}
	length, _ := strconv.Atoi(os.Getenv("FORM_LEN"))
	if length == 0 {
		length = 5
	}
	var types []string
	for ty := range cf.Types {
		types = append(types, ty)
	}
	sort.Strings(types)
	via := func(k int) string {
		if k%2 == 1 {
			return "bytes"
		}
		return ""
	}
	var out []formScenario
	for _, cfg := range cf.Configs {
		own := []string{"nofield"}
		seen := map[string]bool{}
		for _, f := range cfg {
			if !seen[f.Var] { // a name may be shared by several fields
				own = append(own, f.Var)
			}
			seen[f.Var] = true
		}
		// all operations on this configuration's own variables; for the name that is no field one
		// value of every Go type (no field, no type to check the value against)
		var ops []formOp
		for _, v := range own {
			kinds := map[string]bool{}
			for i := range cf.Values {
				if v == "nofield" && kinds[cf.Values[i].K] {
					continue
				}
				kinds[cf.Values[i].K] = true
				ops = append(ops, formOp{Op: "set", Var: v, TV: &cf.Values[i]})
			}
			ops = append(ops, formOp{Op: "get", Var: v}, formOp{Op: "raw", Var: v})
		}
		ops = append(ops, formOp{Op: "submit"}, formOp{Op: "tokenreader"})
		// decoding a document of every type, from a token stream and from bytes
		var decodes []formOp
		for _, ty := range types {
			decodes = append(decodes, formOp{Op: "unmarshal", Ty: ty}, formOp{Op: "unmarshal", Ty: ty, Via: "bytes"})
		}
		ops = append(ops, decodes...)
		// exhaustive: every operation alone and on the form decoded from a document of every type;
		// every Set followed by every observation (get of the same variable, submit, encoding,
		// decode + get) on the constructed form and on the decoded form of every type
		for k, a := range ops {
			if a.Op != "set" {
				out = append(out, formScenario{Cfg: cfg, Ops: []formOp{a}})
				for _, dz := range decodes {
					out = append(out, formScenario{Cfg: cfg, Ops: []formOp{dz, a}})
				}
				continue
			}
			out = append(out, formScenario{Cfg: cfg, Ops: []formOp{a, {Op: "get", Var: a.Var}, {Op: "submit"}, {Op: "tokenreader"}}})
			out = append(out, formScenario{Cfg: cfg, Ops: []formOp{a, {Op: "unmarshal", Ty: "form"}, {Op: "get", Var: a.Var}, a, {Op: "submit"}}})
			for i, ty := range types {
				// the length classes of a text are crossed with the constructed form, the decoded form, the
				// decoded submission and one more document type in turn - not with all six
				if isLongValue(a.TV) && ty != "submit" && i != k%len(types) {
					continue
				}
				dz := formOp{Op: "unmarshal", Ty: ty, Via: via(i + k)}
				out = append(out, formScenario{Cfg: cfg, Ops: []formOp{dz, a, {Op: "get", Var: a.Var}, {Op: "submit"}, {Op: "tokenreader"}}})
				if ty == "submit" {
					// the encoding of a form of type submit may be the submission of its values
					out = append(out, formScenario{Cfg: cfg, Ops: []formOp{dz, a, {Op: "unmarshal", Ty: types[(i+k)%len(types)], Via: via(k)},
						{Op: "get", Var: a.Var}, {Op: "raw", Var: a.Var}, {Op: "submit"}}})
				}
			}
		}
		// seeded random sequences
		for k := 0; k < n; k++ {
			sc := formScenario{Cfg: cfg}
			for j := 0; j < length; j++ {
				sc.Ops = append(sc.Ops, ops[rng.Intn(len(ops))])
			}
			out = append(out, sc)
		}
	}
	return out
}
