// Command framing drives the REAL session constructors of mellium.im/xmpp for every stream
// framing / session kind of the library (family "framing", check XFRAME; specification
// tla/Framing.tla):
//
//	c2s   xmpp.NewClientSession / ReceiveClientSession   (via "gen": xmpp.NewSession / ReceiveSession + xmpp.NewNegotiator)
//	s2s   xmpp.NewServerSession / ReceiveServerSession   (via "gen": ... with the S2S bit, optionally Secure + s2s.Bidi())
//	ws    websocket.NewSession / ReceiveSession           (via "gen": xmpp.NewSession / ReceiveSession + websocket.Negotiator)
//	comp  component.NewSession                            (via "gen": xmpp.NewSession + component.Negotiator)
//
// One session per scenario over vt.Conn.  The scripted peer is lazy (vt.Conn.Starve): whenever
// the library finds its input empty - everything fed before has been handled completely - the
// driver performs the next step of the script: a peer item (rendered in the framing the
// scenario names, including malformed and cross-framing items) is fed, a local call (Close,
// Send) is made right there.  So the whole run is sequential and the log is in program order:
//
//	feed k item      step k of the script (a peer item) was delivered; "eof" with auto=true when
//	                 the script is exhausted / a terminal item was fed and the library reads on
//	w ...            one top-level item the library wrote, classified by a vt.Scanner projection
//	                 (hdr / open / features / neg / hs / stanza / serr / close_tcp / close_ws)
//	h n ns           the handler was invoked with a top-level element
//	ctor ...         the constructor returned (error class, state bits, LocalAddr / RemoteAddr)
//	call k c, ret    a local call and its result
//	serve_ret ...    Serve returned
//	end
//
// usage: framing run <scenarios.ndjson> <trace.ndjson>     (env FRAMING_SHARD=i/n)
package main

import (
	"bufio"
	"context"
	/* #nosec */
	"crypto/sha1"
	"encoding/hex"
	"encoding/json"
	"encoding/xml"
	"errors"
	"fmt"
	"io"
	"os"
	"strconv"
	"strings"
	"sync"
	"time"

	"mellium.im/xmlstream"
	"mellium.im/xmpp"
	"mellium.im/xmpp/component"
	"mellium.im/xmpp/jid"
	"mellium.im/xmpp/s2s"
	"mellium.im/xmpp/stanza"
	"mellium.im/xmpp/stream"
	"mellium.im/xmpp/websocket"

	"verifharness/vt"
)

const (
	framingNS = "urn:ietf:params:xml:ns:xmpp-framing"
	streamNS  = "http://etherx.jabber.org/streams"
	errNS     = "urn:ietf:params:xml:ns:xmpp-streams"
	authNS    = "urn:x:verif:auth"
	readyNS   = "urn:x:verif:ready"
	otherAddr = "other.example"
	peerFull  = "juliet@example.com/b"
)

// watchdog for one blocking step that is otherwise immediate (never a verdict by itself)
var stepWait = 20 * time.Second

// Scenario mirrors the records of tla/MCFraming.tla (Sc).
type Scenario struct {
	Kind    string   `json:"kind"`    // c2s | s2s | ws | comp
	Role    string   `json:"role"`    // init | recv
	Via     string   `json:"via"`     // pkg (the kind's own constructor) | gen (xmpp.NewSession / ReceiveSession + the kind's Negotiator)
	Restart bool     `json:"restart"` // the restarting feature (urn:x:verif:auth, modelled on SASL) is configured
	Bidi    bool     `json:"bidi"`    // s2s.Bidi() is configured
	Secure  bool     `json:"secure"`  // the Secure bit is given to the constructor (via gen only)
	Secret  string   `json:"secret"`  // comp: same | other (the peer's secret equals / differs from the one given to the library)
	Args    string   `json:"args"`    // recv s2s pkg: set | zero (location / origin handed to ReceiveServerSession)
	Script  []string `json:"script"`
}

// nsSym maps namespace names to the symbols of the specification.
var nsSym = map[string]string{
	"jabber:client": "client", "jabber:server": "server", component.NSAccept: "accept", framingNS: "framing", streamNS: "streams",
	s2s.NSBidi: "bidi", s2s.NSBidiFeature: "bidifeat", authNS: "auth", readyNS: "ready", "": "inherit",
}

func sym(ns string) string {
	if s, ok := nsSym[ns]; ok {
		return s
	}
	return "other"
}

// ------------------------------------------------------------------------------------ addresses

type addrs struct {
	localArg, remoteArg string // what the constructor is given ("" = nothing)
	hdrFrom, hdrTo      string // what a compliant peer header names
}

func (sc Scenario) addrs() addrs {
	switch {
	case sc.Kind == "comp":
		return addrs{"comp.example.net", "comp.example.net", "comp.example.net", ""}
	case sc.Role == "init" && sc.Kind == "s2s":
		return addrs{"example.com", "example.net", "example.net", "example.com"}
	case sc.Role == "init":
		return addrs{"me@example.net", "example.net", "example.net", "me@example.net"}
	case sc.Kind == "s2s":
		a := addrs{"", "", "example.com", "example.net"}
		if sc.Via == "pkg" && sc.Args == "set" {
			a.localArg, a.remoteArg = "example.net", "example.com"
		}
		return a
	}
	return addrs{"", "", "", "example.net"}
}

func (sc Scenario) stanzaNS() string {
	switch sc.Kind {
	case "s2s":
		return stanza.NSServer
	case "comp":
		return component.NSAccept
	}
	return stanza.NSClient
}

// ------------------------------------------------------------------------------------ the run

type run struct {
	sc   Scenario
	ad   addrs
	conn *vt.Conn
	s    *xmpp.Session

	mu    sync.Mutex
	evs   []vt.Ev
	stuck bool

	next     int    // next step of the script
	opens    int    // headers the peer has sent
	peerID   string // the id of the peer's last header
	digest   string // text of the last <handshake/> the library wrote
	phase    string // neg | est | post
	term     bool   // a terminal item has been fed in the established phase
	eofed    bool
	cl       classifier
	frames   int // transport writes
	badFrame int // transport writes that are not exactly one complete top-level element
}

func (r *run) log(e vt.Ev) {
	r.mu.Lock()
	if !r.stuck || e["ev"] == "stuck" || e["ev"] == "end" {
		r.evs = append(r.evs, e)
	}
	r.mu.Unlock()
}

// ------------------------------------------------------------------------------------ what the library wrote

// classifier projects the bytes the library writes onto framing-level items.
type classifier struct {
	sc    vt.Scanner
	base  int // depth of top-level elements (1 inside <stream:stream>, 0 before it / on the WebSocket framing)
	cur   vt.Ev
	kids  []string
	text  string
	depth int // depth inside cur
}

func attrOr(t vt.Tag, k string) string { return t.Attr[k] }

func (c *classifier) nsOf(t vt.Tag) string {
	if i := strings.IndexByte(t.Name, ':'); i >= 0 {
		p := t.Name[:i]
		if v, ok := t.Attr["xmlns:"+p]; ok {
			return sym(v)
		}
		if p == "stream" {
			return "streams"
		}
		return "other"
	}
	return sym(t.Attr["xmlns"])
}

func item(t, n, ns string, tag vt.Tag) vt.Ev {
	id := "n"
	if tag.Attr["id"] != "" {
		id = "y"
	}
	return vt.Ev{"ev": "w", "t": t, "n": n, "ns": ns, "to": tag.Attr["to"], "from": tag.Attr["from"], "id": id, "x": ""}
}

// feed returns the items completed by p.
func (c *classifier) feed(p []byte, digestOK func(string) string) (out []vt.Ev) {
	for _, t := range c.sc.Feed(p) {
		switch t.Kind {
		case "pi", "comment", "directive":
			continue
		case "text":
			if c.cur != nil {
				c.text += t.Text
			}
			continue
		}
		if c.cur != nil {
			// inside a top-level element
			switch t.Kind {
			case "start", "empty":
				if c.depth == 0 {
					c.kids = append(c.kids, vt.Local(t.Name))
				}
				if t.Kind == "start" {
					c.depth++
				}
			case "end":
				if c.depth == 0 {
					out = append(out, c.finish(digestOK))
					continue
				}
				c.depth--
			}
			continue
		}
		local := vt.Local(t.Name)
		switch {
		case t.Kind == "end":
			// the end of the stream element (or an end tag nothing opened)
			e := item("close_tcp", local, "streams", t)
			if t.Name != "stream:stream" {
				e["t"], e["ns"] = "neg", "other"
			}
			out = append(out, e)
			c.sc.SetDepth(0)
			c.base = 0
		case t.Name == "stream:stream" && t.Kind == "start":
			e := item("hdr", "stream", sym(t.Attr["xmlns"]), t)
			e["x"] = t.Attr["version"]
			out = append(out, e)
			c.sc.SetDepth(1)
			c.base = 1
		default:
			ns := c.nsOf(t)
			var e vt.Ev
			switch {
			case ns == "framing" && local == "open":
				e = item("open", local, ns, t)
				e["x"] = t.Attr["version"]
			case ns == "framing" && local == "close":
				e = item("close_ws", local, ns, t)
			case ns == "streams" && local == "features":
				e = item("features", local, ns, t)
			case ns == "streams" && local == "error":
				e = item("serr", local, ns, t)
			case local == "iq" || local == "message" || local == "presence":
				e = item("stanza", local, ns, t)
			case local == "handshake":
				e = item("hs", local, ns, t)
			default:
				e = item("neg", local, ns, t)
			}
			c.cur, c.kids, c.text, c.depth = e, nil, "", 0
			if t.Kind == "empty" {
				out = append(out, c.finish(digestOK))
			}
		}
	}
	return out
}

func (c *classifier) finish(digestOK func(string) string) vt.Ev {
	e := c.cur
	c.cur = nil
	switch e["t"] {
	case "features":
		e["x"] = strings.Join(c.kids, ",")
	case "serr":
		if len(c.kids) > 0 {
			e["x"] = c.kids[0]
		}
	case "hs":
		e["x"] = digestOK(c.text)
	}
	return e
}

func (r *run) digestVerdict(text string) string {
	r.digest = text
	sum := sha1.Sum([]byte(r.peerID + "s3cr3t")) // #nosec
	want := hex.EncodeToString(sum[:])
	switch {
	case text == want:
		return "ok"
	case strings.ToLower(strings.TrimSpace(text)) == want:
		return "case"
	}
	return "bad"
}

func (r *run) react(p []byte) {
	items := r.cl.feed(p, r.digestVerdict)
	r.frames++
	if len(items) != 1 || r.cl.cur != nil {
		r.badFrame++
	}
	for _, e := range items {
		r.log(e)
	}
}

// ------------------------------------------------------------------------------------ the peer's items

func (r *run) ws() bool { return r.sc.Kind == "ws" }

func attr(k, v string) string {
	if v == "" {
		return ""
	}
	return fmt.Sprintf(" %s='%s'", k, v)
}

func (r *run) tcpHeader(ns, from, to, id string, version bool) string {
	v := ""
	if version {
		v = " version='1.0'"
	}
	return fmt.Sprintf(`<?xml version='1.0'?><stream:stream xmlns='%s' xmlns:stream='%s'%s%s%s%s>`, ns, streamNS, attr("from", from), attr("to", to), attr("id", id), v)
}

func (r *run) wsOpen(ns, from, to, id string) string {
	return fmt.Sprintf(`<open xmlns='%s'%s%s%s version='1.0'/>`, ns, attr("from", from), attr("to", to), attr("id", id))
}

// header renders the peer's stream header; variant: "" | nofrom | otherto | otherfrom | x (the other framing) | badns
func (r *run) header(variant string) string {
	r.opens++
	from, to, id := r.ad.hdrFrom, r.ad.hdrTo, ""
	if r.sc.Role == "init" {
		id = fmt.Sprintf("sid%d", r.opens)
	}
	r.peerID = id
	switch variant {
	case "nofrom":
		from = ""
	case "otherto":
		to = otherAddr
	case "otherfrom":
		from = otherAddr
	}
	ns := r.sc.stanzaNS()
	tcp := !r.ws()
	if variant == "x" {
		tcp = !tcp
		if r.sc.Kind == "comp" || r.ws() {
			ns = stanza.NSClient
		}
	}
	if variant == "badns" {
		switch r.sc.Kind {
		case "ws":
			return r.wsOpen(stanza.NSClient, from, to, id)
		case "comp":
			return fmt.Sprintf(`<stream xmlns='%s'%s%s>`, component.NSAccept, attr("from", from), attr("id", id))
		}
		return r.tcpHeader(component.NSAccept, from, to, id, true)
	}
	if tcp {
		return r.tcpHeader(ns, from, to, id, r.sc.Kind != "comp")
	}
	return r.wsOpen(framingNS, from, to, id)
}

func (r *run) features(kids string) string {
	if r.ws() {
		if kids == "" {
			return fmt.Sprintf(`<stream:features xmlns:stream='%s'/>`, streamNS)
		}
		return fmt.Sprintf(`<stream:features xmlns:stream='%s'>%s</stream:features>`, streamNS, kids)
	}
	if kids == "" {
		return `<stream:features/>`
	}
	return `<stream:features>` + kids + `</stream:features>`
}

func (r *run) stanzaAttrs() string {
	to := r.ad.hdrTo
	if r.s != nil {
		to = r.s.LocalAddr().String()
	}
	a := attr("from", peerFull) + attr("to", to)
	if r.ws() {
		a = " xmlns='jabber:client'" + a
	}
	return a
}

// render returns the bytes of a peer item ("" + eof=true for the end of the transport).
func (r *run) render(it string) (data string, eof bool) {
	switch it {
	case "open":
		return r.header(""), false
	case "open_nofrom":
		return r.header("nofrom"), false
	case "open_otherto":
		return r.header("otherto"), false
	case "open_otherfrom":
		return r.header("otherfrom"), false
	case "xopen":
		return r.header("x"), false
	case "badns":
		return r.header("badns"), false
	case "feat0":
		return r.features(""), false
	case "featR":
		return r.features(`<auth xmlns='` + authNS + `'/>`), false
	case "featB":
		return r.features(`<bidi xmlns='` + s2s.NSBidiFeature + `'/>`), false
	case "ackR":
		return `<ok xmlns='` + authNS + `'/>`, false
	case "selR":
		return `<auth xmlns='` + authNS + `'/>`, false
	case "selReady":
		return `<ready xmlns='` + readyNS + `'/>`, false
	case "selB":
		return `<bidi xmlns='` + s2s.NSBidi + `'/>`, false
	case "hs":
		// an honest server: it accepts exactly the digest of its own stream id and its own secret
		secret := "s3cr3t"
		if r.sc.Secret == "other" {
			secret = "0th3r"
		}
		sum := sha1.Sum([]byte(r.peerID + secret)) // #nosec
		if r.digest == hex.EncodeToString(sum[:]) {
			return `<handshake/>`, false
		}
		return `<stream:error><not-authorized xmlns='` + errNS + `'/></stream:error></stream:stream>`, false
	case "msg":
		return `<message` + r.stanzaAttrs() + ` type='chat'><body>hi</body></message>`, false
	case "msgx":
		// a stanza whose payload is an element of the framing namespace: payload, not a frame
		return `<message` + r.stanzaAttrs() + ` type='chat'><close xmlns='` + framingNS + `'/><body>hi</body></message>`, false
	case "iq":
		return `<iq` + r.stanzaAttrs() + ` type='get' id='p1'><ping xmlns='urn:xmpp:ping'/></iq>`, false
	case "close":
		if r.ws() {
			return `<close xmlns='` + framingNS + `'/>`, false
		}
		return `</stream:stream>`, false
	case "closeuri":
		return `<close xmlns='` + framingNS + `' see-other-uri='wss://other.example.net/xmpp'/>`, false
	case "xclose":
		if r.ws() {
			return `</stream:stream>`, false
		}
		return `<close xmlns='` + framingNS + `'/>`, false
	case "serr":
		if r.ws() {
			return `<stream:error xmlns:stream='` + streamNS + `'><conflict xmlns='` + errNS + `'/></stream:error>`, false
		}
		return `<stream:error><conflict xmlns='` + errNS + `'/></stream:error>`, false
	case "eof":
		return "", true
	}
	panic("driver: unknown item " + it)
}

func isCall(it string) bool { return it == "Close" || it == "Send" }

// terminal reports whether nothing can follow the item on this framing.
func (r *run) terminal(it string) bool {
	switch it {
	case "close", "closeuri", "serr", "eof":
		return true
	case "xopen", "xclose":
		return r.ws()
	}
	return false
}

// ------------------------------------------------------------------------------------ local calls

func errClass(err error) (string, string) {
	var se stream.Error
	switch {
	case err == nil:
		return "nil", ""
	case errors.Is(err, xmpp.ErrOutputStreamClosed):
		return "closed", ""
	case errors.As(err, &se):
		return "stream", se.Err
	}
	return "other", err.Error()
}

func (r *run) bits(e vt.Ev) vt.Ev {
	st := r.s.State()
	e["ready"] = st&xmpp.Ready != 0
	e["recvbit"] = st&xmpp.Received != 0
	e["s2sbit"] = st&xmpp.S2S != 0
	e["outclosed"] = st&xmpp.OutputStreamClosed != 0
	e["inclosed"] = st&xmpp.InputStreamClosed != 0
	return e
}

func (r *run) call(k int, c string) {
	r.log(vt.Ev{"ev": "call", "k": k, "call": c})
	e := vt.Ev{"ev": "ret", "call": c, "err": "nil", "msg": ""}
	func() {
		defer func() {
			if p := recover(); p != nil {
				e["err"], e["msg"] = "panic", fmt.Sprint(p)
			}
		}()
		var err error
		switch c {
		case "Close":
			err = r.s.Close()
		case "Send":
			// no deadline and no cancellation: the goroutine Send starts to watch its context may otherwise
			// still put a past write deadline on the connection while a LATER call writes (outside this family)
			err = r.s.Send(context.Background(), stanza.Message{To: jid.MustParse(peerFull), Type: stanza.ChatMessage}.Wrap(nil))
		}
		e["err"], e["msg"] = errClass(err)
	}()
	r.log(r.bits(e))
}

// ------------------------------------------------------------------------------------ the lazy peer

func (r *run) feedEOF(auto bool) {
	if r.eofed {
		return
	}
	r.eofed = true
	r.log(vt.Ev{"ev": "feed", "k": r.next + 1, "item": "eof", "auto": auto})
	r.conn.CloseIn()
}

// starve runs in the goroutine of the library whenever the session's input is empty.
func (r *run) starve() {
	r.mu.Lock()
	stuck := r.stuck
	r.mu.Unlock()
	if stuck || r.eofed {
		return
	}
	if r.term {
		// the peer has said its last word; the library reads on: the transport ends
		r.feedEOF(true)
		return
	}
	for r.next < len(r.sc.Script) {
		it := r.sc.Script[r.next]
		if isCall(it) {
			if r.phase != "est" {
				break // a local call needs a session: the script is malformed for this run
			}
			r.next++
			r.call(r.next, it)
			continue
		}
		data, eof := r.render(it)
		if eof {
			r.term = true
			r.feedEOF(false)
			r.next++
			return
		}
		r.next++
		r.log(vt.Ev{"ev": "feed", "k": r.next, "item": it, "auto": false})
		if r.phase == "est" && r.terminal(it) {
			r.term = true
		}
		r.conn.FeedString(data)
		return
	}
	r.feedEOF(true)
}

// ------------------------------------------------------------------------------------ features

// restartFeature is modelled on SASL: required, negotiated once, sets Authn and restarts the stream.
func restartFeature() xmpp.StreamFeature {
	name := xml.Name{Space: authNS, Local: "auth"}
	return xmpp.StreamFeature{
		Name:       name,
		Prohibited: xmpp.Authn,
		List: func(ctx context.Context, e xmlstream.TokenWriter, start xml.StartElement) (bool, error) {
			if err := e.EncodeToken(start); err != nil {
				return true, err
			}
			return true, e.EncodeToken(start.End())
		},
		Parse: func(ctx context.Context, d *xml.Decoder, start *xml.StartElement) (bool, interface{}, error) {
			return true, nil, d.Skip()
		},
		Negotiate: func(ctx context.Context, s *xmpp.Session, data interface{}) (xmpp.SessionState, io.ReadWriter, error) {
			if s.State()&xmpp.Received != 0 {
				if err := skipElement(s); err != nil {
					return 0, nil, err
				}
				if _, err := fmt.Fprintf(s.Conn(), `<ok xmlns='%s'/>`, authNS); err != nil {
					return 0, nil, err
				}
				return xmpp.Authn, s.Conn(), nil
			}
			if _, err := fmt.Fprintf(s.Conn(), `<auth xmlns='%s'/>`, authNS); err != nil {
				return 0, nil, err
			}
			if err := expectElement(s, xml.Name{Space: authNS, Local: "ok"}); err != nil {
				return 0, nil, err
			}
			return xmpp.Authn, s.Conn(), nil
		},
	}
}

// readyFeature is modelled on resource binding: required, ends the negotiation.
func readyFeature(needAuthn bool) xmpp.StreamFeature {
	f := xmpp.StreamFeature{
		Name:       xml.Name{Space: readyNS, Local: "ready"},
		Prohibited: xmpp.Ready,
		List: func(ctx context.Context, e xmlstream.TokenWriter, start xml.StartElement) (bool, error) {
			if err := e.EncodeToken(start); err != nil {
				return true, err
			}
			return true, e.EncodeToken(start.End())
		},
		Parse: func(ctx context.Context, d *xml.Decoder, start *xml.StartElement) (bool, interface{}, error) {
			return true, nil, d.Skip()
		},
		Negotiate: func(ctx context.Context, s *xmpp.Session, data interface{}) (xmpp.SessionState, io.ReadWriter, error) {
			if s.State()&xmpp.Received != 0 {
				if err := skipElement(s); err != nil {
					return 0, nil, err
				}
				_, err := fmt.Fprintf(s.Conn(), `<ok xmlns='%s'/>`, readyNS)
				return xmpp.Ready, nil, err
			}
			if _, err := fmt.Fprintf(s.Conn(), `<ready xmlns='%s'/>`, readyNS); err != nil {
				return 0, nil, err
			}
			return xmpp.Ready, nil, expectElement(s, xml.Name{Space: readyNS, Local: "ok"})
		},
	}
	if needAuthn {
		f.Necessary = xmpp.Authn
	}
	return f
}

// skipElement consumes one complete element from the session.
func skipElement(s *xmpp.Session) error { return expectElement(s, xml.Name{}) }

// expectElement consumes one complete element from the session; it must have the given name
// (any name if the local name is empty).
func expectElement(s *xmpp.Session, name xml.Name) error {
	rd := s.TokenReader()
	defer rd.Close()
	depth := 0
	for {
		tok, err := rd.Token()
		if err != nil {
			return err
		}
		switch t := tok.(type) {
		case xml.StartElement:
			if depth == 0 && name.Local != "" && t.Name != name {
				return fmt.Errorf("vt: expected %v, got %v", name, t.Name)
			}
			depth++
		case xml.EndElement:
			depth--
		default:
			continue
		}
		if depth <= 0 {
			return nil
		}
	}
}

func (r *run) featureList() []xmpp.StreamFeature {
	var fs []xmpp.StreamFeature
	if r.sc.Restart {
		fs = append(fs, restartFeature())
	}
	if r.sc.Bidi {
		fs = append(fs, s2s.Bidi())
	}
	if r.sc.Role == "recv" {
		fs = append(fs, readyFeature(r.sc.Restart))
	}
	return fs
}

// ------------------------------------------------------------------------------------ constructors

func j(s string) jid.JID {
	if s == "" {
		return jid.JID{}
	}
	return jid.MustParse(s)
}

func (r *run) construct(ctx context.Context) (*xmpp.Session, error) {
	sc := r.sc
	fs := r.featureList()
	cfg := func(*xmpp.Session, *xmpp.StreamConfig) xmpp.StreamConfig { return xmpp.StreamConfig{Features: fs} }
	var state xmpp.SessionState
	if sc.Secure {
		state |= xmpp.Secure
	}
	local, remote := j(r.ad.localArg), j(r.ad.remoteArg)
	var rw io.ReadWriter = r.conn
	switch sc.Kind + "/" + sc.Role + "/" + sc.Via {
	case "c2s/init/pkg":
		return xmpp.NewClientSession(ctx, local, rw, fs...)
	case "c2s/init/gen":
		return xmpp.NewSession(ctx, remote, local, rw, state, xmpp.NewNegotiator(cfg))
	case "c2s/recv/pkg":
		return xmpp.ReceiveClientSession(ctx, jid.JID{}, rw, fs...)
	case "c2s/recv/gen":
		return xmpp.ReceiveSession(ctx, rw, state, xmpp.NewNegotiator(cfg))
	case "s2s/init/pkg":
		return xmpp.NewServerSession(ctx, remote, local, rw, fs...)
	case "s2s/init/gen":
		return xmpp.NewSession(ctx, remote, local, rw, state|xmpp.S2S, xmpp.NewNegotiator(cfg))
	case "s2s/recv/pkg":
		return xmpp.ReceiveServerSession(ctx, local, remote, rw, fs...)
	case "s2s/recv/gen":
		return xmpp.ReceiveSession(ctx, rw, state|xmpp.S2S, xmpp.NewNegotiator(cfg))
	case "ws/init/pkg":
		return websocket.NewSession(ctx, local, rw, fs...)
	case "ws/init/gen":
		return xmpp.NewSession(ctx, remote, local, rw, state, websocket.Negotiator(cfg))
	case "ws/recv/pkg":
		return websocket.ReceiveSession(ctx, rw, fs...)
	case "ws/recv/gen":
		return xmpp.ReceiveSession(ctx, rw, state, websocket.Negotiator(cfg))
	case "comp/init/pkg":
		return component.NewSession(ctx, local, []byte("s3cr3t"), rw)
	case "comp/init/gen":
		return xmpp.NewSession(ctx, local, local, rw, state, component.Negotiator(local, []byte("s3cr3t"), false))
	}
	return nil, fmt.Errorf("driver: no constructor for %s/%s/%s", sc.Kind, sc.Role, sc.Via)
}

type handler struct{ r *run }

func (h handler) HandleXMPP(t xmlstream.TokenReadEncoder, start *xml.StartElement) error {
	h.r.log(vt.Ev{"ev": "h", "n": start.Name.Local, "ns": sym(start.Name.Space)})
	return nil
}

func (r *run) exec() []vt.Ev {
	r.ad = r.sc.addrs()
	r.conn = vt.NewConn()
	r.conn.React = r.react
	r.conn.Starve = r.starve
	r.phase = "neg"
	ctx, cancel := context.WithCancel(context.Background())
	defer cancel()

	type cres struct {
		s   *xmpp.Session
		err error
		p   interface{}
	}
	cdone := make(chan cres, 1)
	go func() {
		var res cres
		defer func() {
			if p := recover(); p != nil {
				res.p = p
			}
			cdone <- res
		}()
		res.s, res.err = r.construct(ctx)
	}()
	var res cres
	select {
	case res = <-cdone:
	case <-time.After(3 * stepWait):
		r.mu.Lock()
		r.stuck = true
		r.mu.Unlock()
		r.log(vt.Ev{"ev": "stuck", "who": "ctor"})
		r.conn.CloseIn()
		r.conn.Close()
		r.log(vt.Ev{"ev": "end"})
		return r.evs
	}
	e := vt.Ev{"ev": "ctor", "err": "nil", "msg": "", "ready": false, "recvbit": false, "s2sbit": false, "outclosed": false, "inclosed": false,
		"local": "", "remote": ""}
	switch {
	case res.p != nil:
		e["err"], e["msg"] = "panic", fmt.Sprint(res.p)
	default:
		e["err"], e["msg"] = errClass(res.err)
	}
	if res.s != nil {
		r.s = res.s
		r.bits(e)
		e["local"], e["remote"] = res.s.LocalAddr().String(), res.s.RemoteAddr().String()
	}
	r.log(e)
	if res.err != nil || res.p != nil || res.s == nil {
		r.conn.Starve = nil
		r.log(vt.Ev{"ev": "end"})
		return r.evs
	}

	r.phase = "est"
	sdone := make(chan vt.Ev, 1)
	go func() {
		e := vt.Ev{"ev": "serve_ret", "err": "nil", "msg": ""}
		defer func() {
			if p := recover(); p != nil {
				e["err"], e["msg"] = "panic", fmt.Sprint(p)
			}
			sdone <- e
		}()
		e["err"], e["msg"] = errClass(r.s.Serve(handler{r}))
	}()
	select {
	case e := <-sdone:
		r.conn.Starve = nil
		r.log(r.bits(e))
	case <-time.After(3 * stepWait):
		r.mu.Lock()
		r.stuck = true
		r.mu.Unlock()
		r.log(vt.Ev{"ev": "stuck", "who": "serve"})
		r.conn.CloseIn()
		r.conn.Close()
		r.log(vt.Ev{"ev": "end"})
		return r.evs
	}
	// the closed phase: the remaining local calls of the script
	r.phase = "post"
	for ; r.next < len(r.sc.Script); r.next++ {
		if it := r.sc.Script[r.next]; isCall(it) {
			r.call(r.next+1, it)
		}
	}
	r.log(vt.Ev{"ev": "end"})
	r.mu.Lock()
	defer r.mu.Unlock()
	return r.evs
}

func main() {
	if len(os.Args) < 4 || os.Args[1] != "run" {
		fmt.Fprintln(os.Stderr, "usage: framing run <scenarios.ndjson> <trace.ndjson>")
		os.Exit(2)
	}
	shard, shards := 0, 1
	if v := os.Getenv("FRAMING_SHARD"); v != "" {
		p := strings.Split(v, "/")
		shard, _ = strconv.Atoi(p[0])
		shards, _ = strconv.Atoi(p[1])
	}
	if v := os.Getenv("FRAMING_STEPWAIT_MS"); v != "" {
		ms, _ := strconv.Atoi(v)
		stepWait = time.Duration(ms) * time.Millisecond
	}
	f, err := os.Open(os.Args[2])
	if err != nil {
		panic(err)
	}
	tw, err := vt.NewTraceWriter(os.Args[3])
	if err != nil {
		panic(err)
	}
	in := bufio.NewScanner(f)
	in.Buffer(make([]byte, 1<<20), 1<<24)
	var sum vt.Summary
	frames, bad, wsFrames, wsBad := 0, 0, 0, 0
	n := -1
	for in.Scan() {
		if len(strings.TrimSpace(in.Text())) == 0 {
			continue
		}
		n++
		if n%shards != shard {
			continue
		}
		var s Scenario
		if err := json.Unmarshal(in.Bytes(), &s); err != nil {
			panic(err)
		}
		fmt.Printf("SCENARIO %d\n", n)
		r := &run{sc: s}
		evs := r.exec()
		var raw map[string]interface{}
		json.Unmarshal(in.Bytes(), &raw)
		tw.Write(vt.Ev{"sc": raw}, evs)
		tw.Meta(map[string]interface{}{"scenario": raw, "n": n})
		sum.Evaluations++
		frames += r.frames
		bad += r.badFrame
		if s.Kind == "ws" {
			wsFrames += r.frames
			wsBad += r.badFrame
		}
		if len(sum.Samples) < 2 && len(evs) > 8 {
			sum.Samples = append(sum.Samples, map[string]interface{}{"scenario": raw, "events": evs})
		}
	}
	sum.Traces, sum.Events = tw.Counts()
	sum.Extra = map[string]interface{}{"writes": frames, "writes_not_one_element": bad, "ws_writes": wsFrames, "ws_writes_not_one_element": wsBad}
	if err := tw.Close(); err != nil {
		panic(err)
	}
	sum.Print()
}
