// Command correlate explores schedules of correlated requests (SendIQ / SendMessage /
// SendPresence and friends) on a really served session under the single-runner scheduler
// and records one trace per schedule for validation against tla/Correlate.tla.
//
//	correlate run <scenarios.ndjson> <trace.ndjson>    env: COR_MAXPRE, COR_MAXRUNS, COR_SHARD=i/n
package main

import (
	"bufio"
	"context"
	"encoding/json"
	"encoding/xml"
	"errors"
	"fmt"
	"io"
	"os"
	"regexp"
	"strconv"
	"strings"
	"sync"

	"mellium.im/xmlstream"
	"mellium.im/xmpp"
	"mellium.im/xmpp/component"
	"mellium.im/xmpp/jid"
	"mellium.im/xmpp/stanza"
	"mellium.im/xmpp/stream"
	"mellium.im/xmpp/websocket"

	"verifharness/vt"
)

type Req struct {
	Name  string `json:"name"`
	Kind  string `json:"kind"` // iq message presence
	Call  string `json:"call"` // sendiq sendiqel unmarshaliq encodeiq sendmsg sendpres
	Reads int    `json:"reads"`
	// IDMode: "" = the caller supplies the id (its own name); "absent" = no id attribute, "empty" = an
	// empty id attribute: the library generates the id, the peer answers with the id it saw on the wire
	IDMode string `json:"idmode"`
	// Hold: the application does something else between obtaining the response and closing it (a yield
	// point of its own after the call returned): contexts may end and the serve loop may run in between
	Hold bool `json:"hold"`
}

type Item struct {
	ID   string `json:"id"`
	Kind string `json:"kind"`
	Resp bool   `json:"resp"`
	Err  bool   `json:"err"` // type error instead of result (iq)
	// After: the peer sends this item only after the named requester's call has returned (a late reply)
	After string `json:"after"`
}

type Scenario struct {
	Reqs    []Req    `json:"reqs"`
	Peer    []Item   `json:"peer"`
	Cancels []string `json:"cancels"`
	// CloseOut: a goroutine closes the output stream, so that a request's send can fail
	CloseOut bool `json:"closeout"`
	// SKind: the kind of session the requests are issued on: "" / c2s (initiated, application negotiator),
	// c2s-recv (received), s2s (initiated, jabber:server), ws (websocket.NewSession), comp
	// (component.NewSession against a scripted component server)
	SKind string `json:"skind"`
	// Qual: how the peer qualifies its stanzas: "" / default = unqualified within the stream's default
	// namespace, explicit = the session's stanza namespace declared on the stanza itself
	Qual string `json:"qual"`
	// MaxRuns > 0 caps the schedules explored for this scenario (overrides COR_MAXRUNS)
	MaxRuns int `json:"maxruns"`
}

func (sc Scenario) skind() string {
	if sc.SKind == "" {
		return "c2s"
	}
	return sc.SKind
}

func (sc Scenario) qual() string {
	if sc.skind() == "ws" {
		return "explicit" // every top-level element of a WebSocket stream names its namespace
	}
	if sc.Qual == "" {
		return "default"
	}
	return sc.Qual
}

// contentNS is the namespace the stanzas of a session of that kind live in.
func (sc Scenario) contentNS() string {
	switch sc.skind() {
	case "s2s":
		return stanza.NSServer
	case "comp":
		return component.NSAccept
	}
	return stanza.NSClient
}

const (
	streamNS  = "http://etherx.jabber.org/streams"
	framingNS = "urn:ietf:params:xml:ns:xmpp-framing"
)

func tcpHeader(ns string) string {
	return fmt.Sprintf(`<stream:stream from="example.net" to="me@example.net" id="123" version="1.0" xmlns="%s" xmlns:stream="%s">`, ns, streamNS)
}

// openSession makes a real session of the scenario's kind over conn; the peer's part of the negotiation is
// fed beforehand (the transport is buffered, the negotiation runs before the scheduler exists).
func openSession(sc Scenario, conn *vt.Conn) (*xmpp.Session, error) {
	ctx := context.Background()
	local, remote := jid.MustParse("me@example.net"), jid.MustParse("example.net")
	switch sc.skind() {
	case "c2s":
		conn.FeedString(tcpHeader(stanza.NSClient))
		return xmpp.NewSession(ctx, remote, local, conn, 0, nopNeg(stanza.NSClient))
	case "c2s-recv":
		conn.FeedString(tcpHeader(stanza.NSClient))
		return xmpp.ReceiveSession(ctx, conn, 0, nopNeg(stanza.NSClient))
	case "s2s":
		conn.FeedString(tcpHeader(stanza.NSServer))
		return xmpp.NewSession(ctx, remote, jid.MustParse("me.example"), conn, xmpp.S2S, nopNeg(stanza.NSServer))
	case "ws":
		conn.FeedString(fmt.Sprintf(`<open xmlns="%s" from="example.net" to="me@example.net" id="123" version="1.0"/><stream:features xmlns:stream="%s"/>`,
			framingNS, streamNS))
		return websocket.NewSession(ctx, local, conn)
	case "comp":
		// the scripted component server: its stream header (the handshake is the hash of its id and the
		// secret; a scripted server accepts it) and the acknowledgement
		conn.FeedString(fmt.Sprintf(`<?xml version='1.0'?><stream:stream xmlns='%s' xmlns:stream='%s' from='comp.example.net' id='sid1'><handshake/>`,
			component.NSAccept, streamNS))
		return component.NewSession(ctx, jid.MustParse("comp.example.net"), []byte("s3cr3t"), conn)
	}
	return nil, fmt.Errorf("driver: unknown session kind %q", sc.SKind)
}

func nopNeg(ns string) xmpp.Negotiator {
	return func(ctx context.Context, in, out *stream.Info, s *xmpp.Session, data interface{}) (xmpp.SessionState, io.ReadWriter, interface{}, error) {
		rc := s.TokenReader()
		defer rc.Close()
		for {
			tok, err := rc.Token()
			if err != nil {
				return 0, nil, nil, err
			}
			if st, ok := tok.(xml.StartElement); ok {
				if err := in.FromStartElement(st); err != nil {
					return 0, nil, nil, err
				}
				break
			}
		}
		out.XMLNS = ns
		return xmpp.Ready, nil, nil, nil
	}
}

var wireRe = regexp.MustCompile(`<(?:iq|message|presence)[^>]*\bid="([^"]*)"[^>]*>\s*<x [^>]*who="([^"]*)"`)

// itemBytes renders a peer item; ns is "" (unqualified: the stream's default namespace) or the xmlns
// attribute the peer declares on the stanza.
func itemBytes(it Item, ns string) string {
	return strings.Replace(itemBytes0(it), " id='", ns+" id='", 1)
}

func itemBytes0(it Item) string {
	switch it.Kind {
	case "iq":
		switch {
		case it.Resp && it.Err:
			return fmt.Sprintf("<iq id='%s' type='error'><error type='cancel'><item-not-found xmlns='urn:ietf:params:xml:ns:xmpp-stanzas'/></error></iq>", it.ID)
		case it.Resp:
			return fmt.Sprintf("<iq id='%s' type='result'><x xmlns='urn:vt:x'>r</x></iq>", it.ID)
		}
		return fmt.Sprintf("<iq id='%s' type='get'><x xmlns='urn:vt:x'/></iq>", it.ID)
	case "message":
		if it.Resp {
			return fmt.Sprintf("<message id='%s' type='error'><body>e</body></message>", it.ID)
		}
		return fmt.Sprintf("<message id='%s' type='chat'><body>m</body></message>", it.ID)
	case "presence":
		if it.Resp {
			return fmt.Sprintf("<presence id='%s' type='error'/>", it.ID)
		}
		return fmt.Sprintf("<presence id='%s'/>", it.ID)
	}
	panic("kind")
}

type payload struct {
	XMLName xml.Name `xml:"urn:vt:x x"`
	Who     string   `xml:"who,attr,omitempty"`
}

type result struct {
	evs  []vt.Ev
	res  vt.RunResult
	note string
}

func runSchedule(sc Scenario, choices []int) result {
	lg := &vt.Log{}
	conn := vt.NewConn()
	sess, err := openSession(sc, conn)
	if err != nil {
		panic(fmt.Sprintf("session of kind %q could not be made: %v", sc.skind(), err))
	}
	negWire := len(conn.WireString()) // what the negotiation wrote: not part of the request / reply stream
	nsAttr := ""
	if sc.qual() == "explicit" {
		nsAttr = " xmlns='" + sc.contentNS() + "'"
	}
	sched := vt.NewSched()
	// ids: a requester's stanza id is its own name unless the library generates it; then the
	// events are normalised to the requester's name: requester-side hooks by the goroutine they
	// run in, serve-side hooks and handler calls by the id seen on the wire for that request
	isReq := map[string]bool{}
	for _, r := range sc.Reqs {
		isReq[r.Name] = true
	}
	var idmu sync.Mutex
	wireID := map[string]string{} // id on the wire -> requester
	nameOfWire := func(id string) string {
		idmu.Lock()
		defer idmu.Unlock()
		if n, ok := wireID[id]; ok {
			return n
		}
		return id
	}
	xmpp.VerifHook = func(point, id string) {
		if !sched.Mine() {
			return
		}
		who := sched.Who()
		switch {
		case strings.HasPrefix(point, "resp.") && isReq[who]:
			id = who
		case strings.HasPrefix(point, "serve."):
			id = nameOfWire(id)
		}
		// log on arrival: the hooks sit right after a state change (or right before a
		// blocking operation), so the event belongs to the run slot that made the change
		lg.Add(vt.Ev{"ev": "hook", "p": who, "point": point, "id": id})
		sched.Gate(point)
	}
	var wirebuf []byte // the tail of what was written that may still hold an incomplete request
	conn.React = func(p []byte) {
		// however the library splits an element into transport writes, look at the byte stream
		idmu.Lock()
		defer idmu.Unlock()
		wirebuf = append(wirebuf, p...)
		last := 0
		for _, m := range wireRe.FindAllSubmatchIndex(wirebuf, -1) {
			wireID[string(wirebuf[m[2]:m[3]])] = string(wirebuf[m[4]:m[5]])
			last = m[1]
		}
		wirebuf = wirebuf[last:]
		if len(wirebuf) > 1<<16 {
			wirebuf = wirebuf[len(wirebuf)-1<<12:]
		}
	}
	defer func() { xmpp.VerifHook = nil }()
	conn.Gate = func(point string) { sched.Gate(point) }
	// ... and once more when the bytes are on the wire, before the writer gets any further: the peer may answer a
	// request before its sender has done whatever it does next
	conn.GateWritten = func() { sched.Gate("conn.written") }
	returned := map[string]bool{}
	cancelledNow := map[string]bool{}
	ctxs := map[string]context.Context{}
	cancels := map[string]context.CancelFunc{}
	for _, r := range sc.Reqs {
		ctxs[r.Name], cancels[r.Name] = context.WithCancel(context.Background())
	}
	for _, r := range sc.Reqs {
		r := r
		sched.Go(r.Name, func() {
			ctx := ctxs[r.Name]
			var resp xmlstream.TokenReadCloser
			var err error
			body := func() xml.TokenReader {
				return xmlstream.Wrap(nil, xml.StartElement{Name: xml.Name{Space: "urn:vt:x", Local: "x"},
					Attr: []xml.Attr{{Name: xml.Name{Local: "who"}, Value: r.Name}}})
			}
			reqID := r.Name
			if r.IDMode != "" {
				reqID = ""
			}
			// a request whose start element carries an EMPTY id attribute (legal input for SendIQ)
			rawIQ := func(typ string) xml.TokenReader {
				return xmlstream.Wrap(body(), xml.StartElement{Name: xml.Name{Local: "iq"}, Attr: []xml.Attr{
					{Name: xml.Name{Local: "id"}, Value: ""}, {Name: xml.Name{Local: "type"}, Value: typ}}})
			}
			func() {
				defer func() {
					if p := recover(); p != nil {
						err = fmt.Errorf("panic: %v", p)
					}
				}()
				switch r.Call {
				case "sendiq":
					if r.IDMode == "empty" {
						resp, err = sess.SendIQ(ctx, rawIQ("get"))
					} else {
						resp, err = sess.SendIQ(ctx, stanza.IQ{ID: reqID, Type: stanza.GetIQ}.Wrap(body()))
					}
				case "sendiqel":
					resp, err = sess.SendIQElement(ctx, body(), stanza.IQ{ID: reqID, Type: stanza.SetIQ})
				case "encodeiq":
					resp, err = sess.EncodeIQElement(ctx, payload{Who: r.Name}, stanza.IQ{ID: reqID, Type: stanza.GetIQ})
				case "unmarshaliq":
					var v payload
					err = sess.UnmarshalIQ(ctx, stanza.IQ{ID: reqID, Type: stanza.GetIQ}.Wrap(body()), &v)
				case "sendmsg":
					resp, err = sess.SendMessage(ctx, stanza.Message{ID: reqID, Type: stanza.NormalMessage}.Wrap(body()))
				case "sendpres":
					resp, err = sess.SendPresence(ctx, stanza.Presence{ID: reqID}.Wrap(body()))
				default:
					panic("call " + r.Call)
				}
			}()
			returned[r.Name] = true
			e := vt.Ev{"ev": "ret", "i": r.Name}
			switch {
			case err == nil && resp != nil:
				tok, terr := resp.Token()
				e["outcome"] = "reply"
				e["rid"], e["rkind"] = "", ""
				if st, ok := tok.(xml.StartElement); ok && terr == nil {
					e["rkind"] = st.Name.Local
					for _, a := range st.Attr {
						if a.Name.Local == "id" {
							e["rid"] = nameOfWire(a.Value)
						}
					}
				}
				lg.Add(e)
				if r.Hold {
					sched.Gate("caller.got")
				}
				for k := 0; k < r.Reads; k++ {
					if _, err := resp.Token(); err != nil {
						break
					}
				}
				lg.Add(vt.Ev{"ev": "closeresp", "i": r.Name})
				resp.Close()
				return
			case err == nil:
				// UnmarshalIQ consumed and closed the response itself
				e["outcome"] = "reply"
				e["rid"], e["rkind"] = r.Name, r.Kind
				lg.Add(e)
				return
			case errors.Is(err, context.Canceled):
				e["outcome"] = "ctxerr"
			case r.Call == "unmarshaliq" && isStanzaErr(err):
				e["outcome"] = "reply"
				e["rid"], e["rkind"] = r.Name, r.Kind
			default:
				e["outcome"] = "senderr"
				e["err"] = err.Error()
			}
			lg.Add(e)
		})
	}
	h := xmpp.HandlerFunc(func(t xmlstream.TokenReadEncoder, start *xml.StartElement) error {
		id, typ := "", ""
		for _, a := range start.Attr {
			switch a.Name.Local {
			case "id":
				id = a.Value
			case "type":
				typ = a.Value
			}
		}
		resp := typ == "result" || typ == "error"
		lg.Add(vt.Ev{"ev": "handler", "id": nameOfWire(id), "kind": start.Name.Local, "resp": resp})
		return nil
	})
	sched.Go("s", func() {
		err := sess.Serve(h)
		e := vt.Ev{"ev": "serve_ret"}
		if err != nil {
			e["err"] = err.Error()
		}
		lg.Add(e)
	})
	if sc.CloseOut {
		sched.Go("c", func() { sess.Close() })
	}
	fed := 0
	for i, it := range sc.Peer {
		i, it := i, it
		onWire := func(name string) (string, bool) {
			idmu.Lock()
			defer idmu.Unlock()
			for id, n := range wireID {
				if n == name {
					return id, true
				}
			}
			return "", false
		}
		sched.Env(&vt.EnvAction{Name: fmt.Sprintf("peer%d", i), Once: true,
			Enabled: func() bool {
				if fed != i {
					return false
				}
				if it.After != "" && !returned[it.After] {
					return false
				}
				if strings.HasPrefix(it.ID, "@") { // answers the request it has seen on the wire
					_, ok := onWire(it.ID[1:])
					return ok
				}
				return true
			},
			Do: func() {
				fed++
				x := it
				name := it.ID
				if strings.HasPrefix(it.ID, "@") {
					name = it.ID[1:]
					x.ID, _ = onWire(name)
				}
				lg.Add(vt.Ev{"ev": "peer", "item": vt.Ev{"id": name, "kind": it.Kind, "resp": it.Resp, "q": sc.qual()}})
				conn.FeedString(itemBytes(x, nsAttr))
			}})
	}
	for _, cs := range sc.Cancels {
		// "i1" = at any time; "i1>sent" = once the request is on the wire; "i1>got" = once the call has returned
		c, phase := cs, ""
		if k := strings.Index(cs, ">"); k >= 0 {
			c, phase = cs[:k], cs[k+1:]
		}
		if cancels[c] == nil {
			panic("scenario cancels " + c + ", which is not one of its requesters")
		}
		var enabled func() bool
		switch phase {
		case "":
		case "sent":
			enabled = func() bool {
				idmu.Lock()
				defer idmu.Unlock()
				for _, n := range wireID {
					if n == c {
						return true
					}
				}
				return false
			}
		case "got":
			enabled = func() bool { return returned[c] }
		default:
			panic("scenario: unknown cancellation phase " + cs)
		}
		sched.Env(&vt.EnvAction{Name: "cancel:" + c, Once: true, Enabled: enabled, Do: func() {
			cancelledNow[c] = true
			lg.Add(vt.Ev{"ev": "cancel", "i": c})
			cancels[c]()
		}})
	}
	stage := 0
	res, note := sched.Drive(choices, 600, func() bool {
		stage++
		switch stage {
		case 1:
			// everybody is blocked: end the peer's stream so that Serve can finish
			conn.CloseIn()
			return true
		case 2:
			// requesters still waiting for a reply that will never come (live context, silent
			// peer) are legitimate: cancel exactly those. Contexts of requesters that have
			// already returned stay live - the serve loop must not depend on them.
			n := 0
			for _, r := range sc.Reqs {
				if !returned[r.Name] && !cancelledNow[r.Name] {
					cancelledNow[r.Name] = true
					lg.Add(vt.Ev{"ev": "cancel", "i": r.Name})
					cancels[r.Name]()
					n++
				}
			}
			return n > 0
		}
		return false
	})
	if note == "stuck" {
		lg.Add(vt.Ev{"ev": "stuck", "blocked": fmt.Sprint(sched.Blocked())})
	}
	// C07 seen from here: every get/set the peer sent must have got exactly one reply on the wire
	{
		counts := map[string]int{}
		var scn vt.Scanner
		for _, t := range scn.Feed([]byte(conn.WireString()[negWire:])) {
			if (t.Kind == "start" || t.Kind == "empty") && t.Depth == 0 && vt.Local(t.Name) == "iq" &&
				(t.Attr["type"] == "error" || t.Attr["type"] == "result") {
				counts[t.Attr["id"]]++
			}
		}
		items := []interface{}{}
		seen := map[string]bool{}
		for _, it := range sc.Peer {
			if it.Kind == "iq" && !it.Resp && !seen[it.ID] {
				seen[it.ID] = true
				items = append(items, vt.Ev{"id": it.ID, "n": counts[it.ID]})
			}
		}
		lg.Add(vt.Ev{"ev": "replies", "items": items})
	}
	lg.Add(vt.Ev{"ev": "end"})
	sched.Stop()
	for _, c := range cancels {
		c()
	}
	conn.CloseIn()
	return result{evs: lg.Events(), res: res, note: note}
}

func scMaxRuns(sc Scenario, def int) int {
	if sc.MaxRuns > 0 {
		return sc.MaxRuns
	}
	return def
}

func isStanzaErr(err error) bool {
	var se stanza.Error
	return errors.As(err, &se)
}

func main() {
	if len(os.Args) < 4 || os.Args[1] != "run" {
		fmt.Fprintln(os.Stderr, "usage: correlate run <scenarios.ndjson> <trace.ndjson>")
		os.Exit(2)
	}
	f, err := os.Open(os.Args[2])
	if err != nil {
		panic(err)
	}
	var scs []Scenario
	rd := bufio.NewScanner(f)
	rd.Buffer(make([]byte, 1<<20), 1<<24)
	for rd.Scan() {
		var s Scenario
		if err := json.Unmarshal(rd.Bytes(), &s); err != nil {
			panic(err)
		}
		scs = append(scs, s)
	}
	f.Close()
	maxPre := 2
	if v := os.Getenv("COR_MAXPRE"); v != "" {
		maxPre, _ = strconv.Atoi(v)
	}
	maxRuns, _ := strconv.Atoi(os.Getenv("COR_MAXRUNS"))
	shard, nshard := 0, 1
	if s := os.Getenv("COR_SHARD"); s != "" {
		fmt.Sscanf(s, "%d/%d", &shard, &nshard)
	}
	tw, err := vt.NewTraceWriter(os.Args[3])
	if err != nil {
		panic(err)
	}
	runs, stuck := 0, 0
	distinct := map[string]bool{}
	var samples []interface{}
	for si, sc := range scs {
		if si%nshard != shard {
			continue
		}
		var last result
		vt.Explore(func(choices []int) vt.RunResult {
			last = runSchedule(sc, choices)
			return last.res
		}, maxPre, scMaxRuns(sc, maxRuns), func(choices []int) bool {
			runs++
			if last.note == "stuck" {
				stuck++
			}
			key, _ := json.Marshal(last.evs)
			if distinct[string(key)] {
				return true
			}
			distinct[string(key)] = true
			reqs := []string{}
			for _, r := range sc.Reqs {
				reqs = append(reqs, r.Name)
			}
			auto := []string{}
			for _, r := range sc.Reqs {
				if r.Call == "unmarshaliq" {
					auto = append(auto, r.Name)
				}
			}
			t := tw.Write(vt.Ev{"reqs": reqs, "autoclose": auto, "skind": sc.skind()}, last.evs)
			tw.Meta(vt.Ev{"scenario": sc, "choices": choices, "note": last.note})
			if len(samples) < 2 {
				samples = append(samples, vt.Ev{"t": t, "scenario": sc, "choices": choices, "events": last.evs})
			}
			return true
		})
	}
	if err := tw.Close(); err != nil {
		panic(err)
	}
	tr, ev := tw.Counts()
	vt.Summary{Traces: tr, Events: ev, Evaluations: runs, Distinct: len(distinct), Samples: samples,
		Extra: map[string]interface{}{"stuck": stuck}}.Print()
}
