package vt

import (
	"fmt"
	"regexp"
	"runtime"
	"sort"
	"strconv"
	"strings"
	"sync"
	"time"
)

// Sched is a single-runner scheduler for the real library code: goroutines started with
// Go park at gates (transport reads/writes, verifYield hooks); exactly one is released at
// a time and runs until its next gate, its end, or until it blocks on a Go primitive
// (detected from runtime.Stack). Between releases the scheduler may perform environment
// actions (cancel a context, deliver peer bytes ...). Because only one goroutine runs
// between decisions, the event log is a total order without any clock.
//
// One Sched per process at a time: blocked-goroutine detection looks at all goroutines.
type Sched struct {
	mu      sync.Mutex
	arrive  chan *gate
	done    chan int
	parked  map[int]*gate
	names   map[int]string // controlled goroutines by id
	byName  map[string]int
	live    map[int]bool
	envs    []*EnvAction
	self    int
	Enabled bool

	// Trace of decisions: "name@point".
	Steps []string
	// OnStep is called by the scheduler goroutine before releasing a choice.
	OnStep func(actor, point string)
	auto   int
}

type gate struct {
	gid    int
	point  string
	resume chan struct{}
}

// EnvAction is an environment step owned by the scheduler.
type EnvAction struct {
	Name    string
	Enabled func() bool
	Do      func()
	Once    bool
	used    bool
}

// NewSched returns an active scheduler owned by the calling goroutine (the driver): every
// other goroutine that reaches a gate parks there until the driver releases it.
func NewSched() *Sched {
	return &Sched{
		self:    goid(),
		Enabled: true,
		arrive: make(chan *gate, 256),
		done:   make(chan int, 256),
		parked: map[int]*gate{},
		names:  map[int]string{},
		byName: map[string]int{},
		live:   map[int]bool{},
	}
}

func goid() int {
	var b [64]byte
	n := runtime.Stack(b[:], false)
	f := strings.Fields(string(b[:n]))
	id, _ := strconv.Atoi(f[1])
	return id
}

// Gate parks the calling goroutine until the scheduler releases it. Goroutines the
// scheduler did not start (library helpers) are registered on first arrival.
func (s *Sched) Gate(point string) {
	if s == nil || !s.Enabled {
		return
	}
	id := goid()
	if id == s.self {
		return // environment actions run in the scheduler goroutine itself
	}
	g := &gate{gid: id, point: point, resume: make(chan struct{})}
	s.arrive <- g
	<-g.resume
}

// Go starts a controlled goroutine; it parks at gate "start" before running f.
func (s *Sched) Go(name string, f func()) {
	ch := make(chan int)
	go func() {
		id := goid()
		ch <- id
		s.Gate("start")
		defer func() { s.done <- id }()
		f()
	}()
	id := <-ch
	s.mu.Lock()
	s.names[id] = name
	s.byName[name] = id
	s.live[id] = true
	s.mu.Unlock()
}

// Env registers an environment action.
func (s *Sched) Env(a *EnvAction) { s.envs = append(s.envs, a) }

var stRe = regexp.MustCompile(`(?m)^goroutine (\d+) \[([^\],]+)`)

func statuses() map[int]string {
	buf := make([]byte, 1<<20)
	n := runtime.Stack(buf, true)
	m := map[int]string{}
	for _, x := range stRe.FindAllStringSubmatch(string(buf[:n]), -1) {
		id, _ := strconv.Atoi(x[1])
		m[id] = x[2]
	}
	return m
}

func blockedStatus(st string) bool {
	switch st {
	case "running", "runnable", "syscall":
		return false
	}
	return true
}

func (s *Sched) drain() bool {
	got := false
	for {
		select {
		case g := <-s.arrive:
			s.mu.Lock()
			if _, ok := s.names[g.gid]; !ok {
				s.auto++
				n := fmt.Sprintf("lib%d", s.auto)
				s.names[g.gid] = n
				s.byName[n] = g.gid
				s.live[g.gid] = true
			}
			s.parked[g.gid] = g
			s.mu.Unlock()
			got = true
		case id := <-s.done:
			s.mu.Lock()
			delete(s.live, id)
			s.mu.Unlock()
			got = true
		default:
			return got
		}
	}
}

// settle waits until every goroutine of the process other than the scheduler is parked
// at a gate, blocked on a primitive, or gone - unchanged over two consecutive polls.
func (s *Sched) settle() {
	stable := 0
	var prev string
	deadline := time.Now().Add(5 * time.Second)
	for {
		if s.drain() {
			stable = 0
		}
		st := statuses()
		quiet := true
		var sig []string
		for id, x := range st {
			if id == s.self {
				continue
			}
			if !blockedStatus(x) {
				quiet = false
			}
			sig = append(sig, strconv.Itoa(id)+x)
		}
		sort.Strings(sig)
		cur := strings.Join(sig, ",")
		if quiet && cur == prev && len(s.arrive) == 0 && len(s.done) == 0 {
			stable++
			if stable >= 2 {
				return
			}
		} else {
			stable = 0
		}
		prev = cur
		if time.Now().After(deadline) {
			return
		}
		time.Sleep(100 * time.Microsecond)
	}
}

// Option is one possible next decision.
type Option struct {
	Name  string
	Point string
	env   *EnvAction
	gid   int
}

// Options returns the enabled decisions in deterministic order (after settling).
func (s *Sched) Options() []Option {
	s.settle()
	var o []Option
	s.mu.Lock()
	for gid, g := range s.parked {
		o = append(o, Option{Name: s.names[gid], Point: g.point, gid: gid})
	}
	s.mu.Unlock()
	for _, e := range s.envs {
		if (!e.Once || !e.used) && (e.Enabled == nil || e.Enabled()) {
			o = append(o, Option{Name: "env", Point: e.Name, env: e})
		}
	}
	sort.Slice(o, func(i, j int) bool {
		if o[i].Name != o[j].Name {
			return o[i].Name < o[j].Name
		}
		return o[i].Point < o[j].Point
	})
	return o
}

// Live returns the number of controlled goroutines that have not finished.
func (s *Sched) Live() int {
	s.mu.Lock()
	defer s.mu.Unlock()
	return len(s.live)
}

// Blocked returns the names of live controlled goroutines that are not parked at a gate
// (i.e. blocked on a Go primitive), with their wait status.
func (s *Sched) Blocked() map[string]string {
	st := statuses()
	res := map[string]string{}
	s.mu.Lock()
	defer s.mu.Unlock()
	for id := range s.live {
		if _, p := s.parked[id]; p {
			continue
		}
		res[s.names[id]] = st[id]
	}
	return res
}

// Take performs one decision.
func (s *Sched) Take(o Option) {
	s.Steps = append(s.Steps, o.Name+"@"+o.Point)
	if s.OnStep != nil {
		s.OnStep(o.Name, o.Point)
	}
	if o.env != nil {
		o.env.used = true
		o.env.Do()
		return
	}
	s.mu.Lock()
	g := s.parked[o.gid]
	delete(s.parked, o.gid)
	s.mu.Unlock()
	close(g.resume)
}

// Start activates the gates; call from the goroutine that will drive the schedule.
func (s *Sched) Start() {}

// Stop releases everything that is still parked and deactivates the gates.
func (s *Sched) Stop() {
	s.Enabled = false
	s.drain()
	s.mu.Lock()
	for id, g := range s.parked {
		close(g.resume)
		delete(s.parked, id)
	}
	s.mu.Unlock()
	// late arrivals
	for i := 0; i < 50; i++ {
		time.Sleep(100 * time.Microsecond)
		select {
		case g := <-s.arrive:
			close(g.resume)
		default:
		}
	}
}

// Explore enumerates schedules depth-first (stateless model checking at gate
// granularity). run executes one schedule following the given choice prefix (index into
// Options() at each step, 0 beyond the prefix) and returns the number of options that
// were available at each step and, per step, whether taking a non-zero alternative there
// would be a pre-emption. Alternatives are expanded subject to maxPreempt.
type RunResult struct {
	NOpts   []int
	Preempt [][]bool // Preempt[i][alt]: choosing alt at step i pre-empts a runnable goroutine
}

func Explore(run func(choices []int) RunResult, maxPreempt, maxRuns int, each func(choices []int) bool) int {
	type item struct {
		choices []int
		pre     int
	}
	stack := []item{{nil, 0}}
	n := 0
	for len(stack) > 0 && (maxRuns <= 0 || n < maxRuns) {
		it := stack[len(stack)-1]
		stack = stack[:len(stack)-1]
		res := run(it.choices)
		n++
		if each != nil && !each(it.choices) {
			break
		}
		for i := len(res.NOpts) - 1; i >= len(it.choices); i-- {
			for alt := res.NOpts[i] - 1; alt >= 1; alt-- {
				p := it.pre
				if i < len(res.Preempt) && alt < len(res.Preempt[i]) && res.Preempt[i][alt] {
					p++
				}
				if maxPreempt >= 0 && p > maxPreempt {
					continue
				}
				nc := make([]int, i+1)
				copy(nc, it.choices)
				nc[i] = alt
				stack = append(stack, item{nc, p})
			}
		}
	}
	return n
}

// Who returns the scheduler's name of the calling goroutine ("" if unknown; "env" for
// the scheduler's own goroutine).
func (s *Sched) Who() string {
	id := goid()
	if id == s.self {
		return "env"
	}
	s.mu.Lock()
	defer s.mu.Unlock()
	return s.names[id]
}
