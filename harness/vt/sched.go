package vt

import (
	"fmt"
	"os"
	"regexp"
	"runtime"
	"sort"
	"strconv"
	"strings"
	"sync"
	"time"
)

// Sched is a single-runner scheduler for the real library code: goroutines started with
// Go park at gates (transport reads/writes, verifYield hooks); exactly one is released at
// a time and runs until its next gate, its end, or until it blocks on a Go primitive
// (detected from runtime.Stack). Between releases the scheduler may perform environment
// actions (cancel a context, deliver peer bytes ...). Because only one goroutine runs
// between decisions, the event log is a total order without any clock.
//
// One Sched per process at a time: blocked-goroutine detection looks at all goroutines.
type Sched struct {
	mu      sync.Mutex
	arrive  chan *gate
	done    chan int
	parked  map[int]*gate
	names   map[int]string // controlled goroutines by id
	byName  map[string]int
	live    map[int]bool
	envs    []*EnvAction
	self    int
	Enabled bool

	// AutoRegister: goroutines the scheduler did not start are registered (as libN) when
	// they first reach a gate; otherwise they pass through gates unhindered.
	AutoRegister bool

	// Trace of decisions: "name@point".
	Steps []string
	// OnStep is called by the scheduler goroutine before releasing a choice.
	OnStep func(actor, point string)
	auto   int
}

type gate struct {
	gid    int
	point  string
	resume chan struct{}
}

// EnvAction is an environment step owned by the scheduler.
type EnvAction struct {
	Name    string
	Enabled func() bool
	Do      func()
	Once    bool
	used    bool
	// App marks an action that calls into the library on behalf of the application and may BLOCK there
	// (a lock, a channel): it runs on a controlled goroutine of its own, started at once (no start gate);
	// the next settle() waits until it has returned or is blocked, so an action that returns leaves the
	// schedule exactly as an inline call would, and one that blocks shows up as a live, blocked goroutine
	// (a stall the driver can report) instead of hanging the driver.
	App bool
}

// NewSched returns an active scheduler owned by the calling goroutine (the driver): every
// other goroutine that reaches a gate parks there until the driver releases it.
func NewSched() *Sched {
	return &Sched{
		self:    goid(),
		Enabled: true,
		arrive: make(chan *gate, 256),
		done:   make(chan int, 256),
		parked: map[int]*gate{},
		names:  map[int]string{},
		byName: map[string]int{},
		live:   map[int]bool{},
	}
}

func goid() int {
	var b [64]byte
	n := runtime.Stack(b[:], false)
	f := strings.Fields(string(b[:n]))
	id, _ := strconv.Atoi(f[1])
	return id
}

// Gate parks the calling goroutine until the scheduler releases it. Goroutines the
// scheduler did not start (library helpers) are registered on first arrival.
func (s *Sched) Gate(point string) {
	if s == nil || !s.Enabled {
		return
	}
	id := goid()
	if id == s.self {
		return // environment actions run in the scheduler goroutine itself
	}
	if !s.AutoRegister && !s.knows(id) {
		return // not one of ours (e.g. a goroutine left over from an earlier run)
	}
	g := &gate{gid: id, point: point, resume: make(chan struct{})}
	s.arrive <- g
	<-g.resume
}

func (s *Sched) knows(id int) bool {
	s.mu.Lock()
	defer s.mu.Unlock()
	_, ok := s.names[id]
	return ok
}

// Mine reports whether the calling goroutine belongs to this scheduler's run.
func (s *Sched) Mine() bool {
	id := goid()
	return id == s.self || s.knows(id)
}

// Go starts a controlled goroutine; it parks at gate "start" before running f.
func (s *Sched) Go(name string, f func()) {
	ch := make(chan int)
	go func() {
		id := goid()
		s.mu.Lock()
		s.names[id] = name
		s.byName[name] = id
		s.live[id] = true
		s.mu.Unlock()
		ch <- id
		s.Gate("start")
		defer func() { s.done <- id }()
		f()
	}()
	<-ch
}

// spawn runs f on a controlled goroutine that starts at once (see EnvAction.App).
func (s *Sched) spawn(name string, f func()) {
	ch := make(chan int)
	go func() {
		id := goid()
		s.mu.Lock()
		s.names[id] = name
		s.byName[name] = id
		s.live[id] = true
		s.mu.Unlock()
		ch <- id
		defer func() { s.done <- id }()
		f()
	}()
	<-ch
}

// Env registers an environment action.
func (s *Sched) Env(a *EnvAction) { s.envs = append(s.envs, a) }

var stRe = regexp.MustCompile(`(?m)^goroutine (\d+) \[([^\],]+)`)

var stackBuf = make([]byte, 1<<20)

func statuses() map[int]string {
	// the dump must never be truncated: goroutines missing from it would look "gone" and the
	// scheduler would take its next decision while they are still running
	n := runtime.Stack(stackBuf, true)
	for n >= len(stackBuf) {
		stackBuf = make([]byte, 2*len(stackBuf))
		n = runtime.Stack(stackBuf, true)
	}
	m := map[int]string{}
	for _, x := range stRe.FindAllSubmatch(stackBuf[:n], -1) {
		id, _ := strconv.Atoi(string(x[1]))
		m[id] = string(x[2])
	}
	return m
}

// blockedStatus: only wait states that mean "parked on a Go synchronisation primitive
// until somebody else acts" count as blocked. Everything else - running, runnable,
// syscall, and transient runtime states such as "GC assist wait" or "preempted" - means
// the goroutine may still move by itself, so the system is not quiescent.
func blockedStatus(st string) bool {
	switch st {
	case "chan receive", "chan send", "select", "select (no cases)", "chan receive (nil chan)",
		"chan send (nil chan)", "sync.Mutex.Lock", "sync.RWMutex.RLock", "sync.RWMutex.Lock",
		"semacquire", "sync.Cond.Wait", "sync.WaitGroup.Wait", "IO wait", "finalizer wait",
		"GC worker (idle)", "GC sweep wait", "GC scavenge wait", "force gc (idle)", "debug call",
		"trace reader (blocked)", "cleanup wait":
		return true
	}
	return false
}

func (s *Sched) drain() bool {
	got := false
	for {
		select {
		case g := <-s.arrive:
			s.mu.Lock()
			if _, ok := s.names[g.gid]; !ok {
				s.auto++
				n := fmt.Sprintf("lib%d", s.auto)
				s.names[g.gid] = n
				s.byName[n] = g.gid
				s.live[g.gid] = true
			}
			s.parked[g.gid] = g
			s.mu.Unlock()
			got = true
		case id := <-s.done:
			s.mu.Lock()
			delete(s.live, id)
			s.mu.Unlock()
			got = true
		default:
			return got
		}
	}
}

// settle waits until every goroutine of the process other than the scheduler is parked
// at a gate, blocked on a primitive, or gone - unchanged over two consecutive polls.
// settleBound is how long settle waits for the goroutines of a schedule to block (VT_SETTLE_MS overrides it).
var settleBound = func() time.Duration {
	if v, err := strconv.Atoi(os.Getenv("VT_SETTLE_MS")); err == nil && v > 0 {
		return time.Duration(v) * time.Millisecond
	}
	return 45 * time.Second
}()

func (s *Sched) settle() {
	stable := 0
	var prev string
	// A goroutine that is runnable but not yet blocked means "still working".  On a loaded machine
	// (load 250 was seen) a runnable goroutine may not get the processor for seconds: giving up after
	// 5 s let the scheduler decide while somebody was still running (one false `stuck`).  The bound only
	// protects against a goroutine that spins for ever.
	deadline := time.Now().Add(settleBound)
	for {
		if s.drain() {
			stable = 0
		}
		st := statuses()
		quiet := true
		var sig []string
		for id, x := range st {
			if id == s.self {
				continue
			}
			if !blockedStatus(x) {
				quiet = false
			}
			sig = append(sig, strconv.Itoa(id)+x)
		}
		sort.Strings(sig)
		cur := strings.Join(sig, ",")
		if quiet && cur == prev && len(s.arrive) == 0 && len(s.done) == 0 {
			stable++
			if stable >= 3 {
				return
			}
		} else {
			stable = 0
		}
		prev = cur
		if time.Now().After(deadline) {
			return
		}
		time.Sleep(100 * time.Microsecond)
	}
}

// Option is one possible next decision.
type Option struct {
	Name  string
	Point string
	env   *EnvAction
	gid   int
}

// Options returns the enabled decisions in deterministic order (after settling).
func (s *Sched) Options() []Option {
	s.settle()
	var o []Option
	s.mu.Lock()
	for gid, g := range s.parked {
		o = append(o, Option{Name: s.names[gid], Point: g.point, gid: gid})
	}
	s.mu.Unlock()
	for _, e := range s.envs {
		if (!e.Once || !e.used) && (e.Enabled == nil || e.Enabled()) {
			o = append(o, Option{Name: "env", Point: e.Name, env: e})
		}
	}
	sort.Slice(o, func(i, j int) bool {
		if o[i].Name != o[j].Name {
			return o[i].Name < o[j].Name
		}
		return o[i].Point < o[j].Point
	})
	return o
}

// Live returns the number of controlled goroutines that have not finished.
func (s *Sched) Live() int {
	s.mu.Lock()
	defer s.mu.Unlock()
	return len(s.live)
}

// Blocked returns the names of live controlled goroutines that are not parked at a gate
// (i.e. blocked on a Go primitive), with their wait status.
func (s *Sched) Blocked() map[string]string {
	st := statuses()
	res := map[string]string{}
	s.mu.Lock()
	defer s.mu.Unlock()
	for id := range s.live {
		if _, p := s.parked[id]; p {
			continue
		}
		res[s.names[id]] = st[id]
	}
	return res
}

// Take performs one decision.
func (s *Sched) Take(o Option) {
	s.Steps = append(s.Steps, o.Name+"@"+o.Point)
	if s.OnStep != nil {
		s.OnStep(o.Name, o.Point)
	}
	if o.env != nil {
		o.env.used = true
		if o.env.App {
			s.spawn("app:"+o.env.Name, o.env.Do)
			return
		}
		o.env.Do()
		return
	}
	s.mu.Lock()
	g := s.parked[o.gid]
	delete(s.parked, o.gid)
	s.mu.Unlock()
	close(g.resume)
}

// Start activates the gates; call from the goroutine that will drive the schedule.
func (s *Sched) Start() {}

// Stop releases everything that is still parked and deactivates the gates.
func (s *Sched) Stop() {
	s.Enabled = false
	s.drain()
	s.mu.Lock()
	for id, g := range s.parked {
		close(g.resume)
		delete(s.parked, id)
	}
	s.mu.Unlock()
	// let the released goroutines run to their end (those blocked for good are left behind)
	deadline := time.Now().Add(200 * time.Millisecond)
	for time.Now().Before(deadline) {
		select {
		case g := <-s.arrive:
			close(g.resume)
			continue
		case id := <-s.done:
			s.mu.Lock()
			delete(s.live, id)
			s.mu.Unlock()
			continue
		default:
		}
		s.mu.Lock()
		n := len(s.live)
		s.mu.Unlock()
		if n == 0 {
			return
		}
		st := statuses()
		busy := false
		s.mu.Lock()
		for id := range s.live {
			if x, ok := st[id]; ok && !blockedStatus(x) {
				busy = true
			}
		}
		s.mu.Unlock()
		if !busy {
			// everything left is blocked on a primitive: nothing more will happen
			time.Sleep(200 * time.Microsecond)
			if len(s.arrive) == 0 && len(s.done) == 0 {
				return
			}
		}
		time.Sleep(50 * time.Microsecond)
	}
}

// Explore enumerates schedules depth-first (stateless model checking at gate
// granularity). run executes one schedule following the given choice prefix (index into
// Options() at each step, 0 beyond the prefix) and returns the number of options that
// were available at each step and, per step, whether taking a non-zero alternative there
// would be a pre-emption. Alternatives are expanded subject to maxPreempt.
type RunResult struct {
	NOpts   []int
	Preempt [][]bool // Preempt[i][alt]: choosing alt at step i pre-empts a runnable goroutine
}

func Explore(run func(choices []int) RunResult, maxPreempt, maxRuns int, each func(choices []int) bool) int {
	type item struct {
		choices []int
		pre     int
	}
	stack := []item{{nil, 0}}
	n := 0
	for len(stack) > 0 && (maxRuns <= 0 || n < maxRuns) {
		it := stack[len(stack)-1]
		stack = stack[:len(stack)-1]
		res := run(it.choices)
		n++
		if each != nil && !each(it.choices) {
			break
		}
		for i := len(res.NOpts) - 1; i >= len(it.choices); i-- {
			for alt := res.NOpts[i] - 1; alt >= 1; alt-- {
				p := it.pre
				if i < len(res.Preempt) && alt < len(res.Preempt[i]) && res.Preempt[i][alt] {
					p++
				}
				if maxPreempt >= 0 && p > maxPreempt {
					continue
				}
				nc := make([]int, i+1)
				copy(nc, it.choices)
				nc[i] = alt
				stack = append(stack, item{nc, p})
			}
		}
	}
	return n
}

// Who returns the scheduler's name of the calling goroutine ("" if unknown; "env" for
// the scheduler's own goroutine).
func (s *Sched) Who() string {
	id := goid()
	if id == s.self {
		return "env"
	}
	s.mu.Lock()
	defer s.mu.Unlock()
	return s.names[id]
}

// Drive runs one schedule: at every decision point the options are ordered with the
// goroutine that ran last first (so choice 0 never pre-empts) and choices[step] (0 beyond
// the prefix) is taken. When nothing is enabled but goroutines are still alive, stuck() may
// unblock the environment (return true to continue); otherwise the run ends with note
// "stuck". A run of more than maxSteps decisions ends with note "runaway".
func (s *Sched) Drive(choices []int, maxSteps int, stuck func() bool) (res RunResult, note string) {
	last := ""
	for step := 0; ; step++ {
		opts := s.Options()
		if len(opts) == 0 {
			if s.Live() > 0 {
				if stuck != nil && stuck() {
					step--
					continue
				}
				note = "stuck"
			}
			return res, note
		}
		for i, o := range opts {
			if o.Name == last && o.Name != "env" {
				opts[0], opts[i] = opts[i], opts[0]
				break
			}
		}
		pre := make([]bool, len(opts))
		if opts[0].Name == last && last != "env" {
			for i := 1; i < len(opts); i++ {
				pre[i] = true
			}
		}
		res.NOpts = append(res.NOpts, len(opts))
		res.Preempt = append(res.Preempt, pre)
		ch := 0
		if step < len(choices) {
			ch = choices[step]
		}
		if ch >= len(opts) {
			ch = 0
		}
		last = opts[ch].Name
		s.Take(opts[ch])
		if step > maxSteps {
			return res, "runaway"
		}
	}
}
