// Package vt holds the shared pieces of the conformance harness: a controlled
// in-memory transport, a batch trace writer, an XML-to-abstract-token projection and
// a single-runner scheduler.
package vt

import (
	"io"
	"net"
	"os"
	"sync"
	"time"
)

// Half is one direction of a duplex in-memory connection: an unbounded buffer (a
// net.Pipe deadlocks when both ends write), EOF/cut support and deadline-aware reads.
type Half struct {
	mu       sync.Mutex
	c        *sync.Cond
	buf      []byte
	closed   bool // writer side closed: readers see EOF after the buffer drains
	rdl      time.Time
	rtimer   *time.Timer
	total    int // bytes ever written
	consumed int // bytes ever read
}

func newHalf() *Half {
	h := &Half{}
	h.c = sync.NewCond(&h.mu)
	return h
}

func (h *Half) write(p []byte) (int, error) {
	h.mu.Lock()
	defer h.mu.Unlock()
	if h.closed {
		return 0, io.ErrClosedPipe
	}
	h.buf = append(h.buf, p...)
	h.total += len(p)
	h.c.Broadcast()
	return len(p), nil
}

func (h *Half) expired() bool {
	return !h.rdl.IsZero() && !time.Now().Before(h.rdl)
}

func (h *Half) read(p []byte, max int) (int, error) {
	h.mu.Lock()
	defer h.mu.Unlock()
	for len(h.buf) == 0 && !h.closed && !h.expired() {
		h.c.Wait()
	}
	if h.expired() {
		return 0, os.ErrDeadlineExceeded
	}
	if len(h.buf) == 0 {
		return 0, io.EOF
	}
	if max > 0 && len(p) > max {
		p = p[:max]
	}
	n := copy(p, h.buf)
	h.buf = h.buf[n:]
	h.consumed += n
	return n, nil
}

// waitAvailable blocks until at least one byte is buffered (true) or the stream is closed /
// the deadline expires (false).
func (h *Half) waitAvailable() bool {
	h.mu.Lock()
	defer h.mu.Unlock()
	for len(h.buf) == 0 && !h.closed && !h.expired() {
		h.c.Wait()
	}
	return len(h.buf) > 0
}

// waitDeadlineOnly blocks until a read deadline expires or the half is closed: the peer has
// gone silent.
func (h *Half) waitDeadlineOnly() {
	h.mu.Lock()
	defer h.mu.Unlock()
	for !h.closed && !h.expired() {
		h.c.Wait()
	}
}

func (h *Half) empty() bool {
	h.mu.Lock()
	defer h.mu.Unlock()
	return len(h.buf) == 0 && !h.closed
}

func (h *Half) close() {
	h.mu.Lock()
	h.closed = true
	h.c.Broadcast()
	h.mu.Unlock()
}

func (h *Half) setReadDeadline(t time.Time) {
	h.mu.Lock()
	defer h.mu.Unlock()
	h.rdl = t
	if h.rtimer != nil {
		h.rtimer.Stop()
		h.rtimer = nil
	}
	if !t.IsZero() {
		d := time.Until(t)
		if d <= 0 {
			h.c.Broadcast()
		} else {
			h.rtimer = time.AfterFunc(d, func() {
				h.mu.Lock()
				h.c.Broadcast()
				h.mu.Unlock()
			})
		}
	}
}

// Conn is the library's end of the controlled transport. It implements net.Conn.
// All fields must be set before the connection is handed to the library.
type Conn struct {
	in  *Half // peer -> library
	out *Half // library -> peer (only used when a goroutine peer reads it)

	mu       sync.Mutex
	Wire     []byte // everything the library wrote, in order
	nRead    int
	nWrite   int
	wdl      time.Time
	isClosed bool
	peer     *Conn // other end of a Pipe: closing this end ends the peer's input
	frozen   bool  // the peer has gone silent: reads only end by deadline or close
	frozenW  bool  // ... and it has stopped reading: writes only end by deadline or close

	// React, when set, is called synchronously with every chunk the library writes
	// (after it was appended to Wire); the scripted peer parses it and calls Feed.
	React func(p []byte)
	// Starve, when set, is called (synchronously, in the reader's goroutine) when a
	// Read finds the input empty: a lazy scripted peer feeds its next item or ends the
	// stream there, so a sequential scenario needs no peer goroutine.
	Starve func()
	// Gate, when set, is called before every Write and before every Read that would
	// block; the scheduler parks the goroutine there.
	Gate func(point string)
	// GateWritten, when set, is called after a successful Write, when the bytes are on the wire and before Write
	// returns: a yield point for "the peer already has the request, the writer has not got any further yet"
	GateWritten func()
	// Fault injection: the FailRead-th Read / FailWrite-th Write (1-based) returns
	// ErrInjected; MaxChunk limits the bytes returned per Read.
	FailRead, FailWrite int
	MaxChunk            int
	// CutIn > 0: the peer's byte stream ends after CutIn bytes (the reader sees EOF there).
	// CutIn = -1 is "at offset 0" (0 means no cut).
	CutIn int
	// FailWriteIf, when set, makes a Write fail with ErrInjected (nothing is delivered) if it
	// returns true for the bytes about to be written.
	FailWriteIf func(p []byte) bool
	// OnEvent receives transport-level events: "deadline" (set|clear|readset|...),
	// "fault" (read|write, index), "close".
	OnEvent func(kind string, arg string, n int)
	// KeepOut: also buffer written bytes into the out half for a goroutine peer.
	KeepOut bool
}

type injected struct{}

func (injected) Error() string   { return "vt: injected transport error" }
func (injected) Timeout() bool   { return false }
func (injected) Temporary() bool { return false }

// ErrInjected is returned by injected read/write faults.
var ErrInjected error = injected{}

// NewConn returns a connection with no peer attached: use Feed/CloseIn to supply input.
func NewConn() *Conn {
	return &Conn{in: newHalf(), out: newHalf()}
}

// Feed appends peer bytes to the library's input.
func (c *Conn) Feed(p []byte) { c.in.write(p) }

// FeedString appends peer bytes to the library's input.
func (c *Conn) FeedString(s string) { c.in.write([]byte(s)) }

// CloseIn ends the peer's byte stream (the library reads EOF after the buffer drains).
func (c *Conn) CloseIn() { c.in.close() }

// InputEmpty reports whether the library has consumed everything fed so far.
func (c *Conn) InputEmpty() bool { return c.in.empty() }

// Freeze makes the peer silent from now on: reads block until a deadline expires or the
// connection is closed, whatever is already buffered.
func (c *Conn) Freeze() {
	c.mu.Lock()
	c.frozen = true
	c.mu.Unlock()
}

// FreezeAll is Freeze plus a peer that has stopped reading: writes block as well, until the
// write deadline expires or the connection is closed.
func (c *Conn) FreezeAll() {
	c.mu.Lock()
	c.frozen = true
	c.frozenW = true
	c.mu.Unlock()
}

func (c *Conn) isFrozen() bool {
	c.mu.Lock()
	defer c.mu.Unlock()
	return c.frozen
}

// Consumed returns the number of input bytes the library has read so far.
func (c *Conn) Consumed() int {
	c.in.mu.Lock()
	defer c.in.mu.Unlock()
	return c.in.consumed
}

// WireString returns a copy of everything the library has written.
func (c *Conn) WireString() string {
	c.mu.Lock()
	defer c.mu.Unlock()
	return string(c.Wire)
}

// Counts returns the number of Read and Write calls so far.
func (c *Conn) Counts() (reads, writes int) {
	c.mu.Lock()
	defer c.mu.Unlock()
	return c.nRead, c.nWrite
}

func (c *Conn) event(kind, arg string, n int) {
	if c.OnEvent != nil {
		c.OnEvent(kind, arg, n)
	}
}

func (c *Conn) Read(p []byte) (int, error) {
	c.mu.Lock()
	c.nRead++
	k := c.nRead
	fail := c.FailRead != 0 && k == c.FailRead
	c.mu.Unlock()
	if fail {
		c.event("fault", "read", k)
		return 0, ErrInjected
	}
	if c.Gate != nil && c.in.empty() {
		c.Gate("conn.read")
	}
	if c.Starve != nil && c.in.empty() {
		c.Starve()
	}
	if c.CutIn != 0 {
		limit := c.CutIn
		if limit < 0 {
			limit = 0
		}
		left := limit - c.Consumed()
		if left <= 0 {
			// wait until the byte at the cut would have been available, so that the cut is at
			// this stream offset and not earlier in time than the bytes before it
			if !c.in.waitAvailable() {
				return c.in.read(p, c.MaxChunk)
			}
			c.event("fault", "cut", limit)
			return 0, io.EOF
		}
		if len(p) > left {
			p = p[:left]
		}
	}
	if c.isFrozen() {
		c.in.waitDeadlineOnly()
		return 0, os.ErrDeadlineExceeded
	}
	return c.in.read(p, c.MaxChunk)
}

func (c *Conn) Write(p []byte) (int, error) {
	if c.Gate != nil {
		c.Gate("conn.write")
	}
	for {
		c.mu.Lock()
		blocked := c.frozenW && !c.isClosed && !(!c.wdl.IsZero() && !time.Now().Before(c.wdl))
		c.mu.Unlock()
		if !blocked {
			break
		}
		time.Sleep(time.Millisecond)
	}
	c.mu.Lock()
	c.nWrite++
	k := c.nWrite
	fail := c.FailWrite != 0 && k == c.FailWrite
	if !fail && c.FailWriteIf != nil && c.FailWriteIf(p) {
		fail = true
	}
	expired := !c.wdl.IsZero() && !time.Now().Before(c.wdl)
	if c.frozenW && !c.isClosed {
		expired = true // a write to a peer that does not read never completes
	}
	closed := c.isClosed
	if !fail && !expired && !closed {
		c.Wire = append(c.Wire, p...)
	}
	c.mu.Unlock()
	switch {
	case fail:
		c.event("fault", "write", k)
		return 0, ErrInjected
	case closed:
		return 0, io.ErrClosedPipe
	case expired:
		return 0, os.ErrDeadlineExceeded
	}
	if c.KeepOut {
		c.out.write(p)
	}
	if c.React != nil {
		c.React(p)
	}
	if c.GateWritten != nil {
		c.GateWritten()
	}
	return len(p), nil
}

// PeerRead lets a goroutine peer read what the library wrote (needs KeepOut).
func (c *Conn) PeerRead(p []byte) (int, error) { return c.out.read(p, 0) }

// Close closes both directions.
func (c *Conn) Close() error {
	c.mu.Lock()
	c.isClosed = true
	c.mu.Unlock()
	c.in.close()
	c.out.close()
	if c.peer != nil {
		c.peer.in.close()
	}
	c.event("close", "", 0)
	return nil
}

type addr struct{}

func (addr) Network() string { return "vt" }
func (addr) String() string  { return "vt" }

func (c *Conn) LocalAddr() net.Addr  { return addr{} }
func (c *Conn) RemoteAddr() net.Addr { return addr{} }

func dlKind(t time.Time) string {
	switch {
	case t.IsZero():
		return "clear"
	case !time.Now().Before(t):
		return "past"
	default:
		return "future"
	}
}

// ExpireRead lets virtual time jump past the read deadline currently set on the connection
// (reads then fail with os.ErrDeadlineExceeded); it reports false, and does nothing, when no
// read deadline is set.
func (c *Conn) ExpireRead() bool {
	c.in.mu.Lock()
	set := !c.in.rdl.IsZero()
	c.in.mu.Unlock()
	if set {
		c.in.setReadDeadline(time.Unix(1, 0))
	}
	return set
}

func (c *Conn) SetDeadline(t time.Time) error {
	c.event("deadline", "both-"+dlKind(t), 0)
	c.in.setReadDeadline(t)
	c.mu.Lock()
	c.wdl = t
	c.mu.Unlock()
	return nil
}

func (c *Conn) SetReadDeadline(t time.Time) error {
	c.event("deadline", "read-"+dlKind(t), 0)
	c.in.setReadDeadline(t)
	return nil
}

func (c *Conn) SetWriteDeadline(t time.Time) error {
	c.event("deadline", "write-"+dlKind(t), 0)
	c.mu.Lock()
	c.wdl = t
	c.mu.Unlock()
	return nil
}

// Pipe returns two connected Conns (each one's output is the other's input), for
// driving two real sessions against each other.
func Pipe() (*Conn, *Conn) {
	a, b := NewConn(), NewConn()
	a.React = func(p []byte) { b.in.write(p) }
	b.React = func(p []byte) { a.in.write(p) }
	a.peer, b.peer = b, a
	return a, b
}

// PlainRW hides the net.Conn methods of a Conn (a transport without deadlines).
type PlainRW struct{ C *Conn }

func (p PlainRW) Read(b []byte) (int, error)  { return p.C.Read(b) }
func (p PlainRW) Write(b []byte) (int, error) { return p.C.Write(b) }
