package vt

import (
	"bufio"
	"encoding/json"
	"os"
	"sync"
)

// Ev is one trace event: {"ev": action, ...arguments and cheap scalar state}.
type Ev map[string]interface{}

// TraceWriter writes the batch trace format of DESIGN appendix C: every trace starts
// with a reset line that carries the scenario constants, the trace number "t" and
// "end", the (1-based) line number just after the trace's last event.
type TraceWriter struct {
	f      *os.File
	w      *bufio.Writer
	mf     *os.File
	mw     *bufio.Writer
	line   int // lines written so far
	traces int
	events int
}

// NewTraceWriter creates the file.
func NewTraceWriter(path string) (*TraceWriter, error) {
	f, err := os.Create(path)
	if err != nil {
		return nil, err
	}
	mf, err := os.Create(path + ".meta")
	if err != nil {
		return nil, err
	}
	return &TraceWriter{f: f, w: bufio.NewWriterSize(f, 1<<20), mf: mf, mw: bufio.NewWriterSize(mf, 1<<20)}, nil
}

// Meta records side information about the trace just written (not read by TLC): the
// scenario that produced it, for replay files and samples.
func (t *TraceWriter) Meta(v interface{}) {
	b, err := json.Marshal(Ev{"t": t.traces, "meta": v})
	if err != nil {
		panic(err)
	}
	t.mw.Write(b)
	t.mw.WriteByte('\n')
}

// Write appends one complete trace. reset holds the scenario constants.
func (t *TraceWriter) Write(reset Ev, evs []Ev) int {
	t.traces++
	r := Ev{}
	for k, v := range reset {
		r[k] = v
	}
	r["ev"] = "reset"
	r["t"] = t.traces
	start := t.line + 1
	r["end"] = start + len(evs) + 1
	t.put(r)
	for _, e := range evs {
		t.put(e)
	}
	t.events += len(evs)
	return t.traces
}

func (t *TraceWriter) put(e Ev) {
	b, err := json.Marshal(e)
	if err != nil {
		panic(err)
	}
	t.w.Write(b)
	t.w.WriteByte('\n')
	t.line++
}

// Counts returns the number of traces and events written.
func (t *TraceWriter) Counts() (traces, events int) { return t.traces, t.events }

// Close flushes and closes the file.
func (t *TraceWriter) Close() error {
	if err := t.w.Flush(); err != nil {
		return err
	}
	t.mw.Flush()
	t.mf.Close()
	return t.f.Close()
}

// Log collects the events of one run. After the event named in StopAfter has been
// added, later events are dropped (environment events racing with the return).
type Log struct {
	mu        sync.Mutex
	evs       []Ev
	closed    bool
	StopAfter string
}

// Add appends an event.
func (l *Log) Add(e Ev) {
	l.mu.Lock()
	defer l.mu.Unlock()
	if l.closed {
		return
	}
	l.evs = append(l.evs, e)
	if l.StopAfter != "" && e["ev"] == l.StopAfter {
		l.closed = true
	}
}

// Events returns the collected events.
func (l *Log) Events() []Ev {
	l.mu.Lock()
	defer l.mu.Unlock()
	return append([]Ev(nil), l.evs...)
}

// Summary is what every driver prints as its last stdout line (JSON) for bin/check.
type Summary struct {
	Traces      int                    `json:"traces"`
	Events      int                    `json:"events"`
	Evaluations int                    `json:"evaluations"`
	Distinct    int                    `json:"distinct"`
	Mismatches  []interface{}          `json:"mismatches"`
	Samples     []interface{}          `json:"samples"`
	Extra       map[string]interface{} `json:"extra,omitempty"`
}

// Print writes the summary as the last line of stdout.
func (s Summary) Print() {
	if s.Mismatches == nil {
		s.Mismatches = []interface{}{}
	}
	if s.Samples == nil {
		s.Samples = []interface{}{}
	}
	b, _ := json.Marshal(s)
	os.Stdout.Write(append([]byte("SUMMARY "), append(b, '\n')...))
}
