package vt

import (
	"strings"
)

// Tag is one markup token found by Scanner: a start tag, end tag, or text.
type Tag struct {
	Kind  string // "start", "end", "empty" (self-closing), "text", "pi", "comment", "directive"
	Name  string // qualified name as written (prefix:local)
	Attr  map[string]string
	Text  string
	Depth int // depth before the tag (0 = top level of what was scanned)
	Raw   string
}

// Scanner is an incremental tokeniser for the bytes the library writes. It never
// blocks and never fails on partial input: Feed returns the complete tags seen so far.
// It is not a validating parser; it only needs to cope with what encoding/xml and the
// library's own fmt.Fprintf calls produce (and it tolerates quotes inside attributes).
type Scanner struct {
	buf   []byte
	depth int
	pos   int // bytes consumed so far (complete tags and the text before them)
	// TopEnd is the number of bytes fed so far up to and including the last tag that
	// returned to depth 0 (the end of the last complete top-level element).
	TopEnd int
}

// Depth returns the current element depth.
func (s *Scanner) Depth() int { return s.depth }

// SetDepth overrides the depth (used after a stream restart).
func (s *Scanner) SetDepth(d int) { s.depth = d }

// Feed adds bytes and returns the tags completed by them.
func (s *Scanner) Feed(p []byte) []Tag {
	s.buf = append(s.buf, p...)
	var out []Tag
	for {
		if len(s.buf) == 0 {
			return out
		}
		if s.buf[0] != '<' {
			i := indexByte(s.buf, '<')
			if i < 0 {
				// text may continue; emit it only when a tag follows, keep buffering
				return out
			}
			out = append(out, Tag{Kind: "text", Text: string(s.buf[:i]), Depth: s.depth})
			s.buf = s.buf[i:]
			s.pos += i
			continue
		}
		// find the end of the tag, skipping quoted strings
		end := -1
		if len(s.buf) >= 4 && string(s.buf[:4]) == "<!--" {
			j := strings.Index(string(s.buf), "-->")
			if j < 0 {
				return out
			}
			out = append(out, Tag{Kind: "comment", Raw: string(s.buf[:j+3]), Depth: s.depth})
			s.buf = s.buf[j+3:]
			s.pos += j + 3
			continue
		}
		var q byte
		for i := 1; i < len(s.buf); i++ {
			c := s.buf[i]
			if q != 0 {
				if c == q {
					q = 0
				}
				continue
			}
			if c == '"' || c == '\'' {
				q = c
				continue
			}
			if c == '>' {
				end = i
				break
			}
		}
		if end < 0 {
			return out
		}
		raw := string(s.buf[:end+1])
		s.buf = s.buf[end+1:]
		s.pos += end + 1
		switch {
		case strings.HasPrefix(raw, "<?"):
			out = append(out, Tag{Kind: "pi", Raw: raw, Depth: s.depth})
		case strings.HasPrefix(raw, "<!"):
			out = append(out, Tag{Kind: "directive", Raw: raw, Depth: s.depth})
		case strings.HasPrefix(raw, "</"):
			s.depth--
			out = append(out, Tag{Kind: "end", Name: strings.TrimSpace(raw[2 : len(raw)-1]), Raw: raw, Depth: s.depth})
			if s.depth <= 0 {
				s.TopEnd = s.pos
			}
		default:
			self := strings.HasSuffix(raw, "/>")
			body := raw[1 : len(raw)-1]
			if self {
				body = raw[1 : len(raw)-2]
			}
			name, attrs := parseTagBody(body)
			t := Tag{Kind: "start", Name: name, Attr: attrs, Raw: raw, Depth: s.depth}
			if self {
				t.Kind = "empty"
				if s.depth <= 0 {
					s.TopEnd = s.pos
				}
			} else {
				s.depth++
			}
			out = append(out, t)
		}
	}
}

func indexByte(b []byte, c byte) int {
	for i, x := range b {
		if x == c {
			return i
		}
	}
	return -1
}

func parseTagBody(body string) (string, map[string]string) {
	attrs := map[string]string{}
	i := 0
	for i < len(body) && !isSpace(body[i]) {
		i++
	}
	name := body[:i]
	for i < len(body) {
		for i < len(body) && isSpace(body[i]) {
			i++
		}
		j := i
		for j < len(body) && body[j] != '=' && !isSpace(body[j]) {
			j++
		}
		if j >= len(body) {
			break
		}
		key := body[i:j]
		for j < len(body) && (body[j] == '=' || isSpace(body[j])) {
			j++
		}
		if j >= len(body) {
			break
		}
		q := body[j]
		if q != '"' && q != '\'' {
			break
		}
		k := j + 1
		for k < len(body) && body[k] != q {
			k++
		}
		if k > len(body) {
			break
		}
		if k <= len(body) {
			attrs[key] = unescapeXML(body[j+1 : min(k, len(body))])
		}
		i = k + 1
	}
	return name, attrs
}

func min(a, b int) int {
	if a < b {
		return a
	}
	return b
}

func isSpace(c byte) bool { return c == ' ' || c == '\t' || c == '\n' || c == '\r' }

var xmlUnesc = strings.NewReplacer("&lt;", "<", "&gt;", ">", "&quot;", "\"", "&apos;", "'", "&#39;", "'", "&#34;", "\"", "&#xA;", "\n", "&#x9;", "\t", "&#xD;", "\r", "&amp;", "&")

func unescapeXML(s string) string { return xmlUnesc.Replace(s) }

// Local returns the local part of a qualified name.
func Local(q string) string {
	if i := strings.IndexByte(q, ':'); i >= 0 {
		return q[i+1:]
	}
	return q
}
