module verifharness

go 1.22.0

require (
	golang.org/x/crypto v0.31.0
	golang.org/x/net v0.33.0
	golang.org/x/text v0.21.0
	mellium.im/sasl v0.3.2
	mellium.im/xmlstream v0.15.4
	mellium.im/xmpp v0.0.0
)

require (
	golang.org/x/sys v0.28.0 // indirect
	mellium.im/reader v0.1.0 // indirect
)

replace mellium.im/xmpp => /repo
