---------------------------- MODULE Negotiation ----------------------------
(***************************************************************************)
(* Stream negotiation of one XMPP session (RFC 6120 section 4.3), both     *)
(* roles, structured like negotiator.go / features.go / session.go:        *)
(*                                                                         *)
(*   negotiateSession loop   ->  phases restart .. done                    *)
(*   negotiator (headers)    ->  SendHeader / ExpectHeader                 *)
(*   negotiateFeatures       ->  ReadFeatures, Select*, Force (initiator)  *)
(*                               Advertise, Await (receiver)               *)
(*   StreamFeature.Negotiate ->  NegotiateCall / NegotiateRet              *)
(*   StreamFeature.List      ->  ListFail (a List step reports an error)   *)
(*   StreamFeature.Parse     ->  ReadFeaturesP(f) (the Parse step of f     *)
(*                               reports an error)                         *)
(*                                                                         *)
(* The peer is an environment that appends items to the session's inbox;   *)
(* the session consumes them in order.  Transport faults and cancellation  *)
(* are environment actions too.  Rules are written as the PROPERTIES       *)
(* require (C01, C02 state-machine part, C04, C12c); behaviour of the      *)
(* pinned code that deviates exists only as named, default-off switches    *)
(* in Dev.                                                                 *)
(***************************************************************************)
EXTENDS Integers, Sequences, FiniteSets, TLC

CONSTANTS Pool,        \* set of feature kinds: [id, nec, pro, neg, rst, mask, lreq]
          MaxCfg,      \* size bound of a configuration (MC only)
          MaxRounds,   \* bound on feature lists read / advertised (MC only)
          MaxList,     \* bound on the length of an advertised list / selection script (MC only)
          InitBitsSet, \* initial state bits to explore
          Roles,       \* subset of {"init","recv"}
          Dev          \* enabled deviations (empty = the properties' rules)

Unk   == "unk"         \* any feature name outside the configuration
TLSId == "tls"
Ids   == {k.id : k \in Pool}
Kind(f) == CHOOSE k \in Pool : k.id = f
Addr  == {"none", "A", "B"}   \* abstract addresses in headers / established so far

VARIABLES
  cfg, role, s2s,      \* scenario constants (set once)
  bits,                \* session state bits
  phase,               \* control point of the negotiating goroutine
  round,               \* lists read / advertised so far
  first,               \* no features list has been read yet (forced STARTTLS window)
  list,                \* the current advertisement: sequence of [f, req]
  cache,               \* features of the current list that were eligible when it was read/written
  negotiated,          \* features negotiated on the current stream
  fresh,               \* a stream header was exchanged since the last restart
  failed,              \* some executed step (Negotiate, List or Parse of a feature) returned an error
  result,              \* "none" | "ok" | "err"
  cur,                 \* feature being negotiated / "none"
  last,                \* facts recorded when the last Negotiate step started
  inbox,               \* peer items not yet consumed
  estab,               \* [from, to]: addresses established so far (abstract)
  broken, cancelled,   \* a transport fault was injected / the context was cancelled
  nsel                 \* peer selections / lists produced so far (bounds MC)

vars == <<cfg, role, s2s, bits, phase, round, first, list, cache, negotiated, fresh, failed,
          result, cur, last, inbox, estab, broken, cancelled, nsel>>

-----------------------------------------------------------------------------
MasksHold(f, b) == Kind(f).nec \subseteq b /\ Kind(f).pro \cap b = {}

Supported(L)  == {i \in 1..Len(L) : L[i].f \in cfg}
ListReq(L)    == \E i \in Supported(L) : L[i].req
LastIdx(L, f) == CHOOSE i \in 1..Len(L) : L[i].f = f /\ \A j \in 1..Len(L) : L[j].f = f => j <= i
ReqOf(f)      == IF \E i \in 1..Len(list) : list[i].f = f THEN list[LastIdx(list, f)].req ELSE FALSE
Advertised    == {list[i].f : i \in 1..Len(list)}

NoLast == [f |-> "none"]

Init ==
  /\ role \in Roles /\ s2s \in BOOLEAN
  /\ cfg \in {c \in SUBSET Ids : Cardinality(c) <= MaxCfg}
  /\ bits \in InitBitsSet
  /\ phase = "restart" /\ round = 0 /\ first = TRUE /\ list = <<>> /\ cache = {}
  /\ negotiated = {} /\ fresh = FALSE /\ failed = FALSE /\ result = "none" /\ cur = "none"
  /\ last = NoLast /\ inbox = <<>>
  /\ estab \in (IF role = "init" THEN {[from |-> "A", to |-> "A"]}
                ELSE {[from |-> "none", to |-> "none"]})
  /\ broken = FALSE /\ cancelled = FALSE /\ nsel = 0

Running == result = "none"

Fail == result' = "err" /\ phase' = "done"

(* Control returns to the caller of NewSession/ReceiveSession with success. A       *)
(* cancelled context or an earlier failed step must never end here (C04).           *)
CanSucceed == ~cancelled /\ ~broken /\ (~failed \/ Dev \cap {"SwallowVoluntaryError", "SwallowListError", "SwallowParseError"} # {})
(* Control is about to return successfully with bits b; if it may not, the call fails *)
(* and the session is not ready.                                                     *)
Complete(b) == IF CanSucceed THEN bits' = b /\ result' = "ok" /\ phase' = "done"
               ELSE bits' = (b \ {"Ready"}) \cup (bits \cap {"Ready"}) /\ Fail

-----------------------------------------------------------------------------
(* Environment *)

PeerSend(item) ==
  /\ Running
  /\ inbox' = Append(inbox, item)
  /\ nsel' = nsel + 1
  /\ UNCHANGED <<cfg, role, s2s, bits, phase, round, first, list, cache, negotiated, fresh,
                 failed, result, cur, last, estab, broken, cancelled>>

Fault ==
  /\ Running /\ ~broken
  /\ broken' = TRUE
  /\ UNCHANGED <<cfg, role, s2s, bits, phase, round, first, list, cache, negotiated, fresh,
                 failed, result, cur, last, inbox, estab, cancelled, nsel>>

Cancel ==
  /\ Running /\ ~cancelled
  /\ cancelled' = TRUE
  /\ UNCHANGED <<cfg, role, s2s, bits, phase, round, first, list, cache, negotiated, fresh,
                 failed, result, cur, last, inbox, estab, broken, nsel>>

-----------------------------------------------------------------------------
(* Headers (negotiator.go).  C12c: after the addresses are established a header     *)
(* that differs is rejected.                                                        *)

GoodHdr(h) == IF h.k = "hdr" THEN h.ok ELSE FALSE
(* An attribute that is absent ("none") leaves the established value in place; only a *)
(* DIFFERENT address is a mismatch.  A receiver learns each address once.             *)
Same(est, v) == v = "none" \/ v = est
HdrAccept(h) ==
  IF role = "init"
  THEN Same(estab.from, h.from) /\ Same(estab.to, h.to)
  ELSE /\ (estab.from = "none" \/ Same(estab.from, h.from))
       /\ (estab.to = "none" \/ Same(estab.to, h.to))
(* A receiving s2s session that has no origin yet: the property is silent on whether *)
(* a first header naming one is acceptable; both outcomes are allowed.               *)
HdrMayReject(h) ==
  \/ ~HdrAccept(h)
  \/ role = "recv" /\ s2s /\ estab.from = "none" /\ h.from # "none"

Learn(h) == IF role = "init" THEN estab
            ELSE [from |-> IF estab.from = "none" THEN h.from ELSE estab.from,
                  to   |-> IF estab.to = "none" THEN h.to ELSE estab.to]

SendHeader ==
  /\ Running /\ ~broken
  /\ \/ role = "init" /\ phase = "restart" /\ phase' = "hdrwait" /\ UNCHANGED fresh
     \/ role = "recv" /\ phase = "sendhdr" /\ phase' = "advertise" /\ fresh' = TRUE
  /\ UNCHANGED <<cfg, role, s2s, bits, round, first, list, cache, negotiated, failed, result,
                 cur, last, inbox, estab, broken, cancelled, nsel>>

ExpectHeader ==
  /\ Running
  /\ \/ role = "init" /\ phase = "hdrwait"
     \/ role = "recv" /\ phase = "restart"
  /\ inbox # <<>>
  /\ LET h == Head(inbox) IN
     /\ inbox' = Tail(inbox)
     /\ \/ /\ GoodHdr(h) /\ HdrAccept(h) /\ ~broken
           /\ estab' = Learn(h)
           /\ IF role = "init" THEN phase' = "features" /\ fresh' = TRUE
                               ELSE phase' = "sendhdr" /\ UNCHANGED fresh
           /\ UNCHANGED result
        \/ /\ (IF GoodHdr(h) THEN HdrMayReject(h) \/ broken ELSE TRUE)
           /\ Fail /\ UNCHANGED <<estab, fresh>>
  /\ UNCHANGED <<cfg, role, s2s, bits, round, first, list, cache, negotiated, failed, cur, last,
                 broken, cancelled, nsel>>

-----------------------------------------------------------------------------
(* Completion of a features list: the mask returned to negotiateSession.            *)

(* End of the work on the current list after feature f (restarting or mandatory).   *)
EndOfList(f, b, lreq) ==
  (* ready only if the list had no mandatory feature AND no restart is required *)
  LET b2 == IF lreq \/ Kind(f).rst THEN b ELSE b \cup {"Ready"} IN
  /\ IF "Ready" \in b2
     THEN Complete(b2) /\ UNCHANGED fresh /\ negotiated' = negotiated \cup {f}
     ELSE /\ UNCHANGED result /\ bits' = b2
          /\ IF Kind(f).rst
             THEN phase' = "restart" /\ fresh' = FALSE /\ negotiated' = {}
             ELSE /\ phase' = (IF role = "init" THEN "features" ELSE "advertise")
                  /\ UNCHANGED fresh /\ negotiated' = negotiated \cup {f}

Finish ==   \* nothing (more) to negotiate on this list: the session is ready
  Complete(bits \cup {"Ready"})

-----------------------------------------------------------------------------
(* Initiator: read the peer's advertisement (readStreamFeatures + the switch).      *)

ForceNow(c) == first /\ TLSId \in cfg /\ TLSId \notin c /\ "Secure" \notin bits

(* The switch of negotiateFeatures after a list L with eligible supported features c   *)
(* has been read.                                                                       *)
ReadList(L, c) ==
  /\ list' = L /\ cache' = c /\ round' = round + 1 /\ first' = FALSE
  /\ IF ForceNow(c) /\ "TeeDisablesForcedTLS" \notin Dev
     THEN phase' = "force" /\ UNCHANGED <<bits, result>>
     ELSE IF Len(L) = 0 THEN Finish
     ELSE IF c = {} THEN Fail /\ UNCHANGED bits
     ELSE phase' = "select" /\ UNCHANGED <<bits, result>>

(* Reading a list runs the Parse step of every supported feature it names.  Each is a    *)
(* negotiation step: if one reports an error (bad # "none") the call fails (C04).        *)
ReadFeaturesP(bad) ==
  /\ Running /\ role = "init" /\ phase = "features" /\ inbox # <<>>
  /\ LET it == Head(inbox) IN
     /\ inbox' = Tail(inbox)
     /\ IF it.k = "features" /\ ~broken
        THEN LET L == it.list
                 c == {L[i].f : i \in {j \in Supported(L) : MasksHold(L[j].f, bits)}}
             IN IF bad = "none"
                THEN ReadList(L, c) /\ UNCHANGED failed
                ELSE /\ \E i \in Supported(L) : L[i].f = bad
                     /\ failed' = TRUE
                     /\ IF "SwallowParseError" \in Dev
                        THEN ReadList(L, c)      \* deviation: the error is dropped, the entry stands
                        ELSE Fail /\ UNCHANGED <<bits, list, cache, round, first>>
        ELSE bad = "none" /\ Fail /\ UNCHANGED <<bits, list, cache, round, first, failed>>
  /\ UNCHANGED <<cfg, role, s2s, negotiated, fresh, cur, last, estab, broken, cancelled, nsel>>

ReadFeatures == \E bad \in cfg \cup {"none"} : ReadFeaturesP(bad)

(* Selection rule of the property: advertised and eligible when the list was read    *)
(* (cache), not yet negotiated, negotiable, prerequisites hold NOW, voluntary first. *)
Eligible(f) ==
  /\ f \in cache /\ f \notin negotiated /\ Kind(f).neg
  /\ (MasksHold(f, bits) \/ "NegotiateStaleCache" \in Dev)

RecordLast(f, forced) ==
  last' = [f |-> f, masks |-> MasksHold(f, bits), neg |-> Kind(f).neg,
           adv |-> f \in Advertised, forced |-> forced, again |-> f \in negotiated,
           fresh |-> fresh, volFirst |-> role = "recv" \/ (ReqOf(f) => \A g \in cfg : Eligible(g) => ReqOf(g))]

NegotiateCall(f, forced) ==
  /\ cur' = f /\ phase' = "innego" /\ RecordLast(f, forced)
  /\ UNCHANGED <<cfg, role, s2s, bits, round, first, list, cache, negotiated, fresh, failed,
                 result, inbox, estab, broken, cancelled, nsel>>

Select(f) ==
  /\ Running /\ role = "init" /\ phase = "select" /\ Eligible(f)
  /\ (ReqOf(f) => \A g \in cfg : Eligible(g) => ReqOf(g))
  /\ NegotiateCall(f, FALSE)

SelectNone ==
  /\ Running /\ role = "init" /\ phase = "select" /\ ~\E f \in cfg : Eligible(f)
  /\ Finish
  /\ UNCHANGED <<cfg, role, s2s, round, first, list, cache, negotiated, fresh, failed, cur, last,
                 inbox, estab, broken, cancelled, nsel>>

Force ==
  /\ Running /\ role = "init" /\ phase = "force"
  /\ NegotiateCall(TLSId, TRUE)

-----------------------------------------------------------------------------
(* Receiver: advertise, then act on the peer's selections.                          *)

RECURSIVE SetToList(_)
SetToList(S) == IF S = {} THEN <<>>
                ELSE LET f == CHOOSE x \in S : TRUE IN <<[f |-> f, req |-> Kind(f).lreq]>> \o SetToList(S \ {f})

(* Writing the advertisement runs the List step of every eligible feature.  Every List   *)
(* step succeeds: the list is written and the receiver waits for a selection.            *)
AdvertiseOK ==
  /\ Running /\ ~broken /\ role = "recv" /\ phase = "advertise"
  /\ LET c == {f \in cfg : MasksHold(f, bits)} IN
     /\ cache' = c /\ list' = SetToList(c)
  /\ round' = round + 1 /\ first' = FALSE /\ phase' = "await"
  /\ UNCHANGED <<cfg, role, s2s, bits, negotiated, fresh, failed, result, cur, last, inbox, estab,
                 broken, cancelled, nsel>>

(* The List step of an eligible feature reports an error: a negotiation step has failed, *)
(* the call fails (C04).  Code-like deviation: the error is overwritten (by the result   *)
(* of closing the writer), the part of the list written so far stands as the             *)
(* advertisement and negotiation goes on.                                                *)
ListFail(bad) ==
  /\ Running /\ role = "recv" /\ phase = "advertise"
  /\ bad \in cfg /\ MasksHold(bad, bits)
  /\ failed' = TRUE
  /\ IF "SwallowListError" \in Dev
     THEN /\ \E done \in SUBSET ({f \in cfg : MasksHold(f, bits)} \ {bad}) :
               cache' = done /\ list' = SetToList(done)
          /\ round' = round + 1 /\ first' = FALSE /\ phase' = "await" /\ UNCHANGED result
     ELSE Fail /\ UNCHANGED <<cache, list, round, first>>
  /\ UNCHANGED <<cfg, role, s2s, bits, negotiated, fresh, cur, last, inbox, estab,
                 broken, cancelled, nsel>>

Advertise == AdvertiseOK \/ \E bad \in cfg : ListFail(bad)

Await ==
  /\ Running /\ role = "recv" /\ phase = "await" /\ inbox # <<>>
  /\ LET it == Head(inbox) IN
     /\ inbox' = Tail(inbox)
     /\ IF it.k = "select" /\ ~broken /\ it.f \in cfg /\ Eligible(it.f)
        THEN /\ cur' = it.f /\ phase' = "innego" /\ RecordLast(it.f, FALSE) /\ UNCHANGED result
        ELSE /\ Fail /\ UNCHANGED <<cur, last>>     \* refused without running it
  /\ UNCHANGED <<cfg, role, s2s, bits, round, first, list, cache, negotiated, fresh, failed, estab,
                 broken, cancelled, nsel>>

-----------------------------------------------------------------------------
(* Return of a feature's Negotiate function.                                        *)

NegotiateRet(f, ok) ==
  /\ Running /\ phase = "innego" /\ cur = f
  /\ cur' = "none"
  /\ LET req == last.forced \/ ReqOf(f) IN
     IF ~ok \/ broken
     THEN /\ failed' = TRUE
          /\ IF "SwallowVoluntaryError" \in Dev /\ ~req /\ ~broken
             THEN /\ phase' = (IF role = "init" THEN "select" ELSE "await")
                  /\ negotiated' = negotiated \cup {f}
                  /\ UNCHANGED <<bits, result, fresh>>
             ELSE Fail /\ UNCHANGED <<bits, fresh, negotiated>>
     ELSE /\ UNCHANGED failed
          /\ IF Kind(f).rst \/ req
             THEN EndOfList(f, bits \cup Kind(f).mask, ListReq(list))
             ELSE /\ bits' = bits \cup Kind(f).mask
                  /\ negotiated' = negotiated \cup {f}
                  /\ phase' = (IF role = "init" THEN "select" ELSE "await")
                  /\ UNCHANGED <<result, fresh>>
  /\ UNCHANGED <<cfg, role, s2s, round, first, list, cache, last, inbox, estab, broken, cancelled, nsel>>

(* The call gives up because the transport failed or the context was cancelled      *)
(* while it was waiting (no item to consume).                                       *)
Abort ==
  /\ Running /\ (broken \/ cancelled) /\ phase # "innego"
  /\ Fail
  /\ UNCHANGED <<cfg, role, s2s, bits, round, first, list, cache, negotiated, fresh, failed, cur,
                 last, inbox, estab, broken, cancelled, nsel>>

-----------------------------------------------------------------------------
(* Bounded environment for the design check.                                        *)

(* Every feature may be advertised as mandatory or as voluntary, also one whose step      *)
(* reports Ready (resource binding advertised without <required/>).                       *)
Entries == [f : cfg \cup {Unk}, req : BOOLEAN]
Lists == UNION {[1..n -> Entries] : n \in 0..MaxList}
HdrItems == {[k |-> "hdr", ok |-> TRUE, from |-> a, to |-> b] : a \in Addr, b \in Addr}
              \cup {[k |-> "hdr", ok |-> FALSE, from |-> "A", to |-> "A"]}
PeerItems ==
  IF role = "init"
  THEN HdrItems \cup {[k |-> "features", list |-> L] : L \in Lists} \cup {[k |-> "eof"]}
  ELSE HdrItems \cup {[k |-> "select", f |-> f, iq |-> FALSE] : f \in cfg \cup {Unk}} \cup {[k |-> "eof"]}

(* MC: the peer is polite (speaks only when the session waits on an empty inbox);   *)
(* pipelining adds nothing to these properties because consumption is sequential.   *)
Waiting == phase \in {"hdrwait", "features", "await"} \/ (role = "recv" /\ phase = "restart")
PeerStep == /\ inbox = <<>> /\ Waiting /\ nsel < 3 * (MaxRounds + 1)
            /\ \E it \in PeerItems :
                 /\ (it.k = "features" => phase = "features" /\ round < MaxRounds)
                 /\ (it.k = "hdr" => phase \in {"hdrwait", "restart"})
                 /\ (it.k = "select" => phase = "await")
                 /\ PeerSend(it)

Next ==
  \/ PeerStep \/ Fault \/ Cancel
  \/ SendHeader \/ ExpectHeader \/ ReadFeatures \/ SelectNone \/ Force \/ Advertise \/ Await \/ Abort
  \/ \E f \in cfg : Select(f)
  \/ \E f \in cfg, ok \in BOOLEAN : NegotiateRet(f, ok)

Spec == Init /\ [][Next]_vars

-----------------------------------------------------------------------------
(* Properties *)

(* C01: a feature is negotiated only when its prerequisites hold, it was advertised *)
(* on the current stream (or is the forced STARTTLS attempt), it is negotiable, not *)
(* yet negotiated on this stream, after a fresh header, voluntary ones first.       *)
C01_Eligible ==
  last.f # "none" =>
    /\ last.masks /\ last.neg /\ ~last.again /\ last.fresh /\ last.volFirst
    /\ (last.adv \/ last.forced)
C01_ForcedOnlyTLS == last.f # "none" /\ last.forced => last.f = TLSId /\ role = "init"
C01_BitsMonotone == [][bits \subseteq bits']_vars
C01_ReadyComplete ==
  result = "ok" => /\ "Ready" \in bits
                   /\ ~\E f \in cfg : Eligible(f) /\ ReqOf(f) /\ phase # "done"
C01_OkMeansReady == result = "ok" => "Ready" \in bits
(* C02 (state-machine part): configured with STARTTLS and otherwise only features   *)
(* that need a secure stream, the initiator is never ready in clear.                *)
C02_NoReadyInClear ==
  (role = "init" /\ TLSId \in cfg /\ \A f \in cfg \ {TLSId} : "Secure" \in Kind(f).nec)
     => (result = "ok" => "Secure" \in bits)
(* C04: success only if no executed step (Negotiate, List, Parse) failed, nothing   *)
(* broke, nothing was cancelled.                                                    *)
C04_NoSwallow == result = "ok" => ~failed /\ ~broken /\ ~cancelled
(* A failed establishment is not ready - unless a step that was executed successfully on *)
(* this stream reported Ready itself before the failure (a voluntary feature whose mask   *)
(* holds Ready: outside the handshakes C04 quantifies over, C01 only asks that such a     *)
(* session is not REPORTED established, and it is not: the call returns the error).       *)
C04_ErrNotReady == result = "err" => ("Ready" \notin bits \/ \E f \in negotiated : "Ready" \in Kind(f).mask)
(* C12c *)
C12_EstabStable == [][(estab.from # "none" => estab'.from = estab.from) /\ (estab.to # "none" => estab'.to = estab.to)]_vars

View == <<cfg, role, s2s, bits, phase, round, first, list, cache, negotiated, fresh, failed, result,
          cur, last, inbox, estab, broken, cancelled>>
=============================================================================
