------------------------------- MODULE Codec -------------------------------
(* C13 / C19 - the LAWS that every encoder/decoder pair of the library has to obey,  *)
(* stated over abstract observations, never over a wire format:                       *)
(*                                                                                    *)
(*   WellFormed  every encoding (xml.Marshal bytes, TokenReader tokens, WriteXML      *)
(*               bytes) is a balanced token stream without duplicate attributes -     *)
(*               decided by the stack automaton below, run by TLC token by token;     *)
(*   PathsAgree  all decoded views of one value are the same abstract value;          *)
(*   RoundTrip   that value is one of Expect(type, v) (the original, up to the        *)
(*               normalisations stated explicitly per type);                          *)
(*   helpers     Wrap keeps kind and payload, Result/Error swap the addresses and set *)
(*               the type, NewX(StartElement(v)) = v.                                 *)
(*                                                                                    *)
(* An observation (one ndjson line written by harness/cmd/codec) is                   *)
(*   [ty, v, enc : Seq([p, tl, strict, err]), dec : Seq([p, exp, val, err])]          *)
(* where tl numbers an abstract token list [k, n, a] in the table of distinct lists.  *)
EXTENDS Stanza

(* named deviations from the property, switched on only to recognise findings that are  *)
(* listed as open in known-findings.json; always {} in the design check                 *)
CONSTANT Dev

SeqSet(s) == {s[i] : i \in 1..Len(s)}

(* ------------------------------------------------------------------ stack automaton *)
(* token: k = "s" start (n name, a attribute names) | "e" end (n) | "t" text |        *)
(* "o" comment/PI | anything else (e.g. "bad": tokenizer gave up) is rejected.        *)
NoDupAttrs(tok) == Cardinality(SeqSet(tok.a)) = Len(tok.a)
CanStep(st, tok) ==
  CASE tok.k = "s" -> NoDupAttrs(tok)
    [] tok.k = "e" -> IF Len(st) > 0 THEN st[Len(st)] = tok.n ELSE FALSE
    [] tok.k = "t" -> Len(st) > 0            \* character data only inside an element
    [] tok.k = "o" -> TRUE
    [] OTHER -> FALSE
StepStack(st, tok) ==
  CASE tok.k = "s" -> Append(st, tok.n)
    [] tok.k = "e" -> SubSeq(st, 1, Len(st) - 1)
    [] OTHER -> st
(* the automaton as a function (used by the design check to compare with the grammar) *)
RECURSIVE RunFrom(_, _, _)
RunFrom(st, toks, i) ==
  IF i > Len(toks) THEN st = <<>>
  ELSE IF CanStep(st, toks[i]) THEN RunFrom(StepStack(st, toks[i]), toks, i + 1) ELSE FALSE
Accepts(toks) == RunFrom(<<>>, toks, 1)

(* ------------------------------------------------------------------ C13 table *)
StanzaTypes == {"iq", "message", "presence"}
HelpTypes   == {"iq.help", "message.help", "presence.help"}
C13Types    == StanzaTypes \cup HelpTypes \cup {"stanzaerror", "streamerror", "encode.pair"}
KindOf(ty) == CASE ty \in {"iq", "iq.help"} -> "iq"
                [] ty \in {"message", "message.help"} -> "message"
                [] OTHER -> "presence"

(* JSON -> abstract: lists that stand for sets become sets *)
AbsErr(e) == [by |-> e.by, type |-> e.type, cond |-> e.cond, texts |-> SeqSet(e.texts)]
C13AbsV(ty, v) ==
  CASE ty = "stanzaerror" -> [by |-> v.by, type |-> v.type, cond |-> v.cond, texts |-> SeqSet(v.texts), app |-> v.app]
    [] ty \in HelpTypes -> [st |-> v.st, pl |-> v.pl, er |-> AbsErr(v.er)]
    [] OTHER -> v
C13AbsD(ty, exp, val) ==
  CASE ty = "stanzaerror" -> AbsErr(val)
    [] exp = "err" -> AbsErr(val)
    [] exp = "iqerr" -> [st |-> val.st, er |-> AbsErr(val.er)]
    [] OTHER -> val

C13Values(ty) ==
  CASE ty \in StanzaTypes -> Stanzas(ty)
    [] ty \in HelpTypes -> Helps(KindOf(ty))
    [] ty = "stanzaerror" -> StanzaErrors
    [] ty = "streamerror" -> StreamErrors
    [] ty = "encode.pair" -> EncodePairs

(* acceptable abstract results of a decoded view with expectation name exp *)
C13Expect(ty, exp, av) ==
  CASE ty \in StanzaTypes -> {Decoded(ty, av)}
    [] ty = "stanzaerror" -> StanzaErrorNorms(ErrCore(av))        \* the application condition is not decoded
    [] ty = "streamerror" -> {StreamErrorNorm(av)}
    \* plain values through a session: what arrives on the wire is the stanza that was given
    [] ty = "encode.pair" -> {SentStanza(IF exp = "outer" THEN av.outer ELSE av.inner)}
    [] exp = "st" -> {Decoded(KindOf(ty), av.st)}                       \* Wrap keeps the kind
    [] exp = "payload" -> {[pl |-> av.pl]}                              \* ... and the payload
    [] exp = "result" -> {Decoded(KindOf(ty), Result(av.st))}
    [] exp = "errreply" -> {Decoded(KindOf(ty), ErrReply(av.st))}
    [] exp = "err" -> StanzaErrorNorms(av.er)
    [] exp = "iqerr" -> {[st |-> Decoded("iq", ErrReply(av.st)), er |-> e] : e \in StanzaErrorNorms(av.er)}

StanzaDec == {"marshal/unmarshal", "marshal/new", "wrap/decode", "wrap/new", "wrapbytes/unmarshal",
              "wrapbytes/new", "start/new"}
C13ReqEnc(ty) ==
  CASE ty \in StanzaTypes -> {"marshal", "wrap", "wrapbytes"}
    [] ty = "iq.help" -> {"wrap", "wrapbytes", "result", "error", "errorbytes", "errorecho"}
    [] ty \in HelpTypes -> {"wrap", "wrapbytes", "error", "errorbytes", "errorecho"}
    [] ty = "stanzaerror" -> {"marshal", "tokenreader", "trbytes", "writexml", "wrapapp", "wrapappbytes"}
    [] ty = "streamerror" -> {"marshal", "tokenreader", "trbytes", "writexml"}
    [] ty = "encode.pair" -> {"outer/marshal", "outer/session", "inner/marshal", "inner/session"}
C13ReqDec(ty) ==
  CASE ty \in StanzaTypes -> StanzaDec
    [] ty = "iq.help" -> {"wrap/new", "wrap/inner", "wrapbytes/inner", "result/new", "result/inner", "error/new",
                          "error/unmarshalerror", "error/unmarshaliqerror", "errorbytes/unmarshalerror",
                          "errorecho/unmarshalerror", "errorecho/unmarshaliqerror", "errorecho/inner"}
    [] ty \in HelpTypes -> {"wrap/new", "wrap/inner", "wrapbytes/inner", "error/new", "error/unmarshalerror",
                            "errorbytes/unmarshalerror", "errorecho/unmarshalerror", "errorecho/inner"}
    [] ty = "stanzaerror" -> {"marshal/unmarshal", "tokenreader/decode", "trbytes/unmarshal", "writexml/unmarshal",
                              "wrapapp/decode", "wrapapp/unmarshalerror", "wrapappbytes/unmarshal"}
    [] ty = "streamerror" -> {"marshal/unmarshal", "tokenreader/decode", "trbytes/unmarshal", "writexml/unmarshal"}
    [] ty = "encode.pair" -> {"outer/marshal/unmarshal", "outer/session/unmarshal", "inner/marshal/unmarshal", "inner/session/unmarshal"}

Symbols == [str |-> StrSym, jid |-> JidSym, time |-> TimeSym, int |-> IntSym, bytes |-> BytesSym,
            long |-> LongSym, xtime |-> ExtTimeSym, maxtime |-> MaxTimeSeq]

(* ================================================================== C19: the typed table *)
(* For every extension payload type: the record of its leaf fields with the domain of  *)
(* each (kinds: text, multi-line text, bool, small/extreme integer, time with zone and *)
(* sub-second part, address, enum, list of 0|1|2, optional child).  TLC enumerates the *)
(* full product where it has fewer than 5000 elements and a pairwise covering set      *)
(* (every pair of (field, value) choices occurs, the other fields at their base value) *)
(* otherwise.  A type that is not in this table is reported as uncovered.              *)
Txt   == IF Quick THEN {"S_empty", "S_a", "S_xml", "S_uni", "S_ml"}
                  ELSE {"S_empty", "S_a", "S_xml", "S_uni", "S_ml", "S_cdata", "S_crlf", "S_nl", "S_sp"}
NeTxt == Txt \ {"S_empty"}
Txt3  == {"S_empty", "S_a", "S_xml"}
Jids  == JidSyms
(* every instant in every zone offset class, and the extreme times (Stanza.tla) *)
Times == AllTimes
UInts == {"N_0", "N_1", "N_7", "N_max32", "N_max64"}
Bools == BOOLEAN
Opt(S) == {<<>>} \cup {<<x>> : x \in S}
GoodHashes == {"H_sha1", "H_sha256", "H_sha512", "H_sha3_256", "H_blake2b_512"}
NeBytes == {"B_1", "B_2", "B_3", "B_20"}

RECURSIVE Size(_, _)
Size(doms, fs) == IF fs = {} THEN 1 ELSE LET f == CHOOSE x \in fs : TRUE IN Cardinality(doms[f]) * Size(doms, fs \ {f})
RECURSIVE Prod(_, _)
Prod(doms, fs) == IF fs = {} THEN {<<>>}
                  ELSE LET f == CHOOSE x \in fs : TRUE IN {r @@ (f :> v) : r \in Prod(doms, fs \ {f}), v \in doms[f]}
FieldChoices(doms) == UNION {{<<f, v>> : v \in doms[f]} : f \in DOMAIN doms}
Pairwise(doms, base) ==
  {[f \in DOMAIN doms |-> IF f = p[1] THEN p[2] ELSE IF f = q[1] THEN q[2] ELSE base[f]] : p, q \in FieldChoices(doms)}
Enum(doms, base) == IF Size(doms, DOMAIN doms) < 5000 THEN Prod(doms, DOMAIN doms) ELSE Pairwise(doms, base)
InProduct(doms, v) == DOMAIN v = DOMAIN doms /\ \A f \in DOMAIN doms : v[f] \in doms[f]

(* ---- sub-records *)
Identities == {[cat |-> "S_a", type |-> "S_b", name |-> "S_empty", lang |-> "S_empty"],
               [cat |-> "S_xml", type |-> "S_uni", name |-> "S_ml", lang |-> "S_en"]}
Fld(ft, var, label, desc, req, vals, opts) ==
  [ft |-> ft, var |-> var, label |-> label, desc |-> desc, req |-> req, vals |-> vals, opts |-> opts]
Op(l, v) == [label |-> l, value |-> v]
(* representative fields of every type: defaults, several values, empty values, options *)
FormFields == {
  Fld("boolean", "S_a", "S_empty", "S_empty", FALSE, <<"S_true">>, <<>>),
  Fld("boolean", "S_b", "S_xml", "S_ml", TRUE, <<"S_0">>, <<>>),
  Fld("fixed", "S_empty", "S_a", "S_empty", FALSE, <<"S_xml", "S_uni">>, <<>>),
  Fld("hidden", "S_ftype", "S_empty", "S_empty", FALSE, <<"S_a">>, <<>>),
  Fld("hidden", "S_a", "S_empty", "S_empty", FALSE, <<"S_a", "S_b">>, <<>>),
  Fld("jid-multi", "S_a", "S_empty", "S_uni", FALSE, <<"S_jbare", "S_jfull">>, <<>>),
  Fld("jid-single", "S_b", "S_uni", "S_empty", TRUE, <<"S_jfull">>, <<>>),
  Fld("list-multi", "S_a", "S_empty", "S_empty", FALSE, <<"S_a", "S_xml">>, <<Op("S_empty", "S_a"), Op("S_uni", "S_xml")>>),
  Fld("list-single", "S_b", "S_a", "S_empty", FALSE, <<"S_a">>, <<Op("S_xml", "S_a")>>),
  Fld("list-single", "S_xml", "S_empty", "S_empty", FALSE, <<>>, <<>>),
  Fld("text-multi", "S_a", "S_empty", "S_empty", FALSE, <<"S_a", "S_empty", "S_xml">>, <<>>),
  Fld("text-multi", "S_uni", "S_empty", "S_empty", FALSE, <<"S_ml", "S_b">>, <<>>),
  Fld("text-private", "S_b", "S_empty", "S_empty", FALSE, <<"S_uni">>, <<>>),
  Fld("text-single", "S_a", "S_ml", "S_xml", TRUE, <<"S_xml">>, <<Op("S_a", "S_b")>>),
  Fld("text-single", "S_b", "S_empty", "S_empty", FALSE, <<"S_empty", "S_a">>, <<>>),
  Fld("text-single", "S_uni", "S_empty", "S_empty", FALSE, <<"S_a", "S_b">>, <<>>)}
FormKinds == {"form", "result", "cancel"}
(* two fields that share ONE var but differ in type: XEP-0004 asks for unique names, a peer can send them all the  *)
(* same and the field constructors accept them; fields are positional in a form, so the round trip is the same  *)
(* law (fields without options: the options of a field can only be looked up by name)                            *)
DupVarPairs == {<<a, b>> \in FormFields \X FormFields : a.var = b.var /\ a.ft # b.ft /\ a.var \in {"S_a", "S_b"}
                                                          /\ a.opts = <<>> /\ b.opts = <<>>}
D_form == [kind |-> FormKinds, title |-> Txt \cup {"S_nl", "S_crlf"}, instr |-> Txt \cup {"S_nl", "S_crlf"},
           fields |-> SeqsUpTo(FormFields, 1) \cup {<<a, b>> \in FormFields \X FormFields : a.var # b.var /\ {a.var, b.var} \subseteq {"S_a", "S_b", "S_ftype"}}
                      \cup DupVarPairs]
(* form.Cancel(title, instructions) builds a form without fields *)
V_form == {v \in Enum(D_form, [kind |-> "form", title |-> "S_a", instr |-> "S_empty", fields |-> <<>>]) :
             v.kind = "cancel" => v.fields = <<>>}
SmallForms == {[kind |-> "result", title |-> "S_empty", instr |-> "S_empty",
                fields |-> <<Fld("hidden", "S_ftype", "S_empty", "S_empty", FALSE, <<"S_a">>, <<>>),
                             Fld("text-single", "S_b", "S_empty", "S_empty", FALSE, <<"S_xml">>, <<>>)>>]}

(* ---- normal forms of a data form (form/form.go TokenReader, form/fields.go field.TokenReader) *)
Cps(sy) == StrSym[sy]
SymOf(c) == CHOOSE n \in DOMAIN StrSym : StrSym[n] = c
IsNL(c) == c \in {10, 13}
(* "Unwrap title (which cannot contain newlines)": \r\n, \n\r, \n, \r each become one blank *)
RECURSIVE ReplNL(_)
ReplNL(c) == IF c = <<>> THEN <<>>
             ELSE IF Len(c) >= 2 /\ IsNL(c[1]) /\ IsNL(c[2]) /\ c[1] # c[2] THEN <<32>> \o ReplNL(SubSeq(c, 3, Len(c)))
             ELSE IF IsNL(c[1]) THEN <<32>> \o ReplNL(Tail(c)) ELSE <<c[1]>> \o ReplNL(Tail(c))
(* "Split instructions elements up one per line": empty lines vanish, decoding joins with \n *)
RECURSIVE SplitLines(_, _)
SplitLines(c, cur) == IF c = <<>> THEN <<cur>>
                      ELSE IF IsNL(c[1]) THEN <<cur>> \o SplitLines(Tail(c), <<>>) ELSE SplitLines(Tail(c), Append(cur, c[1]))
RECURSIVE JoinNL(_)
JoinNL(ls) == IF ls = <<>> THEN <<>> ELSE IF Len(ls) = 1 THEN ls[1] ELSE ls[1] \o <<10>> \o JoinNL(Tail(ls))
(* long texts (Stanza.tla LongSym) are never written out: their lines are symbols *)
IsLong(sy) == sy \in DOMAIN LongSym
Known(sy) == sy \in DOMAIN StrSym \/ IsLong(sy)
HasSym(c) == \E n \in DOMAIN StrSym : StrSym[n] = c
RECURSIVE JoinCps(_, _)
JoinCps(ls, sep) == IF ls = <<>> THEN <<>> ELSE IF Len(ls) = 1 THEN ls[1] ELSE ls[1] \o <<sep>> \o JoinCps(Tail(ls), sep)
(* the lines of a text, each named by its symbol (a text that ends in a newline has a last, empty line) *)
LineSyms(sy) == IF IsLong(sy)
                  THEN (IF LongSym[sy].kind = "lines" /\ LongSym[sy].sep = 10 THEN LongSym[sy].lines ELSE <<sy>>)
                  ELSE LET ls == SplitLines(Cps(sy), <<>>) IN [i \in 1..Len(ls) |-> SymOf(ls[i])]
(* the symbol of the texts ls joined by the separator sep; "S_undefined" if the table has no name for it *)
JoinSyms(ls, sep) ==
  IF ls = <<>> THEN "S_empty" ELSE IF Len(ls) = 1 THEN ls[1]
  ELSE IF \A i \in 1..Len(ls) : ls[i] \in DOMAIN StrSym
         THEN LET c == JoinCps([i \in 1..Len(ls) |-> Cps(ls[i])], sep)
                  m == {n \in DOMAIN StrSym : Len(StrSym[n]) = Len(c) /\ StrSym[n] = c}
              IN IF m = {} THEN "S_undefined" ELSE CHOOSE n \in m : TRUE
  ELSE IF \E n \in DOMAIN LongSym : LongSym[n].kind = "lines" /\ LongSym[n].lines = ls /\ LongSym[n].sep = sep
         THEN CHOOSE n \in DOMAIN LongSym : LongSym[n].kind = "lines" /\ LongSym[n].lines = ls /\ LongSym[n].sep = sep
         ELSE "S_undefined"
InstrNorm(sy) == IF IsLong(sy) THEN JoinSyms(SelectSeq(LineSyms(sy), LAMBDA l : l # "S_empty"), 10)
                 ELSE SymOf(JoinNL(SelectSeq(SplitLines(Cps(sy), <<>>), LAMBDA l : l # <<>>)))
TitleNorm(sy) == IF IsLong(sy) THEN (IF Len(LineSyms(sy)) > 1 THEN JoinSyms(LineSyms(sy), 32) ELSE sy)
                 ELSE SymOf(ReplNL(Cps(sy)))
MultiTypes == {"list-multi", "jid-multi", "text-multi"}
(* per the package's own documentation (form.Value: "Fields of type ListMulti, JidMulti, TextMulti, and Hidden *)
(* may contain more than one Value; all other field types will only use the first Value") and XEP-0004 3.3      *)
KeepsAll(ft) == ft \in MultiTypes \cup {"hidden"}
NonEmpty(vals) == SelectSeq(vals, LAMBDA x : x # "S_empty")
ValsNorm(f) == LET ne == NonEmpty(f.vals) IN IF KeepsAll(f.ft) \/ Len(ne) <= 1 THEN ne ELSE <<ne[1]>>
(* "ListItem ... has no effect on any non-list field type" *)
OptsNorm(f) == IF f.ft \in {"list-single", "list-multi"} THEN f.opts ELSE <<>>
(* an empty <value/> may or may not survive (the property is silent): both accepted *)
FieldNorms(f) == {[f EXCEPT !.vals = vs, !.opts = OptsNorm(f)] :
                    vs \in {ValsNorm(f)} \cup (IF KeepsAll(f.ft) \/ Len(f.vals) <= 1 THEN {f.vals} ELSE {})}
RECURSIVE SeqNorms(_)
SeqNorms(fs) == IF fs = <<>> THEN {<<>>} ELSE {<<h>> \o t : h \in FieldNorms(fs[1]), t \in SeqNorms(Tail(fs))}
FormNorms(v) == {[kind |-> v.kind, title |-> t, instr |-> i, fields |-> fs] :
                   t \in {v.title, TitleNorm(v.title)}, i \in {v.instr, InstrNorm(v.instr)}, fs \in SeqNorms(v.fields)}

(* ---- the table: domains and base values *)
D_discoinfoquery == [node |-> Txt]
D_discoidentity == [cat |-> Txt, type |-> Txt, name |-> Txt, lang |-> {"S_empty", "S_en", "S_xml"}]
D_discofeature == [var |-> Txt]
D_discoitem == [jid |-> Jids, name |-> Txt, node |-> Txt]
D_discocaps == [hash |-> GoodHashes, node |-> Txt, ver |-> Txt]
D_discoinfo == [node |-> Txt3, ids |-> SeqsUpTo(Identities, 2), feats |-> SeqsUpTo({"S_a", "S_xml"}, 2),
                forms |-> SeqsUpTo(SmallForms, 1)]
D_requestnext == [max |-> UInts, after |-> Txt]
D_requestprev == [max |-> UInts, before |-> Txt]
D_requestindex == [max |-> UInts, index |-> UInts]
D_requestcount == [none |-> {TRUE}]
D_pagingset == [first |-> Txt, index |-> Opt(UInts), last |-> Txt, count |-> Opt(UInts)]
D_delay == [from |-> Jids, time |-> Times, reason |-> Txt]
D_xtime == [time |-> Times]
D_forward == [from |-> {"J_zero", "J_fullx"}, time |-> Times, reason |-> Txt3, pl |-> Payloads]
(* forward.Wrap(message, body, received, stanza): the package level constructor takes the body and the time itself *)
D_forwardwrap == [body |-> Txt3, time |-> Times, pl |-> {"P_none", "P_text"}]
D_carbons == [kind |-> {"sent", "received"}, from |-> {"J_zero", "J_fullx"}, time |-> Times, reason |-> Txt3, pl |-> Payloads \ {"P_none"}]
D_requested == [req |-> Bools]
D_unstyled == [value |-> Bools]
Subs == {"S_empty", "S_both", "S_remove", "S_xml"}
D_rosteritem == [jid |-> Jids, name |-> Txt, sub |-> Subs, groups |-> SeqsUpTo({"S_a", "S_xml", "S_ml"}, 2)]
SmallIQs == [id : {"S_empty", "S_xml"}, to : {"J_zero", "J_full"}, type : {"get", "set", "result"}]
RosterItems == {[jid |-> "J_bare", name |-> "S_empty", sub |-> "S_empty", groups |-> <<>>],
                [jid |-> "J_fullx", name |-> "S_xml", sub |-> "S_both", groups |-> <<"S_a", "S_uni">>]}
D_rosteriq == [iq |-> SmallIQs, ver |-> Txt3, items |-> SeqsUpTo(RosterItems, 2)]
StanzaIDs == {[id |-> "S_a", by |-> "J_zero"], [id |-> "S_xml", by |-> "J_fullx"]}
D_blockitem == [jid |-> Jids, reason |-> {"S_empty", "S_spam", "S_abuse"}, ids |-> SeqsUpTo(StanzaIDs, 2), text |-> Txt]
D_bookmark == [autojoin |-> Bools, name |-> Txt, nick |-> Txt, password |-> Txt, ext |-> {"P_none", "P_elem", "P_text"}]
D_mucitem == [jid |-> Jids, aff |-> {"N_0", "N_1", "N_2", "N_3", "N_4"}, nick |-> Txt, role |-> {"N_0", "N_1", "N_2", "N_3"}, reason |-> Txt]
D_invitation == [kind |-> {"direct", "mediated"}, continue |-> Bools, jid |-> Jids, password |-> Txt, reason |-> Txt, thread |-> Txt3]
D_oob == [url |-> Txt \cup {"S_url"}, desc |-> Txt]
D_oobiq == [iq |-> SmallIQs, url |-> {"S_url", "S_xml"}, desc |-> Txt3]
D_version == [name |-> Txt, version |-> Txt, os |-> Txt]
D_uploadfile == [name |-> Txt, size |-> {"N_0", "N_7", "N_neg", "N_maxi64"}, type |-> Txt]
Headers == {[name |-> "S_hAuth", value |-> "S_xml"], [name |-> "S_hCookie", value |-> "S_uni"]}
D_uploadslot == [put |-> {"S_empty", "S_url", "S_url2"}, get |-> {"S_empty", "S_url", "S_url2"},
                 headers |-> {<<>>} \cup {<<h>> : h \in Headers} \cup {<<[name |-> "S_hAuth", value |-> "S_xml"], [name |-> "S_hCookie", value |-> "S_uni"]>>}]
D_bindata == [cid |-> Txt3, maxage |-> {"N_0", "N_1", "N_3600"}, nocache |-> Bools, type |-> Txt3, data |-> DOMAIN BytesSym]
D_filemeta == [mediatype |-> Txt3, name |-> Txt, date |-> Times, size |-> UInts, hash |-> {"H_sha1", "H_sha256"},
               out |-> {"B_1", "B_20"}, width |-> {"N_0", "N_max64"}, height |-> {"N_0", "N_7"}, length |-> {"N_0", "N_1"}]
D_hash == [hash |-> GoodHashes]
D_hashoutput == [hash |-> GoodHashes, out |-> NeBytes]
D_key == [trusted |-> Bools, id |-> DOMAIN BytesSym]
Keys == {[trusted |-> TRUE, id |-> "B_1"], [trusted |-> FALSE, id |-> "B_20"]}
D_ownedkeys == [owner |-> Jids, keys |-> SeqsUpTo(Keys, 2)]
Owned == {[owner |-> "J_bare", keys |-> <<>>], [owner |-> "J_fullx", keys |-> <<[trusted |-> TRUE, id |-> "B_1"], [trusted |-> FALSE, id |-> "B_20"]>>]}
D_trustmessage == [usage |-> Txt, enc |-> Txt, keys |-> SeqsUpTo(Owned, 2)]
D_historyquery == [id |-> Txt3, with |-> {"J_zero", "J_bare", "J_fullx"}, start |-> Times, end |-> {"T_zero", "T_utc", "T_east"},
                   beforeid |-> Txt3, afterid |-> Txt3, ids |-> SeqsUpTo({"S_a", "S_xml"}, 2), limit |-> {"N_0", "N_7", "N_max64"},
                   last |-> Bools, pageid |-> Txt3, reverse |-> Bools]
PagingSets == {[first |-> "S_a", index |-> <<>>, last |-> "S_xml", count |-> <<>>],
               [first |-> "S_empty", index |-> <<"N_0">>, last |-> "S_empty", count |-> <<"N_max64">>]}
D_historyresult == [complete |-> Bools, unstable |-> Bools, set |-> PagingSets]
D_command == [jid |-> Jids, action |-> Txt3, name |-> Txt, node |-> Txt, sid |-> Txt3]
(* commands.Actions: bits 0-2 = allowed actions, bits 3-5 = the one default ("execute") action: at most one of them *)
D_actions == [bits |-> {"N_0", "N_1", "N_2", "N_3", "N_4", "N_7", "N_9", "N_17", "N_36", "N_39"}]
D_response == [iq |-> SmallIQs, node |-> Txt3, sid |-> Txt3, status |-> Txt3]

(* the base value of a field: any element of its domain; for the time fields an ordinary time (the choice must *)
(* not depend on how many extreme times the table holds)                                                       *)
TimeFieldNames == {"time", "date", "start", "end"}
Base(doms) == [f \in DOMAIN doms |-> IF f \in TimeFieldNames THEN "T_zero" ELSE CHOOSE x \in doms[f] : TRUE]
(* a second base value that differs from the first in every field that has two values *)
Base2(doms) == [f \in DOMAIN doms |-> IF f \in TimeFieldNames THEN "T_east"
                                        ELSE IF \E x \in doms[f] : x # Base(doms)[f]
                                               THEN CHOOSE x \in doms[f] : x # Base(doms)[f] ELSE Base(doms)[f]]
Dom(ty) ==
  CASE ty = "disco.infoquery" -> D_discoinfoquery [] ty = "disco.itemsquery" -> D_discoinfoquery
    [] ty = "disco.identity" -> D_discoidentity [] ty = "disco.feature" -> D_discofeature
    [] ty = "disco.item" -> D_discoitem [] ty = "disco.caps" -> D_discocaps [] ty = "disco.info" -> D_discoinfo
    [] ty = "paging.requestnext" -> D_requestnext [] ty = "paging.requestprev" -> D_requestprev
    [] ty = "paging.requestindex" -> D_requestindex [] ty = "paging.requestcount" -> D_requestcount
    [] ty = "paging.set" -> D_pagingset
    [] ty = "delay" -> D_delay [] ty = "stanza.delay" -> D_delay [] ty = "xtime" -> D_xtime
    [] ty = "forward" -> D_forward [] ty = "carbons" -> D_carbons [] ty = "forward.wrap" -> D_forwardwrap
    [] ty = "receipts.requested" -> D_requested [] ty = "styling.unstyled" -> D_unstyled
    [] ty = "roster.item" -> D_rosteritem [] ty = "roster.iq" -> D_rosteriq
    [] ty = "blocklist.item" -> D_blockitem [] ty = "bookmarks.channel" -> D_bookmark
    [] ty = "muc.item" -> D_mucitem [] ty = "muc.invitation" -> D_invitation
    [] ty = "oob.data" -> D_oob [] ty = "oob.query" -> D_oob [] ty = "oob.iq" -> D_oobiq
    [] ty = "version.query" -> D_version
    [] ty = "upload.file" -> D_uploadfile [] ty = "upload.slot" -> D_uploadslot
    [] ty = "bin.data" -> D_bindata [] ty = "file.meta" -> D_filemeta
    [] ty = "crypto.hash" -> D_hash [] ty = "crypto.hashoutput" -> D_hashoutput [] ty = "crypto.key" -> D_key
    [] ty = "crypto.ownedkeys" -> D_ownedkeys [] ty = "crypto.trustmessage" -> D_trustmessage
    [] ty = "history.query" -> D_historyquery [] ty = "history.result" -> D_historyresult
    [] ty = "commands.command" -> D_command [] ty = "commands.actions" -> D_actions
    [] ty = "commands.response" -> D_response
    [] ty = "form" -> D_form
C19Types == {"form", "disco.infoquery", "disco.itemsquery", "disco.identity", "disco.feature", "disco.item", "disco.caps",
  "disco.info", "paging.requestnext", "paging.requestprev", "paging.requestindex", "paging.requestcount", "paging.set",
  "delay", "stanza.delay", "xtime", "forward", "forward.wrap", "carbons", "receipts.requested", "styling.unstyled", "roster.item",
  "roster.iq", "blocklist.item", "bookmarks.channel", "muc.item", "muc.invitation", "oob.data", "oob.query", "oob.iq",
  "version.query", "upload.file", "upload.slot", "bin.data", "file.meta", "crypto.hash", "crypto.hashoutput",
  "crypto.key", "crypto.ownedkeys", "crypto.trustmessage", "history.query", "history.result", "commands.command",
  "commands.actions", "commands.response"}

(* restrictions of the quantified domain, each with its reason *)
Admit(ty, v) ==
  CASE ty = "form" -> (v.kind = "cancel" => v.fields = <<>>)             \* form.Cancel takes no fields
    \* XEP-0045 7.8 / 7.9: a thread only accompanies <continue/>; the encoders write it only then
    [] ty = "muc.invitation" -> (v.thread # "S_empty" => v.continue)
    \* bin.Data: "NoCache" is max-age=0, the same wire value as no lifetime at all
    [] ty = "bin.data" -> (v.nocache => v.maxage = "N_0")
    [] OTHER -> TRUE
(* ---- the LENGTH dimension of text: every free-text slot of every type carries each long text of LongFor(slot), *)
(* the other fields at a base value (a star around the base: lengths are not crossed with one another)            *)
LongFields(ty) ==
  CASE ty \in {"disco.infoquery", "disco.itemsquery"} -> {"node"} [] ty = "disco.identity" -> {"cat", "type", "name"}
    [] ty = "disco.feature" -> {"var"} [] ty = "disco.item" -> {"name", "node"} [] ty = "disco.caps" -> {"node", "ver"}
    [] ty = "disco.info" -> {"node"}
    [] ty = "paging.requestnext" -> {"after"} [] ty = "paging.requestprev" -> {"before"} [] ty = "paging.set" -> {"first", "last"}
    [] ty \in {"delay", "stanza.delay", "forward", "carbons"} -> {"reason"} [] ty = "forward.wrap" -> {"body"}
    [] ty = "roster.item" -> {"name", "sub"} [] ty = "roster.iq" -> {"ver"} [] ty = "blocklist.item" -> {"text"}
    [] ty = "bookmarks.channel" -> {"name", "nick", "password"} [] ty = "muc.item" -> {"nick", "reason"}
    [] ty = "muc.invitation" -> {"password", "reason", "thread"}
    [] ty \in {"oob.data", "oob.query"} -> {"url", "desc"} [] ty = "oob.iq" -> {"url", "desc"}
    [] ty = "version.query" -> {"name", "version", "os"} [] ty = "upload.file" -> {"name", "type"}
    [] ty = "bin.data" -> {"cid", "type"} [] ty = "file.meta" -> {"mediatype", "name"}
    [] ty = "crypto.trustmessage" -> {"usage", "enc"}
    [] ty = "history.query" -> {"id", "beforeid", "afterid", "pageid"}
    [] ty = "commands.command" -> {"action", "name", "node", "sid"} [] ty = "commands.response" -> {"node", "sid", "status"}
    [] OTHER -> {}
(* slots that carry every length class in the quick tier (one per way a text reaches the wire: character data, *)
(* attribute, child written by hand, child written by struct tags, a form value inside another payload ...)      *)
RepSlots == {<<"delay", "reason">>, <<"forward.wrap", "body">>, <<"oob.data", "desc">>, <<"roster.item", "name">>,
             <<"muc.invitation", "reason">>, <<"history.query", "afterid">>, <<"bookmarks.channel", "password">>}
LongFor(ty, f) == IF ~Quick THEN LongAll \cup {"L_1000x", "L_a_65536_b_sp"}
                  ELSE IF <<ty, f>> \in RepSlots THEN LongAll ELSE LongAtoms4k \cup {"L_65536"}
LongBase(ty, f, l) == LET d == Dom(ty)  b2 == [Base2(d) EXCEPT ![f] = l]  b1 == [Base(d) EXCEPT ![f] = l]
                      IN IF Admit(ty, b2) THEN {b2} ELSE IF Admit(ty, b1) THEN {b1} ELSE {}
(* a data form: instructions (one element per line), title (newlines become blanks), and every text slot of a field *)
TitleLongs == {l \in LongAtoms4k \cup LongAtoms64k \cup {"L_a_65536_b"} : TitleNorm(l) # "S_undefined"}
InstrLongs == {l \in LongAll : InstrNorm(l) # "S_undefined"}
FieldLongs == IF Quick THEN {"L_4096", "L_65535", "L_65536", "L_65537", "L_a_65536_b"} ELSE LongAll
LongFormFields(l) == {
  Fld("text-single", "S_a", l, "S_empty", FALSE, <<"S_a">>, <<>>),                       \* label
  Fld("text-single", "S_a", "S_empty", l, FALSE, <<"S_a">>, <<>>),                       \* desc
  Fld("text-single", l, "S_empty", "S_empty", FALSE, <<"S_a">>, <<>>),                   \* var
  Fld("text-single", "S_a", "S_empty", "S_empty", TRUE, <<l>>, <<>>),                    \* the value of a single-valued field
  Fld("text-multi", "S_a", "S_empty", "S_empty", FALSE, <<"S_a", l, "S_b">>, <<>>),      \* one value (line) among others
  Fld("text-multi", "S_a", "S_empty", "S_empty", FALSE, <<l>>, <<>>),
  Fld("list-multi", "S_a", "S_empty", "S_empty", FALSE, <<l, "S_a">>, <<Op(l, "S_a"), Op("S_uni", l)>>),   \* list value, option label, option value
  Fld("hidden", "S_a", "S_empty", "S_empty", FALSE, <<"S_a", l>>, <<>>),
  Fld("fixed", "S_empty", "S_empty", "S_empty", FALSE, <<l>>, <<>>)}
LongFormValues ==
  {[kind |-> k, title |-> "S_a", instr |-> l, fields |-> <<>>] : k \in FormKinds, l \in InstrLongs}
  \cup {[kind |-> k, title |-> l, instr |-> "S_empty", fields |-> <<>>] : k \in {"form", "cancel"}, l \in TitleLongs}
  \cup UNION {{[kind |-> "form", title |-> "S_empty", instr |-> "S_empty", fields |-> <<f>>] : f \in LongFormFields(l)} : l \in FieldLongs}
LongValues(ty) == IF ty = "form" THEN LongFormValues
                  ELSE UNION {UNION {LongBase(ty, f, l) : l \in LongFor(ty, f)} : f \in LongFields(ty)}
C19Values(ty) == {v \in Enum(Dom(ty), Base(Dom(ty))) : Admit(ty, v)} \cup LongValues(ty)

RECURSIVE SeqNorms2(_)
SeqNorms2(fs) == IF fs = <<>> THEN {<<>>} ELSE {<<h>> \o t : h \in FormNorms(fs[1]), t \in SeqNorms2(Tail(fs))}
Perms(sq) == {p \in [1..Len(sq) -> SeqSet(sq)] : \A x \in SeqSet(sq) : Cardinality({i \in 1..Len(sq) : sq[i] = x}) = Cardinality({i \in 1..Len(sq) : p[i] = x})}
(* XEP-0082 recommends UTC on the wire and a decoder may return any zone: a time field is the  *)
(* INSTANT (the zone offset is part of the value only where the type carries it: xtime)        *)
TimeFields(ty) == CASE ty \in {"delay", "stanza.delay", "forward", "forward.wrap", "carbons", "xtime"} -> {"time"}
                    [] ty = "file.meta" -> {"date"}
                    [] ty = "history.query" -> {"start", "end"}
                    [] OTHER -> {}
Instants2(ty, v) == [f \in DOMAIN v |-> IF f \in TimeFields(ty) THEN InstOf(v[f]) ELSE v[f]]
(* acceptable decoded values; by default the value itself *)
C19Expect(ty, exp, av0) ==
  LET av == Instants2(ty, av0) IN
  CASE ty = "form" -> FormNorms(av)
    [] ty = "disco.info" -> {[av EXCEPT !.forms = fs] : fs \in SeqNorms2(av.forms)}
    \* xtime: the instant and the zone offset (tzo) are both part of the value
    [] ty = "xtime" -> {[time |-> av.time, off |-> OffsetOf(av0.time)]}
    [] ty = "forward" /\ exp = "norm" -> {[from |-> av.from, time |-> av.time, reason |-> av.reason]}
    \* blocklist.Item.TokenReader: a report without a reason is reported as spam ("reason := ReasonSpam")
    [] ty = "blocklist.item" ->
         {av, IF av.reason = "S_empty" /\ (av.ids # <<>> \/ av.text # "S_empty") THEN [av EXCEPT !.reason = "S_spam"] ELSE av}
    \* http headers are a multi-map: the order of different names is not part of the value
    [] ty = "upload.slot" -> {[av EXCEPT !.headers = h] : h \in Perms(av.headers)}
    \* deviation "UnstyledAlwaysWritten": styling.Unstyled writes the hint whatever its value is
    [] ty = "styling.unstyled" /\ "UnstyledAlwaysWritten" \in Dev -> {av, [value |-> TRUE]}
    [] OTHER -> {av}
(* ------------------------------------------------------------------ unmarshalling arbitrary XML *)
(* The payload-shape grammar: productions applied to the encoding of a value of each   *)
(* decodable type (k selects the attribute / text / child the production damages).     *)
(* The law: every decoder returns a value or an error - no panic, no stall.            *)
Shapes == {"same", "absent", "empty", "bare", "noattrs", "text", "attr-empty", "attr-nonnumeric", "attr-overflow",
           "attr-negative", "text-empty", "text-nonnumeric", "text-overflow", "child-unexpected", "nested-copy",
           "wrong-ns", "child-wrong-ns", "child-dropped", "child-emptied", "child-doubled", "text-first", "comment-first"}
ShapeKs == 0..2
DecodableTypes == (C19Types \ {"commands.response", "carbons", "forward.wrap"}) \cup {"stanzaerror", "streamerror"}
ShapeBases(ty) ==
  CASE ty = "stanzaerror" -> HelpErrors
    [] ty = "streamerror" -> {[err |-> "host-gone", texts |-> <<>>, content |-> "S_empty", app |-> NoApp],
                              [err |-> "see-other-host", texts |-> <<P("S_en", "S_uni")>>, content |-> "S_a", app |-> PlainApp]}
    [] OTHER -> {v \in {Base(Dom(ty)), Base2(Dom(ty))} : Admit(ty, v)}
ShapeValues == UNION {{[ty |-> t, v |-> x, shape |-> sh, k |-> k] : x \in ShapeBases(t), sh \in Shapes, k \in ShapeKs}
                      : t \in DecodableTypes}
Outcomes == {[outcome |-> "value"], [outcome |-> "error"]}

(* ------------------------------------------------------------------ decoding into a receiver that is in use *)
(* "Unmarshalling ... into any of these types returns a value or an error": the receiver is ANY  *)
(* value of the type, not only a fresh one.  A scenario decodes the encoding of a and then the   *)
(* encoding of b into the SAME variable (bytes: xml.Unmarshal; tokens: xml.NewTokenDecoder).     *)
(* Pairs: one field varied over its whole domain on both sides (lengths growing, shrinking,      *)
(* equal; present then absent and back) for the fields with at most 6 values, and every          *)
(* single-field variation before / after the two base values (all fields different).            *)
ReuseBases(ty) == {v \in {Base(Dom(ty)), Base2(Dom(ty))} : Admit(ty, v)}
ReusePairsOf(ty) ==
  IF ty \in {"stanzaerror", "streamerror"} THEN ShapeBases(ty) \X ShapeBases(ty)
  ELSE LET d  == Dom(ty)
           \* the second base value; where the type's restriction (Admit) excludes it, the nearest admitted value
           \* (one field taken from the first base) - otherwise every pair built on it would be dropped
           b2 == IF Admit(ty, Base2(d)) THEN Base2(d)
                 ELSE IF \E f \in DOMAIN d : Admit(ty, [Base2(d) EXCEPT ![f] = Base(d)[f]])
                        THEN [Base2(d) EXCEPT ![CHOOSE f \in DOMAIN d : Admit(ty, [Base2(d) EXCEPT ![f] = Base(d)[f]])] =
                                                Base(d)[CHOOSE f \in DOMAIN d : Admit(ty, [Base2(d) EXCEPT ![f] = Base(d)[f]])]]
                        ELSE Base2(d)
           star == {[b2 EXCEPT ![c[1]] = c[2]] : c \in FieldChoices(d)}
           same == UNION {{<<[b2 EXCEPT ![f] = x], [b2 EXCEPT ![f] = y]>> : x, y \in d[f]}
                          : f \in {g \in DOMAIN d : Cardinality(d[g]) <= 6}}
       IN {p \in same \cup (star \X ReuseBases(ty)) \cup (ReuseBases(ty) \X star) : Admit(ty, p[1]) /\ Admit(ty, p[2])}
ReuseValues == UNION {{[ty |-> t, a |-> p[1], b |-> p[2]] : p \in ReusePairsOf(t)} : t \in DecodableTypes}
C19All == C19Types \cup {"shape", "reuse"}
(* The same scenario for the core types of C13, with values that make ALIASING visible: a decoded value that the *)
(* application copied (by assignment) must keep denoting what it was decoded from when something else is decoded *)
(* into the variable afterwards and when values are encoded - errors with 0, 1, 2 and 3 texts that all differ,   *)
(* every ordered pair of them (fewer / as many / more texts in the second document), stanzas that differ in      *)
(* every attribute.                                                                                              *)
ReuseCoreTypes == {"iq", "message", "presence", "stanzaerror", "streamerror"}
ReuseTextLists == <<<<>>, <<P("S_en", "S_xml")>>, <<P("S_en", "S_uni"), P("S_de", "S_ml")>>,
                    <<P("S_empty", "S_a"), P("S_en", "S_ml"), P("S_de", "S_xml")>>>>
ReuseCoreVals(ty) ==
  CASE ty = "streamerror" ->
         {[err |-> IF i % 2 = 0 THEN "host-gone" ELSE "see-other-host", texts |-> ReuseTextLists[i],
           content |-> IF i % 2 = 0 THEN "S_empty" ELSE "S_a", app |-> NoApp] : i \in 1..Len(ReuseTextLists)}
    [] ty = "stanzaerror" ->
         {[by |-> IF i % 2 = 0 THEN "J_zero" ELSE "J_fullx", type |-> IF i % 2 = 0 THEN "cancel" ELSE "wait",
           cond |-> IF i % 2 = 0 THEN "item-not-found" ELSE "undefined-condition", texts |-> SeqSet(ReuseTextLists[i]),
           app |-> PlainApp] : i \in 1..Len(ReuseTextLists)}
    [] OTHER ->
         {[ns |-> "jabber:client", id |-> "S_a", to |-> "J_bare", from |-> "J_full", lang |-> "S_en", type |-> "error"],
          [ns |-> "jabber:server", id |-> "S_xml", to |-> "J_fullx", from |-> "J_zero", lang |-> "S_empty",
           type |-> CHOOSE t \in Types(ty) : t \notin {"error", ""}],
          [ns |-> "jabber:client", id |-> "S_empty", to |-> "J_zero", from |-> "J_zero", lang |-> "S_empty", type |-> "error"]}
ReuseCoreValues == UNION {{[ty |-> t, a |-> x, b |-> y] : x, y \in ReuseCoreVals(t)} : t \in ReuseCoreTypes}
IsReuse(ty) == ty \in {"reuse", "reuse.core"}

(* ------------------------------------------------------------------ dispatch *)
KnownTypes          == C13Types \cup C19Types \cup {"shape", "reuse", "reuse.core"}
Values(ty)          == IF ty \in C13Types THEN C13Values(ty) ELSE IF ty = "shape" THEN ShapeValues
                       ELSE IF ty = "reuse" THEN ReuseValues ELSE IF ty = "reuse.core" THEN ReuseCoreValues ELSE C19Values(ty)
AbsV(ty, v)         == IF ty \in C13Types THEN C13AbsV(ty, v) ELSE v
AbsD(ty, exp, val)  == IF ty \in C13Types THEN C13AbsD(ty, exp, val) ELSE val
Expect(ty, exp, av) == IF ty \in C13Types THEN C13Expect(ty, exp, av)
                       ELSE IF ty = "shape" THEN Outcomes ELSE IF IsReuse(ty) THEN {} ELSE C19Expect(ty, exp, av)
InValues(ty, av)    == IF ty \in C13Types THEN av \in C13Values(ty)
                       ELSE IF ty = "shape" THEN av.ty \in DecodableTypes /\ av.shape \in Shapes /\ av.k \in ShapeKs
                       ELSE IF ty = "reuse" THEN av.ty \in DecodableTypes
                       ELSE IF ty = "reuse.core" THEN av.ty \in ReuseCoreTypes
                       ELSE (InProduct(Dom(ty), av) /\ Admit(ty, av)) \/ av \in LongValues(ty)
(* which encoders / decoded views an observation of the type must contain *)
ReuseModes == {"bytes", "tokens"}
ReuseViews == {"zero", "fresh1", "fresh2", "reused", "kept"}
Trio    == {"marshal", "tokenreader", "trbytes", "writexml"}
TrioDec == {"marshal/unmarshal", "tokenreader/decode", "trbytes/unmarshal", "writexml/unmarshal"}
ReqEnc(ty, av) ==
  CASE ty \in C13Types -> C13ReqEnc(ty)
    [] ty \in {"shape", "reuse", "reuse.core"} -> {}
    [] ty = "muc.item" -> {"marshal", "marshalptr"}                        \* struct tags only
    [] ty \in {"carbons", "forward.wrap"} -> {"wrap", "wrapbytes"}
    [] ty = "forward" -> Trio \cup {"wrap", "wrapbytes"}
    [] OTHER -> Trio
ReqDec(ty, av) ==
  CASE ty \in C13Types -> C13ReqDec(ty)
    [] ty = "shape" -> {"tokens/decode", "bytes/unmarshal"}
    [] IsReuse(ty) -> {m \o "/" \o w : m \in ReuseModes, w \in ReuseViews}
    [] ty = "muc.item" -> {"marshal/unmarshal", "marshalptr/unmarshal"}
    [] ty \in {"carbons", "forward.wrap"} -> {"wrap/unwrap", "wrapbytes/unwrap"}
    [] ty = "forward" -> TrioDec \cup {"wrap/unwrap", "wrapbytes/unwrap"}
    [] ty = "commands.response" -> {}                                      \* encode only
    [] ty = "receipts.requested" -> IF av.req THEN TrioDec ELSE {}          \* false writes no element
    [] OTHER -> TrioDec

(* ------------------------------------------------------------------ the laws on one observation *)
Encs(o) == {o.enc[i] : i \in 1..Len(o.enc)}
Decs(o) == {o.dec[i] : i \in 1..Len(o.dec)}

InDomain(o)   == IF o.ty \in KnownTypes THEN InValues(o.ty, AbsV(o.ty, o.v)) ELSE FALSE
AV(o)         == AbsV(o.ty, o.v)
(* A value that holds a time the four digit year of XEP-0082 cannot carry (Stanza.tla Representable): the *)
(* wire format has no text for it, so the round trip cannot be demanded.  An encoder may refuse the value  *)
(* (an error), a decoder may refuse what the encoder wrote; what is not refused obeys every law - it is     *)
(* well-formed, all views agree and name the SAME instant.  A panic is a failure for every value.          *)
LenientObs(o) == o.ty \in C19Types /\ \E f \in TimeFields(o.ty) : ~Representable(AV(o)[f])
(* the encodings that are the tokens of another encoder written out: absent when that encoder refused the value *)
DerivedEnc == {"trbytes", "wrapbytes"}
Complete(o)   == /\ (ReqEnc(o.ty, AV(o)) \ (IF LenientObs(o) THEN DerivedEnc ELSE {})) \subseteq {e.p : e \in Encs(o)}
                 /\ LenientObs(o) \/ ReqDec(o.ty, AV(o)) \subseteq {d.p : d \in Decs(o)}
(* every encoder produced something (no error, no panic) that encoding/xml's strict   *)
(* parser reads to the end; every decoder accepted the library's own output.          *)
(* e.f / d.f: "" | "error" (the call returned an error) | "panic"                     *)
(* deviation "PanicIsAnError": a panic is taken for an ordinary error return          *)
PanicFree(o)  == "PanicIsAnError" \in Dev \/ ((\A e \in Encs(o) : e.f # "panic") /\ (\A d \in Decs(o) : d.f # "panic"))
NoFailure(o)  == IF LenientObs(o)
                   THEN PanicFree(o) /\ \A e \in Encs(o) : e.err = "" => e.strict
                   ELSE /\ \A e \in Encs(o) : e.err = "" /\ e.strict
                        /\ \A d \in Decs(o) : d.err = ""
View(o, d)    == AbsD(o.ty, d.exp, d.val)
PathsAgree(o) == \A d1, d2 \in Decs(o) :
                   (d1.err = "" /\ d2.err = "" /\ d1.exp = d2.exp) => View(o, d1) = View(o, d2)
RoundTrip(o)  == IsReuse(o.ty) \/ \A d \in Decs(o) : d.err = "" => View(o, d) \in Expect(o.ty, d.exp, AV(o))
(* Decoding into a used receiver.  Every view is [outcome |-> "value", leaves |-> l] or [outcome |->  *)
(* "error"]; l maps every leaf path of the projection to a SEQUENCE (a scalar is a sequence of one).  *)
(* No decoder may panic (NoFailure).  The property does not say whether a decoder resets its         *)
(* receiver: encoding/xml leaves what a document does not mention and appends to lists, so for every *)
(* leaf the used receiver may keep what it held if the document b says nothing about it (the fresh   *)
(* decode of b leaves the leaf as in an untouched receiver), and otherwise holds everything the      *)
(* fresh decode of b gives and nothing that comes from neither document.                             *)
DecAt(o, p) == CHOOSE d \in Decs(o) : d.p = p
IsValue(d) == d.err = "" /\ d.val.outcome = "value"
LeafOK(z, f1, f2, r) == \/ f2 = z /\ r = f1
                        \/ SeqSet(f2) \subseteq SeqSet(r) /\ SeqSet(r) \subseteq SeqSet(f1) \cup SeqSet(f2)
ReuseOK(o) ==
  IsReuse(o.ty) =>
    \A m \in ReuseModes :
      ((\A w \in ReuseViews : \E d \in Decs(o) : d.p = m \o "/" \o w) /\ (\A w \in ReuseViews \ {"kept"} : IsValue(DecAt(o, m \o "/" \o w))))
      => LET L(w) == DecAt(o, m \o "/" \o w).val.leaves
         IN /\ \A w \in ReuseViews \ {"kept"} : DOMAIN L(w) = DOMAIN L("reused")
            /\ \A f \in DOMAIN L("reused") : LeafOK(L("zero")[f], L("fresh1")[f], L("fresh2")[f], L("reused")[f])
(* ALIASING.  View "kept": the first document is decoded into the receiver, the receiver is COPIED by assignment,  *)
(* then the second document is decoded into the receiver and both the receiver and the copy are encoded; "kept"   *)
(* is the copy as it is after all that.  A decoded value is a value: the copy still is what a fresh decode of the *)
(* first document gives - whatever the second document was, whether or not it could be decoded.                    *)
(* What an assignment shares BY THE LANGUAGE is exempt: a leaf that the type's public definition reaches through a *)
(* pointer or a map (stanza.Error.Text is a map, paging.Set.Count / First.Index are pointers, upload.Slot holds     *)
(* pointers and a header map) is the SAME object in the copy and in the receiver, and decoding into the receiver  *)
(* is a mutation of the receiver.  Everything else - fields held by value and slices, which a decoder may extend   *)
(* but whose elements the copy owns - must be untouched.  (refs: the driver's reflection found a pointer or a map  *)
(* in the type - a declared exemption for a type without any would hide defects.)                                  *)
SharedLeaves(ty) == CASE ty = "stanzaerror" -> {"texts"}
                      [] ty = "paging.set" -> {"index", "count"}
                      [] ty = "history.result" -> {"set.index", "set.count"}
                      [] ty = "upload.slot" -> {"put", "get", "headers"}
                      [] OTHER -> {}
KeptOK(o) ==
  IsReuse(o.ty) =>
    \A m \in ReuseModes :
      ((\E d \in Decs(o) : d.p = m \o "/fresh1") /\ (\E d \in Decs(o) : d.p = m \o "/kept") /\ IsValue(DecAt(o, m \o "/fresh1")))
      => LET k == DecAt(o, m \o "/kept")  f1 == DecAt(o, m \o "/fresh1")  sh == SharedLeaves(o.v.ty) IN
         /\ IsValue(k) /\ DOMAIN k.val.leaves = DOMAIN f1.val.leaves
         /\ \A f \in DOMAIN f1.val.leaves : f \in sh \/ k.val.leaves[f] = f1.val.leaves[f]
         /\ sh # {} => k.val.refs
(* WellFormed is decided on the token lists by the automaton; rejected = ids of the   *)
(* token lists the automaton did not accept                                           *)
WellFormed(o, rejected) == \A e \in Encs(o) : (LenientObs(o) /\ e.err # "") \/ e.tl \notin rejected

Failed(o, rejected) ==
  IF ~InDomain(o) THEN {"InDomain"}
  ELSE (IF Complete(o) THEN {} ELSE {"Complete"})
       \cup (IF NoFailure(o) THEN {} ELSE {"NoFailure"})
       \cup (IF WellFormed(o, rejected) THEN {} ELSE {"WellFormed"})
       \cup (IF PathsAgree(o) THEN {} ELSE {"PathsAgree"})
       \cup (IF RoundTrip(o) THEN {} ELSE {"RoundTrip"})
       \cup (IF ReuseOK(o) THEN {} ELSE {"Reuse"})
       \cup (IF KeptOK(o) THEN {} ELSE {"Kept"})
=============================================================================
