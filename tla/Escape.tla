------------------------------- MODULE Escape -------------------------------
(* C16 - JID escaping (XEP-0106) is a lossless, chunk-independent transform.          *)
(*                                                                                    *)
(* Part 1: the two reference functions Esc / Unesc on byte strings over an alphabet   *)
(*         that is closed under the case analysis of the real functions.              *)
(* Part 2: the streaming protocol of golang.org/x/text/transform as a state machine:  *)
(*         the caller (environment) issues  Transform(dst[:cap], src[:k], atEOF)  and *)
(*         Span(src[:k], atEOF)  calls on the unconsumed input, the transformer       *)
(*         answers (nDst, nSrc, err).  The answer is constrained only by what the     *)
(*         property and the transform.Transformer contract say; where they are silent *)
(*         (a backslash followed by one byte that cannot start a code, at the end of  *)
(*         a non-final chunk; ErrShortDst after progress) the machine is              *)
(*         non-deterministic.                                                         *)
EXTENDS Integers, Sequences, FiniteSets, TLC, SequencesExt

(* ------------------------------------------------------------------ alphabet *)
(* A symbol is a byte.  ByteOf gives the concrete byte used by the Go driver.   *)
Sp == 1   Quot == 2  Amp == 3  Apos == 4  Slash == 5
Colon == 6  Lt == 7  Gt == 8  At == 9  Bs == 10
D0 == 11  D2 == 12  D3 == 13  D4 == 14  D5 == 15  D6 == 16  D7 == 17
La == 18  UA == 19  Lc == 20  UC == 21  Le == 22  UE == 23  Lf == 24  UF == 25
D1 == 26  Lb == 27  UD == 28          \* hex digits that occur in no code (digit, lower, upper)
Pg == 29                               \* 'g': an ASCII byte that is no hex digit
Hi1 == 30  Hi2 == 31                   \* the two bytes of U+00E9 (any order: arbitrary byte strings)
Other == 99                            \* a byte outside the alphabet (only ever logged for OUTPUT bytes)

ByteOf == <<32, 34, 38, 39, 47, 58, 60, 62, 64, 92,
            48, 50, 51, 52, 53, 54, 55,
            97, 65, 99, 67, 101, 69, 102, 70,
            49, 98, 68,
            103, 195, 169>>

Alphabet   == 1..31
Escapable  == 1..10                    \* the ten characters of XEP-0106 (the backslash included)
Nine       == 1..9                     \* ... those that may never occur in escaped output
Hex        == 11..28
FirstDigit == {D2, D3, D4, D5}         \* a code can only start with one of these

(* small alphabet for the longer strings: plain, two escapables, backslash, two code digits,  *)
(* one hex digit outside the codes                                                           *)
SubAlphabet == {Pg, Sp, At, Bs, D2, D0, D1}

(* The ten codes, lower case.  CodeOf[c] = <<h1, h2>>. *)
CodeOf == [c \in Escapable |->
  CASE c = Sp    -> <<D2, D0>>  [] c = Quot -> <<D2, D2>>  [] c = Amp -> <<D2, D6>>
    [] c = Apos  -> <<D2, D7>>  [] c = Slash -> <<D2, Lf>> [] c = Colon -> <<D3, La>>
    [] c = Lt    -> <<D3, Lc>>  [] c = Gt   -> <<D3, Le>>  [] c = At  -> <<D4, D0>>
    [] c = Bs    -> <<D5, Lc>>]

Lower(h) == CASE h = UA -> La [] h = UC -> Lc [] h = UE -> Le [] h = UF -> Lf [] OTHER -> h

(* Dec(h1,h2): the character whose code is \h1h2 in either hex case, 0 if there is none. *)
Dec(h1, h2) ==
  LET m == {c \in Escapable : CodeOf[c] = <<Lower(h1), Lower(h2)>>}
  IN IF m = {} THEN 0 ELSE CHOOSE c \in m : TRUE

HexVal(h) == CASE h = D0 -> 0 [] h = D1 -> 1 [] h = D2 -> 2 [] h = D3 -> 3 [] h = D4 -> 4 [] h = D5 -> 5
               [] h = D6 -> 6 [] h = D7 -> 7 [] h \in {La, UA} -> 10 [] h \in {Lb} -> 11
               [] h \in {Lc, UC} -> 12 [] h = UD -> 13 [] h \in {Le, UE} -> 14 [] h \in {Lf, UF} -> 15

(* the tables above are consistent with the bytes: the code of c is the hex value of its byte *)
TablesConsistent ==
  /\ \A c \in Escapable : HexVal(CodeOf[c][1]) * 16 + HexVal(CodeOf[c][2]) = ByteOf[c]
  /\ \A c \in Escapable : CodeOf[c][1] \in FirstDigit /\ CodeOf[c][2] \in Hex
  /\ Cardinality({ByteOf[i] : i \in Alphabet}) = 31

(* ------------------------------------------------------- reference functions *)
EscOf(c) == IF c \in Escapable THEN <<Bs>> \o CodeOf[c] ELSE <<c>>
Esc(s) == FlattenSeq([i \in 1..Len(s) |-> EscOf(s[i])])

IsCodeAt(s, i) == i + 2 <= Len(s) /\ s[i] = Bs /\ s[i+1] \in Hex /\ s[i+2] \in Hex /\ Dec(s[i+1], s[i+2]) # 0

RECURSIVE UnescFrom(_, _)
UnescFrom(s, i) ==
  IF i > Len(s) THEN <<>>
  ELSE IF IsCodeAt(s, i) THEN <<Dec(s[i+1], s[i+2])>> \o UnescFrom(s, i + 3)
  ELSE <<s[i]>> \o UnescFrom(s, i + 1)
Unesc(s) == UnescFrom(s, 1)

Ref(d, s) == IF d = "esc" THEN Esc(s) ELSE Unesc(s)

(* ----------------------------------------------- laws of the reference functions *)
(* (evaluated by TLC over explicit string sets in MCEscape / EmitEscape)            *)
StrsOf(A, n) == UNION {[1..k -> A] : k \in 0..n}

NoCode(s) == \A i \in 1..Len(s) : ~IsCodeAt(s, i)

C16_RoundTripOn(S)    == \A s \in S : Unesc(Esc(s)) = s
C16_NoDisallowedOn(S) == \A s \in S : LET e == Esc(s) IN
                            \A i \in 1..Len(e) : e[i] \notin Nine /\ (e[i] = Bs => IsCodeAt(e, i))
(* unescaping alters nothing but the defined sequences, and those in either hex case: *)
C16_UnescOnlyDefinedOn(S) ==
  /\ \A s \in S : NoCode(s) => Unesc(s) = s
  /\ \A s \in S : Len(s) - Len(Unesc(s)) <= 2 * Cardinality({i \in 1..Len(s) : IsCodeAt(s, i)})
  /\ \A c \in Escapable : \A h1 \in Hex, h2 \in Hex :
        (Lower(h1) = CodeOf[c][1] /\ Lower(h2) = CodeOf[c][2]) => Unesc(<<Bs, h1, h2>>) = <<c>>
  /\ Cardinality({p \in Hex \X Hex : Dec(p[1], p[2]) # 0}) = 15
  /\ \A p \in Hex \X Hex : Dec(p[1], p[2]) = 0 => Unesc(<<Bs, p[1], p[2]>>) = <<Bs, p[1], p[2]>>
(* plain filler around a kernel passes through unchanged (used by the position sweeps) *)
Rep(x, n) == [i \in 1..n |-> x]
C16_FillerLawOn(S, F, N) ==
  \A s \in S : \A f \in F : \A n \in 0..N, m \in 0..N : \A d \in {"esc", "unesc"} :
     Ref(d, Rep(f, n) \o s \o Rep(f, m)) = Rep(f, n) \o Ref(d, s) \o Rep(f, m)

(* ------------------------------------------------------------ streaming machine *)
CONSTANTS Dev,         \* named deviations from the property (always {} in design checks and validation)
          Inputs,      \* set of input byte strings explored
          Dirs,        \* subset of {"esc", "unesc"}
          Caps         \* destination capacities the caller may offer

VARIABLES dir,     \* which transformer
          input,   \* the whole input (fixed per behaviour)
          pos,     \* number of input bytes consumed so far
          out,     \* bytes written so far
          st,      \* "idle" | "done" (a call with atEOF returned nil)
          last     \* outcome of the last completed call [op, cap, k, eof, nd, ns, err]
vars == <<dir, input, pos, out, st, last>>

NoLast == [op |-> "none", cap |-> 0, k |-> 0, eof |-> FALSE, nd |-> 0, ns |-> 0, err |-> "nil"]

MaxUnitOut(d) == IF d = "esc" THEN 3 ELSE 1

(* One unit of work at (1-based) position q of string s when the transformer sees s[..e]:     *)
(*   ns   source bytes it covers,  w  what it writes,                                          *)
(*   must the transformer cannot know yet what the unit is (more source needed),               *)
(*   may  the property lets the implementation either wait or go on.                           *)
Unit(d, s, q, e, eof) ==
  IF d = "esc" THEN [ns |-> 1, w |-> EscOf(s[q]), must |-> FALSE, may |-> FALSE]
  ELSE IF s[q] # Bs THEN [ns |-> 1, w |-> <<s[q]>>, must |-> FALSE, may |-> FALSE]
  ELSE IF e - q >= 2 THEN
         (IF IsCodeAt(s, q) THEN [ns |-> 3, w |-> <<Dec(s[q+1], s[q+2])>>, must |-> FALSE, may |-> FALSE]
          ELSE [ns |-> 1, w |-> <<Bs>>, must |-> FALSE, may |-> FALSE])
  ELSE IF eof THEN [ns |-> 1, w |-> <<Bs>>, must |-> FALSE, may |-> FALSE]   \* too short to be a code
  ELSE [ns |-> 1, w |-> <<Bs>>,
        must |-> IF e - q = 0 THEN TRUE ELSE s[q+1] \in FirstDigit,   \* could still become a code
        may  |-> TRUE]     \* an implementation may wait for two bytes after any backslash

(* All answers to Transform the property allows: walk the units from q with r bytes of         *)
(* destination left.  nil only when the source is used up; ErrShortSrc only at a backslash in  *)
(* the last two bytes of a non-final chunk; ErrShortDst when the next unit does not fit or -   *)
(* the property only speaks about results - after some progress (the caller just calls again). *)
(* ErrShortDst without progress although the unit fits would be a livelock and is excluded.    *)
(* Nothing is written or consumed for a unit that is not completed.                            *)
RECURSIVE Walk(_, _, _, _, _, _, _, _)
Walk(d, s, q0, q, e, eof, r, w) ==
  IF q > e THEN {[q |-> q, w |-> w, err |-> "nil"]}
  ELSE LET u == Unit(d, s, q, e, eof) IN
    IF u.must THEN {[q |-> q, w |-> w, err |-> "src"]}
    ELSE (IF u.may THEN {[q |-> q, w |-> w, err |-> "src"]} ELSE {})
         \cup (IF q > q0 THEN {[q |-> q, w |-> w, err |-> "dst"]} ELSE {})
         \cup (IF Len(u.w) > r
               THEN (IF "PartialWrite" \in Dev   \* what the pinned code does: part of the unit written, source consumed
                     THEN {[q |-> q + u.ns, w |-> w \o SubSeq(u.w, 1, r), err |-> "dst"]}
                     ELSE {[q |-> q, w |-> w, err |-> "dst"]})
               ELSE Walk(d, s, q0, q + u.ns, e, eof, r - Len(u.w), w \o u.w))

Answers(d, s, p, c) == Walk(d, s, p + 1, p + 1, p + c.k, c.eof, c.cap, <<>>)

(* All answers to Span: any prefix made of units that leave the bytes unchanged (Span need     *)
(* not be maximal); nil only for the whole source; ErrShortSrc only where Transform may wait.  *)
RECURSIVE SpanWalk(_, _, _, _, _)
SpanWalk(d, s, q, e, eof) ==
  IF q > e THEN {[q |-> q, err |-> "nil"]}
  ELSE LET u == Unit(d, s, q, e, eof) IN
    {[q |-> q, err |-> "eos"]}
    \cup (IF u.must \/ u.may THEN {[q |-> q, err |-> "src"]} ELSE {})
    \cup (IF ~u.must /\ u.ns = 1 /\ u.w = <<s[q]>> THEN SpanWalk(d, s, q + 1, e, eof) ELSE {})

SpanAnswers(d, s, p, c) == SpanWalk(d, s, p + 1, p + c.k, c.eof)

Init ==
  /\ dir \in Dirs /\ input \in Inputs
  /\ pos = 0 /\ out = <<>> /\ st = "idle" /\ last = NoLast

(* the caller: src is always the unconsumed input from pos on; atEOF only for its true end *)
CallOK(c) == /\ c.cap >= 0 /\ c.k >= 0 /\ pos + c.k <= Len(input)
             /\ (c.eof => pos + c.k = Len(input))

Finished(a, c) == a.err = "nil" /\ c.eof

(* One Transform call and its answer (the transformers are sequential and keep no state, *)
(* so call and return are one step).                                                      *)
Xform(c, a) ==
  /\ CallOK(c) /\ a \in Answers(dir, input, pos, c)
  /\ pos' = a.q - 1 /\ out' = out \o a.w
  /\ last' = [op |-> "xform", cap |-> c.cap, k |-> c.k, eof |-> c.eof,
              nd |-> Len(a.w), ns |-> a.q - 1 - pos, err |-> a.err]
  /\ st' = IF Finished(a, c) THEN "done" ELSE "idle"
  /\ UNCHANGED <<dir, input>>

(* One Span call; the caller copies src[:n] to its output itself. *)
SpanStep(c, a) ==
  /\ CallOK(c) /\ a \in SpanAnswers(dir, input, pos, c)
  /\ pos' = a.q - 1 /\ out' = out \o SubSeq(input, pos + 1, a.q - 1)
  /\ last' = [op |-> "span", cap |-> 0, k |-> c.k, eof |-> c.eof,
              nd |-> 0, ns |-> a.q - 1 - pos, err |-> a.err]
  /\ st' = IF Finished(a, c) THEN "done" ELSE "idle"
  /\ UNCHANGED <<dir, input>>

Next ==
  \E k \in 0..(Len(input) - pos) : \E eof \in BOOLEAN :
     \/ \E cap \in Caps : LET c == [cap |-> cap, k |-> k, eof |-> eof] IN
           \E a \in Answers(dir, input, pos, c) : Xform(c, a)
     \/ LET c == [cap |-> 0, k |-> k, eof |-> eof] IN
           \E a \in SpanAnswers(dir, input, pos, c) : SpanStep(c, a)

Spec == Init /\ [][Next]_vars

(* ------------------------------------------------------------------ properties *)
Rest == SubSeq(input, pos + 1, Len(input))

TypeOK ==
  /\ dir \in {"esc", "unesc"} /\ pos \in 0..Len(input)
  /\ st \in {"idle", "done"}

(* nothing lost, duplicated or altered, whatever the chunking and the capacities were *)
C16_Lossless == out \o Ref(dir, Rest) = Ref(dir, input)

(* the final output does not depend on the call sequence *)
C16_ChunkIndependent == st = "done" => (pos = Len(input) /\ out = Ref(dir, input))

C16_RoundTrip == (st = "done" /\ dir = "esc") => Unesc(out) = input

C16_NoDisallowedInOutput ==
  dir = "esc" => \A i \in 1..Len(out) : out[i] \notin Nine /\ (out[i] = Bs => IsCodeAt(out, i))

C16_UnescOnlyDefined ==
  (st = "done" /\ dir = "unesc") =>
     /\ NoCode(input) => out = input
     /\ Len(input) - Len(out) <= 2 * Cardinality({i \in 1..Len(input) : IsCodeAt(input, i)})

(* the transform.Transformer / SpanningTransformer contract on the last answer *)
C16_ErrContract ==
  /\ last.err = "nil" => last.ns = last.k
  /\ last.err = "src" => ~last.eof
  /\ last.nd <= last.cap /\ last.ns <= last.k
  /\ last.err = "eos" => last.op = "span"
  /\ last.err = "dst" => last.op = "xform"

(* a caller that offers room for one unit and a chunk that is long enough always gets progress *)
C16_Progress ==
  (last.op = "xform" /\ last.cap >= MaxUnitOut(dir) /\ (last.k >= 3 \/ (last.eof /\ last.k >= 1)))
     => last.ns > 0

(* every interface is some caller of this machine; a caller that keeps offering room and the  *)
(* rest of the input can always finish (no dead end):                                         *)
C16_CanFinish ==
    \E a \in Answers(dir, input, pos, [cap |-> 3 * (Len(input) - pos), k |-> Len(input) - pos, eof |-> TRUE]) :
       a.err = "nil"

(* String, Bytes, Span+Transform, transform.Reader and transform.Writer are particular callers  *)
(* of this machine (particular choices of cap, k, eof and of when to call Span): they all end *)
(* with the same output, and none of them can get stuck.                                      *)
C16_InterfacesAgree == C16_ChunkIndependent /\ C16_CanFinish

Inv == /\ TypeOK /\ C16_Lossless /\ C16_ChunkIndependent /\ C16_RoundTrip
       /\ C16_NoDisallowedInOutput /\ C16_UnescOnlyDefined /\ C16_ErrContract
       /\ C16_Progress /\ C16_CanFinish
=============================================================================
