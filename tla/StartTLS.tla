------------------------------ MODULE StartTLS ------------------------------
(***************************************************************************)
(* C02: an initiating session configured with STARTTLS (and otherwise only *)
(* features that need a secured stream) never becomes ready and never      *)
(* transmits anything but its stream header and the STARTTLS request until *)
(* a TLS layer is in place, whatever the peer advertises, omits or answers *)
(* (starttls.go, the forced attempt in features.go, conn.go).  Data        *)
(* received in clear before the layer switch is never interpreted as part  *)
(* of the protected stream; with no TLS configuration the handshake names  *)
(* the session's own domain, also when one feature value is reused.        *)
(* The peer is adversarial; one action per protocol step of the client.    *)
(*                                                                         *)
(* Addresses.  A session is made for an own address (origin) and a         *)
(* location (the name of the entity it connects to, which the peer echoes  *)
(* in the `from` of its stream headers): NewClientSession derives the      *)
(* location from the own address, NewSession / DialSession take both, and  *)
(* an initiating server-to-server session has a domain as its own address. *)
(* The two names are independent; the server name of the default TLS       *)
(* configuration is the domain of the OWN address (property text; doc      *)
(* comment of xmpp.StartTLS: "the domainpart of the sessions local         *)
(* address") in its canonical form, whatever the location, whatever the    *)
(* spelling of the address, whatever the peer's headers say, and whatever  *)
(* sessions were negotiated with the same feature value before.            *)
(***************************************************************************)
EXTENDS Integers, Sequences, FiniteSets, TLC

CONSTANTS Dev

FeatVariants == {"tls_required", "tls_optional", "tls_absent_others", "empty", "tls_with_others", "junk"}
Answers == {"proceed", "failure", "foreign", "unknown", "chardata", "whitespace", "eof"}
Injects == {"none", "fakestream", "garbage"}     \* clear-text bytes pipelined right behind the answer
HsOutcomes == {"ok", "fail"}                      \* the TLS handshake (certificate accepted or not)

VARIABLES
  phase,      \* control point of the client
  layer,      \* "clear" | "tls"
  bits,
  clearOut,   \* what the client wrote in clear, in order
  pendClear,  \* clear-text items the peer has sent that the client has not consumed
  pendTLS,    \* items the peer has sent inside TLS
  used,       \* history: <<item, layer it was sent in>> of everything the client interpreted
  sni,        \* server name of the ClientHello / "none"
  result,
  script      \* the peer's choices: [feat, answer, inject, hs]

vars == <<phase, layer, bits, clearOut, pendClear, pendTLS, used, sni, result, script>>

(* the peer's behaviour and the TLS configuration given to xmpp.StartTLS *)
PeerScripts == [feat : FeatVariants, answer : Answers, inject : Injects, hs : HsOutcomes, cfg : {"default", "explicit"}]

(* The address dimension.  Names are symbols: d1..d3 own domains, l1..l3 names of     *)
(* locations that are nobody's own domain.                                            *)
Kinds == {"client", "c2s", "s2s"}   \* NewClientSession(origin) | NewSession(location, origin, 0) | NewSession(location, origin, S2S)
DomOf == <<"d1", "d2", "d3">>
LocOf == <<"l1", "l2", "l3">>
OwnDoms == {DomOf[i] : i \in 1..3}
LocNames == {LocOf[i] : i \in 1..3}
Names == OwnDoms \cup LocNames \cup {"explicit", "other"}
(*  own    domain of the session's own address (kind s2s: the address IS that domain)           *)
(*  loc    the location                                                                          *)
(*  spell  how the domain of the own address is spelled where the address is given: "upper" is  *)
(*         the same address (domain names are case-insensitive, addresses are canonicalised)     *)
(*  hto    whether the peer's stream headers carry a `to` (the own address echoed)               *)
AddrWF(a) == /\ (a.kind = "client" => a.loc = a.own)        \* location derived from the own address
             /\ (a.kind = "s2s" => a.loc \in LocNames)      \* a server does not connect to itself
             /\ (a.kind = "c2s" => a.loc = a.own \/ a.loc \in LocNames)
Addrs == {a \in [kind : Kinds, own : OwnDoms, loc : OwnDoms \cup LocNames, spell : {"lower", "upper"}, hto : {"absent", "echo"}] : AddrWF(a)}
(* the name the property asks for: the domain of the session's OWN address *)
OwnName(a) == a.own

(* the k-th session negotiated with one feature value: its own domain is d_k, its location that or l_k *)
SessAddrs(k) == {a \in Addrs : a.own = DomOf[k] /\ a.loc \in {DomOf[k], LocOf[k]}}
Quiet(a) == a.spell = "lower" /\ a.hto = "absent"
Plain(k) == [kind |-> "c2s", own |-> DomOf[k], loc |-> DomOf[k], spell |-> "lower", hto |-> "absent"]

(* A job: 1..3 successive sessions (their addresses: run) negotiated with ONE feature value   *)
(* against peers that follow the same script, each under every tee setting of tees.            *)
(*  - every peer script, three sessions of the plain kind with three own domains, four tees   *)
(*  - the scripts that reach a handshake with the default configuration x every run of three  *)
(*    sessions of every kind with the location equal to / different from the own domain, and  *)
(*    every single session / every second session with every spelling / header form          *)
AddrPeerScripts == {p \in PeerScripts : p.answer = "proceed" /\ p.inject = "none" /\ p.cfg = "default" /\ p.hs = "fail"
                                        /\ p.feat \in {"tls_required", "tls_absent_others"}}
QuietAddrs(k) == {a \in SessAddrs(k) : Quiet(a)}
AddrRuns == {<<a, b, c>> : a \in QuietAddrs(1), b \in QuietAddrs(2), c \in QuietAddrs(3)}
            \cup {<<a>> : a \in SessAddrs(1)} \cup {<<a, b>> : a \in QuietAddrs(1), b \in SessAddrs(2)}
Jobs ==
  {[peer |-> p, run |-> (IF p.cfg = "explicit" THEN <<Plain(1)>> ELSE <<Plain(1), Plain(2), Plain(3)>>), tees |-> <<0, 1, 2, 3>>] : p \in PeerScripts}
  \cup {[peer |-> p, run |-> r, tees |-> <<0>>] : p \in AddrPeerScripts, r \in AddrRuns}

(* one session of a job: the peer script, the session's address, the addresses of the sessions before it *)
Full(p, a, h) == [feat |-> p.feat, answer |-> p.answer, inject |-> p.inject, hs |-> p.hs, cfg |-> p.cfg, addr |-> a, hist |-> h]
Scripts == UNION {{Full(j.peer, j.run[k], SubSeq(j.run, 1, k - 1)) : k \in 1..Len(j.run)} : j \in Jobs}

Init ==
  /\ phase = "start" /\ layer = "clear" /\ bits = {} /\ clearOut = <<>>
  /\ pendClear = <<>> /\ pendTLS = <<>> /\ used = <<>> /\ sni = "none" /\ result = "none"
  /\ script \in Scripts

Fail == result' = "err" /\ phase' = "done"

(* client writes in clear *)
ClearWrite(what) ==
  /\ layer = "clear" /\ result = "none"
  /\ \/ what = "hdr" /\ phase = "start" /\ phase' = "hdrwait"
     \/ what = "starttls" /\ phase = "select" /\ phase' = "answer"
     \/ "ClearLeak" \in Dev /\ what = "other" /\ phase = "select" /\ phase' = "select"
  /\ clearOut' = Append(clearOut, what)
  /\ UNCHANGED <<layer, bits, pendClear, pendTLS, used, sni, result, script>>

(* peer speaks in clear: its header and first features list, then its answer *)
PeerHeaderAndFeatures ==
  /\ phase = "hdrwait" /\ pendClear = <<>>
  /\ pendClear' = <<"hdr", script.feat>>
  /\ UNCHANGED <<phase, layer, bits, clearOut, pendTLS, used, sni, result, script>>

ReadHeaderClear ==
  /\ phase = "hdrwait" /\ pendClear # <<>> /\ Head(pendClear) = "hdr"
  /\ pendClear' = Tail(pendClear) /\ used' = Append(used, <<"hdr", "clear">>)
  /\ phase' = "features"
  /\ UNCHANGED <<layer, bits, clearOut, pendTLS, sni, result, script>>

(* whatever the list says, the only thing the client may do in clear is STARTTLS: the list   *)
(* cannot talk it out of it (forced attempt) and nothing else is eligible without Secure.     *)
ReadFeaturesClear ==
  /\ phase = "features" /\ pendClear # <<>>
  /\ LET f == Head(pendClear) IN
     /\ pendClear' = Tail(pendClear) /\ used' = Append(used, <<f, "clear">>)
     /\ IF f = "junk" THEN Fail
        ELSE IF f \in {"tls_absent_others", "empty"} /\ "SkipForcedTLS" \in Dev
             THEN /\ phase' = "done"
                  /\ result' = IF f = "empty" THEN "ok" ELSE "err"
             ELSE phase' = "select" /\ UNCHANGED result
  /\ UNCHANGED <<layer, bits, clearOut, pendTLS, sni, script>>

PeerAnswer ==
  /\ phase = "answer" /\ pendClear = <<>> /\ "answered" \notin {used[i][1] : i \in 1..Len(used)}
  /\ pendClear' = <<script.answer>> \o (IF script.inject = "none" THEN <<>> ELSE <<script.inject>>)
  /\ UNCHANGED <<phase, layer, bits, clearOut, pendTLS, used, sni, result, script>>

ReadAnswer ==
  /\ phase = "answer" /\ pendClear # <<>>
  /\ LET a == Head(pendClear) IN
     /\ pendClear' = Tail(pendClear) /\ used' = Append(used, <<"answered", "clear">>)
     /\ IF a = "proceed" THEN phase' = "handshake" /\ UNCHANGED result ELSE Fail
  /\ UNCHANGED <<layer, bits, clearOut, pendTLS, sni, script>>

(* the TLS handshake: on success the layer changes and whatever was received in clear and    *)
(* not yet consumed is gone for good (it may also make the handshake fail)                    *)
Handshake(name) ==
  /\ phase = "handshake"
  /\ (script.cfg = "default" =>                                        \* the domain of the session's own address
        \/ name = OwnName(script.addr)
        \/ "StaleSNI" \in Dev /\ \E i \in 1..Len(script.hist) : name = OwnName(script.hist[i])   \* of an earlier session
        \/ "RemoteSNI" \in Dev /\ name = script.addr.loc)                                        \* the location
  /\ (script.cfg = "explicit" => name = "explicit")                    \* whatever the supplied config says
  /\ sni' = name
  /\ IF script.hs = "ok" /\ script.inject # "garbage"
     THEN /\ layer' = "tls" /\ bits' = bits \cup {"Secure"} /\ phase' = "tlsstart"
          /\ pendClear' = IF "KeepBufferedClear" \in Dev THEN pendClear ELSE <<>>
          /\ UNCHANGED result
     ELSE \/ Fail /\ UNCHANGED <<layer, bits, pendClear>>
          \/ /\ script.hs = "ok" /\ script.inject = "garbage"    \* garbage read ahead with the answer is dropped too
             /\ layer' = "tls" /\ bits' = bits \cup {"Secure"} /\ phase' = "tlsstart" /\ pendClear' = <<>>
             /\ UNCHANGED result
  /\ UNCHANGED <<clearOut, pendTLS, used, script>>

(* inside TLS: header exchange, a mandatory feature that needs Secure, then an empty list *)
TLSHeaderOut ==
  /\ phase = "tlsstart" /\ layer = "tls" /\ phase' = "tlshdrwait"
  /\ pendTLS' = <<"hdr", "features_post">>
  /\ UNCHANGED <<layer, bits, clearOut, pendClear, used, sni, result, script>>

Consume(src) ==   \* next item the client interprets: from the protected stream - or (Dev) from stale clear text
  IF src = "tls" THEN pendTLS # <<>> ELSE "KeepBufferedClear" \in Dev /\ pendClear # <<>>

ReadTLS ==
  /\ phase \in {"tlshdrwait", "tlsfeatures", "tlsfinal"} /\ layer = "tls"
  /\ \/ /\ Consume("tls")
        /\ LET it == Head(pendTLS) IN
           /\ pendTLS' = Tail(pendTLS) /\ used' = Append(used, <<it, "tls">>) /\ UNCHANGED pendClear
           /\ CASE phase = "tlshdrwait" -> phase' = "tlsfeatures" /\ UNCHANGED <<bits, result>>
                [] phase = "tlsfeatures" -> phase' = "negotiate" /\ UNCHANGED <<bits, result>>
                [] OTHER -> bits' = bits \cup {"Ready"} /\ result' = "ok" /\ phase' = "done"
     \/ /\ Consume("clear")                      \* deviation only: fake stream injected in clear is believed
        /\ pendClear' = <<>> /\ used' = Append(used, <<"fakestream", "clear">>) /\ UNCHANGED pendTLS
        /\ bits' = bits \cup {"Ready"} /\ result' = "ok" /\ phase' = "done"
  /\ UNCHANGED <<layer, clearOut, sni, script>>

NegotiatePost ==
  /\ phase = "negotiate" /\ layer = "tls"
  /\ phase' = "tlsfinal" /\ pendTLS' = <<"features_empty">>
  /\ UNCHANGED <<layer, bits, clearOut, pendClear, used, sni, result, script>>

Abort == /\ result = "none" /\ phase # "start" /\ Fail
         /\ UNCHANGED <<layer, bits, clearOut, pendClear, pendTLS, used, sni, script>>

Next ==
  \/ \E w \in {"hdr", "starttls", "other"} : ClearWrite(w)
  \/ PeerHeaderAndFeatures \/ ReadHeaderClear \/ ReadFeaturesClear \/ PeerAnswer \/ ReadAnswer
  \/ \E n \in Names : Handshake(n)
  \/ TLSHeaderOut \/ ReadTLS \/ NegotiatePost \/ Abort

Spec == Init /\ [][Next]_vars

-----------------------------------------------------------------------------
C02_NoReadyInClear == ("Ready" \in bits \/ result = "ok") => layer = "tls" /\ "Secure" \in bits
C02_ClearWireOnly == clearOut \in {<<>>, <<"hdr">>, <<"hdr", "starttls">>}
C02_BufferedClearDropped ==
  \A i \in 1..Len(used) : used[i][2] = "clear" => used[i][1] \in {"hdr", "answered"} \cup FeatVariants
C02_NothingClearAfterLayer == layer = "tls" => pendClear = <<>> \/ "KeepBufferedClear" \in Dev
C02_SNIOwnDomain == script.cfg = "default" => sni \in {"none", OwnName(script.addr)}
C02_ErrNotReady == result = "err" => "Ready" \notin bits
=============================================================================
