------------------------------ MODULE StartTLS ------------------------------
(***************************************************************************)
(* C02: an initiating session configured with STARTTLS (and otherwise only *)
(* features that need a secured stream) never becomes ready and never      *)
(* transmits anything but its stream header and the STARTTLS request until *)
(* a TLS layer is in place, whatever the peer advertises, omits or answers *)
(* (starttls.go, the forced attempt in features.go, conn.go).  Data        *)
(* received in clear before the layer switch is never interpreted as part  *)
(* of the protected stream; with no TLS configuration the handshake names  *)
(* the session's own domain, also when one feature value is reused.        *)
(* The peer is adversarial; one action per protocol step of the client.    *)
(***************************************************************************)
EXTENDS Integers, Sequences, FiniteSets, TLC

CONSTANTS Dev

FeatVariants == {"tls_required", "tls_optional", "tls_absent_others", "empty", "tls_with_others", "junk"}
Answers == {"proceed", "failure", "foreign", "unknown", "chardata", "whitespace", "eof"}
Injects == {"none", "fakestream", "garbage"}     \* clear-text bytes pipelined right behind the answer
HsOutcomes == {"ok", "fail"}                      \* the TLS handshake (certificate accepted or not)

VARIABLES
  phase,      \* control point of the client
  layer,      \* "clear" | "tls"
  bits,
  clearOut,   \* what the client wrote in clear, in order
  pendClear,  \* clear-text items the peer has sent that the client has not consumed
  pendTLS,    \* items the peer has sent inside TLS
  used,       \* history: <<item, layer it was sent in>> of everything the client interpreted
  sni,        \* server name of the ClientHello / "none"
  result,
  script      \* the peer's choices: [feat, answer, inject, hs]

vars == <<phase, layer, bits, clearOut, pendClear, pendTLS, used, sni, result, script>>

Scripts == [feat : FeatVariants, answer : Answers, inject : Injects, hs : HsOutcomes, cfg : {"default", "explicit"}]

Init ==
  /\ phase = "start" /\ layer = "clear" /\ bits = {} /\ clearOut = <<>>
  /\ pendClear = <<>> /\ pendTLS = <<>> /\ used = <<>> /\ sni = "none" /\ result = "none"
  /\ script \in Scripts

Fail == result' = "err" /\ phase' = "done"

(* client writes in clear *)
ClearWrite(what) ==
  /\ layer = "clear" /\ result = "none"
  /\ \/ what = "hdr" /\ phase = "start" /\ phase' = "hdrwait"
     \/ what = "starttls" /\ phase = "select" /\ phase' = "answer"
     \/ "ClearLeak" \in Dev /\ what = "other" /\ phase = "select" /\ phase' = "select"
  /\ clearOut' = Append(clearOut, what)
  /\ UNCHANGED <<layer, bits, pendClear, pendTLS, used, sni, result, script>>

(* peer speaks in clear: its header and first features list, then its answer *)
PeerHeaderAndFeatures ==
  /\ phase = "hdrwait" /\ pendClear = <<>>
  /\ pendClear' = <<"hdr", script.feat>>
  /\ UNCHANGED <<phase, layer, bits, clearOut, pendTLS, used, sni, result, script>>

ReadHeaderClear ==
  /\ phase = "hdrwait" /\ pendClear # <<>> /\ Head(pendClear) = "hdr"
  /\ pendClear' = Tail(pendClear) /\ used' = Append(used, <<"hdr", "clear">>)
  /\ phase' = "features"
  /\ UNCHANGED <<layer, bits, clearOut, pendTLS, sni, result, script>>

(* whatever the list says, the only thing the client may do in clear is STARTTLS: the list   *)
(* cannot talk it out of it (forced attempt) and nothing else is eligible without Secure.     *)
ReadFeaturesClear ==
  /\ phase = "features" /\ pendClear # <<>>
  /\ LET f == Head(pendClear) IN
     /\ pendClear' = Tail(pendClear) /\ used' = Append(used, <<f, "clear">>)
     /\ IF f = "junk" THEN Fail
        ELSE IF f \in {"tls_absent_others", "empty"} /\ "SkipForcedTLS" \in Dev
             THEN /\ phase' = "done"
                  /\ result' = IF f = "empty" THEN "ok" ELSE "err"
             ELSE phase' = "select" /\ UNCHANGED result
  /\ UNCHANGED <<layer, bits, clearOut, pendTLS, sni, script>>

PeerAnswer ==
  /\ phase = "answer" /\ pendClear = <<>> /\ "answered" \notin {used[i][1] : i \in 1..Len(used)}
  /\ pendClear' = <<script.answer>> \o (IF script.inject = "none" THEN <<>> ELSE <<script.inject>>)
  /\ UNCHANGED <<phase, layer, bits, clearOut, pendTLS, used, sni, result, script>>

ReadAnswer ==
  /\ phase = "answer" /\ pendClear # <<>>
  /\ LET a == Head(pendClear) IN
     /\ pendClear' = Tail(pendClear) /\ used' = Append(used, <<"answered", "clear">>)
     /\ IF a = "proceed" THEN phase' = "handshake" /\ UNCHANGED result ELSE Fail
  /\ UNCHANGED <<layer, bits, clearOut, pendTLS, sni, script>>

(* the TLS handshake: on success the layer changes and whatever was received in clear and    *)
(* not yet consumed is gone for good (it may also make the handshake fail)                    *)
Handshake(name) ==
  /\ phase = "handshake"
  /\ (script.cfg = "default" => name = "own" \/ "StaleSNI" \in Dev)   \* the session's own domain
  /\ (script.cfg = "explicit" => name = "explicit")                    \* whatever the supplied config says
  /\ sni' = name
  /\ IF script.hs = "ok" /\ script.inject # "garbage"
     THEN /\ layer' = "tls" /\ bits' = bits \cup {"Secure"} /\ phase' = "tlsstart"
          /\ pendClear' = IF "KeepBufferedClear" \in Dev THEN pendClear ELSE <<>>
          /\ UNCHANGED result
     ELSE \/ Fail /\ UNCHANGED <<layer, bits, pendClear>>
          \/ /\ script.hs = "ok" /\ script.inject = "garbage"    \* garbage read ahead with the answer is dropped too
             /\ layer' = "tls" /\ bits' = bits \cup {"Secure"} /\ phase' = "tlsstart" /\ pendClear' = <<>>
             /\ UNCHANGED result
  /\ UNCHANGED <<clearOut, pendTLS, used, script>>

(* inside TLS: header exchange, a mandatory feature that needs Secure, then an empty list *)
TLSHeaderOut ==
  /\ phase = "tlsstart" /\ layer = "tls" /\ phase' = "tlshdrwait"
  /\ pendTLS' = <<"hdr", "features_post">>
  /\ UNCHANGED <<layer, bits, clearOut, pendClear, used, sni, result, script>>

Consume(src) ==   \* next item the client interprets: from the protected stream - or (Dev) from stale clear text
  IF src = "tls" THEN pendTLS # <<>> ELSE "KeepBufferedClear" \in Dev /\ pendClear # <<>>

ReadTLS ==
  /\ phase \in {"tlshdrwait", "tlsfeatures", "tlsfinal"} /\ layer = "tls"
  /\ \/ /\ Consume("tls")
        /\ LET it == Head(pendTLS) IN
           /\ pendTLS' = Tail(pendTLS) /\ used' = Append(used, <<it, "tls">>) /\ UNCHANGED pendClear
           /\ CASE phase = "tlshdrwait" -> phase' = "tlsfeatures" /\ UNCHANGED <<bits, result>>
                [] phase = "tlsfeatures" -> phase' = "negotiate" /\ UNCHANGED <<bits, result>>
                [] OTHER -> bits' = bits \cup {"Ready"} /\ result' = "ok" /\ phase' = "done"
     \/ /\ Consume("clear")                      \* deviation only: fake stream injected in clear is believed
        /\ pendClear' = <<>> /\ used' = Append(used, <<"fakestream", "clear">>) /\ UNCHANGED pendTLS
        /\ bits' = bits \cup {"Ready"} /\ result' = "ok" /\ phase' = "done"
  /\ UNCHANGED <<layer, clearOut, sni, script>>

NegotiatePost ==
  /\ phase = "negotiate" /\ layer = "tls"
  /\ phase' = "tlsfinal" /\ pendTLS' = <<"features_empty">>
  /\ UNCHANGED <<layer, bits, clearOut, pendClear, used, sni, result, script>>

Abort == /\ result = "none" /\ phase # "start" /\ Fail
         /\ UNCHANGED <<layer, bits, clearOut, pendClear, pendTLS, used, sni, script>>

Next ==
  \/ \E w \in {"hdr", "starttls", "other"} : ClearWrite(w)
  \/ PeerHeaderAndFeatures \/ ReadHeaderClear \/ ReadFeaturesClear \/ PeerAnswer \/ ReadAnswer
  \/ \E n \in {"own", "other", "explicit"} : Handshake(n)
  \/ TLSHeaderOut \/ ReadTLS \/ NegotiatePost \/ Abort

Spec == Init /\ [][Next]_vars

-----------------------------------------------------------------------------
C02_NoReadyInClear == ("Ready" \in bits \/ result = "ok") => layer = "tls" /\ "Secure" \in bits
C02_ClearWireOnly == clearOut \in {<<>>, <<"hdr">>, <<"hdr", "starttls">>}
C02_BufferedClearDropped ==
  \A i \in 1..Len(used) : used[i][2] = "clear" => used[i][1] \in {"hdr", "answered"} \cup FeatVariants
C02_NothingClearAfterLayer == layer = "tls" => pendClear = <<>> \/ "KeepBufferedClear" \in Dev
C02_SNIOwnDomain == script.cfg = "default" => sni \in {"none", "own"}
C02_ErrNotReady == result = "err" => "Ready" \notin bits
=============================================================================
