-------------------------- MODULE MCPeerInputDev --------------------------
(* Non-vacuity of the run protocol of C09 in the lives of a session that were added     *)
(* with the session dimension: each CODE-LIKE deviation below is what a defective        *)
(* library would do; with it C09_Terminates must FAIL (checks/peerinputcommon.py          *)
(* requires TLC to report the temporal violation), without it (SpecDevNone, same bounds)  *)
(* it holds.  No ASSUMEs here: the generator facts are checked by MCPeerInput.            *)
EXTENDS PeerInput

DevInit == Init /\ n <= 1 /\ cfg = "listen"
Outs == {"nil", "error"}
CallOuts == {"value", "error"}

(* SecondServeHangs: a serve loop that cannot be entered again - the return of Serve is  *)
(* owed for the first call only (eg. it waits on a channel the first call has consumed)  *)
LibServeFirstOnly == eof /\ nserve = 1 /\ \E o \in Outs : ServeReturn(o)
(* ServeAfterCloseHangs: Serve on a session the application has closed does not notice   *)
(* the end of the input (eg. it waits for a write lock that Close has kept)              *)
LibServeUnlessClosed == eof /\ ~outclosed /\ \E o \in Outs : ServeReturn(o)
(* UnservedCallHangs: a helper waits for the serve loop to hand it a reply or to tell it  *)
(* that the session is gone, and ignores its context when no serve loop ever ran          *)
LibCallsIfServed == cancelled /\ nserve > 0 /\ \E k \in 1..(MaxItems + 1) : \E o \in CallOuts : CallReturn(k, o)

Env == WF_vars(EnvEnds) /\ WF_vars(EnvServes) /\ WF_vars(EnvCloses)
SpecDevNone              == DevInit /\ [][Next]_vars /\ WF_vars(LibServe) /\ WF_vars(LibCalls) /\ Env
SpecSecondServeHangs     == DevInit /\ [][Next]_vars /\ WF_vars(LibServeFirstOnly) /\ WF_vars(LibCalls) /\ Env
SpecServeAfterCloseHangs == DevInit /\ [][Next]_vars /\ WF_vars(LibServeUnlessClosed) /\ WF_vars(LibCalls) /\ Env
SpecUnservedCallHangs    == DevInit /\ [][Next]_vars /\ WF_vars(LibServe) /\ WF_vars(LibCallsIfServed) /\ Env
=============================================================================
