------------------------------- MODULE MCDial -------------------------------
(* Scenario universes of the "dial" family: configurations x DNS answers x what the       *)
(* endpoints do (x where the caller's context is cancelled), and host-meta documents x     *)
(* what the WebSocket endpoints do.  Used three ways: the design check of Dial.tla runs    *)
(* over them (cfg: Scenarios <- Uni...), EmitDial.tla writes them as JSON for the Go       *)
(* driver, and the traces the driver records carry their scenario in the reset line.       *)
EXTENDS Dial

R(p, w, k) == [prio |-> p, weight |-> w, kind |-> k]
A(t, recs) == [t |-> t, recs |-> recs]
Simple == {A(x, <<>>) : x \in {"nf", "nodata", "dot", "err"}}
KTls == {"tls", "tlsbad", "plain", "refuse", "nohost"}       \* endpoints an xmpps record may point to
KPlain == {"plain", "refuse", "nohost"}                     \* ... an xmpp record
Prio2 == {<<1, 1>>, <<1, 2>>, <<2, 1>>}
Recs1(K) == {<<R(1, 0, k)>> : k \in K}
Recs2(K) == {<<R(p[1], 0, k1), R(p[2], 5, k2)>> : p \in Prio2, k1 \in K, k2 \in K}
Recs3(K) == {<<R(p[1], 0, k1), R(p[2], 5, k2), R(p[3], 1, k3)>> :
               p \in {<<1, 1, 2>>, <<2, 1, 1>>, <<3, 2, 1>>, <<1, 2, 1>>, <<1, 1, 1>>}, k1 \in K, k2 \in K, k3 \in K}
AnsUpTo(K, n) ==
  Simple \cup {A("recs", r) : r \in Recs1(K) \cup (IF n >= 2 THEN Recs2(K) ELSE {}) \cup (IF n >= 3 THEN Recs3(K) ELSE {})}
SmallTls == Simple \cup {A("recs", r) : r \in {<<R(1, 0, "tls")>>, <<R(1, 0, "refuse")>>, <<R(1, 0, "tlsbad"), R(2, 0, "tls")>>, <<R(2, 0, "tls"), R(1, 5, "plain")>>}}
SmallPlain == Simple \cup {A("recs", r) : r \in {<<R(1, 0, "plain")>>, <<R(1, 0, "refuse"), R(1, 5, "plain")>>, <<R(2, 0, "plain"), R(1, 0, "nohost")>>}}

NoCancel == [at |-> "none", c |-> 0]
Cfg(entry, s2s, notls, nolookup, tlscfg, idn) ==
  [entry |-> entry, s2s |-> s2s, notls |-> notls, nolookup |-> nolookup, tlscfg |-> tlscfg, idn |-> idn]
Base == Cfg("dial", FALSE, FALSE, FALSE, "default", FALSE)
ConfigsAll == {Cfg(e, s, nt, nl, tc, FALSE) : e \in {"dial", "dialserver"}, s \in BOOLEAN, nt \in BOOLEAN, nl \in BOOLEAN, tc \in {"default", "custom"}}
ConfigsIDN == {Cfg("dial", s, FALSE, nl, "default", TRUE) : s \in BOOLEAN, nl \in BOOLEAN}

NoAns == A("nf", <<>>)
Scn(cfg, a1, a2, f1, f2, cancel) ==
  [via |-> "srv", entry |-> cfg.entry, s2s |-> cfg.s2s, notls |-> cfg.notls, nolookup |-> cfg.nolookup, tlscfg |-> cfg.tlscfg,
   idn |-> cfg.idn, dns |-> [xmpps |-> a1, xmpp |-> a2], fb |-> [xmpps |-> f1, xmpp |-> f2], cancel |-> cancel,
   insecure |-> FALSE, doc |-> "ok", links |-> <<>>]
FbMatters(sc, a) == sc.nolookup \/ a.t \in {"nf", "nodata", "err"}
(* dimensions a configuration makes irrelevant are held at one value *)
Canon(sc) ==
  /\ (sc.notls \/ sc.nolookup) => sc.dns.xmpps = NoAns
  /\ sc.nolookup => sc.dns.xmpp = NoAns
  /\ sc.fb.xmpps # "refuse" => (~sc.notls /\ FbMatters(sc, sc.dns.xmpps))
  /\ sc.fb.xmpp # "refuse" => FbMatters(sc, sc.dns.xmpp)
SrvProduct(cfgs, A1, A2) ==
  {sc \in {Scn(cfg, a1, a2, f1, f2, NoCancel) : cfg \in cfgs, a1 \in A1, a2 \in A2, f1 \in {"tls", "plain", "refuse"}, f2 \in {"plain", "refuse"}} : Canon(sc)}

(* every place the scenario's context can be cancelled at *)
IdsOf(sc) ==
  (IF sc.dns.xmpps.t = "recs" /\ ~sc.notls THEN {10 + i : i \in 1..Len(sc.dns.xmpps.recs)} ELSE {})
  \cup (IF sc.dns.xmpp.t = "recs" THEN {20 + i : i \in 1..Len(sc.dns.xmpp.recs)} ELSE {})
WithCancel(S) ==
  UNION {
    {[sc EXCEPT !.cancel = [at |-> "srv", c |-> 0]], [sc EXCEPT !.cancel = [at |-> "host", c |-> 0]]}
    \cup {[sc EXCEPT !.cancel = [at |-> "host", c |-> c]] : c \in IdsOf(sc)}
    \cup {[sc EXCEPT !.cancel = [at |-> "hello", c |-> c]] : c \in {d \in IdsOf(sc) \cup {10} : d < 20}}
    : sc \in S}

SrvTiny == SrvProduct(ConfigsAll \cup ConfigsIDN, {A("nf", <<>>), A("dot", <<>>), A("recs", <<R(1, 0, "tlsbad"), R(2, 0, "tls")>>), A("recs", <<R(2, 0, "tls"), R(1, 5, "plain")>>)},
                      {A("nf", <<>>), A("err", <<>>), A("recs", <<R(1, 0, "refuse"), R(1, 5, "plain")>>), A("recs", <<R(2, 0, "plain"), R(1, 0, "plain")>>)})
CancelTiny == WithCancel(SrvProduct({Base}, {A("recs", <<R(1, 0, "tls"), R(2, 0, "tls")>>)}, {A("recs", <<R(1, 0, "plain")>>), A("nf", <<>>)}))

-----------------------------------------------------------------------------
L(rel, scheme, kind) == [rel |-> rel, scheme |-> scheme, kind |-> kind]
LinkTypes ==
  {L("ws", "wss", k) : k \in {"ws", "nows", "tlsbad", "refuse", "nohost"}} \cup {L("ws", "ws", k) : k \in {"ws", "refuse"}}
  \cup {L("ws", "https", "refuse"), L("ws", "bad", "refuse"), L("bosh", "https", "refuse"), L("bosh", "wss", "ws"), L("other", "wss", "ws")}
LinkFew == {L("ws", "wss", "ws"), L("ws", "wss", "refuse"), L("ws", "wss", "nows"), L("ws", "ws", "ws"), L("ws", "ws", "refuse"), L("bosh", "wss", "ws")}
Ws(tlscfg, insecure, doc, links) ==
  [via |-> "ws", entry |-> "dial", s2s |-> FALSE, notls |-> FALSE, nolookup |-> FALSE, tlscfg |-> tlscfg, idn |-> FALSE,
   dns |-> [xmpps |-> NoAns, xmpp |-> NoAns], fb |-> [xmpps |-> "refuse", xmpp |-> "refuse"], cancel |-> NoCancel,
   insecure |-> insecure, doc |-> doc, links |-> links]
Docs(T, n) == {<<a>> : a \in T} \cup (IF n >= 2 THEN {<<a, b>> : a \in T, b \in T} ELSE {})
              \cup (IF n >= 3 THEN {<<a, b, c>> : a \in T, b \in T, c \in T} ELSE {})
WsProduct(D) == {Ws(tc, ins, "ok", d) : tc \in {"default", "custom"}, ins \in BOOLEAN, d \in D}
WsOther == {Ws(tc, ins, doc, <<>>) : tc \in {"default", "custom"}, ins \in BOOLEAN, doc \in {"empty", "illformed", "missing", "neterr"}}
WsTiny == WsProduct(Docs(LinkFew, 2)) \cup WsOther

(* The universes are sequences of parts (a union of large sets of records costs TLC quadratic *)
(* time); a scenario may occur in more than one part.                                         *)
PartsTiny == <<SrvTiny, CancelTiny, WsTiny>>
InitOver(parts) == \E i \in DOMAIN parts : \E sc \in parts[i] : InitWith(sc)
SpecTiny == InitOver(PartsTiny) /\ [][Next]_vars
=============================================================================
