------------------------------ MODULE JIDStore ------------------------------
(* C11, value layer: addresses are VALUES.  "String, the part accessors, Bare, Domain and   *)
(* Equal agree with one another" and "building from parts, replacing one part, and parsing  *)
(* the assembled string agree" are claims about every address the package has returned, not *)
(* only about the one returned last: an address obtained earlier keeps denoting what it did, *)
(* whatever is derived from it (or from its relatives) later.                                *)
(*                                                                                          *)
(* Two layers, as in MUC.tla:                                                               *)
(*  - observer layer: store = the sequence of addresses handed out so far (their parts);    *)
(*    every operation appends one address and changes none (C11_Immutable), and the new     *)
(*    address is the one the laws of JID.tla name (HopResult);                              *)
(*  - mechanism layer: the packed representation of jid.JID (anchor "packed                 *)
(*    representation: data bytes plus localpart and domainpart lengths"): a handle is a     *)
(*    window (buffer, offset, length, locallen, domainlen) into a byte buffer; Bare and     *)
(*    Domain share the buffer of their receiver, everything else allocates.  The named      *)
(*    deviations are the ways sharing goes wrong (append in place into spare capacity,      *)
(*    normalising in place); each must break C11_Immutable (non-vacuity).                   *)
EXTENDS JID

CONSTANTS Bases,      \* triples <<l, d, r>> of valid raw parts the programs start from
          StoreParts, \* parts used for the replacements (<<>> removes the part)
          MaxOps      \* operations per program

VARIABLES store,      \* observer layer: sequence of [l, d, r]
          hs,         \* mechanism layer: sequence of handles [b, off, n, ll, dl]
          mem,        \* buffer id -> sequence of symbols (length = capacity)
          nops
svars == <<store, hs, mem, nops>>

Ops == {"bare", "domain", "copy", "withl", "withd", "withr"}

(* ------------------------------------------------------------ observer layer *)
(* the address operation op on the address x with part p yields (at the abstract level) *)
HopResult(x, op, p) ==
  CASE op = "bare"   -> [l |-> x.l, d |-> x.d, r |-> <<>>]
    [] op = "domain" -> [l |-> <<>>, d |-> x.d, r |-> <<>>]
    [] op = "copy"   -> x
    [] op = "withl"  -> [l |-> ModL(p), d |-> x.d, r |-> x.r]
    [] op = "withd"  -> [l |-> x.l, d |-> NormD(p), r |-> x.r]
    [] op = "withr"  -> [l |-> x.l, d |-> x.d, r |-> NormR(p)]
HopAccepts(op, p) ==
  CASE op = "withl" -> AccL(p, FALSE) [] op = "withd" -> AccD(p, FALSE) [] op = "withr" -> AccR(p, FALSE)
    [] OTHER -> TRUE

(* ----------------------------------------------------------- mechanism layer *)
Window(h) == SubSeq(mem[h.b], h.off + 1, h.off + h.n)
Abs(h) == LET w == Window(h) IN
  [l |-> SubSeq(w, 1, h.ll), d |-> SubSeq(w, h.ll + 1, h.ll + h.dl), r |-> SubSeq(w, h.ll + h.dl + 1, h.n)]
Fresh == Len(mem) + 1
Pack(x) == x.l \o x.d \o x.r
NewHandle(x) == [b |-> Fresh, off |-> 0, n |-> Len(Pack(x)), ll |-> Len(x.l), dl |-> Len(x.d)]
Alloc(x) == /\ mem' = Append(mem, Pack(x))
            /\ hs' = Append(hs, NewHandle(x))
Overwrite(s, at, p) == [i \in 1..Len(s) |-> IF i > at /\ i <= at + Len(p) THEN p[i - at] ELSE s[i]]

Do(i, op, p) ==
  LET h == hs[i]  x == store[i]  y == HopResult(x, op, p) IN
  /\ nops < MaxOps /\ HopAccepts(op, p)
  /\ nops' = nops + 1
  /\ store' = Append(store, y)
  /\ CASE op = "bare" ->              \* jid.go: data: j.data[:j.domainlen+j.locallen]  (shares the buffer)
            /\ hs' = Append(hs, [h EXCEPT !.n = h.ll + h.dl]) /\ UNCHANGED mem
       [] op = "domain" ->            \* data: j.data[j.locallen : j.locallen+j.domainlen]
            /\ hs' = Append(hs, [b |-> h.b, off |-> h.off + h.ll, n |-> h.dl, ll |-> 0, dl |-> h.dl]) /\ UNCHANGED mem
       [] op = "withr" /\ "AppendInPlace" \in Dev /\ h.n = h.ll + h.dl /\ h.off + h.n + Len(y.r) <= Len(mem[h.b]) ->
            \* deviation: no resourcepart yet and the buffer has room: the new one is appended in place
            /\ mem' = [mem EXCEPT ![h.b] = Overwrite(@, h.off + h.n, y.r)]
            /\ hs' = Append(hs, [h EXCEPT !.n = h.n + Len(y.r)])
       [] op = "withl" /\ "ReplaceInPlace" \in Dev /\ Len(y.l) = h.ll ->
            \* deviation: a localpart of the same length is written over the old one
            /\ mem' = [mem EXCEPT ![h.b] = Overwrite(@, h.off, y.l)]
            /\ hs' = Append(hs, h)
       [] OTHER -> Alloc(y)

SInit == /\ \E b \in Bases :
              /\ store = <<[l |-> NormL(b[1]), d |-> NormDStrict(b[2]), r |-> NormR(b[3])]>>
              /\ mem = <<Pack(store[1])>>
              /\ hs = <<[b |-> 1, off |-> 0, n |-> Len(mem[1]), ll |-> Len(store[1].l), dl |-> Len(store[1].d)]>>
         /\ nops = 0
         /\ j = NoJID /\ lenient = FALSE /\ agree = TRUE

SNext == /\ \E i \in 1..Len(store), op \in Ops, p \in StoreParts :
              (op \in {"bare", "domain", "copy"} => p = <<>>) /\ Do(i, op, p)
         /\ UNCHANGED vars

SSpec == SInit /\ [][SNext]_<<svars, vars>>

(* ------------------------------------------------------------------ properties *)
(* the mechanism implements the observer: every handle denotes the address handed out *)
C11_HandlesDenote == \A i \in 1..Len(store) : Abs(hs[i]) = store[i]
(* an address, once returned, is never changed by a later operation *)
C11_Immutable == [][\A i \in 1..Len(hs) : Abs(hs[i])' = Abs(hs[i])]_<<svars, vars>>
(* every address handed out is canonical and the accessors agree on it *)
C11_StoreCanonical == \A i \in 1..Len(store) :
  LET x == JIDOf(store[i].l, store[i].d, store[i].r) IN
    /\ C11_PartsValidOf(x) /\ C11_IdempotentOf(x, ModParse(String(x), FALSE)) /\ C11_SplitRuleOf(x)
(* replacing one part agrees with building from the replaced parts *)
C11_StoreReplaceAgrees == \A i \in 1..Len(store) :
  LET x == store[i] IN ModNew(x.l, x.d, x.r, FALSE) = JIDOf(x.l, x.d, x.r)
SInv == C11_HandlesDenote /\ C11_StoreCanonical /\ C11_StoreReplaceAgrees
=============================================================================
