------------------------------- MODULE MCMUC -------------------------------
EXTENDS MUC
St(ty, r, n, c, k) == [ty |-> ty, room |-> r, nick |-> n, call |-> c, n |-> k,
                       lay |-> IF ty = "inv" THEN <<"u">> ELSE <<>>, pw |-> FALSE,
                       shape |-> IF ty = "er" THEN "wf" ELSE "-",
                       codes |-> CASE ty = "av" /\ n = "ot" -> <<110, 210>> [] ty \in {"av", "un"} -> <<110>> [] OTHER -> <<>>,
                       item |-> "-"]
(* a presence whose muc#user payload carries the given status codes and item variant *)
Pres(ty, n, codes, item) == [St(ty, "r1", n, "-", 0) EXCEPT !.codes = codes, !.item = item]
(* an error reply to call c of the given shape (MUC!WellFormedShapes / MalformedShapes) *)
Er(c, sh) == [St("er", "r1", "me", c, 0) EXCEPT !.shape = sh]
(* an invitation message: children in document order, k <invite/> in the muc#user payload *)
Inv(lay, k, pw) == [ty |-> "inv", room |-> "r1", nick |-> "-", call |-> "-", n |-> k, lay |-> lay, pw |-> pw, shape |-> "-",
                    codes |-> <<>>, item |-> "-"]
HasU(lay) == \E i \in 1..Len(lay) : lay[i] = "u"
Layouts == {<<"u">>, <<"b", "u">>, <<"u", "b">>, <<"c">>, <<"b", "c">>, <<"c", "u">>, <<"u", "c">>,
            <<"b", "u", "c">>, <<"c", "b", "u">>, <<"t", "b", "c">>}
(* one room: every presence kind for both nicks, error answers, a foreign room, invitations *)
Alpha1 == {St("av", "r1", "me", "-", 0), St("av", "r1", "ot", "-", 0),
           St("un", "r1", "me", "-", 0), St("un", "r1", "ot", "-", 0),
           St("av", "rx", "me", "-", 0)}
          \cup {St("er", "r1", "me", c, 0) : c \in CallSet}
AlphaInv == {Inv(l, k, pw) : l \in {l \in Layouts : HasU(l)}, k \in 0..2, pw \in BOOLEAN}
            \cup {Inv(l, 0, pw) : l \in {l \in Layouts : ~HasU(l)}, pw \in BOOLEAN}
            \cup {St("oth", "-", "-", "-", 0), St("un", "rx", "me", "-", 0)}
(* error answers delivered whole or in two pieces, with the self-presences *)
AlphaSplit == {St("av", "r1", "me", "-", 0), St("un", "r1", "me", "-", 0)} \cup {St("er", "r1", "me", c, 0) : c \in CallSet}
(* error replies of several shapes (well-formed: the muc payload echoed and the error / children  *)
(* after the error; malformed: no children at all / an undecodable attribute), whole or in pieces *)
AlphaShape == {St("av", "r1", "me", "-", 0), St("un", "r1", "me", "-", 0)}
              \cup {Er(c, sh) : c \in CallSet, sh \in {"wf", "post", "bare", "badby"}}
AlphaShapeQ == {St("av", "r1", "me", "-", 0), St("un", "r1", "me", "-", 0)}
               \cup {Er(c, sh) : c \in CallSet, sh \in {"wf", "bare"}}
(* payload content of the presences: the occupant's own and another occupant's, available and unavailable,  *)
(* with status codes (none, self, created, nick modified, new nickname, kicked, banned) and item variants   *)
AlphaPl == {St("av", "r1", "me", "-", 0), St("un", "r1", "me", "-", 0),
            Pres("av", "me", <<>>, "-"), Pres("av", "me", <<110, 201>>, "owner"), Pres("av", "ot", <<110>>, "nick"),
            Pres("un", "me", <<303, 110>>, "nick"), Pres("un", "me", <<307>>, "actor"), Pres("un", "me", <<110>>, "rolekept"),
            Pres("un", "me", <<>>, "destroy"), Pres("un", "ot", <<303>>, "nick"), Pres("un", "ot", <<301, 110>>, "outcast")}
           \cup {St("er", "r1", "me", c, 0) : c \in CallSet}
AlphaPlQ == {St("av", "r1", "me", "-", 0), St("un", "r1", "me", "-", 0),
             Pres("av", "me", <<>>, "-"), Pres("un", "me", <<303, 110>>, "nick"), Pres("un", "me", <<110>>, "rolekept"),
             Pres("un", "ot", <<303>>, "nick")}
            \cup {St("er", "r1", "me", c, 0) : c \in CallSet}
(* two channels in ONE room (nicknames me and me2): the presences of both occupant addresses, errors *)
Alpha2n == {St(ty, "r1", nn, "-", 0) : ty \in {"av", "un"}, nn \in {"me", "me2"}}
           \cup {St("er", "r1", "me", c, 0) : c \in CallSet}
(* two rooms: self-presences and errors only *)
Alpha2 == {St(ty, r, "me", "-", 0) : ty \in {"av", "un"}, r \in {"r1", "r2"}}
          \cup {St("er", "r1", "me", c, 0) : c \in CallSet}
Ids2 == <<"c1", "c2">>
Ids3 == <<"c1", "c2", "c3">>
Ids4 == <<"c1", "c2", "c3", "c4">>
=============================================================================
