------------------------------- MODULE MCMUC -------------------------------
EXTENDS MUC
St(ty, r, n, c, k) == [ty |-> ty, room |-> r, nick |-> n, call |-> c, n |-> k]
(* one room: every presence kind for both nicks, error answers, a foreign room, invitations *)
Alpha1 == {St("av", "r1", "me", "-", 0), St("av", "r1", "ot", "-", 0),
           St("un", "r1", "me", "-", 0), St("un", "r1", "ot", "-", 0),
           St("av", "rx", "me", "-", 0)}
          \cup {St("er", "r1", "me", c, 0) : c \in CallSet}
AlphaInv == {St("inv", "r1", "-", "-", k) : k \in 0..2} \cup {St("oth", "-", "-", "-", 0), St("un", "rx", "me", "-", 0)}
(* two rooms: self-presences and errors only *)
Alpha2 == {St(ty, r, "me", "-", 0) : ty \in {"av", "un"}, r \in {"r1", "r2"}}
          \cup {St("er", "r1", "me", c, 0) : c \in CallSet}
Ids2 == <<"c1", "c2">>
Ids3 == <<"c1", "c2", "c3">>
Ids4 == <<"c1", "c2", "c3", "c4">>
=============================================================================
