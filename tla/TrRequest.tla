----------------------------- MODULE TrRequest -----------------------------
(* Trace validation of recorded runs of the real helpers (harness/cmd/request) against the OBSERVER layer  *)
(* of Request.tla.  One trace per scenario; the reset line carries the scenario.  Events, in program order *)
(* (the scripted peer is lazy, so the run is sequential):                                                  *)
(*   call              the helper was called                                                               *)
(*   req ...           the first IQ request the library wrote, in symbolic form (type, to, id, payload     *)
(*                     name / namespace / number, what the payload denotes)                                *)
(*   wire ...          any other element the library wrote                                                 *)
(*   peer k ...        item k of the script was delivered (stanza name, type, id as rendered)              *)
(*   handled ...       the session's handler was given an element (name, type, id)                         *)
(*   cancel k          the caller's context was cancelled (script item k, or Len + 1: the caller gives up) *)
(*   ret ...           the call returned: error class, condition and type of a stanza error, value         *)
(*   dropped k         item k reached neither the call nor the handler                                     *)
(*   eos, serve_ret err, end;  stuck (matches nothing)                                                     *)
(* Every event only moves the control state and extends the observer variables; the verdict is             *)
(* SafetyOf(Only)' - the rules R1..R7 of Request.tla.  A `ret` while an item is out means that the call    *)
(* took that item (the driver waits for the return exactly when the handler was not given the item).       *)
EXTENDS Request, Json

CONSTANT Only    \* the rules that decide (AllRules; a single one when a rejected trace is diagnosed)

Trace == ndJsonDeserialize("trace.ndjson")
VARIABLES l, t0, reqid, cur
tvars == <<vars, l, t0, reqid, cur>>
Starts == {i \in 1..Len(Trace) : Trace[i].ev = "reset"}
EndOf(i) == Trace[i].end
IsEv(e) == l < EndOf(t0) /\ Trace[l].ev = e /\ l' = l + 1
E == Trace[l]

TInit ==
  /\ t0 \in Starts /\ l = t0 /\ reqid = "" /\ cur = <<>>
  /\ InitWith([kind |-> Trace[t0].kind, iq |-> Trace[t0].iq, arg |-> Trace[t0].arg, script |-> Trace[t0].script])

TrReset == l = t0 /\ IsEv("reset") /\ UNCHANGED <<vars, reqid, cur>>

TrCall == IsEv("call") /\ cpc = "idle" /\ cpc' = "start" /\ UNCHANGED <<sc, spc, k, cancelled, wrote, taken, handled, lost, out, reqid, cur>>

TrReq ==
  /\ IsEv("req") /\ cpc # "idle"
  /\ wrote' = Append(wrote, [req |-> TRUE, typ |-> E.typ, to |-> E.to, id |-> E.id, pl |-> E.pl, ns |-> E.ns, a |-> E.a, npl |-> E.npl])
  /\ cpc' = (IF cpc = "start" THEN "wait" ELSE cpc)
  /\ reqid' = (IF wrote = <<>> THEN E.id ELSE reqid)
  /\ UNCHANGED <<sc, spc, k, cancelled, taken, handled, lost, out, cur>>

TrWire ==
  /\ IsEv("wire")
  /\ wrote' = Append(wrote, [req |-> FALSE, typ |-> E.typ, to |-> "", id |-> E.id, pl |-> E.st, ns |-> "", a |-> <<>>, npl |-> 0])
  /\ UNCHANGED <<sc, cpc, spc, k, cancelled, taken, handled, lost, out, reqid, cur>>

(* the driver's rendering of the item is part of the binding: the ids are what the script says *)
ItemIdOK(it, id) ==
  CASE it.it \in {"reply", "wrongfrom", "wrongkind"} -> id = reqid
    [] it.it = "wrongid" -> id # reqid /\ id # ""
    [] OTHER -> id # reqid
TrPeer ==
  /\ IsEv("peer") /\ spc = "read" /\ cpc # "idle" /\ k < Len(Script) /\ E.k = k + 1 /\ Script[k + 1].it # "cancel"
  /\ ItemIdOK(Script[k + 1], E.id)
  /\ k' = k + 1 /\ spc' = "item" /\ cur' = <<E.st, E.typ, E.id>>
  /\ UNCHANGED <<sc, cpc, cancelled, wrote, taken, handled, lost, out, reqid>>

TrHandled ==
  /\ IsEv("handled") /\ spc = "item" /\ <<E.st, E.typ, E.id>> = cur
  /\ handled' = Append(handled, [k |-> k, waiting |-> cpc = "wait"])
  /\ spc' = "read"
  /\ UNCHANGED <<sc, cpc, k, cancelled, wrote, taken, lost, out, reqid, cur>>

TrDropped ==
  /\ IsEv("dropped") /\ spc = "item" /\ E.k = k
  /\ lost' = Append(lost, k) /\ spc' = "read"
  /\ UNCHANGED <<sc, cpc, k, cancelled, wrote, taken, handled, out, reqid, cur>>

TrCancel ==
  /\ IsEv("cancel") /\ spc = "read" /\ cpc # "idle"
  /\ \/ k < Len(Script) /\ E.k = k + 1 /\ Script[k + 1].it = "cancel" /\ k' = k + 1
     \/ k = Len(Script) /\ E.k = k + 1 /\ cpc # "done" /\ k' = k
  /\ cancelled' = TRUE
  /\ UNCHANGED <<sc, cpc, spc, wrote, taken, handled, lost, out, reqid, cur>>

OutRec(e) == [err |-> e.err, cond |-> e.cond, etyp |-> e.etyp, val |-> e.val]
TrRet ==
  /\ IsEv("ret") /\ cpc \in {"start", "wait"}
  /\ out' = <<OutRec(E)>> /\ cpc' = "done"
  /\ IF spc = "item" THEN taken' = k /\ spc' = "read"          \* the call took the item that is out, and gave it back
     ELSE taken' = taken /\ spc' = spc
  /\ UNCHANGED <<sc, k, cancelled, wrote, handled, lost, reqid, cur>>

TrEos ==
  /\ IsEv("eos") /\ spc = "read" /\ k = Len(Script)
  /\ spc' = "eos"
  /\ UNCHANGED <<sc, cpc, k, cancelled, wrote, taken, handled, lost, out, reqid, cur>>
TrServeRet ==
  /\ IsEv("serve_ret") /\ spc = "eos" /\ E.err = "none"
  /\ spc' = "ended"
  /\ UNCHANGED <<sc, cpc, k, cancelled, wrote, taken, handled, lost, out, reqid, cur>>
TrEnd == IsEv("end") /\ spc = "ended" /\ Done /\ UNCHANGED <<vars, reqid, cur>>

TNext ==
  /\ l < EndOf(t0)
  /\ \/ TrReset \/ TrCall \/ TrReq \/ TrWire \/ TrPeer \/ TrHandled \/ TrDropped \/ TrCancel \/ TrRet
     \/ TrEos \/ TrServeRet \/ TrEnd
  /\ UNCHANGED t0
  /\ SafetyOf(Only)'

TSpec == TInit /\ [][TNext]_tvars
HW == TLCSet(t0, IF TLCGet(t0) < l THEN l ELSE TLCGet(t0))
Rejected == {i \in Starts : TLCGet(i) # EndOf(i)}
Accepted ==
  \/ Rejected = {}
  \/ PrintT(<<"REJECTED", {<<Trace[i].t, TLCGet(i)>> : i \in Rejected}>>) /\ FALSE
ASSUME \A i \in Starts : TLCSet(i, 0)
=============================================================================
