---------------------------- MODULE EmitStartTLS ----------------------------
(* Emits the jobs of StartTLS.tla: peer script x successive sessions (addresses) sharing one feature value x tees. *)
EXTENDS StartTLS, Json, SequencesExt
ASSUME ndJsonSerialize("starttls_jobs.ndjson", SetToSeq(Jobs))
=============================================================================
