---------------------------- MODULE EmitStartTLS ----------------------------
EXTENDS StartTLS, Json, SequencesExt
ASSUME ndJsonSerialize("starttls_scripts.ndjson", SetToSeq(Scripts))
=============================================================================
