---------------------------- MODULE MCPeerInput ----------------------------
(* Pipeline A of C09: (1) facts about the generator of PeerInput.tla - every table     *)
(* state of every stateful handler is reached by a generated setup, every shape of      *)
(* every stanza occurs in every such state and in every configuration of the handler    *)
(* table, alone and twice in a row followed by the helper call of its handler, the      *)
(* bytestream with unflushed bytes is reached for both carriers and consistent with     *)
(* the local state of the run protocol, labels are unique, every item of every          *)
(* sequence is a known stanza or application action; the identity of the session (kind  *)
(* x class of the local address, incl. the session WITHOUT an address for every kind)   *)
(* is crossed with the addressing of the stanzas (C09_EverySessionCrossed); (2) the run *)
(* protocol in every life of a session (fresh, closed before Serve, served again, never *)
(* served): TypeOK, C09_NoFeedAfterReturn, C09_ServeSequential and, under the fairness  *)
(* the property demands of the library, C09_Terminates.                                 *)
EXTENDS PeerInput

ASSUME C09_EveryTableStateReachable
ASSUME C09_LabelsUnique
ASSUME C09_ItemsKnown
ASSUME C09_EveryShapeInEveryState
ASSUME C09_EveryTargetCovered
ASSUME C09_EveryConfigCrossed
ASSUME C09_ClassesDisjoint
ASSUME C09_LocalStateCrossed
ASSUME C09_EverySessionCrossed
ASSUME PrintT(<<"GRAMMAR", Cardinality(Targets), Cardinality(Alphabet) + Cardinality(AddrLabelled), NSeqScenarios,
                Cardinality(Helpers), Cardinality(ReplyScenarios) + Cardinality(SessReplyScenarios)>>)
ASSUME PrintT(<<"SESSIONS", Cardinality(Sessions), Cardinality(SessSingles), Cardinality(LifeSeqs), Cardinality(SessReplies), Cardinality(LifeReplies)>>)
ASSUME PrintT(<<"SETUPS", [f \in Stateful |-> Cardinality(SetupsOK(f, Depth(f)))]>>)
=============================================================================
