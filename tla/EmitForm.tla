----------------------------- MODULE EmitForm -----------------------------
(* the form configurations, variables and Set values of Form.tla for the driver *)
EXTENDS Form, Json, SequencesExt
ASSUME JsonSerialize("formcfg.json", [configs |-> SetToSeq(Configs), vars |-> SetToSeq(Vars), values |-> SetToSeq(SetValues)])
ASSUME JsonSerialize("symbols.json", Symbols)
EInit == cfg = <<>> /\ vals = <<>> /\ nops = 0 /\ last = <<>>
ENext == UNCHANGED fvars
=============================================================================
