----------------------------- MODULE EmitForm -----------------------------
(* the form configurations, variables and Set values of Form.tla for the driver *)
EXTENDS Form, Json, SequencesExt
ASSUME JsonSerialize("formcfg.json", [configs |-> SetToSeq(Configs), vars |-> SetToSeq(Vars), values |-> SetToSeq(SetValues),
                                       types |-> DocTypeAttr])
ASSUME JsonSerialize("symbols.json", Symbols)
EInit == cfg = <<>> /\ vals = <<>> /\ nops = 0 /\ last = <<>> /\ ftype = ""
ENext == UNCHANGED fvars
=============================================================================
