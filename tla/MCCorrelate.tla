---------------------------- MODULE MCCorrelate ----------------------------
EXTENDS Correlate
Kind1 == [i \in {"i1"} |-> KindAll[i]]
Kind2 == [i \in {"i1", "m1"} |-> KindAll[i]]
Kind2b == [i \in {"i1", "i2"} |-> KindAll[i]]
Kind3 == [i \in {"i1", "i2", "p1"} |-> KindAll[i]]
=============================================================================
