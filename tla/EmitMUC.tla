------------------------------ MODULE EmitMUC ------------------------------
(* Pipeline B of C18: every well-formed script of environment steps (client calls,   *)
(* cancellations, stanzas of the room) up to a length bound, written as scenarios    *)
(* for harness/cmd/muc.  Well-formedness is syntactic: call ids are used in order,   *)
(* the first call on a room is join, later ones rejoin/leave, a new call on a room   *)
(* starts only after the previous one was answered or cancelled in the script, an    *)
(* error answers a call that was made, at most MaxNoise steps are noise (presence of *)
(* another nick, of a never-joined room, invitations, unrelated stanzas).  InvFull:   *)
(* the noise holds every invitation message of InvAlphabet (position of the muc#user *)
(* payload among the children, the legacy / direct jabber:x:conference element, 0-2  *)
(* <invite/>, password), otherwise only the plain ones.  At most MaxSplit stanzas    *)
(* are delivered in two pieces (cut kinds Cuts): the remainder follows with a "rest" *)
(* step after any calls / cancellations, before the room sends anything else.        *)
(* At most MaxShape error replies have a shape other than the plain well-formed one  *)
(* (ErShapes: no children, no <error/>, foreign namespace, empty, undecodable, ...;   *)
(* see MUC!WellFormedShapes / MalformedShapes); OnlyShaped: only scripts with such a *)
(* reply are written (the others come from another emission).  WithTail: each script *)
(* is also written with a second, well-formed exchange appended: the call still open *)
(* is answered by the self-presence it waits for, otherwise the client joins (again) *)
(* and the room admits it: an exchange that must succeed, so that a serve loop which *)
(* stopped after the earlier reply shows.                                            *)
(* PAYLOAD CONTENT: every (un)available presence carries a muc#user payload: status  *)
(* codes (st.codes, document order) and an item variant (st.item, see PlDoc below).  *)
(* By default the plain one (DefCodes, item "-"); at most MaxPl presences of a script *)
(* - the occupant's own or, PlOther, another occupant's (a noise step) - carry one of *)
(* the payloads PlAv (available) / PlUn (unavailable) instead; OnlyPl: only scripts   *)
(* with such a presence are written.                                                 *)
(* CHANNELS: a member of ERooms names a channel = the occupant address it joins as;  *)
(* "r1b" is a second channel in room r1 under the nickname me2 (RoomOf / NickOf).     *)
(* AUX: at most MaxAux steps are Subject / Invite calls on a channel the application *)
(* holds, made while no call or a Leave is pending on it (they use up a call id and  *)
(* are never answered); OnlyAux: only scripts with such a call are written.          *)
(* RENICK: at most MaxRenick calls are "renick" = Channel.Join with the Nick option  *)
(* on a channel that has an occupant address (asking for the other nickname, me2);   *)
(* from then on the room may also send the presences of that other address (granted, *)
(* or somebody else's); the room answers the call with the self-presence of either   *)
(* address, an error, or not at all (cancel).  OnlyRenick: only scripts with one.     *)
EXTENDS Integers, Sequences, FiniteSets, TLC, Json, SequencesExt

CONSTANTS ERooms, MaxLen, MaxCalls, MaxNoise, InvFull, MaxSplit, Cuts, MaxShape, ErShapes, OnlyShaped, WithTail,
          MaxPl, PlSet, PlOther, OnlyPl, MaxAux, OnlyAux, MaxRenick, OnlyRenick, OutFile

NoSt == [ty |-> "-", room |-> "-", nick |-> "-", call |-> "-", n |-> 0, lay |-> <<>>, pw |-> FALSE, shape |-> "-",
         codes |-> <<>>, item |-> "-"]
(* the plain payload: the occupant's own presence says so (110); the presence of the other nick the scripts *)
(* use claims to be the user's own under a nick the room modified (110, 210)                                 *)
DefCodes(ty, nk) == CASE ty = "av" /\ nk = "ot" -> <<110, 210>> [] ty \in {"av", "un"} -> <<110>> [] OTHER -> <<>>
St(ty, r, nk, c, k) == [ty |-> ty, room |-> r, nick |-> nk, call |-> c, n |-> k,
                        lay |-> IF ty = "inv" THEN <<"u">> ELSE <<>>, pw |-> FALSE,
                        shape |-> IF ty = "er" THEN "wf" ELSE "-",
                        codes |-> DefCodes(ty, nk), item |-> "-"]
RoomOf(r) == IF r = "r1b" THEN "r1" ELSE r
NickOf(r) == IF r = "r1b" THEN "me2" ELSE "me"
Er(r, c, sh) == [St("er", RoomOf(r), NickOf(r), c, 0) EXCEPT !.shape = sh]
Inv(lay, k, pw) == [ty |-> "inv", room |-> "r1", nick |-> "-", call |-> "-", n |-> k, lay |-> lay, pw |-> pw, shape |-> "-",
                    codes |-> <<>>, item |-> "-"]
(* PlDoc.  Item variants (rendered by harness/cmd/muc presX): "-" <item affiliation=member role=participant|none/> *)
(* before the codes; "sfirst" the codes first; "noitem" codes only; "nick" the item names a (new) nickname;     *)
(* "jid" / "jidoth" the item shows the real address: this session's / another resource of the same account;     *)
(* "actor" affiliation none, <actor nick/> and <reason/> inside; "outcast" affiliation outcast, <actor jid/>,   *)
(* reason; "rolekept" role participant also on an unavailable presence; "visitor" / "owner" other roles and     *)
(* affiliations; "destroy" item none / none and a <destroy jid><reason/></destroy> sibling.                     *)
(* PlSet: set of [ty, codes, item] (ty: the presence type the payload goes with).                               *)
Pl(ty, codes, item) == [ty |-> ty, codes |-> codes, item |-> item]
PlUnAll == {Pl("un", <<>>, "-"), Pl("un", <<303>>, "nick"), Pl("un", <<303, 110>>, "nick"), Pl("un", <<110, 303>>, "nick"),
            Pl("un", <<303, 110>>, "sfirst"), Pl("un", <<307>>, "actor"), Pl("un", <<307, 110>>, "actor"),
            Pl("un", <<110, 307, 333>>, "actor"), Pl("un", <<301, 110>>, "outcast"), Pl("un", <<321, 110>>, "actor"),
            Pl("un", <<322, 110>>, "-"), Pl("un", <<332, 110>>, "-"), Pl("un", <<>>, "destroy"), Pl("un", <<110>>, "destroy"),
            Pl("un", <<110>>, "jid"), Pl("un", <<110>>, "jidoth"), Pl("un", <<110>>, "rolekept"), Pl("un", <<110>>, "noitem"),
            Pl("un", <<110>>, "sfirst")}
PlAvAll == {Pl("av", <<>>, "-"), Pl("av", <<110>>, "-"), Pl("av", <<110, 210>>, "-"), Pl("av", <<110, 201>>, "owner"),
            Pl("av", <<110, 100>>, "jid"), Pl("av", <<100, 110, 170, 210>>, "sfirst"), Pl("av", <<110, 170>>, "-"),
            Pl("av", <<110>>, "visitor"), Pl("av", <<110>>, "nick"), Pl("av", <<110>>, "actor"), Pl("av", <<110>>, "noitem"),
            Pl("av", <<110>>, "jidoth"), Pl("av", <<>>, "owner")}
PlAll == PlUnAll \cup PlAvAll
(* the most telling ones (quick tiers of other emissions) *)
PlFew == {Pl("un", <<303, 110>>, "nick"), Pl("un", <<307, 110>>, "actor"), Pl("un", <<>>, "destroy"), Pl("un", <<110>>, "rolekept"),
          Pl("av", <<>>, "-"), Pl("av", <<110, 201>>, "owner"), Pl("av", <<110>>, "nick")}
CallStep(op, r) == [op |-> op, room |-> r, call |-> "-", st |-> NoSt, cut |-> 0]
CancelStep(c) == [op |-> "cancel", room |-> "-", call |-> c, st |-> NoSt, cut |-> 0]
SendStep(s) == [op |-> "send", room |-> "-", call |-> "-", st |-> s, cut |-> 0]
RestStep == [op |-> "rest", room |-> "-", call |-> "-", st |-> NoSt, cut |-> 0]
Cid(i) == CASE i = 1 -> "c1" [] i = 2 -> "c2" [] i = 3 -> "c3" [] i = 4 -> "c4" [] i = 5 -> "c5" [] OTHER -> "c6"

(* invitation messages: every order of an optional body, the muc#user payload and an optional *)
(* jabber:x:conference element; direct invitations alone / after a body / after a thread       *)
HasU(lay) == \E i \in 1..Len(lay) : lay[i] = "u"
Layouts == {<<"u">>, <<"b", "u">>, <<"u", "b">>, <<"c", "u">>, <<"u", "c">>,
            <<"b", "u", "c">>, <<"b", "c", "u">>, <<"u", "b", "c">>, <<"u", "c", "b">>, <<"c", "b", "u">>, <<"c", "u", "b">>,
            <<"c">>, <<"b", "c">>, <<"c", "b">>, <<"t", "b", "c">>, <<"t", "u">>}
InvAlphabet == {Inv(l, k, pw) : l \in {l \in Layouts : HasU(l)}, k \in 0..2, pw \in BOOLEAN}
               \cup {Inv(l, 0, pw) : l \in {l \in Layouts : ~HasU(l)}, pw \in BOOLEAN}
BaseNoise == {St("av", "r1", "ot", "-", 0), St("un", "r1", "ot", "-", 0), St("av", "rx", "me", "-", 0),
          St("un", "rx", "me", "-", 0), St("inv", "r1", "-", "-", 0), St("inv", "r1", "-", "-", 1),
          St("inv", "r1", "-", "-", 2), St("oth", "-", "-", "-", 0), St("oth", "-", "-", "-", 1),
          \* presences of the room that is never joined whose muc#user payload cannot be decoded: ignored like the others
          [St("av", "rx", "ot", "-", 0) EXCEPT !.shape = "badaff"], [St("un", "rx", "me", "-", 0) EXCEPT !.shape = "badstatus"],
          [St("av", "rx", "me", "-", 0) EXCEPT !.shape = "badrole"]}
Noise == IF InvFull THEN InvAlphabet \cup {St("oth", "-", "-", "-", 0)} ELSE BaseNoise

(* script state: n calls made; has: rooms with a channel; open[r]: the unanswered call on r *)
(* ([c, k]) or None; ers: calls already answered with an error; noise: noise steps so far    *)
NoCall == [c |-> "-", k |-> "-"]
S0 == [n |-> 0, has |-> {}, open |-> [r \in ERooms |-> NoCall], ers |-> {}, roomOf |-> <<>>, noise |-> 0,
       partial |-> FALSE, nsplit |-> 0, pend |-> [r \in ERooms |-> "-"], nshape |-> 0, npl |-> 0, naux |-> 0, nren |-> 0]

Close(ss, r) == [ss EXCEPT !.open[r] = NoCall]
(* calls and cancellations *)
CallSteps(ss) ==
  UNION {IF ss.open[r] = NoCall /\ ss.n < MaxCalls
         THEN {<<CallStep(k, r), [ss EXCEPT !.n = @ + 1, !.has = @ \cup {r}, !.open[r] = [c |-> Cid(ss.n + 1), k |-> k],
                                            !.roomOf = Append(@, r)]>>
                 : k \in (IF r \in ss.has THEN {"rejoin", "leave"} ELSE {"join"})}
         ELSE {} : r \in ERooms}
  \* Join with the Nick option on a channel that has an occupant address
  \cup UNION {IF r \in ss.has /\ ss.open[r] = NoCall /\ ss.n < MaxCalls /\ ss.nren < MaxRenick
              THEN {<<CallStep("renick", r), [ss EXCEPT !.n = @ + 1, !.open[r] = [c |-> Cid(ss.n + 1), k |-> "renick"],
                                                       !.roomOf = Append(@, r), !.nren = @ + 1]>>}
              ELSE {} : r \in ERooms}
  \* Subject / Invite on a channel the application holds, while nothing or a Leave is pending on it
  \cup UNION {IF r \in ss.has /\ ss.open[r].k \in {"-", "leave"} /\ ss.n < MaxCalls /\ ss.naux < MaxAux
              THEN {<<CallStep(k, r), [ss EXCEPT !.n = @ + 1, !.roomOf = Append(@, r), !.ers = @ \cup {ss.n + 1}, !.naux = @ + 1]>>
                      : k \in {"subject", "invite"}}
              ELSE {} : r \in ERooms}
  \* cancellation of the open call
  \cup {<<CancelStep(ss.open[r].c), Close(ss, r)>> : r \in {r \in ERooms : ss.open[r] # NoCall}}
(* the stanzas the room may send next (in one piece) *)
(* the presence of type ty from the occupant address of channel r (nk = "me") or from another occupant *)
(* of its room (nk = "ot"): the plain one, or with one of the payloads of PlSet                          *)
WithPl(s, p) == [s EXCEPT !.codes = p.codes, !.item = p.item]
OtherNick(n) == IF n = "me" THEN "me2" ELSE "me"
Plain(ty, r, nk) == St(ty, RoomOf(r), CASE nk = "me" -> NickOf(r) [] nk = "alt" -> OtherNick(NickOf(r)) [] OTHER -> nk, "-", 0)
PresOf(ss, ty, r, nk) ==
  {<<Plain(ty, r, nk), ss>>}
  \cup (IF ss.npl < MaxPl /\ r \in ss.has     \* (before the first call on r its presences are those of a room never joined)
        THEN {<<WithPl(Plain(ty, r, nk), p), [ss EXCEPT !.npl = @ + 1]>>
                : p \in {p \in PlSet : p.ty = ty /\ (p.codes # DefCodes(ty, nk) \/ p.item # "-")}}
        ELSE {})
Sends(ss) ==
  \* self-presences
  UNION {{<<SendStep(x[1]), IF ss.open[r].k \in {"join", "rejoin", "renick"} THEN Close(x[2], r) ELSE x[2]>> : x \in PresOf(ss, "av", r, "me")} : r \in ERooms}
  \* once the other nickname has been asked for: the presences of that address
  \cup (IF ss.nren > 0
        THEN UNION {{<<SendStep(Plain("av", r, "alt")), IF ss.open[r].k = "renick" THEN Close(ss, r) ELSE ss>>,
                     <<SendStep(Plain("un", r, "alt")), ss>>} : r \in ERooms}
        ELSE {})
  \cup UNION {{<<SendStep(x[1]), IF ss.open[r].k = "leave" THEN Close(x[2], r) ELSE x[2]>> : x \in PresOf(ss, "un", r, "me")} : r \in ERooms}
  \* another occupant's presences with a payload out of PlSet (the plain ones are noise steps)
  \cup (IF PlOther /\ ss.npl < MaxPl
        THEN {<<SendStep(x[1]), x[2]>> : x \in UNION {PresOf(ss, ty, r, "ot") \ {<<Plain(ty, r, "ot"), ss>>} : ty \in {"av", "un"}, r \in ERooms}}
        ELSE {})
  \* error answers
  \cup {<<SendStep(Er(ss.roomOf[i], Cid(i), sh)),
          [(IF ss.open[ss.roomOf[i]].c = Cid(i) THEN Close(ss, ss.roomOf[i]) ELSE ss)
             EXCEPT !.ers = @ \cup {i}, !.nshape = IF sh = "wf" THEN @ ELSE @ + 1]>>
          : i \in {i \in 1..ss.n : i \notin ss.ers},
            sh \in {"wf"} \cup (IF ss.nshape < MaxShape THEN ErShapes ELSE {})}
  \* noise
  \cup (IF ss.noise < MaxNoise THEN {<<SendStep(s), [ss EXCEPT !.noise = @ + 1]>> : s \in Noise} ELSE {})
(* the same stanzas with only a first piece delivered now: the call it answers stays open  *)
(* (it may still be cancelled) until the remainder has been delivered                       *)
SplitSends(ss) ==
  IF ss.nsplit < MaxSplit
  THEN {<<[x[1] EXCEPT !.cut = k],
          [x[2] EXCEPT !.open = ss.open, !.partial = TRUE, !.nsplit = @ + 1,
                       !.pend = [r \in ERooms |-> IF x[2].open[r] # ss.open[r] THEN ss.open[r].c ELSE "-"]]>>
          : x \in Sends(ss), k \in Cuts}
  ELSE {}
AfterRest(ss) ==
  [ss EXCEPT !.partial = FALSE, !.pend = [r \in ERooms |-> "-"],
             !.open = [r \in ERooms |-> IF ss.pend[r] # "-" /\ ss.open[r].c = ss.pend[r] THEN NoCall ELSE ss.open[r]]]
Ext(ss) ==
  CallSteps(ss) \cup (IF ss.partial THEN {<<RestStep, AfterRest(ss)>>} ELSE Sends(ss) \cup SplitSends(ss))

(* the second exchange: the positive answer to the open call, or a new (re)join that is admitted *)
TailRoom == CHOOSE r \in ERooms : TRUE
TailOf(ss) ==
  LET r == TailRoom IN
  IF ss.open[r] # NoCall
  THEN <<SendStep(Plain(IF ss.open[r].k = "leave" THEN "un" ELSE "av", r, "me"))>>
  ELSE <<CallStep(IF r \in ss.has THEN "rejoin" ELSE "join", r), SendStep(Plain("av", r, "me"))>>

(* every non-empty script in which no stanza is left half delivered *)
RECURSIVE Gen(_, _, _)
Gen(seq, ss, k) ==
  (IF seq = <<>> \/ ss.partial \/ (OnlyShaped /\ ss.nshape = 0) \/ (OnlyPl /\ ss.npl = 0) \/ (OnlyAux /\ ss.naux = 0) \/ (OnlyRenick /\ ss.nren = 0) THEN {}
   ELSE {seq} \cup (IF WithTail THEN {seq \o TailOf(ss)} ELSE {}))
  \cup (IF k = 0 THEN {} ELSE UNION {Gen(Append(seq, x[1]), x[2], k - 1) : x \in Ext(ss)})

Scripts == Gen(<<>>, S0, MaxLen)
ASSUME PrintT(<<"SCRIPTS", Cardinality(Scripts)>>)
ASSUME ndJsonSerialize(OutFile, SetToSeq({[mode |-> "seq", steps |-> s] : s \in Scripts}))

VARIABLE dummy
Spec == dummy = 0 /\ [][UNCHANGED dummy]_dummy
=============================================================================
