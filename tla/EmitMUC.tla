------------------------------ MODULE EmitMUC ------------------------------
(* Pipeline B of C18: every well-formed script of environment steps (client calls,   *)
(* cancellations, stanzas of the room) up to a length bound, written as scenarios    *)
(* for harness/cmd/muc.  Well-formedness is syntactic: call ids are used in order,   *)
(* the first call on a room is join, later ones rejoin/leave, a new call on a room   *)
(* starts only after the previous one was answered or cancelled in the script, an    *)
(* error answers a call that was made, at most MaxNoise steps are noise (presence of *)
(* another nick, of a never-joined room, invitations, unrelated stanzas).  InvFull:   *)
(* the noise holds every invitation message of InvAlphabet (position of the muc#user *)
(* payload among the children, the legacy / direct jabber:x:conference element, 0-2  *)
(* <invite/>, password), otherwise only the plain ones.  At most MaxSplit stanzas    *)
(* are delivered in two pieces (cut kinds Cuts): the remainder follows with a "rest" *)
(* step after any calls / cancellations, before the room sends anything else.        *)
(* At most MaxShape error replies have a shape other than the plain well-formed one  *)
(* (ErShapes: no children, no <error/>, foreign namespace, empty, undecodable, ...;   *)
(* see MUC!WellFormedShapes / MalformedShapes); OnlyShaped: only scripts with such a *)
(* reply are written (the others come from another emission).  WithTail: each script *)
(* is also written with a second, well-formed exchange appended: the call still open *)
(* is answered by the self-presence it waits for, otherwise the client joins (again) *)
(* and the room admits it: an exchange that must succeed, so that a serve loop which *)
(* stopped after the earlier reply shows.                                            *)
EXTENDS Integers, Sequences, FiniteSets, TLC, Json, SequencesExt

CONSTANTS ERooms, MaxLen, MaxCalls, MaxNoise, InvFull, MaxSplit, Cuts, MaxShape, ErShapes, OnlyShaped, WithTail, OutFile

NoSt == [ty |-> "-", room |-> "-", nick |-> "-", call |-> "-", n |-> 0, lay |-> <<>>, pw |-> FALSE, shape |-> "-"]
St(ty, r, nk, c, k) == [ty |-> ty, room |-> r, nick |-> nk, call |-> c, n |-> k,
                        lay |-> IF ty = "inv" THEN <<"u">> ELSE <<>>, pw |-> FALSE,
                        shape |-> IF ty = "er" THEN "wf" ELSE "-"]
Er(r, c, sh) == [St("er", r, "me", c, 0) EXCEPT !.shape = sh]
Inv(lay, k, pw) == [ty |-> "inv", room |-> "r1", nick |-> "-", call |-> "-", n |-> k, lay |-> lay, pw |-> pw, shape |-> "-"]
CallStep(op, r) == [op |-> op, room |-> r, call |-> "-", st |-> NoSt, cut |-> 0]
CancelStep(c) == [op |-> "cancel", room |-> "-", call |-> c, st |-> NoSt, cut |-> 0]
SendStep(s) == [op |-> "send", room |-> "-", call |-> "-", st |-> s, cut |-> 0]
RestStep == [op |-> "rest", room |-> "-", call |-> "-", st |-> NoSt, cut |-> 0]
Cid(i) == CASE i = 1 -> "c1" [] i = 2 -> "c2" [] i = 3 -> "c3" [] i = 4 -> "c4" [] i = 5 -> "c5" [] OTHER -> "c6"

(* invitation messages: every order of an optional body, the muc#user payload and an optional *)
(* jabber:x:conference element; direct invitations alone / after a body / after a thread       *)
HasU(lay) == \E i \in 1..Len(lay) : lay[i] = "u"
Layouts == {<<"u">>, <<"b", "u">>, <<"u", "b">>, <<"c", "u">>, <<"u", "c">>,
            <<"b", "u", "c">>, <<"b", "c", "u">>, <<"u", "b", "c">>, <<"u", "c", "b">>, <<"c", "b", "u">>, <<"c", "u", "b">>,
            <<"c">>, <<"b", "c">>, <<"c", "b">>, <<"t", "b", "c">>, <<"t", "u">>}
InvAlphabet == {Inv(l, k, pw) : l \in {l \in Layouts : HasU(l)}, k \in 0..2, pw \in BOOLEAN}
               \cup {Inv(l, 0, pw) : l \in {l \in Layouts : ~HasU(l)}, pw \in BOOLEAN}
BaseNoise == {St("av", "r1", "ot", "-", 0), St("un", "r1", "ot", "-", 0), St("av", "rx", "me", "-", 0),
          St("un", "rx", "me", "-", 0), St("inv", "r1", "-", "-", 0), St("inv", "r1", "-", "-", 1),
          St("inv", "r1", "-", "-", 2), St("oth", "-", "-", "-", 0), St("oth", "-", "-", "-", 1),
          \* presences of the room that is never joined whose muc#user payload cannot be decoded: ignored like the others
          [St("av", "rx", "ot", "-", 0) EXCEPT !.shape = "badaff"], [St("un", "rx", "me", "-", 0) EXCEPT !.shape = "badstatus"],
          [St("av", "rx", "me", "-", 0) EXCEPT !.shape = "badrole"]}
Noise == IF InvFull THEN InvAlphabet \cup {St("oth", "-", "-", "-", 0)} ELSE BaseNoise

(* script state: n calls made; has: rooms with a channel; open[r]: the unanswered call on r *)
(* ([c, k]) or None; ers: calls already answered with an error; noise: noise steps so far    *)
NoCall == [c |-> "-", k |-> "-"]
S0 == [n |-> 0, has |-> {}, open |-> [r \in ERooms |-> NoCall], ers |-> {}, roomOf |-> <<>>, noise |-> 0,
       partial |-> FALSE, nsplit |-> 0, pend |-> [r \in ERooms |-> "-"], nshape |-> 0]

Close(ss, r) == [ss EXCEPT !.open[r] = NoCall]
(* calls and cancellations *)
CallSteps(ss) ==
  UNION {IF ss.open[r] = NoCall /\ ss.n < MaxCalls
         THEN {<<CallStep(k, r), [ss EXCEPT !.n = @ + 1, !.has = @ \cup {r}, !.open[r] = [c |-> Cid(ss.n + 1), k |-> k],
                                            !.roomOf = Append(@, r)]>>
                 : k \in (IF r \in ss.has THEN {"rejoin", "leave"} ELSE {"join"})}
         ELSE {} : r \in ERooms}
  \* cancellation of the open call
  \cup {<<CancelStep(ss.open[r].c), Close(ss, r)>> : r \in {r \in ERooms : ss.open[r] # NoCall}}
(* the stanzas the room may send next (in one piece) *)
Sends(ss) ==
  \* self-presences
  {<<SendStep(St("av", r, "me", "-", 0)), IF ss.open[r].k \in {"join", "rejoin"} THEN Close(ss, r) ELSE ss>> : r \in ERooms}
  \cup {<<SendStep(St("un", r, "me", "-", 0)), IF ss.open[r].k = "leave" THEN Close(ss, r) ELSE ss>> : r \in ERooms}
  \* error answers
  \cup {<<SendStep(Er(ss.roomOf[i], Cid(i), sh)),
          [(IF ss.open[ss.roomOf[i]].c = Cid(i) THEN Close(ss, ss.roomOf[i]) ELSE ss)
             EXCEPT !.ers = @ \cup {i}, !.nshape = IF sh = "wf" THEN @ ELSE @ + 1]>>
          : i \in {i \in 1..ss.n : i \notin ss.ers},
            sh \in {"wf"} \cup (IF ss.nshape < MaxShape THEN ErShapes ELSE {})}
  \* noise
  \cup (IF ss.noise < MaxNoise THEN {<<SendStep(s), [ss EXCEPT !.noise = @ + 1]>> : s \in Noise} ELSE {})
(* the same stanzas with only a first piece delivered now: the call it answers stays open  *)
(* (it may still be cancelled) until the remainder has been delivered                       *)
SplitSends(ss) ==
  IF ss.nsplit < MaxSplit
  THEN {<<[x[1] EXCEPT !.cut = k],
          [x[2] EXCEPT !.open = ss.open, !.partial = TRUE, !.nsplit = @ + 1,
                       !.pend = [r \in ERooms |-> IF x[2].open[r] # ss.open[r] THEN ss.open[r].c ELSE "-"]]>>
          : x \in Sends(ss), k \in Cuts}
  ELSE {}
AfterRest(ss) ==
  [ss EXCEPT !.partial = FALSE, !.pend = [r \in ERooms |-> "-"],
             !.open = [r \in ERooms |-> IF ss.pend[r] # "-" /\ ss.open[r].c = ss.pend[r] THEN NoCall ELSE ss.open[r]]]
Ext(ss) ==
  CallSteps(ss) \cup (IF ss.partial THEN {<<RestStep, AfterRest(ss)>>} ELSE Sends(ss) \cup SplitSends(ss))

(* the second exchange: the positive answer to the open call, or a new (re)join that is admitted *)
TailRoom == CHOOSE r \in ERooms : TRUE
TailOf(ss) ==
  LET r == TailRoom IN
  IF ss.open[r] # NoCall
  THEN <<SendStep(St(IF ss.open[r].k = "leave" THEN "un" ELSE "av", r, "me", "-", 0))>>
  ELSE <<CallStep(IF r \in ss.has THEN "rejoin" ELSE "join", r), SendStep(St("av", r, "me", "-", 0))>>

(* every non-empty script in which no stanza is left half delivered *)
RECURSIVE Gen(_, _, _)
Gen(seq, ss, k) ==
  (IF seq = <<>> \/ ss.partial \/ (OnlyShaped /\ ss.nshape = 0) THEN {}
   ELSE {seq} \cup (IF WithTail THEN {seq \o TailOf(ss)} ELSE {}))
  \cup (IF k = 0 THEN {} ELSE UNION {Gen(Append(seq, x[1]), x[2], k - 1) : x \in Ext(ss)})

Scripts == Gen(<<>>, S0, MaxLen)
ASSUME PrintT(<<"SCRIPTS", Cardinality(Scripts)>>)
ASSUME ndJsonSerialize(OutFile, SetToSeq({[mode |-> "seq", steps |-> s] : s \in Scripts}))

VARIABLE dummy
Spec == dummy = 0 /\ [][UNCHANGED dummy]_dummy
=============================================================================
