---------------------------- MODULE ServeLoop ----------------------------
(* The sequential serve loop of a session (xmpp.Session.Serve, handleInputStream,    *)
(* responseChecker in /repo/session.go; internal/stream/reader.go).                  *)
(*                                                                                   *)
(*   part 1 (C07_..)  the reply rule: which elements may be on the wire after an      *)
(*                   incoming element was handled by a handler program               *)
(*   part 2 (C08_..)  the reader: what a handler can see of the input, which input    *)
(*                   ends the session and how                                        *)
(*                                                                                   *)
(* Both parts are SEQUENTIAL (one serve goroutine). Each part has reference          *)
(* functions (evaluated by TLC to make the vectors the Go driver replays into the    *)
(* real Serve) and a step machine with one action per step of the loop, whose        *)
(* invariants state the property and tie the machine to the reference function.      *)
(* The concurrent correlation protocol (C06) is a separate module.                   *)
EXTENDS Integers, Sequences, FiniteSets, TLC

Min(a, b) == IF a < b THEN a ELSE b
Max(a, b) == IF a > b THEN a ELSE b
RECURSIVE Cat(_)
Cat(ss) == IF ss = <<>> THEN <<>> ELSE Head(ss) \o Cat(Tail(ss))

---------------------------------------------------------------------------
(*                          SESSIONS (both parts)                                    *)
(* The rules of both parts hold on every session the library can serve. A session is *)
(* described by                                                                      *)
(*   kind  "c2s" | "s2s" (initiated over TCP), "rc2s" | "rs2s" (received: the peer's  *)
(*         stream header came first), "ws" (initiated, WebSocket framing: the header  *)
(*         is an <open/> element of the framing namespace and every stanza names its *)
(*         own namespace)                                                            *)
(*   neg   "custom" (a Negotiator of the application that stores the peer's header)   *)
(*         | "lib" (the library's own negotiator)                                    *)
(*   hdr   what the peer's stream header names as this side's address: "same" (the   *)
(*         address given when the session was made) | "other" | "none"               *)
(*   bind  whether negotiation ended by binding another address (UpdateAddr)         *)
(* Addresses are symbols: "A" given to the constructor, "H" named by the peer's      *)
(* header, "B" bound, "X" never the session's; each has a bare and a full form.      *)
Sess(kind, neg, hdr, bind) == [kind |-> kind, neg |-> neg, hdr |-> hdr, bind |-> bind]
Received(k) == k \in {"rc2s", "rs2s"}
SessNS(k) == IF k \in {"s2s", "rs2s"} THEN "server" ELSE "client"    \* the stanza namespace of the stream
OtherNS(ns) == IF ns = "client" THEN "server" ELSE "client"
Framing(k) == IF k = "ws" THEN "ws" ELSE "tcp"
(* the namespace the peer's stream header declares: on the WebSocket framing it is   *)
(* the framing namespace, not a stanza namespace                                     *)
HeaderNS(k) == IF Framing(k) = "ws" THEN "framing" ELSE SessNS(k)
(* the session's own address: the last one it was given *)
Ctor(s) == IF Received(s.kind) THEN "none" ELSE "A"
HdrTo(s) == IF s.hdr = "same" THEN Ctor(s) ELSE IF s.hdr = "other" THEN "H" ELSE "none"
Local(s) == IF s.bind THEN "B" ELSE IF HdrTo(s) # "none" THEN HdrTo(s) ELSE Ctor(s)
(* an address the session was given earlier but that is not its address (any more);  *)
(* "X" when there is none                                                            *)
Was(s) == IF Ctor(s) \notin {"none", Local(s)} THEN Ctor(s)
          ELSE IF HdrTo(s) \notin {"none", Local(s)} THEN HdrTo(s) ELSE "X"
(* sessions that exist: they have an address; the library's own negotiator insists   *)
(* on a header naming the constructor's address, binds on initiated client streams   *)
(* only, and (this tree) cannot receive a server-to-server stream                    *)
ValidSess(s) ==
  /\ Local(s) # "none"
  /\ (s.hdr = "same" => ~Received(s.kind))
  /\ (s.kind = "ws" => s.neg = "lib")
  /\ (s.neg = "lib" => \/ (s.kind \in {"c2s", "s2s", "ws"} /\ s.hdr = "same" /\ (s.bind => s.kind = "c2s"))
                       \/ (s.kind = "rc2s" /\ s.hdr = "other" /\ ~s.bind))
AllSess == {s \in {Sess(k, n, h, b) : k \in {"c2s", "s2s", "rc2s", "rs2s", "ws"}, n \in {"custom", "lib"},
                                     h \in {"same", "other", "none"}, b \in BOOLEAN} : ValidSess(s)}

---------------------------------------------------------------------------
(*                               PART 1 - C07                                        *)
(* Every incoming get/set IQ that carries an id is answered exactly once: by the     *)
(* handler's own reply if it wrote one, otherwise by one service-unavailable error   *)
(* added by the session - never both; an element with another id or a non-reply type *)
(* is not the reply; unless the stream is terminated with a stream error. IQs of     *)
(* type result/error and other stanzas never trigger an automatic reply.             *)

(* incoming element: kind "iq" | "msg" | "pres" | "other" (foreign top-level element) *)
(* type as written ("" = absent), id ("none" = absent), from "none" | "own" (the      *)
(* session's own bare address) | "ownfull" | "peer" (another entity's full address) | *)
(* "domain" (a server's address, not the session's own), to "none" | "full" | "bare"  *)
(* (the session's own address), ns "own" (the stream's stanza namespace) | "other"    *)
(* (the other stanza namespace: jabber:server on a client stream and vice versa),     *)
(* payload "none" | "child" | "childtext" | "iqchild" (a child that is itself named   *)
(* iq and carries the request's id)                                                   *)
El7(kind, type, id, from, to, ns, payload) ==
  [kind |-> kind, type |-> type, id |-> id, from |-> from, to |-> to, ns |-> ns, payload |-> payload]

(* how the element looks on a session of kind k: its namespace, and whether it names  *)
(* that namespace itself (on the WebSocket framing every stanza does; an element of   *)
(* the other stanza namespace must) or inherits it from the stream header; the rule   *)
(* of this part is the same on every kind of session                                  *)
ElemNS(k, e) == IF e.ns = "own" THEN SessNS(k) ELSE OtherNS(SessNS(k))
Declares(k, e) == Framing(k) = "ws" \/ e.ns = "other"
HeaderDiffers(k, e) == HeaderNS(k) # ElemNS(k, e)     \* the stream header names another namespace than the stanza

(* an element written by a handler: el "iq" | "message"; ns "def" (the stream's      *)
(* stanza namespace) | "foreign"; type ("" absent); id ("none" absent); to; nest =   *)
(* it contains a child named iq, type result, carrying the same id                   *)
WEl(el, ns, type, id, to, nest) == [el |-> el, ns |-> ns, type |-> type, id |-> id, to |-> to, nest |-> nest]

OtherId(id) == IF id = "none" THEN "other" ELSE id \o "x"
(* the addressee handlers give their elements: the sender they were shown *)
ToOf(e) == IF e.from \in {"none", "own"} THEN "none" ELSE e.from

WNames == {"none", "reply", "errreply", "otherid", "get", "set", "kth", "first", "nested",
           "notype", "bogustype", "foreign"}
Writes(w, e) ==
  LET id == e.id  to == ToOf(e)
      reply == WEl("iq", "def", "result", id, to, FALSE)
      msg == WEl("message", "def", "chat", "none", to, FALSE)
  IN CASE w = "none"      -> <<>>
       [] w = "reply"     -> <<reply>>
       [] w = "errreply"  -> <<WEl("iq", "def", "error", id, to, FALSE)>>
       [] w = "otherid"   -> <<WEl("iq", "def", "result", OtherId(id), to, FALSE)>>
       [] w = "get"       -> <<WEl("iq", "def", "get", id, to, FALSE)>>
       [] w = "set"       -> <<WEl("iq", "def", "set", id, to, FALSE)>>
       [] w = "kth"       -> <<msg, WEl("iq", "def", "result", OtherId(id), to, FALSE), reply>>
       [] w = "first"     -> <<reply, msg>>
       [] w = "nested"    -> <<WEl("message", "def", "chat", id, to, TRUE)>>
       [] w = "notype"    -> <<WEl("iq", "def", "", id, to, FALSE)>>
       [] w = "bogustype" -> <<WEl("iq", "def", "bogus", id, to, FALSE)>>
       [] OTHER           -> <<WEl("iq", "foreign", "result", id, to, FALSE)>>

(* handler program: how much of the element it reads ("none" | "one" | "all" |       *)
(* "over" = tries to read past the end), what it writes, how it returns ("ok" | "err" *)
(* = some error | "stanzaerr" = a stanza error value, which Serve's documentation    *)
(* says is sent to the peer | an error VALUE related to a sentinel or to a documented *)
(* error type: "eof" = io.EOF itself, "weof" = an error that wraps io.EOF (what       *)
(* fmt.Errorf("...: %w", err) makes of the io.EOF of decoding an empty payload),     *)
(* "ueof" = io.ErrUnexpectedEOF, "wstanzaerr" = an error that wraps a stanza error,   *)
(* "streamerr" = a stream.Error value, "wstreamerr" = an error that wraps one), and   *)
(* what it does to the start element it was handed BY *)
(* POINTER before it returns (handlers recycle it for their reply): "none" | "type"  *)
(* (type := result) | "name" (renamed to message) | "id" (another id) | "from"       *)
(* (another sender) | "clear" (all attributes dropped).  The reply rule is about the *)
(* request AS IT ARRIVED: no reference function below looks at mut.                  *)
Prog7(read, w, ret, mut) == [read |-> read, w |-> w, ret |-> ret, mut |-> mut]
Muts == {"none", "type", "name", "id", "from", "clear"}
Rets == {"ok", "err", "stanzaerr", "eof", "weof", "ueof", "wstanzaerr", "streamerr", "wstreamerr"}
(* Only the STREAM can say that the stream has ended: whatever value a handler returns, the request it was handed  *)
(* is answered - or the stream is terminated with an error that Serve reports.  A returned io.EOF itself may be    *)
(* read as "I reached the end of my element" (no error: the reply rule applies) or as an error like any other;     *)
(* errors that merely wrap it, and io.ErrUnexpectedEOF, are errors.  A stanza error, bare or wrapped, may be sent  *)
(* as the request's error reply (Serve's documentation) or treated like any other error.                           *)
RetNoError(r) == r \in {"ok", "eof"}
RetMayFail(r) == r # "ok"
RetStanza(r) == r \in {"stanzaerr", "wstanzaerr"}

(* THE reply to request e: a top-level iq in the stream's namespace, type result or  *)
(* error, carrying the request's id                                                  *)
C07_IsReply(x, e) == x.el = "iq" /\ x.ns = "def" /\ x.type \in {"result", "error"} /\ x.id = e.id

CarriesId(e) == e.id \notin {"none", ""}
C07_Needs(e) == e.kind = "iq" /\ e.type \in {"get", "set"} /\ CarriesId(e)
(* the property is silent about iqs of an undefined type and get/set iqs without id: *)
(* an automatic error reply is neither required nor forbidden                        *)
C07_Free(e) == e.kind = "iq" /\ ~C07_Needs(e) /\ e.type \notin {"result", "error"}

(* what is on the wire: handler-written elements <<"h", record>>, the session's      *)
(* default reply <<"su", id, to>>, a stream error <<"serr">>. The default reply is   *)
(* addressed to the request's sender when it named one - whatever the request's own  *)
(* addressee, namespace, and the kind of session; a sender equal to the session's    *)
(* own bare address may have been presented as empty (part 2)                        *)
HOut(x) == <<"h", x>>
SUOuts(e) == {<<"su", e.id, t>> : t \in IF e.from = "own" THEN {"none", "own"} ELSE {e.from}}
(* the stanza error a handler RETURNED, sent by the session as the error reply to the *)
(* request (Serve's documentation): an automatic reply like the default one, with     *)
(* whatever condition the handler chose                                               *)
SEOuts(e) == {<<"se", e.id, t>> : t \in IF e.from = "own" THEN {"none", "own"} ELSE {e.from}}

(* Whether the program runs at all. "plain": the handler is given to Serve directly.  *)
(* "muxunreg": a multiplexer without a handler for the element - nothing of the      *)
(* program runs. "muxreg": a multiplexer (made for the stream's stanza namespace)    *)
(* with a handler registered for the element's payload; for an iq WITHOUT payload,   *)
(* and for a stanza qualified by the OTHER stanza namespace, this property does not  *)
(* say whether the multiplexer hands it to the handler (C14 territory): both.        *)
Modes == {"plain", "muxreg", "muxunreg"}
RanChoices(e, mode) ==
  IF mode = "plain" THEN {TRUE} ELSE IF mode = "muxunreg" THEN {FALSE}
  ELSE IF e.kind = "iq" /\ e.payload = "none" THEN {TRUE, FALSE}
  ELSE IF e.kind # "other" /\ e.ns = "other" THEN {TRUE, FALSE} ELSE {TRUE}
HWrites(e, p, ran) == IF ran THEN Writes(p.w, e) ELSE <<>>
HRet(p, ran) == IF ran THEN p.ret ELSE "ok"

(* the acceptable wire outputs for one incoming element when the program ran / did not *)
RepliesR(e, p, ran) ==
  LET H == HWrites(e, p, ran)
      base == [i \in 1..Len(H) |-> HOut(H[i])]
      has == \E i \in 1..Len(H) : C07_IsReply(H[i], e)
      withSU == {Append(base, su) : su \in SUOuts(e)}
      ok == IF has THEN {base}
            ELSE IF C07_Needs(e) THEN withSU
            ELSE IF C07_Free(e) THEN {base} \cup withSU
            ELSE {base}
      withSE == {Append(base, se) : se \in SEOuts(e)}
      term == {Append(w, <<"serr">>) : w \in ok \cup {base}}    \* terminated by a stream error
  IN IF HRet(p, ran) = "ok" THEN ok
     ELSE IF HRet(p, ran) = "eof" THEN ok \cup term
     ELSE IF RetStanza(HRet(p, ran)) /\ ~has /\ (C07_Needs(e) \/ C07_Free(e)) THEN term \cup withSE
     ELSE term
(* a stanza qualified by a stanza namespace that the stream header did not declare   *)
(* may also be refused outright: the stream is terminated with a stream error before *)
(* anything is handled                                                               *)
MayRefuse(e) == e.kind # "other" /\ e.ns = "other"
C07_Replies(e, p, mode) == UNION {RepliesR(e, p, ran) : ran \in RanChoices(e, mode)}
                           \cup (IF MayRefuse(e) THEN {<< <<"serr">> >>} ELSE {})

Ends(w) == w # <<>> /\ w[Len(w)] = <<"serr">>

(* acceptable outputs for a sequence of (element, program) pairs: after a stream     *)
(* error nothing else is handled                                                     *)
RECURSIVE C07_RepliesSeq(_, _)
C07_RepliesSeq(items, mode) ==
  IF items = <<>> THEN {<<>>}
  ELSE LET first == C07_Replies(items[1].e, items[1].p, mode)
           rest == C07_RepliesSeq(Tail(items), mode)
       IN {w : w \in {x \in first : Ends(x)}} \cup
          {w \o r : w \in {x \in first : ~Ends(x)}, r \in rest}

(* what the handler left in the start element it was handed *)
Mutated(e, mut) ==
  CASE mut = "type" -> [e EXCEPT !.type = "result"]
    [] mut = "name" -> [e EXCEPT !.kind = "msg"]
    [] mut = "id" -> [e EXCEPT !.id = OtherId(e.id)]
    [] mut = "from" -> [e EXCEPT !.from = IF e.from = "domain" THEN "peer" ELSE "domain"]
    [] mut = "clear" -> [e EXCEPT !.type = "", !.id = "none", !.from = "none"]
    [] OTHER -> e

CONSTANTS C7Dev,     \* named deviations of part 1 ({} in design checks): "StartAfterHandler" = the default reply is
                     \* decided and built from the start element as the handler left it; "EOFLikeEndsServe" = an error of the
                     \* handler for which errors.Is(err, io.EOF) holds is taken for the end of the input stream
          C7Items,   \* set of (element, program) pairs the design check feeds
          C7Modes,   \* modes explored
          C7Len      \* number of elements per run

VARIABLES c7mode,   \* "plain" | "muxreg" | "muxunreg"
          c7in,     \* remaining input: sequence of (element, program) pairs
          c7done,   \* history: the pairs handled so far
          c7parts,  \* history: what was written while each of them was handled
          c7cur, c7pc, c7k,
          c7ran,    \* whether the program runs for the current element
          c7wrote,  \* the reply-seen flag of the reply detector
          c7out     \* written so far for the current element
c7vars == <<c7mode, c7in, c7done, c7parts, c7cur, c7pc, c7k, c7ran, c7wrote, c7out>>
C7Wire == Cat(c7parts) \o c7out

NoItem == [e |-> El7("none", "", "none", "none", "none", "own", "none"), p |-> Prog7("none", "none", "ok", "none")]

C07_Init ==
  /\ c7mode \in C7Modes /\ c7in \in UNION {[1..n -> C7Items] : n \in 1..C7Len}
  /\ c7done = <<>> /\ c7parts = <<>> /\ c7cur = NoItem /\ c7pc = "idle" /\ c7k = 1
  /\ c7wrote = FALSE /\ c7out = <<>> /\ c7ran = TRUE

(* handleInputStream: next top-level element, or the peer's closing tag *)
C07_Take ==
  /\ c7pc = "idle" /\ c7in # <<>>
  /\ c7cur' = Head(c7in) /\ c7in' = Tail(c7in) /\ c7pc' = "handler" /\ c7k' = 1 /\ c7wrote' = FALSE
  /\ c7out' = <<>> /\ c7ran' \in RanChoices(Head(c7in).e, c7mode)
  /\ UNCHANGED <<c7mode, c7done, c7parts>>
C07_Refuse ==
  /\ c7pc = "idle" /\ c7in # <<>> /\ MayRefuse(Head(c7in).e)
  /\ c7cur' = Head(c7in) /\ c7in' = Tail(c7in) /\ c7pc' = "failed"
  /\ c7parts' = Append(c7parts, << <<"serr">> >>) /\ c7done' = Append(c7done, Head(c7in))
  /\ UNCHANGED <<c7mode, c7k, c7ran, c7wrote, c7out>>
C07_CloseTag ==
  /\ c7pc = "idle" /\ c7in = <<>> /\ c7pc' = "closed"
  /\ UNCHANGED <<c7mode, c7in, c7done, c7parts, c7cur, c7k, c7ran, c7wrote, c7out>>

(* the handler writes its next element through the reply detector *)
C07_Write ==
  /\ c7pc = "handler"
  /\ LET H == HWrites(c7cur.e, c7cur.p, c7ran)
     IN /\ c7k <= Len(H)
        /\ c7out' = Append(c7out, HOut(H[c7k]))
        /\ c7wrote' = (c7wrote \/ C07_IsReply(H[c7k], c7cur.e))
        /\ c7k' = c7k + 1
  /\ UNCHANGED <<c7mode, c7in, c7done, c7parts, c7cur, c7pc, c7ran>>

C07_Return ==
  /\ c7pc = "handler" /\ c7k > Len(HWrites(c7cur.e, c7cur.p, c7ran))
  /\ LET r == HRet(c7cur.p, c7ran) IN
     c7pc' \in (IF RetNoError(r) THEN {"after"} ELSE {}) \cup (IF RetStanza(r) THEN {"sfail"} ELSE {})
                \cup (IF RetMayFail(r) /\ ~RetStanza(r) THEN {"fail"} ELSE {})
  /\ UNCHANGED <<c7mode, c7in, c7done, c7parts, c7cur, c7k, c7ran, c7wrote, c7out>>

Finish(out, pc) ==
  /\ c7parts' = Append(c7parts, out) /\ c7done' = Append(c7done, c7cur) /\ c7out' = <<>> /\ c7pc' = pc
  /\ UNCHANGED <<c7mode, c7in, c7cur, c7k, c7ran, c7wrote>>

(* after the handler: the default reply, exactly when the request needs one and the  *)
(* handler did not answer (for the cases the property leaves open: either way)       *)
C07_Default ==
  /\ c7pc = "after"
  /\ LET e == IF "StartAfterHandler" \in C7Dev /\ c7ran THEN Mutated(c7cur.e, c7cur.p.mut) ELSE c7cur.e IN
     \/ /\ ~c7wrote /\ (C07_Needs(e) \/ C07_Free(e))
        /\ \E su \in SUOuts(e) : Finish(Append(c7out, su), "idle")
     \/ /\ (c7wrote \/ ~C07_Needs(e))
        /\ Finish(c7out, "idle")

(* the handler returned a stanza error: it is sent as the error reply of a request   *)
(* that has none yet - or the stream is terminated like for any other error          *)
C07_StanzaError ==
  /\ c7pc = "sfail" /\ ~c7wrote /\ (C07_Needs(c7cur.e) \/ C07_Free(c7cur.e))
  /\ \E se \in SEOuts(c7cur.e) : Finish(Append(c7out, se), "idle")

(* the handler failed: the stream is terminated with a stream error (a default reply *)
(* before it is permitted, not required)                                             *)
C07_StreamError ==
  /\ c7pc \in {"fail", "sfail"}
  /\ \/ /\ ~c7wrote /\ (C07_Needs(c7cur.e) \/ C07_Free(c7cur.e))
        /\ \E su \in SUOuts(c7cur.e) : Finish(c7out \o <<su, <<"serr">> >>, "failed")
     \/ Finish(Append(c7out, <<"serr">>), "failed")

(* deviation: Serve recognises the end of the input with errors.Is(err, io.EOF) - and the error may be the handler's: *)
(* nothing is added, no stream error, Serve returns nil and the stream is closed as if the peer had closed it          *)
C07_TakenForEndOfStream ==
  /\ "EOFLikeEndsServe" \in C7Dev
  /\ c7pc = "handler" /\ c7k > Len(HWrites(c7cur.e, c7cur.p, c7ran)) /\ HRet(c7cur.p, c7ran) \in {"weof"}
  /\ Finish(c7out, "closed")

C07_Next == C07_Take \/ C07_Refuse \/ C07_CloseTag \/ C07_Write \/ C07_Return \/ C07_Default \/ C07_StanzaError \/ C07_StreamError
            \/ C07_TakenForEndOfStream

(* --- properties of part 1 --- *)
IsSU(o) == o[1] \in {"su", "se"}        \* a reply the session added by itself
IsHReply(o, e) == o[1] = "h" /\ C07_IsReply(o[2], e)
Idx(part, P(_)) == {i \in 1..Len(part) : P(part[i])}

(* a handled get/set iq with an id has exactly one reply, unless a stream error ended the stream *)
C07_ExactlyOne ==
  \A i \in 1..Len(c7done) :
    LET e == c7done[i].e  part == c7parts[i]
    IN C07_Needs(e) /\ ~Ends(part) =>
         Cardinality(Idx(part, LAMBDA o : IsSU(o) \/ IsHReply(o, e))) = 1
(* never the handler's reply and the default reply, never two default replies; and    *)
(* while the handler runs nothing but its own elements is written                     *)
C07_NeverBoth ==
  /\ \A i \in 1..Len(c7done) :
       LET e == c7done[i].e  part == c7parts[i]
       IN /\ ~(Idx(part, IsSU) # {} /\ Idx(part, LAMBDA o : IsHReply(o, e)) # {})
          /\ Cardinality(Idx(part, IsSU)) <= 1
  /\ Idx(c7out, IsSU) = {}
(* result/error iqs and other stanzas never trigger an automatic reply *)
C07_NoReplyToReply ==
  \A i \in 1..Len(c7done) :
    LET e == c7done[i].e
    IN ~C07_Needs(e) /\ ~C07_Free(e) => Idx(c7parts[i], IsSU) = {}
(* the default reply carries the request's id and goes to its sender: to the address  *)
(* the request named as from (never to the request's own addressee), to nobody only   *)
(* when the request named no sender or the session's own bare address                 *)
C07_Addressed ==
  \A i \in 1..Len(c7done) : \A a \in Idx(c7parts[i], IsSU) :
    LET e == c7done[i].e  su == c7parts[i][a]
    IN /\ su \in SUOuts(e) \cup SEOuts(e)
       /\ su[2] = e.id
       /\ (e.from \notin {"none", "own"} => su[3] = e.from)
       /\ (e.from = "none" => su[3] = "none")
(* the reply-seen flag means: the handler wrote THE reply *)
C07_FlagExact ==
  c7pc \in {"handler", "after", "fail", "sfail"} =>
    (c7wrote <=> Idx(c7out, LAMBDA o : IsHReply(o, c7cur.e)) # {})
(* the machine produces exactly the outputs the reference function allows *)
C07_IsReplies ==
  c7pc \in {"idle", "closed", "failed"} => C7Wire \in C07_RepliesSeq(c7done, c7mode)

---------------------------------------------------------------------------
(*                               PART 2 - C08                                        *)
(* The serve loop invokes the handler once per top-level element in arrival order,   *)
(* giving it the element's start tag and exactly the tokens up to its end tag (never *)
(* past it); whatever the handler consumed, the next invocation begins at the next   *)
(* top-level element; on stanzas a from equal to the session's own bare address is   *)
(* presented as empty. Stream-level constructs (stream errors, restarts, other       *)
(* stream-namespace elements, comments, processing instructions, directives,         *)
(* non-whitespace text between elements) never reach a handler: they end the session *)
(* with an error (a received stream error is returned as such); whitespace           *)
(* keep-alives are ignored; the peer's closing tag ends Serve without error.         *)
(*                                                                                   *)
(* PENDING REQUESTS (session 4).  An IQ of type result / error that answers a request *)
(* the application has pending (SendIQ, UnmarshalIQ, IterIQ ... waiting) is not given  *)
(* to the handler: the serve loop hands it to the waiting requester, which reads as   *)
(* much of it as it likes and closes it; the loop then goes on behind its end tag.    *)
(* Such a response is an element like any other for everything this part says: the    *)
(* handler's next invocation begins at the next top-level element, and a stream-level *)
(* construct at any depth INSIDE it ends the session with an error - whether the      *)
(* requester read up to it, beyond it (it cannot: it gets an error), or not at all -  *)
(* and nothing behind it is handled.  Items of kind "resp"; the requester's reads are *)
(* chosen freely (C8WReads).                                                          *)

(* Tokens inside an element: <<"s", name>> <<"e", name>> <<"t">> text <<"w">>        *)
(* whitespace, and - placed there by a misbehaving peer - a stream-level construct   *)
(* <<"c", kind>> or a mismatched end tag <<"bad">>. The element's own end tag is     *)
(* <<"E">>.                                                                          *)
ConstructKinds == {"comment", "pi", "directive", "serr", "restart", "otherstream"}
IsStop(tok) == tok[1] \in {"c", "bad"}

(* items of the input; from "none" | "peer" | "own" (the bare form of the session's    *)
(* own address) | "ownfull" | "was" (the bare form of an address that is not the      *)
(* session's (any more))                                                              *)
Elem(kind, from, body) == [k |-> "el", kind |-> kind, from |-> from, body |-> body]  \* kind "stanza" | "foreign" | "resp" (the response to a pending request)
ToHandler(it) == it.k = "el" /\ it.kind # "resp"
(* "utext" is text made of Unicode spaces that are NOT XML white space (U+00A0, U+2003, U+2028, U+3000, U+0085), "mtext" the  *)
(* same mixed with XML white space: both are non-whitespace text between elements.                                   *)
(* "ws" "text" "comment" "pi" "directive" "restart" "otherstream" "close" "eof" "badtop" arrive from the peer;  *)
(* "lclose" is a step of the LOCAL side between two arrivals: it calls Close() (its output stream ends)      *)
Top(k) == [k |-> k]
SErr(cond) == [k |-> "serr", cond |-> cond]
Arrives(it) == it.k # "lclose"

Window(el) == Append(el.body, <<"E">>)
StopIdx(el) == {i \in 1..Len(el.body) : IsStop(el.body[i])}
HasStop(el) == StopIdx(el) # {}
FirstStop(el) == CHOOSE i \in StopIdx(el) : \A j \in StopIdx(el) : i <= j
(* the exact token sequence a handler can obtain before any error *)
C08_Pre(el) == IF HasStop(el) THEN SubSeq(el.body, 1, FirstStop(el) - 1) ELSE Window(el)

(* the address a from symbol stands for on session s: <<form, address symbol>> *)
FromAddr(from, s) == CASE from = "own"     -> <<"bare", Local(s)>>
                       [] from = "ownfull" -> <<"full", Local(s)>>
                       [] from = "was"     -> <<"bare", Was(s)>>
                       [] OTHER            -> <<from, "-">>
(* from as presented to the handler: equal to the bare form of the address the       *)
(* session has NOW (however it got it: constructor, peer's header, binding), on a    *)
(* stanza, it becomes empty; anything else is presented as sent; on other elements   *)
(* the property says nothing about the own address ("any")                           *)
C08_From(el, s) == IF FromAddr(el.from, s) = <<"bare", Local(s)>>
                   THEN (IF el.kind = "stanza" THEN "empty" ELSE "any") ELSE el.from

(* items that end the session. The local side's Close() is not one of them, and the  *)
(* rules below do not depend on whether it happened: Serve continues until the peer  *)
(* ends the stream                                                                   *)
Terminates(it) == it.k \notin {"el", "ws", "lclose"} \/ (it.k = "el" /\ HasStop(it))
RECURSIVE UpToFirst(_)
UpToFirst(items) ==     \* the items that are looked at: up to and including the first terminating one
  IF items = <<>> THEN <<>>
  ELSE IF Terminates(items[1]) THEN <<items[1]>> ELSE <<items[1]>> \o UpToFirst(Tail(items))

(* the handler invocations for an input *)
C08_Invocations(items, s) ==
  LET seen == SelectSeq(UpToFirst(items), ToHandler)
  IN [i \in 1..Len(seen) |-> [kind |-> seen[i].kind, from |-> C08_From(seen[i], s),
                               pre |-> C08_Pre(seen[i]), stop |-> HasStop(seen[i])]]

(* Serve's outcome class: <<"nil">>, <<"serr", cond>>, <<"err">>. Where the statement is     *)
(* silent (the transport ends without a closing tag) both nil and an error are       *)
(* accepted; a stream error element met inside a stanza may be reported as itself.   *)
C08_Outcomes(items) ==
  LET u == UpToFirst(items)
      last == u[Len(u)]
  IN IF u = <<>> \/ ~Terminates(last) THEN {<<"nil">>, <<"err">>}          \* input simply ends: like "eof"
     ELSE CASE last.k = "close" -> {<<"nil">>}
            [] last.k = "eof"   -> {<<"nil">>, <<"err">>}
            [] last.k = "serr"  -> {<<"serr", last.cond>>}
            [] last.k = "el"    -> IF last.body[FirstStop(last)] = <<"c", "serr">>
                                   THEN {<<"err">>, <<"serr", "nested">>} ELSE {<<"err">>}
            [] OTHER            -> {<<"err">>}

(* handler program: n read attempts; on a read error it stops ("stop") or carries on *)
(* ("ignore"); end-of-element reports are not errors. It returns nil - or, in mode    *)
(* "stopeof" (otherwise like "stop"), io.EOF: "the handler reached the end of its     *)
(* element (or chose to report it)", eg the io.EOF of a sub-reader over one child; it *)
(* is no statement about the stream and changes nothing.                              *)
Prog8(n, mode) == [n |-> n, mode |-> mode]
Stops(p) == p.mode \in {"stop", "stopeof"}
(* what the handler observes, as far as the property determines it: the tokens of    *)
(* pre (at most n), then - if it asked for more - an error (element with a stop) or  *)
(* end-of-element reports; after an error that it ignores, what it reads is not      *)
(* determined ("free" tail), except that it stays inside the element                 *)
C08_Events(inv, p) ==
  LET m == Min(p.n, Len(inv.pre))
      head == [i \in 1..m |-> inv.pre[i]]
  IN IF p.n <= Len(inv.pre) THEN [ev |-> head, free |-> 0]
     ELSE IF inv.stop THEN [ev |-> Append(head, <<"err">>),
                            free |-> IF p.mode = "ignore" THEN p.n - m - 1 ELSE 0]
     ELSE [ev |-> head \o [i \in 1..(p.n - m) |-> <<"eof">>], free |-> 0]

CONSTANTS C8Inputs,   \* set of inputs (sequences of items) the design check feeds
          C8Progs,    \* set of program cycles (non-empty sequences of programs)
          C8Sess,     \* set of sessions
          C8WReads,   \* numbers of read attempts a waiting requester may make on the response it is handed
          C8Dev       \* named deviations of part 2 ({} in design checks): "HandoffNotSticky" = an error of the stream met
                      \* inside a response that was handed to a requester is reported to the requester only

VARIABLES c8sess,   \* the session (constant during a run)
          c8oclosed,\* the local side has closed its output stream
          c8in,     \* the whole input (constant during a run)
          c8progs,  \* the program cycle
          c8i,      \* index of the next top-level item
          c8pc,     \* "top" | "handler" | "skip" | "done"
          c8pos,    \* tokens of the current element consumed from the stream
          c8left,   \* read attempts the handler has left
          c8stuck,  \* a stream-level construct / malformation was met inside the element
          c8log,    \* invocations: [kind, from, ev (what the handler observed), item (index)]
          c8wlog,   \* hand-offs to waiting requesters: [ev (what the requester observed), item (index)]
          c8out     \* Serve's outcome class, <<"none">> while running
c8vars == <<c8sess, c8oclosed, c8in, c8progs, c8i, c8pc, c8pos, c8left, c8stuck, c8log, c8wlog, c8out>>

C08_Init ==
  /\ c8sess \in C8Sess /\ c8oclosed = FALSE
  /\ c8in \in C8Inputs /\ c8progs \in C8Progs
  /\ c8i = 1 /\ c8pc = "top" /\ c8pos = 0 /\ c8left = 0 /\ c8stuck = FALSE /\ c8log = <<>> /\ c8wlog = <<>> /\ c8out = <<"none">>

CurEl == c8in[c8i]
CurProg == c8progs[((Len(c8log) - 1) % Len(c8progs)) + 1]
EndWith(o) == c8pc' = "done" /\ c8out' = o

(* handleInputStream reads the next top-level token *)
C08_TopToken ==
  /\ c8pc = "top"
  /\ IF c8i > Len(c8in) THEN      \* the transport ends without a closing tag
       /\ \E o \in {<<"nil">>, <<"err">>} : EndWith(o)
       /\ UNCHANGED <<c8sess, c8oclosed, c8in, c8progs, c8i, c8pos, c8left, c8stuck, c8log, c8wlog>>
     ELSE LET it == c8in[c8i] IN
       CASE it.k = "ws" ->       \* keep-alive
              /\ c8i' = c8i + 1 /\ UNCHANGED <<c8sess, c8oclosed, c8in, c8progs, c8pc, c8pos, c8left, c8stuck, c8log, c8wlog, c8out>>
         [] it.k = "lclose" ->   \* not a token: the local side calls Close(); Serve carries on reading
              /\ c8oclosed' = TRUE /\ c8i' = c8i + 1
              /\ UNCHANGED <<c8sess, c8in, c8progs, c8pc, c8pos, c8left, c8stuck, c8log, c8wlog, c8out>>
         [] it.k = "el" /\ it.kind = "resp" ->   \* the response to a pending request: handed to the requester that waits for it
              /\ c8wlog' = Append(c8wlog, [ev |-> <<>>, item |-> c8i])
              /\ c8pc' = "waiter" /\ c8pos' = 0 /\ c8stuck' = FALSE
              /\ c8left' \in C8WReads
              /\ UNCHANGED <<c8sess, c8oclosed, c8in, c8progs, c8i, c8log, c8out>>
         [] it.k = "el" /\ it.kind # "resp" ->       \* a top-level element: the handler is invoked with its start tag
              /\ c8log' = Append(c8log, [kind |-> it.kind, from |-> C08_From(it, c8sess), ev |-> <<>>, item |-> c8i])
              /\ c8pc' = "handler" /\ c8pos' = 0 /\ c8stuck' = FALSE
              /\ c8left' = c8progs[(Len(c8log) % Len(c8progs)) + 1].n
              /\ UNCHANGED <<c8sess, c8oclosed, c8in, c8progs, c8i, c8wlog, c8out>>
         [] it.k = "close" -> EndWith(<<"nil">>) /\ UNCHANGED <<c8sess, c8oclosed, c8in, c8progs, c8i, c8pos, c8left, c8stuck, c8log, c8wlog>>
         [] it.k = "eof" -> (\E o \in {<<"nil">>, <<"err">>} : EndWith(o))
                            /\ UNCHANGED <<c8sess, c8oclosed, c8in, c8progs, c8i, c8pos, c8left, c8stuck, c8log, c8wlog>>
         [] it.k = "serr" -> EndWith(<<"serr", it.cond>>) /\ UNCHANGED <<c8sess, c8oclosed, c8in, c8progs, c8i, c8pos, c8left, c8stuck, c8log, c8wlog>>
         [] OTHER -> EndWith(<<"err">>) /\ UNCHANGED <<c8sess, c8oclosed, c8in, c8progs, c8i, c8pos, c8left, c8stuck, c8log, c8wlog>>

Observe(e) == c8log' = [c8log EXCEPT ![Len(c8log)].ev = Append(@, e)]
WObserve(e) == c8wlog' = [c8wlog EXCEPT ![Len(c8wlog)].ev = Append(@, e)]
StopOutcomes(tok) == IF tok = <<"c", "serr">> THEN {<<"err">>, <<"serr", "nested">>} ELSE {<<"err">>}

(* the requester asks for one more token of the response; at the first error it gives up *)
C08_WaiterRead ==
  /\ c8pc = "waiter" /\ c8left > 0 /\ ~c8stuck
  /\ c8left' = c8left - 1
  /\ LET w == Window(CurEl) IN
     IF c8pos >= Len(w) THEN WObserve(<<"eof">>) /\ UNCHANGED <<c8pos, c8stuck>>
     ELSE IF IsStop(w[c8pos + 1]) THEN WObserve(<<"err">>) /\ c8stuck' = TRUE /\ c8pos' = c8pos + 1
     ELSE WObserve(w[c8pos + 1]) /\ c8pos' = c8pos + 1 /\ UNCHANGED c8stuck
  /\ UNCHANGED <<c8sess, c8oclosed, c8in, c8progs, c8i, c8pc, c8log, c8out>>

(* the requester closes the response: a construct it met ends the session (the error is the stream's, not the      *)
(* requester's); otherwise the serve loop skips the rest of the response                                            *)
C08_WaiterDone ==
  /\ c8pc = "waiter" /\ (c8left = 0 \/ c8stuck)
  /\ IF c8stuck /\ "HandoffNotSticky" \notin C8Dev THEN
       /\ \E o \in StopOutcomes(CurEl.body[FirstStop(CurEl)]) : EndWith(o)
       /\ UNCHANGED <<c8sess, c8oclosed, c8in, c8progs, c8i, c8pos, c8left, c8stuck, c8log, c8wlog>>
     ELSE c8pc' = "skip" /\ UNCHANGED <<c8sess, c8oclosed, c8in, c8progs, c8i, c8pos, c8left, c8stuck, c8log, c8wlog, c8out>>

(* the handler asks for one more token of its element *)
C08_HandlerRead ==
  /\ c8pc = "handler" /\ c8left > 0 /\ ~(c8stuck /\ Stops(CurProg))
  /\ c8left' = c8left - 1
  /\ LET w == Window(CurEl) IN
     IF c8stuck THEN      \* after an ignored error nothing is promised about what it reads (<<"free">>),
        /\ Observe(<<"free">>) /\ UNCHANGED <<c8pos, c8stuck>>      \* except: nothing beyond the element (driver-checked)
     ELSE IF c8pos >= Len(w) THEN Observe(<<"eof">>) /\ UNCHANGED <<c8pos, c8stuck>>
     ELSE IF IsStop(w[c8pos + 1]) THEN
        /\ Observe(<<"err">>) /\ c8stuck' = TRUE /\ c8pos' = c8pos + 1
     ELSE Observe(w[c8pos + 1]) /\ c8pos' = c8pos + 1 /\ UNCHANGED c8stuck
  /\ UNCHANGED <<c8sess, c8oclosed, c8in, c8progs, c8i, c8pc, c8wlog, c8out>>

(* a handler in "stop" mode gives up reading at the first error *)
C08_HandlerStops ==
  /\ c8pc = "handler" /\ c8left > 0 /\ c8stuck /\ Stops(CurProg)
  /\ c8left' = 0 /\ UNCHANGED <<c8sess, c8oclosed, c8in, c8progs, c8i, c8pc, c8pos, c8stuck, c8log, c8wlog, c8out>>

(* the handler returns nil: a construct it met ends the session; otherwise the rest  *)
(* of the element is skipped                                                         *)
C08_HandlerReturn ==
  /\ c8pc = "handler" /\ c8left = 0
  /\ IF c8stuck THEN
       /\ \E o \in (IF CurEl.body[FirstStop(CurEl)] = <<"c", "serr">> THEN {<<"err">>, <<"serr", "nested">>} ELSE {<<"err">>}) :
            EndWith(o)
       /\ UNCHANGED <<c8sess, c8oclosed, c8in, c8progs, c8i, c8pos, c8left, c8stuck, c8log, c8wlog>>
     ELSE c8pc' = "skip" /\ UNCHANGED <<c8sess, c8oclosed, c8in, c8progs, c8i, c8pos, c8left, c8stuck, c8log, c8wlog, c8out>>

(* advance to the end of the element *)
C08_Skip ==
  /\ c8pc = "skip"
  /\ LET w == Window(CurEl) IN
     IF c8pos >= Len(w) THEN
        /\ c8pc' = "top" /\ c8i' = c8i + 1 /\ UNCHANGED <<c8sess, c8oclosed, c8in, c8progs, c8pos, c8left, c8stuck, c8log, c8wlog, c8out>>
     ELSE IF IsStop(w[c8pos + 1]) /\ ~("HandoffNotSticky" \in C8Dev /\ CurEl.kind = "resp") THEN
        /\ \E o \in StopOutcomes(w[c8pos + 1]) : EndWith(o)
        /\ UNCHANGED <<c8sess, c8oclosed, c8in, c8progs, c8i, c8pos, c8left, c8stuck, c8log, c8wlog>>
     ELSE c8pos' = c8pos + 1 /\ UNCHANGED <<c8sess, c8oclosed, c8in, c8progs, c8i, c8pc, c8left, c8stuck, c8log, c8wlog, c8out>>

C08_Next == C08_TopToken \/ C08_HandlerRead \/ C08_HandlerStops \/ C08_HandlerReturn \/ C08_WaiterRead \/ C08_WaiterDone \/ C08_Skip

(* --- properties of part 2 --- *)
Toks(ev) == SelectSeq(ev, LAMBDA e : e[1] \notin {"err", "eof", "free"})
RECURSIVE IsSubseq(_, _)
IsSubseq(a, b) ==      \* a is a subsequence of b
  IF a = <<>> THEN TRUE ELSE IF b = <<>> THEN FALSE
  ELSE IF Head(a) = Head(b) THEN IsSubseq(Tail(a), Tail(b)) ELSE IsSubseq(a, Tail(b))

(* a handler never obtains a token beyond its element's end tag: what it obtained    *)
(* are tokens of the element's window, in order; without error exactly a prefix      *)
C08_ElementWindow ==
  \A i \in 1..Len(c8log) :
    LET el == c8in[c8log[i].item]  got == Toks(c8log[i].ev)
    IN /\ IsSubseq(got, Window(el))
       /\ (\A j \in 1..Len(c8log[i].ev) : c8log[i].ev[j] # <<"err">>) => got = SubSeq(Window(el), 1, Len(got))
       /\ Len(got) <= Len(Window(el))
(* the i-th invocation is for the i-th top-level element, whatever was consumed before *)
C08_NextStartsAtNext ==
  LET els == {j \in 1..Len(c8in) : ToHandler(c8in[j])}
  IN \A i \in 1..Len(c8log) :
       /\ c8log[i].item \in els
       /\ Cardinality({j \in els : j < c8log[i].item}) = i - 1
C08_FromNormalised ==
  \A i \in 1..Len(c8log) :
    LET el == c8in[c8log[i].item]
    IN el.kind = "stanza" =>
         /\ (FromAddr(el.from, c8sess) = <<"bare", Local(c8sess)>> => c8log[i].from = "empty")
         /\ (FromAddr(el.from, c8sess) # <<"bare", Local(c8sess)>> => c8log[i].from = el.from)
(* stream-level input never reaches a handler: no construct is ever observed as a    *)
(* token, nothing is delivered after the first terminating item, and such an item    *)
(* ends the session with an error                                                    *)
C08_StreamLevelNeverDelivered ==
  /\ \A i \in 1..Len(c8log) : \A j \in 1..Len(c8log[i].ev) : ~IsStop(c8log[i].ev[j])
  /\ \A i \in 1..Len(c8wlog) : \A j \in 1..Len(c8wlog[i].ev) : ~IsStop(c8wlog[i].ev[j])
  /\ \A i \in 1..Len(c8wlog) : \A j \in 1..(c8wlog[i].item - 1) : ~Terminates(c8in[j])
  /\ \A i \in 1..Len(c8log) : \A j \in 1..(c8log[i].item - 1) : ~Terminates(c8in[j])
  /\ (c8pc = "done" /\ c8i <= Len(c8in) /\ c8in[c8i].k \notin {"close", "eof"} => c8out # <<"nil">>)
(* a response to a pending request goes to the requester, everything else to the handler; each exactly once *)
C08_ResponseToRequester ==
  /\ \A i \in 1..Len(c8log) : ToHandler(c8in[c8log[i].item])
  /\ \A i \in 1..Len(c8wlog) : c8in[c8wlog[i].item].k = "el" /\ c8in[c8wlog[i].item].kind = "resp"
  /\ \A i, j \in 1..Len(c8wlog) : i < j => c8wlog[i].item < c8wlog[j].item
  /\ (c8pc = "done" => Len(c8wlog) = Len(SelectSeq(UpToFirst(c8in), LAMBDA it : it.k = "el" /\ it.kind = "resp")))
C08_CloseTagEndsNil ==
  c8pc = "done" /\ c8i <= Len(c8in) /\ c8in[c8i].k = "close" => c8out = <<"nil">>
(* the local side's Close() changes nothing of the above: the handler invocations and *)
(* Serve's outcome are those of the same arrivals without it, whether the output      *)
(* stream was open or closed when the terminating item arrived                        *)
C08_LocalCloseIrrelevant ==
  c8pc = "done" =>
    LET arr == SelectSeq(c8in, Arrives) IN
    /\ c8out \in C08_Outcomes(arr)
    /\ Len(c8log) = Len(C08_Invocations(arr, c8sess))
    /\ (c8oclosed /\ c8i <= Len(c8in) /\ c8in[c8i].k \notin {"close", "eof"} => c8out # <<"nil">>)
(* the machine agrees with the reference functions the vectors are made from *)
C08_IsReference ==
  c8pc = "done" =>
    /\ c8out \in C08_Outcomes(c8in)
    /\ LET inv == C08_Invocations(c8in, c8sess) IN
       /\ Len(c8log) = Len(inv)
       /\ \A i \in 1..Len(inv) :
            LET p == c8progs[((i - 1) % Len(c8progs)) + 1]
                x == C08_Events(inv[i], p)
            IN /\ c8log[i].kind = inv[i].kind /\ c8log[i].from = inv[i].from
               /\ Len(c8log[i].ev) <= Len(x.ev) + x.free
               /\ SubSeq(c8log[i].ev, 1, Len(x.ev)) = x.ev

(* --- the two parts as separate specifications over one set of variables --- *)
C07_Idle == /\ c7mode = "plain" /\ c7in = <<>> /\ c7done = <<>> /\ c7parts = <<>> /\ c7cur = NoItem /\ c7pc = "off"
            /\ c7k = 1 /\ c7ran = TRUE /\ c7wrote = FALSE /\ c7out = <<>>
C08_Idle == /\ c8sess = Sess("c2s", "custom", "same", FALSE) /\ c8oclosed = FALSE /\ c8in = <<>> /\ c8progs = <<>> /\ c8i = 1 /\ c8pc = "off" /\ c8pos = 0 /\ c8left = 0
            /\ c8stuck = FALSE /\ c8log = <<>> /\ c8wlog = <<>> /\ c8out = <<"none">>
Init7 == C07_Init /\ C08_Idle
Next7 == C07_Next /\ UNCHANGED c8vars
Init8 == C08_Init /\ C07_Idle
Next8 == C08_Next /\ UNCHANGED c7vars

=============================================================================
