------------------------------ MODULE Styling ------------------------------
(* C17 - the message-styling decoder is lossless, chunk-independent and well-bracketed. *)
(*                                                                                      *)
(* This module is a MONITOR of the decoder's token stream, not a second XEP-0393        *)
(* parser: the property does not ask for XEP-correct tokenisation, so which characters  *)
(* become directives is left entirely to the implementation.  The monitor keeps the     *)
(* bookkeeping the property talks about - how much of the input has been given back,    *)
(* which spans are open - and accepts one observation of the decoder                    *)
(*    (Next() = true; Token().Data, Style(), Quote(), Token().Info)                     *)
(* iff every clause of the property still holds after it.  Step is a total function     *)
(* from monitor state and observation to monitor state; a state with why # "" is a      *)
(* rejection and names the violated clause.                                             *)
(*                                                                                      *)
(* Observations (events):                                                               *)
(*   [ev |-> "tok", data |-> <<octets>>, m |-> <<style bit names>>, q |-> depth,        *)
(*    info |-> <<octets>>]                                                              *)
(*   [ev |-> "end", panic |-> BOOLEAN, runaway |-> BOOLEAN, err |-> STRING]             *)
(*       Next() returned false (or the library panicked / did not stop within           *)
(*       2 * length + 16 calls)                                                         *)
(*                                                                                      *)
(* A run is one DELIVERY of one document.  The property quantifies over "every way a    *)
(* reader may deliver it in pieces": a delivery is the sequence of results of the Read  *)
(* calls the decoder made - rd[i] = octets handed out up to and including the i-th      *)
(* Read - and the way the end was signalled: "separate" (a last empty read returns      *)
(* io.EOF), "with-data" (the last octets and io.EOF come from the same Read), "none"    *)
(* (the decoder stopped reading before the reader reported the end).  Reads of zero     *)
(* octets without error are legal anywhere.  Chunk independence is a relation between   *)
(* runs of the same document: whatever two legal deliveries are chosen, the observation *)
(* sequences are equal; it is checked against one fixed run (ref) of the document.      *)
EXTENDS Integers, Sequences, FiniteSets, TLC

NL == 10
SpanKinds == {"SpanEmph", "SpanStrong", "SpanStrike", "SpanPre"}
Kinds == SpanKinds \cup {"BlockPre", "BlockQuote"}
StartBit(k) == k \o "Start"
EndBit(k) == k \o "End"
AllBits == Kinds \cup {StartBit(k) : k \in Kinds} \cup {EndBit(k) : k \in Kinds}

ToSet(s) == {s[i] : i \in 1..Len(s)}

(* monitor state.  api = "decoder" (Next/Token/Style/Quote) or "scan" (the bare split   *)
(* function under a bufio.Scanner: data only, so only losslessness and termination)    *)
Start(input, api, ref) ==
  [input |-> input, api |-> api, ref |-> ref, n |-> 0, pos |-> 0, stack |-> <<>>,
   done |-> FALSE, why |-> ""]

Reject(st, why) == [st EXCEPT !.why = why]

(* the io.Reader contract as far as the property's quantifier needs it *)
LegalDelivery(input, rd, eof) ==
  LET n == Len(rd)
      before(i) == IF i = 1 THEN 0 ELSE rd[i - 1]
  IN /\ eof \in {"separate", "with-data", "none"}
     /\ \A i \in 1..n : before(i) <= rd[i] /\ rd[i] <= Len(input)       \* pieces of the input, in order
     /\ (eof = "separate" => n >= 1 /\ rd[n] = Len(input) /\ before(n) = rd[n])
     /\ (eof = "with-data" => n >= 1 /\ rd[n] = Len(input) /\ before(n) < rd[n])
(* a run under a recorded delivery; a delivery that is not legal is the harness's fault, *)
(* not the decoder's: it is reported under its own name and never as a C17 clause        *)
StartD(input, api, ref, rd, eof) ==
  IF LegalDelivery(input, rd, eof) THEN Start(input, api, ref)
  ELSE Reject(Start(input, api, ref), "HARNESS_Delivery: the recorded reads are not a legal delivery of the input")

(* ---- the clauses of the property, one definition each ---- *)

(* "a start or end directive bit implies its style bit" *)
DirectiveImpliesStyle(m) ==
  \A k \in Kinds : (StartBit(k) \in m \/ EndBit(k) \in m) => k \in m

(* the span directives carried by one token (a token is one directive or plain text) *)
SpanStarts(m) == {k \in SpanKinds : StartBit(k) \in m}
SpanEnds(m) == {k \in SpanKinds : EndBit(k) \in m}

(* "the concatenation of its tokens' data equals the input": every token is the next    *)
(* piece of the input *)
NextPiece(st, data) ==
  /\ st.pos + Len(data) <= Len(st.input)
  /\ \A i \in 1..Len(data) : st.input[st.pos + i] = data[i]

EndsLine(data) == Len(data) > 0 /\ data[Len(data)] = NL

(* chunk independence: the k-th observation of this run is the k-th observation of the  *)
(* reference run (same input read in one piece); ref = <<>> for the reference run itself *)
SameAsRef(st, e) ==
  \/ st.ref = <<>>
  \/ /\ st.n + 1 <= Len(st.ref)
     /\ LET r == st.ref[st.n + 1] IN
          IF e.ev = "tok"
          THEN r.ev = "tok" /\ r.data = e.data /\ ToSet(r.m) = ToSet(e.m) /\ r.q = e.q /\ r.info = e.info
          ELSE r.ev = "end"

Tok(st, e) ==
  LET m == ToSet(e.m)
      S == SpanStarts(m)
      E == SpanEnds(m)
      top == IF st.stack = <<>> THEN "none" ELSE st.stack[Len(st.stack)]
      popped == IF E = {} THEN st.stack ELSE SubSeq(st.stack, 1, Len(st.stack) - 1)
      stack2 == IF S = {} THEN popped ELSE Append(popped, CHOOSE k \in S : TRUE)
  IN
  IF ~NextPiece(st, e.data) THEN Reject(st, "C17_Lossless: token data is not the next piece of the input")
  ELSE IF ~SameAsRef(st, e) THEN Reject(st, "C17_ChunkIndependent: token differs from the whole-input read")
  ELSE IF st.api = "scan" THEN [st EXCEPT !.n = @ + 1, !.pos = @ + Len(e.data)]
  ELSE IF ~(m \subseteq AllBits) THEN Reject(st, "C17_Bits: unknown style bit")
  ELSE IF ~DirectiveImpliesStyle(m) THEN Reject(st, "C17_DirectiveImpliesStyle: directive bit without its style bit")
  ELSE IF Cardinality(S) + Cardinality(E) > 1 THEN Reject(st, "C17_OneDirective: more than one span directive on one token")
  ELSE IF E # {} /\ top \notin E THEN Reject(st, "C17_Nested: span end does not match the innermost open span")
  ELSE IF S # {} /\ "SpanPre" \in ToSet(st.stack) THEN Reject(st, "C17_NoStartInPre: span start inside a preformatted span")
  ELSE IF "BlockPreStart" \in m /\ "SpanPre" \in ToSet(st.stack) THEN Reject(st, "C17_NoStartInPre: block start inside a preformatted span")
  ELSE IF (S # {} \/ E # {}) /\ "BlockPre" \in m THEN Reject(st, "C17_NoStartInPre: span directive inside a preformatted block")
  ELSE IF EndsLine(e.data) /\ stack2 # <<>> THEN Reject(st, "C17_ClosedBeforeLineEnd: line ends with a span open")
  ELSE [st EXCEPT !.n = @ + 1, !.pos = @ + Len(e.data), !.stack = stack2]

End(st, e) ==
  IF e.panic THEN Reject(st, "C17_NoPanic: the decoder panicked")
  ELSE IF e.runaway THEN Reject(st, "C17_Terminates: Next kept returning true")
  ELSE IF ~SameAsRef(st, e) THEN Reject(st, "C17_ChunkIndependent: fewer tokens than the whole-input read")
  ELSE IF st.pos # Len(st.input) THEN Reject(st, "C17_Lossless: decoding ended before the end of the input")
  ELSE IF st.stack # <<>> THEN Reject(st, "C17_ClosedBeforeLineEnd: input ends with a span open")
  ELSE [st EXCEPT !.n = @ + 1, !.done = TRUE]

Step(st, e) ==
  IF st.why # "" \/ st.done THEN Reject(st, IF st.why # "" THEN st.why ELSE "C17_Terminates: observation after the end")
  ELSE IF e.ev = "tok" THEN Tok(st, e) ELSE End(st, e)

(* the whole judgement as a fold, for named streams *)
RECURSIVE Run(_, _)
Run(st, evs) == IF evs = <<>> THEN st ELSE Run(Step(st, Head(evs)), Tail(evs))
Accepts(input, api, ref, evs) == LET f == Run(Start(input, api, ref), evs) IN f.why = "" /\ f.done
WhyNot(input, api, ref, evs) == Run(Start(input, api, ref), evs).why
WhyNotD(input, api, ref, rd, eof, evs) == Run(StartD(input, api, ref, rd, eof), evs).why

(* ---- the monitor as a state machine driven by an arbitrary token-stream generator ---- *)
CONSTANTS Inputs,     \* set of inputs (sequences of octets)
          Masks,      \* set of style masks (sequences of bit names) the generator may attach
          MaxTok,     \* longest token the generator produces
          MaxEvents   \* longest stream the generator produces
VARIABLES st,         \* monitor state
          out,        \* history: concatenation of the data of the accepted tokens
          lastNL      \* history: the last accepted token ended a line
vars == <<st, out, lastNL>>

Init == \E i \in Inputs : st = Start(i, "decoder", <<>>) /\ out = <<>> /\ lastNL = FALSE

(* the generator is free: any piece length (also pieces that are NOT the next piece of   *)
(* the input: one octet altered), any mask, any depth; the monitor judges               *)
GenTok ==
  /\ st.why = "" /\ ~st.done /\ st.n < MaxEvents
  /\ \E len \in 0..MaxTok, m \in Masks, wrong \in BOOLEAN :
       /\ st.pos + len <= Len(st.input)
       /\ (wrong => len > 0)
       /\ LET piece == SubSeq(st.input, st.pos + 1, st.pos + len)
              data == IF wrong THEN [piece EXCEPT ![1] = (@ + 1) % 256] ELSE piece
              e == [ev |-> "tok", data |-> data, m |-> m, q |-> 0, info |-> <<>>]
          IN /\ st' = Step(st, e)
             /\ out' = IF st'.why = "" THEN out \o data ELSE out
             /\ lastNL' = IF st'.why = "" THEN EndsLine(data) ELSE lastNL
GenEnd ==
  /\ st.why = "" /\ ~st.done
  /\ \E p \in BOOLEAN :
       st' = Step(st, [ev |-> "end", panic |-> p, runaway |-> FALSE, err |-> "EOF"])
  /\ UNCHANGED <<out, lastNL>>
Next == GenTok \/ GenEnd
Spec == Init /\ [][Next]_vars

NotRejected == st.why = ""
(* whatever the generator does, a stream the monitor has not rejected satisfies: *)
C17_Lossless == NotRejected => /\ out = SubSeq(st.input, 1, st.pos)
                            /\ (st.done => out = st.input)
C17_WellBracketed ==
  NotRejected => /\ ToSet(st.stack) \subseteq SpanKinds
              /\ \A i \in 1..(Len(st.stack) - 1) : st.stack[i] # "SpanPre"      \* nothing opened inside a pre span
              /\ (lastNL => st.stack = <<>>)                                      \* closed before the line ends
              /\ (st.done => st.stack = <<>>)
(* an accepted token never carries a directive without its style, two span directives,  *)
(* or a span start while a pre span is open: stated over the step just taken            *)
C17_StepRules ==
  [][(st'.why = "" /\ ~st'.done) =>
        /\ Len(st'.stack) <= Len(st.stack) + 1
        /\ (Len(st'.stack) > Len(st.stack) => "SpanPre" \notin ToSet(st.stack))]_vars
=============================================================================
