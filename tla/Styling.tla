------------------------------ MODULE Styling ------------------------------
(* C17 - the message-styling decoder is lossless, chunk-independent and well-bracketed. *)
(*                                                                                      *)
(* This module is a MONITOR of the decoder's token stream, not a second XEP-0393        *)
(* parser: the property does not ask for XEP-correct tokenisation, so which characters  *)
(* become directives is left entirely to the implementation.  The monitor keeps the     *)
(* bookkeeping the property talks about - how much of the input has been given back,    *)
(* which spans are open - and accepts one observation of the decoder                    *)
(*    (Next() = true; Token().Data, Style(), Quote(), Token().Info)                     *)
(* iff every clause of the property still holds after it.  Step is a total function     *)
(* from monitor state and observation to monitor state; a state with why # "" is a      *)
(* rejection and names the violated clause.                                             *)
(*                                                                                      *)
(* Observations (events):                                                               *)
(*   [ev |-> "tok", data |-> <<octets>>, m |-> <<style bit names>>, q |-> depth,        *)
(*    info |-> <<octets>>]                                                              *)
(*   [ev |-> "end", panic |-> BOOLEAN, runaway |-> BOOLEAN, err |-> STRING]             *)
(*       Next() returned false (or the library panicked / did not stop within           *)
(*       2 * length + 16 calls)                                                         *)
(*                                                                                      *)
(* A run is one DELIVERY of one document.  The property quantifies over "every way a    *)
(* reader may deliver it in pieces": a delivery is the sequence of results of the Read  *)
(* calls the decoder made - rd[i] = octets handed out up to and including the i-th      *)
(* Read - and the way the end was signalled: "separate" (a last empty read returns      *)
(* io.EOF), "with-data" (the last octets and io.EOF come from the same Read), "none"    *)
(* (the decoder stopped reading before the reader reported the end).  Reads of zero     *)
(* octets without error are legal anywhere.  Chunk independence is a relation between   *)
(* runs of the same document: whatever two legal deliveries are chosen, the observation *)
(* sequences are equal; it is checked against one fixed run (ref) of the document.      *)
(*                                                                                      *)
(* VERY LONG LINES.  The property's quantifier names them explicitly; a line of several *)
(* mebioctets cannot be written down octet by octet.  A document (and every token's     *)
(* data) therefore has two FORMS: "octets" - a sequence of octets, as above - and        *)
(* "runs" - a sequence of runs <<octet, count>> standing for count copies of the octet.  *)
(* The run-length form is a lossless encoding, not an abstraction: every clause below is *)
(* stated for both forms (length = sum of the counts; concatenation = merge of adjacent  *)
(* runs of the same octet; "is the next piece of the input" = equality of the normal     *)
(* forms of the token's runs and of the runs cut out of the input at the monitor's       *)
(* position).  Counts are plain integers, so a line of 2^24 + 1 octets costs the monitor *)
(* as much as a line of three.                                                           *)
EXTENDS Integers, Sequences, FiniteSets, TLC

NL == 10

(* ---- the run-length form ---- *)
Octet(r) == r[1]
Count(r) == r[2]
WellFormedRuns(r) == \A i \in 1..Len(r) : Len(r[i]) = 2 /\ Octet(r[i]) \in 0..255 /\ Count(r[i]) \in Nat
RECURSIVE RLen(_)
RLen(r) == IF r = <<>> THEN 0 ELSE Count(Head(r)) + RLen(Tail(r))
(* normal form: no empty run, adjacent runs carry different octets.  Two run sequences   *)
(* stand for the same octet string iff their normal forms are equal.                    *)
RECURSIVE RNorm(_)
RNorm(r) ==
  IF r = <<>> THEN <<>>
  ELSE IF Count(Head(r)) = 0 THEN RNorm(Tail(r))
  ELSE LET t == RNorm(Tail(r)) IN
       IF t # <<>> /\ Octet(t[1]) = Octet(Head(r))
       THEN <<(<<Octet(Head(r)), Count(Head(r)) + Count(t[1])>>)>> \o Tail(t)
       ELSE <<Head(r)>> \o t
(* concatenation of octet strings = merge of adjacent equal runs *)
RCat(a, b) == RNorm(a \o b)
(* the octets from + 1 .. from + len of r (fewer when r is shorter) *)
RECURSIVE RSub(_, _, _)
RSub(r, from, len) ==
  IF len <= 0 \/ r = <<>> THEN <<>>
  ELSE LET c == Count(Head(r)) IN
       IF from >= c THEN RSub(Tail(r), from - c, len)
       ELSE LET take == IF c - from < len THEN c - from ELSE len IN
            <<(<<Octet(Head(r)), take>>)>> \o RSub(Tail(r), 0, len - take)
RLastOctet(r) == LET n == RNorm(r) IN IF n = <<>> THEN -1 ELSE Octet(n[Len(n)])
(* the octet string a run sequence stands for (design check only: short documents) *)
RECURSIVE RExpand(_)
RExpand(r) == IF r = <<>> THEN <<>> ELSE [i \in 1..Count(Head(r)) |-> Octet(Head(r))] \o RExpand(Tail(r))

(* length / equality / concatenation of documents and token data in either form *)
DLen(rle, d) == IF rle THEN RLen(d) ELSE Len(d)
DSame(rle, a, b) == IF rle THEN RNorm(a) = RNorm(b) ELSE a = b
DCat(rle, a, b) == IF rle THEN RCat(a, b) ELSE a \o b
DPrefix(rle, d, n) == IF rle THEN RNorm(RSub(d, 0, n)) ELSE SubSeq(d, 1, n)
DWhole(rle, d) == IF rle THEN RNorm(d) ELSE d
SpanKinds == {"SpanEmph", "SpanStrong", "SpanStrike", "SpanPre"}
Kinds == SpanKinds \cup {"BlockPre", "BlockQuote"}
StartBit(k) == k \o "Start"
EndBit(k) == k \o "End"
AllBits == Kinds \cup {StartBit(k) : k \in Kinds} \cup {EndBit(k) : k \in Kinds}

ToSet(s) == {s[i] : i \in 1..Len(s)}

(* monitor state.  api = "decoder" (Next/Token/Style/Quote) or "scan" (the bare split   *)
(* function under a bufio.Scanner: data only, so only losslessness and termination)    *)
(* rle: the document, the data and info of every observation (and of ref) are in the     *)
(* run-length form                                                                      *)
StartF(rle, input, api, ref) ==
  [input |-> input, rle |-> rle, api |-> api, ref |-> ref, n |-> 0, pos |-> 0, stack |-> <<>>,
   done |-> FALSE, why |-> ""]
Start(input, api, ref) == StartF(FALSE, input, api, ref)

Reject(st, why) == [st EXCEPT !.why = why]

(* the io.Reader contract as far as the property's quantifier needs it *)
(* (size = length of the document in octets) *)
LegalDeliveryN(size, rd, eof) ==
  LET n == Len(rd)
      before(i) == IF i = 1 THEN 0 ELSE rd[i - 1]
  IN /\ eof \in {"separate", "with-data", "none"}
     /\ \A i \in 1..n : before(i) <= rd[i] /\ rd[i] <= size               \* pieces of the input, in order
     /\ (eof = "separate" => n >= 1 /\ rd[n] = size /\ before(n) = rd[n])
     /\ (eof = "with-data" => n >= 1 /\ rd[n] = size /\ before(n) < rd[n])
LegalDelivery(input, rd, eof) == LegalDeliveryN(Len(input), rd, eof)
(* a run under a recorded delivery; a delivery that is not legal is the harness's fault, *)
(* not the decoder's: it is reported under its own name and never as a C17 clause        *)
StartDF(rle, input, api, ref, rd, eof) ==
  IF rle /\ ~WellFormedRuns(input)
  THEN Reject(StartF(rle, <<>>, api, ref), "HARNESS_Runs: the recorded document is not a sequence of <<octet, count>> runs")
  ELSE IF LegalDeliveryN(DLen(rle, input), rd, eof) THEN StartF(rle, input, api, ref)
  ELSE Reject(StartF(rle, input, api, ref), "HARNESS_Delivery: the recorded reads are not a legal delivery of the input")
StartD(input, api, ref, rd, eof) == StartDF(FALSE, input, api, ref, rd, eof)

(* ---- the clauses of the property, one definition each ---- *)

(* "a start or end directive bit implies its style bit" *)
DirectiveImpliesStyle(m) ==
  \A k \in Kinds : (StartBit(k) \in m \/ EndBit(k) \in m) => k \in m

(* the span directives carried by one token (a token is one directive or plain text) *)
SpanStarts(m) == {k \in SpanKinds : StartBit(k) \in m}
SpanEnds(m) == {k \in SpanKinds : EndBit(k) \in m}

(* "the concatenation of its tokens' data equals the input": every token is the next    *)
(* piece of the input *)
NextPiece(st, data) ==
  IF st.rle
  THEN /\ WellFormedRuns(data)
       /\ st.pos + RLen(data) <= RLen(st.input)
       /\ RNorm(RSub(st.input, st.pos, RLen(data))) = RNorm(data)       \* prefix test over runs
  ELSE /\ st.pos + Len(data) <= Len(st.input)
       /\ \A i \in 1..Len(data) : st.input[st.pos + i] = data[i]

EndsLine(data) == Len(data) > 0 /\ data[Len(data)] = NL
EndsLineF(rle, data) == IF rle THEN RLastOctet(data) = NL ELSE EndsLine(data)

(* chunk independence: the k-th observation of this run is the k-th observation of the  *)
(* reference run (same input read in one piece); ref = <<>> for the reference run itself *)
SameAsRef(st, e) ==
  \/ st.ref = <<>>
  \/ /\ st.n + 1 <= Len(st.ref)
     /\ LET r == st.ref[st.n + 1] IN
          IF e.ev = "tok"
          THEN r.ev = "tok" /\ DSame(st.rle, r.data, e.data) /\ ToSet(r.m) = ToSet(e.m) /\ r.q = e.q /\ DSame(st.rle, r.info, e.info)
          ELSE r.ev = "end"

Tok(st, e) ==
  LET m == ToSet(e.m)
      S == SpanStarts(m)
      E == SpanEnds(m)
      top == IF st.stack = <<>> THEN "none" ELSE st.stack[Len(st.stack)]
      popped == IF E = {} THEN st.stack ELSE SubSeq(st.stack, 1, Len(st.stack) - 1)
      stack2 == IF S = {} THEN popped ELSE Append(popped, CHOOSE k \in S : TRUE)
  IN
  IF ~NextPiece(st, e.data) THEN Reject(st, "C17_Lossless: token data is not the next piece of the input")
  ELSE IF ~SameAsRef(st, e) THEN Reject(st, "C17_ChunkIndependent: token differs from the whole-input read")
  ELSE IF st.api = "scan" THEN [st EXCEPT !.n = @ + 1, !.pos = @ + DLen(st.rle, e.data)]
  ELSE IF ~(m \subseteq AllBits) THEN Reject(st, "C17_Bits: unknown style bit")
  ELSE IF ~DirectiveImpliesStyle(m) THEN Reject(st, "C17_DirectiveImpliesStyle: directive bit without its style bit")
  ELSE IF Cardinality(S) + Cardinality(E) > 1 THEN Reject(st, "C17_OneDirective: more than one span directive on one token")
  ELSE IF E # {} /\ top \notin E THEN Reject(st, "C17_Nested: span end does not match the innermost open span")
  ELSE IF S # {} /\ "SpanPre" \in ToSet(st.stack) THEN Reject(st, "C17_NoStartInPre: span start inside a preformatted span")
  ELSE IF "BlockPreStart" \in m /\ "SpanPre" \in ToSet(st.stack) THEN Reject(st, "C17_NoStartInPre: block start inside a preformatted span")
  ELSE IF (S # {} \/ E # {}) /\ "BlockPre" \in m THEN Reject(st, "C17_NoStartInPre: span directive inside a preformatted block")
  ELSE IF EndsLineF(st.rle, e.data) /\ stack2 # <<>> THEN Reject(st, "C17_ClosedBeforeLineEnd: line ends with a span open")
  ELSE [st EXCEPT !.n = @ + 1, !.pos = @ + DLen(st.rle, e.data), !.stack = stack2]

End(st, e) ==
  IF e.panic THEN Reject(st, "C17_NoPanic: the decoder panicked")
  ELSE IF e.runaway THEN Reject(st, "C17_Terminates: Next kept returning true")
  ELSE IF ~SameAsRef(st, e) THEN Reject(st, "C17_ChunkIndependent: fewer tokens than the whole-input read")
  ELSE IF st.pos # DLen(st.rle, st.input) THEN Reject(st, "C17_Lossless: decoding ended before the end of the input")
  ELSE IF st.stack # <<>> THEN Reject(st, "C17_ClosedBeforeLineEnd: input ends with a span open")
  ELSE [st EXCEPT !.n = @ + 1, !.done = TRUE]

Step(st, e) ==
  IF st.why # "" \/ st.done THEN Reject(st, IF st.why # "" THEN st.why ELSE "C17_Terminates: observation after the end")
  ELSE IF e.ev = "tok" THEN Tok(st, e) ELSE End(st, e)

(* the whole judgement as a fold, for named streams *)
RECURSIVE Run(_, _)
Run(st, evs) == IF evs = <<>> THEN st ELSE Run(Step(st, Head(evs)), Tail(evs))
Accepts(input, api, ref, evs) == LET f == Run(Start(input, api, ref), evs) IN f.why = "" /\ f.done
WhyNot(input, api, ref, evs) == Run(Start(input, api, ref), evs).why
WhyNotD(input, api, ref, rd, eof, evs) == Run(StartD(input, api, ref, rd, eof), evs).why
(* the same for a document and observations in the run-length form *)
AcceptsR(input, api, ref, evs) == LET f == Run(StartF(TRUE, input, api, ref), evs) IN f.why = "" /\ f.done
WhyNotR(input, api, ref, evs) == Run(StartF(TRUE, input, api, ref), evs).why
WhyNotDF(rle, input, api, ref, rd, eof, evs) == Run(StartDF(rle, input, api, ref, rd, eof), evs).why

(* ---- the monitor as a state machine driven by an arbitrary token-stream generator ---- *)
CONSTANTS Inputs,     \* set of inputs (sequences of octets)
          Masks,      \* set of style masks (sequences of bit names) the generator may attach
          MaxTok,     \* longest token the generator produces
          MaxEvents,  \* longest stream the generator produces
          RInputs,    \* set of inputs in the run-length form (sequences of <<octet, count>>)
          RMasks,     \* style masks the generator attaches to tokens of those
          RMaxEvents  \* longest stream the generator produces over those
VARIABLES st,         \* monitor state
          out,        \* history: concatenation of the data of the accepted tokens (in the form of the input)
          lastNL      \* history: the last accepted token ended a line
vars == <<st, out, lastNL>>

Init == /\ \/ \E i \in Inputs : st = Start(i, "decoder", <<>>)
           \/ \E i \in RInputs : st = StartF(TRUE, i, "decoder", <<>>)
        /\ out = <<>> /\ lastNL = FALSE

(* the generator is free: any piece length (also pieces that are NOT the next piece of   *)
(* the input: one octet altered), any mask, any depth; the monitor judges               *)
GenTok ==
  /\ ~st.rle
  /\ st.why = "" /\ ~st.done /\ st.n < MaxEvents
  /\ \E len \in 0..MaxTok, m \in Masks, wrong \in BOOLEAN :
       /\ st.pos + len <= Len(st.input)
       /\ (wrong => len > 0)
       /\ LET piece == SubSeq(st.input, st.pos + 1, st.pos + len)
              data == IF wrong THEN [piece EXCEPT ![1] = (@ + 1) % 256] ELSE piece
              e == [ev |-> "tok", data |-> data, m |-> m, q |-> 0, info |-> <<>>]
          IN /\ st' = Step(st, e)
             /\ out' = IF st'.why = "" THEN out \o data ELSE out
             /\ lastNL' = IF st'.why = "" THEN EndsLine(data) ELSE lastNL

(* the same generator over documents in the run-length form.  Runs may be of any length  *)
(* (2^20 + 1 ...), so the generator cannot try every token length: a token ends at a run *)
(* boundary of the document, one octet before or after one, or within MaxTok octets of   *)
(* the monitor's position.  The piece is handed over in normal form, with its first run  *)
(* split in two (not normal: legal), with its first octet altered, or with one octet     *)
(* more / one octet fewer in its first run than the document has there (wrong unless the *)
(* result happens to be the next piece all the same: the monitor judges).               *)
RECURSIVE RBounds(_, _)
RBounds(r, at) == IF r = <<>> THEN {at} ELSE {at} \cup RBounds(Tail(r), at + Count(Head(r)))
REnds(input, pos) ==
  {x \in {b + d : b \in RBounds(input, 0), d \in {-1, 0, 1}} \cup {pos + d : d \in 0..MaxTok} :
      pos <= x /\ x <= RLen(input)}
RShapes == {"normal", "split", "octet", "longer", "shorter"}
RShape(piece, shape) ==
  IF piece = <<>> THEN (IF shape = "longer" THEN <<(<<NL, 1>>)>> ELSE <<>>)
  ELSE LET h == Head(piece) IN
       CASE shape = "normal" -> piece
         [] shape = "split" -> IF Count(h) >= 2 THEN <<(<<Octet(h), 1>>), (<<Octet(h), Count(h) - 1>>)>> \o Tail(piece)
                               ELSE <<(<<Octet(h), 0>>)>> \o piece
         [] shape = "octet" -> <<(<<(Octet(h) + 1) % 256, Count(h)>>)>> \o Tail(piece)
         [] shape = "longer" -> <<(<<Octet(h), Count(h) + 1>>)>> \o Tail(piece)
         [] shape = "shorter" -> <<(<<Octet(h), Count(h) - 1>>)>> \o Tail(piece)
GenTokR ==
  /\ st.rle
  /\ st.why = "" /\ ~st.done /\ st.n < RMaxEvents
  /\ \E x \in REnds(st.input, st.pos), m \in RMasks, shape \in RShapes :
       LET data == RShape(RSub(st.input, st.pos, x - st.pos), shape)
           e == [ev |-> "tok", data |-> data, m |-> m, q |-> 0, info |-> <<>>]
       IN /\ st' = Step(st, e)
          /\ out' = IF st'.why = "" THEN RCat(out, data) ELSE out
          /\ lastNL' = IF st'.why = "" THEN EndsLineF(TRUE, data) ELSE lastNL
GenEnd ==
  /\ st.why = "" /\ ~st.done
  /\ \E p \in BOOLEAN :
       st' = Step(st, [ev |-> "end", panic |-> p, runaway |-> FALSE, err |-> "EOF"])
  /\ UNCHANGED <<out, lastNL>>
Next == GenTok \/ GenTokR \/ GenEnd
Spec == Init /\ [][Next]_vars

NotRejected == st.why = ""
(* whatever the generator does, a stream the monitor has not rejected satisfies: *)
C17_Lossless == NotRejected => /\ out = DPrefix(st.rle, st.input, st.pos)
                            /\ (st.done => out = DWhole(st.rle, st.input))
(* the run-length form is faithful: what the monitor accepted over runs is, octet by     *)
(* octet, a prefix of the document (checked by expansion wherever the document is short  *)
(* enough to be written out)                                                             *)
MaxExpand == 64
C17_RunsFaithful ==
  (NotRejected /\ st.rle /\ RLen(st.input) <= MaxExpand) =>
     /\ RExpand(out) = SubSeq(RExpand(st.input), 1, st.pos)
     /\ (st.done => RExpand(out) = RExpand(st.input))
     /\ (lastNL => (st.pos > 0 /\ RExpand(st.input)[st.pos] = NL))
C17_WellBracketed ==
  NotRejected => /\ ToSet(st.stack) \subseteq SpanKinds
              /\ \A i \in 1..(Len(st.stack) - 1) : st.stack[i] # "SpanPre"      \* nothing opened inside a pre span
              /\ (lastNL => st.stack = <<>>)                                      \* closed before the line ends
              /\ (st.done => st.stack = <<>>)
(* an accepted token never carries a directive without its style, two span directives,  *)
(* or a span start while a pre span is open: stated over the step just taken            *)
C17_StepRules ==
  [][(st'.why = "" /\ ~st'.done) =>
        /\ Len(st'.stack) <= Len(st.stack) + 1
        /\ (Len(st'.stack) > Len(st.stack) => "SpanPre" \notin ToSet(st.stack))]_vars
=============================================================================
