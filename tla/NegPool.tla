------------------------------ MODULE NegPool ------------------------------
(* Feature kinds used by the design check, the scenario generator and the Go driver *)
(* (emitted as JSON by EmitNegPool so that the driver has no copy of its own).      *)
K(id, nec, pro, neg, rst, mask, lreq) ==
  [id |-> id, nec |-> nec, pro |-> pro, neg |-> neg, rst |-> rst, mask |-> mask, lreq |-> lreq]
(* The four built-in shapes (STARTTLS, SASL, bind, informational) plus kinds chosen *)
(* so that every attribute value and the interesting pairs occur.                   *)
PoolQuick == {
  K("tls",  {}, {"Secure"}, TRUE, TRUE, {"Secure"}, TRUE),
  K("sasl", {"Secure"}, {"Authn"}, TRUE, TRUE, {"Authn"}, TRUE),
  K("bind", {"Authn"}, {"Ready"}, TRUE, FALSE, {"Ready"}, TRUE),
  K("info", {"Secure"}, {"Authn"}, FALSE, FALSE, {}, FALSE),
  K("vol",  {}, {}, TRUE, FALSE, {}, FALSE),
  K("vauth", {}, {}, TRUE, FALSE, {"Authn"}, FALSE),
  K("mpro", {}, {"Authn"}, TRUE, FALSE, {}, TRUE),
  K("vrst", {}, {}, TRUE, TRUE, {}, FALSE),
  (* a feature whose step reports Ready although nobody has to negotiate it, and a feature *)
  (* "switched off" by prohibiting one of its own necessary bits (never eligible)          *)
  K("vready", {}, {}, TRUE, FALSE, {"Ready"}, FALSE),
  K("off", {"Secure"}, {"Secure"}, TRUE, FALSE, {"Authn"}, TRUE) }
PoolThorough == PoolQuick \cup {
  K("vsec", {}, {}, TRUE, FALSE, {"Secure"}, FALSE),
  K("nsec", {"Secure"}, {}, TRUE, FALSE, {}, FALSE),
  K("nauth", {"Authn"}, {}, TRUE, FALSE, {}, TRUE),
  K("psec", {}, {"Secure"}, TRUE, FALSE, {}, FALSE),
  K("rauth", {"Secure"}, {"Authn"}, TRUE, FALSE, {"Authn"}, TRUE),
  K("rrst", {}, {"Authn"}, TRUE, TRUE, {"Authn"}, TRUE),
  K("minfo", {}, {}, FALSE, FALSE, {}, TRUE),
  K("both", {"Secure"}, {"Ready"}, TRUE, TRUE, {"Secure", "Authn"}, FALSE) }
(* the smallest pool in which every code-like deviation of Negotiation.tla shows (non-vacuity runs) *)
PoolTiny == {k \in PoolQuick : k.id \in {"vol", "bind", "tls"}}
InitBitsAll == { {}, {"Secure"}, {"Secure", "Authn"} }
=============================================================================
