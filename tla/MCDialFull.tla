----------------------------- MODULE MCDialFull -----------------------------
(* The larger scenario universes of the thorough tier (kept out of MCDial.tla: TLC evaluates *)
(* every constant definition of a module at start-up).                                      *)
EXTENDS MCDialQuick

SrvThree == SrvProduct({Base, Cfg("dial", TRUE, FALSE, FALSE, "custom", FALSE)}, AnsUpTo({"tls", "tlsbad", "refuse"}, 3), AnsUpTo({"plain", "refuse"}, 3))
SrvConfigs == SrvProduct(ConfigsAll, AnsUpTo({"tls", "tlsbad", "plain", "refuse"}, 2), AnsUpTo({"plain", "refuse"}, 2))
SrvCancelFull == WithCancel(SrvProduct({Base, Cfg("dial", TRUE, TRUE, FALSE, "default", FALSE)}, AnsUpTo({"tls", "tlsbad", "refuse"}, 2), AnsUpTo({"plain", "refuse"}, 2)))
WsFull == WsProduct(Docs(LinkTypes, 3)) \cup WsOther
PartsFull == <<SrvBase, SrvSmall, SrvCancel, SrvThree, SrvConfigs, SrvCancelFull, WsFull>>
SpecFull == InitOver(PartsFull) /\ [][Next]_vars
=============================================================================
