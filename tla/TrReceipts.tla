----------------------------- MODULE TrReceipts -----------------------------
(* Trace validation of recorded schedules of the real receipts.Handler         *)
(* (harness/cmd/receipts) against the OBSERVER layer of Receipts.              *)
EXTENDS Receipts, Json

Trace == ndJsonDeserialize("trace.ndjson")
VARIABLES l, t0
tvars == <<vars, l, t0>>
Starts == {i \in 1..Len(Trace) : Trace[i].ev = "reset"}
EndOf(i) == Trace[i].end
IsEv(e) == l < EndOf(t0) /\ Trace[l].ev = e /\ l' = l + 1
E == Trace[l]
Id(x) == IF x \in Reqs THEN x ELSE Unknown

TInit == t0 \in Starts /\ l = t0 /\ Init

(* the reset line carries the configuration of the handler (Unhandled callback set or not) *)
TrReset == l = t0 /\ IsEv("reset") /\ hasUnh = E.unh /\ UNCHANGED ovars
TrCall == IsEv("call") /\ E.i \in Reqs /\ OCall(E.i) /\ UNCHANGED nenv
TrWire == IsEv("wire") /\ E.i \in Reqs /\ OWire(E.i) /\ UNCHANGED nenv
TrCancel == IsEv("cancel") /\ E.i \in Reqs /\ OCancel(E.i) /\ UNCHANGED nenv
TrCloseOut == IsEv("closeout") /\ OCloseOut /\ UNCHANGED nenv
TrPeer == IsEv("peer") /\ OPeer(Id(E.id)) /\ UNCHANGED nenv
TrUnhandled == IsEv("unhandled") /\ OUnhandled(Id(E.id)) /\ UNCHANGED nenv
TrHandled == IsEv("handled") /\ (\E taken \in BOOLEAN : OHandled(Id(E.id), taken)) /\ UNCHANGED nenv
TrRet == IsEv("ret") /\ E.i \in Reqs /\ ORet(E.i, E.o) /\ UNCHANGED nenv
TrQuiet == IsEv("quiet") /\ OQuiet /\ UNCHANGED nenv
TrServeRet == IsEv("serve_ret") /\ UNCHANGED ovars
(* "panic" and "stuck" events have no action: a run that contains one is rejected there *)
TrEnd == IsEv("end") /\ Quiescent /\ UNCHANGED ovars

TNext ==
  /\ l < EndOf(t0)
  /\ \/ TrReset \/ TrCall \/ TrWire \/ TrCancel \/ TrCloseOut \/ TrPeer \/ TrUnhandled \/ TrHandled
     \/ TrRet \/ TrQuiet \/ TrServeRet \/ TrEnd
  /\ UNCHANGED <<t0, mvars>>
  /\ viol' = {}

TSpec == TInit /\ [][TNext]_tvars
HW == TLCSet(t0, IF TLCGet(t0) < l THEN l ELSE TLCGet(t0))
Rejected == {i \in Starts : TLCGet(i) # EndOf(i)}
Accepted ==
  \/ Rejected = {}
  \/ PrintT(<<"REJECTED", {<<Trace[i].t, TLCGet(i)>> : i \in Rejected}>>) /\ FALSE
ASSUME \A i \in Starts : TLCSet(i, 0)
=============================================================================
