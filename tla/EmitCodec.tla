----------------------------- MODULE EmitCodec -----------------------------
(* Pipeline B of the codec family: TLC enumerates the abstract value sets of          *)
(* Stanza.tla / Codec.tla and writes them as ndjson vectors, together with the        *)
(* meaning of the symbols.                                                            *)
EXTENDS Codec, Json, SequencesExt

CONSTANT EmitTypes          \* the types to emit

Vec(ty) == ndJsonSerialize("vec_" \o ty \o ".ndjson", SetToSeq({[ty |-> ty, v |-> x] : x \in Values(ty)}))

ASSUME JsonSerialize("symbols.json", Symbols)
ASSUME \A ty \in EmitTypes : Vec(ty) /\ PrintT(<<"EMITTED", ty, Cardinality(Values(ty))>>)
VARIABLE x
Init == x = 0
Next == UNCHANGED x
=============================================================================
