------------------------------- MODULE TrXMPP -------------------------------
(* Trace validation of whole sessions of the real library (harness/cmd/lifecycle:   *)
(* one trace per session side) against XMPP.tla.  Batch scheme of TrOutput /        *)
(* TrCorrelate: one initial state per trace, per-trace high-water register.         *)
EXTENDS XMPP, Json

Trace == ndJsonDeserialize("trace.ndjson")
VARIABLES l, t0
tvars == <<vars, l, t0>>
Starts == {i \in 1..Len(Trace) : Trace[i].ev = "reset"}
EndOf(i) == Trace[i].end
IsEv(e) == l < EndOf(t0) /\ Trace[l].ev = e /\ l' = l + 1
IsHook(pt) == IsEv("hook") /\ Trace[l].point = pt
ToSet(s) == {s[i] : i \in 1..Len(s)}
E == Trace[l]

NegBits == {"Secure", "Authn", "Ready"}
AddrOf(e) == [local |-> e.local, remote |-> e.remote, into |-> e.into, infrom |-> e.infrom,
              outto |-> e.outto, outfrom |-> e.outfrom]

TInit ==
  /\ t0 \in Starts /\ l = t0
  /\ role = "init" /\ bits = {} /\ result = "none" /\ ncur = "none" /\ refused = FALSE
  /\ addr = [local |-> "?", remote |-> "?"] /\ estab = [local |-> "none", remote |-> "none"]
  /\ prog = [p \in Procs |-> <<>>] /\ cur = [p \in Procs |-> NoCall] /\ lock = "free" /\ wire = <<>>
  /\ rets = [p \in Procs |-> <<>>]
  /\ sv = [phase |-> "idle", reason |-> "none", owner |-> "none", pending |-> 0]
  /\ inbox = <<>> /\ script = <<>>
  /\ table = {} /\ cancelled = {} /\ outcome = [i \in Reqs |-> None] /\ rid = None /\ claim = None
  /\ delivered = [i \in Reqs |-> <<>>] /\ handled = 0 /\ deadline = FALSE
  /\ fserve = "no" /\ fdeliv = 0

ProgOf(r, p) == IF \E i \in 1..Len(r.progs) : r.progs[i].p = p
                THEN r.progs[CHOOSE i \in 1..Len(r.progs) : r.progs[i].p = p].calls
                ELSE <<>>
TrReset ==
  /\ l = t0 /\ IsEv("reset")
  /\ role' = E.role /\ bits' = ToSet(E.initbits)
  /\ prog' = [p \in Procs |-> ProgOf(E, p)]
  /\ addr' = [local |-> E.local0, remote |-> E.remote0]     \* what the caller of NewSession supplied ("none": learnt later)
  /\ UNCHANGED <<result, ncur, refused, estab, cur, lock, wire, rets, sv, pvars, cvars, handled, deadline, fvars>>

(* ------------------------------- negotiating ---------------------------------- *)
TrNegotiate == IsEv("negotiate") /\ ToSet(E.bits) = bits /\ NegCall(E.f)
TrNegRet == IsEv("negret") /\ NegRet(E.f, E.ok, [local |-> E.local, remote |-> E.remote])
TrFault == IsEv("fault") /\ UNCHANGED vars
TrRefuse == IsEv("refuse") /\ NegRefuse
(* NewSession / ReceiveSession returns: the outcome, the state bits and the addresses   *)
(* the session reports from now on                                                      *)
TrReturn ==
  /\ IsEv("return") /\ result # "none"
  /\ (E.ok <=> result = "ok")
  /\ ToSet(E.bits) = bits
  /\ (E.ok => E.local = addr.local /\ E.remote = addr.remote)
  /\ addr' = AddrOf(E)
  /\ IF E.ok THEN estab' = AddrOf(E) ELSE UNCHANGED estab
  /\ UNCHANGED <<role, bits, result, ncur, refused, ovars, pvars, cvars, handled, deadline, fvars>>

(* ----------------------------- a failed session ------------------------------- *)
(* whatever the transmit entry points, UpdateAddr and Close do with it is allowed;   *)
(* Serve must not deliver anything                                                   *)
TrFCall == IsEv("call") /\ Failed /\ (IF E.k = "serve" THEN FServeStart ELSE FTouch(addr))
TrFOther == (IsEv("ret") \/ IsEv("write") \/ IsEv("hook")) /\ Failed /\ FTouch(addr)
TrFHandler == IsEv("handler") /\ Failed /\ FHandle
TrFServeRet == IsEv("serve_ret") /\ Failed /\ FServeRet(E.class) /\ "Ready" \notin ToSet(E.bits)

(* ------------------------- established .. closed ------------------------------ *)
TrCall == IsEv("call") /\ ~Failed /\ Begin(E.p) /\ cur'[E.p].k = E.k
TrRet ==
  /\ IsEv("ret") /\ ~Failed
  /\ LET p == E.p IN
     CASE E.k = "req" ->     \* the request call returned to its caller
            /\ outcome[p] = E.outcome
            /\ (E.outcome = "reply" => E.rid = p)
            /\ UNCHANGED vars
       [] E.k = "updaddr" ->
            /\ cur[p].k = "updaddr" /\ cur[p].st = "returning"
            /\ cur[p].class = (IF E.ok THEN "ok" ELSE "refused")
            /\ Ret(p)
       [] OTHER ->
            /\ cur[p].k = E.k /\ cur[p].st = "returning" /\ cur[p].class = E.class
            /\ Ret(p)
TrWrite ==
  /\ IsEv("write") /\ ~Failed
  /\ \/ E.what = "elem" /\ TxWrite(E.p)
     \/ E.what = "close" /\ CloseWrite(E.p)
     \/ E.what = "err" /\ ErrWrite(E.p)
HookKind(pt) == CASE pt = "senderr.enter" -> "senderr"
                  [] pt = "closeinput.enter" -> "closeinput"
                  [] pt = "close.enter" -> "close"
                  [] pt = "tokenwriter.enter" -> "tx"
                  [] OTHER -> "none"
ReqHooks == {"resp.registered", "resp.sent", "resp.woke", "resp.deregistered",
             "serve.lookup", "serve.handoff", "serve.handed", "serve.ctxdone", "serve.resume"}
(* hooks of the serving goroutine mark the start of the calls Serve issues itself *)
TrHook ==
  /\ IsEv("hook") /\ ~Failed /\ E.point \notin ReqHooks
  /\ LET p == E.p
         k == HookKind(E.point) IN
     IF p = sv.owner /\ sv.phase \notin {"idle", "done"} /\ k # "none"
     THEN Begin(p) /\ cur'[p].k = k
     ELSE UNCHANGED vars
TrRegistered == IsHook("resp.registered") /\ ~Failed /\ Register(E.p)
TrSent == IsHook("resp.sent") /\ ~Failed /\ cur[E.p].k = "req" /\ cur[E.p].st = "returning" /\ cur[E.p].class = "nil" /\ Ret(E.p)
TrWoke ==
  /\ IsHook("resp.woke") /\ ~Failed
  /\ \/ cur[E.p].k = "wait" /\ cur[E.p].st = "got" /\ UNCHANGED vars
     \/ CtxDone(E.p)
TrDeregistered == IsHook("resp.deregistered") /\ ~Failed /\ Deregister(E.p)
TrLookup == IsHook("serve.lookup") /\ ~Failed /\ rid = E.id /\ Lookup
TrOffer == IsHook("serve.handoff") /\ ~Failed /\ sv.phase = "offer" /\ UNCHANGED vars
TrHanded == IsHook("serve.handed") /\ ~Failed /\ sv.phase = "handed" /\ UNCHANGED vars
TrCtxDone == IsHook("serve.ctxdone") /\ ~Failed /\ Skip
TrResume == IsHook("serve.resume") /\ ~Failed /\ UNCHANGED vars
TrHandler ==
  /\ IsEv("handler") /\ ~Failed
  /\ "Ready" \in ToSet(E.bits)
  /\ \/ /\ E.item \in {"stanza", "get", "herr"} /\ inbox # <<>>
        /\ (IF inbox # <<>> THEN Head(inbox).t = E.item ELSE FALSE)
        /\ ServeItem(SP)
     \/ E.item = "resp" /\ Handle
TrPeer == IsEv("peer") /\ PeerAny(Item(E.item, E.id))
TrCancel == IsEv("cancel") /\ Cancel(E.i)
TrCloseResp == IsEv("closeresp") /\ CloseResp(E.i)
TrServeRet ==
  /\ IsEv("serve_ret") /\ ~Failed /\ ServeRet(E.p, E.class)
  /\ {"OutClosed", "InClosed"} \subseteq ToSet(E.bits)          \* both directions marked closed
  /\ ToSet(E.bits) \cap NegBits = bits \cap NegBits             \* and nothing was taken back
(* the state at the very end: bits and the six addresses *)
TrFinal ==
  /\ IsEv("final")
  /\ IF Failed THEN "Ready" \notin ToSet(E.bits) /\ (bits \cap NegBits) \subseteq ToSet(E.bits)
     ELSE ToSet(E.bits) = bits /\ AddrOf(E) = estab /\ addr = estab
  /\ UNCHANGED vars
TrEnd ==
  /\ IsEv("end")
  /\ result # "none"
  /\ IF Failed THEN fserve # "running"
     ELSE (\A p \in Procs : cur[p] = NoCall /\ prog[p] = <<>>) /\ sv.phase \in {"idle", "done"}
  /\ UNCHANGED vars

Silent ==
  /\ l > t0 /\ UNCHANGED l
  /\ \/ NegAbort
     \/ \E p \in Procs : \/ Acquire(p) \/ TxRefuse(p) \/ TxDone(p) \/ CloseDone(p) \/ CloseInput(p) \/ Rx(p)
                         \/ UpdAddr(p) \/ SetDeadline(p) \/ ServeStart(p) \/ ServeAbort(p) \/ ServeDeadline(p)
     \/ \E p \in Procs : /\ p = sv.owner /\ sv.phase \notin {"idle", "done"}       \* calls Serve issued itself
                         /\ cur[p].k \in {"tx", "senderr", "closeinput", "close"} /\ Ret(p)
     \/ /\ inbox # <<>> /\ (IF inbox # <<>> THEN Head(inbox).t \in {"close", "streamerr", "eof", "resp"} ELSE FALSE)
        /\ ServeItem(SP)
     \/ Handoff \/ AwaitClose
     \/ \E i \in ToSet(Trace[t0].autoclose) : CloseResp(i)     \* UnmarshalIQ closes the response itself
     \/ \E i \in Reqs : cur[i].k = "req" /\ cur[i].st = "returning" /\ cur[i].class # "nil" /\ Ret(i)   \* failed send

Inv == /\ X_NoTxBeforeEstablished /\ X_NothingAfterClosingTag /\ X_LateCallsRefused /\ X_OkIffReady
       /\ X_OwnReplyOnly /\ X_AtMostOneReply /\ X_OutcomeConsistent /\ X_ServeRetBothClosed
       /\ X_RequestOnlyWhenEstablished /\ X_AddrStable /\ X_UpdateAddrRefused
       /\ (X_FailedNeverServed \/ "ServeUnready" \in Dev)
       /\ X_NoEstablishedAfterFailure /\ X_EstablishedHasAddress

TNext ==
  /\ l < EndOf(t0)
  /\ \/ TrReset \/ TrNegotiate \/ TrNegRet \/ TrFault \/ TrRefuse \/ TrReturn
     \/ TrFCall \/ TrFOther \/ TrFHandler \/ TrFServeRet
     \/ TrCall \/ TrRet \/ TrWrite \/ TrHook \/ TrRegistered \/ TrSent \/ TrWoke \/ TrDeregistered
     \/ TrLookup \/ TrOffer \/ TrHanded \/ TrCtxDone \/ TrResume \/ TrHandler \/ TrPeer \/ TrCancel
     \/ TrCloseResp \/ TrServeRet \/ TrFinal \/ TrEnd \/ Silent
  /\ UNCHANGED t0
  /\ Inv'
  /\ (l > t0 => bits \subseteq bits' /\ Phase' \in PhaseSucc(Phase))          \* X_BitsMonotone, X_PhaseOrder
  /\ (handled' # handled => "Ready" \in bits \/ "ServeUnready" \in Dev)        \* X_ReadyBeforeHandler
  /\ (refused /\ ncur # "none" /\ ncur' = "none" => result' = "err")            \* X_RefusalNotReady
  /\ (l > t0 /\ addr.remote # "none" => addr'.remote = addr.remote)             \* X_RemoteStable

TSpec == TInit /\ [][TNext]_tvars
HW == TLCSet(t0, IF TLCGet(t0) < l THEN l ELSE TLCGet(t0))
Rejected == {i \in Starts : TLCGet(i) # EndOf(i)}
Accepted ==
  \/ Rejected = {}
  \/ PrintT(<<"REJECTED", {<<Trace[i].t, TLCGet(i)>> : i \in Rejected}>>) /\ FALSE
ASSUME \A i \in Starts : TLCSet(i, 0)
=============================================================================
