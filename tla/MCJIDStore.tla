------------------------------ MODULE MCJIDStore ------------------------------
(* Design check of JIDStore.tla (value layer of C11) and emission of its programs. *)
EXTENDS JIDStore, Json
MCBases == {<< <<a>>, <<UU>>, <<EA>> >>, << <<a>>, <<UU>>, <<>> >>, << <<>>, <<UU>>, <<EA, EA>> >>}
MCStoreParts == {<<>>, <<a>>, <<UU>>, <<EA, UU>>}
ASSUME \A b \in MCBases : ClsNew(b[1], b[2], b[3]) = "ok"

(* the programs of the model as data: the k-th operation may use the base and the k-1 earlier results; only *)
(* accepted replacements, so that every operation hands out one more address                               *)
StepOps(k) == {[op |-> o, h |-> i, p |-> p] : o \in Ops, i \in 1..k, p \in MCStoreParts} 
RECURSIVE ProgsOf(_)
ProgsOf(n) == IF n = 0 THEN {<<>>}
              ELSE {Append(q, s) : q \in ProgsOf(n - 1),
                                   s \in {t \in StepOps(n) : /\ (t.op \in {"bare", "domain", "copy"} => t.p = <<>>)
                                                             /\ HopAccepts(t.op, t.p)}}
CONSTANT EmitLen     \* 0: no emission
ASSUME EmitLen = 0 \/ ndJsonSerialize("progs.ndjson",
         SetToSeq({[k |-> "prog", bl |-> b[1], bd |-> b[2], br |-> b[3], ops |-> q] : b \in MCBases, q \in ProgsOf(EmitLen)}))
ASSUME EmitLen = 0 \/ PrintT(<<"EMITTED", Cardinality(MCBases) * Cardinality(ProgsOf(EmitLen))>>)
=============================================================================
