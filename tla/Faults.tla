------------------------------- MODULE Faults -------------------------------
(***************************************************************************)
(* C04: session establishment fails closed under faults.  One side of a    *)
(* handshake (negotiateSession in session.go with the negotiator and the   *)
(* features it runs) seen as a sequence of negotiation steps, with the     *)
(* environment able to cut the peer's byte stream, fail a read or a write, *)
(* or cancel the context at any point before negotiation has completed.    *)
(*   - a fault or a cancellation before completion => a non-nil error, the *)
(*     session is not ready, no later step succeeds;                       *)
(*   - an error reported by any step is never swallowed: nil is returned   *)
(*     only if every executed step succeeded;                              *)
(*   - after a cancellation the call returns (on transports with           *)
(*     deadlines) even if the peer stays silent - also when the peer has   *)
(*     stopped reading, and also on the ABORT paths of negotiation (the    *)
(*     peer selected a feature that was not advertised / negotiated        *)
(*     already, sent a stream error, garbage, a bad header ...): whatever  *)
(*     the call still writes then (an error notice to the peer) is part of *)
(*     the call and must not outlive the cancellation either.              *)
(***************************************************************************)
EXTENDS Integers, Sequences, FiniteSets, TLC

CONSTANTS MaxSteps,   \* negotiation steps of the handshake (MC bound)
          Dev

VARIABLES steps,      \* history: outcomes of the executed steps, in order
          inStep,     \* a step is running
          broken,     \* a transport fault was injected (cut / read error / write error)
          cancelled,  \* the context was cancelled
          silent,     \* after the cancellation the peer sends nothing any more
          stuck,      \* ... and it has stopped reading as well (writes to it block until a deadline)
          aborts,     \* the peer's script provokes a stream-level abort of the negotiation
          inAbort,    \* the call has given up for a stream-level reason and is telling the peer so
                      \* (optional: the property does not say whether it does)
          ctxd,       \* the context given to the call carries a (far-off) deadline of its own besides being
                      \* cancellable - nothing the property says depends on it
          ready,      \* the ready bit as reported after the call
          result      \* "none" | "ok" | "err" | "stall"

vars == <<steps, inStep, broken, cancelled, silent, stuck, aborts, inAbort, ctxd, ready, result>>

Init == /\ steps = <<>> /\ inStep = FALSE /\ broken = FALSE /\ cancelled = FALSE
        /\ silent \in BOOLEAN /\ stuck \in BOOLEAN /\ (stuck => silent) /\ aborts \in BOOLEAN /\ inAbort = FALSE
        /\ ctxd \in BOOLEAN /\ ready = FALSE /\ result = "none"

Running == result = "none"

StepBegin == /\ Running /\ ~inStep /\ ~inAbort /\ Len(steps) < MaxSteps /\ inStep' = TRUE
             /\ UNCHANGED <<steps, broken, cancelled, silent, stuck, aborts, inAbort, ctxd, ready, result>>

(* a step that runs into the fault cannot succeed; a cancelled one may still finish  *)
(* if all it needed had already arrived - but then the call as a whole must fail     *)
StepEnd(ok) ==
  /\ Running /\ inStep
  /\ (ok => ~broken \/ "StepSucceedsAfterFault" \in Dev)
  /\ steps' = Append(steps, ok) /\ inStep' = FALSE
  /\ UNCHANGED <<broken, cancelled, silent, stuck, aborts, inAbort, ctxd, ready, result>>

Fault == /\ Running /\ ~broken /\ broken' = TRUE
         /\ UNCHANGED <<steps, inStep, cancelled, silent, stuck, aborts, inAbort, ctxd, ready, result>>

Cancel == /\ Running /\ ~cancelled /\ cancelled' = TRUE
          /\ UNCHANGED <<steps, inStep, broken, silent, stuck, aborts, inAbort, ctxd, ready, result>>

(* The peer has provoked a stream-level abort and the call, between two steps, gives up *)
(* and starts telling the peer (a transport write like any other of the call).          *)
AbortBegin == /\ Running /\ aborts /\ ~inStep /\ ~inAbort /\ inAbort' = TRUE
              /\ UNCHANGED <<steps, inStep, broken, cancelled, silent, stuck, aborts, ctxd, ready, result>>

AllOK == \A i \in 1..Len(steps) : steps[i]

ReturnOK ==
  /\ Running /\ ~inStep /\ ~inAbort
  /\ (AllOK \/ "SwallowStepError" \in Dev)
  /\ (~broken \/ "IgnoreFault" \in Dev)
  /\ (~cancelled \/ "LoseCancellation" \in Dev)
  /\ result' = "ok" /\ ready' = TRUE
  /\ UNCHANGED <<steps, inStep, broken, cancelled, silent, stuck, aborts, inAbort, ctxd>>

ReturnErr ==
  /\ Running
  /\ result' = "err" /\ ready' = ("ReadyOnError" \in Dev)
  /\ UNCHANGED <<steps, inStep, broken, cancelled, silent, stuck, aborts, inAbort, ctxd>>

(* only as a deviation: the call outlives its cancellation because the peer is silent *)
Stall ==
  /\ Running /\ cancelled /\ silent
  /\ \/ "StallAfterCancel" \in Dev
     \/ "DeadlineCtxLosesCancel" \in Dev /\ ctxd       \* only the context's own deadline is watched
     \/ "AbortNoticeOutsideWatch" \in Dev /\ inAbort /\ stuck   \* the abort notice is written after the watch
                                                              \* of the context was taken down: a peer that
                                                              \* does not read blocks it for ever
  /\ result' = "stall"
  /\ UNCHANGED <<steps, inStep, broken, cancelled, silent, stuck, aborts, inAbort, ctxd, ready>>

Next == AbortBegin \/ StepBegin \/ StepEnd(TRUE) \/ StepEnd(FALSE) \/ Fault \/ Cancel \/ ReturnOK \/ ReturnErr \/ Stall
Spec == Init /\ [][Next]_vars
FairSpec == Spec /\ WF_vars(ReturnErr) /\ WF_vars(ReturnOK) /\ WF_vars(StepEnd(FALSE))

C04_FaultImpliesError == result = "ok" => ~broken /\ ~cancelled
C04_NoSwallow == result = "ok" => AllOK
C04_ErrNotReady == result = "err" => ~ready
C04_OkMeansReady == result = "ok" => ready
C04_NoStepSucceedsAfterFault ==
  [][\A o \in BOOLEAN : (broken /\ steps' = Append(steps, o)) => ~o]_vars
C04_NoStall == result # "stall"
C04_Returns == <>(result # "none")
=============================================================================
