---------------------------- MODULE TrPeerInput ----------------------------
(* Pipeline C of C09: the traces recorded by harness/cmd/peerinput on the real library  *)
(* are validated against the run protocol of PeerInput.tla (batch scheme of             *)
(* TrNegotiation: one initial state per trace, register t0 = furthest line consumed).   *)
(* TLC decides C09_NoPanic / C09_Terminates per trace: an outcome PANIC or STALL (or a   *)
(* crash of the process) matches no action - of Serve (each call of it), of a helper /   *)
(* application call, of Close; "end" needs a quiescent state: every call of Serve the    *)
(* life of the session asks for was made and has returned, every call has returned.      *)
EXTENDS PeerInput, Json

Trace == ndJsonDeserialize("trace.ndjson")

VARIABLES l, t0
tvars == <<vars, l, t0>>

Starts == {i \in 1..Len(Trace) : Trace[i].ev = "reset"}
EndOf(i) == Trace[i].end
IsEv(e) == l < EndOf(t0) /\ Trace[l].ev = e /\ l' = l + 1

TInit == /\ t0 \in Starts /\ l = t0
         /\ n = 0 /\ cfg = "listen" /\ life = "fresh" /\ pos = 0 /\ eof = FALSE /\ served = "idle" /\ nserve = 0
         /\ outclosed = FALSE /\ ncalls = 0 /\ nret = 0 /\ loc = "clean" /\ cancelled = FALSE

(* the reset line carries the scenario constants: number of items, handler configuration,    *)
(* the identity of the session (its kind and the class of its local address: one of          *)
(* Sessions) and what the application does with it (its life) - and the session as the        *)
(* driver OBSERVED it after the constructor of the library had returned (oaddr, olocal): the  *)
(* class of its local address and the address itself must be the ones the generator means.    *)
(* Otherwise the construction did not make the session of the scenario: no verdict about the   *)
(* library (a trace rejected HERE is reported as undecided, like a setup that did not          *)
(* establish its state).  In the lives "fresh" and "again" the application calls Serve as      *)
(* soon as the constructor has returned: the reset line stands for that first call as well     *)
(* (ServeStart); every later call of Serve is an event of its own.                             *)
TrReset == /\ l = t0 /\ IsEv("reset")
           /\ n' = Trace[l].n /\ cfg' = Trace[l].cfg /\ cfg' \in Cfgs
           /\ life' = Trace[l].life /\ life' \in Lives /\ n' <= MaxItemsOf(life')
           /\ Sess(Trace[l].kind, Trace[l].addr) \in Sessions
           /\ Trace[l].oaddr = Trace[l].addr /\ Trace[l].olocal = LocalOfAddr(Trace[l].addr)
           /\ (IF life' \in {"fresh", "again"} THEN served' = "running" /\ nserve' = 1 ELSE UNCHANGED <<served, nserve>>)
           /\ UNCHANGED <<pos, eof, outclosed, ncalls, nret, loc, cancelled>>
TrServe == IsEv("serve") /\ ServeStart
TrClose == IsEv("close") /\ LocalClose(Trace[l].out)
TrFeed == IsEv("feed") /\ Feed(Trace[l].i, Trace[l].cut)
(* an application action.  "loc" is the local state of the extension the driver OBSERVED     *)
(* after the action ("?" where it has no means to observe it): it must be the one the run     *)
(* protocol derives.  "est" tells whether the action did what establishes the state (its      *)
(* request went on the wire / it returned without an error): it must have, if the action is   *)
(* part of the scenario's setup.  Otherwise the scenario did not reach the state the          *)
(* generator meant: no verdict about the library - the check reports a trace rejected HERE    *)
(* (and nowhere later with a PANIC / STALL) as undecided, not as a violation.                 *)
TrApp == /\ IsEv("app") /\ AppStart(Trace[l].i, Trace[l].act)
         /\ Trace[l].loc \in {"?", loc'}
         /\ (Trace[l].i >= 1 /\ Trace[l].i <= Trace[t0].setup) => Trace[l].est
TrEof == IsEv("eof") /\ Eof
TrServeRet == IsEv("serve_ret") /\ ServeReturn(Trace[l].out)
TrCancel == IsEv("cancel") /\ Cancel
TrAppRet == IsEv("app_ret") /\ CallReturn(Trace[l].k, Trace[l].out)
(* the end of the run: Serve has returned and so has every call that was started *)
TrEnd == IsEv("end") /\ Quiescent /\ ncalls <= Trace[t0].napp /\ UNCHANGED vars

(* a scenario that stalled under the short watchdog of the first pass and was NOT re-run  *)
(* (more scenarios stalled than the re-run budget): no verdict is derived from it          *)
TrSkipped == IsEv("skipped") /\ l' = EndOf(t0) /\ UNCHANGED vars

TNext == /\ l < EndOf(t0)
         /\ \/ TrReset \/ TrServe \/ TrClose \/ TrFeed \/ TrApp \/ TrEof \/ TrServeRet \/ TrCancel \/ TrAppRet \/ TrEnd
            \/ TrSkipped
         /\ UNCHANGED t0
TSpec == TInit /\ [][TNext]_tvars

HW == TLCSet(t0, IF TLCGet(t0) < l THEN l ELSE TLCGet(t0))
Rejected == {i \in Starts : TLCGet(i) # EndOf(i)}
Accepted == \/ Rejected = {}
            \/ PrintT(<<"REJECTED", {<<Trace[i].t, TLCGet(i)>> : i \in Rejected}>>) /\ FALSE
ASSUME \A i \in Starts : TLCSet(i, 0)
=============================================================================
