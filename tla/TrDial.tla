------------------------------- MODULE TrDial -------------------------------
(* Trace validation of recorded runs of the real dial.Dialer / websocket.Dialer              *)
(* (harness/cmd/dial) against Dial.tla.  One trace per scenario; the reset line carries the  *)
(* scenario.  Events, in the order the fake world saw them (all of them causally ordered:    *)
(* the call under test is sequential after its lookups):                                      *)
(*   lookup   the DNS server sees an SRV question (service, client/server, whose domain)      *)
(*   fetch    the web server sees the host-meta request (ok = the right URL)                  *)
(*   resolve  the DNS server sees the address question for an endpoint's name = an attempt    *)
(*            begins (h = candidate, 0 = the domain itself, -1 = a name nobody should dial);  *)
(*            not recorded once the context is cancelled (the resolver works in the           *)
(*            background then)                                                                *)
(*   connect  the net.Dialer's Control hook: a socket for candidate c, port                   *)
(*   hello    the endpoint sees a TLS ClientHello (sni and alpn classified)                   *)
(*   wsreq    the endpoint sees the WebSocket upgrade request (proto = offers "xmpp")          *)
(*   cancel   the fake world cancels the caller's context                                     *)
(*   ret      the call returned: ok, nilconn, which endpoint answers on the returned          *)
(*            connection (c, mode plain/tls), is it a TLS connection, error class, leaks =    *)
(*            candidates whose socket is still open although it was not returned               *)
(*   end      the driver closed the returned connection                                       *)
(* Steps of the library that the fake world cannot see are silent.                            *)
EXTENDS Dial, Json

Trace == ndJsonDeserialize("trace.ndjson")
VARIABLES l, t0
tvars == <<vars, l, t0>>
Starts == {i \in 1..Len(Trace) : Trace[i].ev = "reset"}
EndOf(i) == Trace[i].end
IsEv(e) == l < EndOf(t0) /\ Trace[l].ev = e /\ l' = l + 1
E == Trace[l]

TInit == /\ t0 \in Starts /\ l = t0 /\ InitWith(Trace[t0])

TrReset == l = t0 /\ IsEv("reset") /\ UNCHANGED vars
TrLookup == IsEv("lookup") /\ E.svc \in {"xmpps", "xmpp"} /\ Ask(IF E.svc = "xmpps" THEN 1 ELSE 2, E.role, E.dom)
TrFetch == IsEv("fetch") /\ Fetch(E.ok)
TrCancel == IsEv("cancel") /\ Cancel
TrResolve == IsEv("resolve") /\ \E c \in AllIds : (IF E.h = 0 THEN IsFallback(c) ELSE c = E.h) /\ Attempt(c)
TrConnect == IsEv("connect") /\ Connect(E.c, E.port)
TrHello == IsEv("hello") /\ Hello(E.c, E.sni, E.alpn)
TrWsReq == IsEv("wsreq") /\ WsReq(E.c, E.proto)
TrRet ==
  /\ IsEv("ret") /\ Return
  /\ E.ok = (res.st = "ok")
  /\ (res.st = "ok" => (~E.nilconn /\ E.c = res.c /\ E.mode = Mode(res.c) /\ E.contls = (Mode(res.c) = "tls")))
  /\ (E.err = "none") = E.ok
  /\ {E.leaks[i] : i \in DOMAIN E.leaks} = open \ (IF res.st = "ok" THEN {res.c} ELSE {})
TrEnd == IsEv("end") /\ pc = "returned" /\ UNCHANGED vars

Silent ==
  /\ \/ \E s \in Svcs : Answer(s) \/ SkipLookup(s)
     \/ StartDial \/ Resolved \/ Connected \/ Shaken \/ Upgraded \/ Succeed \/ Abandon \/ GiveUp
     \/ (cancelled /\ \E c \in AllIds : Attempt(c))
  /\ UNCHANGED l

TNext ==
  /\ l < EndOf(t0)
  /\ \/ TrReset \/ TrLookup \/ TrFetch \/ TrCancel \/ TrResolve \/ TrConnect \/ TrHello \/ TrWsReq \/ TrRet \/ TrEnd
     \/ Silent
  /\ UNCHANGED t0
  /\ Safety'

TSpec == TInit /\ [][TNext]_tvars
HW == TLCSet(t0, IF TLCGet(t0) < l THEN l ELSE TLCGet(t0))
Rejected == {i \in Starts : TLCGet(i) # EndOf(i)}
Accepted ==
  \/ Rejected = {}
  \/ PrintT(<<"REJECTED", {<<Trace[i].t, TLCGet(i)>> : i \in Rejected}>>) /\ FALSE
ASSUME \A i \in Starts : TLCSet(i, 0)
=============================================================================
