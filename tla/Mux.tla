------------------------------- MODULE Mux -------------------------------
(* C14 - the multiplexer always picks the most specific registered handler.          *)
(*                                                                                   *)
(* Code: /repo/mux/mux.go (Handler, IQHandler, MessageHandler, PresenceHandler,      *)
(* iqRouter, msgRouter, presenceRouter, forChildren, bufReader, iqFallback),         *)
(* mux/option.go (Handle, IQ, Message, Presence).                                    *)
(*                                                                                   *)
(* Two layers that TLC proves equal within the bounds:                               *)
(*  1. reference FUNCTIONS (Cascade/Top/IQ/Msg/Pres/Dispatch) that transcribe the    *)
(*     four-step lookup and the per-child dispatch; EmitMux.tla evaluates them to    *)
(*     produce the vectors that the Go driver replays into the real ServeMux;        *)
(*  2. a step machine (Register ... Receive ... Try ... Invoke ...) with one action  *)
(*     per step of the real algorithm (one map lookup per Try, replay buffer),       *)
(*     checked against an independent DECLARATIVE statement of the property:         *)
(*     MostSpecific = CHOOSE of the maximal matching pattern under the specificity   *)
(*     order (C14_MostSpecific), handlers never replaced (C14_RegisterRefuses),      *)
(*     every message/presence handler can read the whole stanza from its start       *)
(*     element whatever earlier handlers consumed (C14_WholeStanza), defaults        *)
(*     (C14_Defaults), and the machine's final log equals Dispatch (C14_IsDispatch). *)
(*                                                                                   *)
(* Alphabet. Names are pairs (sp, lo); "" in a PATTERN is the wildcard. Incoming     *)
(* names always have a non-empty namespace and local name (on a real stream the      *)
(* default namespace is always declared). Kinds: "top" (any non-stanza top-level     *)
(* element, registered with mux.Handle), "iq", "msg", "pres". The stanza namespace   *)
(* is the symbol "NS"; the one Handle pattern that can name it is the namespace-only *)
(* pattern ("NS", ""): a stanza is a top-level element, the top-level table is        *)
(* consulted first, so that pattern takes every stanza. Deliberately outside the alphabet (property silent, see REPORT-serve.md): *)
(* iq stanzas with a missing/unknown type, get/set/error iqs without payload or with *)
(* a text payload (C07/C09 territory), handlers that return errors.                  *)
(*                                                                                   *)
(* NESTED ROUTING (session 4).  A ServeMux is a table that is fixed once it is made;  *)
(* nothing in its documentation restricts it to one stanza at a time: the same       *)
(* multiplexer serves every session of a server, and a handler may hand an embedded  *)
(* stanza (a forwarded message, a carbon copy) to the multiplexer that called it.    *)
(* The machine therefore lets the handler chosen for child payload i of a message /  *)
(* presence A route ANOTHER stanza B through the same table - before it reads what   *)
(* it was handed ("pre") or after ("post") - and go on afterwards: Reenter / Resume,  *)
(* the suspended routing of A is the frame `outer`.  Every property is stated per    *)
(* stanza (owner[i] says which one invocation i belongs to): B's handlers are handed *)
(* the whole B, A's handlers - also those of the children after i - the whole A from *)
(* its start element, and the invocations of each are those it has alone.            *)
(* Deviation "SharedBuffer" (code-like: the replay buffer's storage belongs to the    *)
(* multiplexer and is reused by the next stanza) must violate C14_WholeStanza.       *)
(*                                                                                   *)
(* CONSTRUCTION (session 4).  ServeMux is an exported struct whose zero value is      *)
(* usable and an Option is an exported func on a pointer to it: a multiplexer is made *)
(* "new" mux.New(ns, options...), "zero" options applied to &mux.ServeMux{} (the     *)
(* pattern tables are allocated lazily for exactly that), "late" mux.New(ns) and the *)
(* options applied to the result afterwards, "afteruse" some patterns registered,    *)
(* an element routed, then the remaining patterns registered (Reopen).  What is      *)
(* looked up depends on the table alone: no property below mentions ctor.            *)
(* Deviation "RoutersMadeByNew" (code-like: the three stanza routers are values made *)
(* once by New) must violate C14_Defaults / C14_IsDispatch for ctor = "zero".        *)
EXTENDS Integers, Sequences, FiniteSets, TLC

CONSTANTS Universe,    \* patterns that may be registered (bound of the design check)
          Elements,    \* incoming elements (bound of the design check)
          Hids,        \* handler identities available for registration
          Progs,       \* "all" | "few" | "L": which consumption programs the design check explores
          Inner,       \* stanzas a message / presence handler may route through the same multiplexer ({}: no nested routing)
          Ctors,       \* ways the multiplexer is made (see CONSTRUCTION below)
          Dev          \* named deviations ({}: the property)

---------------------------------------------------------------------------
(* Names, patterns, elements *)

Nm(sp, lo) == [sp |-> sp, lo |-> lo]
Pat(k, t, sp, lo) == [kind |-> k, type |-> t, sp |-> sp, lo |-> lo]
NoPat == Pat("none", "", "", "")
PName(p) == Nm(p.sp, p.lo)
NoName == Nm("", "")

Txt == Nm("#", "t")                \* a (non-whitespace) text child
IsTxt(c) == c.sp = "#"

StanzaKinds == {"iq", "msg", "pres"}
(* element: [kind, sp, lo (top-level name; for stanzas sp = "NS", lo = kind),        *)
(*           type (as written; "" = absent), id, from, kids (sequence of names/Txt)] *)
El(k, sp, lo, t, id, from, kids) ==
  [kind |-> k, sp |-> sp, lo |-> lo, type |-> t, id |-> id, from |-> from, kids |-> kids]

(* RFC 6121 5.2.2 and stanza.NewMessage: a message without a type, or with a type    *)
(* that is not one of the five defined ones, IS of type normal.                      *)
MsgTypes == {"normal", "chat", "error", "groupchat", "headline"}
EffType(el) == IF el.kind = "msg" THEN (IF el.type \in MsgTypes THEN el.type ELSE "normal")
               ELSE el.type

---------------------------------------------------------------------------
(* The property, declaratively: the most specific matching pattern. *)

Matches(p, n) == /\ (p.sp = "" \/ p.sp = n.sp)
                 /\ (p.lo = "" \/ p.lo = n.lo)
Rank(p) == IF p.sp # "" /\ p.lo # "" THEN 3      \* exact name
           ELSE IF p.lo # "" THEN 2              \* local name only
           ELSE IF p.sp # "" THEN 1              \* namespace only
           ELSE 0                                \* bare (type) wildcard
(* candidates: only patterns of the element's own kind and type; the bare wildcard   *)
(* exists for stanzas only.                                                          *)
Candidates(P, k, t, n) ==
  {p \in P : p.kind = k /\ p.type = t /\ Matches(p, n) /\ (k = "top" => Rank(p) > 0)}
MostSpecific(P, k, t, n) ==
  LET M == Candidates(P, k, t, n)
  IN IF M = {} THEN NoPat ELSE CHOOSE p \in M : \A q \in M : Rank(q) <= Rank(p)

---------------------------------------------------------------------------
(* The lookup as the code does it: four map lookups in a fixed order. *)

Key(k, t, n, step) ==
  CASE step = 0 -> Pat(k, t, n.sp, n.lo)
    [] step = 1 -> Pat(k, t, "", n.lo)
    [] step = 2 -> Pat(k, t, n.sp, "")
    [] OTHER    -> Pat(k, t, "", "")
LastStep(k) == IF k = "top" THEN 2 ELSE 3

Cascade(P, k, t, n) ==
  IF Key(k, t, n, 0) \in P THEN Key(k, t, n, 0)
  ELSE IF Key(k, t, n, 1) \in P THEN Key(k, t, n, 1)
  ELSE IF Key(k, t, n, 2) \in P THEN Key(k, t, n, 2)
  ELSE IF k # "top" /\ Key(k, t, n, 3) \in P THEN Key(k, t, n, 3)
  ELSE NoPat

Top(P, n)     == Cascade(P, "top", "", n)
IQ(P, t, n)   == Cascade(P, "iq", t, n)
Msg(P, t, n)  == Cascade(P, "msg", t, n)
Pres(P, t, n) == Cascade(P, "pres", t, n)

---------------------------------------------------------------------------
(* Token stream of a stanza: start element, children, end element. *)

Tok(k, n) == <<k, n.sp, n.lo>>
KidToks(c) == IF IsTxt(c) THEN <<Tok("t", NoName)>> ELSE <<Tok("s", c), Tok("e", c)>>
RECURSIVE Flat(_)
Flat(ks) == IF ks = <<>> THEN <<>> ELSE KidToks(Head(ks)) \o Flat(Tail(ks))
(* the start element carries the stanza's identity (its id attribute): "the complete stanza from ITS start element" *)
StartTok(el) == <<"S", "", el.id>>
Tokens(el) == <<StartTok(el)>> \o Flat(el.kids) \o <<Tok("E", NoName)>>

Min(a, b) == IF a < b THEN a ELSE b
Max(a, b) == IF a > b THEN a ELSE b

(* what a handler that tries to read k tokens obtains: a prefix of the WHOLE stanza *)
Seen(el, k) == SubSeq(Tokens(el), 1, Min(k, Len(Tokens(el))))
Invocation(h, el, k) == [h |-> h, seen |-> Seen(el, k), eof |-> k > Len(Tokens(el))]

ElemKids(el) == SelectSeq(el.kids, LAMBDA c : ~IsTxt(c))

(* the session-independent default reply of the multiplexer *)
SUReply(el) == [name |-> "iq", type |-> "error", id |-> el.id, to |-> el.from,
                cond |-> "service-unavailable"]

(* handlers chosen for the children, in order (children without any match: none) *)
RECURSIVE Chosen(_, _, _, _)
Chosen(P, k, t, ks) ==
  IF ks = <<>> THEN <<>>
  ELSE LET h == Cascade(P, k, t, Head(ks))
       IN (IF h = NoPat THEN <<>> ELSE <<h>>) \o Chosen(P, k, t, Tail(ks))

(* Dispatch: the invocations (in order) and the elements written by the multiplexer  *)
(* itself; progs[i] = number of tokens the i-th invoked handler tries to read        *)
(* (missing entries: 0). Recording handlers write nothing.                           *)
Prog(progs, i) == IF i <= Len(progs) THEN progs[i] ELSE 0
Dispatch(P, el, progs) ==
  LET k == el.kind
      t == EffType(el)
      top == Top(P, Nm(el.sp, el.lo))
      hs == IF top # NoPat THEN <<top>>
            ELSE IF k = "iq" THEN
              (LET h == IQ(P, t, IF el.kids = <<>> THEN NoName ELSE Head(el.kids))
               IN IF h = NoPat THEN <<>> ELSE <<h>>)
            ELSE IF k \in {"msg", "pres"} THEN
              (IF el.kids = <<>> THEN Chosen(P, k, t, <<NoName>>)
               ELSE Chosen(P, k, t, ElemKids(el)))
            ELSE <<>>
  IN [inv  |-> [i \in 1..Len(hs) |->
                   IF hs[i].kind \in {"msg", "pres"} THEN Invocation(hs[i], el, Prog(progs, i))
                   ELSE [h |-> hs[i], seen |-> <<>>, eof |-> FALSE]],
      wire |-> IF top = NoPat /\ k = "iq" /\ hs = <<>> /\ t \in {"get", "set"}
               THEN <<SUReply(el)>> ELSE <<>>]

(* Nested routing: the handler of invocation number `at` of stanza a routes stanza b through the same table, *)
(* before ("pre") or after ("post") it reads what it was handed.  Every stanza is dispatched as it is alone;   *)
(* the invocations for b lie between those of a (j of a's invocations are complete when b is routed); wire2 is *)
(* what the multiplexer writes for b (to b's own encoder).  No such invocation, or not a message / presence     *)
(* handler: b is never routed.                                                                                 *)
NoNestEl == El("none", "", "", "", "", "", <<>>)
(* (da, db: the two dispatches, evaluated once by the caller) *)
EnteredD(da, at) == at >= 1 /\ at <= Len(da.inv) /\ da.inv[at].h.kind \in {"msg", "pres"}
NestedD(da, j, nested, db) ==
  IF ~nested THEN [inv |-> da.inv, wire |-> da.wire, wire2 |-> <<>>]
  ELSE [inv |-> SubSeq(da.inv, 1, j) \o db.inv \o SubSeq(da.inv, j + 1, Len(da.inv)), wire |-> da.wire, wire2 |-> db.wire]
Nested(P, a, pa, j, b, pb) == NestedD(Dispatch(P, a, pa), j, b # NoNestEl, IF b = NoNestEl THEN [inv |-> <<>>, wire |-> <<>>] ELSE Dispatch(P, b, pb))
NestedAt(P, a, pa, at, when, b, pb) ==
  LET da == Dispatch(P, a, pa)
      in == EnteredD(da, at)
  IN NestedD(da, IF when = "pre" THEN at - 1 ELSE at, in, IF in THEN Dispatch(P, b, pb) ELSE [inv |-> <<>>, wire |-> <<>>])

(* A stanza whose only content is text is neither "empty" nor has a child payload:   *)
(* the property does not say whether the type wildcard sees it; both are accepted.   *)
TextOnly(el) == el.kind \in {"msg", "pres"} /\ el.kids # <<>> /\ ElemKids(el) = <<>>
Alternatives(P, el, progs) ==
  IF TextOnly(el) /\ Top(P, Nm(el.sp, el.lo)) = NoPat
  THEN {Dispatch(P, el, progs)}
       \cup {[inv |-> <<Invocation(Cascade(P, el.kind, EffType(el), NoName), el, Prog(progs, 1))>>,
              wire |-> <<>>] : x \in IF Cascade(P, el.kind, EffType(el), NoName) # NoPat THEN {1} ELSE {}}
  ELSE {Dispatch(P, el, progs)}

---------------------------------------------------------------------------
(* Registration: a table is a function pattern -> handler identity; an attempt with  *)
(* a nil handler or for a pattern that is already registered is refused and leaves   *)
(* the table as it was.                                                              *)
RegOK(tab, p, h) == h # "nil" /\ p \notin DOMAIN tab
RegApply(tab, p, h) ==
  IF RegOK(tab, p, h) THEN [q \in DOMAIN tab \cup {p} |-> IF q = p THEN h ELSE tab[q]] ELSE tab

---------------------------------------------------------------------------
(* The step machine: registration, then one element routed step by step. *)

VARIABLES
  table,    \* function: registered pattern -> handler identity
  lastReg,  \* history: the last registration attempt [p, h, ok]
  phase,    \* "reg" | "idle" | "top" | "router" | "lookup" | "invoke" | "done"
  el,       \* the element being routed
  pos,      \* index of the child being dispatched (msg/pres), 0 = the empty-stanza pass
  name,     \* the name being looked up
  step,     \* cascade step 0..3
  chosen,   \* result of the current lookup
  buf,      \* the replay buffer: the stanza tokens read so far from the stream (the handlers' readers replay it)
  progs,    \* history: consumption programs of the invocations so far
  log,      \* handler invocations so far
  wire,     \* elements written by the multiplexer itself (for the stanza being routed)
  ctor,     \* how the multiplexer was made (constant during a run)
  uses,     \* number of elements routed before the one being routed ("afteruse": 0 or 1)
  outer,    \* nested routing: the suspended routing of the outer stanza (NoFrame: none)
  nest,     \* history of the nested routing: the inner stanza, outer invocations complete before it, what was written for it
  owner     \* history: owner[i] = 1 if invocation log[i] is for the outer (or only) stanza, 2 if for the nested one

vars == <<table, lastReg, phase, el, pos, name, step, chosen, buf, progs, log, wire, outer, nest, owner, ctor, uses>>
View == <<table, phase, el, pos, name, step, chosen, buf, progs, log, wire, outer, nest, owner, ctor, uses>>   \* lastReg is write-only history
cvars == <<ctor, uses>>
nvars == <<outer, nest, owner, ctor, uses>>

NoEl == NoNestEl
Pats == DOMAIN table
NoFrame == [phase |-> "none"]
NoNest == [el |-> NoEl, j |-> 0, wire |-> <<>>, done |-> FALSE]
Depth == IF outer = NoFrame THEN 1 ELSE 2
ElOf(d) == IF d = 2 THEN nest.el ELSE IF outer = NoFrame THEN el ELSE outer.el
(* the entries of a history sequence that belong to the stanza of depth d *)
Sel(q, d) == LET F[i \in 0..Len(q)] == IF i = 0 THEN <<>> ELSE IF owner[i] = d THEN Append(F[i - 1], q[i]) ELSE F[i - 1]
             IN F[Len(q)]
MyLog == Sel(log, Depth)
MyProgs == Sel(progs, Depth)

(* the buffer grows by what is read from the stream: the stanza's own next tokens *)
Extend(b, e, n) == IF n > Len(b) THEN b \o SubSeq(Tokens(e), Len(b) + 1, n) ELSE b
(* storage of buffer a after b was written over its beginning *)
Overwrite(a, b) == [i \in 1..Len(a) |-> IF i <= Len(b) THEN b[i] ELSE a[i]]

Init ==
  /\ table = [q \in {} |-> "h"] /\ lastReg = [p |-> NoPat, h |-> "none", ok |-> FALSE]
  /\ phase = "reg" /\ el = NoEl /\ pos = 0 /\ name = NoName /\ step = 0 /\ chosen = NoPat
  /\ buf = <<>> /\ progs = <<>> /\ log = <<>> /\ wire = <<>>
  /\ outer = NoFrame /\ nest = NoNest /\ owner = <<>>
  /\ ctor \in Ctors /\ uses = 0

(* mux.Handle / mux.IQ / mux.Message / mux.Presence: refuse nil and duplicates *)
Register(p, h) ==
  /\ phase = "reg"
  /\ lastReg' = [p |-> p, h |-> h, ok |-> RegOK(table, p, h)]
  /\ table' = RegApply(table, p, h)
  /\ UNCHANGED <<phase, el, pos, name, step, chosen, buf, progs, log, wire, nvars>>

Seal == phase = "reg" /\ phase' = "idle"
        /\ UNCHANGED <<table, lastReg, el, pos, name, step, chosen, buf, progs, log, wire, nvars>>

(* ServeMux.HandleXMPP: start with the top-level lookup on the element's own name *)
Receive(e) ==
  /\ phase = "idle"
  /\ el' = e /\ phase' = "top" /\ name' = Nm(e.sp, e.lo) /\ step' = 0
  /\ UNCHANGED <<table, lastReg, pos, chosen, buf, progs, log, wire, nvars>>

LKind == IF phase = "top" THEN "top" ELSE el.kind

(* one map lookup *)
Try ==
  /\ phase \in {"top", "lookup"}
  /\ LET key == Key(LKind, IF phase = "top" THEN "" ELSE EffType(el), name, step)
     IN IF key \in Pats
        THEN /\ chosen' = key /\ phase' = "invoke"
             /\ UNCHANGED <<step, wire, pos, name>>
        ELSE IF step < LastStep(LKind)
        THEN /\ step' = step + 1 /\ UNCHANGED <<chosen, phase, wire, pos, name>>
        ELSE \* no match at all: defaults
          /\ chosen' = NoPat /\ UNCHANGED <<step>>
          /\ IF phase = "top"
             THEN IF "RoutersMadeByNew" \in Dev /\ ctor = "zero" /\ el.kind \in StanzaKinds
                  THEN phase' = "done" /\ wire' = <<[SUReply(el) EXCEPT !.name = "panic"]>> /\ UNCHANGED <<pos, name>>   \* no router in a value New did not make
                  ELSE /\ phase' = IF el.kind \in StanzaKinds THEN "router" ELSE "done"
                       /\ UNCHANGED <<wire, pos, name>>
             ELSE IF el.kind = "iq"
             THEN /\ wire' = IF EffType(el) \in {"get", "set"} THEN <<SUReply(el)>> ELSE <<>>   \* iqFallback
                  /\ phase' = "done" /\ UNCHANGED <<pos, name>>
             ELSE /\ phase' = "router" /\ UNCHANGED <<wire, pos, name>>                        \* nopHandler: next child
  /\ UNCHANGED <<table, lastReg, el, buf, progs, log, nvars>>

(* iqRouter / forChildren: pick the next name to look up *)
Router ==
  /\ phase = "router"
  /\ IF el.kind = "iq"
     THEN /\ name' = IF el.kids = <<>> THEN NoName ELSE Head(el.kids)
          /\ pos' = 1 /\ UNCHANGED buf
          /\ phase' = "lookup" /\ step' = 0
     ELSE IF el.kids = <<>>
     THEN \* only start and end token: the type wildcard pass (once)
          IF pos = 0 THEN /\ pos' = 1 /\ name' = NoName /\ buf' = Extend(buf, el, 2) /\ phase' = "lookup" /\ step' = 0
          ELSE /\ phase' = "done" /\ UNCHANGED <<pos, name, buf, step>>
     ELSE IF pos < Len(el.kids)
     THEN \* the iterator skips the rest of the previous child, then reads the next token
          LET c == el.kids[pos + 1]
              upto == 1 + Len(Flat(SubSeq(el.kids, 1, pos))) + 1      \* tokens up to and including c's first
          IN /\ pos' = pos + 1 /\ buf' = Extend(buf, el, upto)
             /\ IF IsTxt(c) THEN UNCHANGED <<phase, name, step>>      \* not an element: skipped
                ELSE name' = c /\ phase' = "lookup" /\ step' = 0
     ELSE /\ phase' = "done" /\ buf' = Extend(buf, el, Len(Tokens(el))) /\ UNCHANGED <<pos, name, step>>
  /\ UNCHANGED <<table, lastReg, el, chosen, progs, log, wire, nvars>>

ProgChoices == IF Progs = "all" THEN 0..(Len(Tokens(el)) + 1)
               ELSE IF Progs = "few" THEN {0, 2, Len(Tokens(el))} ELSE {Len(Tokens(el))}

(* what a reader that replays buffer b and then continues on the stream of stanza e obtains from k reads *)
ReadVia(b, e, k) ==
  LET L == Len(Tokens(e))  n == Min(k, L)
  IN [view |-> [j \in 1..n |-> IF j <= Len(b) THEN b[j] ELSE Tokens(e)[j]], buf |-> Extend(b, e, n), eof |-> k > L]

(* nested routing: the running handler of the outer stanza hands stanza e to the same multiplexer; the routing  *)
(* of the outer stanza (frame: phase ph to continue in, buffer b) is suspended; j of its invocations are logged *)
CanEnter == outer = NoFrame /\ nest = NoNest /\ el.kind \in {"msg", "pres"} /\ chosen.kind \in {"msg", "pres"}
Enter(e, ph, b, j) ==
  /\ outer' = [phase |-> ph, el |-> el, pos |-> pos, name |-> name, step |-> step, chosen |-> chosen, buf |-> b, wire |-> wire]
  /\ nest' = [NoNest EXCEPT !.el = e, !.j = j]
  /\ el' = e /\ phase' = "top" /\ name' = Nm(e.sp, e.lo) /\ step' = 0 /\ pos' = 0 /\ chosen' = NoPat
  /\ buf' = <<>> /\ wire' = <<>>

(* the chosen handler runs; a message/presence handler reads k tokens through a      *)
(* fresh reader that first replays the buffer (from the start element) and then      *)
(* continues on the stream, appending to the buffer                                  *)
Invoke ==
  /\ phase = "invoke"
  /\ IF chosen.kind \in {"msg", "pres"}
     THEN \E k \in ProgChoices :
            LET r == ReadVia(buf, el, k)         \* j <= Len(buf): replayed, else read now
            IN /\ log' = Append(log, [h |-> chosen, seen |-> r.view, eof |-> r.eof])
               /\ progs' = Append(progs, k) /\ owner' = Append(owner, Depth)
               /\ \/ /\ buf' = r.buf /\ phase' = "router"
                     /\ UNCHANGED <<el, pos, name, step, chosen, wire, outer, nest>>
                  \/ /\ CanEnter                 \* "post": having read, the handler routes another stanza before it returns
                     /\ \E e \in Inner : Enter(e, "router", r.buf, Len(log) + 1)
     ELSE /\ log' = Append(log, [h |-> chosen, seen |-> <<>>, eof |-> FALSE])
          /\ progs' = Append(progs, 0) /\ owner' = Append(owner, Depth) /\ phase' = "done"
          /\ UNCHANGED <<buf, el, pos, name, step, chosen, wire, outer, nest>>
  /\ UNCHANGED <<table, lastReg, cvars>>

(* "pre": the chosen handler routes another stanza before it reads what it was handed *)
ReenterPre ==
  /\ phase = "invoke" /\ CanEnter
  /\ \E e \in Inner : Enter(e, "invoke", buf, Len(log))
  /\ UNCHANGED <<table, lastReg, progs, log, owner, cvars>>

(* the nested routing is complete: the handler of the outer stanza goes on.  Deviation SharedBuffer: the storage *)
(* of the replay buffer belongs to the multiplexer, the nested stanza was buffered over the outer one           *)
Resume ==
  /\ phase = "done" /\ outer # NoFrame
  /\ nest' = [nest EXCEPT !.wire = wire, !.done = TRUE]
  /\ phase' = outer.phase /\ el' = outer.el /\ pos' = outer.pos /\ name' = outer.name /\ step' = outer.step
  /\ chosen' = outer.chosen /\ wire' = outer.wire
  /\ buf' = IF "SharedBuffer" \in Dev THEN Overwrite(outer.buf, buf) ELSE outer.buf
  /\ outer' = NoFrame
  /\ UNCHANGED <<table, lastReg, progs, log, owner, cvars>>

(* "afteruse": the application registers further patterns on a multiplexer that has already routed an element *)
Reopen ==
  /\ phase = "done" /\ outer = NoFrame /\ ctor = "afteruse" /\ uses = 0
  /\ uses' = 1 /\ phase' = "reg"
  /\ el' = NoEl /\ pos' = 0 /\ name' = NoName /\ step' = 0 /\ chosen' = NoPat
  /\ buf' = <<>> /\ progs' = <<>> /\ log' = <<>> /\ wire' = <<>> /\ nest' = NoNest /\ owner' = <<>>
  /\ UNCHANGED <<table, lastReg, outer, ctor>>

Next ==
  \/ \E p \in Universe, h \in Hids \cup {"nil"} : Register(p, h)
  \/ Seal
  \/ \E e \in Elements : Receive(e)
  \/ Try \/ Router \/ Invoke \/ ReenterPre \/ Resume \/ Reopen

Spec == Init /\ [][Next]_vars

---------------------------------------------------------------------------
(* Properties *)

TypeOK ==
  /\ Pats \subseteq Universe /\ \A p \in Pats : table[p] \in Hids
  /\ phase \in {"reg", "idle", "top", "router", "lookup", "invoke", "done"}
  /\ step \in 0..3 /\ Len(buf) <= Len(Tokens(el))
  /\ (outer # NoFrame => outer.phase \in {"invoke", "router"} /\ nest.el \in Inner /\ ~nest.done)
  /\ Len(owner) = Len(log) /\ Len(progs) = Len(log)

(* the names a stanza is looked up under: its payload (iq), each child payload        *)
(* (message, presence), the empty name for an empty stanza                           *)
Relevant(e) ==
  IF e.kids = <<>> THEN {NoName}
  ELSE IF e.kind = "iq" THEN {Head(e.kids)}
  ELSE {e.kids[i] : i \in {j \in 1..Len(e.kids) : ~IsTxt(e.kids[j])}}

(* the handler about to run is THE most specific matching pattern of the element's   *)
(* own kind and type; and when the lookup gives up no registered pattern matches     *)
C14_MostSpecific ==
  /\ (phase = "invoke" =>
        chosen = MostSpecific(Pats, chosen.kind, chosen.type, name)
        /\ chosen.kind = (IF Top(Pats, Nm(el.sp, el.lo)) # NoPat THEN "top" ELSE el.kind)
        /\ (chosen.kind # "top" => chosen.type = EffType(el)))
  /\ (phase \in {"router", "done"} /\ el # NoEl =>
        MostSpecific(Pats, "top", "", Nm(el.sp, el.lo)) = NoPat \/ Len(MyLog) = 1)
  /\ (phase = "done" /\ Len(MyLog) = 0 /\ el.kind \in StanzaKinds =>
        \A c \in Relevant(el) : MostSpecific(Pats, el.kind, EffType(el), c) = NoPat)

(* the cascade function and the declarative rule agree on every lookup that can be asked *)
C14_CascadeIsMostSpecific ==
  phase = "idle" =>
    \A k \in {"top", "iq", "msg", "pres"}, n \in {Nm(p.sp, p.lo) : p \in Universe} \cup {Nm("C", "z")} :
      \A t \in {p.type : p \in Universe} :
        (n.sp # "" /\ n.lo # "") \/ (n = NoName /\ k # "top") =>
          Cascade(Pats, k, t, n) = MostSpecific(Pats, k, t, n)

(* determinism: among the candidates the maximum is unique *)
C14_Deterministic ==
  phase = "invoke" =>
    \A q \in Candidates(Pats, chosen.kind, chosen.type, name) : q # chosen => Rank(q) < Rank(chosen)

(* a registered handler is never replaced or dropped; nil is never registered; an    *)
(* attempt succeeds exactly when the pattern was free and the handler not nil        *)
C14_RegisterRefuses ==
  [][/\ \A p \in Pats : p \in DOMAIN table' /\ table'[p] = table[p]
     /\ (lastReg' # lastReg =>
           (lastReg'.ok <=> (lastReg'.h # "nil" /\ lastReg'.p \notin Pats))
           /\ (lastReg'.ok => table'[lastReg'.p] = lastReg'.h)
           /\ (~lastReg'.ok => table' = table))]_vars
C14_NoNil == \A p \in Pats : table[p] # "nil"

(* every message/presence handler obtains the stanza from its start element: a       *)
(* prefix of the complete token stream of ITS OWN stanza, as long as it asked for,    *)
(* whatever is buffered and whatever other stanza was routed meanwhile                *)
C14_WholeStanza ==
  \A i \in 1..Len(log) :
    log[i].h.kind \in {"msg", "pres"} =>
      LET e == ElOf(owner[i]) IN
      /\ log[i].seen = SubSeq(Tokens(e), 1, Min(progs[i], Len(Tokens(e))))
      /\ (progs[i] >= 1 => log[i].seen[1] = StartTok(e))
      /\ (log[i].eof <=> progs[i] > Len(Tokens(e)))
(* without the deviation the buffer is always a prefix of the stanza being routed *)
C14_BufferIsPrefix == Dev = {} => buf = SubSeq(Tokens(el), 1, Len(buf))

(* defaults: service-unavailable for unhandled get/set iq, nothing otherwise *)
C14_Defaults ==
  phase = "done" =>
    wire = IF el.kind = "iq" /\ EffType(el) \in {"get", "set"} /\ MyLog = <<>>
           THEN <<SUReply(el)>> ELSE <<>>

(* one invocation per child payload that has a matching pattern, in order; empty     *)
(* stanza: the type wildcard                                                         *)
C14_PerChild ==
  phase = "done" /\ el.kind \in {"msg", "pres"} /\ Top(Pats, Nm(el.sp, el.lo)) = NoPat =>
    LET ks == IF el.kids = <<>> THEN <<NoName>> ELSE ElemKids(el)
        want == SelectSeq([i \in 1..Len(ks) |-> MostSpecific(Pats, el.kind, EffType(el), ks[i])],
                          LAMBDA h : h # NoPat)
    IN [i \in 1..Len(MyLog) |-> MyLog[i].h] = want

(* the machine's outcome is the reference function the vectors are made from *)
(* (each stanza as it is alone; with a nested routing the whole log is the interleaving Nested describes) *)
C14_IsDispatch ==
  phase = "done" =>
    /\ [inv |-> MyLog, wire |-> wire] = Dispatch(Pats, el, MyProgs)
    /\ (Depth = 1 => [inv |-> log, wire |-> wire, wire2 |-> nest.wire]
                       = Nested(Pats, el, Sel(progs, 1), nest.j, nest.el, Sel(progs, 2)))

=============================================================================
