----------------------------- MODULE MCRequest -----------------------------
(* Scenario universes for the design check of Request.tla and for the driver (EmitRequest.tla writes the   *)
(* same records as ndjson): helper kind x plain / ...IQ variant x argument class x peer script.             *)
(*   argument classes   addressee none / server / full JID / service; node, item id, JID lists of 0-2,      *)
(*                      roster item with / without name and groups, file with / without content type, form  *)
(*                      nil / filled in, flags; for the ...IQ variants the caller's stanza: id given or not, *)
(*                      type unset / a response type / the opposite request type                             *)
(*   peer scripts       the reply of every shape that makes sense for the kind (well-formed plain / rich,   *)
(*                      empty, foreign payload, character data, wrong namespace, partly invalid, payload    *)
(*                      twice, four error conditions incl. one that echoes the request, error without       *)
(*                      condition, bare error), each followed by another stanza; before the reply: a        *)
(*                      response with another id, another stanza kind with the same id, the same id from    *)
(*                      another sender; silence (the caller gives up), cancellation followed by a late      *)
(*                      reply, a second reply                                                               *)
EXTENDS Request

A0 == [to |-> "", node |-> "", item |-> "", jids |-> <<>>, s |-> <<>>, form |-> "none", iqid |-> "", iqtyp |-> "", flag |-> FALSE]
Srv == "example.net"
Full == "eve@example.net/x"
Room == "room@muc.example.org"
PubSrv == "pubsub.example.net"
UpSrv == "upload.example.net"
Cid == "sha1+8f35fef110ffc5df08d579a50083ff9308fb6242@bob.xmpp.org"
J1 == "romeo@example.org"
J2 == "example.com"
J3 == "nurse@example.org/pda"

(* argument classes of the plain variants; the first one of each kind is the "core" class *)
PlainArgs(kd) ==
  CASE kd \in {"ping", "version", "time"} -> <<[A0 EXCEPT !.to = Srv], [A0 EXCEPT !.to = Full], A0>>
    [] kd = "info" -> <<[A0 EXCEPT !.to = Srv], [A0 EXCEPT !.to = Full, !.node = "n1"], [A0 EXCEPT !.node = "http://x.example/caps#abc"]>>
    [] kd = "slot" -> <<[A0 EXCEPT !.to = UpSrv, !.s = <<"a b.png", "1234", "image/png">>], [A0 EXCEPT !.to = UpSrv, !.s = <<"x", "0", "">>]>>
    [] kd \in {"cenable", "cdisable"} -> <<A0>>
    [] kd = "rosterset" -> <<[A0 EXCEPT !.jids = <<J1>>, !.s = <<"Romeo M.", "both", "Friends", "Lovers">>], [A0 EXCEPT !.jids = <<J2>>, !.s = <<"", "">>]>>
    [] kd = "rosterdel" -> <<[A0 EXCEPT !.jids = <<J1>>], [A0 EXCEPT !.jids = <<J3>>]>>
    [] kd = "blockadd" -> <<[A0 EXCEPT !.jids = <<J1>>], [A0 EXCEPT !.jids = <<J1, J2>>]>>
    [] kd = "blockremove" -> <<[A0 EXCEPT !.jids = <<J1>>], A0, [A0 EXCEPT !.jids = <<J2, J3>>]>>           \* no JID = clear the list
    [] kd = "blockreport" -> <<[A0 EXCEPT !.jids = <<J1>>, !.s = <<"urn:xmpp:reporting:abuse", "bad words">>, !.flag = TRUE],
                               [A0 EXCEPT !.jids = <<J1, J2>>, !.s = <<"", "">>],
                               [A0 EXCEPT !.jids = <<J2>>, !.s = <<"urn:xmpp:reporting:spam", "">>]>>
    [] kd = "bmpublish" -> <<[A0 EXCEPT !.jids = <<Room>>, !.item = Room, !.s = <<"The Room", "me", "">>, !.flag = TRUE],
                             [A0 EXCEPT !.jids = <<Room>>, !.item = Room, !.s = <<"", "", "secret">>]>>
    [] kd = "bmdelete" -> <<[A0 EXCEPT !.jids = <<Room>>, !.item = Room]>>
    [] kd = "pspublish" -> <<[A0 EXCEPT !.node = "n1", !.item = "i1", !.s = <<"hello <&> world">>], [A0 EXCEPT !.node = "n1", !.s = <<"">>]>>
    [] kd = "pscreate" -> <<[A0 EXCEPT !.node = "n1", !.form = "nil"], [A0 EXCEPT !.node = "n2", !.form = "f1"]>>
    [] kd = "psgetcfg" -> <<[A0 EXCEPT !.node = "n1"], [A0 EXCEPT !.node = "a/b c"]>>
    [] kd = "psgetdefault" -> <<A0>>
    [] kd = "pssetcfg" -> <<[A0 EXCEPT !.node = "n1", !.form = "f1"]>>
    [] kd = "psdelete" -> <<[A0 EXCEPT !.node = "n1", !.item = "i1", !.flag = TRUE], [A0 EXCEPT !.node = "n1", !.item = "i 2"]>>
    [] kd = "mucgetcfg" -> <<[A0 EXCEPT !.to = Room]>>
    [] kd = "mucsetcfg" -> <<[A0 EXCEPT !.to = Room, !.form = "f1"], [A0 EXCEPT !.to = Room, !.form = "nil"]>>
    [] kd = "bob" -> <<[A0 EXCEPT !.to = Full, !.item = Cid], [A0 EXCEPT !.to = Srv, !.item = "x"]>>
Range(q) == {q[i] : i \in 1..Len(q)}

(* the addressee a caller of the ...IQ variant would put into its stanza *)
IQTo(kd, a) ==
  CASE kd \in ToKinds -> a.to
    [] kd \in {"pspublish", "pscreate", "psgetcfg", "psgetdefault", "pssetcfg", "psdelete"} -> PubSrv
    [] kd \in {"cenable", "cdisable", "rosterset", "blockadd"} -> ""
    [] OTHER -> "me@example.net"                 \* the account, addressed explicitly
Opp(kd) == IF TypOf(kd) = "get" THEN "set" ELSE "get"
(* the caller's stanza: <<id, type>> classes *)
IQClasses(kd) == {<<"c1", "result">>, <<"", "">>, <<"c2", Opp(kd)>>, <<"c3", TypOf(kd)>>, <<"c4", "error">>}
IQArgs(kd, as, cls) == {[a EXCEPT !.to = IQTo(kd, a), !.iqid = c[1], !.iqtyp = c[2]] : a \in as, c \in cls}

It(i, sh) == [it |-> i, shape |-> sh]
Extra == It("extra", "")
CancelIt == It("cancel", "")
(* one reply of every shape, followed by another stanza *)
ShapeScripts(kd) == {<<It("reply", sh), Extra>> : sh \in ShapesOf(kd)}
(* correlation and release *)
CorrScripts ==
  {<<It("wrongid", "ok"), It("reply", "ok"), Extra>>,
   <<It("wrongkind", ""), It("reply", "e-inf"), Extra>>,
   <<CancelIt, It("reply", "ok"), Extra>>,
   <<Extra>>,
   <<It("wrongfrom", "ok"), It("reply", "e-forbidden"), Extra>>,
   <<It("reply", "ok"), It("reply", "e-inf"), CancelIt, Extra>>,
   <<It("wrongid", "e-su"), Extra, CancelIt>>}
(* deeper: every shape behind every kind of foreign item; every shape as a late reply; every shape from another sender *)
DeepScripts(kd) ==
  {<<It(p, "ok"), It("reply", sh), Extra>> : p \in {"wrongid", "wrongkind"}, sh \in ShapesOf(kd)}
  \cup {<<Extra, It("wrongid", sh), It("reply", sh), Extra, Extra>> : sh \in ShapesOf(kd)}
  \cup {<<CancelIt, It("reply", sh), Extra>> : sh \in ShapesOf(kd)}
  \cup {<<It("wrongfrom", sh), It("reply", "ok"), Extra>> : sh \in ShapesOf(kd)}
  \cup {<<It("reply", sh), It("reply", "ok"), Extra>> : sh \in ShapesOf(kd)}

Sc(kd, iq, as, scripts) == {[kind |-> kd, iq |-> iq, arg |-> a, script |-> s] : a \in as, s \in scripts}

CONSTANT Tier     \* which universe the design check explores / the emitter writes
Core(kd) == {PlainArgs(kd)[1]}
TinyKinds == {"ping", "version", "slot", "psgetcfg", "pspublish", "rosterset", "mucsetcfg"}
ScenariosOf(t) ==
  CASE t = "tiny" ->
         UNION {Sc(kd, FALSE, Core(kd), ShapeScripts(kd) \cup CorrScripts) : kd \in TinyKinds}
         \cup UNION {Sc(kd, TRUE, IQArgs(kd, Core(kd), {<<"c1", "result">>}), {<<It("reply", "ok"), Extra>>, <<It("reply", "e-inf"), Extra>>}) : kd \in TinyKinds \cap IQKinds}
    [] t = "quick" ->
         UNION {Sc(kd, FALSE, Range(PlainArgs(kd)), ShapeScripts(kd)) \cup Sc(kd, FALSE, Core(kd), CorrScripts) : kd \in Kinds}
         \cup UNION {Sc(kd, TRUE, IQArgs(kd, Core(kd), {<<"c1", "result">>, <<"", "">>}), ShapeScripts(kd))
                     \cup Sc(kd, TRUE, IQArgs(kd, Core(kd), IQClasses(kd)), {<<It("reply", "ok"), Extra>>, <<It("wrongid", "ok"), It("reply", "e-su"), Extra>>}) : kd \in IQKinds}
    [] t = "thorough" ->
         UNION {Sc(kd, FALSE, Range(PlainArgs(kd)), ShapeScripts(kd) \cup CorrScripts \cup DeepScripts(kd)) : kd \in Kinds}
         \cup UNION {Sc(kd, TRUE, IQArgs(kd, Range(PlainArgs(kd)), IQClasses(kd)), ShapeScripts(kd) \cup CorrScripts \cup DeepScripts(kd)) : kd \in IQKinds}
Universe == ScenariosOf(Tier)
=============================================================================
