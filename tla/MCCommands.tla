----------------------------- MODULE MCCommands -----------------------------
(* Scenario universe for the design check of Commands.tla: <= 3 stages, every reply shape *)
(* as the last stage, session id / node changing between stages, both modes.               *)
EXTENDS Commands

CmdReplies ==
  {[shape |-> "cmd", status |-> "executing", sid |-> "s1", node |-> "n1"],
   [shape |-> "cmd", status |-> "executing", sid |-> "s2", node |-> "n1"],
   [shape |-> "cmd", status |-> "executing", sid |-> "s1", node |-> "n2"],
   [shape |-> "cmd", status |-> "executing", sid |-> "s1", node |-> ""],
   [shape |-> "cmd", status |-> "completed", sid |-> "s1", node |-> "n1"],
   [shape |-> "cmd", status |-> "canceled", sid |-> "s2", node |-> "n1"],
   [shape |-> "cmd", status |-> "", sid |-> "", node |-> "n1"]}
Cont == {r \in CmdReplies : r.status = "executing" /\ r.node # ""}
BadReplies == {[shape |-> s, status |-> "", sid |-> "", node |-> ""] :
                 s \in {"error", "empty", "text", "other", "broken", "silence", "eos"}}
Replies == CmdReplies \cup BadReplies
Plans(acts, errs) == {[act |-> a, cberr |-> e] : a \in acts, e \in errs}

Universe(maxs, acts) ==
  {[mode |-> "chain", script |-> <<r>>, plan |-> <<>>] : r \in Replies}
  \cup {[mode |-> "foreach", script |-> <<r>>, plan |-> <<p>>] : r \in Replies, p \in Plans(acts, BOOLEAN)}
  \cup (IF maxs < 2 THEN {} ELSE
        {[mode |-> m, script |-> <<c, r>>, plan |-> <<p, q>>] :
            m \in {"chain", "foreach"}, c \in CmdReplies, r \in Replies, p \in Plans(acts, {FALSE}), q \in Plans({"next"}, BOOLEAN)})
  \cup (IF maxs < 3 THEN {} ELSE
        {[mode |-> m, script |-> <<c, d, r>>, plan |-> <<p, q, [act |-> "next", cberr |-> FALSE]>>] :
            m \in {"chain", "foreach"}, c \in Cont, d \in Cont, r \in Replies,
            p \in Plans(acts, {FALSE}), q \in Plans(acts, {FALSE})})

ScriptsQuick == Universe(3, {"next", "complete"})
ScriptsFull == Universe(3, {"next", "prev", "complete", "cancel"})
ScriptsLive == Universe(2, {"next", "cancel"})
ScriptsTiny ==
  Universe(1, {"next"})
  \cup {[mode |-> "foreach", script |-> <<[shape |-> "cmd", status |-> "executing", sid |-> "s1", node |-> "n1"], r>>,
         plan |-> <<[act |-> "next", cberr |-> FALSE], q>>] : r \in Replies, q \in Plans({"next"}, BOOLEAN)}
=============================================================================
