------------------------------- MODULE TrIter -------------------------------
(* Trace validation of recorded runs of the real iterator helpers               *)
(* (harness/cmd/iter, part "iter") against Iter.tla.  One trace per run:        *)
(* consumer calls and returns (program order of the consumer), page requests    *)
(* as the responder sees them on the wire, replies delivered, cancellation,     *)
(* serve-loop hooks (serve.handed / serve.resume), fallback handler calls, end. *)
(* Library-internal steps are silent; what a call returns is compared with the  *)
(* state the specification is in.                                               *)
EXTENDS Iter, Json

Trace == ndJsonDeserialize("trace.ndjson")
VARIABLES l, t0
tvars == <<vars, l, t0>>
Starts == {i \in 1..Len(Trace) : Trace[i].ev = "reset"}
EndOf(i) == Trace[i].end
IsEv(e) == l < EndOf(t0) /\ Trace[l].ev = e /\ l' = l + 1
IsHook(pt) == IsEv("hook") /\ Trace[l].point = pt
E == Trace[l]

TInit == /\ t0 \in Starts /\ l = t0 /\ InitWith(Trace[t0].mode, Trace[t0].script)

TrReset == l = t0 /\ IsEv("reset") /\ UNCHANGED vars

(* observed error classes: none, stanza (a stanza.Error), ctx (context error), other *)
ErrMatch(e, o) ==
  CASE e = None -> o = "none"
    [] e = "stanza" -> o = "stanza"
    [] e = "ctx" -> o \in {"ctx", "other"}
    [] OTHER -> o = "other"

TrCall == IsEv("call") /\ Call(E.op)
TrRetFetch == IsEv("ret") /\ E.op = "fetch" /\ RetFetch
              /\ ErrMatch(IF mode # "push" /\ ist = "failed" THEN err ELSE None, E.err)
TrRetNext == IsEv("ret") /\ E.op = "next" /\ RetNext(E.ok)
             /\ (IF E.ok THEN delivered # <<>> /\ delivered[Len(delivered)] = <<E.k, E.j>> ELSE TRUE)
TrRetItem == IsEv("ret") /\ E.op = "item" /\ cop = "item" /\ RetProbe
             /\ (IF lastnext.ok THEN delivered # <<>> /\ delivered[Len(delivered)] = <<E.k, E.j>> ELSE TRUE)
TrRetErr == IsEv("ret") /\ E.op = "err" /\ cop = "err" /\ RetProbe /\ ErrMatch(err, E.err)
TrRetClose == IsEv("ret") /\ E.op = "close" /\ RetClose /\ (closes >= 1 => E.err = "none")
TrReq == IsEv("req") /\ LET r == [cursor |-> E.cursor, dir |-> E.dir] IN SendReq(r) \/ GSend(r)
TrPeer == IsEv("peer") /\ PeerReply /\ answered + 1 = E.k
TrCancel == IsEv("cancel") /\ Cancel
TrEos == IsEv("eos") /\ EndStream
TrHanded == IsHook("serve.handed") /\ spc = "handed" /\ UNCHANGED vars
TrResume == IsHook("serve.resume") /\ Resume
TrOtherHook == IsEv("hook") /\ E.point \notin {"serve.handed", "serve.resume"} /\ UNCHANGED vars
TrHandler ==
  /\ IsEv("handler") /\ inbox # <<>>
  /\ \/ E.t = "reply" /\ ReplyToHandler /\ Hd.k = E.k
     \/ E.t = "item" /\ ItemToHandler /\ Hd.k = E.k /\ Hd.j = E.j
TrServeRet == IsEv("serve_ret") /\ spc = "ended" /\ UNCHANGED vars
(* what paging.Iter reports about the page once iteration is finished (manual paging) *)
TrPageInfo ==
  /\ IsEv("pageinfo") /\ ist \in {"exhausted", "closed"} /\ err = None
  /\ LET p == Pg(P) IN
     /\ E.next = nextc
     /\ E.first = (IF p.n >= 1 THEN 0 - P ELSE 0) /\ E.prev = E.first     \* `first` cursors are logged as -k
     /\ E.last = (IF p.more THEN P ELSE 0)
     /\ E.count = 7 /\ E.index = (IF p.n >= 1 THEN 3 * P ELSE 0 - 1)
     /\ (E.next # 0 => E.max = 5)         \* the follow-up request keeps the page size given to the iterator
  /\ UNCHANGED vars
(* the cursor the finished iterator names for the next page (manual paging, tracked history queries) *)
TrNextC == IsEv("nextc") /\ (IF ist \in {"exhausted", "closed"} /\ err = None THEN E.next = nextc ELSE TRUE) /\ UNCHANGED vars
(* end of the run: nothing borrowed, the serve loop is not inside a response, every call *)
(* returned, the library's goroutine has finished                                         *)
TrEnd ==
  /\ IsEv("end") /\ cop = None /\ spc \in {"read", "ended"} /\ ~held
  /\ opened = released /\ released = resumed /\ gpc \in {None, "done"}
  /\ UNCHANGED vars

Silent ==
  /\ \/ ReadEos \/ Handoff \/ Examine \/ SendFail \/ CtxDone \/ EndOfPage \/ NextEnd \/ MayRelease \/ DoClose
     \/ (cop = "next" /\ nres = None /\ mode # "push" /\ ist = "open" /\ pos < Pg(P).n /\ NextItem(<<P, pos + 1>>))
     \/ GFail \/ GExamine \/ GRemove \/ PushOffer \/ NextTake
  /\ UNCHANGED l

TNext ==
  /\ l < EndOf(t0)
  /\ \/ TrReset \/ TrCall \/ TrRetFetch \/ TrRetNext \/ TrRetItem \/ TrRetErr \/ TrRetClose \/ TrReq \/ TrPeer
     \/ TrCancel \/ TrEos \/ TrHanded \/ TrResume \/ TrOtherHook \/ TrHandler \/ TrServeRet \/ TrPageInfo \/ TrNextC \/ TrEnd
     \/ Silent
  /\ UNCHANGED t0
  /\ Safety'

TSpec == TInit /\ [][TNext]_tvars
HW == TLCSet(t0, IF TLCGet(t0) < l THEN l ELSE TLCGet(t0))
Rejected == {i \in Starts : TLCGet(i) # EndOf(i)}
Accepted ==
  \/ Rejected = {}
  \/ PrintT(<<"REJECTED", {<<Trace[i].t, TLCGet(i)>> : i \in Rejected}>>) /\ FALSE
ASSUME \A i \in Starts : TLCSet(i, 0)
=============================================================================
