----------------------------- MODULE TrStyling -----------------------------
(* Trace validation of recorded decoder runs (harness/cmd/styling) against the C17       *)
(* monitor of Styling.tla.  Batch scheme of TrNegotiation: one initial state per trace,  *)
(* register t0 keeps the furthest line consumed, every rejected trace is printed with    *)
(* the line of the observation that could not be accepted and the violated clause.       *)
(* The reset line of a trace carries the document (input), the API, the delivery the     *)
(* decoder saw (rd, eof: see Styling.tla) and, for every run but the reference run of    *)
(* the document, the observations of the reference run (ref).                            *)
(* form = "octets": input, token data and info are sequences of octets; form = "runs"   *)
(* (documents with very long lines): they are sequences of runs <<octet, count>> and     *)
(* the monitor judges them in that form (Styling.tla, "the run-length form").            *)
EXTENDS Styling, Json

Trace == ndJsonDeserialize("trace.ndjson")

VARIABLES l, t0
tvars == <<vars, l, t0>>

Starts == {i \in 1..Len(Trace) : Trace[i].ev = "reset"}
EndOf(i) == Trace[i].end

TInit ==
  /\ t0 \in Starts /\ l = t0
  /\ st = Start(<<>>, "decoder", <<>>) /\ out = <<>> /\ lastNL = FALSE

TrReset ==
  /\ l = t0 /\ Trace[l].ev = "reset"
  /\ st' = StartDF(Trace[l].form = "runs", Trace[l].input, Trace[l].api, Trace[l].ref, Trace[l].rd, Trace[l].eof)
  /\ l' = l + 1
  /\ UNCHANGED <<out, lastNL>>

(* one observation of the real decoder: accepted iff the monitor's step does not reject *)
TrObserve ==
  /\ l > t0
  /\ LET e == Trace[l]
         s2 == Step(st, e)
     IN /\ s2.why = ""
        /\ st' = s2
        /\ out' = IF e.ev = "tok" THEN DCat(st.rle, out, e.data) ELSE out
        /\ lastNL' = IF e.ev = "tok" THEN EndsLineF(st.rle, e.data) ELSE lastNL
  /\ l' = l + 1

(* the invariants of the design check must also hold along real traces *)
Inv == C17_Lossless /\ (st.api = "decoder" => C17_WellBracketed)

TNext ==
  /\ l < EndOf(t0)
  /\ (TrReset \/ TrObserve)
  /\ UNCHANGED t0
  /\ Inv'

TSpec == TInit /\ [][TNext]_tvars

HW == TLCSet(t0, IF TLCGet(t0) < l THEN l ELSE TLCGet(t0))
(* a trace is accepted when all its lines were consumed and its last line was the end   *)
Rejected == {i \in Starts : TLCGet(i) # EndOf(i)}
Why(i) == WhyNotDF(Trace[i].form = "runs", Trace[i].input, Trace[i].api, Trace[i].ref, Trace[i].rd, Trace[i].eof, SubSeq(Trace, i + 1, EndOf(i) - 1))
Accepted ==
  \/ Rejected = {}
  \/ PrintT(<<"REJECTED", {<<Trace[i].t, TLCGet(i), Why(i)>> : i \in Rejected}>>) /\ FALSE
ASSUME \A i \in Starts : TLCSet(i, 0)
=============================================================================
