CONSTANTS
  Procs = {"a", "b", "s"}
  Programs <- ProgramsMC
  PeerScripts <- PeerScriptsMC
  MaxChunks = 2
  Dev = {}
SPECIFICATION MCSpec
INVARIANT C10_OneCloseTag
INVARIANT C10_NothingAfterClose
INVARIANT C10_ClosedIffTag
INVARIANT C10_SendersRefused
INVARIANT C10_BothClosedAfterServe
INVARIANT C10_ServeReturnsForCause
INVARIANT C10_ServeRetTellsCause
INVARIANT C05_Contiguous
INVARIANT C05_NoStrayWrites
INVARIANT C05_StaleHandleDead
PROPERTY C05_WritesUnderLock
PROPERTY C10_DeadlineKept
PROPERTY C10_ReplacedDeadlineInert
CHECK_DEADLOCK FALSE
