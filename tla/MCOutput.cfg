CONSTANTS
  Procs = {"a", "b", "s"}
  Programs <- ProgramsMC
  PeerScripts <- PeerScriptsMC
  MaxChunks = 2
  Dev = {}
SPECIFICATION Spec
INVARIANT C10_OneCloseTag
INVARIANT C10_NothingAfterClose
INVARIANT C10_ClosedIffTag
INVARIANT C10_SendersRefused
INVARIANT C10_BothClosedAfterServe
INVARIANT C05_Contiguous
INVARIANT C05_NoStrayWrites
PROPERTY C05_WritesUnderLock
CHECK_DEADLOCK FALSE
